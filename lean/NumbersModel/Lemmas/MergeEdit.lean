/-
Helper lemmas for the structural edits of Model/Merge.lean (C12): `Table._move_merges`
(fixes/C12-merge-map-shift.patch) keeps the table consistent, with the rectangle list transformed
by the specification `shiftRects`.
-/
import NumbersModel.Lemmas.Merge
set_option linter.unusedSimpArgs false
set_option linter.unusedVariables false
namespace NumbersModel.Merge
open NumbersModel NumbersModel.Grid

/-! ### the specification: what an edit does to the merged rectangles -/

/-- where the rows (columns) `lo..hi` of a rectangle are after `n` new ones were inserted before
    index `start`: an index moves by `n` iff it is at or after `start`.  So a span entirely at or
    after `start` moves, a span with `start` strictly inside (after its first, at or before its last
    index) grows by `n`, a span entirely before `start` is untouched. -/
def insSpan (start n lo hi : Int) : Int × Int :=
  (if start ≤ lo then lo + n else lo, if start ≤ hi then hi + n else hi)

/-- where the rows (columns) `lo..hi` of a rectangle are after the `n` indices `start..start+n-1`
    were deleted: the new first index is that of the first surviving index at or after `lo`, the new
    last index that of the last surviving index at or before `hi` (surviving indices below `start`
    stay, those from `start + n` on move down by `n`).  Nothing survives iff the result has
    `last < first`. -/
def delSpan (start n lo hi : Int) : Int × Int :=
  (if lo < start then lo else if lo < start + n then start else lo - n,
   if hi < start then hi else if hi < start + n then start - 1 else hi - n)

/-- one rectangle under an insertion (`ins`) / deletion of `n` rows (`rows`) / columns at `start`:
    the span of the edited axis is transformed, the other axis is kept; a rectangle deleted entirely,
    or one that lost rows (columns) and is down to a single cell, stops being a merge. -/
def shiftRectSpec (rows ins : Bool) (start n : Int) (q : Rct) : Option Rct :=
  let lo := if rows then q.r0 else q.c0
  let hi := if rows then q.r1 else q.c1
  let p := if ins then insSpan start n lo hi else delSpan start n lo hi
  let q' : Rct := if rows then (p.1, q.c0, p.2, q.c1) else (q.r0, p.1, q.r1, p.2)
  if p.2 < p.1 then none
  else if p.2 - p.1 < hi - lo ∧ q'.r0 = q'.r1 ∧ q'.c0 = q'.c1 then none
  else some q'

/-- **the specification**: the merged rectangles of an `nr × nc` table after an edit (`start`
    defaults: insertions append, deletions remove the last `n`). -/
def shiftRects (op : Grid.Op Nat) (nr nc : Int) (qs : List Rct) : List Rct :=
  match op with
  | .write _ _ _ => qs
  | .addRow n st _ => qs.filterMap (shiftRectSpec true true (startOrI st nr) n)
  | .addCol n st _ => qs.filterMap (shiftRectSpec false true (startOrI st nc) n)
  | .delRow n st => qs.filterMap (shiftRectSpec true false (startOrI st (nr - n)) n)
  | .delCol n st => qs.filterMap (shiftRectSpec false false (startOrI st (nc - n)) n)

def Rct.Nonempty (q : Rct) : Prop := q.r0 ≤ q.r1 ∧ q.c0 ≤ q.c1

theorem Rct.InTable.nonempty {q : Rct} {nr nc : Int} (h : q.InTable nr nc) : q.Nonempty := ⟨h.2.1, h.2.2.2.2.1⟩

theorem shiftSpan_ins (start n lo hi : Int) (hn : 0 ≤ n) : shiftSpan start n lo hi = insSpan start n lo hi := by
  simp only [shiftSpan, insSpan]
  by_cases h : n > 0
  · simp only [h, if_true]
  · have : n = 0 := by omega
    subst this
    simp only [h, if_false, Prod.mk.injEq]
    constructor <;> omega

theorem shiftSpan_del (start n lo hi : Int) (hn : 0 ≤ n) : shiftSpan start (-n) lo hi = delSpan start n lo hi := by
  have h : ¬ (-n > 0) := by omega
  simp only [shiftSpan, delSpan, h, if_false, Prod.mk.injEq]
  constructor <;> omega

/-- the code's arithmetic (`count > 0`: insert, else delete `-count`, with `max`) is the specification. -/
theorem shiftRect_ins (rows : Bool) (start n : Int) (hn : 0 ≤ n) (q : Rct) :
    shiftRect rows start n q = shiftRectSpec rows true start n q := by
  obtain ⟨a, b, c, d⟩ := q
  simp only [shiftRect, shiftRectSpec, shiftSpan_ins _ _ _ _ hn, Rct.r0, Rct.r1, Rct.c0, Rct.c1, if_true, gt_iff_lt]
  by_cases h1 : (insSpan start n (if rows = true then a else b) (if rows = true then c else d)).2 <
      (insSpan start n (if rows = true then a else b) (if rows = true then c else d)).1
  · simp only [h1, true_or, if_true]
  · simp only [h1, false_or, if_false]

theorem shiftRect_del (rows : Bool) (start n : Int) (hn : 0 ≤ n) (q : Rct) :
    shiftRect rows start (-n) q = shiftRectSpec rows false start n q := by
  obtain ⟨a, b, c, d⟩ := q
  simp only [shiftRect, shiftRectSpec, shiftSpan_del _ _ _ _ hn, Rct.r0, Rct.r1, Rct.c0, Rct.c1, Bool.false_eq_true,
    if_false, gt_iff_lt]
  by_cases h1 : (delSpan start n (if rows = true then a else b) (if rows = true then c else d)).2 <
      (delSpan start n (if rows = true then a else b) (if rows = true then c else d)).1
  · simp only [h1, true_or, if_true]
  · simp only [h1, false_or, if_false]

/-! ### arithmetic of the specification -/

theorem Rct.disjoint_iff (a b : Rct) (ha : a.Nonempty) (hb : b.Nonempty) :
    Rct.Disjoint a b ↔ (a.r1 < b.r0 ∨ b.r1 < a.r0 ∨ a.c1 < b.c0 ∨ b.c1 < a.c0) := by
  obtain ⟨a1, a2⟩ := ha
  obtain ⟨b1, b2⟩ := hb
  constructor
  · intro h
    by_contra hn
    apply h (max a.r0 b.r0, max a.c0 b.c0)
    rw [Rct.has_iff, Rct.has_iff]
    simp only
    omega
  · intro h k hk
    rw [Rct.has_iff, Rct.has_iff] at hk
    omega

/-- the arguments of an accepted edit: `n` rows (`rows`) / columns inserted before (`ins`) or deleted
    from `start` in an `nr × nc` table, giving an `nr' × nc'` table. -/
structure EditOK (rows ins : Bool) (start n nr nc nr' nc' : Int) : Prop where
  n0 : 0 ≤ n
  s0 : 0 ≤ start
  fit : (ins = true → start ≤ (if rows then nr else nc)) ∧ (ins = false → start + n ≤ (if rows then nr else nc))
  dr : nr' = if rows then (if ins then nr + n else nr - n) else nr
  dc : nc' = if rows then nc else (if ins then nc + n else nc - n)

theorem spec_some {rows ins : Bool} {start n : Int} {q q' : Rct} (h : shiftRectSpec rows ins start n q = some q') :
    q' = (if rows then
            ((if ins then insSpan start n q.r0 q.r1 else delSpan start n q.r0 q.r1).1, q.c0,
             (if ins then insSpan start n q.r0 q.r1 else delSpan start n q.r0 q.r1).2, q.c1)
          else
            (q.r0, (if ins then insSpan start n q.c0 q.c1 else delSpan start n q.c0 q.c1).1,
             q.r1, (if ins then insSpan start n q.c0 q.c1 else delSpan start n q.c0 q.c1).2)) ∧
    (if rows then
        (if ins then insSpan start n q.r0 q.r1 else delSpan start n q.r0 q.r1).1 ≤
        (if ins then insSpan start n q.r0 q.r1 else delSpan start n q.r0 q.r1).2
     else
        (if ins then insSpan start n q.c0 q.c1 else delSpan start n q.c0 q.c1).1 ≤
        (if ins then insSpan start n q.c0 q.c1 else delSpan start n q.c0 q.c1).2) := by
  cases rows <;> cases ins <;> simp only [shiftRectSpec, if_true, Bool.false_eq_true, if_false] at h ⊢ <;>
    (split_ifs at h <;> first | (injection h with h; subst h; exact ⟨rfl, by omega⟩) | (cases h))

theorem spec_inTable {rows ins : Bool} {start n nr nc nr' nc' : Int} (he : EditOK rows ins start n nr nc nr' nc')
    {q q' : Rct} (hq : q.InTable nr nc) (h : shiftRectSpec rows ins start n q = some q') : q'.InTable nr' nc' := by
  obtain ⟨e1, e2, ⟨e3, e3'⟩, e4, e5⟩ := he
  obtain ⟨h1, h2⟩ := spec_some h
  obtain ⟨i1, i2, i3, i4, i5, i6⟩ := hq
  subst h1
  cases rows <;> cases ins <;>
    simp only [if_true, Bool.false_eq_true, if_false, insSpan, delSpan, forall_const, IsEmpty.forall_iff, reduceCtorEq] at h2 e3 e3' e4 e5 ⊢ <;>
    simp only [Rct.InTable, Rct.r0, Rct.r1, Rct.c0, Rct.c1] at * <;> omega

theorem spec_nonempty {rows ins : Bool} {start n : Int} {q q' : Rct} (hq : q.Nonempty)
    (h : shiftRectSpec rows ins start n q = some q') : q'.Nonempty := by
  obtain ⟨h1, h2⟩ := spec_some h
  obtain ⟨i1, i2⟩ := hq
  subst h1
  cases rows <;> simp only [if_true, Bool.false_eq_true, if_false] at h2 ⊢ <;>
    simp only [Rct.Nonempty, Rct.r0, Rct.r1, Rct.c0, Rct.c1] at * <;> omega

theorem spec_disjoint {rows ins : Bool} {start n : Int} (hn : 0 ≤ n) {a b a' b' : Rct} (ha : a.Nonempty) (hb : b.Nonempty)
    (hd : Rct.Disjoint a b) (h1 : shiftRectSpec rows ins start n a = some a')
    (h2 : shiftRectSpec rows ins start n b = some b') : Rct.Disjoint a' b' := by
  rw [Rct.disjoint_iff _ _ (spec_nonempty ha h1) (spec_nonempty hb h2)]
  rw [Rct.disjoint_iff _ _ ha hb] at hd
  obtain ⟨x1, x2⟩ := spec_some h1
  obtain ⟨y1, y2⟩ := spec_some h2
  obtain ⟨i1, i2⟩ := ha
  obtain ⟨j1, j2⟩ := hb
  subst x1; subst y1
  cases rows <;> cases ins <;>
    simp only [if_true, Bool.false_eq_true, if_false, insSpan, delSpan] at x2 y2 ⊢ <;>
    simp only [Rct.r0, Rct.r1, Rct.c0, Rct.c1] at * <;> omega

/-- a rectangle that ends before the edit is untouched. -/
theorem spec_before (rows ins : Bool) (start n : Int) (hn : 0 ≤ n) (q : Rct) (hq : q.Nonempty)
    (hb : (if rows then q.r1 else q.c1) < start) : shiftRectSpec rows ins start n q = some q := by
  obtain ⟨a, b, c, d⟩ := q
  obtain ⟨i1, i2⟩ := hq
  simp only [Rct.r0, Rct.r1, Rct.c0, Rct.c1] at i1 i2 hb
  cases rows <;> cases ins <;>
    simp only [if_true, Bool.false_eq_true, if_false, shiftRectSpec, insSpan, delSpan, Rct.r0, Rct.r1, Rct.c0, Rct.c1] at hb ⊢
  all_goals
    split_ifs <;> first | rfl | (exfalso; omega) | (simp only [Option.some.injEq, Prod.mk.injEq]; omega)

/-! ### the specification, cell by cell: rectangles move with their cells -/

/-- the row (column) index of a position. -/
def axisOf (rows : Bool) (k : Key) : Int := if rows then k.1 else k.2
/-- the position with its row (column) index replaced. -/
def moveKey (rows : Bool) (f : Int → Int) (k : Key) : Key := if rows then (f k.1, k.2) else (k.1, f k.2)

/-- **insertion, cell by cell**: a rectangle is never dropped; an old cell lies in the rectangle iff its new
    position (indices from `start` on move by `n`) lies in the new rectangle; and a *new* cell lies in the new
    rectangle iff the insertion was strictly inside the old one (after its first, at or before its last
    row / column) and the cell is within the rectangle's other axis. -/
theorem spec_ins_cells (rows : Bool) (start n : Int) (hn : 0 ≤ n) (q : Rct) (hq : q.Nonempty) :
    ∃ q', shiftRectSpec rows true start n q = some q' ∧
      (∀ k : Key, q.has k = true ↔ q'.has (moveKey rows (fun i => if start ≤ i then i + n else i) k) = true) ∧
      (∀ k : Key, start ≤ axisOf rows k → axisOf rows k < start + n →
        (q'.has k = true ↔ ((if rows then q.r0 else q.c0) < start ∧ start ≤ (if rows then q.r1 else q.c1) ∧
          (if rows then q.c0 ≤ k.2 ∧ k.2 ≤ q.c1 else q.r0 ≤ k.1 ∧ k.1 ≤ q.r1)))) := by
  obtain ⟨a, b, c, d⟩ := q
  obtain ⟨h1, h2⟩ := hq
  simp only [Rct.r0, Rct.r1, Rct.c0, Rct.c1] at h1 h2
  cases rows
  · refine ⟨(a, (insSpan start n b d).1, c, (insSpan start n b d).2), ?_, ?_, ?_⟩
    · simp only [shiftRectSpec, Rct.r0, Rct.r1, Rct.c0, Rct.c1, Bool.false_eq_true, if_false, if_true, insSpan]
      rw [if_neg (by omega), if_neg (by omega)]
    · intro k
      rw [Rct.has_iff, Rct.has_iff]
      simp only [Rct.r0, Rct.r1, Rct.c0, Rct.c1, moveKey, insSpan, Bool.false_eq_true, if_false]
      omega
    · intro k hk1 hk2
      rw [Rct.has_iff]
      simp only [Rct.r0, Rct.r1, Rct.c0, Rct.c1, axisOf, insSpan, Bool.false_eq_true, if_false] at hk1 hk2 ⊢
      omega
  · refine ⟨((insSpan start n a c).1, b, (insSpan start n a c).2, d), ?_, ?_, ?_⟩
    · simp only [shiftRectSpec, Rct.r0, Rct.r1, Rct.c0, Rct.c1, if_true, insSpan]
      rw [if_neg (by omega), if_neg (by omega)]
    · intro k
      rw [Rct.has_iff, Rct.has_iff]
      simp only [Rct.r0, Rct.r1, Rct.c0, Rct.c1, moveKey, insSpan, if_true]
      omega
    · intro k hk1 hk2
      rw [Rct.has_iff]
      simp only [Rct.r0, Rct.r1, Rct.c0, Rct.c1, axisOf, insSpan, if_true] at hk1 hk2 ⊢
      omega

/-- **deletion, cell by cell**: if the rectangle remains, a surviving old cell (row / column index outside
    `start .. start+n-1`) lies in it iff its new position (indices from `start + n` on move down by `n`) lies in
    the new rectangle; if it ceases to be a merge, it lost a row / column and at most one of its cells survives. -/
theorem spec_del_cells (rows : Bool) (start n : Int) (hn : 0 ≤ n) (q : Rct) (hq : q.Nonempty) :
    match shiftRectSpec rows false start n q with
    | some q' => ∀ k : Key, (axisOf rows k < start ∨ start + n ≤ axisOf rows k) →
        (q.has k = true ↔ q'.has (moveKey rows (fun i => if start + n ≤ i then i - n else i) k) = true)
    | none =>
      (∃ i, (if rows then q.r0 else q.c0) ≤ i ∧ i ≤ (if rows then q.r1 else q.c1) ∧ start ≤ i ∧ i < start + n) ∧
      (∀ k k' : Key, (axisOf rows k < start ∨ start + n ≤ axisOf rows k) →
        (axisOf rows k' < start ∨ start + n ≤ axisOf rows k') → q.has k = true → q.has k' = true → k = k') := by
  obtain ⟨a, b, c, d⟩ := q
  obtain ⟨h1, h2⟩ := hq
  simp only [Rct.r0, Rct.r1, Rct.c0, Rct.c1] at h1 h2
  cases hs : shiftRectSpec rows false start n (a, b, c, d) with
  | some q' =>
    obtain ⟨e, hle⟩ := spec_some hs
    subst e
    intro k hk
    rw [Rct.has_iff, Rct.has_iff]
    cases rows <;>
      simp only [Rct.r0, Rct.r1, Rct.c0, Rct.c1, moveKey, axisOf, delSpan, Bool.false_eq_true, if_false, if_true] at hk hle ⊢ <;>
      omega
  | none =>
    cases rows <;>
      simp only [shiftRectSpec, Rct.r0, Rct.r1, Rct.c0, Rct.c1, delSpan, Bool.false_eq_true, if_false, if_true] at hs ⊢
    all_goals
      split_ifs at hs
      all_goals
        refine ⟨?_, ?_⟩
        · first
          | exact ⟨start, by omega⟩
          | exact ⟨(if rows then a else b), by omega⟩
          | exact ⟨a, by omega⟩ | exact ⟨b, by omega⟩ | exact ⟨c, by omega⟩ | exact ⟨d, by omega⟩
        · intro k k' hk hk' hq hq'
          rw [Rct.has_iff] at hq hq'
          obtain ⟨k1, k2⟩ := k
          obtain ⟨k1', k2'⟩ := k'
          simp only [Rct.r0, Rct.r1, Rct.c0, Rct.c1, axisOf, Bool.false_eq_true, if_false, if_true, Prod.mk.injEq] at *
          omega

/-! ### un-merging, merging again -/

theorem cellAt_unmerge (d : List (List (CellM MCell))) (a b : Nat) :
    cellAt (unmerge d) a b = (cellAt d a b).map (fun cell =>
      if cell.val.ph then (⟨(a : Int), (b : Int), emptyCell⟩ : CellM MCell)
      else { cell with val := setMerge none cell.val }) := by
  unfold cellAt unmerge
  rw [List.getElem?_mapIdx]
  cases d[a]? with
  | none => rfl
  | some l => simp only [Option.map_some, Option.bind_some, List.getElem?_mapIdx]

theorem unmerge_shape (d : List (List (CellM MCell))) : (unmerge d).map List.length = d.map List.length := by
  apply List.ext_getElem?; intro i
  simp only [unmerge, List.getElem?_map, List.getElem?_mapIdx]
  cases d[i]? <;> simp

/-- after the un-merge sweep over a well-formed grid (whatever its cells' merge attributes were) the
    table is consistent with the empty map. -/
theorem unmerge_consistent (g : Grid.State MCell) (h : Grid.WF g) :
    Consistent { grid := { g with data := unmerge g.data }, mmap := [] } := by
  have hcell : ∀ a b cell, cellAt (unmerge g.data) a b = some cell → ∃ c0, cellAt g.data a b = some c0 ∧
      cell = (if c0.val.ph then (⟨(a : Int), (b : Int), emptyCell⟩ : CellM MCell)
              else { c0 with val := setMerge none c0.val }) := by
    intro a b cell hc
    rw [cellAt_unmerge] at hc
    cases h0 : cellAt g.data a b with
    | none => rw [h0] at hc; cases hc
    | some c0 => rw [h0] at hc; injection hc with hc; exact ⟨c0, rfl, hc.symm⟩
  refine ⟨?_, ?_, ?_, ?_, ?_⟩
  · refine wf_of_shape g { g with data := unmerge g.data } h rfl rfl (unmerge_shape g.data) ?_
    intro a b cell hc
    obtain ⟨c0, h0, rfl⟩ := hcell a b cell hc
    by_cases hp : c0.val.ph = true
    · simp only [hp, if_true]; exact ⟨trivial, trivial⟩
    · simp only [hp, if_false]; exact wf_cellAt_pos g h a b c0 h0
  · intro q hq; simp [rectsOf, anchorsOf] at hq
  · simp [rectsOf, anchorsOf]
  · intro k; simp [rectsOf, anchorsOf, MMap.get, genGet]
  · intro a b cell hc
    obtain ⟨c0, h0, rfl⟩ := hcell a b cell hc
    simp only [MMap.get]
    by_cases hp : c0.val.ph = true
    · simp only [hp, if_true]; rfl
    · simp only [hp, if_false]
      have hp' : c0.val.ph = false := by cases hx : c0.val.ph <;> simp_all
      obtain ⟨r, c, x⟩ := c0
      obtain ⟨ph, v, m, sz, rc⟩ := x
      simp only at hp'
      subst hp'
      rfl

/-- `mergeList_consistent` for rectangles given with integer coordinates. -/
theorem mergeList_consistent_int (qs : List Rct) (s : MState) (hs : Consistent s)
    (hin : ∀ q ∈ qs, q.InTable s.grid.numRows s.grid.numCols)
    (hdis : ∀ q ∈ qs, ∀ p ∈ rectsOf s.mmap, Rct.Disjoint p q)
    (hpw : qs.Pairwise Rct.Disjoint) :
    ∃ s', mergeList s qs = .ok s' ∧ Consistent s' ∧ rectsOf s'.mmap = rectsOf s.mmap ++ qs ∧
      s'.grid.numRows = s.grid.numRows ∧ s'.grid.numCols = s.grid.numCols := by
  let ns : List (Nat × Nat × Nat × Nat) := qs.map (fun q => (q.r0.toNat, q.c0.toNat, q.r1.toNat, q.c1.toNat))
  have hmap : ns.map (fun q => (((q.1 : Int), (q.2.1 : Int), (q.2.2.1 : Int), (q.2.2.2 : Int)) : Rct)) = qs := by
    simp only [ns, List.map_map]
    conv => rhs; rw [← List.map_id qs]
    apply List.map_congr_left
    intro q hq
    obtain ⟨i1, i2, i3, i4, i5, i6⟩ := hin q hq
    obtain ⟨a, b, c, d⟩ := q
    simp only [Rct.r0, Rct.r1, Rct.c0, Rct.c1] at i1 i2 i3 i4 i5 i6
    simp only [Function.comp, Rct.r0, Rct.r1, Rct.c0, Rct.c1, id, Prod.mk.injEq]
    omega
  have := mergeList_consistent ns s hs
    (by
      intro n hn
      have : (((n.1 : Int), (n.2.1 : Int), (n.2.2.1 : Int), (n.2.2.2 : Int)) : Rct) ∈ qs := by
        rw [← hmap]; exact List.mem_map.mpr ⟨n, hn, rfl⟩
      exact hin _ this)
    (by
      intro n hn
      have : (((n.1 : Int), (n.2.1 : Int), (n.2.2.1 : Int), (n.2.2.2 : Int)) : Rct) ∈ qs := by
        rw [← hmap]; exact List.mem_map.mpr ⟨n, hn, rfl⟩
      exact hdis _ this)
    (by rw [hmap]; exact hpw)
  have hmap' : ns.map (fun q => ((q.1 : Int), (q.2.1 : Int), (q.2.2.1 : Int), (q.2.2.2 : Int))) = qs := hmap
  rw [hmap'] at this
  exact this

/-! ### values -/

/-- the position is a non-anchor cell of one of the rectangles. -/
def Covered (qs : List Rct) (k : Key) : Prop := ∃ q ∈ qs, q.has k = true ∧ k ≠ q.origin

/-- `merge_cells` of a list, with the values: every cell is still there; a non-anchor cell of one of the
    new rectangles is empty, every other cell keeps its value. -/
theorem mergeList_vals_int : ∀ (qs : List Rct) (s : MState), Consistent s →
    (∀ q ∈ qs, q.InTable s.grid.numRows s.grid.numCols) →
    (∀ q ∈ qs, ∀ p ∈ rectsOf s.mmap, Rct.Disjoint p q) →
    qs.Pairwise Rct.Disjoint →
    ∃ s', mergeList s qs = .ok s' ∧ Consistent s' ∧ rectsOf s'.mmap = rectsOf s.mmap ++ qs ∧
      s'.grid.numRows = s.grid.numRows ∧ s'.grid.numCols = s.grid.numCols ∧
      (∀ a b cell, cellAt s.grid.data a b = some cell → ∃ cell', cellAt s'.grid.data a b = some cell' ∧
        (Covered qs ((a : Int), (b : Int)) → cell'.val.val = 0) ∧
        (¬ Covered qs ((a : Int), (b : Int)) → cell'.val.val = cell.val.val)) := by
  intro qs
  induction qs with
  | nil =>
    intro s hs _ _ _
    refine ⟨s, rfl, hs, by simp, rfl, rfl, ?_⟩
    intro a b cell hc
    exact ⟨cell, hc, (fun h => by obtain ⟨q, hq, _⟩ := h; cases hq), (fun _ => rfl)⟩
  | cons q rest ih =>
    intro s hs hin hdis hpw
    rw [List.pairwise_cons] at hpw
    obtain ⟨i1, i2, i3, i4, i5, i6⟩ := hin q List.mem_cons_self
    obtain ⟨a0, b0, c0, d0⟩ := q
    simp only [Rct.r0, Rct.r1, Rct.c0, Rct.c1] at i1 i2 i3 i4 i5 i6
    obtain ⟨r0, rfl⟩ := Int.eq_ofNat_of_zero_le i1
    obtain ⟨cc0, rfl⟩ := Int.eq_ofNat_of_zero_le i4
    obtain ⟨r1, rfl⟩ := Int.eq_ofNat_of_zero_le (by omega : 0 ≤ c0)
    obtain ⟨c1, rfl⟩ := Int.eq_ofNat_of_zero_le (by omega : 0 ≤ d0)
    obtain ⟨s1, h1, h2, h3, h4, h5, h6⟩ := mergeOne_consistent s hs r0 cc0 r1 c1 _ rfl
      (hin _ List.mem_cons_self) (hdis _ List.mem_cons_self)
    obtain ⟨s2, g1, g2, g3, g4, g5, g6⟩ := ih s1 h2
      (by intro q hq; rw [h4, h5]; exact hin q (List.mem_cons_of_mem _ hq))
      (by
        intro q hq p hp
        rw [h3] at hp
        rcases List.mem_append.mp hp with hp | hp
        · exact hdis q (List.mem_cons_of_mem _ hq) p hp
        · simp only [List.mem_singleton] at hp
          subst hp
          exact hpw.1 _ hq)
      hpw.2
    refine ⟨s2, ?_, g2, ?_, by rw [g4, h4], by rw [g5, h5], ?_⟩
    · simp only [mergeList, h1, bind, Except.bind]; exact g1
    · rw [g3, h3]; simp
    · intro a b cell hc
      obtain ⟨cell1, hc1, hv1⟩ := h6 a b cell hc
      obtain ⟨cell2, hc2, hv2a, hv2b⟩ := g6 a b cell1 hc1
      refine ⟨cell2, hc2, ?_, ?_⟩
      · rintro ⟨p, hp, hp1, hp2⟩
        by_cases hcov : Covered rest ((a : Int), (b : Int))
        · exact hv2a hcov
        · rw [hv2b hcov, hv1]
          rcases List.mem_cons.mp hp with e | hmem
          · subst e
            rw [if_pos ⟨hp1, hp2⟩]
          · exact absurd ⟨p, hmem, hp1, hp2⟩ hcov
      · intro hn
        have hnr : ¬ Covered rest ((a : Int), (b : Int)) := fun ⟨p, hp, x⟩ => hn ⟨p, List.mem_cons_of_mem _ hp, x⟩
        rw [hv2b hnr, hv1]
        rw [if_neg]
        intro hh
        exact hn ⟨_, List.mem_cons_self, hh.1, hh.2⟩

/-- every payload of the plain grid after a structural edit is an old payload or the fill. -/
theorem specStep_cells_pred (P : MCell → Prop) (sp : Grid.Spec MCell) (op : Grid.Op MCell)
    (hold : ∀ row ∈ sp.cells, ∀ y ∈ row, P y)
    (hfill : ∀ n st d, (op = .addRow n st d ∨ op = .addCol n st d) → P (Grid.fillVal emptyCell d))
    (hw : ∀ r c v, op ≠ .write r c v) :
    ∀ row ∈ (Grid.specStep emptyCell sp op).cells, ∀ y ∈ row, P y := by
  cases op with
  | write r c v => exact absurd rfl (hw r c v)
  | addRow n st d =>
    intro row hrow y hy
    simp only [Grid.specStep, Grid.Spec.insertRows] at hrow
    rcases Grid.mem_insertAt hrow with h | h
    · exact hold row h y hy
    · rw [List.mem_replicate] at h
      rw [h.2, List.mem_replicate] at hy
      rw [hy.2]; exact hfill n st d (Or.inl rfl)
  | addCol n st d =>
    intro row hrow y hy
    simp only [Grid.specStep, Grid.Spec.insertCols, List.mem_map] at hrow
    obtain ⟨r0, hr0, rfl⟩ := hrow
    rcases Grid.mem_insertAt hy with h | h
    · exact hold r0 hr0 y h
    · rw [List.mem_replicate] at h
      rw [h.2]; exact hfill n st d (Or.inr rfl)
  | delRow n st =>
    intro row hrow y hy
    simp only [Grid.specStep, Grid.Spec.removeRows] at hrow
    exact hold row (Grid.mem_removeAt hrow) y hy
  | delCol n st =>
    intro row hrow y hy
    simp only [Grid.specStep, Grid.Spec.removeCols, List.mem_map] at hrow
    obtain ⟨r0, hr0, rfl⟩ := hrow
    exact hold r0 hr0 y (Grid.mem_removeAt hy)

theorem payload_ph_val (m : Option MRef) (v : Nat) (h : (payloadOf m v).ph = true) : (payloadOf m v).val = 0 := by
  cases m with
  | none => simp [payloadOf, setMerge, rawCell] at h
  | some r =>
    cases r with
    | anchor x y => simp [payloadOf, setMerge, rawCell] at h
    | ref _ _ _ _ => rfl

theorem remerge_eq (rows : Bool) (start count : Int) (qs : List Rct) :
    ∀ s, remerge rows start count s qs = mergeList s (qs.filterMap (shiftRect rows start count)) := by
  induction qs with
  | nil => intro s; rfl
  | cons q rest ih =>
    intro s
    simp only [remerge, List.filterMap_cons]
    cases hq : shiftRect rows start count q with
    | none => simp only [ih]
    | some q' =>
      obtain ⟨r0, c0, r1, c1⟩ := q'
      simp only [mergeList, ih]

theorem filterMap_self {β} (f : β → Option β) (l : List β) (h : ∀ a ∈ l, f a = some a) : l.filterMap f = l := by
  induction l with
  | nil => rfl
  | cons a rest ih =>
    rw [List.filterMap_cons, h a List.mem_cons_self]
    simp only
    rw [ih (fun x hx => h x (List.mem_cons_of_mem _ hx))]

/-- **`_move_merges` keeps the table consistent**, with the rectangles transformed by the
    specification.  `s` is the consistent table before the edit, `g'` the (well-formed) grid after
    the rows / columns were inserted / deleted; `hsafe` is C12's earlier result for edits after every
    rectangle (the early `return`). -/
theorem moveMerges_consistent (s : MState) (hs : Consistent s) (g' : Grid.State MCell) (hwf : Grid.WF g')
    (rows ins : Bool) (start n : Int)
    (he : EditOK rows ins start n s.grid.numRows s.grid.numCols g'.numRows g'.numCols)
    (hsafe : (∀ q ∈ rectsOf s.mmap, (if rows then q.r1 else q.c1) < start) →
      Consistent { grid := g', mmap := s.mmap })
    (hph : ∀ a b cell, cellAt g'.data a b = some cell → cell.val.ph = true → cell.val.val = 0) :
    ∃ s', moveMerges { grid := g', mmap := s.mmap } rows start (if ins then n else -n) = .ok s' ∧ Consistent s' ∧
      rectsOf s'.mmap = (rectsOf s.mmap).filterMap (shiftRectSpec rows ins start n) ∧
      s'.grid.numRows = g'.numRows ∧ s'.grid.numCols = g'.numCols ∧
      (∀ a b cell, cellAt g'.data a b = some cell → ∃ cell', cellAt s'.grid.data a b = some cell' ∧
        (Covered (rectsOf s'.mmap) ((a : Int), (b : Int)) → cell'.val.val = 0) ∧
        (¬ Covered (rectsOf s'.mmap) ((a : Int), (b : Int)) → cell'.val.val = cell.val.val)) := by
  have hne : ∀ q ∈ rectsOf s.mmap, q.Nonempty := fun q hq => (hs.inTable q hq).nonempty
  -- the append shortcut is a special case of "every rectangle ends before the edit"
  have happ : ((if ins then n else -n) > 0 ∧
      start + (if ins then n else -n) = (if rows then g'.numRows else g'.numCols)) →
      ∀ q ∈ rectsOf s.mmap, (if rows then q.r1 else q.c1) < start := by
    intro ⟨h1, h2⟩ q hq
    obtain ⟨i1, i2, i3, i4, i5, i6⟩ := hs.inTable q hq
    obtain ⟨e1, e2, ⟨e3, e3'⟩, e4, e5⟩ := he
    cases ins
    · simp only [Bool.false_eq_true, if_false] at h1; omega
    · cases rows <;> simp only [if_true, Bool.false_eq_true, if_false] at h2 e4 e5 ⊢ <;> omega
  by_cases hall : ∀ q ∈ rectsOf s.mmap, (if rows then q.r1 else q.c1) < start
  · refine ⟨{ grid := g', mmap := s.mmap }, ?_, hsafe hall, ?_, rfl, rfl, ?_⟩
    rotate_left 2
    · intro a b cell hc
      refine ⟨cell, hc, ?_, fun _ => rfl⟩
      rintro ⟨q, hq, hq1, hq2⟩
      exact ((((consistent_picture _ (hsafe hall) a b cell hc).2.1 q hq hq1).2 hq2).2.1)
    · have : ((anchorsOf s.mmap).map rectOf).all
          (fun q => decide ((if rows = true then q.2.2.1 else q.2.2.2) < start)) = true := by
        rw [List.all_eq_true]
        intro q hq
        have := hall q hq
        simpa [Rct.r1, Rct.c1] using this
      simp only [moveMerges, this, if_true, ite_self]
    · symm
      apply filterMap_self
      intro q hq
      exact spec_before rows ins start n he.n0 q (hne q hq) (hall q hq)
  · have hcond : ((anchorsOf s.mmap).map rectOf).all
        (fun q => decide ((if rows = true then q.2.2.1 else q.2.2.2) < start)) = false := by
      cases hx : ((anchorsOf s.mmap).map rectOf).all
        (fun q => decide ((if rows = true then q.2.2.1 else q.2.2.2) < start)) with
      | false => rfl
      | true =>
        exfalso; apply hall
        rw [List.all_eq_true] at hx
        intro q hq
        have := hx q hq
        simpa [Rct.r1, Rct.c1] using this
    have hfun : shiftRect rows start (if ins then n else -n) = shiftRectSpec rows ins start n := by
      funext q
      cases ins
      · simp only [Bool.false_eq_true, if_false]; exact shiftRect_del rows start n he.n0 q
      · simp only [if_true]; exact shiftRect_ins rows start n he.n0 q
    have h0 := unmerge_consistent g' hwf
    have hpw : ((rectsOf s.mmap).filterMap (shiftRectSpec rows ins start n)).Pairwise Rct.Disjoint := by
      have hp : (rectsOf s.mmap).Pairwise (fun a b => a.Nonempty ∧ b.Nonempty ∧ Rct.Disjoint a b) :=
        hs.disj.imp_of_mem (fun ha hb hd => ⟨hne _ ha, hne _ hb, hd⟩)
      exact List.Pairwise.filterMap _ (fun a a' ⟨x, y, z⟩ b hb b' hb' => spec_disjoint he.n0 x y z hb hb') hp
    obtain ⟨s', g1, g2, g3, g4, g5, g6⟩ := mergeList_vals_int
      ((rectsOf s.mmap).filterMap (shiftRectSpec rows ins start n))
      { grid := { g' with data := unmerge g'.data }, mmap := [] } h0
      (by
        intro q' hq'
        obtain ⟨q, hq, hqq⟩ := List.mem_filterMap.mp hq'
        exact spec_inTable he (hs.inTable q hq) hqq)
      (by intro q _ p hp; simp [rectsOf, anchorsOf] at hp)
      hpw
    have hr : rectsOf s'.mmap = (rectsOf s.mmap).filterMap (shiftRectSpec rows ins start n) := by
      rw [g3]; simp [rectsOf, anchorsOf]
    refine ⟨s', ?_, g2, hr, g4, g5, ?_⟩
    · have hnapp : ¬ ((if ins then n else -n) > 0 ∧
          start + (if ins then n else -n) = (if rows then g'.numRows else g'.numCols)) := fun h => hall (happ h)
      simp only [moveMerges, hnapp, hcond, Bool.false_eq_true, if_false, remerge_eq, hfun]
      exact g1
    · intro a b cell hc
      have hc0 : ∃ cell0, cellAt (unmerge g'.data) a b = some cell0 ∧ cell0.val.val = cell.val.val := by
        rw [cellAt_unmerge, hc]
        refine ⟨_, rfl, ?_⟩
        by_cases hp : cell.val.ph = true
        · simp only [hp, if_true]; exact (hph a b cell hc hp).symm
        · simp only [hp, if_false]; exact (setMerge_ph _ _).2
      obtain ⟨cell0, h0, hv0⟩ := hc0
      obtain ⟨cell', h1, h2, h3⟩ := g6 a b cell0 h0
      rw [hr]
      exact ⟨cell', h1, h2, fun hn => by rw [h3 hn, hv0]⟩

/-! ### the four structural edits -/

/-- `add_row` / `add_column` / `delete_row` / `delete_column` (not `write`). -/
def IsStructural : Grid.Op Nat → Prop
  | .write _ _ _ => False
  | _ => True

/-- the dimensions after an accepted structural edit. -/
def dimsAfter (op : Grid.Op Nat) (nr nc : Int) : Int × Int :=
  match op with
  | .write _ _ _ => (nr, nc)
  | .addRow n _ _ => (nr + n, nc)
  | .addCol n _ _ => (nr, nc + n)
  | .delRow n _ => (nr - n, nc)
  | .delCol n _ => (nr, nc - n)

theorem startNat_eq (st : Option Int) (dflt : Int) (hd : 0 ≤ dflt)
    (h : match st with | some x => 0 ≤ x | none => True) : (Grid.startNat st dflt : Int) = startOrI st dflt := by
  cases st with
  | none => simp only [Grid.startNat, startOrI]; omega
  | some x => simp only at h; simp only [Grid.startNat, startOrI]; omega

/-- **every structural edit the grid accepts keeps the table consistent**: after the rows / columns
    were inserted / deleted (`mstepPinned` succeeded) `_move_merges` succeeds too, the result is
    consistent, and its rectangles are the specification's. -/
theorem edit_consistent (s : MState) (hs : Consistent s) (op : Grid.Op Nat) (hst : IsStructural op)
    (s1 : MState) (h1 : mstepPinned s op = .ok s1) :
    ∃ s', mstep s op = .ok s' ∧ Consistent s' ∧
      rectsOf s'.mmap = shiftRects op s.grid.numRows s.grid.numCols (rectsOf s.mmap) ∧
      (s'.grid.numRows, s'.grid.numCols) = dimsAfter op s.grid.numRows s.grid.numCols ∧
      (∀ a b y, gget (Grid.specStep emptyCell (Grid.abs s.grid) (liftOp s op)).cells a b = some y →
        ∃ cell', cellAt s'.grid.data a b = some cell' ∧
          (Covered (rectsOf s'.mmap) ((a : Int), (b : Int)) → cell'.val.val = 0) ∧
          (¬ Covered (rectsOf s'.mmap) ((a : Int), (b : Int)) → cell'.val.val = y.val)) := by
  have h1' := h1
  rw [mstepPinned_eq] at h1
  cases hg : Grid.step emptyCell s.grid (liftOp s op) with
  | error e => rw [hg] at h1; cases h1
  | ok g' =>
    rw [hg] at h1
    simp only [Except.map] at h1
    injection h1 with h1
    subst h1
    obtain ⟨hvalid, hconc, hrect⟩ := (Grid.stepFacts emptyCell s.grid hs.wf (liftOp s op)).sound g' hg
    have hwf' : Grid.WF g' := by rw [hconc]; exact Grid.wf_conc _ hrect
    have hsafe0 : SafeEdit s op → Consistent { grid := g', mmap := s.mmap } :=
      fun hsf => (safe_edit_consistent s hs op hsf _ h1').1
    have nr0 : 0 ≤ s.grid.numRows := by have := hs.wf.1; omega
    have nc0 : 0 ≤ s.grid.numCols := hs.wf.2.1
    -- the cells of g' are the payloads of the edited plain grid ...
    have hcells : ∀ a b, cellAt g'.data a b =
        (gget (Grid.specStep emptyCell (Grid.abs s.grid) (liftOp s op)).cells a b).map
          (fun v => (⟨(a : Int), (b : Int), v⟩ : CellM MCell)) := by
      intro a b; rw [hconc]; simp only [Grid.conc, cellAt_canon, gget]
    -- ... each an old payload or the fill: a placeholder among them has no value
    have hpred : ∀ row ∈ (Grid.specStep emptyCell (Grid.abs s.grid) (liftOp s op)).cells, ∀ y ∈ row,
        (y.ph = true → y.val = 0) := by
      apply specStep_cells_pred (fun y => y.ph = true → y.val = 0)
      · intro row hrow y hy
        simp only [Grid.abs, List.mem_map] at hrow
        obtain ⟨rowl, hrowl, rfl⟩ := hrow
        obtain ⟨cell, hcell, rfl⟩ := List.mem_map.mp hy
        obtain ⟨i, hi, rfl⟩ := List.getElem_of_mem hrowl
        obtain ⟨j, hj, rfl⟩ := List.getElem_of_mem hcell
        have hc : cellAt s.grid.data i j = some ((s.grid.data[i])[j]) := by
          unfold cellAt; rw [List.getElem?_eq_getElem hi]; exact List.getElem?_eq_getElem hj
        have := hs.cellsOK i j _ hc
        intro hp
        rw [this] at hp ⊢
        exact payload_ph_val _ _ hp
      · intro n st d hop hp
        cases op with
        | write r c v => exact absurd hst (by simp [IsStructural])
        | addRow n' st' d' =>
          simp only [liftOp] at hop
          rcases hop with e | e
          · injection e with _ _ e3; subst e3
            obtain ⟨v, hv⟩ := fillVal_pay d'
            rw [hv] at hp ⊢; exact payload_ph_val _ _ hp
          · cases e
        | addCol n' st' d' =>
          simp only [liftOp] at hop
          rcases hop with e | e
          · cases e
          · injection e with _ _ e3; subst e3
            obtain ⟨v, hv⟩ := fillVal_pay d'
            rw [hv] at hp ⊢; exact payload_ph_val _ _ hp
        | delRow n' st' => simp only [liftOp] at hop; rcases hop with e | e <;> cases e
        | delCol n' st' => simp only [liftOp] at hop; rcases hop with e | e <;> cases e
      · intro r c v e
        cases op <;> simp [liftOp] at e
        exact absurd hst (by simp [IsStructural])
    have hph : ∀ a b cell, cellAt g'.data a b = some cell → cell.val.ph = true → cell.val.val = 0 := by
      intro a b cell hc
      rw [hcells] at hc
      cases hg0 : gget (Grid.specStep emptyCell (Grid.abs s.grid) (liftOp s op)).cells a b with
      | none => rw [hg0] at hc; cases hc
      | some y =>
        rw [hg0] at hc; injection hc with hc
        rw [← hc]
        unfold gget at hg0
        cases hrow : (Grid.specStep emptyCell (Grid.abs s.grid) (liftOp s op)).cells[a]? with
        | none => rw [hrow] at hg0; cases hg0
        | some row =>
          rw [hrow] at hg0
          exact hpred row (List.mem_of_getElem? hrow) y (List.mem_of_getElem? hg0)
    have hfin : ∀ s' : MState,
        (∀ a b cell, cellAt g'.data a b = some cell → ∃ cell', cellAt s'.grid.data a b = some cell' ∧
          (Covered (rectsOf s'.mmap) ((a : Int), (b : Int)) → cell'.val.val = 0) ∧
          (¬ Covered (rectsOf s'.mmap) ((a : Int), (b : Int)) → cell'.val.val = cell.val.val)) →
        (∀ a b y, gget (Grid.specStep emptyCell (Grid.abs s.grid) (liftOp s op)).cells a b = some y →
          ∃ cell', cellAt s'.grid.data a b = some cell' ∧
            (Covered (rectsOf s'.mmap) ((a : Int), (b : Int)) → cell'.val.val = 0) ∧
            (¬ Covered (rectsOf s'.mmap) ((a : Int), (b : Int)) → cell'.val.val = y.val)) := by
      intro s' hv a b y hy
      exact hv a b ⟨a, b, y⟩ (by rw [hcells, hy]; rfl)
    cases op with
    | write r c v => exact absurd hst (by simp [IsStructural])
    | addRow n st d =>
      simp only [liftOp, Grid.Valid] at hvalid
      obtain ⟨v1, v2⟩ := hvalid
      have hd : g'.numRows = s.grid.numRows + n ∧ g'.numCols = s.grid.numCols := by
        rw [hconc]
        simp only [Grid.conc, Grid.specStep, liftOp, Grid.Spec.insertRows, Grid.abs]
        exact ⟨by omega, trivial⟩
      have hstart : 0 ≤ startOrI st s.grid.numRows ∧ startOrI st s.grid.numRows ≤ s.grid.numRows := by
        cases st with
        | none => simp only [startOrI]; omega
        | some x => simp only at v2; simp only [startOrI]; omega
      have he : EditOK true true (startOrI st s.grid.numRows) n s.grid.numRows s.grid.numCols g'.numRows g'.numCols :=
        ⟨v1, hstart.1, ⟨fun _ => by simpa using hstart.2, fun h => by cases h⟩, by simpa using hd.1, by simpa using hd.2⟩
      obtain ⟨s', a, b, c, d1, d2, d3⟩ := moveMerges_consistent s hs g' hwf' true true _ n he (fun hall => hsafe0 (by
        intro q hq
        have := hall q hq
        rw [startNat_eq st _ nr0 (by cases st <;> simp only at v2 ⊢; omega)]
        simpa using this)) hph
      refine ⟨s', ?_, b, c, ?_, hfin s' d3⟩
      · simp only [mstep, h1', bind, Except.bind]
        simpa using a
      · simp only [dimsAfter, d1, d2, hd.1, hd.2]
    | addCol n st d =>
      simp only [liftOp, Grid.Valid] at hvalid
      obtain ⟨v1, v2⟩ := hvalid
      have hd : g'.numRows = s.grid.numRows ∧ g'.numCols = s.grid.numCols + n := by
        rw [hconc]
        simp only [Grid.conc, Grid.specStep, liftOp, Grid.Spec.insertCols, Grid.abs]
        exact ⟨trivial, by omega⟩
      have hstart : 0 ≤ startOrI st s.grid.numCols ∧ startOrI st s.grid.numCols ≤ s.grid.numCols := by
        cases st with
        | none => simp only [startOrI]; omega
        | some x => simp only at v2; simp only [startOrI]; omega
      have he : EditOK false true (startOrI st s.grid.numCols) n s.grid.numRows s.grid.numCols g'.numRows g'.numCols :=
        ⟨v1, hstart.1, ⟨fun _ => by simpa using hstart.2, fun h => by cases h⟩, by simpa using hd.1, by simpa using hd.2⟩
      obtain ⟨s', a, b, c, d1, d2, d3⟩ := moveMerges_consistent s hs g' hwf' false true _ n he (fun hall => hsafe0 (by
        intro q hq
        have := hall q hq
        rw [startNat_eq st _ nc0 (by cases st <;> simp only at v2 ⊢; omega)]
        simpa using this)) hph
      refine ⟨s', ?_, b, c, ?_, hfin s' d3⟩
      · simp only [mstep, h1', bind, Except.bind]
        simpa using a
      · simp only [dimsAfter, d1, d2, hd.1, hd.2]
    | delRow n st =>
      simp only [liftOp, Grid.Valid] at hvalid
      obtain ⟨v1, v2, v3⟩ := hvalid
      have hd : g'.numRows = s.grid.numRows - n ∧ g'.numCols = s.grid.numCols := by
        rw [hconc]
        simp only [Grid.conc, Grid.specStep, liftOp, Grid.Spec.removeRows, Grid.abs]
        exact ⟨by omega, trivial⟩
      have hstart : 0 ≤ startOrI st (s.grid.numRows - n) ∧ startOrI st (s.grid.numRows - n) + n ≤ s.grid.numRows := by
        cases st with
        | none => simp only [startOrI]; omega
        | some x => simp only at v3; simp only [startOrI]; omega
      have he : EditOK true false (startOrI st (s.grid.numRows - n)) n s.grid.numRows s.grid.numCols g'.numRows g'.numCols :=
        ⟨v1, hstart.1, ⟨fun h => (by cases h), fun _ => by simpa using hstart.2⟩, by simpa using hd.1, by simpa using hd.2⟩
      obtain ⟨s', a, b, c, d1, d2, d3⟩ := moveMerges_consistent s hs g' hwf' true false _ n he (fun hall => hsafe0 (by
        intro q hq
        have := hall q hq
        rw [startNat_eq st _ (by omega) (by cases st <;> simp only at v3 ⊢; omega)]
        simpa using this)) hph
      refine ⟨s', ?_, b, c, ?_, hfin s' d3⟩
      · simp only [mstep, h1', bind, Except.bind, hd.1]
        simpa using a
      · simp only [dimsAfter, d1, d2, hd.1, hd.2]
    | delCol n st =>
      simp only [liftOp, Grid.Valid] at hvalid
      obtain ⟨v1, v2, v3⟩ := hvalid
      have hd : g'.numRows = s.grid.numRows ∧ g'.numCols = s.grid.numCols - n := by
        rw [hconc]
        simp only [Grid.conc, Grid.specStep, liftOp, Grid.Spec.removeCols, Grid.abs]
        exact ⟨trivial, by omega⟩
      have hstart : 0 ≤ startOrI st (s.grid.numCols - n) ∧ startOrI st (s.grid.numCols - n) + n ≤ s.grid.numCols := by
        cases st with
        | none => simp only [startOrI]; omega
        | some x => simp only at v3; simp only [startOrI]; omega
      have he : EditOK false false (startOrI st (s.grid.numCols - n)) n s.grid.numRows s.grid.numCols g'.numRows g'.numCols :=
        ⟨v1, hstart.1, ⟨fun h => (by cases h), fun _ => by simpa using hstart.2⟩, by simpa using hd.1, by simpa using hd.2⟩
      obtain ⟨s', a, b, c, d1, d2, d3⟩ := moveMerges_consistent s hs g' hwf' false false _ n he (fun hall => hsafe0 (by
        intro q hq
        have := hall q hq
        rw [startNat_eq st _ (by omega) (by cases st <;> simp only at v3 ⊢; omega)]
        simpa using this)) hph
      refine ⟨s', ?_, b, c, ?_, hfin s' d3⟩
      · simp only [mstep, h1', bind, Except.bind, hd.2]
        simpa using a
      · simp only [dimsAfter, d1, d2, hd.1, hd.2]

theorem mstep_ok_pinned (s : MState) (op : Grid.Op Nat) (hst : IsStructural op) (s' : MState)
    (h : mstep s op = .ok s') : ∃ s1, mstepPinned s op = .ok s1 := by
  cases op with
  | write r c v => exact absurd hst (by simp [IsStructural])
  | addRow n st d =>
    cases h1 : mstepPinned s (.addRow n st d) with
    | ok s1 => exact ⟨s1, rfl⟩
    | error e => simp only [mstep, h1, bind, Except.bind] at h; cases h
  | addCol n st d =>
    cases h1 : mstepPinned s (.addCol n st d) with
    | ok s1 => exact ⟨s1, rfl⟩
    | error e => simp only [mstep, h1, bind, Except.bind] at h; cases h
  | delRow n st =>
    cases h1 : mstepPinned s (.delRow n st) with
    | ok s1 => exact ⟨s1, rfl⟩
    | error e => simp only [mstep, h1, bind, Except.bind] at h; cases h
  | delCol n st =>
    cases h1 : mstepPinned s (.delCol n st) with
    | ok s1 => exact ⟨s1, rfl⟩
    | error e => simp only [mstep, h1, bind, Except.bind] at h; cases h

/-- both directions: an accepted edit (arguments in range, default fill within the library's limits)
    succeeds, and whenever an edit succeeds the result is consistent with the specified rectangles. -/
theorem edit_consistent_full (s : MState) (hs : Consistent s) (op : Grid.Op Nat) (hst : IsStructural op) :
    (Grid.Valid s.grid (liftOp s op) → Grid.FillOK s.grid (liftOp s op) → ∃ s', mstep s op = .ok s') ∧
    (∀ s', mstep s op = .ok s' → Consistent s' ∧
      rectsOf s'.mmap = shiftRects op s.grid.numRows s.grid.numCols (rectsOf s.mmap) ∧
      (s'.grid.numRows, s'.grid.numCols) = dimsAfter op s.grid.numRows s.grid.numCols ∧
      (∀ a b y, gget (Grid.specStep emptyCell (Grid.abs s.grid) (liftOp s op)).cells a b = some y →
        ∃ cell', cellAt s'.grid.data a b = some cell' ∧
          (Covered (rectsOf s'.mmap) ((a : Int), (b : Int)) → cell'.val.val = 0) ∧
          (¬ Covered (rectsOf s'.mmap) ((a : Int), (b : Int)) → cell'.val.val = y.val))) := by
  constructor
  · intro hv hf
    obtain ⟨g', hg⟩ := (Grid.stepFacts emptyCell s.grid hs.wf (liftOp s op)).complete hv hf
    obtain ⟨s', h, _⟩ := edit_consistent s hs op hst { s with grid := g' } (by rw [mstepPinned_eq, hg]; rfl)
    exact ⟨s', h⟩
  · intro s' h
    obtain ⟨s1, h1⟩ := mstep_ok_pinned s op hst s' h
    obtain ⟨s'', a, b⟩ := edit_consistent s hs op hst s1 h1
    rw [a] at h; injection h with h; subst h
    exact b

/-! ### histories -/

/-- one successful step of a history: a merge of an in-table rectangle disjoint from the existing
    ones, a write that is not aimed at a placeholder, or any structural edit. -/
inductive HStep (s : MState) : MState → Prop where
  | merge {s' : MState} (r0 c0 r1 c1 : Nat)
      (hin : Rct.InTable ((r0 : Int), (c0 : Int), (r1 : Int), (c1 : Int)) s.grid.numRows s.grid.numCols)
      (hdisj : ∀ p ∈ rectsOf s.mmap, Rct.Disjoint p ((r0 : Int), (c0 : Int), (r1 : Int), (c1 : Int)))
      (h : mergeOne s (r0 : Int) (c0 : Int) (r1 : Int) (c1 : Int) = .ok s') : HStep s s'
  | write {s' : MState} (r c : Int) (v : Nat)
      (hnot : ∀ q ∈ rectsOf s.mmap, q.has (r, c) = true → (r, c) = q.origin)
      (h : mwrite s r c v = .ok s') : HStep s s'
  | edit {s' : MState} (op : Grid.Op Nat) (hst : IsStructural op) (h : mstep s op = .ok s') : HStep s s'

/-- the tables reachable from a new table of any shape by any finite history of such steps. -/
inductive Reachable : MState → Prop where
  | init (nr nc : Nat) : Reachable (minit nr nc)
  | step {s s' : MState} : Reachable s → HStep s s' → Reachable s'

theorem reachable_consistent {s : MState} (h : Reachable s) : Consistent s := by
  induction h with
  | init nr nc => exact consistent_minit nr nc
  | step _ hstep ih =>
    cases hstep with
    | merge r0 c0 r1 c1 hin hdisj h =>
      obtain ⟨s'', h1, h2, _⟩ := mergeOne_consistent _ ih r0 c0 r1 c1 _ rfl hin hdisj
      rw [h] at h1; injection h1 with h1; subst h1; exact h2
    | write r c v hnot h => exact (safe_edit_consistent _ ih (.write r c v) hnot _ h).1
    | edit op hst h => exact ((edit_consistent_full _ ih op hst).2 _ h).1

end NumbersModel.Merge
