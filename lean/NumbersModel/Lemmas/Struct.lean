import NumbersModel.Py.Struct
namespace NumbersModel

theorem leBytes_length (w n : Nat) : (leBytes w n).length = w := by
  induction w generalizing n with
  | zero => rfl
  | succ w ih => simp [leBytes, ih]

theorem leNat_leBytes (w n : Nat) : leNat (leBytes w n) = n % 256 ^ w := by
  induction w generalizing n with
  | zero => simp [leBytes, leNat, Nat.mod_one]
  | succ w ih =>
    simp only [leBytes, leNat, ih, UInt8.toNat_ofNat']
    have h : (2:Nat) ^ 8 = 256 := by decide
    rw [h, Nat.mod_mod, Nat.pow_succ, Nat.mul_comm (256 ^ w) 256, Nat.mod_mul]

theorem leNat_lt (b : Bytes) : leNat b < 256 ^ b.length := by
  induction b with
  | nil => simp [leNat]
  | cons x r ih =>
    have hx := x.toNat_lt
    simp only [leNat, List.length_cons, Nat.pow_succ]
    have h : (2:Nat) ^ 8 = 256 := by decide
    omega

theorem leBytes_leNat (b : Bytes) : leBytes b.length (leNat b) = b := by
  induction b with
  | nil => rfl
  | cons x r ih =>
    have hx := x.toNat_lt
    have h : (2:Nat) ^ 8 = 256 := by decide
    simp only [List.length_cons, leBytes, leNat]
    have h1 : (x.toNat + 256 * leNat r) % 256 = x.toNat := by omega
    have h2 : (x.toNat + 256 * leNat r) / 256 = leNat r := by omega
    rw [h1, h2, ih]
    simp

/-- `v` fits `struct.pack("<i", …)`. -/
def I32 (v : Int) : Prop := -2147483648 ≤ v ∧ v ≤ 2147483647

instance (v : Int) : Decidable (I32 v) := by unfold I32; exact inferInstance

theorem packI32_ok {v : Int} (h : I32 v) : packI32 v = .ok (encI32 v) := by
  unfold I32 at h
  have : ¬ (v < -2147483648 ∨ v > 2147483647) := by omega
  simp [packI32, this]

theorem packI32_err {v : Int} (h : ¬ I32 v) : packI32 v = .error .StructError := by
  unfold I32 at h
  have : (v < -2147483648 ∨ v > 2147483647) := by omega
  simp [packI32, this]

theorem encI32_length (v : Int) : (encI32 v).length = 4 := leBytes_length _ _

theorem i32OfBytes_encI32 {v : Int} (h : I32 v) : i32OfBytes (encI32 v) = v := by
  unfold I32 at h
  unfold i32OfBytes encI32 toSigned32
  rw [leNat_leBytes]
  have h256 : (256:Nat) ^ 4 = 4294967296 := by decide
  rw [h256]
  by_cases hv : v < 0
  · simp only [hv, if_true]
    have : (v + 4294967296).toNat % 4294967296 = (v + 4294967296).toNat := by omega
    rw [this]
    have h2 : (v + 4294967296).toNat ≥ 2147483648 := by omega
    simp only [h2, if_true]
    omega
  · simp only [hv, if_false]
    have : v.toNat % 4294967296 = v.toNat := by omega
    rw [this]
    have h2 : ¬ (v.toNat ≥ 2147483648) := by omega
    simp only [h2, if_false]
    omega

theorem encI32_i32OfBytes (b : Bytes) (h : b.length = 4) : encI32 (i32OfBytes b) = b := by
  have hlt := leNat_lt b
  rw [h] at hlt
  have h256 : (256:Nat) ^ 4 = 4294967296 := by decide
  rw [h256] at hlt
  unfold encI32 i32OfBytes toSigned32
  have key : ∀ n : Nat, n = leNat b → leBytes 4 n = b := by
    intro n hn; rw [hn, ← h]; exact leBytes_leNat b
  by_cases h2 : leNat b ≥ 2147483648
  · simp only [h2, if_true]
    have : ((leNat b : Int) - 4294967296 < 0) := by omega
    simp only [this, if_true]
    apply key; omega
  · simp only [h2, if_false]
    have : ¬ ((leNat b : Int) < 0) := by omega
    simp only [this, if_false]
    apply key; omega

theorem i32OfBytes_range (b : Bytes) (h : b.length = 4) : I32 (i32OfBytes b) := by
  have hlt := leNat_lt b
  rw [h] at hlt
  have h256 : (256:Nat) ^ 4 = 4294967296 := by decide
  rw [h256] at hlt
  unfold I32 i32OfBytes toSigned32
  split <;> omega

end NumbersModel
