/-
C13 — scientific notation read back: the text `d.ddd E±xx` that `formatScientific` (`f"{v:.{p}E}"`) produces, parsed
again, is `mantissa · 10^(exponent − p)` with a normalised `p+1`-digit mantissa that is the value's leading digits rounded
to nearest, ties to even — including the carry `9.995 → 1.00E+01` and zero.
-/
import NumbersModel.Lemmas.NumFmt
import NumbersModel.Lemmas.CustomFmt
import Mathlib.Tactic.Linarith
namespace NumbersModel.NumFmt
open NumbersModel NumbersModel.Digits NumbersModel.CustomFmt NumbersModel.A1

/-- the `(digits, exponent)` pair `formatScientific` computes. -/
def sciParts (d : Dec) (p : Nat) : Nat × Int :=
  let nd := numDigits d.mant
  if d.mant = 0 then (0, 0)
  else if nd ≤ p + 1 then (d.mant * 10 ^ (p + 1 - nd), d.exp + (nd : Int) - 1)
  else
    let q := dropHalfEven d.mant (nd - (p + 1))
    if q = 10 ^ (p + 1) then (q / 10, d.exp + (nd : Int)) else (q, d.exp + (nd : Int) - 1)

/-- the layout of the text. -/
def sciText (neg : Bool) (p digits : Nat) (e10 : Int) : Text :=
  let s := zfill (p + 1) (natStr digits)
  (if neg then ['-'] else []) ++ s.take 1 ++ (if p = 0 then [] else '.' :: s.drop 1) ++ ['E'] ++
    (if e10 < 0 then ['-'] else ['+']) ++ zfill 2 (natStr e10.natAbs)

theorem formatScientific_eq (d : Dec) (p : Nat) :
    formatScientific d p = sciText d.neg p (sciParts d p).1 (sciParts d p).2 := by
  unfold formatScientific sciParts sciText
  simp only

/-- a leading minus sign, split off. -/
def stripMinus : Text → Bool × Text
  | '-' :: r => (true, r)
  | r => (false, r)

/-- a leading exponent sign, split off. -/
def stripSign : Text → Bool × Text
  | '-' :: r => (true, r)
  | '+' :: r => (false, r)
  | r => (false, r)

/-- scientific text read back: `(negative, mantissa digits as one integer, exponent of its last digit)`. -/
def readSci (t : Text) : Option (Bool × Nat × Int) :=
  let nt := stripMinus t
  let mantText := nt.2.takeWhile (· != 'E')
  let expText := (nt.2.dropWhile (· != 'E')).drop 1
  let ip := mantText.takeWhile (· != '.')
  let fp := (mantText.dropWhile (· != '.')).drop 1
  let et := stripSign expText
  match readNat (ip ++ fp), readNat et.2 with
  | some m, some e => some (nt.1, m, (if et.1 then -(e : Int) else (e : Int)) - (fp.length : Int))
  | _, _ => none

theorem numDigits_bounds (m : Nat) (hm : m ≠ 0) : 10 ^ (numDigits m - 1) ≤ m ∧ m < 10 ^ numDigits m ∧ 1 ≤ numDigits m := by
  unfold numDigits
  rw [natStr_eq]
  have hpos : 1 ≤ (natStrSpec m).length := List.length_pos_iff.mpr (natStrSpec_ne_nil m)
  refine ⟨?_, ?_, hpos⟩
  · by_contra hlt
    have hlt : m < 10 ^ ((natStrSpec m).length - 1) := by omega
    by_cases h1 : (natStrSpec m).length = 1
    · rw [h1] at hlt; simp at hlt; omega
    · have e : (natStrSpec m).length - 1 = ((natStrSpec m).length - 2) + 1 := by omega
      rw [e] at hlt
      have := natStrSpec_length_le _ m hlt
      omega
  · by_contra hge
    have := natStrSpec_length_gt (natStrSpec m).length m (by omega)
    omega

/-- the mantissa: zero for zero, otherwise normalised (`10^p ≤ digits < 10^(p+1)`: one non-zero leading digit and `p`
    decimals), and it denotes the value: exactly when the value has at most `p+1` digits, otherwise as the nearest,
    ties-to-even rounding of its leading digits (a carry to `10^(p+1)` is renormalised). -/
theorem sciParts_spec (d : Dec) (p : Nat) :
    (d.mant = 0 → sciParts d p = (0, 0)) ∧
    (d.mant ≠ 0 → 10 ^ p ≤ (sciParts d p).1 ∧ (sciParts d p).1 < 10 ^ (p + 1)) ∧
    (d.mant ≠ 0 → numDigits d.mant ≤ p + 1 →
      SameValue (sciParts d p).1 ((sciParts d p).2 - (p : Int)) d.mant d.exp) ∧
    (d.mant ≠ 0 → p + 1 < numDigits d.mant →
      SameValue (sciParts d p).1 ((sciParts d p).2 - (p : Int))
        (dropHalfEven d.mant (numDigits d.mant - (p + 1))) (d.exp + ((numDigits d.mant - (p + 1) : Nat) : Int))) := by
  refine ⟨fun h => by simp [sciParts, h], fun hm => ?_, fun hm hle => ?_, fun hm hgt => ?_⟩
  · obtain ⟨hlo, hhi, hnd⟩ := numDigits_bounds d.mant hm
    unfold sciParts
    simp only [hm, if_false]
    split
    · rename_i hle
      simp only
      have e1 : p + 1 = numDigits d.mant + (p + 1 - numDigits d.mant) := by omega
      have e2 : p = (numDigits d.mant - 1) + (p + 1 - numDigits d.mant) := by omega
      constructor
      · conv_lhs => rw [e2, Nat.pow_add]
        exact Nat.mul_le_mul_right _ hlo
      · conv_rhs => rw [e1, Nat.pow_add]
        exact Nat.mul_lt_mul_of_pos_right hhi (Nat.pow_pos (by omega))
    · rename_i hgt
      have hgt : p + 1 < numDigits d.mant := by omega
      obtain ⟨k, hk⟩ : ∃ k, numDigits d.mant = p + 1 + (k + 1) := ⟨numDigits d.mant - (p + 1) - 1, by omega⟩
      have hkk : numDigits d.mant - (p + 1) = k + 1 := by omega
      rw [hkk]
      have hnear := dropHalfEven_nearest d.mant (k + 1)
      unfold Nearest at hnear
      generalize dropHalfEven d.mant (k + 1) = q at *
      have hK : 0 < 10 ^ (k + 1) := Nat.pow_pos (by omega)
      have hhi' : d.mant < 10 ^ (p + 1) * 10 ^ (k + 1) := by rw [← Nat.pow_add, ← hk]; exact hhi
      have hlo' : 10 ^ p * 10 ^ (k + 1) ≤ d.mant := by
        have : numDigits d.mant - 1 = p + (k + 1) := by omega
        rw [← Nat.pow_add, ← this]; exact hlo
      generalize 10 ^ (k + 1) = K at *
      have hP : 10 ^ (p + 1) = 10 * 10 ^ p := by rw [Nat.pow_succ]; ring
      rw [hP] at hhi' ⊢
      have hA : 1 ≤ 10 ^ p := Nat.pow_pos (by omega)
      generalize 10 ^ p = A at *
      have hub : q ≤ 10 * A := by
        by_contra hc
        have : (10 * A + 1) * K ≤ q * K := Nat.mul_le_mul_right K (by omega)
        nlinarith
      have hlb : A ≤ q := by
        by_contra hc
        have : q * K ≤ (A - 1) * K := Nat.mul_le_mul_right K (by omega)
        have e : (A - 1) * K = A * K - K := by rw [Nat.sub_mul]; simp
        have : K ≤ A * K := by nlinarith
        omega
      split
      · rename_i hq
        simp only
        rw [hq]
        constructor <;> omega
      · rename_i hq
        simp only
        exact ⟨hlb, by omega⟩
  · unfold sciParts
    have hle' : numDigits d.mant ≤ p + 1 := hle
    simp only [hm, if_false, hle', if_true]
    refine ⟨0, p + 1 - numDigits d.mant, by simp, ?_⟩
    have : ((p + 1 - numDigits d.mant : Nat) : Int) = (p : Int) + 1 - (numDigits d.mant : Int) := by omega
    rw [this]; simp; ring
  · unfold sciParts
    have hng : ¬ numDigits d.mant ≤ p + 1 := by omega
    simp only [hm, if_false, hng]
    split
    · rename_i hq
      simp only
      rw [hq]
      refine ⟨1, 0, ?_, ?_⟩
      · rw [Nat.pow_succ]; simp
      · have : ((numDigits d.mant - (p + 1) : Nat) : Int) = (numDigits d.mant : Int) - ((p : Int) + 1) := by omega
        rw [this]; simp; ring
    · simp only
      refine ⟨0, 0, rfl, ?_⟩
      have : ((numDigits d.mant - (p + 1) : Nat) : Int) = (numDigits d.mant : Int) - ((p : Int) + 1) := by omega
      rw [this]; simp; ring

theorem digit_ne {c : Char} (h : isDigit c = true) : c ≠ '-' ∧ c ≠ 'E' ∧ c ≠ '.' ∧ c ≠ '+' := by
  refine ⟨?_, ?_, ?_, ?_⟩ <;> (intro e; subst e; revert h; decide)

/-- the text layout read back: sign, the `p+1` mantissa digits as one integer, and the exponent of the last digit. -/
theorem readSci_sciText (neg : Bool) (p digits : Nat) (e10 : Int) (h : digits < 10 ^ (p + 1)) :
    readSci (sciText neg p digits e10) = some (neg, digits, e10 - (p : Int)) := by
  have hlen : (zfill (p + 1) (natStr digits)).length = p + 1 := zfill_exact_length (p + 1) digits (by omega) h
  have hdig := zfill_all_digits (p + 1) (natStr digits) (natStr_all_digits digits)
  have hread := readNat_zfill_natStr (p + 1) digits
  have hed := zfill_all_digits 2 (natStr e10.natAbs) (natStr_all_digits e10.natAbs)
  have hreade := readNat_zfill_natStr 2 e10.natAbs
  unfold sciText
  simp only
  generalize zfill (p + 1) (natStr digits) = s at *
  generalize zfill 2 (natStr e10.natAbs) = ed at *
  obtain ⟨c0, rest, rfl⟩ : ∃ c0 rest, s = c0 :: rest := by
    cases s with
    | nil => simp at hlen
    | cons c r => exact ⟨c, r, rfl⟩
  have hc0 := hdig c0 (by simp)
  have hrest : ∀ c ∈ rest, isDigit c = true := fun c hc => hdig c (by simp [hc])
  have hrl : rest.length = p := by simpa using hlen
  simp only [List.take_succ_cons, List.take_zero, List.drop_succ_cons, List.drop_zero]
  -- the mantissa text and what follows it
  let frac : Text := if p = 0 then [] else '.' :: rest
  let tail : Text := 'E' :: ((if e10 < 0 then ['-'] else ['+']) ++ ed)
  have hbody : (if neg = true then ['-'] else []) ++ [c0] ++ (if p = 0 then [] else '.' :: rest) ++ ['E'] ++
      (if e10 < 0 then ['-'] else ['+']) ++ ed = (if neg = true then ['-'] else []) ++ (([c0] ++ frac) ++ tail) := by
    simp [frac, tail]
  rw [hbody]
  have hmant : ∀ c ∈ [c0] ++ frac, (c != 'E') = true := by
    intro c hc
    simp only [List.mem_append, List.mem_singleton] at hc
    rcases hc with hc | hc
    · subst hc; simp [(digit_ne hc0).2.1]
    · simp only [frac] at hc
      split at hc
      · simp at hc
      · rcases List.mem_cons.mp hc with hc | hc
        · subst hc; decide
        · simp [(digit_ne (hrest c hc)).2.1]
  have hsplit := takeWhile_dropWhile_run (· != 'E') ([c0] ++ frac) tail hmant
    (Or.inr ⟨'E', _, rfl, by decide⟩)
  -- strip the sign
  have hnt : stripMinus ((if neg = true then ['-'] else []) ++ (([c0] ++ frac) ++ tail)) = (neg, ([c0] ++ frac) ++ tail) := by
    cases neg
    · have hne := (digit_ne hc0).1
      simp only [Bool.false_eq_true, if_false, List.nil_append, List.cons_append]
      unfold stripMinus
      split
      · rename_i r heq
        injection heq with h1 _
        exact absurd h1 hne
      · rfl
    · simp [stripMinus]
  unfold readSci
  simp only [hnt, hsplit.1, hsplit.2]
  -- integer / fraction digits of the mantissa
  have hip : ([c0] ++ frac).takeWhile (· != '.') = [c0] ∧ (([c0] ++ frac).dropWhile (· != '.')).drop 1 = rest := by
    have hrun : ∀ c ∈ [c0], (c != '.') = true := by
      intro c hc; simp at hc; subst hc; simp [(digit_ne hc0).2.2.1]
    by_cases hp : p = 0
    · have : rest = [] := List.length_eq_zero_iff.mp (by omega)
      have hf : frac = [] := by simp [frac, hp]
      rw [hf, this]
      have := takeWhile_dropWhile_run (· != '.') [c0] [] hrun (Or.inl rfl)
      simp only [List.append_nil] at this ⊢
      rw [this.1, this.2]; exact ⟨rfl, rfl⟩
    · have hf : frac = '.' :: rest := by simp [frac, hp]
      rw [hf]
      have := takeWhile_dropWhile_run (· != '.') [c0] ('.' :: rest) hrun (Or.inr ⟨'.', rest, rfl, by decide⟩)
      rw [this.1, this.2]; exact ⟨rfl, rfl⟩
  rw [hip.1, hip.2]
  have htail : tail.drop 1 = (if e10 < 0 then ['-'] else ['+']) ++ ed := rfl
  rw [htail]
  have hmread : readNat ([c0] ++ rest) = some digits := by simpa using hread
  rw [hmread]
  have hd0 : ∀ r, ed = '-' :: r → False := by
    intro r h; have := hed '-' (by rw [h]; simp); revert this; decide
  have hd1 : ∀ r, ed = '+' :: r → False := by
    intro r h; have := hed '+' (by rw [h]; simp); revert this; decide
  by_cases he : e10 < 0
  · have hs : stripSign ((if e10 < 0 then ['-'] else ['+']) ++ ed) = (true, ed) := by simp [he, stripSign]
    rw [hs]
    simp only [hreade, hrl, if_true]
    congr 2
    have : ((e10.natAbs : Nat) : Int) = -e10 := by omega
    simp only [this, Int.neg_neg]
  · have hs : stripSign ((if e10 < 0 then ['-'] else ['+']) ++ ed) = (false, ed) := by simp [he, stripSign]
    rw [hs]
    simp only [hreade, hrl, Bool.false_eq_true, if_false]
    congr 2
    have : ((e10.natAbs : Nat) : Int) = e10 := by omega
    simp only [this]

end NumbersModel.NumFmt
