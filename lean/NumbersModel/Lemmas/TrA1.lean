/-
Equivalence of the definitions that `harness/py2lean.py` regenerates from the Python source on every
check run (`Gen/TrA1.lean`) with the hand-written model functions the property theorems are stated
about.  When the Python source of one of these functions changes, the generated definition changes and
the corresponding `…_eq_model` theorem here is re-checked by the kernel against what the code says now.
-/
import NumbersModel.Gen.TrA1
import NumbersModel.Lemmas.A1

namespace NumbersModel.Translated
open NumbersModel NumbersModel.Gen.T

/-! ### prelude facts -/

theorem mod_pos (a : Int) (b : Int) (hb : b ≠ 0) : PyT.mod a b = .ok (Int.fmod a b) := by
  simp [PyT.mod, hb]

theorem trueDivTrunc_nat (a : Nat) (b : Nat) (hb : b ≠ 0) :
    PyT.trueDivTrunc (a : Int) (b : Int) = .ok ((a / b : Nat) : Int) := by
  have : (b : Int) ≠ 0 := by omega
  simp only [PyT.trueDivTrunc, this, if_false]
  congr 1

theorem chr_letter (r : Nat) (hr : r < 26) : PyT.chr ((65 : Int) + (r + 1 : Nat) - 1) = .ok [A1.letter r] := by
  have h1 : ¬ ((65 : Int) + ((r + 1 : Nat) : Int) - 1 < 0 ∨ (65 : Int) + ((r + 1 : Nat) : Int) - 1 ≥ 0x110000) := by omega
  have h2 : ¬ ((0xD800 : Int) ≤ (65 : Int) + ((r + 1 : Nat) : Int) - 1 ∧ (65 : Int) + ((r + 1 : Nat) : Int) - 1 ≤ 0xDFFF) := by omega
  have h3 : ((65 : Int) + ((r + 1 : Nat) : Int) - 1).toNat = 65 + r := by omega
  simp only [PyT.chr, h1, h2, if_false, h3, A1.letter]

/-! ### `xl_col_to_name` -/

theorem col_loop (fuel : Nat) : ∀ (n : Nat) (acc : Text), n < fuel →
    xl_col_to_name.loop1 fuel acc (n : Int) = .ok (A1.lettersAux fuel n acc, 0) := by
  induction fuel with
  | zero => intro n acc h; omega
  | succ fuel ih =>
    intro n acc h
    unfold xl_col_to_name.loop1
    by_cases hn : n = 0
    · subst hn; simp [A1.lettersAux, pure, Except.pure]
    · have hne : ((n : Int) ≠ 0) := by omega
      simp only [hne, decide_true, if_true, ne_eq, not_false_eq_true]
      have hm : PyT.mod (n : Int) 26 = .ok (((n % 26 : Nat)) : Int) := by
        rw [mod_pos _ _ (by decide)]
        congr 1
        rw [Int.fmod_eq_emod_of_nonneg _ (by decide)]
        omega
      rw [hm]
      simp only [bind, Except.bind, pure, Except.pure]
      -- remainder adjustment
      have hrem : ∀ (r : Nat), r < 26 →
          (if decide (((r : Nat) : Int) = 0) = true then (Except.ok 26 : PyM Int) else Except.ok ((r : Nat) : Int))
            = .ok (((if r = 0 then 26 else r : Nat)) : Int) := by
        intro r _
        by_cases h0 : r = 0 <;> simp [h0]
      rw [hrem _ (Nat.mod_lt _ (by decide))]
      simp only []
      have hr1 : 1 ≤ (if n % 26 = 0 then 26 else n % 26) ∧ (if n % 26 = 0 then 26 else n % 26) ≤ 26 := by
        have := Nat.mod_lt n (by decide : 26 > 0)
        split <;> omega
      have hlet : A1.lettersAux (fuel + 1) n acc
          = A1.lettersAux fuel ((n - 1) / 26) (A1.letter ((if n % 26 = 0 then 26 else n % 26) - 1) :: acc) := by
        simp [A1.lettersAux, hn]
      rw [hlet]
      generalize (if n % 26 = 0 then 26 else n % 26) = r at hr1 ⊢
      have hchr : PyT.chr ((65 : Int) + (r : Int) - 1) = .ok [A1.letter (r - 1)] := by
        have := chr_letter (r - 1) (by omega)
        have h2 : ((r - 1 + 1 : Nat)) = r := by omega
        rw [h2] at this
        exact this
      rw [hchr]
      simp only []
      have hdiv : PyT.trueDivTrunc ((n : Int) - 1) 26 = .ok (((n - 1) / 26 : Nat) : Int) := by
        have : ((n : Int) - 1) = ((n - 1 : Nat) : Int) := by omega
        rw [this]
        exact trueDivTrunc_nat (n - 1) 26 (by decide)
      rw [hdiv]
      simp only []
      have hlt : (n - 1) / 26 < fuel := by
        have : (n - 1) / 26 ≤ n - 1 := Nat.div_le_self _ _
        omega
      rw [ih _ _ hlt]
      rfl

theorem xl_col_to_name_eq_model (col : Int) (colAbs : Bool) :
    xl_col_to_name col colAbs = A1.colName col colAbs := by
  unfold xl_col_to_name A1.colName
  by_cases h : col < 0
  · simp [h]; rfl
  · simp only [h, decide_false, if_false, Bool.false_eq_true]
    have hc : col + 1 = ((col.toNat + 1 : Nat) : Int) := by omega
    rw [hc, col_loop _ _ _ (by omega)]
    simp only [bind, Except.bind, pure, Except.pure, A1.letters]
    rw [A1.lettersAux_eq _ _ _ (by omega), A1.lettersAux_eq _ _ _ (by omega)]

/-! ### `xl_rowcol_to_cell`, `xl_range` -/

theorem intStr_succ_toNat (row : Int) (h : ¬ row < 0) : intStr (row + 1) = natStr (row.toNat + 1) := by
  have h1 : ¬ (row + 1 < 0) := by omega
  have h2 : (row + 1).toNat = row.toNat + 1 := by omega
  simp [intStr, h1, h2]

theorem xl_rowcol_to_cell_eq_model (row col : Int) (rowAbs colAbs : Bool) :
    xl_rowcol_to_cell row col rowAbs colAbs = A1.rowcolToCell row col rowAbs colAbs := by
  unfold xl_rowcol_to_cell A1.rowcolToCell
  by_cases hr : row < 0
  · simp [hr]; rfl
  · by_cases hc : col < 0
    · simp [hr, hc]; rfl
    · simp only [hr, hc, decide_false, if_false, Bool.false_eq_true, xl_col_to_name_eq_model]
      cases hcn : A1.colName col colAbs with
      | error e => rfl
      | ok cs =>
        simp only [bind, Except.bind, pure, Except.pure, intStr_succ_toNat row hr]

theorem xl_range_eq_model (r1 c1 r2 c2 : Int) :
    xl_range r1 c1 r2 c2 = A1.xlRange r1 c1 r2 c2 := by
  unfold xl_range A1.xlRange
  simp only [xl_rowcol_to_cell_eq_model]
  cases A1.rowcolToCell r1 c1 false false with
  | error e => rfl
  | ok a =>
    cases A1.rowcolToCell r2 c2 false false with
    | error e => rfl
    | ok b =>
      simp only [bind, Except.bind, pure, Except.pure]
      by_cases h : a = b <;> simp [h]

/-! ### `xl_cell_to_rowcol`, `xl_col_to_offset` -/

theorem pow26 (e : Nat) : PyT.pow 26 (e : Int) = .ok ((26 : Int) ^ e) := by
  have : ¬ ((e : Int) < 0) := by omega
  simp [PyT.pow, this]

theorem cell_for1_eq (l : List Char) : ∀ (e : Nat) (acc : Int),
    xl_cell_to_rowcol.for1 (PyT.enumerateFrom (e : Int) (l.map (fun c => [c]))) acc
      = .ok (acc + A1.colSumRev l e) := by
  induction l with
  | nil => intro e acc; simp [PyT.enumerateFrom, xl_cell_to_rowcol.for1, A1.colSumRev, pure, Except.pure]
  | cons c cs ih =>
    intro e acc
    simp only [List.map_cons, PyT.enumerateFrom, xl_cell_to_rowcol.for1, PyT.ord, pow26, bind, Except.bind]
    have : ((e : Int) + 1) = ((e + 1 : Nat) : Int) := by omega
    rw [this, ih]
    simp only [A1.colSumRev]
    congr 1
    ring

theorem offset_for1_eq (l : List Char) : ∀ (e : Nat) (acc : Int),
    xl_col_to_offset.for1 (PyT.enumerateFrom (e : Int) (l.map (fun c => [c]))) acc
      = .ok (acc + A1.colSumRev l e) := by
  induction l with
  | nil => intro e acc; simp [PyT.enumerateFrom, xl_col_to_offset.for1, A1.colSumRev, pure, Except.pure]
  | cons c cs ih =>
    intro e acc
    simp only [List.map_cons, PyT.enumerateFrom, xl_col_to_offset.for1, PyT.ord, pow26, bind, Except.bind]
    have : ((e : Int) + 1) = ((e + 1 : Nat) : Int) := by omega
    rw [this, ih]
    simp only [A1.colSumRev]
    congr 1
    ring

theorem colidx_for1_eq (l : List Char) : ∀ (e : Nat) (acc : Int),
    col_to_index.for1 (PyT.enumerateFrom (e : Int) (l.map (fun c => [c]))) acc
      = .ok (acc + A1.colSumRev l e) := by
  induction l with
  | nil => intro e acc; simp [PyT.enumerateFrom, col_to_index.for1, A1.colSumRev, pure, Except.pure]
  | cons c cs ih =>
    intro e acc
    simp only [List.map_cons, PyT.enumerateFrom, col_to_index.for1, PyT.ord, pow26, bind, Except.bind]
    have : ((e : Int) + 1) = ((e + 1 : Nat) : Int) := by omega
    rw [this, ih]
    simp only [A1.colSumRev]
    congr 1
    ring

theorem strIter_reverse (l : List Char) : (PyT.strIter l).reverse = l.reverse.map (fun c => [c]) := by
  simp [PyT.strIter, List.map_reverse]

theorem spanDigits_fst (zeros : List Nat) (s : List Char) :
    (A1.spanDigits zeros s).1 = (s.takeWhile (A1.isDigitCh zeros)).filterMap (A1.digitVal zeros) := by
  induction s with
  | nil => simp [A1.spanDigits]
  | cons c cs ih =>
    unfold A1.spanDigits
    cases h : A1.digitVal zeros c with
    | none => simp [A1.isDigitCh, h]
    | some v => simp [A1.isDigitCh, h, ih]

theorem takeWhile_digits_all (zeros : List Nat) (s : List Char) :
    (s.takeWhile (A1.isDigitCh zeros)).all (A1.isDigitCh zeros) = true := by
  induction s with
  | nil => simp
  | cons c cs ih =>
    by_cases h : A1.isDigitCh zeros c = true
    · simp [List.takeWhile_cons, h, ih]
    · simp [List.takeWhile_cons, h]

theorem filterMap_digits_nil (zeros : List Nat) (t : List Char) (hall : t.all (A1.isDigitCh zeros) = true) :
    t.filterMap (A1.digitVal zeros) = [] ↔ t = [] := by
  cases t with
  | nil => simp
  | cons c cs =>
    simp only [List.all_cons, Bool.and_eq_true] at hall
    have : (A1.digitVal zeros c).isSome = true := hall.1
    cases h : A1.digitVal zeros c with
    | none => simp [h] at this
    | some v => simp [h]

theorem xl_cell_to_rowcol_eq_model (s : Text) :
    xl_cell_to_rowcol s = A1.cellToRowCol Gen.digitZeros s := by
  unfold xl_cell_to_rowcol A1.cellToRowCol
  by_cases hs : s = []
  · subst hs; rfl
  · have hne : s.isEmpty = false := by cases s <;> simp_all
    simp only [hne, hs, if_false, Bool.not_false, Bool.not_true, Bool.false_eq_true]
    unfold A1.rangePartsMatch
    by_cases hl : ((List.takeWhile A1.isUpper (A1.dropDollar s)).length = 0
        ∨ (List.takeWhile A1.isUpper (A1.dropDollar s)).length > 3)
    · simp only [hl, if_true]; rfl
    · simp only [hl, if_false]
      have hfst := spanDigits_fst Gen.digitZeros (A1.dropDollar (List.dropWhile A1.isUpper (A1.dropDollar s)))
      have hall := takeWhile_digits_all Gen.digitZeros (A1.dropDollar (List.dropWhile A1.isUpper (A1.dropDollar s)))
      have hnil := filterMap_digits_nil Gen.digitZeros _ hall
      generalize hsp : A1.spanDigits Gen.digitZeros (A1.dropDollar (List.dropWhile A1.isUpper (A1.dropDollar s))) = sp at hfst
      obtain ⟨ds, rest⟩ := sp
      simp only at hfst
      generalize List.takeWhile (A1.isDigitCh Gen.digitZeros)
        (A1.dropDollar (List.dropWhile A1.isUpper (A1.dropDollar s))) = tw at hfst hall hnil ⊢
      by_cases htw : tw = []
      · have : ds = [] := by rw [hfst]; exact hnil.mpr htw
        simp [htw, this]; rfl
      · have : ds ≠ [] := by rw [hfst]; exact fun h => htw (hnil.mp h)
        simp only [htw, this, if_false]
        simp only [PyT.enumerate, strIter_reverse]
        have h0 : ((0 : Int)) = ((0 : Nat) : Int) := rfl
        rw [h0, cell_for1_eq]
        simp only [bind, Except.bind, A1.intOfDigits, htw, hall, if_false, if_true, pure, Except.pure,
          A1.colIndex, hfst]
        congr 1
        ring_nf

theorem xl_col_to_offset_eq_model (s : Text) :
    xl_col_to_offset s = A1.colToOffset s := by
  unfold xl_col_to_offset A1.colToOffset
  by_cases hs : s = []
  · subst hs; rfl
  · have hne : s.isEmpty = false := by cases s <;> simp_all
    simp only [hne, hs, if_false, Bool.not_false, Bool.not_true, Bool.false_eq_true]
    unfold A1.colPartsMatch
    by_cases hl : (List.take 3 (List.takeWhile A1.isUpper (A1.dropDollar s))).length = 0
    · simp only [hl, if_true]; rfl
    · simp only [hl, if_false]
      simp only [PyT.enumerate, strIter_reverse]
      have h0 : ((0 : Int)) = ((0 : Nat) : Int) := rfl
      rw [h0, offset_for1_eq]
      simp only [bind, Except.bind, pure, Except.pure, A1.colIndex]
      congr 1
      ring_nf

/-! ### `parse_numbers_range.col_to_index` (tokenizer.py) -/

/-- the tokenizer's own column decoder never raises and is the model's `colIndex`, for every text. -/
theorem col_to_index_eq_model (s : Text) : col_to_index s = .ok (A1.colIndex s) := by
  unfold col_to_index A1.colIndex
  have := colidx_for1_eq s.reverse 0 0
  simp only [PyT.enumerate, strIter_reverse]
  have e0 : ((0 : Nat) : Int) = 0 := rfl
  rw [e0] at this
  rw [this]
  simp [bind, Except.bind, pure, Except.pure]

end NumbersModel.Translated
