/-
Equivalence of the packing / unpacking arithmetic of the merge-region map as `harness/py2lean.py` regenerates it from
`model.py` on every check run (`Gen/TrMerge.lean`: the body of the loop of `recalculate_merged_cells`, and the body of the
loop of `calculate_merge_cell_ranges` up to the loops that fill the map) with `Merge.pack32` / `Merge.loadRange` of
Model/Merge.lean, which the C12 theorems are stated about.
-/
import NumbersModel.Gen.TrMerge
import NumbersModel.Model.Merge

namespace NumbersModel.Translated
open NumbersModel NumbersModel.Gen.T NumbersModel.Merge

/-! ### two's-complement `|`: a negative operand gives a negative result -/

theorem bitOr_neg (a b : Int) (h : a < 0 ∨ b < 0) : PyT.bitOr a b < 0 := by
  cases a with
  | ofNat m =>
    cases b with
    | ofNat n =>
      rcases h with h | h
      · exact absurd h (by simp)
      · exact absurd h (by simp)
    | negSucc n => exact Int.negSucc_lt_zero _
  | negSucc m =>
    cases b with
    | ofNat n => exact Int.negSucc_lt_zero _
    | negSucc n => exact Int.negSucc_lt_zero _

theorem bitOr_natCast (a b : Nat) : PyT.bitOr (a : Int) (b : Int) = ((a ||| b : Nat) : Int) := rfl

/-- `hi << 16 | lo` stored into a `uint32` field, as the source computes it, is the model's `pack32`, for all ints. -/
theorem shl_16 (a : Int) : PyT.shl a (16 : Int) = .ok (a * 2 ^ 16) := by
  have h16 : ¬ ((16 : Int) < 0) := by decide
  simp only [PyT.shl, h16, if_false]
  rfl

theorem pack_field (hi lo : Int) :
    PyT.uint32Field (PyT.bitOr (hi * 2 ^ 16) lo) = (pack32 hi lo).map (fun (v : Nat) => (v : Int)) := by
  by_cases hneg : hi < 0 ∨ lo < 0
  · have h1 : hi * 2 ^ 16 < 0 ∨ lo < 0 := by
      rcases hneg with h | h
      · left; omega
      · right; exact h
    have h2 := bitOr_neg _ _ h1
    simp only [PyT.uint32Field, pack32, hneg, if_true, Except.map, Or.inl h2]
  · have hhi : 0 ≤ hi := by omega
    have hlo : 0 ≤ lo := by omega
    obtain ⟨m, rfl⟩ := Int.eq_ofNat_of_zero_le hhi
    obtain ⟨n, rfl⟩ := Int.eq_ofNat_of_zero_le hlo
    have e : ((m : Int) * (2 : Int) ^ 16) = ((m <<< 16 : Nat) : Int) := by
      rw [Nat.shiftLeft_eq, Int.natCast_mul, Int.natCast_pow]; rfl
    rw [e, bitOr_natCast]
    simp only [pack32, hneg, if_false, Int.toNat_natCast, PyT.uint32Field]
    by_cases hv : (m <<< 16 ||| n) ≥ 2 ^ 32
    · have : (((m <<< 16 ||| n : Nat)) : Int) < 0 ∨ (((m <<< 16 ||| n : Nat)) : Int) ≥ 2 ^ 32 := by
        right; exact_mod_cast hv
      simp only [this, if_true, hv, Except.map]
    · have : ¬ ((((m <<< 16 ||| n : Nat)) : Int) < 0 ∨ (((m <<< 16 ||| n : Nat)) : Int) ≥ 2 ^ 32) := by
        intro h
        rcases h with h | h
        · omega
        · apply hv; exact_mod_cast h
      simp only [this, if_false, hv, Except.map]

/-- the body of the loop of `recalculate_merged_cells`: origin `col << 16 | row`, size `ncols << 16 | nrows`, each stored
    in a `uint32` field — the model's `pack32 col row`, `pack32 w h`, for all ints. -/
theorem merge_pack_eq_model (row col h w : Int) :
    merge_pack (row, col) (h, w) =
      (do let o ← pack32 col row; let sz ← pack32 w h; pure ((o : Int), (sz : Int))) := by
  unfold merge_pack
  simp only [shl_16, bind, Except.bind, pack_field]
  cases pack32 col row with
  | error e => rfl
  | ok o =>
    cases pack32 w h with
    | error e => rfl
    | ok sz => rfl

/-! ### unpacking -/

theorem shr_16 (a : Nat) : PyT.shr (a : Int) (16 : Int) = .ok ((a >>> 16 : Nat) : Int) := by
  have h16 : ¬ ((16 : Int) < 0) := by decide
  simp only [PyT.shr, h16, if_false]
  rfl

theorem bitAnd_natCast (a b : Nat) (bi : Int) (hb : bi = (b : Int)) :
    PyT.bitAnd (a : Int) bi = ((a &&& b : Nat) : Int) := by subst hb; rfl

/-- what `calculate_merge_cell_ranges` does with the six numbers: references over the rectangle, then the anchor -/
def fillRect (m : MMap) (r : Int × Int × Int × Int × Int × Int) : MMap :=
  let (rowStart, colStart, rowEnd, colEnd, numRows, numCols) := r
  let m1 := pureRange (fun row m =>
      pureRange (fun col m => m.set (row, col) (.ref rowStart colStart rowEnd colEnd))
        (colEnd + 1 - colStart).toNat colStart m)
    (rowEnd + 1 - rowStart).toNat rowStart m
  m1.set (rowStart, colStart) (.anchor numRows numCols)

/-- the six numbers the translated loop body computes from the two stored `uint32` values -/
theorem merge_unpack_values (o s : Nat) :
    merge_unpack (o : Int) (s : Int) = .ok
      (((o &&& 0xFFFF : Nat) : Int), ((o >>> 16 : Nat) : Int),
       ((o &&& 0xFFFF : Nat) : Int) + ((s &&& 0xFFFF : Nat) : Int) - 1, ((o >>> 16 : Nat) : Int) + ((s >>> 16 : Nat) : Int) - 1,
       ((s &&& 0xFFFF : Nat) : Int), ((s >>> 16 : Nat) : Int)) := by
  unfold merge_unpack
  simp only [shr_16, bitAnd_natCast _ 65535 65535 rfl, bind, Except.bind, pure, Except.pure]

/-- the loop body of `calculate_merge_cell_ranges` (translated up to the fill loops, then the model's fill) is the model's
    `loadRange`, for every map and every stored pair. -/
theorem merge_unpack_eq_model (m : MMap) (p : Nat × Nat) :
    (merge_unpack (p.1 : Int) (p.2 : Int)).map (fillRect m) = .ok (loadRange m p) := by
  rw [merge_unpack_values]
  rfl

end NumbersModel.Translated
