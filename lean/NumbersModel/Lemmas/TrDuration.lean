/-
Equivalence of the definitions that `harness/py2lean.py` regenerates from `cell.py` on every check run
(`Gen/TrDuration.lean`) with the model of Model/Duration.lean the C14 duration theorems are stated about:
`_unit_format` and `_auto_units`.  The enum values `DurationStyle.*`, `DurationUnits.*` and the `SECONDS_IN_*` constants
appear in the generated text as the literals read from the live module.
-/
import NumbersModel.Gen.TrDuration
import NumbersModel.Model.Duration
import Mathlib.Tactic.SplitIfs

namespace NumbersModel.Translated
open NumbersModel NumbersModel.Gen.T NumbersModel.Duration

/-! ### `_unit_format` -/

/-- for every unit name, count, style and abbreviation: the model's text, except that the source reads `unit[0]` when no
    abbreviation is given and so raises `IndexError` on an empty unit name (never called that way). -/
theorem unit_format_eq_model (u : Text) (v style : Nat) (ab : Option Text) :
    unit_format u (v : Int) (style : Int) ab =
      if ab = none ∧ u = [] then .error .IndexError else .ok (unitFormat u v style ab) := by
  unfold unit_format unitFormat COMPACT SHORT
  have hv : (decide ((v : Int) = 1)) = decide (v = 1) := by
    by_cases h : v = 1
    · subst h; rfl
    · have : ¬ ((v : Int) = 1) := by omega
      simp [h, this]
  have h0 : (decide ((style : Int) = 0)) = decide (style = 0) := by
    by_cases h : style = 0
    · subst h; rfl
    · have : ¬ ((style : Int) = 0) := by omega
      simp [h, this]
  have h1 : (decide ((style : Int) = 1)) = decide (style = 1) := by
    by_cases h : style = 1
    · subst h; rfl
    · have : ¬ ((style : Int) = 1) := by omega
      simp [h, this]
  rw [hv, h0, h1]
  cases ab with
  | some a =>
    simp only [reduceCtorEq, false_and, if_false, bind, Except.bind, pure, Except.pure]
    by_cases hs0 : style = 0
    · simp [hs0]
    · by_cases hs1 : style = 1
      · simp [hs1]
      · by_cases hv1 : v = 1 <;> simp [hs0, hs1, hv1]
  | none =>
    cases u with
    | nil => simp [pyIndex, PyT.strIter, bind, Except.bind]
    | cons c t =>
      have hi : pyIndex (PyT.strIter (c :: t)) 0 = .ok [c] := by
        simp [pyIndex, PyT.strIter]
      simp only [hi, reduceCtorEq, and_false, if_false, bind, Except.bind, pure, Except.pure]
      by_cases hs0 : style = 0
      · simp [hs0]
      · by_cases hs1 : style = 1
        · simp [hs1]
        · by_cases hv1 : v = 1 <;> simp [hs0, hs1, hv1]

/-! ### `_auto_units` -/

theorem millis_mod (ms c : Nat) (hc : 0 < c) :
    PyT.Millis.mod ⟨(ms : Int)⟩ (c : Int) = .ok ⟨((ms % (1000 * c) : Nat) : Int)⟩ := by
  unfold PyT.Millis.mod
  have : ¬ ((c : Int) = 0) := by omega
  simp only [this, if_false]
  congr 2
  rw [Int.fmod_eq_emod_of_nonneg _ (by omega)]
  rw [Int.natCast_emod, Int.natCast_mul]
  rfl

theorem millis_floor_ne (ms : Nat) :
    (decide (PyT.Millis.floor ⟨(ms : Int)⟩ ≠ (⟨(ms : Int)⟩ : PyT.Millis))) = decide (ms % 1000 ≠ 0) := by
  unfold PyT.Millis.floor
  rw [Int.fdiv_eq_ediv_of_nonneg _ (by decide)]
  have : ((⟨1000 * ((ms : Int) / 1000)⟩ : PyT.Millis) ≠ ⟨(ms : Int)⟩) ↔ ms % 1000 ≠ 0 := by
    constructor
    · intro h h0; apply h; congr 1; omega
    · intro h h0; apply h; injection h0 with h0; omega
  simp only [this]

theorem millis_zero (ms : Nat) :
    (decide ((⟨(ms : Int)⟩ : PyT.Millis) = PyT.Millis.ofInt 0)) = decide (ms = 0) := by
  unfold PyT.Millis.ofInt
  have : ((⟨(ms : Int)⟩ : PyT.Millis) = ⟨1000 * 0⟩) ↔ ms = 0 := by
    constructor
    · intro h; injection h with h; omega
    · intro h; subst h; rfl
  simp only [this]

theorem ite_ok {α} (c : Prop) [Decidable c] (a b : α) :
    (if c then (Except.ok a : PyM α) else Except.ok b) = Except.ok (if c then a else b) := by
  split <;> rfl

theorem cast_ite (c : Prop) [Decidable c] (a b : Nat) :
    ((if c then a else b : Nat) : Int) = if c then (a : Int) else (b : Int) := by
  split <;> rfl

/-- the two `if`/`elif` chains of `_auto_units` as the model has them -/
def smallestOf (ms s : Nat) : Nat :=
  if ms % msSecond ≠ 0 then MILLISECOND else if ms % msMinute ≠ 0 then SECOND else if ms % msHour ≠ 0 then MINUTE
  else if ms % msDay ≠ 0 then HOUR else if ms % msWeek ≠ 0 then DAY else s

def largestOf (ms : Nat) : Nat :=
  if ms ≥ msWeek then WEEK else if ms ≥ msDay then DAY else if ms ≥ msHour then HOUR else if ms ≥ msMinute then MINUTE
  else if ms ≥ msSecond then SECOND else MILLISECOND

theorem autoUnits_eq (ms : Nat) (f : Fmt) :
    autoUnits ms f = if ms = 0 then (DAY, DAY) else (max (smallestOf ms f.smallest) (largestOf ms), largestOf ms) := rfl

theorem smallest_chain (ms s : Nat) :
    (if ms % 1000 ≠ 0 then (32 : Int) else if ((ms % (1000 * 60) : Nat) : Int) ≠ 0 then 16
      else if ((ms % (1000 * 3600) : Nat) : Int) ≠ 0 then 8 else if ((ms % (1000 * 86400) : Nat) : Int) ≠ 0 then 4
      else if ((ms % (1000 * 604800) : Nat) : Int) ≠ 0 then 2 else (s : Int))
    = (smallestOf ms s : Int) := by
  unfold smallestOf msWeek msDay msHour msMinute msSecond DAY HOUR MINUTE SECOND MILLISECOND
  simp only [cast_ite]
  split_ifs <;> first | rfl | omega

/-- `_auto_units` on a duration of `ms` whole milliseconds, for every `ms` and every stored pair of units. -/
theorem auto_units_eq_model (ms style l s : Nat) (auto : Bool) :
    auto_units ⟨(ms : Int)⟩ (l : Int) (s : Int) =
      .ok (((autoUnits ms ⟨style, l, s, auto⟩).1 : Int), ((autoUnits ms ⟨style, l, s, auto⟩).2 : Int)) := by
  rw [autoUnits_eq]
  unfold auto_units
  have m60 := millis_mod ms 60 (by decide)
  have m3600 := millis_mod ms 3600 (by decide)
  have m86400 := millis_mod ms 86400 (by decide)
  have m604800 := millis_mod ms 604800 (by decide)
  have c60 : ((60 : Nat) : Int) = 60 := rfl
  have c3600 : ((3600 : Nat) : Int) = 3600 := rfl
  have c86400 : ((86400 : Nat) : Int) = 86400 := rfl
  have c604800 : ((604800 : Nat) : Int) = 604800 := rfl
  rw [c60] at m60; rw [c3600] at m3600; rw [c86400] at m86400; rw [c604800] at m604800
  simp only [millis_zero]
  simp only [millis_floor_ne, m60, m3600, m86400, m604800, PyT.Millis.ofInt, bind, Except.bind, pure,
    Except.pure, ite_ok, PyT.maxI]
  simp only [decide_eq_true_eq]
  by_cases h0 : ms = 0
  · subst h0; rfl
  · simp only [h0, if_false, smallest_chain]
    generalize smallestOf ms s = sm
    have fin : ∀ k : Nat, (Except.ok (if (sm : Int) ≥ (k : Int) then (sm : Int) else (k : Int), (k : Int)) : PyM (Int × Int))
        = Except.ok (((max sm k : Nat) : Int), (k : Int)) := by
      intro k
      simp only [Nat.max_def, cast_ite]
      split_ifs <;> first | rfl | (congr 2; omega)
    by_cases h1 : ms ≥ 604800 * 1000
    · have h1' : (ms : Int) ≥ 1000 * 604800 := by omega
      have hl : largestOf ms = 1 := by simp [largestOf, msWeek, WEEK, h1]
      simp only [h1', decide_true, if_true, hl]
      exact fin 1
    · have h1' : ¬ (ms : Int) ≥ 1000 * 604800 := by omega
      simp only [h1', decide_false, Bool.false_eq_true, if_false]
      by_cases h2 : ms ≥ 86400 * 1000
      · have h2' : (ms : Int) ≥ 1000 * 86400 := by omega
        have hl : largestOf ms = 2 := by simp [largestOf, msWeek, msDay, DAY, h1, h2]
        simp only [h2', decide_true, if_true, hl]
        exact fin 2
      · have h2' : ¬ (ms : Int) ≥ 1000 * 86400 := by omega
        simp only [h2', decide_false, Bool.false_eq_true, if_false]
        by_cases h3 : ms ≥ 3600 * 1000
        · have h3' : (ms : Int) ≥ 1000 * 3600 := by omega
          have hl : largestOf ms = 4 := by simp [largestOf, msWeek, msDay, msHour, HOUR, h1, h2, h3]
          simp only [h3', decide_true, if_true, hl]
          exact fin 4
        · have h3' : ¬ (ms : Int) ≥ 1000 * 3600 := by omega
          simp only [h3', decide_false, Bool.false_eq_true, if_false]
          by_cases h4 : ms ≥ 60 * 1000
          · have h4' : (ms : Int) ≥ 1000 * 60 := by omega
            have hl : largestOf ms = 8 := by simp [largestOf, msWeek, msDay, msHour, msMinute, MINUTE, h1, h2, h3, h4]
            simp only [h4', decide_true, if_true, hl]
            exact fin 8
          · have h4' : ¬ (ms : Int) ≥ 1000 * 60 := by omega
            simp only [h4', decide_false, Bool.false_eq_true, if_false]
            by_cases h5 : ms ≥ 1000
            · have h5' : (ms : Int) ≥ 1000 * 1 := by omega
              have hl : largestOf ms = 16 := by
                simp [largestOf, msWeek, msDay, msHour, msMinute, msSecond, SECOND, h1, h2, h3, h4, h5]
              simp only [h5', decide_true, if_true, hl]
              exact fin 16
            · have h5' : ¬ (ms : Int) ≥ 1000 * 1 := by omega
              have hl : largestOf ms = 32 := by
                simp [largestOf, msWeek, msDay, msHour, msMinute, msSecond, MILLISECOND, h1, h2, h3, h4, h5]
              simp only [h5', decide_false, Bool.false_eq_true, if_false, hl]
              exact fin 32

end NumbersModel.Translated
