import NumbersModel.Model.Iwa
import Mathlib.Tactic.Ring
import Mathlib.Tactic.Linarith
namespace NumbersModel.Iwa
open NumbersModel

/-! ### bytes -/

theorem u8_toNat_ofNat (n : Nat) (h : n < 256) : (UInt8.ofNat n).toNat = n := by
  simp [Nat.mod_eq_of_lt h]

/-- the three length bytes of a frame, as `to_buffer` writes them. -/
def lenBytes (n : Nat) : Bytes :=
  [UInt8.ofNat (n % 256), UInt8.ofNat (n / 256 % 256), UInt8.ofNat (n / 65536 % 256)]

/-- one chunk as it appears in an encoded file: marker, length, payload. -/
def frameOf (p : Bytes) : Bytes := (0 : UInt8) :: lenBytes p.length ++ p

/-- a whole container: the frames of the payloads one after the other. -/
def framesOf (ps : List Bytes) : Bytes := (ps.map frameOf).flatten

theorem le24_ok (n : Nat) (h : n < 4294967296) : le24 n = .ok (lenBytes n) := by
  simp [le24, h, lenBytes]

theorem frameChunk_ok (p : Bytes) (h : p.length < 4294967296) : frameChunk p = .ok (frameOf p) := by
  simp [frameChunk, le24_ok _ h, frameOf, bind, Except.bind]

theorem frameOf_length (p : Bytes) : (frameOf p).length = 4 + p.length := by
  simp [frameOf, lenBytes]; omega

theorem unle24_frame (p rest : Bytes) (h : p.length < 16777216) :
    unle24 ((frameOf p ++ rest).take 4) = .ok p.length := by
  simp only [frameOf, lenBytes, List.cons_append, List.take_succ_cons, List.take_zero, unle24]
  rw [u8_toNat_ofNat _ (Nat.mod_lt _ (by decide)), u8_toNat_ofNat _ (Nat.mod_lt _ (by decide)),
    u8_toNat_ofNat _ (Nat.mod_lt _ (by decide))]
  congr 1; omega

theorem frameOf_drop4 (p rest : Bytes) : (frameOf p ++ rest).drop 4 = p ++ rest := by
  simp [frameOf, lenBytes]

theorem frameAll_ok (ps : List Bytes) (h : ∀ p ∈ ps, p.length < 4294967296) :
    frameAll ps = .ok (framesOf ps) := by
  induction ps with
  | nil => simp [frameAll, framesOf]
  | cons p ps ih =>
    have h1 := frameChunk_ok p (h p (by simp))
    have h2 := ih (fun q hq => h q (by simp [hq]))
    simp [frameAll, h1, h2, framesOf, bind, Except.bind]

/-- what `_decompress_all` yields for one payload: the uncompressed data, or the payload itself. -/
def pieceOf (unc : Bytes → PyM Bytes) (p : Bytes) : Bytes :=
  match unc p with
  | .ok x => x
  | .error _ => p

theorem decompressAll_frame (unc : Bytes → PyM Bytes) (p rest : Bytes) (fuel : Nat)
    (h : p.length < 16777216) :
    decompressAll unc (fuel + 1) (frameOf p ++ rest) =
      (decompressAll unc fuel rest).bind fun more => .ok (pieceOf unc p ++ more) := by
  have hshape : frameOf p ++ rest = (0 : UInt8) :: (lenBytes p.length ++ p ++ rest) := by
    simp [frameOf]
  have h4 := unle24_frame p rest h
  have hd := frameOf_drop4 p rest
  have hdd : (frameOf p ++ rest).drop (4 + p.length) = rest := by
    rw [← List.drop_drop, hd, List.drop_left]
  rw [hshape] at h4 hd hdd ⊢
  rw [decompressAll]
  simp only [ne_eq, not_true_eq_false, if_false, h4, hd, hdd, bind, Except.bind, List.take_left, pieceOf]
  cases decompressAll unc fuel rest <;> rfl

theorem framesOf_cons (p : Bytes) (ps : List Bytes) : framesOf (p :: ps) = frameOf p ++ framesOf ps := by
  simp [framesOf]

theorem framesOf_length_cons (p : Bytes) (ps : List Bytes) :
    (framesOf (p :: ps)).length = 4 + p.length + (framesOf ps).length := by
  rw [framesOf_cons, List.length_append, frameOf_length]

/-- un-framing any sequence of frames (payloads below 2^24 bytes) yields the pieces in order. -/
theorem decompressAll_frames (unc : Bytes → PyM Bytes) (ps : List Bytes)
    (h : ∀ p ∈ ps, p.length < 16777216) (fuel : Nat) (hf : (framesOf ps).length ≤ fuel) :
    decompressAll unc fuel (framesOf ps) = .ok ((ps.map (pieceOf unc)).flatten) := by
  induction ps generalizing fuel with
  | nil => cases fuel <;> simp [framesOf, decompressAll]
  | cons p ps ih =>
    rw [framesOf_length_cons] at hf
    obtain ⟨f, rfl⟩ : ∃ f, fuel = f + 1 := ⟨fuel - 1, by omega⟩
    rw [framesOf_cons, decompressAll_frame unc p _ f (h p (by simp)),
      ih (fun q hq => h q (by simp [hq])) f (by omega)]
    simp [Except.bind]

theorem decompress_frames (unc : Bytes → PyM Bytes) (ps : List Bytes)
    (h : ∀ p ∈ ps, p.length < 16777216) :
    decompress unc (framesOf ps) = .ok ((ps.map (pieceOf unc)).flatten) :=
  decompressAll_frames unc ps h _ (Nat.le_refl _)

/-! ### slicing -/

theorem slices_spec (k : Nat) (hk : 0 < k) (fuel : Nat) (s : Bytes) (hf : s.length ≤ fuel) :
    ∃ sl, slices k fuel s = .ok sl ∧ sl.flatten = s ∧ ∀ x ∈ sl, x ≠ [] ∧ x.length ≤ k := by
  induction fuel generalizing s with
  | zero =>
    have : s = [] := List.eq_nil_of_length_eq_zero (by omega)
    subst this; exact ⟨[], by simp [slices], rfl, by simp⟩
  | succ f ih =>
    cases s with
    | nil => exact ⟨[], by simp [slices], rfl, by simp⟩
    | cons a t =>
      have hl : ((a :: t).drop k).length ≤ f := by
        simp only [List.length_drop, List.length_cons] at hf ⊢; omega
      obtain ⟨sl, h1, h2, h3⟩ := ih _ hl
      refine ⟨(a :: t).take k :: sl, ?_, ?_, ?_⟩
      · simp [slices, h1, bind, Except.bind]
      · simp only [List.flatten_cons, h2, List.take_append_drop]
      · intro x hx
        rcases List.mem_cons.mp hx with rfl | hx
        · constructor
          · obtain ⟨k', rfl⟩ : ∃ k', k = k' + 1 := ⟨k - 1, by omega⟩
            simp
          · simp only [List.length_take]; omega
        · exact h3 x hx

/-! ### sniffing -/

theorem isIwaLoop_frames (ps : List Bytes) (h : ∀ p ∈ ps, p.length < 16777216) (fuel acc : Nat)
    (hf : (framesOf ps).length ≤ fuel) :
    isIwaLoop fuel (framesOf ps) acc = .ok (some (acc + (framesOf ps).length)) := by
  induction ps generalizing fuel acc with
  | nil => cases fuel <;> simp [framesOf, isIwaLoop]
  | cons p ps ih =>
    rw [framesOf_length_cons] at hf ⊢
    obtain ⟨f, rfl⟩ : ∃ f, fuel = f + 1 := ⟨fuel - 1, by omega⟩
    have hp := h p (by simp)
    have h4 := unle24_frame p (framesOf ps) hp
    have hdd : (frameOf p ++ framesOf ps).drop (4 + p.length) = framesOf ps := by
      rw [← List.drop_drop, frameOf_drop4, List.drop_left]
    have hshape : frameOf p ++ framesOf ps = (0 : UInt8) :: (lenBytes p.length ++ p ++ framesOf ps) := by
      simp [frameOf]
    rw [framesOf_cons]
    rw [hshape] at h4 hdd ⊢
    rw [isIwaLoop]
    simp only [ne_eq, not_true_eq_false, if_false, h4, hdd, bind, Except.bind]
    rw [ih (fun q hq => h q (by simp [hq])) f _ (by omega)]
    congr 2; omega

theorem isIwaFile_frames (ps : List Bytes) (h : ∀ p ∈ ps, p.length < 16777216) :
    isIwaFile (framesOf ps) = .ok true := by
  simp [isIwaFile, isIwaLoop_frames ps h _ 0 (Nat.le_refl _), bind, Except.bind]

/-! ### varints -/

theorem varintEncAux_ne_nil (f n : Nat) : varintEncAux (f + 1) n ≠ [] := by
  unfold varintEncAux; split <;> simp

theorem varintEnc_ne_nil (n : Nat) : varintEnc n ≠ [] := varintEncAux_ne_nil _ _

theorem getElem?_mid {α} (pre : List α) (x : α) (post : List α) :
    (pre ++ x :: post)[pre.length]? = some x := by
  simp

theorem varintDec_enc_aux (rest : Bytes) (ef : Nat) :
    ∀ (pre : Bytes) (n k result : Nat), n < ef → k ≤ 9 → n < 2 ^ (70 - 7 * k) →
      varintDecAux (pre ++ varintEncAux ef n ++ rest) (10 - k) pre.length (7 * k) result
        = .ok ((result + n * 2 ^ (7 * k)) % 4294967296, pre.length + (varintEncAux ef n).length) := by
  induction ef with
  | zero => intro pre n k result h; omega
  | succ ef ih =>
    intro pre n k result hn hk hb
    obtain ⟨df, hdf⟩ : ∃ df, 10 - k = df + 1 := ⟨9 - k, by omega⟩
    rw [hdf]
    unfold varintEncAux
    by_cases h0 : n / 128 = 0
    · have hlt : n < 128 := by omega
      simp only [h0, if_true, List.append_assoc, List.cons_append, List.nil_append]
      unfold varintDecAux
      rw [getElem?_mid]
      have hb' : (UInt8.ofNat (n % 128)).toNat = n := by
        rw [u8_toNat_ofNat _ (by omega)]; omega
      simp only [hb', h0, if_true, List.length_singleton]
      rw [Nat.mod_eq_of_lt hlt]
    · have hge : 128 ≤ n := by omega
      have hk8 : k ≤ 8 := by
        by_contra hc
        have : k = 9 := by omega
        subst this
        norm_num at hb; omega
      simp only [h0, if_false, List.append_assoc, List.cons_append]
      unfold varintDecAux
      rw [getElem?_mid]
      have hb' : (UInt8.ofNat (128 + n % 128)).toNat = 128 + n % 128 := u8_toNat_ofNat _ (by omega)
      have hdiv : (128 + n % 128) / 128 = 1 := by omega
      have hmod : (128 + n % 128) % 128 = n % 128 := by omega
      have hsh : ¬ (7 * k + 7 ≥ 64) := by omega
      simp only [hb', hdiv, hmod, Nat.one_ne_zero, if_false, hsh]
      have hdf' : df = 10 - (k + 1) := by omega
      have hpre : pre.length + 1 = (pre ++ [UInt8.ofNat (128 + n % 128)]).length := by simp
      have hbuf : pre ++ UInt8.ofNat (128 + n % 128) :: (varintEncAux ef (n / 128) ++ rest)
          = (pre ++ [UInt8.ofNat (128 + n % 128)]) ++ varintEncAux ef (n / 128) ++ rest := by simp
      have h7 : 7 * k + 7 = 7 * (k + 1) := by ring
      rw [hdf', hpre, hbuf, h7]
      have hb2 : n / 128 < 2 ^ (70 - 7 * (k + 1)) := by
        have : 2 ^ (70 - 7 * k) = 2 ^ (70 - 7 * (k + 1)) * 128 := by
          rw [show 70 - 7 * k = (70 - 7 * (k + 1)) + 7 by omega, Nat.pow_add]
        rw [this] at hb
        exact Nat.div_lt_of_lt_mul (by rw [Nat.mul_comm]; exact hb)
      have hres : result + n % 128 * 2 ^ (7 * k) + n / 128 * 2 ^ (7 * (k + 1)) = result + n * 2 ^ (7 * k) := by
        have hp : 2 ^ (7 * (k + 1)) = 128 * 2 ^ (7 * k) := by
          rw [show 7 * (k + 1) = 7 + 7 * k by ring, Nat.pow_add]
        rw [hp]
        have hn' : n = 128 * (n / 128) + n % 128 := (Nat.div_add_mod n 128).symm
        generalize 2 ^ (7 * k) = P
        generalize hq : n / 128 = q at hn'
        generalize hr : n % 128 = r at hn'
        rw [hn']
        ring
      rw [ih _ (n / 128) (k + 1) _ (by omega) (by omega) hb2, hres]
      simp only [List.length_append, List.length_cons, List.length_nil]
      congr 2
      omega

theorem varintDec_enc (n : Nat) (rest : Bytes) (h : n < 2 ^ 70) :
    varintDec32 (varintEnc n ++ rest) 0 = .ok (n % 4294967296, (varintEnc n).length) := by
  have := varintDec_enc_aux rest (n + 1) [] n 0 0 (by omega) (by omega) (by simpa using h)
  simpa [varintDec32, varintEnc] using this

theorem varintEncAux_length (ef : Nat) : ∀ n k, n < ef → n < 2 ^ (7 * (k + 1)) →
    (varintEncAux ef n).length ≤ k + 1 := by
  induction ef with
  | zero => intro n k h; omega
  | succ ef ih =>
    intro n k hn hb
    unfold varintEncAux
    by_cases h0 : n / 128 = 0
    · simp [h0]
    · simp only [h0, if_false, List.length_cons]
      cases k with
      | zero => norm_num at hb; omega
      | succ k =>
        have : n / 128 < 2 ^ (7 * (k + 1)) := by
          have : 2 ^ (7 * (k + 1 + 1)) = 2 ^ (7 * (k + 1)) * 128 := by
            rw [show 7 * (k + 1 + 1) = 7 * (k + 1) + 7 by ring, Nat.pow_add]
          rw [this] at hb
          exact Nat.div_lt_of_lt_mul (by rw [Nat.mul_comm]; exact hb)
        have := ih (n / 128) k (by omega) this
        omega

/-! ### segments -/

section Seg
variable {H M : Type} (e : Ext H M)

/-- one message of a segment: its `MessageInfo`, its bytes, the parsed object. -/
abbrev Item (M : Type) := MsgInfo × Bytes × M

/-- the per-message facts that make a segment decodable: the class announced by the header parses the
    message bytes to the object, and the announced length is the length of the bytes.
    The flag is `payloads` being non-empty (it selects the patch branch). -/
def GoodItems (h : H) : Bool → List (Item M) → Prop
  | _, [] => True
  | hv, it :: rest =>
    (∃ t p, klassFor e h it.1 hv = .ok (t, p) ∧ e.parseMsg t p it.2.1 = .ok it.2.2)
      ∧ it.1.length = it.2.1.length ∧ GoodItems h true rest

theorem msgLoop_items (h : H) (items : List (Item M)) :
    ∀ (pre rest : Bytes) (acc : List M), GoodItems e h (!acc.isEmpty) items →
      msgLoop e h (pre ++ (items.map (·.2.1)).flatten ++ rest) (items.map (·.1)) pre.length acc
        = .ok (acc ++ items.map (·.2.2), pre.length + ((items.map (·.2.1)).flatten).length) := by
  induction items with
  | nil => intro pre rest acc _; simp [msgLoop]
  | cons it tl ih =>
    intro pre rest acc hg
    obtain ⟨⟨t, p, hk, hp⟩, hl, hrest⟩ := hg
    have hslice : ((pre ++ ((it :: tl).map (·.2.1)).flatten ++ rest).drop pre.length).take it.1.length
        = it.2.1 := by
      simp only [List.map_cons, List.flatten_cons, List.append_assoc, List.drop_left, hl, List.take_left]
    simp only [List.map_cons, msgLoop, hk, bind, Except.bind]
    simp only [List.map_cons] at hslice
    rw [hslice, hp]
    simp only
    have hacc : (!(acc ++ [it.2.2]).isEmpty) = true := by simp
    have := ih (pre ++ it.2.1) rest (acc ++ [it.2.2]) (by rw [hacc]; exact hrest)
    have hbuf : pre ++ it.2.1 ++ (tl.map (·.2.1)).flatten ++ rest
        = pre ++ (it.2.1 :: tl.map (·.2.1)).flatten ++ rest := by simp
    rw [hbuf] at this
    rw [show pre.length + it.1.length = (pre ++ it.2.1).length by simp [hl], this]
    simp only [List.length_append, List.flatten_cons, List.append_assoc, List.singleton_append]
    congr 2; omega

/-- `enc` is the encoding of the segment `s`, and decoding it gives `s` back: header-length varint,
    serialised header, serialised messages; on this header and these messages protobuf parsing and
    serialising are inverse to each other; header lengths equal the message sizes. -/
def SegCode (s : Seg H M) (enc : Bytes) : Prop :=
  ∃ (hb : Bytes) (items : List (Item M)),
    enc = varintEnc hb.length ++ hb ++ (items.map (·.2.1)).flatten ∧ hb.length < 4294967296 ∧
    e.parseInfo hb = .ok s.header ∧ e.serInfo s.header = .ok hb ∧ e.reprEmpty s.header = false ∧
    e.infos s.header = items.map (·.1) ∧ s.objects = items.map (·.2.2) ∧
    GoodItems e s.header false items ∧ ∀ it ∈ items, e.serMsg it.2.2 = .ok it.2.1

theorem segFromBuffer_code (s : Seg H M) (enc rest : Bytes) (hc : SegCode e s enc) :
    segFromBuffer e (enc ++ rest) = .ok (s, rest) := by
  obtain ⟨hb, items, rfl, hlen, hparse, _, hne, hinfos, hobjs, hgood, _⟩ := hc
  have hv := varintDec_enc hb.length (hb ++ (items.map (·.2.1)).flatten ++ rest)
    (by have : (4294967296 : Nat) < 2 ^ 70 := by norm_num
        omega)
  rw [Nat.mod_eq_of_lt hlen] at hv
  have hbuf : varintEnc hb.length ++ hb ++ (items.map (·.2.1)).flatten ++ rest
      = varintEnc hb.length ++ (hb ++ (items.map (·.2.1)).flatten ++ rest) := by simp
  unfold segFromBuffer
  rw [hbuf, hv]
  simp only [bind, Except.bind, List.drop_left, List.append_assoc, List.take_left, hparse, hne]
  have hd : (varintEnc hb.length ++ (hb ++ ((items.map (·.2.1)).flatten ++ rest))).drop
      ((varintEnc hb.length).length + hb.length) = (items.map (·.2.1)).flatten ++ rest := by
    rw [← List.drop_drop, List.drop_left, List.drop_left]
  rw [hd, hinfos]
  have hm := msgLoop_items e s.header items [] rest [] (by simpa using hgood)
  simp only [List.nil_append, List.length_nil, Nat.zero_add] at hm
  rw [hm]
  simp only [Bool.false_eq_true, if_false, List.drop_left]
  cases s; simp_all

theorem fixLoop_consistent (h : H) (items : List (Item M)) :
    ∀ (i : Nat) (preInfos : List MsgInfo), e.infos h = preInfos ++ items.map (·.1) → preInfos.length = i →
      (∀ it ∈ items, e.serMsg it.2.2 = .ok it.2.1 ∧ it.1.length = it.2.1.length) →
      fixLoop e (items.map (·.2.2)) i h = .ok h := by
  induction items with
  | nil => intro i pre _ _ _; simp [fixLoop]
  | cons it tl ih =>
    intro i pre hi hl hall
    obtain ⟨hs, hlen⟩ := hall it (by simp)
    have hget : (e.infos h)[i]? = some it.1 := by
      rw [hi, ← hl]; simp
    simp only [List.map_cons, fixLoop, hget, hs, encodeErrorToValueError, bind, Except.bind]
    have : ¬ (it.2.1.length ≠ it.1.length) := by omega
    simp only [this, if_false]
    exact ih (i + 1) (pre ++ [it.1]) (by simp [hi]) (by simp [hl])
      (fun x hx => hall x (by simp [hx]))

theorem serAll_items (items : List (Item M)) (h : ∀ it ∈ items, e.serMsg it.2.2 = .ok it.2.1) :
    serAll e (items.map (·.2.2)) = .ok (items.map (·.2.1)) := by
  induction items with
  | nil => simp [serAll]
  | cons it tl ih =>
    simp [serAll, h it (by simp), ih (fun x hx => h x (by simp [hx])), bind, Except.bind]

theorem goodItems_lengths (h : H) : ∀ (hv : Bool) (items : List (Item M)), GoodItems e h hv items →
    ∀ it ∈ items, it.1.length = it.2.1.length := by
  intro hv items
  induction items generalizing hv with
  | nil => intro _ it hit; simp at hit
  | cons a tl ih =>
    intro hg it hit
    rcases List.mem_cons.mp hit with rfl | hit
    · exact hg.2.1
    · exact ih true hg.2.2 it hit

theorem segToBuffer_code (s : Seg H M) (enc : Bytes) (hc : SegCode e s enc) :
    segToBuffer e s = .ok (enc, s) := by
  obtain ⟨hb, items, rfl, _, _, hser, _, hinfos, hobjs, hgood, hsm⟩ := hc
  have hl := goodItems_lengths e s.header false items hgood
  have hfix := fixLoop_consistent e s.header items 0 [] (by simpa using hinfos) rfl
    (fun it hit => ⟨hsm it hit, hl it hit⟩)
  unfold segToBuffer
  rw [hobjs, hfix]
  simp only [bind, Except.bind, hser, serAll_items e items hsm]
  cases s; simp_all

theorem segCode_ne_nil (s : Seg H M) (enc : Bytes) (hc : SegCode e s enc) : enc ≠ [] := by
  obtain ⟨hb, items, rfl, _⟩ := hc
  have := varintEnc_ne_nil hb.length
  simp [this]

/-- `st` is the concatenation of the encodings of `segs`. -/
inductive StreamCode : List (Seg H M) → Bytes → Prop
  | nil : StreamCode [] []
  | cons {s enc ss r} : SegCode e s enc → StreamCode ss r → StreamCode (s :: ss) (enc ++ r)

theorem segsFromStream_code (segs : List (Seg H M)) (st : Bytes) (hc : StreamCode e segs st) :
    ∀ fuel, st.length ≤ fuel → segsFromStream e fuel st = .ok segs := by
  induction hc with
  | nil => intro fuel _; cases fuel <;> simp [segsFromStream]
  | @cons s enc ss r hs _ ih =>
    intro fuel hf
    have hne := segCode_ne_nil e s enc hs
    have hpos : 0 < enc.length := List.length_pos_iff.mpr hne
    obtain ⟨f, rfl⟩ : ∃ f, fuel = f + 1 := ⟨fuel - 1, by
      simp only [List.length_append] at hf; omega⟩
    have hne' : (enc ++ r).isEmpty = false := by
      cases enc with
      | nil => exact absurd rfl hne
      | cons a t => rfl
    simp only [segsFromStream, hne', Bool.false_eq_true, if_false, segFromBuffer_code e s enc r hs,
      bind, Except.bind]
    rw [ih f (by simp only [List.length_append] at hf; omega)]

theorem segsToBuffer_code (segs : List (Seg H M)) (st : Bytes) (hc : StreamCode e segs st) :
    segsToBuffer e segs = .ok (st, segs) := by
  induction hc with
  | nil => simp [segsToBuffer]
  | @cons s enc ss r hs _ ih =>
    simp [segsToBuffer, segToBuffer_code e s enc hs, ih, bind, Except.bind]

theorem streamCode_nil_iff (segs : List (Seg H M)) (st : Bytes) (hc : StreamCode e segs st) :
    st = [] ↔ segs = [] := by
  cases hc with
  | nil => simp
  | @cons s enc ss r hs _ =>
    have := segCode_ne_nil e s enc hs
    simp [this]

/-! ### whole chunks / files -/

theorem frameStream_spec (compress : Bytes → Bytes)
    (H2 : ∀ x : Bytes, x.length ≤ 65536 → (compress x).length < 16777216) (s : Bytes) :
    ∃ sl : List Bytes, frameStream compress s = .ok (framesOf (sl.map compress)) ∧ sl.flatten = s ∧
      ∀ x ∈ sl, x ≠ [] ∧ x.length ≤ 65536 := by
  obtain ⟨sl, h1, h2, h3⟩ := slices_spec chunkSize (by decide) s.length s (Nat.le_refl _)
  refine ⟨sl, ?_, h2, h3⟩
  have hall : ∀ p ∈ sl.map compress, p.length < 4294967296 := by
    intro p hp
    obtain ⟨x, hx, rfl⟩ := List.mem_map.mp hp
    have := H2 x (h3 x hx).2
    omega
  simp [frameStream, h1, bind, Except.bind, frameAll_ok _ hall]

theorem pieces_compress (compress : Bytes → Bytes) (unc : Bytes → PyM Bytes)
    (H1 : ∀ x, unc (compress x) = .ok x) (sl : List Bytes) :
    ((sl.map compress).map (pieceOf unc)).flatten = sl.flatten := by
  induction sl with
  | nil => rfl
  | cons a t ih =>
    simp only [List.map_cons, List.flatten_cons, ih]
    simp [pieceOf, H1]

theorem pieces_stored (unc : Bytes → PyM Bytes) (sl : List Bytes)
    (h : ∀ p ∈ sl, ∃ x, unc p = .error x) : (sl.map (pieceOf unc)).flatten = sl.flatten := by
  induction sl with
  | nil => rfl
  | cons a t ih =>
    obtain ⟨x, hx⟩ := h a (by simp)
    simp [pieceOf, hx, ih (fun p hp => h p (by simp [hp]))]

theorem framesOf_eq_nil_iff (ps : List Bytes) : framesOf ps = [] ↔ ps = [] := by
  cases ps with
  | nil => simp [framesOf]
  | cons a t => simp [framesOf, frameOf]

theorem chunk_roundtrip (segs : List (Seg H M)) (st : Bytes) (hc : StreamCode e segs st)
    (H1 : ∀ x, e.uncompress (e.compress x) = .ok x)
    (H2 : ∀ x : Bytes, x.length ≤ 65536 → (e.compress x).length < 16777216) :
    ∃ buf, chunkToBuffer e segs = .ok buf ∧ chunkFromBuffer e buf = .ok segs ∧
      decompress e.uncompress buf = .ok st ∧ isIwaFile buf = .ok true ∧ (buf = [] ↔ segs = []) := by
  obtain ⟨sl, h1, h2, h3⟩ := frameStream_spec e.compress H2 st
  have hlt : ∀ p ∈ sl.map e.compress, p.length < 16777216 := by
    intro p hp
    obtain ⟨x, hx, rfl⟩ := List.mem_map.mp hp
    exact H2 x (h3 x hx).2
  have hd : decompress e.uncompress (framesOf (sl.map e.compress)) = .ok st := by
    rw [decompress_frames _ _ hlt, pieces_compress _ _ H1, h2]
  refine ⟨framesOf (sl.map e.compress), ?_, ?_, hd, isIwaFile_frames _ hlt, ?_⟩
  · simp [chunkToBuffer, segsToBuffer_code e segs st hc, h1, bind, Except.bind]
  · simp [chunkFromBuffer, hd, bind, Except.bind, segsFromStream_code e segs st hc _ (Nat.le_refl _)]
  · rw [framesOf_eq_nil_iff, List.map_eq_nil_iff, ← streamCode_nil_iff e segs st hc, ← h2]
    constructor
    · rintro rfl; rfl
    · intro hf
      cases sl with
      | nil => rfl
      | cons a t =>
        have := h3 a (by simp)
        simp only [List.flatten_cons, List.append_eq_nil_iff] at hf
        exact absurd hf.1 this.1

/-! ### the length fix-up of `to_buffer` -/

theorem encodeErr_ok {α} (x : PyM α) (b : α) (h : encodeErrorToValueError x = .ok b) : x = .ok b := by
  unfold encodeErrorToValueError at h
  split at h
  · cases h
  · exact h

theorem fixLoop_spec
    (hset : ∀ h i v, e.infos (e.setLength h i v) = (e.infos h).modify i (fun mi => { mi with length := v })) :
    ∀ (objs : List M) (i : Nat) (h h' : H), fixLoop e objs i h = .ok h' →
      (e.infos h').length = (e.infos h).length ∧
      (∀ j, j < i → (e.infos h')[j]? = (e.infos h)[j]?) ∧
      (∀ j o, objs[j]? = some o → i + j < (e.infos h).length →
        ∃ b mi, e.serMsg o = .ok b ∧ (e.infos h')[i + j]? = some mi ∧ mi.length = b.length) := by
  intro objs
  induction objs with
  | nil =>
    intro i h h' hf
    simp only [fixLoop, Except.ok.injEq] at hf
    subst hf
    exact ⟨rfl, fun _ _ => rfl, fun j o hj => by simp at hj⟩
  | cons o os ih =>
    intro i h h' hf
    unfold fixLoop at hf
    cases hget : (e.infos h)[i]? with
    | none =>
      simp only [hget, Except.ok.injEq] at hf
      subst hf
      refine ⟨rfl, fun _ _ => rfl, fun j o' _ hlt => ?_⟩
      have := List.getElem?_eq_none_iff.mp hget
      omega
    | some mi =>
      simp only [hget, bind, Except.bind] at hf
      cases hser : encodeErrorToValueError (e.serMsg o) with
      | error x => simp [hser] at hf
      | ok b =>
        simp only [hser] at hf
        have hb := encodeErr_ok _ _ hser
        obtain ⟨hl, h2, h3⟩ := ih (i + 1) _ h' hf
        have hinfos1 : ∀ j, (e.infos (if b.length ≠ mi.length then e.setLength h i b.length else h))[j]?
            = if j = i then some { mi with length := b.length } else (e.infos h)[j]? := by
          intro j
          by_cases hne : b.length ≠ mi.length
          · rw [if_pos hne]
            simp only [hset, List.getElem?_modify]
            by_cases hj : j = i
            · subst hj; simp [hget]
            · have : ¬ i = j := fun h => hj h.symm
              simp only [hj, if_false]
              cases (e.infos h)[j]? <;> simp [this]
          · have heq : b.length = mi.length := by omega
            rw [if_neg hne]
            by_cases hj : j = i
            · subst hj; simp only [if_true, hget]
              cases mi; simp_all
            · simp [hj]
        have hlen1 : (e.infos (if b.length ≠ mi.length then e.setLength h i b.length else h)).length
            = (e.infos h).length := by
          by_cases hne : b.length ≠ mi.length
          · rw [if_pos hne]; simp only [hset, List.length_modify]
          · rw [if_neg hne]
        refine ⟨by rw [hl, hlen1], ?_, ?_⟩
        · intro j hj
          rw [h2 j (by omega), hinfos1 j]
          have : ¬ j = i := by omega
          rw [if_neg this]
        · intro j o' hj hlt
          cases j with
          | zero =>
            simp only [List.getElem?_cons_zero, Option.some.injEq] at hj
            subst hj
            refine ⟨b, { mi with length := b.length }, hb, ?_, rfl⟩
            rw [Nat.add_zero, h2 i (by omega), hinfos1 i, if_pos rfl]
          | succ j =>
            simp only [List.getElem?_cons_succ] at hj
            obtain ⟨b', mi', hb', hg', hl'⟩ := h3 j o' hj (by rw [hlen1]; omega)
            exact ⟨b', mi', hb', by rw [show i + (j + 1) = i + 1 + j by omega]; exact hg', hl'⟩

/-! ### from a successful decode of a well-laid-out stream to `SegCode` -/

theorem msgLoop_inv (h : H) (mis : List MsgInfo) :
    ∀ (pre body rest : Bytes) (acc objs : List M) (n : Nat),
      msgLoop e h (pre ++ body ++ rest) mis pre.length acc = .ok (objs, n) →
      body.length = (mis.map (·.length)).sum →
      ∃ items : List (Item M), items.map (·.1) = mis ∧ (items.map (·.2.1)).flatten = body ∧
        objs = acc ++ items.map (·.2.2) ∧ GoodItems e h (!acc.isEmpty) items ∧ n = pre.length + body.length := by
  induction mis with
  | nil =>
    intro pre body rest acc objs n hm hb
    simp only [msgLoop, Except.ok.injEq, Prod.mk.injEq] at hm
    have : body = [] := List.eq_nil_of_length_eq_zero (by simpa using hb)
    subst this
    exact ⟨[], rfl, rfl, by simp [hm.1], trivial, by simp [hm.2]⟩
  | cons mi tl ih =>
    intro pre body rest acc objs n hm hb
    simp only [List.map_cons, List.sum_cons] at hb
    unfold msgLoop at hm
    cases hk : klassFor e h mi (!acc.isEmpty) with
    | error x => simp [hk, bind, Except.bind] at hm
    | ok tp =>
      obtain ⟨t, p⟩ := tp
      simp only [hk, bind, Except.bind] at hm
      have hslice : ((pre ++ body ++ rest).drop pre.length).take mi.length = body.take mi.length := by
        rw [List.append_assoc, List.drop_left, List.take_append_of_le_length (by omega)]
      rw [hslice] at hm
      cases hp : e.parseMsg t p (body.take mi.length) with
      | error x => simp [hp] at hm
      | ok m =>
        simp only [hp] at hm
        have hsplit : body = body.take mi.length ++ body.drop mi.length := (List.take_append_drop _ _).symm
        have hlt : (body.take mi.length).length = mi.length := by
          rw [List.length_take]; omega
        have hbuf : pre ++ body ++ rest = (pre ++ body.take mi.length) ++ body.drop mi.length ++ rest := by
          conv => lhs; rw [hsplit]
          simp
        rw [hbuf, show pre.length + mi.length = (pre ++ body.take mi.length).length by simp [hlt]] at hm
        obtain ⟨items, h1, h2, h3, h4, h5⟩ := ih _ _ _ _ _ _ hm (by rw [List.length_drop]; omega)
        refine ⟨(mi, body.take mi.length, m) :: items, by simp [h1], ?_, ?_, ?_, ?_⟩
        · simp only [List.map_cons, List.flatten_cons, h2, List.take_append_drop]
        · simp [h3]
        · refine ⟨⟨t, p, hk, hp⟩, hlt.symm, ?_⟩
          have hacc : (!(acc ++ [m]).isEmpty) = true := by simp
          rw [hacc] at h4
          exact h4
        · rw [h5]; simp only [List.length_append, List.length_drop, hlt]; omega

/-- one step of the layout of a well-formed archive stream: canonical header-length varint, the whole
    header present and parseable, message bytes exactly as long as the header announces. -/
inductive StreamLayout : Bytes → Prop
  | nil : StreamLayout []
  | cons {hb body r : Bytes} {h : H} : hb.length < 4294967296 → e.parseInfo hb = .ok h →
      body.length = ((e.infos h).map (·.length)).sum → StreamLayout r →
      StreamLayout (varintEnc hb.length ++ hb ++ body ++ r)

theorem segCode_of_decode
    (S1 : ∀ b h, e.parseInfo b = .ok h → e.serInfo h = .ok b)
    (S2 : ∀ t p b m, e.parseMsg t p b = .ok m → e.serMsg m = .ok b)
    (hb body rest : Bytes) (h : H) (s : Seg H M) (rest' : Bytes)
    (hlen : hb.length < 4294967296) (hparse : e.parseInfo hb = .ok h)
    (hbody : body.length = ((e.infos h).map (·.length)).sum)
    (hdec : segFromBuffer e (varintEnc hb.length ++ hb ++ body ++ rest) = .ok (s, rest')) :
    SegCode e s (varintEnc hb.length ++ hb ++ body) ∧ rest' = rest := by
  have hv := varintDec_enc hb.length (hb ++ body ++ rest)
    (by have : (4294967296 : Nat) < 2 ^ 70 := by norm_num
        omega)
  rw [Nat.mod_eq_of_lt hlen] at hv
  have hbuf : varintEnc hb.length ++ hb ++ body ++ rest
      = varintEnc hb.length ++ (hb ++ body ++ rest) := by simp
  unfold segFromBuffer at hdec
  rw [hbuf, hv] at hdec
  simp only [bind, Except.bind, List.drop_left, List.append_assoc, List.take_left, hparse] at hdec
  have hd : (varintEnc hb.length ++ (hb ++ (body ++ rest))).drop
      ((varintEnc hb.length).length + hb.length) = body ++ rest := by
    rw [← List.drop_drop, List.drop_left, List.drop_left]
  rw [hd] at hdec
  cases hre : e.reprEmpty h with
  | true => simp [hre] at hdec
  | false =>
    simp only [hre, Bool.false_eq_true, if_false] at hdec
    cases hm : msgLoop e h (body ++ rest) (e.infos h) 0 [] with
    | error x => simp [hm] at hdec
    | ok r =>
      obtain ⟨objs, n⟩ := r
      simp only [hm, Except.ok.injEq, Prod.mk.injEq] at hdec
      obtain ⟨items, h1, h2, h3, h4, h5⟩ := msgLoop_inv e h (e.infos h) [] body rest [] objs n
        (by simpa using hm) hbody
      obtain ⟨hs, hr⟩ := hdec
      subst hs
      refine ⟨⟨hb, items, by rw [h2], hlen, hparse, S1 _ _ hparse, hre, h1.symm, by simpa using h3,
        by simpa using h4, ?_⟩, ?_⟩
      · -- every parsed message serialises back to its bytes (law S2)
        have : ∀ (hv : Bool) (its : List (Item M)), GoodItems e h hv its →
            ∀ it ∈ its, e.serMsg it.2.2 = .ok it.2.1 := by
          intro hv its
          induction its generalizing hv with
          | nil => intro _ it hit; simp at hit
          | cons a tl ih =>
            intro hg it hit
            rcases List.mem_cons.mp hit with rfl | hit
            · obtain ⟨⟨t, p, _, hp⟩, _, _⟩ := hg
              exact S2 _ _ _ _ hp
            · exact ih true hg.2.2 it hit
        exact this _ items h4
      · rw [← hr, h5]; simp

theorem streamCode_of_decode
    (S1 : ∀ b h, e.parseInfo b = .ok h → e.serInfo h = .ok b)
    (S2 : ∀ t p b m, e.parseMsg t p b = .ok m → e.serMsg m = .ok b)
    (st : Bytes) (hl : StreamLayout e st) :
    ∀ (fuel : Nat) (segs : List (Seg H M)), st.length ≤ fuel → segsFromStream e fuel st = .ok segs →
      StreamCode e segs st := by
  induction hl with
  | nil =>
    intro fuel segs _ hd
    cases fuel <;> simp [segsFromStream] at hd <;> subst hd <;> exact StreamCode.nil
  | @cons hb body r h hlen hparse hbody _ ih =>
    intro fuel segs hf hd
    have hne : (varintEnc hb.length ++ hb ++ body ++ r).isEmpty = false := by
      have := varintEnc_ne_nil hb.length
      cases hq : varintEnc hb.length with
      | nil => exact absurd hq this
      | cons a t => rfl
    have hpos : 0 < (varintEnc hb.length).length := List.length_pos_iff.mpr (varintEnc_ne_nil _)
    obtain ⟨f, rfl⟩ : ∃ f, fuel = f + 1 := ⟨fuel - 1, by
      simp only [List.length_append] at hf; omega⟩
    obtain ⟨buf, hbufq⟩ : ∃ buf, buf = varintEnc hb.length ++ hb ++ body ++ r := ⟨_, rfl⟩
    rw [← hbufq] at hd hne
    simp only [segsFromStream, hne, Bool.false_eq_true, if_false, bind, Except.bind] at hd
    cases hs : segFromBuffer e buf with
    | error x => simp [hs] at hd
    | ok sr =>
      obtain ⟨s, rest'⟩ := sr
      rw [hbufq] at hs
      obtain ⟨hc, hr⟩ := segCode_of_decode e S1 S2 hb body r h s rest' hlen hparse hbody hs
      rw [← hbufq] at hs
      subst hr
      simp only [hs] at hd
      cases hm : segsFromStream e f rest' with
      | error x => simp [hm] at hd
      | ok more =>
        simp only [hm, Except.ok.injEq] at hd
        subst hd
        exact StreamCode.cons hc (ih f more (by simp only [List.length_append] at hf; omega) hm)

end Seg

end NumbersModel.Iwa
