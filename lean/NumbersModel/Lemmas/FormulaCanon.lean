import NumbersModel.Lemmas.FormulaLex
import NumbersModel.Lemmas.Cache
namespace NumbersModel.Formula.Parse
open NumbersModel NumbersModel.Formula

/-! ### `Formula.render e` is the conventional rendering of `canon e` -/

/-- `,x,y…` -/
def joinTail (sep : Char) : List Text → Text
  | [] => []
  | x :: xs => sep :: (x ++ joinTail sep xs)

theorem join_cons (sep : Char) (x : Text) (xs : List Text) : join [sep] (x :: xs) = x ++ joinTail sep xs := by
  induction xs generalizing x with
  | nil => simp [join, joinTail]
  | cons y ys ih => simp [join, joinTail, ih y]

theorem renderTail_eq : ∀ ps : List PT, renderTail ps = joinTail ',' (ps.map renderPT)
  | [] => rfl
  | p :: ps => by simp [renderTail, joinTail, renderTail_eq ps]

theorem renderSeq_eq : ∀ ps : List PT, renderSeq ps = join [','] (ps.map renderPT)
  | [] => rfl
  | p :: ps => by simp [renderSeq, join_cons, renderTail_eq]

theorem renderRowsTail_eq : ∀ rs : List (List PT),
    renderRowsTail rs = joinTail ';' (rs.map (fun r => join [','] (r.map renderPT)))
  | [] => rfl
  | r :: rs => by simp [renderRowsTail, joinTail, renderRowsTail_eq rs, renderSeq_eq]

theorem renderRows_eq : ∀ rs : List (List PT),
    renderRows rs = join [';'] (rs.map (fun r => join [','] (r.map renderPT)))
  | [] => rfl
  | r :: rs => by simp [renderRows, join_cons, renderRowsTail_eq, renderSeq_eq]

theorem chunks_map {α : Type} (f : α → Text) : ∀ (r c : Nat) (xs : List α),
    chunks r c (xs.map f) = (chunksG r c xs).map (List.map f)
  | 0, _, _ => rfl
  | r + 1, c, xs => by
    simp only [chunks, chunksG, List.map_cons, ← List.map_take, ← List.map_drop, chunks_map f r c]

mutual
theorem render_canon : ∀ e : Expr, render e = renderPT (canon e)
  | .num n => by simp only [render, canon, renderPT]
  | .str s => by simp only [render, canon, renderPT]
  | .bool _ b => by simp only [render, canon, renderPT]
  | .date m => by
    simp only [render, canon]
    unfold dateSpec dateCanon
    generalize civil (epochOrdinal + m / 86400000000).toNat = ymd
    obtain ⟨y, mo, d⟩ := ymd
    simp only [renderPT, renderSeq, renderTail]
    have e1 : "DATE(".toList = "DATE".toList ++ ['('] := by decide
    rw [e1]
    simp only [List.append_assoc, List.cons_append, List.nil_append, List.append_nil]
  | .ref t => by simp only [render, canon, renderPT]
  | .empty => by simp only [render, canon, renderPT]
  | .bin op l r => by simp only [render, canon, renderPT, render_canon l, render_canon r]
  | .neg e => by simp only [render, canon, renderPT, render_canon e]
  | .pct e => by simp only [render, canon, renderPT, render_canon e]
  | .paren es => by
    simp only [render, canon, renderPT, renderList_canon es, renderSeq_eq]
    simp
  | .call f args => by
    simp only [render, canon, renderPT, renderList_canon args, renderSeq_eq]
    simp
  | .arr c r es => by
    simp only [render, canon, renderPT, renderList_canon es, chunks_map, renderRows_eq, List.map_map]
    simp [Function.comp_def]
theorem renderList_canon : ∀ es : List Expr, renderList es = (canonList es).map renderPT
  | [] => rfl
  | e :: es => by simp only [renderList, canonList, render_canon e, renderList_canon es, List.map_cons]
end

/-! ### what the renderer prints for numbers, dates and function names is always read back -/

theorem wordOK_of_plain : ∀ (w : Text), (∀ c ∈ w, isDelim c = false ∧ c ≠ '\'') → scanWord false w = some (w, [])
  | [], _ => rfl
  | c :: w, h => by
    have hc := h c (by simp)
    have := wordOK_of_plain w (fun x hx => h x (by simp [hx]))
    simp [scanWord, hc.1, hc.2, this]

theorem wordOK_plain {w : Text} (hne : w ≠ []) (h : ∀ c ∈ w, isDelim c = false ∧ c ≠ '\'') : wordOK w = true := by
  unfold wordOK
  simp only [Bool.and_eq_true, Bool.not_eq_true', beq_iff_eq]
  exact ⟨by cases w <;> simp_all, wordOK_of_plain w h⟩

theorem digit_plain {c : Char} (h : isAsciiDigit c = true) : isDelim c = false ∧ c ≠ '\'' := by
  rw [isAsciiDigit_iff] at h
  have hall : ∀ k, 48 ≤ k → k ≤ 57 → isDelim (Char.ofNat k) = false ∧ Char.ofNat k ≠ '\'' := by decide
  have := hall c.toNat h.1 h.2
  rwa [Char.ofNat_toNat] at this

theorem dot_plain : isDelim '.' = false ∧ ('.' : Char) ≠ '\'' := by decide

theorem numSafe_digits {x : Text} (hx : x ≠ []) (hd : ∀ c ∈ x, isAsciiDigit c = true) : numSafe x = true := by
  unfold numSafe
  rw [decValue_int x hx hd]
  simp [wordOK_plain hx (fun c hc => digit_plain (hd c hc))]

theorem numSafe_frac {a b : Text} (ha : a ≠ []) (hda : ∀ c ∈ a, isAsciiDigit c = true)
    (hdb : ∀ c ∈ b, isAsciiDigit c = true) : numSafe (a ++ '.' :: b) = true := by
  unfold numSafe
  rw [decValue_frac a b ha hda hdb]
  have : wordOK (a ++ '.' :: b) = true := by
    apply wordOK_plain (by simp)
    intro c hc
    rcases List.mem_append.1 hc with h | h
    · exact digit_plain (hda c h)
    · rcases List.mem_cons.1 h with h | h
      · subst h; exact dot_plain
      · exact digit_plain (hdb c h)
  simp [this]

theorem natStr_digits (n : Nat) : ∀ c ∈ natStr n, isAsciiDigit c = true := by
  intro c hc
  rw [isAsciiDigit_iff]
  exact NumbersModel.Cache.natStr_chars n c hc

theorem numSafe_natStr (n : Nat) : numSafe (natStr n) = true :=
  numSafe_digits (NumbersModel.Cache.natStr_ne_nil n) (natStr_digits n)

theorem numSafe_sci (i : Char) (f : List Char) (e : Int) (h : sciShape i f e = true) :
    numSafe (numText (.sci i f e)) = true := by
  simp only [sciShape, Bool.and_eq_true, List.all_eq_true, bne_iff_ne, ne_eq] at h
  obtain ⟨⟨hi, hf⟩, _⟩ := h
  simp only [numText]
  by_cases he : e > 0
  · simp only [he, if_true]
    apply numSafe_digits (by simp)
    intro c hc
    simp only [List.cons_append, List.mem_cons, List.mem_append] at hc
    rcases hc with h | h | h
    · subst h; exact hi
    · exact hf c h
    · exact zeros_all_digits _ c h
  · simp only [he, if_false]
    have : ('0' : Char) :: '.' :: zeros (e.natAbs - 1) ++ i :: f = ['0'] ++ '.' :: (zeros (e.natAbs - 1) ++ i :: f) := by
      simp
    rw [this]
    apply numSafe_frac (by simp) (by intro c hc; simp at hc; subst hc; decide)
    intro c hc
    simp only [List.mem_append, List.mem_cons] at hc
    rcases hc with h | h | h
    · exact zeros_all_digits _ c h
    · subst h; exact hi
    · exact hf c h

theorem functionNames_words : (Gen.FUNCTION_MAP.all (fun p => wordOK p.2)) = true := by decide +kernel

theorem wordOK_funcName (f : Nat) : wordOK (funcName f) = true := by
  unfold funcName
  cases h : Gen.FUNCTION_MAP.lookup f with
  | none => decide
  | some n =>
    have hall := functionNames_words
    rw [List.all_eq_true] at hall
    have hmem : (f, n) ∈ Gen.FUNCTION_MAP := by
      have : ∀ (l : List (Nat × Text)), l.lookup f = some n → (f, n) ∈ l := by
        intro l
        induction l with
        | nil => intro h; simp [List.lookup] at h
        | cons p l ih =>
          intro h
          obtain ⟨k, v⟩ := p
          simp only [List.lookup] at h
          by_cases hk : f = k
          · subst hk; simp at h; subst h; simp
          · have : (f == k) = false := by simpa using hk
            rw [this] at h
            exact List.mem_cons_of_mem _ (ih h)
      exact this _ h
    exact hall _ hmem

/-! ### plain reference texts (A1 style) are always `nameSafe` -/

theorem mem_splitOn (sep : Char) : ∀ (t : Text) (c : Char), c ∈ t → c ≠ sep → c ∈ (splitOn sep t).flatten
  | [], _, h, _ => by simp at h
  | d :: r, c, h, hc => by
    unfold splitOn
    by_cases hd : d = sep
    · simp only [hd, if_true, List.flatten_cons, List.nil_append]
      rcases List.mem_cons.1 h with rfl | h
      · exact absurd hd hc
      · exact mem_splitOn sep r c h hc
    · simp only [hd, if_false]
      cases hs : splitOn sep r with
      | nil =>
        rcases List.mem_cons.1 h with rfl | h
        · simp
        · have := mem_splitOn sep r c h hc
          rw [hs] at this; simp at this
      | cons x xs =>
        rcases List.mem_cons.1 h with rfl | h
        · simp
        · have := mem_splitOn sep r c h hc
          rw [hs] at this
          simp only [List.flatten_cons, List.mem_append, List.cons_append, List.mem_cons] at this ⊢
          rcases this with h1 | h1
          · exact Or.inr (Or.inl h1)
          · exact Or.inr (Or.inr h1)

/-- a text with a character that is neither an ASCII digit nor `.` is not a decimal. -/
theorem decValue_none_of_nondigit (t : Text) (c : Char) (hc : c ∈ t) (hd : isAsciiDigit c = false) (hdot : c ≠ '.') :
    decValue t = none := by
  have hm := mem_splitOn '.' t c hc hdot
  unfold decValue
  split
  · rename_i a heq
    rw [heq] at hm
    simp only [List.flatten_cons, List.flatten_nil, List.append_nil] at hm
    have : a.all isAsciiDigit = false := by
      rw [List.all_eq_false]; exact ⟨c, hm, by simp [hd]⟩
    simp [this]
  · rename_i a b heq
    rw [heq] at hm
    simp only [List.flatten_cons, List.flatten_nil, List.append_nil] at hm
    have : (a ++ b).all isAsciiDigit = false := by
      rw [List.all_eq_false]; exact ⟨c, hm, by simp [hd]⟩
    simp [this]
  · rfl

/-- every non-empty text of word characters (no operator / bracket / separator / quote character) that
    contains a non-digit other than `.` — every A1 reference `$A$1`, `A1:B2`, `1:3`, `Table 1::A1` — is
    `nameSafe`, unless it is TRUE or FALSE. -/
theorem nameSafe_plain (t : Text) (hne : t ≠ []) (hp : ∀ c ∈ t, isDelim c = false ∧ c ≠ '\'')
    (hnd : ∃ c ∈ t, isAsciiDigit c = false ∧ c ≠ '.') (h1 : t ≠ "TRUE".toList) (h2 : t ≠ "FALSE".toList) :
    nameSafe t = true := by
  obtain ⟨c, hc, hd, hdot⟩ := hnd
  unfold nameSafe
  simp only [Bool.and_eq_true, bne_iff_ne, ne_eq, Option.isNone_iff_eq_none]
  exact ⟨⟨⟨wordOK_plain hne hp, decValue_none_of_nondigit t c hc hd hdot⟩, h1⟩, h2⟩

theorem lexSafes_iff : ∀ ps : List PT, LexSafes ps = true ↔ ∀ p ∈ ps, LexSafe p = true
  | [] => by simp [LexSafes]
  | p :: ps => by simp [LexSafes, lexSafes_iff ps]

theorem lexSafeRows_chunks : ∀ (r c : Nat) (ps : List PT), LexSafes ps = true → LexSafeRows (chunksG r c ps) = true
  | 0, _, _, _ => rfl
  | r + 1, c, ps, h => by
    rw [lexSafes_iff] at h
    simp only [chunksG, LexSafeRows, Bool.and_eq_true]
    refine ⟨(lexSafes_iff _).2 (fun p hp => h p (List.mem_of_mem_take hp)), ?_⟩
    exact lexSafeRows_chunks r c _ ((lexSafes_iff _).2 (fun p hp => h p (List.mem_of_mem_drop hp)))

mutual
/-- with reference texts that are `nameSafe` (and exponent-free stored numbers that print as decimals),
    every atom of the rendered expression is read back by the lexer. -/
theorem lexSafe_canon : ∀ e : Expr, WellFormed e = true → RefsSafe e = true → LexSafe (canon e) = true
  | .num (.int n), _, _ => by simp only [canon, numText, LexSafe]; exact numSafe_natStr n
  | .num (.plain r), _, hs => by simpa [canon, numText, LexSafe, RefsSafe] using hs
  | .num (.sci i f e), hw, _ => by
    simp only [WellFormed, sciOk, Bool.and_eq_true] at hw
    simp only [canon, LexSafe]
    exact numSafe_sci i f e hw.1
  | .str _, _, _ => rfl
  | .bool _ _, _, _ => rfl
  | .date m, _, _ => by
    simp only [canon]
    unfold dateCanon
    generalize civil (epochOrdinal + m / 86400000000).toNat = ymd
    obtain ⟨y, mo, d⟩ := ymd
    simp only [LexSafe, LexSafes, numSafe_natStr, Bool.and_true]
    decide
  | .ref t, _, hs => by simpa [canon, LexSafe, RefsSafe] using hs
  | .empty, _, _ => rfl
  | .bin _ l r, hw, hs => by
    simp only [WellFormed, Bool.and_eq_true] at hw
    simp only [RefsSafe, Bool.and_eq_true] at hs
    simp [canon, LexSafe, lexSafe_canon l hw.1 hs.1, lexSafe_canon r hw.2 hs.2]
  | .neg e, hw, hs => by
    simp only [WellFormed] at hw
    simp only [RefsSafe] at hs
    simp [canon, LexSafe, lexSafe_canon e hw hs]
  | .pct e, hw, hs => by
    simp only [WellFormed] at hw
    simp only [RefsSafe] at hs
    simp [canon, LexSafe, lexSafe_canon e hw hs]
  | .paren es, hw, hs => by
    simp only [WellFormed] at hw
    simp only [RefsSafe] at hs
    simp [canon, LexSafe, lexSafes_canon es hw hs]
  | .call f args, hw, hs => by
    simp only [WellFormed] at hw
    simp only [RefsSafe] at hs
    simp [canon, LexSafe, lexSafes_canon args hw hs, wordOK_funcName]
  | .arr c r es, hw, hs => by
    simp only [WellFormed, Bool.and_eq_true] at hw
    simp only [RefsSafe] at hs
    simp only [canon, LexSafe]
    exact lexSafeRows_chunks r c _ (lexSafes_canon es hw.1.1 hs)
theorem lexSafes_canon : ∀ es : List Expr, WellFormedList es = true → RefsSafeList es = true →
    LexSafes (canonList es) = true
  | [], _, _ => rfl
  | e :: es, hw, hs => by
    simp only [WellFormedList, Bool.and_eq_true] at hw
    simp only [RefsSafeList, Bool.and_eq_true] at hs
    simp [canonList, LexSafes, lexSafe_canon e hw.1 hs.1, lexSafes_canon es hw.2 hs.2]
end

end NumbersModel.Formula.Parse
