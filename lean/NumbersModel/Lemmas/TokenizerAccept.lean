import NumbersModel.Lemmas.Tokenizer
import NumbersModel.Lemmas.TokenizerQuotes
import NumbersModel.Model.TokenizerCfg
import NumbersModel.Lemmas.TokenizerQRef
import NumbersModel.Model.FormulaAcceptDefs
namespace NumbersModel.Tokenizer
open NumbersModel

/-! ### fuel-free view of the loop -/

theorem loop_fuel_irrelevant {cfg : Cfg} (hc : FixedCfg cfg) :
    ∀ f1 f2 st, st.rest.length < f1 → st.rest.length < f2 → loop cfg f1 st = loop cfg f2 st := by
  intro f1
  induction f1 with
  | zero => intro f2 st h; omega
  | succ k ih =>
    intro f2 st h1 h2
    cases f2 with
    | zero => omega
    | succ m =>
      unfold loop
      by_cases hr : st.rest = []
      · simp [hr]
      · simp only [hr, if_false]
        rcases step_total hc st hr with ⟨st1, e, hl⟩ | e
        · simp only [e, bind, Except.bind]
          exact ih m st1 (by omega) (by omega)
        · simp [e, bind, Except.bind]

/-- the rest of the tokenizer run from a state (enough fuel for what is left to read). -/
def run (st : St) : PyM St := loop liveCfg (st.rest.length + 1) st

theorem liveFixed : FixedCfg liveCfg := ⟨rfl, by unfold CodesOK; decide⟩

theorem run_nil {st : St} (h : st.rest = []) : run st = .ok (saveToken st) := by
  unfold run loop; simp [h]

theorem run_step {st st1 : St} (hne : st.rest ≠ []) (e : step liveCfg st = .ok st1) : run st = run st1 := by
  unfold run
  conv => lhs; unfold loop
  simp only [hne, if_false, e, bind, Except.bind]
  rcases step_total liveFixed st hne with ⟨st2, e2, hl⟩ | e2
  · rw [e] at e2; injection e2 with e2; subst e2
    exact loop_fuel_irrelevant liveFixed _ _ _ (by omega) (by omega)
  · rw [e] at e2; cases e2

end NumbersModel.Tokenizer

namespace NumbersModel.Tokenizer
open NumbersModel


theorem plain_facts {c : Char} (h : plain c = true) :
    liveCfg.enders.contains c = false ∧ c ≠ '"' ∧ c ≠ '\'' ∧ c ≠ '#' ∧ c ≠ '{' ∧ c ≠ '(' := by
  unfold plain at h
  simp only [Bool.and_eq_true, Bool.not_eq_true', decide_eq_false_iff_not] at h
  obtain ⟨⟨⟨⟨⟨h1, h2⟩, h3⟩, h4⟩, h5⟩, h6⟩ := h
  exact ⟨h1, h2, h3, h4, h5, h6⟩

/-- every dispatched operator / closer / separator is an ender, so a plain character is none of them. -/
theorem plain_not_special {c : Char} (h : plain c = true) :
    opChars.contains c = false ∧ c ≠ ')' ∧ c ≠ '}' ∧ c ≠ ';' ∧ c ≠ ',' ∧ c ≠ '+' ∧ c ≠ '-' := by
  obtain ⟨h1, _⟩ := plain_facts h
  have hop : ∀ x ∈ opChars, liveCfg.enders.contains x = true := by decide
  refine ⟨?_, ?_, ?_, ?_, ?_, ?_, ?_⟩
  · cases hc : opChars.contains c with
    | false => rfl
    | true =>
      have := hop c (by simpa [List.contains_iff_mem] using hc)
      rw [h1] at this; cases this
  all_goals (intro hc; subst hc; revert h1; decide)

theorem step_plain {st : St} {c : Char} {r : List Char} (hr : st.rest = c :: r) (hp : plain c = true) :
    step liveCfg st = .ok { st with token := st.token ++ [c], rest := r } := by
  obtain ⟨h1, h2, h3, h4, h5, h6⟩ := plain_facts hp
  obtain ⟨g1, g2, g3, g4, g5, g6, g7⟩ := plain_not_special hp
  unfold step
  simp only [hr]
  have hsci : ¬ ((c = '+' ∨ c = '-') ∧ st.token.length ≥ 1 ∧ snMatch st.token = true) := by
    rintro ⟨hc | hc, _⟩ <;> contradiction
  simp only [hsci, if_false, h1, Bool.false_eq_true]
  have e1 : ¬ (c = '"' ∨ c = '\'') := by rintro (h | h) <;> contradiction
  have e2 : ¬ (c = '{' ∨ c = '(') := by rintro (h | h) <;> contradiction
  have e3 : ¬ (c = ')' ∨ c = '}') := by rintro (h | h) <;> contradiction
  have e4 : ¬ (c = ';' ∨ c = ',') := by rintro (h | h) <;> contradiction
  have g1' : c ∉ opChars := by
    intro hm; have : opChars.contains c = true := by simpa [List.contains_iff_mem] using hm
    rw [g1] at this; cases this
  simp [e1, h4, g1', e2, e3, e4]

end NumbersModel.Tokenizer

namespace NumbersModel.Tokenizer
open NumbersModel

theorem run_plain_run : ∀ (t : List Char) (st : St) (r : List Char), (∀ c ∈ t, plain c = true) →
    st.rest = t ++ r → run st = run { st with token := st.token ++ t, rest := r } := by
  intro t
  induction t with
  | nil => intro st r _ hr; simp at hr; simp [← hr]
  | cons c t ih =>
    intro st r hp hr
    have hc := hp c (by simp)
    have e := step_plain (st := st) (c := c) (r := t ++ r) (by simpa using hr) hc
    rw [run_step (by rw [hr]; simp) e]
    have := ih { st with token := st.token ++ [c], rest := t ++ r } r (fun x hx => hp x (by simp [hx])) rfl
    rw [this]; simp [List.append_assoc]

def opGlyphs : List Char := "+-×÷^&>≥<≤=≠%".toList
def OpGlyph (c : Char) : Bool := opGlyphs.contains c
def EndLike (c : Char) : Bool := OpGlyph c || c = ')' || c = '}' || c = ',' || c = ';'
def Next (r : List Char) : Prop := r = [] ∨ ∃ c r', r = c :: r' ∧ EndLike c = true
/-- the pending operand is not of the `1E` / `2.5E` shape that would swallow a following sign. -/
def Pend (tk : Text) : Prop := tk.length ≥ 1 → snMatch tk = false

theorem opGlyph_facts {c : Char} (h : OpGlyph c = true) :
    liveCfg.enders.contains c = true ∧ opChars.contains c = true ∧ c ≠ '"' ∧ c ≠ '\'' ∧ c ≠ '#' := by
  have hall : ∀ x ∈ opGlyphs, liveCfg.enders.contains x = true ∧ opChars.contains x = true ∧ x ≠ '"' ∧ x ≠ '\'' ∧ x ≠ '#' := by
    decide
  exact hall c (by simpa [OpGlyph, List.contains_iff_mem] using h)

theorem twoCharOps_eq : twoCharOps = [['>', '='], ['<', '='], ['<', '>'], ['≥'], ['≤'], ['≠']] := by decide

theorem twoChar_pair {c d : Char} (h : [c, d] ∈ twoCharOps) : (c = '<' ∨ c = '>') ∧ (d = '=' ∨ d = '>') := by
  rw [twoCharOps_eq] at h
  simp only [List.mem_cons, List.cons.injEq, and_true, List.mem_nil_iff, or_false] at h
  rcases h with h | h | h | h | h | h
  · exact ⟨Or.inr h.1, Or.inl h.2⟩
  · exact ⟨Or.inl h.1, Or.inl h.2⟩
  · exact ⟨Or.inl h.1, Or.inr h.2⟩
  all_goals (simp at h)

theorem step_op {st : St} {c : Char} {r : List Char} (hr : st.rest = c :: r) (hg : OpGlyph c = true)
    (hp : Pend st.token) (hnext : (c = '<' ∨ c = '>') → ∀ d r', r = d :: r' → d ≠ '=' ∧ d ≠ '>') :
    ∃ st1, step liveCfg st = .ok st1 ∧ st1.rest = r ∧ st1.token = [] ∧ st1.stack = st.stack := by
  obtain ⟨h1, h2, h3, h4, h5⟩ := opGlyph_facts hg
  unfold step
  simp only [hr]
  have hsci : ¬ ((c = '+' ∨ c = '-') ∧ st.token.length ≥ 1 ∧ snMatch st.token = true) := by
    rintro ⟨_, hl, hs⟩; rw [hp hl] at hs; cases hs
  have e1 : ¬ (c = '"' ∨ c = '\'') := by rintro (h | h) <;> contradiction
  simp only [hsci, if_false, h1, if_true, e1, h5, h2]
  have hrest : (saveToken st).rest = c :: r := by simp [hr]
  have htok := saveToken_token st
  unfold parseOperator
  simp only [hrest]
  by_cases h2c : twoCharOps.contains ((c :: r).take 2) = true
  · simp only [h2c, if_true]
    cases r with
    | nil => exact ⟨_, rfl, by simp, htok, by simp⟩
    | cons d r' =>
      exfalso
      have hm : [c, d] ∈ twoCharOps := by simpa [List.contains_iff_mem] using h2c
      obtain ⟨hc, hd⟩ := twoChar_pair hm
      obtain ⟨n1, n2⟩ := hnext hc d r' rfl
      rcases hd with h | h
      · exact n1 h
      · exact n2 h
  · simp only [h2c]
    exact ⟨_, rfl, rfl, htok, by simp⟩

end NumbersModel.Tokenizer

namespace NumbersModel.Tokenizer
open NumbersModel

theorem step_open_paren {st : St} {r : List Char} (hr : st.rest = '(' :: r) :
    ∃ t, step liveCfg st = .ok { st with items := st.items ++ [t], stack := st.stack ++ [t], token := [], rest := r }
      ∧ t.type ≠ .ARRAY := by
  unfold step
  simp only [hr]
  have hsci : ¬ ((('(' : Char) = '+' ∨ ('(' : Char) = '-') ∧ st.token.length ≥ 1 ∧ snMatch st.token = true) := by
    rintro ⟨h | h, _⟩ <;> exact absurd h (by decide)
  have hend : liveCfg.enders.contains '(' = false := by decide
  simp only [hsci, if_false, hend, Bool.false_eq_true]
  have e1 : ¬ (('(' : Char) = '"' ∨ ('(' : Char) = '\'') := by decide
  have e2 : ¬ (('(' : Char) = '#') := by decide
  have e3 : opChars.contains '(' = false := by decide
  simp only [e1, e2, e3, if_false, Bool.false_eq_true, or_true, if_true]
  unfold parseOpener
  simp only [hr]
  by_cases ht : st.token ≠ []
  · exact ⟨⟨st.token ++ ['('], .FUNC, .OPEN⟩, by simp [ht], by simp⟩
  · exact ⟨⟨['('], .PAREN, .OPEN⟩, by simp [ht], by simp⟩

def braceTok : Tok := ⟨['{'], TType.ARRAY, SubT.OPEN⟩

theorem step_open_brace {st : St} {r : List Char} (hr : st.rest = '{' :: r) (ht : st.token = []) :
    step liveCfg st = .ok ⟨st.items ++ [braceTok], st.stack ++ [braceTok], st.token, r⟩ := by
  unfold step
  simp only [hr]
  have hsci : ¬ ((('{' : Char) = '+' ∨ ('{' : Char) = '-') ∧ st.token.length ≥ 1 ∧ snMatch st.token = true) := by
    rintro ⟨h | h, _⟩ <;> exact absurd h (by decide)
  have hend : liveCfg.enders.contains '{' = false := by decide
  simp only [hsci, if_false, hend, Bool.false_eq_true]
  have e1 : ¬ (('{' : Char) = '"' ∨ ('{' : Char) = '\'') := by decide
  have e2 : ¬ (('{' : Char) = '#') := by decide
  have e3 : opChars.contains '{' = false := by decide
  simp only [e1, e2, e3, if_false, Bool.false_eq_true, true_or, if_true]
  unfold parseOpener
  simp only [hr]
  have ha : assertEmpty st = .ok () := by simp [assertEmpty, ht]
  simp [ha, bind, Except.bind, braceTok]

theorem step_close {st : St} {c : Char} {r : List Char} {below : List Tok} {top : Tok}
    (hr : st.rest = c :: r) (hs : st.stack = below ++ [top])
    (hc : (c = ')' ∧ top.type ≠ .ARRAY) ∨ (c = '}' ∧ top.type = .ARRAY)) :
    ∃ st1, step liveCfg st = .ok st1 ∧ st1.rest = r ∧ st1.token = [] ∧ st1.stack = below := by
  have hcc : c = ')' ∨ c = '}' := by rcases hc with h | h <;> simp [h.1]
  unfold step
  simp only [hr]
  have hsci : ¬ ((c = '+' ∨ c = '-') ∧ st.token.length ≥ 1 ∧ snMatch st.token = true) := by
    rintro ⟨h | h, _⟩ <;> rcases hcc with h' | h' <;> (rw [h'] at h; exact absurd h (by decide))
  have hend : liveCfg.enders.contains c = true := by
    rcases hcc with h | h <;> (rw [h]; decide)
  simp only [hsci, if_false, hend, if_true]
  have e1 : ¬ (c = '"' ∨ c = '\'') := by
    rintro (h | h) <;> rcases hcc with h' | h' <;> (rw [h'] at h; exact absurd h (by decide))
  have e2 : ¬ (c = '#') := by
    intro h; rcases hcc with h' | h' <;> (rw [h'] at h; exact absurd h (by decide))
  have e3 : opChars.contains c = false := by
    rcases hcc with h | h <;> (rw [h]; decide)
  have e4 : ¬ (c = '{' ∨ c = '(') := by
    rintro (h | h) <;> rcases hcc with h' | h' <;> (rw [h'] at h; exact absurd h (by decide))
  simp only [e1, e2, e3, e4, if_false, Bool.false_eq_true, hcc, if_true]
  unfold parseCloser
  have hrest : (saveToken st).rest = c :: r := by simp [hr]
  simp only [hrest]
  have hn : ¬ (c ≠ ')' ∧ c ≠ '}') := by
    rintro ⟨a, b⟩; rcases hcc with h | h <;> contradiction
  simp only [hn, if_false, saveToken_stack, hs, List.reverse_append, List.reverse_cons, List.reverse_nil,
    List.nil_append, List.cons_append]
  have hv : (getCloser top).value = [c] := by
    unfold getCloser
    rcases hc with ⟨h1, h2⟩ | ⟨h1, h2⟩
    · subst h1; cases hty : top.type <;> simp_all
    · subst h1; simp [h2]
  simp only [hv, ne_eq, not_true_eq_false, if_false]
  exact ⟨_, rfl, rfl, saveToken_token st, by simp⟩

theorem step_sep {st : St} {c : Char} {r : List Char} (hr : st.rest = c :: r) (hc : c = ',' ∨ c = ';') :
    ∃ st1, step liveCfg st = .ok st1 ∧ st1.rest = r ∧ st1.token = [] ∧ st1.stack = st.stack := by
  unfold step
  simp only [hr]
  have hsci : ¬ ((c = '+' ∨ c = '-') ∧ st.token.length ≥ 1 ∧ snMatch st.token = true) := by
    rintro ⟨h | h, _⟩ <;> rcases hc with h' | h' <;> (rw [h'] at h; exact absurd h (by decide))
  have hend : liveCfg.enders.contains c = true := by
    rcases hc with h | h <;> (rw [h]; decide)
  simp only [hsci, if_false, hend, if_true]
  have e1 : ¬ (c = '"' ∨ c = '\'') := by
    rintro (h | h) <;> rcases hc with h' | h' <;> (rw [h'] at h; exact absurd h (by decide))
  have e2 : ¬ (c = '#') := by
    intro h; rcases hc with h' | h' <;> (rw [h'] at h; exact absurd h (by decide))
  have e3 : opChars.contains c = false := by
    rcases hc with h | h <;> (rw [h]; decide)
  have e4 : ¬ (c = '{' ∨ c = '(') := by
    rintro (h | h) <;> rcases hc with h' | h' <;> (rw [h'] at h; exact absurd h (by decide))
  have e5 : ¬ (c = ')' ∨ c = '}') := by
    rintro (h | h) <;> rcases hc with h' | h' <;> (rw [h'] at h; exact absurd h (by decide))
  have e6 : (c = ';' ∨ c = ',') := by rcases hc with h | h <;> simp [h]
  simp only [e1, e2, e3, e4, e5, e6, if_false, Bool.false_eq_true, if_true]
  unfold parseSeparator
  have hrest : (saveToken st).rest = c :: r := by simp [hr]
  rcases hc with h | h
  · subst h
    simp only [hrest]
    exact ⟨_, rfl, rfl, saveToken_token st, by simp⟩
  · subst h
    simp only [hrest]
    exact ⟨_, rfl, rfl, saveToken_token st, by simp⟩

end NumbersModel.Tokenizer

namespace NumbersModel.Tokenizer
open NumbersModel

theorem dqScan_body : ∀ (body r : List Char), escapedBody '"' body = true → (∀ r', r ≠ '"' :: r') →
    dqScan (body ++ '"' :: r) = some (body.length + 1) := by
  intro body
  induction body using escapedBody.induct (q := '"') with
  | case1 =>
    intro r _ hr
    simp only [List.nil_append, List.length_nil, Nat.zero_add]
    exact dqScan_lone r (fun cs' h => hr cs' h)
  | case2 c cs hc ih =>
    intro r he hr
    rw [escapedBody_ne _ _ _ hc] at he
    simp only [List.cons_append, List.length_cons]
    rw [dqScan_ne c _ hc, ih r he hr]; rfl
  | case3 c hc c' cs' ih =>
    intro r he hr
    have hc1 : c = '"' := by simpa using hc
    subst hc1
    have he' : c' = '"' ∧ escapedBody '"' cs' = true := by
      unfold escapedBody at he
      simpa using he
    obtain ⟨h1, h2⟩ := he'
    subst h1
    simp only [List.cons_append, List.length_cons]
    rw [dqScan_pair, ih r h2 hr]; rfl
  | case4 c hc =>
    intro r he
    have hc1 : c = '"' := by simpa using hc
    subst hc1
    unfold escapedBody at he
    simp at he

theorem dqMatch_lit (body r : List Char) (he : escapedBody '"' body = true) (hnext : ∀ r', r ≠ '"' :: r') :
    dqMatch ('"' :: (body ++ '"' :: r)) = some (body.length + 2) := by
  show (dqScan (body ++ '"' :: r)).map (· + 1) = some (body.length + 2)
  rw [dqScan_body body r he hnext]; rfl

theorem parseString_dq {ws : List Nat} {st : St} {x : List Char} {n : Nat} (hr : st.rest = '"' :: x)
    (ht : st.token = []) (hm : dqMatch ('"' :: x) = some n) :
    parseString ws st = .ok { st with items := st.items ++ [makeOperand (st.rest.take n)], rest := st.rest.drop n } := by
  have hg : quoteGuard st = .ok () := by
    unfold quoteGuard linked
    rw [hr]
    simp [assertEmpty, ht]
  unfold parseString
  simp only [hg, bind, Except.bind]
  rw [hr]
  simp only [hm, ht, ne_eq, not_true_eq_false, if_false]

theorem step_str {st : St} {v r : List Char} (hr : st.rest = v ++ r) (hv : DQLit v) (ht : st.token = [])
    (hnext : ∀ r', r ≠ '"' :: r') :
    step liveCfg st = .ok { st with items := st.items ++ [makeOperand v], rest := r } := by
  obtain ⟨body, rfl, he⟩ := hv
  have hr' : st.rest = '"' :: (body ++ '"' :: r) := by simpa [List.append_assoc] using hr
  have hm := dqMatch_lit body r he hnext
  have hps := parseString_dq (ws := liveCfg.ws) hr' ht hm
  have htake : st.rest.take (body.length + 2) = '"' :: body ++ ['"'] := by
    rw [hr]; exact List.take_left' (by simp)
  have hdrop : st.rest.drop (body.length + 2) = r := by
    rw [hr]; exact List.drop_left' (by simp)
  rw [htake, hdrop] at hps
  unfold step
  rw [hr']
  have hsci : ¬ ((('"' : Char) = '+' ∨ ('"' : Char) = '-') ∧ st.token.length ≥ 1 ∧ snMatch st.token = true) := by
    rintro ⟨h | h, _⟩ <;> exact absurd h (by decide)
  have hend : liveCfg.enders.contains '"' = false := by decide
  simp only [hsci, if_false, hend, Bool.false_eq_true, true_or, if_true]
  exact hps

end NumbersModel.Tokenizer

namespace NumbersModel.Tokenizer
open NumbersModel

def binGlyphs : List Char := "+-×÷^&>≥<≤=≠".toList
def BinGlyph (c : Char) : Bool := binGlyphs.contains c

theorem binGlyph_op {c : Char} (h : BinGlyph c = true) : OpGlyph c = true := by
  have : ∀ x ∈ binGlyphs, OpGlyph x = true := by decide
  exact this c (by simpa [BinGlyph, List.contains_iff_mem] using h)

/-- what may follow the quoted part of a reference: nothing, or `:` and a plain name that does not start
    with white space (`'a-b':alpha`). -/
def PostOK (post : List Char) : Prop :=
  post = [] ∨ ∃ c r, post = ':' :: c :: r ∧ plain c = true ∧ isWs liveCfg.ws c = false ∧ ∀ x ∈ r, plain x = true

/-- formula texts: `G true` expressions, `G false` comma/semicolon separated argument lists. -/
inductive G : Bool → List Char → Prop
  | atom (t : List Char) : t ≠ [] → (∀ c ∈ t, plain c = true) → snMatch t = false → G true t
  /-- a reference with quoted names: an optional plain prefix ending in a colon (`Table 1::`, `Sheet::Table::`,
      `alpha:`), a chain of quoted names `'a-b'` / `'a-b':'c+d'`, optionally `:` and a plain name. -/
  | qatom (pre q post : List Char) : (∀ c ∈ pre, plain c = true) → (pre = [] ∨ pre.getLast? = some ':') →
      SQChain q → PostOK post → G true (pre ++ (q ++ post))
  | str (v : List Char) : DQLit v → G true v
  | neg (e : List Char) : G true e → G true ('-' :: e)
  | pct (e : List Char) : G true e → G true (e ++ ['%'])
  | bin (l : List Char) (op : Char) (r : List Char) : G true l → BinGlyph op = true → G true r → G true (l ++ op :: r)
  | group (name args : List Char) : (∀ c ∈ name, plain c = true) → G false args → G true (name ++ '(' :: (args ++ [')']))
  | arr (args : List Char) : G false args → G true ('{' :: (args ++ ['}']))
  | args_nil : G false []
  | args_one (e : List Char) : G true e → G false e
  | args_sep (sep : Char) (rest : List Char) : (sep = ',' ∨ sep = ';') → G false rest → G false (sep :: rest)
  | args_cons (e : List Char) (sep : Char) (rest : List Char) : G true e → (sep = ',' ∨ sep = ';') → G false rest →
      G false (e ++ sep :: rest)

theorem plain_not_eq_gt {c : Char} (h : plain c = true) : c ≠ '=' ∧ c ≠ '>' := by
  obtain ⟨h1, _⟩ := plain_facts h
  constructor <;> (intro hc; subst hc; revert h1; decide)

/-- an expression text is non-empty and does not start with `=` or `>`. -/
theorem G_start : ∀ {b : Bool} {t : List Char}, G b t → b = true → ∃ c r, t = c :: r ∧ c ≠ '=' ∧ c ≠ '>' := by
  intro b t h
  induction h with
  | atom t hne hp _ =>
    intro _
    cases t with
    | nil => exact absurd rfl hne
    | cons c r => exact ⟨c, r, rfl, plain_not_eq_gt (hp c (by simp))⟩
  | qatom pre q post hp _ hq _ =>
    intro _
    cases pre with
    | nil =>
      obtain ⟨x, rfl⟩ : ∃ x, q = '\'' :: x := by cases hq <;> exact ⟨_, rfl⟩
      exact ⟨'\'', _, rfl, by decide, by decide⟩
    | cons c r => exact ⟨c, _, rfl, plain_not_eq_gt (hp c (by simp))⟩
  | str v hv => intro _; obtain ⟨body, rfl, _⟩ := hv; exact ⟨'"', _, rfl, by decide, by decide⟩
  | neg e _ _ => intro _; exact ⟨'-', e, rfl, by decide, by decide⟩
  | pct e _ ih => intro _; obtain ⟨c, r, rfl, h⟩ := ih rfl; exact ⟨c, r ++ ['%'], rfl, h⟩
  | bin l op r _ _ _ ihl _ => intro _; obtain ⟨c, r', rfl, h⟩ := ihl rfl; exact ⟨c, r' ++ op :: r, rfl, h⟩
  | group name args hp _ _ =>
    intro _
    cases name with
    | nil => exact ⟨'(', _, rfl, by decide, by decide⟩
    | cons c r => exact ⟨c, _, rfl, plain_not_eq_gt (hp c (by simp))⟩
  | arr args _ _ => intro _; exact ⟨'{', _, rfl, by decide, by decide⟩
  | args_nil => intro h; cases h
  | args_one _ _ _ => intro h; cases h
  | args_sep _ _ _ _ _ => intro h; cases h
  | args_cons _ _ _ _ _ _ _ _ => intro h; cases h

def NextOK (b : Bool) (r : List Char) : Prop :=
  if b then Next r else ∃ c r', r = c :: r' ∧ (c = ')' ∨ c = '}')

theorem next_of_endlike {c : Char} {r : List Char} (h : EndLike c = true) : Next (c :: r) :=
  Or.inr ⟨c, r, rfl, h⟩

theorem next_not_dq {r : List Char} (h : Next r) : ∀ r', r ≠ '"' :: r' := by
  intro r' he
  rcases h with h | ⟨c, r'', hr, hc⟩
  · rw [h] at he; cases he
  · rw [hr] at he; injection he with h1 _; subst h1; revert hc; decide

theorem pend_nil : Pend [] := by intro h; simp at h

theorem endlike_facts {c : Char} (h : EndLike c = true) : isWs liveCfg.ws c = false ∧ c ≠ ':' ∧ c ≠ '\'' := by
  have hall : ∀ x ∈ opGlyphs ++ [')', '}', ',', ';'], isWs liveCfg.ws x = false ∧ x ≠ ':' ∧ x ≠ '\'' := by decide
  apply hall
  unfold EndLike OpGlyph at h
  simp only [Bool.or_eq_true, decide_eq_true_eq, List.contains_iff_mem] at h
  simp only [List.mem_append, List.mem_cons, List.mem_nil_iff, or_false]
  tauto

theorem stopsSq_of_next {r : List Char} (h : Next r) : StopsSq liveCfg.ws r := by
  rcases h with rfl | ⟨c, r', rfl, hc⟩
  · exact Or.inl rfl
  · obtain ⟨h1, h2, h3⟩ := endlike_facts hc
    exact Or.inr (Or.inl ⟨c, r', rfl, h1, h2, h3⟩)

theorem colon_plain : plain ':' = true := by decide

theorem plain_not_apostrophe {c : Char} (h : plain c = true) : c ≠ '\'' := (plain_facts h).2.2.1

theorem postOK_plain {post : List Char} (h : PostOK post) : ∀ c ∈ post, plain c = true := by
  rcases h with rfl | ⟨c, r, rfl, hc, _, hr⟩
  · simp
  · intro x hx
    simp only [List.mem_cons] at hx
    rcases hx with rfl | rfl | hx
    · exact colon_plain
    · exact hc
    · exact hr x hx

theorem stopsSq_post {post r : List Char} (hp : PostOK post) (hn : Next r) : StopsSq liveCfg.ws (post ++ r) := by
  rcases hp with rfl | ⟨c, r', rfl, hc, hws, _⟩
  · simpa using stopsSq_of_next hn
  · exact Or.inr (Or.inr ⟨c, r' ++ r, by simp, hws, plain_not_apostrophe hc⟩)

theorem sqChain_head {q : List Char} (h : SQChain q) : ∃ x, q = '\'' :: x := by
  cases h <;> exact ⟨_, rfl⟩

theorem snMatch_apostrophe {t : List Char} (h : '\'' ∈ t) : snMatch t = false :=
  snMatch_false_of_mem h (by decide)

theorem snMatch_colon (r : List Char) : snMatch (':' :: r) = false :=
  snMatch_false_of_mem (c := ':') (by simp) (by decide)

/-- the tokenizer reads any text of the grammar without error, leaving the bracket stack as it found it. -/
theorem G_runs : ∀ {b : Bool} {t : List Char}, G b t → ∀ (st : St) (r : List Char), st.token = [] →
    st.rest = t ++ r → NextOK b r →
    ∃ st', run st = run st' ∧ st'.rest = r ∧ st'.stack = st.stack ∧ Pend st'.token := by
  intro b t h
  induction h with
  | atom t hne hp hsn =>
    intro st r ht hr _
    refine ⟨_, run_plain_run t st r hp hr, rfl, rfl, ?_⟩
    simp only [ht, List.nil_append]; intro _; exact hsn
  | qatom pre q post hp hpre hq hpost =>
    intro st r ht hr hn
    have hr' : st.rest = pre ++ (q ++ (post ++ r)) := by simpa [List.append_assoc] using hr
    have e0 := run_plain_run pre st _ hp hr'
    have hm := sqMatch_chain hq (post ++ r) (stopsSq_post hpost hn)
    obtain ⟨x, hx⟩ := sqChain_head hq
    have htake : (q ++ (post ++ r)).take q.length = q := List.take_left' rfl
    have hdrop : (q ++ (post ++ r)).drop q.length = post ++ r := List.drop_left' rfl
    have hpostp := postOK_plain hpost
    have e1 := step_sq (st := { st with token := st.token ++ pre, rest := q ++ (post ++ r) }) (x := x ++ (post ++ r))
      (n := q.length) (by simp [hx]) (by simpa [ht] using hpre) hm
    simp only [htake, hdrop, ht, List.nil_append] at e1
    have hne0 : q ++ (post ++ r) ≠ [] := by rw [hx]; simp
    by_cases hpe : pre = []
    · subst hpe
      simp only [ne_eq, not_true_eq_false, if_false] at e1
      have e2 := run_plain_run post
        { st with items := st.items ++ [makeOperand q], token := [], rest := post ++ r } r hpostp rfl
      refine ⟨{ st with items := st.items ++ [makeOperand q], token := [] ++ post, rest := r }, ?_, rfl, rfl, ?_⟩
      · rw [e0]
        simp only [ht, List.nil_append, List.append_nil] at e1 ⊢
        rw [run_step hne0 e1, e2]
        simp
      · simp only [List.nil_append]
        intro _
        rcases hpost with rfl | ⟨c, r', rfl, _, _, _⟩
        · rename_i hl; simp at hl
        · exact snMatch_colon _
    · simp only [ne_eq, hpe, not_false_eq_true, if_true] at e1
      have e2 := run_plain_run post
        { st with token := pre ++ q, rest := post ++ r } r hpostp rfl
      refine ⟨{ st with token := pre ++ q ++ post, rest := r }, ?_, rfl, rfl, ?_⟩
      · rw [e0]
        simp only [ht, List.nil_append] at e1 ⊢
        rw [run_step hne0 e1, e2]
      · intro _
        apply snMatch_apostrophe
        rw [hx]; simp
  | str v hv =>
    intro st r ht hr hn
    have e := step_str hr hv ht (next_not_dq hn)
    have hne : st.rest ≠ [] := by obtain ⟨body, rfl, _⟩ := hv; rw [hr]; simp
    exact ⟨_, run_step hne e, rfl, rfl, by simp only [ht]; exact pend_nil⟩
  | neg e he ih =>
    intro st r ht hr hn
    have hr' : st.rest = '-' :: (e ++ r) := by simpa using hr
    obtain ⟨c0, r0, he0, hc0⟩ := G_start he rfl
    obtain ⟨st1, e1, h1r, h1t, h1s⟩ := step_op hr' (by decide) (by rw [ht]; exact pend_nil)
      (fun hc => by rcases hc with h | h <;> exact absurd h (by decide))
    obtain ⟨st2, e2, h2r, h2s, h2p⟩ := ih st1 r h1t h1r hn
    exact ⟨st2, by rw [run_step (by rw [hr']; simp) e1, e2], h2r, by rw [h2s, h1s], h2p⟩
  | pct e he ih =>
    intro st r ht hr hn
    have hr' : st.rest = e ++ ('%' :: r) := by simpa [List.append_assoc] using hr
    obtain ⟨st1, e1, h1r, h1s, h1p⟩ := ih st ('%' :: r) ht hr' (next_of_endlike (by decide))
    obtain ⟨st2, e2, h2r, h2t, h2s⟩ := step_op h1r (by decide) h1p
      (fun hc => by rcases hc with h | h <;> exact absurd h (by decide))
    exact ⟨st2, by rw [e1, run_step (by rw [h1r]; simp) e2], h2r, by rw [h2s, h1s], by rw [h2t]; exact pend_nil⟩
  | bin l op rr hl hop hrr ihl ihr =>
    intro st r ht hr hn
    have hr' : st.rest = l ++ (op :: (rr ++ r)) := by simpa [List.append_assoc] using hr
    have hog := binGlyph_op hop
    obtain ⟨st1, e1, h1r, h1s, h1p⟩ := ihl st (op :: (rr ++ r)) ht hr'
      (next_of_endlike (by simp [EndLike, hog]))
    obtain ⟨c0, r0, he0, hc0⟩ := G_start hrr rfl
    obtain ⟨st2, e2, h2r, h2t, h2s⟩ := step_op h1r hog h1p
      (fun _ d r'' hd => by rw [he0] at hd; simp at hd; rw [← hd.1]; exact hc0)
    obtain ⟨st3, e3, h3r, h3s, h3p⟩ := ihr st2 r h2t h2r hn
    exact ⟨st3, by rw [e1, run_step (by rw [h1r]; simp) e2, e3], h3r, by rw [h3s, h2s, h1s], h3p⟩
  | group name args hp hargs ih =>
    intro st r ht hr hn
    have hr' : st.rest = name ++ ('(' :: (args ++ (')' :: r))) := by simpa [List.append_assoc] using hr
    have e0 := run_plain_run name st _ hp hr'
    obtain ⟨t, e1, hty⟩ := step_open_paren (st := { st with token := st.token ++ name, rest := '(' :: (args ++ (')' :: r)) }) rfl
    obtain ⟨st2, e2, h2r, h2s, h2p⟩ := ih ⟨st.items ++ [t], st.stack ++ [t], [], args ++ (')' :: r)⟩ (')' :: r) rfl rfl
      ⟨')', r, rfl, Or.inl rfl⟩
    obtain ⟨st3, e3, h3r, h3t, h3s⟩ := step_close (below := st.stack) (top := t) h2r (by rw [h2s]) (Or.inl ⟨rfl, hty⟩)
    refine ⟨st3, ?_, h3r, h3s, by rw [h3t]; exact pend_nil⟩
    rw [e0, run_step (by simp) e1, e2, run_step (by rw [h2r]; simp) e3]
  | arr args hargs ih =>
    intro st r ht hr hn
    have hr' : st.rest = '{' :: (args ++ ('}' :: r)) := by simpa [List.append_assoc] using hr
    have e1 := step_open_brace hr' ht
    obtain ⟨st2, e2, h2r, h2s, h2p⟩ := ih ⟨st.items ++ [braceTok], st.stack ++ [braceTok], st.token, args ++ ('}' :: r)⟩
      ('}' :: r) ht rfl ⟨'}', r, rfl, Or.inr rfl⟩
    obtain ⟨st3, e3, h3r, h3t, h3s⟩ := step_close (below := st.stack) (top := braceTok) h2r (by rw [h2s]) (Or.inr ⟨rfl, rfl⟩)
    refine ⟨st3, ?_, h3r, h3s, by rw [h3t]; exact pend_nil⟩
    rw [run_step (by rw [hr']; simp) e1, e2, run_step (by rw [h2r]; simp) e3]
  | args_nil =>
    intro st r ht hr _
    exact ⟨st, rfl, by simpa using hr, rfl, by rw [ht]; exact pend_nil⟩
  | args_one e he ih =>
    intro st r ht hr hn
    obtain ⟨c, r', hrc, hc⟩ := hn
    exact ih st r ht hr (by rw [hrc]; exact next_of_endlike (by rcases hc with h | h <;> (subst h; decide)))
  | args_sep sep rest hs hrest ih =>
    intro st r ht hr hn
    have hr' : st.rest = sep :: (rest ++ r) := by simpa using hr
    obtain ⟨st1, e1, h1r, h1t, h1s⟩ := step_sep hr' hs
    obtain ⟨st2, e2, h2r, h2s, h2p⟩ := ih st1 r h1t h1r hn
    exact ⟨st2, by rw [run_step (by rw [hr']; simp) e1, e2], h2r, by rw [h2s, h1s], h2p⟩
  | args_cons e sep rest he hs hrest ihe ihr =>
    intro st r ht hr hn
    have hr' : st.rest = e ++ (sep :: (rest ++ r)) := by simpa [List.append_assoc] using hr
    obtain ⟨st1, e1, h1r, h1s, h1p⟩ := ihe st (sep :: (rest ++ r)) ht hr'
      (next_of_endlike (by rcases hs with h | h <;> (subst h; decide)))
    obtain ⟨st2, e2, h2r, h2t, h2s⟩ := step_sep h1r hs
    obtain ⟨st3, e3, h3r, h3s, h3p⟩ := ihr st2 r h2t h2r hn
    exact ⟨st3, by rw [e1, run_step (by rw [h1r]; simp) e2, e3], h3r, by rw [h3s, h2s, h1s], h3p⟩

/-- every formula text of the grammar is accepted by the tokenizer. -/
theorem tokenize_accepts {t : List Char} (h : G true t) : ∃ toks, tokenize liveCfg t = .ok toks := by
  obtain ⟨st', e, hr, _, _⟩ := G_runs h ⟨[], [], [], t⟩ [] rfl (by simp) (Or.inl rfl)
  have hrun : run ⟨[], [], [], t⟩ = .ok (saveToken st') := by rw [e, run_nil hr]
  refine ⟨(saveToken st').items, ?_⟩
  unfold tokenize
  have : loop liveCfg (t.length + 1) ⟨[], [], [], t⟩ = run ⟨[], [], [], t⟩ := rfl
  rw [this, hrun]; rfl

end NumbersModel.Tokenizer
