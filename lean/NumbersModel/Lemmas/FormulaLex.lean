import NumbersModel.Model.FormulaLex
import NumbersModel.Lemmas.FormulaParse
namespace NumbersModel.Formula.Parse
open NumbersModel NumbersModel.Formula

/-! ### characters -/

/-- characters that can follow a complete expression in a rendered text. -/
def closers : List Char := [')', '}', ',', ';', '%', '+', '-', '×', '÷', '^', '&', '=', '≠', '<', '>', '≤', '≥']
def closerCh (c : Char) : Bool := closers.contains c

/-- the rest of the text after a complete expression: nothing, or a closing / separating / operator character. -/
def Follow (R : Text) : Prop := R = [] ∨ ∃ c R', R = c :: R' ∧ closerCh c = true

theorem closer_facts {c : Char} (h : closerCh c = true) :
    isDelim c = true ∧ c ≠ '\'' ∧ c ≠ '"' ∧ c ≠ '(' := by
  have hall : ∀ x ∈ closers, isDelim x = true ∧ x ≠ '\'' ∧ x ≠ '"' ∧ x ≠ '(' := by decide
  exact hall c (by simpa [closerCh, List.contains_iff_mem] using h)

theorem follow_cons {c : Char} (R : Text) (h : closerCh c = true) : Follow (c :: R) := Or.inr ⟨c, R, rfl, h⟩

theorem follow_not_dq {R : Text} (h : Follow R) : R.head? ≠ some '"' := by
  rcases h with rfl | ⟨c, R', rfl, hc⟩
  · simp
  · simp only [List.head?_cons, ne_eq, Option.some.injEq]; exact (closer_facts hc).2.2.1

theorem follow_callTail {R : Text} (h : Follow R) : callTail R = none := by
  rcases h with rfl | ⟨c, R', rfl, hc⟩
  · rfl
  · have := (closer_facts hc).2.2.2
    unfold callTail
    split
    · rename_i r heq; injection heq with h1 _; exact absurd h1 this
    · rfl

/-! ### words -/

/-- what ends a word: nothing, or a delimiter that is not an apostrophe. -/
def WordStop (R : Text) : Prop := R = [] ∨ ∃ c R', R = c :: R' ∧ isDelim c = true ∧ c ≠ '\''

theorem wordStop_of_follow {R : Text} (h : Follow R) : WordStop R := by
  rcases h with rfl | ⟨c, R', rfl, hc⟩
  · exact Or.inl rfl
  · exact Or.inr ⟨c, R', rfl, (closer_facts hc).1, (closer_facts hc).2.1⟩

theorem wordStop_paren (X : Text) : WordStop ('(' :: X) := Or.inr ⟨'(', X, rfl, by decide, by decide⟩

theorem scanWord_append : ∀ (w : Text) (b : Bool) (R : Text), scanWord b w = some (w, []) → WordStop R →
    scanWord b (w ++ R) = some (w, R)
  | [], b, R, h, hf => by
    cases b with
    | true => simp [scanWord] at h
    | false =>
      rcases hf with rfl | ⟨c, R', rfl, h1, h2⟩
      · rfl
      · simp [scanWord, h1, h2]
  | c :: w, b, R, h, hf => by
    cases b with
    | true =>
      simp only [scanWord, List.cons_append] at h ⊢
      cases hq : scanWord (c != '\'') w with
      | none => rw [hq] at h; simp at h
      | some q =>
        rw [hq] at h
        simp only [Option.map_some, Option.some.injEq, Prod.mk.injEq, List.cons.injEq, true_and] at h
        have hq' : scanWord (c != '\'') w = some (w, []) := by rw [hq]; congr 1; exact Prod.ext h.1 h.2
        rw [scanWord_append w _ R hq' hf]; rfl
    | false =>
      simp only [scanWord, List.cons_append] at h ⊢
      by_cases hc : c = '\''
      · simp only [hc, if_true] at h ⊢
        cases hq : scanWord true w with
        | none => rw [hq] at h; simp at h
        | some q =>
          rw [hq] at h
          simp only [Option.map_some, Option.some.injEq, Prod.mk.injEq, List.cons.injEq, true_and] at h
          have hq' : scanWord true w = some (w, []) := by rw [hq]; congr 1; exact Prod.ext h.1 h.2
          rw [scanWord_append w _ R hq' hf]; rfl
      · simp only [hc, if_false] at h ⊢
        by_cases hd : isDelim c = true
        · simp [hd] at h
        · simp only [hd, Bool.false_eq_true, if_false] at h ⊢
          cases hq : scanWord false w with
          | none => rw [hq] at h; simp at h
          | some q =>
            rw [hq] at h
            simp only [Option.map_some, Option.some.injEq, Prod.mk.injEq, List.cons.injEq, true_and] at h
            have hq' : scanWord false w = some (w, []) := by rw [hq]; congr 1; exact Prod.ext h.1 h.2
            rw [scanWord_append w _ R hq' hf]; rfl

theorem wordOK_iff {w : Text} (h : wordOK w = true) : w ≠ [] ∧ scanWord false w = some (w, []) := by
  unfold wordOK at h
  simp only [Bool.and_eq_true, Bool.not_eq_true', beq_iff_eq] at h
  exact ⟨by intro e; subst e; simp at h, h.2⟩

/-- a word starts with an apostrophe or a non-delimiter. -/
theorem wordOK_head {w : Text} (h : wordOK w = true) :
    ∃ c r, w = c :: r ∧ (c = '\'' ∨ isDelim c = false) := by
  obtain ⟨hne, hs⟩ := wordOK_iff h
  cases w with
  | nil => exact absurd rfl hne
  | cons c r =>
    refine ⟨c, r, rfl, ?_⟩
    by_cases hc : c = '\''
    · exact Or.inl hc
    · right
      cases hd : isDelim c with
      | false => rfl
      | true => simp [scanWord, hc, hd] at hs

theorem delim_of_opTok {c : Char} {r : Text} (h : isDelim c = false) : c ≠ '"' ∧ opTok c r = none := by
  unfold isDelim at h
  simp only [Bool.or_eq_false_iff, decide_eq_false_iff_not, Option.isSome_eq_false_iff, Option.isNone_iff_eq_none] at h
  obtain ⟨⟨⟨h1, h2⟩, h3⟩, h4⟩ := h
  exact ⟨h1, by simp [opTok, h2, h3, h4]⟩

theorem apostrophe_opTok (r : Text) : opTok '\'' r = none := by
  have : single '\'' = none := by decide
  simp [opTok, this]

/-- a word followed by a closing character (not `(`) is one classified token. -/
theorem lex_word (w R : Text) (F : Nat) (hw : wordOK w = true) (hf : Follow R) :
    lexGo (F + 1) (w ++ R) = (lexGo F R).map (classify w :: ·) := by
  obtain ⟨c, r, rfl, hc⟩ := wordOK_head hw
  obtain ⟨hne, hs⟩ := wordOK_iff hw
  have hsw := scanWord_append _ false R hs (wordStop_of_follow hf)
  have hdq : c ≠ '"' := by
    rcases hc with h | h
    · subst h; decide
    · exact (delim_of_opTok (r := r ++ R) h).1
  have hop : opTok c (r ++ R) = none := by
    rcases hc with h | h
    · subst h; exact apostrophe_opTok _
    · exact (delim_of_opTok h).2
  simp only [List.cons_append] at hsw ⊢
  simp only [lexGo, hdq, if_false, hop, hsw, List.isEmpty_cons, Bool.false_eq_true, follow_callTail hf]

/-- a word followed by `(` is a function-name token. -/
theorem lex_fn (w X : Text) (F : Nat) (hw : wordOK w = true) :
    lexGo (F + 1) (w ++ '(' :: X) = (lexGo F X).map (Tok.fn w :: ·) := by
  obtain ⟨c, r, rfl, hc⟩ := wordOK_head hw
  obtain ⟨hne, hs⟩ := wordOK_iff hw
  have hsw := scanWord_append _ false ('(' :: X) hs (wordStop_paren X)
  have hdq : c ≠ '"' := by
    rcases hc with h | h
    · subst h; decide
    · exact (delim_of_opTok (r := r ++ '(' :: X) h).1
  have hop : opTok c (r ++ '(' :: X) = none := by
    rcases hc with h | h
    · subst h; exact apostrophe_opTok _
    · exact (delim_of_opTok h).2
  simp only [List.cons_append] at hsw ⊢
  simp only [lexGo, hdq, if_false, hop, hsw, List.isEmpty_cons, Bool.false_eq_true, callTail]

/-! ### strings, operators, brackets -/

theorem lex_str (s R : Text) (F : Nat) (hf : Follow R) :
    lexGo (F + 1) (quoteLit s ++ R) = (lexGo F R).map (Tok.str s :: ·) := by
  have h := scanString_quoteLit s R (follow_not_dq hf)
  unfold quoteLit at h ⊢
  simp only [List.cons_append, scanString] at h
  simp only [List.cons_append, lexGo, if_true, h]

theorem lex_single (c : Char) (t : Tok) (X : Text) (F : Nat) (h : single c = some t) :
    lexGo (F + 1) (c :: X) = (lexGo F X).map (t :: ·) := by
  have e1 : single '"' = none := by decide
  have e2 : single '<' = none := by decide
  have e3 : single '>' = none := by decide
  have hc : c ≠ '"' ∧ c ≠ '<' ∧ c ≠ '>' := by
    refine ⟨?_, ?_, ?_⟩ <;> (intro e; subst e; simp_all)
  simp only [lexGo, hc.1, if_false, opTok, hc.2.1, hc.2.2, h, Option.map_some]

/-- the head of `X` is not `=` or `>` (so `<` / `>` before it stay one-character operators). -/
def NoEqGt (X : Text) : Prop := ∀ c r, X = c :: r → c ≠ '=' ∧ c ≠ '>'

theorem opTok_lt (X : Text) (hx : NoEqGt X) : opTok '<' X = some (.op .lt, X) := by
  simp only [opTok, if_true]
  split
  · rename_i r' ; exact absurd rfl (hx _ _ rfl).1
  · rename_i r' ; exact absurd rfl (hx _ _ rfl).2
  · rfl

theorem opTok_gt (X : Text) (hx : NoEqGt X) : opTok '>' X = some (.op .gt, X) := by
  have h2 : ('>' : Char) ≠ '<' := by decide
  simp only [opTok, h2, if_false, if_true]
  split
  · rename_i r' ; exact absurd rfl (hx _ _ rfl).1
  · rfl

theorem lex_op (o : BinOp) (X : Text) (F : Nat) (hx : NoEqGt X) :
    lexGo (F + 1) (glyph o ++ X) = (lexGo F X).map (Tok.op o :: ·) := by
  cases o
  case lt =>
    have h1 : ('<' : Char) ≠ '"' := by decide
    simp only [glyph, List.cons_append, List.nil_append, lexGo, h1, if_false, opTok_lt X hx]
  case gt =>
    have h1 : ('>' : Char) ≠ '"' := by decide
    simp only [glyph, List.cons_append, List.nil_append, lexGo, h1, if_false, opTok_gt X hx]
  all_goals exact lex_single _ _ X F (by decide)


/-! ### how a rendered expression starts, what follows its parts -/

theorem wordOK_noEqGt {w : Text} (h : wordOK w = true) (R : Text) : NoEqGt (w ++ R) := by
  obtain ⟨c, r, rfl, hc⟩ := wordOK_head h
  intro c' r' e
  simp only [List.cons_append, List.cons.injEq] at e
  obtain ⟨rfl, _⟩ := e
  rcases hc with h | h
  · subst h; exact ⟨by decide, by decide⟩
  · constructor <;> (intro e; subst e; revert h; decide)

theorem noEqGt_cons {c : Char} (X : Text) (h1 : c ≠ '=') (h2 : c ≠ '>') : NoEqGt (c :: X) := by
  intro c' r' e
  simp only [List.cons.injEq] at e
  obtain ⟨rfl, _⟩ := e
  exact ⟨h1, h2⟩

theorem renderHead : ∀ t : PT, WP t = true → LexSafe t = true → ∀ R, NoEqGt (renderPT t ++ R)
  | .num t, _, hs, R => by
    simp only [LexSafe, numSafe, Bool.and_eq_true] at hs
    exact wordOK_noEqGt hs.2 R
  | .str s, _, _, R => by
    simp only [renderPT, quoteLit, List.cons_append]; exact noEqGt_cons _ (by decide) (by decide)
  | .bool b, _, _, R => by
    cases b <;> (simp only [renderPT, boolText]; exact noEqGt_cons _ (by decide) (by decide))
  | .name t, _, hs, R => by
    simp only [LexSafe, nameSafe, Bool.and_eq_true] at hs
    exact wordOK_noEqGt hs.1.1.1 R
  | .empty, hw, _, _ => by simp [WP] at hw
  | .neg _, _, _, R => by simp only [renderPT, List.cons_append]; exact noEqGt_cons _ (by decide) (by decide)
  | .paren _, _, _, R => by simp only [renderPT, List.cons_append]; exact noEqGt_cons _ (by decide) (by decide)
  | .arr _, _, _, R => by simp only [renderPT, List.cons_append]; exact noEqGt_cons _ (by decide) (by decide)
  | .call f _, _, hs, R => by
    simp only [LexSafe, Bool.and_eq_true] at hs
    simp only [renderPT, List.append_assoc]
    exact wordOK_noEqGt hs.1 _
  | .pct x, hw, hs, R => by
    simp only [WP, Bool.and_eq_true] at hw
    simp only [LexSafe] at hs
    simp only [renderPT, List.append_assoc]
    exact renderHead x hw.1 hs _
  | .bin _ l _, hw, hs, R => by
    simp only [WP, Bool.and_eq_true] at hw
    simp only [LexSafe, Bool.and_eq_true] at hs
    simp only [renderPT, List.append_assoc]
    exact renderHead l hw.1.1.1 hs.1 _

theorem follow_glyph (o : BinOp) (X : Text) : Follow (glyph o ++ X) := by
  cases o <;> exact follow_cons _ (by decide)

theorem follow_tail (es : List PT) {R : Text} (h : Follow R) : Follow (renderTail es ++ R) := by
  cases es with
  | nil => simpa [renderTail] using h
  | cons e es => simp only [renderTail, List.cons_append]; exact follow_cons _ (by decide)

theorem follow_rowsTail (rs : List (List PT)) {R : Text} (h : Follow R) : Follow (renderRowsTail rs ++ R) := by
  cases rs with
  | nil => simpa [renderRowsTail] using h
  | cons r rs => simp only [renderRowsTail, List.cons_append]; exact follow_cons _ (by decide)

theorem wpargs_of_wps : ∀ es : List PT, WPs es = true → WPArgs es = true
  | [], _ => rfl
  | e :: es, h => by
    simp only [WPs, Bool.and_eq_true] at h
    simp [WPArgs, h.1, wpargs_of_wps es h.2]

/-! ### the lexer reads the rendered text back, token by token -/

def LX (t : PT) : Prop := ∀ R F N, Follow R → N = F + (toks t).length →
  lexGo N (renderPT t ++ R) = (lexGo F R).map (toks t ++ ·)
def LXT (es : List PT) : Prop := ∀ R F N, Follow R → N = F + (toksTail es).length →
  lexGo N (renderTail es ++ R) = (lexGo F R).map (toksTail es ++ ·)
def LXR (rs : List (List PT)) : Prop := ∀ R F N, Follow R → N = F + (toksRowsTail rs).length →
  lexGo N (renderRowsTail rs ++ R) = (lexGo F R).map (toksRowsTail rs ++ ·)

theorem lx_empty : LX .empty := by
  intro R F N _ hN
  simp only [toks, List.length_nil, Nat.add_zero] at hN
  subst hN
  cases h : lexGo N R <;> simp [renderPT, toks, h]

theorem lx_atom (t : PT) (tk : Tok) (ht : toks t = [tk])
    (h : ∀ R F, Follow R → lexGo (F + 1) (renderPT t ++ R) = (lexGo F R).map (tk :: ·)) : LX t := by
  intro R F N hf hN
  rw [ht] at hN ⊢
  simp only [List.length_cons, List.length_nil, Nat.zero_add] at hN
  subst hN
  rw [h R F hf]
  rfl

theorem classify_num {t : Text} (h : numSafe t = true) : classify t = .num t := by
  simp only [numSafe, Bool.and_eq_true] at h
  simp [classify, h.1]

theorem classify_name {t : Text} (h : nameSafe t = true) : classify t = .name t := by
  simp only [nameSafe, Bool.and_eq_true, bne_iff_ne, ne_eq, Option.isNone_iff_eq_none] at h
  obtain ⟨⟨⟨_, h2⟩, h3⟩, h4⟩ := h
  unfold classify
  rw [if_neg (by simp [h2]), if_neg h3, if_neg h4]

theorem classify_bool (b : Bool) : classify (boolText b) = .bool b := by
  cases b <;> decide

mutual
theorem lexMain : ∀ t : PT, WP t = true → LexSafe t = true → LX t
  | .num t, _, hs => by
    refine lx_atom _ (.num t) rfl (fun R F hf => ?_)
    have hs' := hs
    simp only [LexSafe, numSafe, Bool.and_eq_true] at hs'
    simp only [renderPT]
    rw [lex_word t R F hs'.2 hf, classify_num hs]
  | .str s, _, _ => lx_atom _ (.str s) rfl (fun R F hf => by simp only [renderPT]; exact lex_str s R F hf)
  | .bool b, _, _ => by
    refine lx_atom _ (.bool b) rfl (fun R F hf => ?_)
    simp only [renderPT]
    rw [lex_word (boolText b) R F (by cases b <;> decide) hf, classify_bool]
  | .name t, _, hs => by
    refine lx_atom _ (.name t) rfl (fun R F hf => ?_)
    have hs' := hs
    simp only [LexSafe, nameSafe, Bool.and_eq_true] at hs'
    simp only [renderPT]
    rw [lex_word t R F hs'.1.1.1 hf, classify_name hs]
  | .empty, hw, _ => by simp [WP] at hw
  | .bin o l r, hw, hs => by
    simp only [WP, Bool.and_eq_true] at hw
    simp only [LexSafe, Bool.and_eq_true] at hs
    have hl := lexMain l hw.1.1.1 hs.1
    have hr := lexMain r hw.1.1.2 hs.2
    intro R F N hf hN
    have hlen : (toks (.bin o l r)).length = (toks l).length + (toks r).length + 1 := by
      simp [toks]; omega
    rw [hlen] at hN
    have e1 : renderPT (.bin o l r) ++ R = renderPT l ++ (glyph o ++ (renderPT r ++ R)) := by
      simp [renderPT]
    rw [e1, hl _ (F + (toks r).length + 1) N (follow_glyph o _) (by omega)]
    rw [lex_op o _ (F + (toks r).length) (renderHead r hw.1.1.2 hs.2 R)]
    rw [hr R F _ hf rfl]
    cases lexGo F R <;> simp [toks]
  | .neg x, hw, hs => by
    simp only [WP, Bool.and_eq_true] at hw
    simp only [LexSafe] at hs
    have hx := lexMain x hw.1 hs
    intro R F N hf hN
    have hlen : (toks (.neg x)).length = (toks x).length + 1 := by simp [toks]
    rw [hlen] at hN
    subst hN
    have e1 : renderPT (.neg x) ++ R = '-' :: (renderPT x ++ R) := by simp [renderPT]
    rw [e1, show F + ((toks x).length + 1) = (F + (toks x).length) + 1 by omega,
      lex_single '-' (.op .sub) _ _ (by decide), hx R F _ hf rfl]
    cases lexGo F R <;> simp [toks]
  | .pct x, hw, hs => by
    simp only [WP, Bool.and_eq_true] at hw
    simp only [LexSafe] at hs
    have hx := lexMain x hw.1 hs
    intro R F N hf hN
    have hlen : (toks (.pct x)).length = (toks x).length + 1 := by simp [toks]
    rw [hlen] at hN
    have e1 : renderPT (.pct x) ++ R = renderPT x ++ ('%' :: R) := by simp [renderPT]
    rw [e1, hx _ (F + 1) N (follow_cons _ (by decide)) (by omega), lex_single '%' .pct _ _ (by decide)]
    cases lexGo F R <;> simp [toks]
  | .paren [], hw, _ => by simp [WP] at hw
  | .paren (e :: es), hw, hs => by
    have hw' : WP e = true ∧ WPs es = true := by
      simp only [WP, List.isEmpty_cons, Bool.not_false, Bool.true_and] at hw; exact wps_cons hw
    simp only [LexSafe, LexSafes, Bool.and_eq_true] at hs
    have he := lexMain e hw'.1 hs.1
    have hes := lexTail es (wpargs_of_wps es hw'.2) hs.2
    intro R F N hf hN
    have hlen : (toks (.paren (e :: es))).length = (toks e).length + (toksTail es).length + 2 := by
      simp [toks, toksSeq]; omega
    rw [hlen] at hN
    obtain ⟨N', rfl⟩ : ∃ N', N = N' + 1 := ⟨N - 1, by omega⟩
    have e1 : renderPT (.paren (e :: es)) ++ R = '(' :: (renderPT e ++ (renderTail es ++ (')' :: R))) := by
      simp [renderPT, renderSeq]
    rw [e1, lex_single '(' .lp _ _ (by decide)]
    rw [he _ (F + (toksTail es).length + 1) N' (follow_tail es (follow_cons _ (by decide))) (by omega)]
    rw [hes _ (F + 1) _ (follow_cons _ (by decide)) (by omega)]
    rw [lex_single ')' .rp _ _ (by decide)]
    cases lexGo F R <;> simp [toks, toksSeq]
  | .call f [], _, hs => by
    simp only [LexSafe, Bool.and_eq_true] at hs
    intro R F N hf hN
    have hlen : (toks (.call f [])).length = 2 := by simp [toks, toksSeq]
    rw [hlen] at hN
    subst hN
    have e1 : renderPT (.call f []) ++ R = f ++ '(' :: (')' :: R) := by simp [renderPT, renderSeq]
    rw [e1, show F + 2 = (F + 1) + 1 by omega, lex_fn f _ _ hs.1, lex_single ')' .rp _ _ (by decide)]
    cases lexGo F R <;> simp [toks, toksSeq]
  | .call f (a :: tl), hw, hs => by
    have hw' : (isEmpty a = true ∨ WP a = true) ∧ WPArgs tl = true := by
      simp only [WP, WPArgs, Bool.and_eq_true, Bool.or_eq_true] at hw
      exact hw.2
    simp only [LexSafe, LexSafes, Bool.and_eq_true] at hs
    have htl := lexTail tl hw'.2 hs.2.2
    have ha : LX a := by
      rcases hw'.1 with hemp | hwa
      · cases a <;> simp [isEmpty] at hemp
        exact lx_empty
      · exact lexMain a hwa hs.2.1
    intro R F N hf hN
    have hlen : (toks (.call f (a :: tl))).length = (toks a).length + (toksTail tl).length + 2 := by
      simp [toks, toksSeq]; omega
    rw [hlen] at hN
    obtain ⟨N', rfl⟩ : ∃ N', N = N' + 1 := ⟨N - 1, by omega⟩
    have e1 : renderPT (.call f (a :: tl)) ++ R = f ++ '(' :: (renderPT a ++ (renderTail tl ++ (')' :: R))) := by
      simp [renderPT, renderSeq]
    rw [e1, lex_fn f _ _ hs.1]
    rw [ha _ (F + (toksTail tl).length + 1) N' (follow_tail tl (follow_cons _ (by decide))) (by omega)]
    rw [htl _ (F + 1) _ (follow_cons _ (by decide)) (by omega)]
    rw [lex_single ')' .rp _ _ (by decide)]
    cases lexGo F R <;> simp [toks, toksSeq]
  | .arr [], hw, _ => by simp [WP] at hw
  | .arr ([] :: rs), hw, _ => by simp [WP, WPRows] at hw
  | .arr ((e :: es) :: rs), hw, hs => by
    have hw' : WP e = true ∧ WPs es = true ∧ WPRows rs = true := by
      simp only [WP, WPRows, List.isEmpty_cons, Bool.not_false, Bool.true_and, Bool.and_eq_true] at hw
      exact ⟨(wps_cons hw.1).1, (wps_cons hw.1).2, hw.2⟩
    simp only [LexSafe, LexSafeRows, LexSafes, Bool.and_eq_true] at hs
    have he := lexMain e hw'.1 hs.1.1
    have hes := lexTail es (wpargs_of_wps es hw'.2.1) hs.1.2
    have hrs := lexRows rs hw'.2.2 hs.2
    intro R F N hf hN
    have hlen : (toks (.arr ((e :: es) :: rs))).length
        = (toks e).length + (toksTail es).length + (toksRowsTail rs).length + 2 := by
      simp [toks, toksRows, toksSeq]; omega
    rw [hlen] at hN
    obtain ⟨N', rfl⟩ : ∃ N', N = N' + 1 := ⟨N - 1, by omega⟩
    have e1 : renderPT (.arr ((e :: es) :: rs)) ++ R
        = '{' :: (renderPT e ++ (renderTail es ++ (renderRowsTail rs ++ ('}' :: R)))) := by
      simp [renderPT, renderRows, renderSeq]
    have hfr : Follow (renderRowsTail rs ++ ('}' :: R)) := follow_rowsTail rs (follow_cons _ (by decide))
    rw [e1, lex_single '{' .lb _ _ (by decide)]
    rw [he _ (F + (toksRowsTail rs).length + (toksTail es).length + 1) N' (follow_tail es hfr) (by omega)]
    rw [hes _ (F + (toksRowsTail rs).length + 1) _ hfr (by omega)]
    rw [hrs _ (F + 1) _ (follow_cons _ (by decide)) (by omega)]
    rw [lex_single '}' .rb _ _ (by decide)]
    cases lexGo F R <;> simp [toks, toksRows, toksSeq]
theorem lexTail : ∀ es : List PT, WPArgs es = true → LexSafes es = true → LXT es
  | [], _, _ => by
    intro R F N _ hN
    simp only [toksTail, List.length_nil, Nat.add_zero] at hN
    subst hN
    cases h : lexGo N R <;> simp [renderTail, toksTail, h]
  | a :: tl, hw, hs => by
    have hw' : (isEmpty a = true ∨ WP a = true) ∧ WPArgs tl = true := by
      simpa [WPArgs] using hw
    simp only [LexSafes, Bool.and_eq_true] at hs
    have htl := lexTail tl hw'.2 hs.2
    have ha : LX a := by
      rcases hw'.1 with hemp | hwa
      · cases a <;> simp [isEmpty] at hemp
        exact lx_empty
      · exact lexMain a hwa hs.1
    intro R F N hf hN
    have hlen : (toksTail (a :: tl)).length = (toks a).length + (toksTail tl).length + 1 := by
      simp [toksTail]
    rw [hlen] at hN
    obtain ⟨N', rfl⟩ : ∃ N', N = N' + 1 := ⟨N - 1, by omega⟩
    have e1 : renderTail (a :: tl) ++ R = ',' :: (renderPT a ++ (renderTail tl ++ R)) := by
      simp [renderTail]
    rw [e1, lex_single ',' .comma _ _ (by decide)]
    rw [ha _ (F + (toksTail tl).length) N' (follow_tail tl hf) (by omega)]
    rw [htl _ F _ hf rfl]
    cases lexGo F R <;> simp [toksTail]
theorem lexRows : ∀ rs : List (List PT), WPRows rs = true → LexSafeRows rs = true → LXR rs
  | [], _, _ => by
    intro R F N _ hN
    simp only [toksRowsTail, List.length_nil, Nat.add_zero] at hN
    subst hN
    cases h : lexGo N R <;> simp [renderRowsTail, toksRowsTail, h]
  | [] :: rs, hw, _ => by simp [WPRows] at hw
  | (e :: es) :: rs, hw, hs => by
    have hw' : WP e = true ∧ WPs es = true ∧ WPRows rs = true := by
      simp only [WPRows, List.isEmpty_cons, Bool.not_false, Bool.true_and, Bool.and_eq_true] at hw
      exact ⟨(wps_cons hw.1).1, (wps_cons hw.1).2, hw.2⟩
    simp only [LexSafeRows, LexSafes, Bool.and_eq_true] at hs
    have he := lexMain e hw'.1 hs.1.1
    have hes := lexTail es (wpargs_of_wps es hw'.2.1) hs.1.2
    have hrs := lexRows rs hw'.2.2 hs.2
    intro R F N hf hN
    have hlen : (toksRowsTail ((e :: es) :: rs)).length
        = (toks e).length + (toksTail es).length + (toksRowsTail rs).length + 1 := by
      simp [toksRowsTail, toksSeq]; omega
    rw [hlen] at hN
    obtain ⟨N', rfl⟩ : ∃ N', N = N' + 1 := ⟨N - 1, by omega⟩
    have e1 : renderRowsTail ((e :: es) :: rs) ++ R
        = ';' :: (renderPT e ++ (renderTail es ++ (renderRowsTail rs ++ R))) := by
      simp [renderRowsTail, renderSeq]
    have hfr : Follow (renderRowsTail rs ++ R) := follow_rowsTail rs hf
    rw [e1, lex_single ';' .semi _ _ (by decide)]
    rw [he _ (F + (toksRowsTail rs).length + (toksTail es).length) N' (follow_tail es hfr) (by omega)]
    rw [hes _ (F + (toksRowsTail rs).length) _ hfr (by omega)]
    rw [hrs _ F _ hf rfl]
    cases lexGo F R <;> simp [toksRowsTail, toksSeq]
end


/-! ### every token has at least one character -/

theorem wordOK_len {w : Text} (h : wordOK w = true) : 1 ≤ w.length := by
  obtain ⟨c, r, rfl, _⟩ := wordOK_head h
  simp

mutual
theorem toks_le : ∀ t : PT, LexSafe t = true → (toks t).length ≤ (renderPT t).length
  | .num t, hs => by
    simp only [LexSafe, numSafe, Bool.and_eq_true] at hs
    simpa [toks, renderPT] using wordOK_len hs.2
  | .str s, _ => by simp [toks, renderPT, quoteLit]
  | .bool b, _ => by cases b <;> simp [toks, renderPT, boolText]
  | .name t, hs => by
    simp only [LexSafe, nameSafe, Bool.and_eq_true] at hs
    simpa [toks, renderPT] using wordOK_len hs.1.1.1
  | .empty, _ => by simp [toks]
  | .bin o l r, hs => by
    simp only [LexSafe, Bool.and_eq_true] at hs
    have h1 := toks_le l hs.1
    have h2 := toks_le r hs.2
    have h3 : (glyph o).length = 1 := by cases o <;> rfl
    simp [toks, renderPT, h3]; omega
  | .neg x, hs => by
    simp only [LexSafe] at hs
    have := toks_le x hs
    simp [toks, renderPT]; omega
  | .pct x, hs => by
    simp only [LexSafe] at hs
    have := toks_le x hs
    simp [toks, renderPT]; omega
  | .paren es, hs => by
    simp only [LexSafe] at hs
    have := toksSeq_le es hs
    simp [toks, renderPT]; omega
  | .call f args, hs => by
    simp only [LexSafe, Bool.and_eq_true] at hs
    have := toksSeq_le args hs.2
    have := wordOK_len hs.1
    simp [toks, renderPT]; omega
  | .arr rows, hs => by
    simp only [LexSafe] at hs
    have := toksRows_le rows hs
    simp [toks, renderPT]; omega
theorem toksSeq_le : ∀ es : List PT, LexSafes es = true → (toksSeq es).length ≤ (renderSeq es).length
  | [], _ => by simp [toksSeq, renderSeq]
  | e :: es, hs => by
    simp only [LexSafes, Bool.and_eq_true] at hs
    have h1 := toks_le e hs.1
    have h2 := toksTail_le es hs.2
    simp [toksSeq, renderSeq]; omega
theorem toksTail_le : ∀ es : List PT, LexSafes es = true → (toksTail es).length ≤ (renderTail es).length
  | [], _ => by simp [toksTail, renderTail]
  | e :: es, hs => by
    simp only [LexSafes, Bool.and_eq_true] at hs
    have h1 := toks_le e hs.1
    have h2 := toksTail_le es hs.2
    simp [toksTail, renderTail]; omega
theorem toksRows_le : ∀ rs : List (List PT), LexSafeRows rs = true → (toksRows rs).length ≤ (renderRows rs).length
  | [], _ => by simp [toksRows, renderRows]
  | r :: rs, hs => by
    simp only [LexSafeRows, Bool.and_eq_true] at hs
    have h1 := toksSeq_le r hs.1
    have h2 := toksRowsTail_le rs hs.2
    simp [toksRows, renderRows]; omega
theorem toksRowsTail_le : ∀ rs : List (List PT), LexSafeRows rs = true →
    (toksRowsTail rs).length ≤ (renderRowsTail rs).length
  | [], _ => by simp [toksRowsTail, renderRowsTail]
  | r :: rs, hs => by
    simp only [LexSafeRows, Bool.and_eq_true] at hs
    have h1 := toksSeq_le r hs.1
    have h2 := toksRowsTail_le rs hs.2
    simp [toksRowsTail, renderRowsTail]; omega
end

/-- the lexer reads the rendered text of a tree back to exactly the tree's token stream. -/
theorem lex_renderPT (t : PT) (hw : WP t = true) (hs : LexSafe t = true) : lex (renderPT t) = some (toks t) := by
  have hle := toks_le t hs
  have := lexMain t hw hs [] ((renderPT t).length + 1 - (toks t).length) ((renderPT t).length + 1)
    (Or.inl rfl) (by omega)
  simp only [List.append_nil] at this
  unfold lex
  rw [this]
  obtain ⟨k, hk⟩ : ∃ k, (renderPT t).length + 1 - (toks t).length = k + 1 := ⟨(renderPT t).length - (toks t).length, by omega⟩
  rw [hk]
  simp [lexGo]

/-- … and reading the text (lexer, then parser) gives back the tree. -/
theorem readText_renderPT (t : PT) (hw : WP t = true) (hs : LexSafe t = true) : readText (renderPT t) = some t := by
  simp [readText, lex_renderPT t hw hs, parseToks_toks t hw]

end NumbersModel.Formula.Parse
