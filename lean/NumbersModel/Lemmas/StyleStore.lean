/- Helper lemmas for C15 (style storage path: colour arithmetic, font map, write-then-read). -/
import NumbersModel.Lemmas.StyleStoreDec
import Mathlib.Tactic.Linarith
import Mathlib.Tactic.NormNum
import Mathlib.Tactic.Ring
namespace NumbersModel.StyleStore
open NumbersModel

/-! ### `round` -/

theorem roundHalfEven_of_near (x : Rat) (c : Int) (h1 : (c : Rat) - 1 / 2 < x) (h2 : x < (c : Rat) + 1 / 2) :
    roundHalfEven x = c := by
  have hfl := Rat.floor_le x
  have hfu := Rat.lt_floor_add_one x
  have hcast : ((x.floor + 1 : Int) : Rat) = (x.floor : Rat) + 1 := by push_cast; ring
  rw [hcast] at hfu
  -- the floor is c - 1 or c
  have hlo : c - 1 ≤ x.floor := by
    rw [Rat.le_floor_iff]; push_cast; linarith
  have hhi : x.floor < c + 1 := by
    rw [Rat.floor_lt_iff]; push_cast; linarith
  have hcase : x.floor = c - 1 ∨ x.floor = c := by omega
  unfold roundHalfEven
  simp only
  rcases hcase with hf | hf
  · have hfr : (x.floor : Rat) = (c : Rat) - 1 := by rw [hf]; push_cast; ring
    have hd : ¬ (x - (x.floor : Rat) < 1 / 2) := by rw [hfr]; intro h; linarith
    have hd2 : (1 : Rat) / 2 < x - (x.floor : Rat) := by rw [hfr]; linarith
    rw [if_neg hd, if_pos hd2, hf]; omega
  · have hfr : (x.floor : Rat) = (c : Rat) := by rw [hf]
    have hd : x - (x.floor : Rat) < 1 / 2 := by rw [hfr]; linarith
    rw [if_pos hd, hf]

/-! ### colours: `round(f32(c / 255) * 255) = c` -/

/-- relative error at most `2^-24` (what a correctly rounded binary32 store, and a fortiori a
    binary64 operation, guarantees in the normal range). -/
def RelErr24 (f : Rat → Rat) : Prop := ∀ x : Rat, |f x - x| ≤ |x| / 2 ^ 24

theorem relErr_bounds {f : Rat → Rat} (h : RelErr24 f) (x : Rat) (hx : 0 ≤ x) :
    x * (1 - 1 / 2 ^ 24) ≤ f x ∧ f x ≤ x * (1 + 1 / 2 ^ 24) := by
  have := h x
  rw [abs_of_nonneg hx, abs_le] at this
  constructor <;> linarith [this.1, this.2]

/-- the arithmetic fact, for every rounding behaviour within the stated relative error. -/
theorem chan_roundtrip_of_relErr (n : Num) (h32 : RelErr24 n.f32) (h64 : RelErr24 n.f64) (c : Int)
    (h0 : 0 ≤ c) (h255 : c ≤ 255) : chanOfArc n (chanToArc n c) = c := by
  unfold chanOfArc chanToArc
  apply roundHalfEven_of_near
  all_goals
    have hc0 : (0 : Rat) ≤ (c : Rat) := by exact_mod_cast h0
    have hc1 : (c : Rat) ≤ 255 := by exact_mod_cast h255
    set x0 : Rat := (c : Rat) / 255 with hx0
    have hx0n : 0 ≤ x0 := div_nonneg hc0 (by norm_num)
    have hx0c : x0 * 255 = (c : Rat) := by rw [hx0]; ring
    obtain ⟨a1, b1⟩ := relErr_bounds h64 x0 hx0n
    set x1 := n.f64 x0
    have hx1n : 0 ≤ x1 := le_trans (by positivity) a1
    obtain ⟨a2, b2⟩ := relErr_bounds h32 x1 hx1n
    set x2 := n.f32 x1
    have hx2n : 0 ≤ x2 := le_trans (by positivity) a2
    have hyn : 0 ≤ x2 * 255 := by positivity
    obtain ⟨a3, b3⟩ := relErr_bounds h64 (x2 * 255) hyn
    set y := n.f64 (x2 * 255)
    -- chain the three bounds
    have e : (0 : Rat) < 1 / 2 ^ 24 := by positivity
    have lo2 : x0 * (1 - 1 / 2 ^ 24) * (1 - 1 / 2 ^ 24) ≤ x2 :=
      le_trans (mul_le_mul_of_nonneg_right a1 (by norm_num)) a2
    have hi2 : x2 ≤ x0 * (1 + 1 / 2 ^ 24) * (1 + 1 / 2 ^ 24) :=
      le_trans b2 (mul_le_mul_of_nonneg_right b1 (by norm_num))
    have lo3 : x0 * (1 - 1 / 2 ^ 24) * (1 - 1 / 2 ^ 24) * 255 * (1 - 1 / 2 ^ 24) ≤ y :=
      le_trans (mul_le_mul_of_nonneg_right (mul_le_mul_of_nonneg_right lo2 (by norm_num)) (by norm_num)) a3
    have hi3 : y ≤ x0 * (1 + 1 / 2 ^ 24) * (1 + 1 / 2 ^ 24) * 255 * (1 + 1 / 2 ^ 24) :=
      le_trans b3 (mul_le_mul_of_nonneg_right (mul_le_mul_of_nonneg_right hi2 (by norm_num)) (by norm_num))
    have lo4 : x0 * (1 - 1 / 2 ^ 24) * (1 - 1 / 2 ^ 24) * 255 * (1 - 1 / 2 ^ 24)
        = (c : Rat) * ((1 - 1 / 2 ^ 24) * (1 - 1 / 2 ^ 24) * (1 - 1 / 2 ^ 24)) := by rw [← hx0c]; ring
    have hi4 : x0 * (1 + 1 / 2 ^ 24) * (1 + 1 / 2 ^ 24) * 255 * (1 + 1 / 2 ^ 24)
        = (c : Rat) * ((1 + 1 / 2 ^ 24) * (1 + 1 / 2 ^ 24) * (1 + 1 / 2 ^ 24)) := by rw [← hx0c]; ring
    rw [lo4] at lo3
    rw [hi4] at hi3
  · have k : (1 : Rat) - 1 / 1000 ≤ (1 - 1 / 2 ^ 24) * (1 - 1 / 2 ^ 24) * (1 - 1 / 2 ^ 24) := by norm_num
    have := mul_le_mul_of_nonneg_left k hc0
    linarith
  · have k : (1 + 1 / 2 ^ 24) * (1 + 1 / 2 ^ 24) * (1 + 1 / 2 ^ 24) ≤ (1 : Rat) + 1 / 1000 := by norm_num
    have := mul_le_mul_of_nonneg_left k hc0
    linarith

theorem chan_roundtrip_ieee (c : Int) (h0 : 0 ≤ c) (h255 : c ≤ 255) : chanOfArc Num.ieee (chanToArc Num.ieee c) = c := by
  have := chan_roundtrip_ieee_fin ⟨c.toNat, by omega⟩
  have hc : ((c.toNat : Nat) : Int) = c := by omega
  simpa [hc] using this

/-- what the write-then-read theorems need of the numbers -/
def ColourOK (n : Num) : Prop := ∀ c : Int, 0 ≤ c → c ≤ 255 → chanOfArc n (chanToArc n c) = c

def Rgb.InRange (c : Rgb) : Prop := (0 ≤ c.r ∧ c.r ≤ 255) ∧ (0 ≤ c.g ∧ c.g ≤ 255) ∧ (0 ≤ c.b ∧ c.b ≤ 255)

theorem rgb_roundtrip {n : Num} (h : ColourOK n) (c : Rgb) (hc : c.InRange) : rgbOfArc n (colorToArc n c) = c := by
  obtain ⟨⟨r0, r1⟩, ⟨g0, g1⟩, ⟨b0, b1⟩⟩ := hc
  cases c
  simp only [rgbOfArc, colorToArc, Rgb.mk.injEq]
  exact ⟨h _ r0 r1, h _ g0 g1, h _ b0 b1⟩

/-! ### fonts -/

theorem lookupCodes_mem (d : List (Codes × Codes)) (t v : Codes) (h : lookupCodes d t = some v) : (t, v) ∈ d := by
  induction d with
  | nil => simp [lookupCodes] at h
  | cons e rest ih =>
    obtain ⟨k, w⟩ := e
    simp only [lookupCodes] at h
    split at h
    · rename_i hk
      cases h
      subst hk
      exact List.mem_cons_self
    · exact List.mem_cons_of_mem _ (ih h)

theorem font_roundtrip (family name : Codes) (h : dictGet fontFamilyToName family = .ok name) :
    dictGet Gen.fontNameToFamily name = .ok family := by
  unfold dictGet at h
  split at h
  · rename_i v hv
    cases h
    have hm := lookupCodes_mem _ _ _ hv
    have := List.all_eq_true.mp fontTable_inverse (family, name) hm
    simp only [beq_iff_eq] at this
    unfold dictGet
    rw [this]
  · cases h

/-! ### write, then read -/

theorem paraInherit_own {α} (st : Store) (s : ParaArc) (sel : ParaArc → Option α) (d v : α) (h : sel s = some v) :
    paraInherit st s sel d = .ok v := by
  unfold paraInherit; rw [h]

theorem cellInherit_own {α} (st : Store) (s : CellArc) (sel : CellArc → Option α) (d v : α) (h : sel s = some v) :
    cellInherit st s sel d = .ok v := by
  unfold cellInherit; rw [h]

theorem enumOf_mem (ms : List Nat) (x : Nat) (h : x ∈ ms) : enumOf ms x = .ok x := by
  unfold enumOf
  rw [if_pos (List.contains_iff_mem.mpr h)]

/-- the image table: identifiers are distinct and below `next` -/
def Images.WF (imgs : Images) : Prop :=
  (imgs.entries.map Prod.fst).Nodup ∧ ∀ e ∈ imgs.entries, e.1 < imgs.next

/-- no stored image has the bytes of `img` under another file name (the library de-duplicates images by
    the SHA-1 of their bytes: known finding `bg-image-same-bytes-other-name`) -/
def Images.Agrees (imgs : Images) (img : Image) : Prop :=
  ∀ e ∈ imgs.entries, e.2.data = img.data → e.2 = img

theorem find_id_of_mem {entries : List (Nat × Image)} (hn : (entries.map Prod.fst).Nodup) (e : Nat × Image)
    (he : e ∈ entries) : entries.find? (fun x => x.1 = e.1) = some e := by
  induction entries with
  | nil => cases he
  | cons x xs ih =>
    simp only [List.map_cons, List.nodup_cons] at hn
    rw [List.find?_cons]
    rcases List.mem_cons.mp he with rfl | hm
    · simp
    · have hne : x.1 ≠ e.1 := by
        intro h
        exact hn.1 (h ▸ List.mem_map_of_mem (f := Prod.fst) hm)
      simp only [hne, decide_false]
      exact ih hn.2 hm

theorem internImage_lookup (imgs : Images) (img : Image) (hw : imgs.WF) (ha : imgs.Agrees img) :
    (internImage imgs img).2.entries.find? (fun e => e.1 = (internImage imgs img).1) = some ((internImage imgs img).1, img)
    ∧ (internImage imgs img).2.WF := by
  unfold internImage
  cases hf : imgs.entries.find? (fun e => decide (e.2.data = img.data)) with
  | some e =>
    simp only
    have hm := List.mem_of_find?_eq_some hf
    have hd : e.2.data = img.data := by simpa using List.find?_some hf
    have he : e.2 = img := ha e hm hd
    refine ⟨?_, hw⟩
    have := find_id_of_mem hw.1 e hm
    rw [this]
    rw [← he]
  | none =>
    simp only
    constructor
    · rw [List.find?_append]
      have : imgs.entries.find? (fun e => decide (e.1 = imgs.next)) = none := by
        rw [List.find?_eq_none]
        intro x hx
        have := hw.2 x hx
        simp; omega
      rw [this]
      simp
    · constructor
      · rw [List.map_append, List.nodup_append]
        refine ⟨hw.1, by simp, ?_⟩
        intro a ha' b hb
        simp only [List.map_cons, List.map_nil, List.mem_singleton] at hb
        obtain ⟨x, hx, rfl⟩ := List.mem_map.mp ha'
        have := hw.2 x hx
        omega
      · intro e he
        rcases List.mem_append.mp he with h | h
        · have := hw.2 e h; simp only; omega
        · simp only [List.mem_singleton] at h; subst h; simp

/-- the hypotheses of the write-then-read theorem on the style value -/
structure Sty.Storable (s : Sty) : Prop where
  fontColor : s.fontColor.InRange
  bgColor : ∀ c, s.bgColor = .rgb c → c.InRange
  halign : s.halign ∈ Gen.hjustValues
  valign : s.valign ∈ Gen.vjustValues
  oneFill : s.bgImage = none ∨ s.bgColor = .none

theorem underline_back (b : Bool) : (underlineOf b != Gen.kNoUnderline) = b := by cases b <;> decide
theorem strikethru_back (b : Bool) : (strikethruOf b != Gen.kNoStrikethru) = b := by cases b <;> decide

/-- the shape of what `addParagraphStyle` returns -/
theorem addParagraphStyle_ok (n : Num) (s : Sty) (p : ParaArc) (h : addParagraphStyle n s = .ok p) :
    ∃ font, dictGet fontFamilyToName s.fontName = .ok font ∧
      p = { name := s.name, parent := none,
            char := { fontColor := some (colorToArc n s.fontColor), bold := some s.bold, italic := some s.italic,
                      underline := some (underlineOf s.underline), strikethru := some (strikethruOf s.strikethrough),
                      fontSize := some (n.f32 s.fontSize), fontName := some font,
                      tsdFill := some (colorToArc n s.fontColor) },
            para := { alignment := some s.halign, firstLineIndent := some (n.f32 s.firstIndent),
                      leftIndent := some (n.f32 s.leftIndent), rightIndent := some (n.f32 s.rightIndent) } } := by
  unfold addParagraphStyle at h
  cases hf : dictGet fontFamilyToName s.fontName with
  | error e => rw [hf] at h; cases h
  | ok font =>
    rw [hf] at h
    refine ⟨font, rfl, ?_⟩
    simp only [bind, Except.bind, pure, Except.pure, Except.ok.injEq] at h
    exact h.symm

theorem updateParagraphStyle_ok (n : Num) (s : Sty) (old p : ParaArc) (h : updateParagraphStyle n s old = .ok p) :
    ∃ q, addParagraphStyle n s = .ok q ∧ p = { q with parent := old.parent } := by
  unfold updateParagraphStyle at h
  unfold addParagraphStyle
  cases hf : dictGet fontFamilyToName s.fontName with
  | error e => rw [hf] at h; cases h
  | ok font =>
    rw [hf] at h
    simp only [bind, Except.bind, pure, Except.pure, Except.ok.injEq] at h ⊢
    exact ⟨_, rfl, h.symm⟩

end NumbersModel.StyleStore
