import NumbersModel.Model.A1
import Mathlib.Tactic.Ring
import Mathlib.Tactic.Linarith
import Mathlib.Tactic.Positivity
import Mathlib.Data.List.Induction
namespace NumbersModel.A1
open NumbersModel

theorem toNat_ofNat_small (n : Nat) (h : n < 0xD800) : (Char.ofNat n).toNat = n := by
  have hv : n.isValidChar := Or.inl h
  simp [Char.ofNat, hv, Char.ofNatAux, Char.toNat]

/-- well-founded specification of the letter loop (1-indexed column). -/
def lettersSpec (n : Nat) : List Char :=
  if h : n = 0 then [] else lettersSpec ((n - 1) / 26) ++ [letter ((n - 1) % 26)]
termination_by n
decreasing_by omega

theorem lettersAux_eq (fuel col : Nat) (acc : List Char) (h : col ≤ fuel) :
    lettersAux fuel col acc = lettersSpec col ++ acc := by
  induction fuel generalizing col acc with
  | zero =>
    have : col = 0 := by omega
    subst this; simp [lettersAux, lettersSpec]
  | succ f ih =>
    unfold lettersAux
    by_cases hc : col = 0
    · subst hc; simp [lettersSpec]
    · simp only [hc, if_false]
      rw [ih _ _ (by omega)]
      conv => rhs; unfold lettersSpec
      simp only [hc, dite_false]
      have : (if col % 26 = 0 then 26 else col % 26) - 1 = (col - 1) % 26 := by
        split <;> omega
      rw [this]; simp

theorem letters_eq (c : Nat) : letters c = lettersSpec (c + 1) := by
  simp [letters, lettersAux_eq]

/-- 1-indexed value of a column word. -/
def val (s : List Char) : Int := colSumRev s.reverse 0

theorem colSumRev_succ (l : List Char) (e : Nat) : colSumRev l (e + 1) = 26 * colSumRev l e := by
  induction l generalizing e with
  | nil => simp [colSumRev]
  | cons c r ih => simp only [colSumRev]; rw [ih (e + 1), ih e]; ring

theorem val_snoc (xs : List Char) (c : Char) : val (xs ++ [c]) = 26 * val xs + ((c.toNat : Int) - 64) := by
  simp only [val, List.reverse_append, List.reverse_cons, List.reverse_nil, List.nil_append,
    List.cons_append, colSumRev]
  rw [colSumRev_succ]; ring

theorem val_nil : val [] = 0 := rfl

theorem letter_toNat (r : Nat) (h : r < 26) : (letter r).toNat = 65 + r := by
  unfold letter; exact toNat_ofNat_small _ (by omega)

theorem val_lettersSpec (n : Nat) : val (lettersSpec n) = n := by
  induction n using Nat.strongRecOn with
  | _ n ih =>
    unfold lettersSpec
    by_cases h : n = 0
    · subst h; simp [val_nil]
    · simp only [h, dite_false]
      rw [val_snoc, ih _ (by omega), letter_toNat _ (Nat.mod_lt _ (by decide))]
      omega

theorem colIndex_letters (c : Nat) : colIndex (letters c) = c := by
  have := val_lettersSpec (c + 1)
  simp only [colIndex, letters_eq]
  unfold val at this; omega

end NumbersModel.A1

namespace NumbersModel.A1
open NumbersModel

theorem isUpper_iff (c : Char) : isUpper c = true ↔ 65 ≤ c.toNat ∧ c.toNat ≤ 90 := by
  unfold isUpper
  simp only [decide_eq_true_eq, Char.le_def, UInt32.le_iff_toNat_le]
  have h1 : ('A' : Char).val.toNat = 65 := by decide
  have h2 : ('Z' : Char).val.toNat = 90 := by decide
  rw [h1, h2]; rfl

theorem letter_of_upper (c : Char) (h : isUpper c = true) : letter (c.toNat - 65) = c := by
  rw [isUpper_iff] at h
  unfold letter
  have : 65 + (c.toNat - 65) = c.toNat := by omega
  rw [this]; exact Char.ofNat_toNat c

theorem letter_isUpper (r : Nat) (h : r < 26) : isUpper (letter r) = true := by
  rw [isUpper_iff, letter_toNat r h]; omega

theorem lettersSpec_upper (n : Nat) : ∀ ch ∈ lettersSpec n, isUpper ch = true := by
  induction n using Nat.strongRecOn with
  | _ n ih =>
    unfold lettersSpec
    by_cases h : n = 0
    · subst h; simp
    · simp only [h, dite_false]
      intro ch hch
      rcases List.mem_append.mp hch with h1 | h1
      · exact ih _ (by omega) ch h1
      · simp at h1; subst h1; exact letter_isUpper _ (Nat.mod_lt _ (by decide))

theorem lettersSpec_ne_nil (n : Nat) (h : n ≠ 0) : lettersSpec n ≠ [] := by
  unfold lettersSpec; simp [h]

/-- every non-empty upper-case word is the name of exactly the column it decodes to. -/
theorem lettersSpec_val (s : List Char) (hu : ∀ ch ∈ s, isUpper ch = true) :
    0 ≤ val s ∧ (s ≠ [] → 1 ≤ val s) ∧ lettersSpec (val s).toNat = s := by
  induction s using List.reverseRecOn with
  | nil => simp [val_nil, lettersSpec]
  | append_singleton xs c ih =>
    have hxs : ∀ ch ∈ xs, isUpper ch = true := fun ch h => hu ch (by simp [h])
    have hc : isUpper c = true := hu c (by simp)
    obtain ⟨h0, h1, h2⟩ := ih hxs
    have hcb := (isUpper_iff c).mp hc
    rw [val_snoc]
    refine ⟨by omega, fun _ => by omega, ?_⟩
    have hn : (26 * val xs + ((c.toNat : Int) - 64)).toNat = 26 * (val xs).toNat + (c.toNat - 64) := by
      omega
    rw [hn]
    conv => lhs; unfold lettersSpec
    have hne : ¬ (26 * (val xs).toNat + (c.toNat - 64) = 0) := by omega
    simp only [hne, dite_false]
    have hd : (26 * (val xs).toNat + (c.toNat - 64) - 1) / 26 = (val xs).toNat := by omega
    have hm : (26 * (val xs).toNat + (c.toNat - 64) - 1) % 26 = c.toNat - 65 := by omega
    rw [hd, hm, h2, letter_of_upper c hc]

theorem letters_colIndex (s : List Char) (hne : s ≠ []) (hu : ∀ ch ∈ s, isUpper ch = true) :
    0 ≤ colIndex s ∧ letters (colIndex s).toNat = s := by
  obtain ⟨h0, h1, h2⟩ := lettersSpec_val s hu
  have h1' := h1 hne
  have hv : colIndex s = val s - 1 := rfl
  refine ⟨by omega, ?_⟩
  rw [letters_eq]
  have : (colIndex s).toNat + 1 = (val s).toNat := by omega
  rw [this, h2]

theorem letters_injective {a b : Nat} (h : letters a = letters b) : a = b := by
  have ha := colIndex_letters a
  have hb := colIndex_letters b
  rw [h] at ha; omega

theorem letters_upper (c : Nat) : ∀ ch ∈ letters c, isUpper ch = true := by
  rw [letters_eq]; exact lettersSpec_upper _

theorem letters_ne_nil (c : Nat) : letters c ≠ [] := by
  rw [letters_eq]; exact lettersSpec_ne_nil _ (by omega)

/-! ### length of column names -/

theorem lettersSpec_length_succ (n : Nat) (h : n ≠ 0) :
    (lettersSpec n).length = (lettersSpec ((n - 1) / 26)).length + 1 := by
  conv => lhs; unfold lettersSpec
  simp [h]

theorem lettersSpec_length_le3 (n : Nat) (h : n ≤ 18278) : (lettersSpec n).length ≤ 3 := by
  by_cases h0 : n = 0
  · subst h0; simp [lettersSpec]
  rw [lettersSpec_length_succ n h0]
  by_cases h1 : (n - 1) / 26 = 0
  · rw [h1]; simp [lettersSpec]
  rw [lettersSpec_length_succ _ h1]
  by_cases h2 : ((n - 1) / 26 - 1) / 26 = 0
  · rw [h2]; simp [lettersSpec]
  rw [lettersSpec_length_succ _ h2]
  have h3 : (((n - 1) / 26 - 1) / 26 - 1) / 26 = 0 := by omega
  rw [h3]; simp [lettersSpec]

theorem lettersSpec_length_gt3 (n : Nat) (h : 18278 < n) : 3 < (lettersSpec n).length := by
  have h0 : n ≠ 0 := by omega
  rw [lettersSpec_length_succ n h0]
  have h1 : (n - 1) / 26 ≠ 0 := by omega
  rw [lettersSpec_length_succ _ h1]
  have h2 : ((n - 1) / 26 - 1) / 26 ≠ 0 := by omega
  rw [lettersSpec_length_succ _ h2]
  have h3 : (((n - 1) / 26 - 1) / 26 - 1) / 26 ≠ 0 := by omega
  rw [lettersSpec_length_succ _ h3]
  omega

/-! ### decimal digits -/

def digitChar (d : Nat) : Char := Char.ofNat (48 + d)

def natStrSpec (n : Nat) : List Char :=
  if h : n < 10 then [digitChar n] else natStrSpec (n / 10) ++ [digitChar (n % 10)]
termination_by n
decreasing_by omega

theorem natDigitsAux_eq (fuel n : Nat) (acc : List Char) (h : n < fuel) :
    natDigitsAux fuel n acc = natStrSpec n ++ acc := by
  induction fuel generalizing n acc with
  | zero => omega
  | succ f ih =>
    unfold natDigitsAux
    by_cases hn : n / 10 = 0
    · have : n < 10 := by omega
      have hm : n % 10 = n := by omega
      simp only [hn, if_true]
      conv => rhs; unfold natStrSpec
      simp [this, digitChar, hm]
    · simp only [hn, if_false]
      rw [ih _ _ (by omega)]
      conv => rhs; unfold natStrSpec
      have : ¬ n < 10 := by omega
      simp [this, digitChar]

theorem natStr_eq (n : Nat) : natStr n = natStrSpec n := by
  simp [natStr, natDigitsAux_eq]

/-- the generated `\d` blocks must at least contain ASCII digits with their values. -/
def ZerosOK (zeros : List Nat) : Prop :=
  ∀ d, d < 10 → digitVal zeros (digitChar d) = some d

theorem spanDigits_append_digit (zeros : List Nat) (hz : ZerosOK zeros) (n : Nat) (tl : List Char) :
    spanDigits zeros (natStrSpec n ++ tl) =
      ((spanDigits zeros (natStrSpec n)).1 ++ (spanDigits zeros tl).1, (spanDigits zeros tl).2)
    ∧ (spanDigits zeros (natStrSpec n)).2 = []
    ∧ ∀ a, ((spanDigits zeros (natStrSpec n)).1).foldl (fun a d => a * 10 + d) a
          = a * 10 ^ (natStrSpec n).length + n := by
  induction n using Nat.strongRecOn generalizing tl with
  | _ n ih =>
    unfold natStrSpec
    by_cases h : n < 10
    · simp only [h, dite_true, List.singleton_append, spanDigits, hz n h]
      simp [spanDigits]
    · simp only [h, dite_false, List.append_assoc, List.singleton_append]
      have hm : n % 10 < 10 := Nat.mod_lt _ (by decide)
      obtain ⟨e1, e2, e3⟩ := ih (n / 10) (by omega) (digitChar (n % 10) :: tl)
      obtain ⟨f1, f2, f3⟩ := ih (n / 10) (by omega) [digitChar (n % 10)]
      have hs1 : spanDigits zeros (digitChar (n % 10) :: tl) =
          (n % 10 :: (spanDigits zeros tl).1, (spanDigits zeros tl).2) := by
        simp [spanDigits, hz _ hm]
      have hs2 : spanDigits zeros [digitChar (n % 10)] = ([n % 10], []) := by
        simp [spanDigits, hz _ hm]
      rw [e1, f1, hs1, hs2]
      refine ⟨by simp, rfl, ?_⟩
      intro a
      simp only [List.foldl_append, List.foldl_cons, List.foldl_nil, List.length_append,
        List.length_cons, List.length_nil]
      rw [f3 a, Nat.pow_succ]
      have := Nat.div_add_mod n 10
      generalize 10 ^ (natStrSpec (n / 10)).length = p
      have : (a * p + n / 10) * 10 + n % 10 = a * (p * 10) + n := by
        rw [Nat.add_mul, Nat.mul_assoc]; omega
      exact this

theorem spanDigits_natStr (zeros : List Nat) (hz : ZerosOK zeros) (n : Nat) :
    (spanDigits zeros (natStr n)).1 ≠ [] ∧ digitsToNat (spanDigits zeros (natStr n)).1 = n := by
  rw [natStr_eq]
  obtain ⟨_, _, h3⟩ := spanDigits_append_digit zeros hz n []
  constructor
  · unfold natStrSpec
    by_cases h : n < 10
    · simp [h, spanDigits, hz n h]
    · simp only [h, dite_false]
      have hm : n % 10 < 10 := Nat.mod_lt _ (by decide)
      obtain ⟨e1, _, _⟩ := spanDigits_append_digit zeros hz (n / 10) [digitChar (n % 10)]
      rw [e1]; simp [spanDigits, hz _ hm]
  · have := h3 0
    simpa [digitsToNat] using this

theorem digitChar_toNat (d : Nat) (h : d < 10) : (digitChar d).toNat = 48 + d := by
  unfold digitChar; exact toNat_ofNat_small _ (by omega)

theorem digitChar_not_upper (d : Nat) (h : d < 10) : isUpper (digitChar d) = false := by
  cases hu : isUpper (digitChar d) with
  | false => rfl
  | true => rw [isUpper_iff, digitChar_toNat d h] at hu; omega

theorem natStr_head_not_upper (n : Nat) :
    ∃ c tl, natStr n = c :: tl ∧ isUpper c = false := by
  rw [natStr_eq]
  induction n using Nat.strongRecOn with
  | _ n ih =>
    unfold natStrSpec
    by_cases h : n < 10
    · exact ⟨digitChar n, [], by simp [h], digitChar_not_upper n h⟩
    · obtain ⟨c, tl, e, hc⟩ := ih (n / 10) (by omega)
      exact ⟨c, tl ++ [digitChar (n % 10)], by simp [h, e], hc⟩

end NumbersModel.A1

/-! ### order: column numbering is strictly monotone for the short-lex order on names -/
namespace NumbersModel.A1

/-- lexicographic order on equal-length words (by code point). -/
def lexLt : List Char → List Char → Prop
  | a :: s, b :: t => a.toNat < b.toNat ∨ (a = b ∧ lexLt s t)
  | _, _ => False

/-- "A..Z, AA..ZZ, AAA.." order: shorter first, then lexicographic. -/
def shortlex (s t : List Char) : Prop := s.length < t.length ∨ (s.length = t.length ∧ lexLt s t)

def ones : Nat → Int
  | 0 => 0
  | n + 1 => 26 * ones n + 1

theorem ones_pow (n : Nat) : 25 * ones n + 1 = (26 : Int) ^ n := by
  induction n with
  | zero => simp [ones]
  | succ n ih => simp only [ones, pow_succ]; rw [← ih]; ring

theorem ones_nonneg (n : Nat) : 0 ≤ ones n := by
  induction n with
  | zero => simp [ones]
  | succ k ihk => simp only [ones]; omega

theorem ones_mono {m n : Nat} (h : m ≤ n) : ones m ≤ ones n := by
  induction h with
  | refl => exact le_refl _
  | @step k _ ih =>
    have := ones_nonneg k
    simp only [ones]; omega

theorem colSumRev_snoc (l : List Char) (c : Char) (e : Nat) :
    colSumRev (l ++ [c]) e = colSumRev l e + ((c.toNat : Int) - 64) * (26 : Int) ^ (e + l.length) := by
  induction l generalizing e with
  | nil => simp [colSumRev]; ring
  | cons a r ih =>
    simp only [List.cons_append, colSumRev, ih, List.length_cons]
    have : e + 1 + r.length = e + (r.length + 1) := by omega
    rw [this]; ring

theorem val_cons (c : Char) (s : List Char) :
    val (c :: s) = ((c.toNat : Int) - 64) * (26 : Int) ^ s.length + val s := by
  simp only [val, List.reverse_cons, colSumRev_snoc, List.length_reverse, Nat.zero_add]; ring

theorem val_bounds (s : List Char) (hu : ∀ ch ∈ s, isUpper ch = true) :
    ones s.length ≤ val s ∧ val s ≤ 26 * ones s.length := by
  induction s with
  | nil => simp [val_nil, ones]
  | cons c r ih =>
    have hc := (isUpper_iff c).mp (hu c (by simp))
    obtain ⟨l, h⟩ := ih (fun ch hch => hu ch (by simp [hch]))
    rw [val_cons]
    simp only [List.length_cons, ones]
    have hp := ones_pow r.length
    have hpos : (0 : Int) ≤ 26 ^ r.length := by positivity
    have h1 : (1 : Int) * 26 ^ r.length ≤ ((c.toNat : Int) - 64) * 26 ^ r.length :=
      mul_le_mul_of_nonneg_right (by omega) hpos
    have h2 : ((c.toNat : Int) - 64) * 26 ^ r.length ≤ 26 * 26 ^ r.length :=
      mul_le_mul_of_nonneg_right (by omega) hpos
    constructor <;> nlinarith

theorem val_lt_of_length_lt (s t : List Char) (hs : ∀ ch ∈ s, isUpper ch = true)
    (ht : ∀ ch ∈ t, isUpper ch = true) (h : s.length < t.length) : val s < val t := by
  have h1 := (val_bounds s hs).2
  have h2 := (val_bounds t ht).1
  have h3 : ones (s.length + 1) ≤ ones t.length := ones_mono h
  simp only [ones] at h3
  omega

theorem val_lt_of_lexLt (s t : List Char) (hs : ∀ ch ∈ s, isUpper ch = true)
    (ht : ∀ ch ∈ t, isUpper ch = true) (hlen : s.length = t.length) (h : lexLt s t) :
    val s < val t := by
  induction s generalizing t with
  | nil => cases t <;> simp [lexLt] at h
  | cons a r ih =>
    cases t with
    | nil => simp [lexLt] at h
    | cons b u =>
      simp only [List.length_cons, Nat.add_right_cancel_iff] at hlen
      have hr : ∀ ch ∈ r, isUpper ch = true := fun ch hch => hs ch (by simp [hch])
      have hu : ∀ ch ∈ u, isUpper ch = true := fun ch hch => ht ch (by simp [hch])
      rw [val_cons, val_cons, hlen]
      rcases h with h | ⟨rfl, h⟩
      · have b1 := (val_bounds r hr).2
        have b2 := (val_bounds u hu).1
        rw [hlen] at b1
        have hp := ones_pow u.length
        have hstep : ((a.toNat : Int) - 64 + 1) * 26 ^ u.length ≤ ((b.toNat : Int) - 64) * 26 ^ u.length :=
          mul_le_mul_of_nonneg_right (by omega) (by positivity)
        nlinarith
      · have := ih u hr hu hlen h
        omega

theorem lex_trichotomy (s t : List Char) (hlen : s.length = t.length) :
    lexLt s t ∨ s = t ∨ lexLt t s := by
  induction s generalizing t with
  | nil => cases t <;> simp_all
  | cons a r ih =>
    cases t with
    | nil => simp at hlen
    | cons b u =>
      simp only [List.length_cons, Nat.add_right_cancel_iff] at hlen
      rcases Nat.lt_trichotomy a.toNat b.toNat with h | h | h
      · exact Or.inl (Or.inl h)
      · have hab : a = b := by
          have := congrArg Char.ofNat h
          simpa [Char.ofNat_toNat] using this
        subst hab
        rcases ih u hlen with h1 | h1 | h1
        · exact Or.inl (Or.inr ⟨rfl, h1⟩)
        · exact Or.inr (Or.inl (by rw [h1]))
        · exact Or.inr (Or.inr (Or.inr ⟨rfl, h1⟩))
      · exact Or.inr (Or.inr (Or.inl h))

theorem val_lt_of_shortlex (s t : List Char) (hs : ∀ ch ∈ s, isUpper ch = true)
    (ht : ∀ ch ∈ t, isUpper ch = true) (h : shortlex s t) : val s < val t := by
  rcases h with h | ⟨h1, h2⟩
  · exact val_lt_of_length_lt s t hs ht h
  · exact val_lt_of_lexLt s t hs ht h1 h2

theorem val_letters (c : Nat) : val (letters c) = c + 1 := by
  have := colIndex_letters c
  simp only [colIndex] at this
  unfold val; omega

theorem letters_strict_mono (a b : Nat) : a < b ↔ shortlex (letters a) (letters b) := by
  constructor
  · intro hab
    have total : shortlex (letters a) (letters b) ∨ letters a = letters b ∨ shortlex (letters b) (letters a) := by
      rcases Nat.lt_trichotomy (letters a).length (letters b).length with h | h | h
      · exact Or.inl (Or.inl h)
      · rcases lex_trichotomy _ _ h with h1 | h1 | h1
        · exact Or.inl (Or.inr ⟨h, h1⟩)
        · exact Or.inr (Or.inl h1)
        · exact Or.inr (Or.inr (Or.inr ⟨h.symm, h1⟩))
      · exact Or.inr (Or.inr (Or.inl h))
    rcases total with h | h | h
    · exact h
    · have := letters_injective h; omega
    · have := val_lt_of_shortlex _ _ (letters_upper b) (letters_upper a) h
      rw [val_letters, val_letters] at this; omega
  · intro h
    have := val_lt_of_shortlex _ _ (letters_upper a) (letters_upper b) h
    rw [val_letters, val_letters] at this; omega

end NumbersModel.A1

namespace NumbersModel.A1
/-- `str(n)` determines `n`. -/
theorem natStr_injective {a b : Nat} (h : natStr a = natStr b) : a = b := by
  have hz : ZerosOK [48] := by
    intro d hd
    have := digitChar_toNat d hd
    have h58 : 48 + d < 58 := by omega
    simp [digitVal, List.find?, this, h58]
  have a1 := (spanDigits_natStr [48] hz a).2
  have a2 := (spanDigits_natStr [48] hz b).2
  rw [h] at a1; omega
end NumbersModel.A1
