/-
Lemmas for the CSV codec (C20): the reader over the physical lines of a text equals a fused character-level
run (`run`), and the fused run over writer output returns the written grid.
-/
import NumbersModel.Model.CsvCodec
namespace NumbersModel.CsvCodec
open NumbersModel

/-! ## the fused run: one pass over the characters, EOL injected after every physical line -/

/-- what `Reader_iternext` does after the EOL of a line -/
def afterEol (rd : Rd) (k : Rd → PyM (List (List Text))) : PyM (List (List Text)) :=
  if rd.st = .startRecord then emit rd.fields.reverse (k Rd.reset) else k rd

/-- `pending` = the current physical line already has characters (so the end of the text ends a line) -/
def run (cfg : Cfg) : Rd → Bool → Text → PyM (List (List Text))
  | rd, pending, [] =>
    if pending then
      match step cfg rd none with
      | .error e => .error e
      | .ok rd' => afterEol rd' (atEof cfg)
    else atEof cfg rd
  | rd, _, c :: rest =>
    match step cfg rd (some c) with
    | .error e => .error e
    | .ok rd1 =>
      if lineEnd c rest then
        match step cfg rd1 none with
        | .error e => .error e
        | .ok rd2 => afterEol rd2 (fun r => run cfg r false rest)
      else run cfg rd1 true rest

/-- the lines that remain when the current line already has characters -/
def midLines (t : Text) : List Text :=
  match splitLines t with
  | [] => [[]]
  | l :: ls => l :: ls

theorem readLines_cons_cons (cfg : Cfg) (rd : Rd) (c : Char) (l : Text) (ls : List Text) :
    readLines cfg rd ((c :: l) :: ls) =
      match step cfg rd (some c) with
      | .error e => .error e
      | .ok rd' => readLines cfg rd' (l :: ls) := by
  simp only [readLines, processLine]
  cases step cfg rd (some c) <;> rfl

theorem readLines_nil_cons (cfg : Cfg) (rd : Rd) (ls : List Text) :
    readLines cfg rd ([] :: ls) =
      match step cfg rd none with
      | .error e => .error e
      | .ok rd' => afterEol rd' (fun r => readLines cfg r ls) := by
  simp only [readLines, processLine, afterEol]
  cases step cfg rd none <;> simp only

theorem splitLines_cons_mid (c : Char) (rest : Text) (h : lineEnd c rest = false) :
    ∃ l ls, midLines rest = l :: ls ∧ splitLines (c :: rest) = (c :: l) :: ls := by
  simp only [splitLines, h, midLines]
  cases splitLines rest with
  | nil => exact ⟨[], [], rfl, rfl⟩
  | cons l ls => exact ⟨l, ls, rfl, rfl⟩

theorem midLines_cons (c : Char) (rest : Text) : midLines (c :: rest) = splitLines (c :: rest) := by
  simp only [midLines]
  cases h : splitLines (c :: rest) with
  | nil =>
    simp only [splitLines] at h
    split at h
    · cases h
    · cases hr : splitLines rest <;> rw [hr] at h <;> cases h
  | cons l ls => rfl

/-- the line-by-line reader is the fused run -/
theorem readLines_split (cfg : Cfg) (t : Text) :
    ∀ rd, readLines cfg rd (splitLines t) = run cfg rd false t ∧
          readLines cfg rd (midLines t) = run cfg rd true t := by
  induction t with
  | nil =>
    intro rd
    refine ⟨by simp [splitLines, readLines, run], ?_⟩
    simp only [midLines, splitLines, run, if_true]
    rw [readLines_nil_cons]
    cases step cfg rd none <;> simp only
    simp only [afterEol, readLines]
  | cons c rest ih =>
    intro rd
    have key : ∀ p, readLines cfg rd (splitLines (c :: rest)) = run cfg rd p (c :: rest) := by
      intro p
      cases hle : lineEnd c rest with
      | true =>
        simp only [splitLines, hle, if_true, run]
        rw [readLines_cons_cons]
        cases step cfg rd (some c) with
        | error e => rfl
        | ok rd1 =>
          simp only
          rw [readLines_nil_cons]
          cases step cfg rd1 none with
          | error e => rfl
          | ok rd2 =>
            simp only
            have : (fun r => readLines cfg r (splitLines rest)) = fun r => run cfg r false rest := by
              funext r; exact (ih r).1
            rw [this]
      | false =>
        obtain ⟨l, ls, hm, hs⟩ := splitLines_cons_mid c rest hle
        rw [hs, readLines_cons_cons]
        simp only [run, hle]
        cases step cfg rd (some c) with
        | error e => rfl
        | ok rd1 =>
          simp only [Bool.false_eq_true, if_false]
          rw [← hm]; exact (ih rd1).2
    exact ⟨key false, by rw [midLines_cons]; exact key true⟩

theorem readGrid_eq_run (cfg : Cfg) (t : Text) : readGrid cfg t = run cfg Rd.reset false t :=
  (readLines_split cfg t Rd.reset).1

/-- on a non-empty text the `pending` flag is not looked at -/
theorem run_pending_irrel (cfg : Cfg) (rd : Rd) (p q : Bool) (t : Text) (h : t ≠ []) :
    run cfg rd p t = run cfg rd q t := by
  cases t with
  | nil => exact absurd rfl h
  | cons c rest => simp only [run]

/-! ## single steps on the characters the writer emits -/

theorem special_false {c : Char} (h : special c = false) : c ≠ ',' ∧ c ≠ '"' ∧ c ≠ '\r' ∧ c ≠ '\n' := by
  simp only [special, Bool.or_eq_false_iff, beq_eq_false_iff_ne] at h
  exact ⟨h.1.1.1, h.1.1.2, h.1.2, h.2⟩

theorem isNl_of_not_special {c : Char} (h : special c = false) : isNl c = false := by
  have := special_false h
  simp [isNl, this.2.2.1, this.2.2.2]

theorem lineEnd_of_not_nl {c : Char} (rest : Text) (h : isNl c = false) : lineEnd c rest = false := by
  simp only [isNl, Bool.or_eq_false_iff, beq_eq_false_iff_ne] at h
  simp [lineEnd, h.1, h.2]

theorem lineEnd_quote (rest : Text) : lineEnd '"' rest = false := by simp [lineEnd]
theorem lineEnd_comma (rest : Text) : lineEnd ',' rest = false := by simp [lineEnd]
theorem lineEnd_cr_lf (rest : Text) : lineEnd '\r' ('\n' :: rest) = false := by simp [lineEnd]
theorem lineEnd_lf (rest : Text) : lineEnd '\n' rest = true := by simp [lineEnd]

/-- a reader whose buffer holds `fld` (newest first) -/
abbrev mk (st : St) (fields : List Text) (fld : Text) : Rd := ⟨st, fields, fld, fld.length⟩

theorem addChar_ok (cfg : Cfg) (st st' : St) (fields : List Text) (fld : Text) (c : Char)
    (h : fld.length < cfg.limit) :
    addChar cfg (mk st fields fld) c st' = .ok (mk st' fields (c :: fld)) := by
  simp only [addChar, mk, ge_iff_le]
  rw [if_neg (by omega)]
  rfl

theorem saveField_mk (st st' : St) (fields : List Text) (fld : Text) :
    saveField (mk st fields fld) st' = mk st' (fld.reverse :: fields) [] := rfl

theorem step_inQuoted_plain (cfg : Cfg) (fields : List Text) (fld : Text) (c : Char) (hc : c ≠ '"')
    (h : fld.length < cfg.limit) :
    step cfg (mk .inQuoted fields fld) (some c) = .ok (mk .inQuoted fields (c :: fld)) := by
  simp only [step, if_neg hc]
  exact addChar_ok cfg _ _ fields fld c h

theorem step_inQuoted_quote (cfg : Cfg) (fields : List Text) (fld : Text) :
    step cfg (mk .inQuoted fields fld) (some '"') = .ok (mk .quoteInQuoted fields fld) := by
  simp [step]

theorem step_inQuoted_eol (cfg : Cfg) (fields : List Text) (fld : Text) :
    step cfg (mk .inQuoted fields fld) none = .ok (mk .inQuoted fields fld) := rfl

theorem step_qiq_quote (cfg : Cfg) (fields : List Text) (fld : Text) (h : fld.length < cfg.limit) :
    step cfg (mk .quoteInQuoted fields fld) (some '"') = .ok (mk .inQuoted fields ('"' :: fld)) := by
  simp only [step, if_true]
  exact addChar_ok cfg _ _ fields fld '"' h

theorem step_qiq_comma (cfg : Cfg) (fields : List Text) (fld : Text) :
    step cfg (mk .quoteInQuoted fields fld) (some ',') = .ok (mk .startField (fld.reverse :: fields) []) := by
  simp [step, saveField]

theorem step_qiq_cr (cfg : Cfg) (fields : List Text) (fld : Text) :
    step cfg (mk .quoteInQuoted fields fld) (some '\r') = .ok (mk .eatCrnl (fld.reverse :: fields) []) := by
  simp [step, saveField, isNl]

theorem step_inField_plain (cfg : Cfg) (fields : List Text) (fld : Text) (c : Char) (hc : special c = false)
    (h : fld.length < cfg.limit) :
    step cfg (mk .inField fields fld) (some c) = .ok (mk .inField fields (c :: fld)) := by
  simp only [step, isNl_of_not_special hc, if_neg (special_false hc).1, Bool.false_eq_true, if_false]
  exact addChar_ok cfg _ _ fields fld c h

theorem step_inField_comma (cfg : Cfg) (fields : List Text) (fld : Text) :
    step cfg (mk .inField fields fld) (some ',') = .ok (mk .startField (fld.reverse :: fields) []) := by
  simp [step, saveField, isNl]

theorem step_inField_cr (cfg : Cfg) (fields : List Text) (fld : Text) :
    step cfg (mk .inField fields fld) (some '\r') = .ok (mk .eatCrnl (fld.reverse :: fields) []) := by
  simp [step, saveField, isNl]

/-- START_RECORD falls through to START_FIELD on anything but a line break -/
theorem step_startRecord (cfg : Cfg) (fields : List Text) (c : Char) (h : isNl c = false) :
    step cfg (mk .startRecord fields []) (some c) = stepStartField cfg (mk .startRecord fields []) (some c) := by
  simp [step, h]

theorem stepStartField_plain (cfg : Cfg) (st : St) (fields : List Text) (c : Char) (hc : special c = false)
    (h : 0 < cfg.limit) :
    stepStartField cfg (mk st fields []) (some c) = .ok (mk .inField fields [c]) := by
  simp only [stepStartField, isNl_of_not_special hc, if_neg (special_false hc).1, if_neg (special_false hc).2.1,
    Bool.false_eq_true, if_false]
  exact addChar_ok cfg _ _ fields [] c h

theorem stepStartField_quote (cfg : Cfg) (st : St) (fields : List Text) :
    stepStartField cfg (mk st fields []) (some '"') = .ok (mk .inQuoted fields []) := by
  simp [stepStartField, isNl]

theorem stepStartField_comma (cfg : Cfg) (st : St) (fields : List Text) :
    stepStartField cfg (mk st fields []) (some ',') = .ok (mk .startField ([] :: fields) []) := by
  simp [stepStartField, isNl, saveField]

theorem stepStartField_cr (cfg : Cfg) (st : St) (fields : List Text) :
    stepStartField cfg (mk st fields []) (some '\r') = .ok (mk .eatCrnl ([] :: fields) []) := by
  simp [stepStartField, isNl, saveField]

/-- the two states in which a field may begin -/
def Starting (st : St) : Prop := st = .startRecord ∨ st = .startField

theorem step_starting (cfg : Cfg) (st : St) (hs : Starting st) (fields : List Text) (c : Char) (h : isNl c = false) :
    step cfg (mk st fields []) (some c) = stepStartField cfg (mk st fields []) (some c) := by
  rcases hs with rfl | rfl
  · exact step_startRecord cfg fields c h
  · rfl

/-! ## runs over the pieces of a written record -/

/-- unquoted field characters accumulate -/
theorem run_plain (cfg : Cfg) (a : Text) : ∀ (fields : List Text) (fld rest : Text) (p q : Bool),
    (∀ c ∈ a, special c = false) → fld.length + a.length ≤ cfg.limit → rest ≠ [] →
    run cfg (mk .inField fields fld) p (a ++ rest) = run cfg (mk .inField fields (a.reverse ++ fld)) q rest := by
  induction a with
  | nil => intro fields fld rest p q _ _ hr; exact run_pending_irrel cfg _ p q rest hr
  | cons c a ih =>
    intro fields fld rest p q hsp hlim hr
    have hc : special c = false := hsp c (by simp)
    simp only [List.length_cons] at hlim
    simp only [List.cons_append, run]
    rw [step_inField_plain cfg fields fld c hc (by omega)]
    simp only [lineEnd_of_not_nl _ (isNl_of_not_special hc), Bool.false_eq_true, if_false]
    rw [ih fields (c :: fld) rest true q (fun x hx => hsp x (by simp [hx])) (by simp only [List.length_cons]; omega) hr]
    simp [List.reverse_cons, List.append_assoc]

/-- the body of a quoted field up to and including the closing quote -/
theorem run_quoted_body (cfg : Cfg) (f : Text) : ∀ (fields : List Text) (fld rest : Text) (p q : Bool),
    fld.length + f.length ≤ cfg.limit → rest ≠ [] →
    run cfg (mk .inQuoted fields fld) p (escapeQ f ++ '"' :: rest) =
      run cfg (mk .quoteInQuoted fields (f.reverse ++ fld)) q rest := by
  induction f with
  | nil =>
    intro fields fld rest p q _ hr
    simp only [escapeQ, List.nil_append, run, step_inQuoted_quote, lineEnd_quote, Bool.false_eq_true, if_false,
      List.reverse_nil]
    exact run_pending_irrel cfg _ true q rest hr
  | cons c f ih =>
    intro fields fld rest p q hlim hr
    simp only [List.length_cons] at hlim
    by_cases hc : c = '"'
    · subst hc
      simp only [escapeQ, if_true, List.cons_append, run, step_inQuoted_quote, lineEnd_quote, Bool.false_eq_true,
        if_false]
      rw [step_qiq_quote cfg fields fld (by omega)]
      simp only
      rw [ih fields ('"' :: fld) rest true q (by simp only [List.length_cons]; omega) hr]
      simp [List.reverse_cons, List.append_assoc]
    · simp only [escapeQ, if_neg hc, List.cons_append, run]
      rw [step_inQuoted_plain cfg fields fld c hc (by omega)]
      simp only
      have hlen : (c :: fld).length + f.length ≤ cfg.limit := by simp only [List.length_cons]; omega
      have hrev : f.reverse ++ c :: fld = (c :: f).reverse ++ fld := by simp [List.reverse_cons, List.append_assoc]
      split
      · rw [step_inQuoted_eol]
        simp only [afterEol, mk]
        rw [if_neg (by decide)]
        rw [ih fields (c :: fld) rest false q hlen hr, hrev]
      · rw [ih fields (c :: fld) rest true q hlen hr, hrev]

/-- `\r\n` after a saved field ends the record -/
theorem run_crlf_eat (cfg : Cfg) (fields : List Text) (rest : Text) (p : Bool) :
    run cfg (mk .eatCrnl fields []) p ('\n' :: rest) = emit fields.reverse (run cfg Rd.reset false rest) := by
  simp only [run, step, isNl, lineEnd_lf, if_true, afterEol, mk]
  simp

/-- a whole field in quotes, then the delimiter -/
theorem run_quoted_comma (cfg : Cfg) (st : St) (hs : Starting st) (fields : List Text) (f rest : Text) (p : Bool)
    (hlim : f.length ≤ cfg.limit) :
    run cfg (mk st fields []) p (quoted f ++ ',' :: rest) = run cfg (mk .startField (f :: fields) []) true rest := by
  simp only [quoted, List.cons_append, List.append_assoc, List.nil_append, run]
  rw [step_starting cfg st hs fields '"' (by simp [isNl]), stepStartField_quote]
  simp only [lineEnd_quote, Bool.false_eq_true, if_false]
  rw [run_quoted_body cfg f fields [] (',' :: rest) true true (by simpa using hlim) (by simp)]
  simp only [run, List.append_nil, step_qiq_comma, lineEnd_comma, Bool.false_eq_true, if_false, List.reverse_reverse]

/-- a whole field in quotes, then the line terminator -/
theorem run_quoted_crlf (cfg : Cfg) (st : St) (hs : Starting st) (fields : List Text) (f rest : Text) (p : Bool)
    (hlim : f.length ≤ cfg.limit) :
    run cfg (mk st fields []) p (quoted f ++ '\r' :: '\n' :: rest) =
      emit (f :: fields).reverse (run cfg Rd.reset false rest) := by
  simp only [quoted, List.cons_append, List.append_assoc, List.nil_append]
  rw [run]
  rw [step_starting cfg st hs fields '"' (by simp [isNl]), stepStartField_quote]
  simp only [lineEnd_quote, Bool.false_eq_true, if_false]
  rw [run_quoted_body cfg f fields [] ('\r' :: '\n' :: rest) true true (by simpa using hlim) (by simp)]
  rw [run]
  simp only [List.append_nil, step_qiq_cr, lineEnd_cr_lf, Bool.false_eq_true, if_false, List.reverse_reverse]
  exact run_crlf_eat cfg _ rest true

/-- a non-empty unquoted field, then the delimiter -/
theorem run_plain_comma (cfg : Cfg) (st : St) (hs : Starting st) (fields : List Text) (c : Char) (f rest : Text)
    (p : Bool) (hsp : ∀ x ∈ c :: f, special x = false) (hlim : (c :: f).length ≤ cfg.limit) :
    run cfg (mk st fields []) p ((c :: f) ++ ',' :: rest) = run cfg (mk .startField ((c :: f) :: fields) []) true rest := by
  have hc : special c = false := hsp c (by simp)
  simp only [List.length_cons] at hlim
  simp only [List.cons_append]
  rw [run]
  rw [step_starting cfg st hs fields c (isNl_of_not_special hc), stepStartField_plain cfg st fields c hc (by omega)]
  simp only [lineEnd_of_not_nl _ (isNl_of_not_special hc), Bool.false_eq_true, if_false]
  rw [run_plain cfg f fields [c] (',' :: rest) true true (fun x hx => hsp x (by simp [hx]))
    (by simp only [List.length_cons, List.length_nil]; omega) (by simp)]
  rw [run]
  simp only [step_inField_comma, lineEnd_comma, Bool.false_eq_true, if_false, List.reverse_append,
    List.reverse_reverse, List.reverse_cons, List.reverse_nil, List.nil_append, List.singleton_append]

/-- a non-empty unquoted field, then the line terminator -/
theorem run_plain_crlf (cfg : Cfg) (st : St) (hs : Starting st) (fields : List Text) (c : Char) (f rest : Text)
    (p : Bool) (hsp : ∀ x ∈ c :: f, special x = false) (hlim : (c :: f).length ≤ cfg.limit) :
    run cfg (mk st fields []) p ((c :: f) ++ '\r' :: '\n' :: rest) =
      emit ((c :: f) :: fields).reverse (run cfg Rd.reset false rest) := by
  have hc : special c = false := hsp c (by simp)
  simp only [List.length_cons] at hlim
  simp only [List.cons_append]
  rw [run]
  rw [step_starting cfg st hs fields c (isNl_of_not_special hc), stepStartField_plain cfg st fields c hc (by omega)]
  simp only [lineEnd_of_not_nl _ (isNl_of_not_special hc), Bool.false_eq_true, if_false]
  rw [run_plain cfg f fields [c] ('\r' :: '\n' :: rest) true true (fun x hx => hsp x (by simp [hx]))
    (by simp only [List.length_cons, List.length_nil]; omega) (by simp)]
  rw [run]
  simp only [step_inField_cr, lineEnd_cr_lf, Bool.false_eq_true, if_false]
  have := run_crlf_eat cfg ((c :: f) :: fields) rest true
  simpa using this

theorem any_special_false {f : Text} (h : f.any special = false) : ∀ x ∈ f, special x = false := by
  intro x hx
  cases hsx : special x with
  | false => rfl
  | true =>
    have : f.any special = true := List.any_eq_true.mpr ⟨x, hx, hsx⟩
    rw [h] at this; cases this

/-- any written field followed by the delimiter -/
theorem run_field_comma (cfg : Cfg) (st : St) (hs : Starting st) (fields : List Text) (f rest : Text) (p : Bool)
    (hlim : f.length ≤ cfg.limit) :
    run cfg (mk st fields []) p (writeField f ++ ',' :: rest) = run cfg (mk .startField (f :: fields) []) true rest := by
  unfold writeField
  cases hq : f.any special with
  | true => simp only [if_true]; exact run_quoted_comma cfg st hs fields f rest p hlim
  | false =>
    simp only [Bool.false_eq_true, if_false]
    cases f with
    | nil =>
      simp only [List.nil_append]
      rw [run]
      rw [step_starting cfg st hs fields ',' (by simp [isNl]), stepStartField_comma]
      simp only [lineEnd_comma, Bool.false_eq_true, if_false]
    | cons c f => exact run_plain_comma cfg st hs fields c f rest p (any_special_false hq) hlim

/-- any written field followed by the line terminator, when it is not the lone empty field of a record -/
theorem run_field_crlf (cfg : Cfg) (fields : List Text) (f rest : Text) (p : Bool) (hlim : f.length ≤ cfg.limit) :
    run cfg (mk .startField fields []) p (writeField f ++ '\r' :: '\n' :: rest) =
      emit (f :: fields).reverse (run cfg Rd.reset false rest) := by
  unfold writeField
  cases hq : f.any special with
  | true => simp only [if_true]; exact run_quoted_crlf cfg _ (Or.inr rfl) fields f rest p hlim
  | false =>
    simp only [Bool.false_eq_true, if_false]
    cases f with
    | nil =>
      simp only [List.nil_append]
      rw [run]
      have : step cfg (mk .startField fields []) (some '\r') = .ok (mk .eatCrnl ([] :: fields) []) :=
        stepStartField_cr cfg _ fields
      rw [this]
      simp only [lineEnd_cr_lf, Bool.false_eq_true, if_false]
      exact run_crlf_eat cfg _ rest true
    | cons c f => exact run_plain_crlf cfg _ (Or.inr rfl) fields c f rest p (any_special_false hq) hlim

/-- the fields after the first one of a record -/
theorem run_more_fields (cfg : Cfg) (row : List Text) : ∀ (fields : List Text) (rest : Text) (p : Bool),
    row ≠ [] → (∀ f ∈ row, f.length ≤ cfg.limit) →
    run cfg (mk .startField fields []) p (joinFields row ++ '\r' :: '\n' :: rest) =
      emit (fields.reverse ++ row) (run cfg Rd.reset false rest) := by
  induction row with
  | nil => intro _ _ _ h; exact absurd rfl h
  | cons f row ih =>
    intro fields rest p _ hlim
    cases row with
    | nil =>
      simp only [joinFields]
      rw [run_field_crlf cfg fields f rest p (hlim f (by simp))]
      simp
    | cons g row =>
      simp only [joinFields, List.append_assoc, List.cons_append]
      rw [run_field_comma cfg _ (Or.inr rfl) fields f _ p (hlim f (by simp))]
      rw [ih (f :: fields) rest true (by simp) (fun x hx => hlim x (by simp [hx]))]
      simp

theorem joinFields_two_ne_nil (f g : Text) (row : List Text) : (joinFields (f :: g :: row)).isEmpty = false := by
  simp [joinFields]

/-- one written record is read back as that record -/
theorem run_writeRow (cfg : Cfg) (row : List Text) (rest : Text) (p : Bool) (hlim : ∀ f ∈ row, f.length ≤ cfg.limit) :
    run cfg Rd.reset p (writeRow row ++ rest) = emit row (run cfg Rd.reset false rest) := by
  have hreset : Rd.reset = mk .startRecord [] [] := rfl
  cases row with
  | nil =>
    simp only [writeRow, joinFields, List.length_nil, Nat.lt_irrefl, false_and, if_false, lineTerminator,
      List.nil_append, List.cons_append]
    rw [run, hreset]
    have : step cfg (mk .startRecord [] []) (some '\r') = .ok (mk .eatCrnl [] []) := by simp [step, isNl]
    rw [this]
    simp only [lineEnd_cr_lf, Bool.false_eq_true, if_false]
    exact run_crlf_eat cfg [] rest true
  | cons f row =>
    cases row with
    | nil =>
      have hf := hlim f (by simp)
      simp only [writeRow, joinFields, List.length_cons, List.length_nil, Nat.zero_add, Nat.lt_add_one, true_and,
        lineTerminator, List.append_assoc, List.cons_append, List.nil_append]
      rw [hreset]
      cases he : (writeField f).isEmpty with
      | true =>
        -- the lone empty field: written `""`
        have hfe : f = [] := by
          unfold writeField at he
          cases hq : f.any special with
          | true => rw [hq] at he; simp [quoted] at he
          | false => rw [hq] at he; simpa using he
        subst hfe
        simp only [if_true]
        exact run_quoted_crlf cfg _ (Or.inl rfl) [] [] rest p (by simp)
      | false =>
        simp only [Bool.false_eq_true, if_false]
        unfold writeField at he ⊢
        cases hq : f.any special with
        | true => simp only [if_true]; exact run_quoted_crlf cfg _ (Or.inl rfl) [] f rest p hf
        | false =>
          rw [hq] at he
          simp only [Bool.false_eq_true, if_false] at he ⊢
          cases f with
          | nil => simp at he
          | cons c f => exact run_plain_crlf cfg _ (Or.inl rfl) [] c f rest p (any_special_false hq) hf
    | cons g row =>
      simp only [writeRow, joinFields_two_ne_nil, Bool.false_eq_true, and_false, if_false, lineTerminator,
        List.append_assoc, List.cons_append, List.nil_append]
      simp only [joinFields, List.append_assoc, List.cons_append]
      rw [hreset, run_field_comma cfg _ (Or.inl rfl) [] f _ p (hlim f (by simp))]
      rw [run_more_fields cfg (g :: row) [f] rest true (by simp) (fun x hx => hlim x (by simp [hx]))]
      rfl

theorem run_writeGrid (cfg : Cfg) (hit : cfg.iterFails = none) (grid : List (List Text))
    (hlim : ∀ row ∈ grid, ∀ f ∈ row, f.length ≤ cfg.limit) :
    run cfg Rd.reset false (writeGrid grid) = .ok grid := by
  induction grid with
  | nil => simp [writeGrid, run, atEof, Rd.reset, hit]
  | cons row grid ih =>
    simp only [writeGrid]
    rw [run_writeRow cfg row _ false (hlim row (by simp)), ih (fun r hr => hlim r (by simp [hr]))]
    rfl

end NumbersModel.CsvCodec
