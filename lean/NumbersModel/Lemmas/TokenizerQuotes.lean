import NumbersModel.Lemmas.Tokenizer
import Mathlib.Data.List.Induction
namespace NumbersModel.Tokenizer
open NumbersModel

/-! ### quoted literals are never split -/

def isQuote (c : Char) : Bool := c = '"' || c = '\''
def hasQuote (v : Text) : Bool := v.any isQuote

/-- inside a literal every delimiter character is doubled. -/
def escapedBody (q : Char) : List Char → Bool
  | [] => true
  | c :: cs =>
    if c ≠ q then escapedBody q cs
    else match cs with
      | c' :: cs' => c' = q && escapedBody q cs'
      | [] => false

/-- a complete double-quoted string literal. -/
def DQLit (v : Text) : Prop := ∃ body, v = '"' :: body ++ ['"'] ∧ escapedBody '"' body = true

/-- a complete quoted name, possibly a `'a':'b'` range of quoted names. -/
inductive SQLit (ws : List Nat) : List Char → Prop
  | part (body : List Char) : escapedBody '\'' body = true → SQLit ws ('\'' :: body ++ ['\''])
  | cont (l w1 w2 body : List Char) : SQLit ws l → (∀ c ∈ w1, isWs ws c = true) →
      (∀ c ∈ w2, isWs ws c = true) → escapedBody '\'' body = true →
      SQLit ws (l ++ (w1 ++ ':' :: (w2 ++ '\'' :: body ++ ['\''])))

def Lit (ws : List Nat) (v : Text) : Prop := DQLit v ∨ SQLit ws v

theorem escapedBody_ne (q c : Char) (cs : List Char) (h : c ≠ q) :
    escapedBody q (c :: cs) = escapedBody q cs := by
  conv => lhs; unfold escapedBody
  simp [h]
theorem escapedBody_pair (q : Char) (cs : List Char) :
    escapedBody q (q :: q :: cs) = escapedBody q cs := by
  conv => lhs; unfold escapedBody
  simp

theorem dqScan_nil : dqScan [] = none := rfl
theorem dqScan_ne (c : Char) (cs : List Char) (h : c ≠ '"') : dqScan (c :: cs) = (dqScan cs).map (· + 1) := by
  conv => lhs; unfold dqScan
  simp [h]
theorem dqScan_pair (cs : List Char) : dqScan ('"' :: '"' :: cs) = (dqScan cs).map (· + 2) := by
  conv => lhs; unfold dqScan
  simp
theorem dqScan_lone (cs : List Char) (h : ∀ cs', cs = '"' :: cs' → False) : dqScan ('"' :: cs) = some 1 := by
  conv => lhs; unfold dqScan
  simp only [ne_eq, not_true_eq_false, if_false]

theorem dqScan_wf : ∀ (r : List Char) (n : Nat), dqScan r = some n →
    ∃ body, r.take n = body ++ ['"'] ∧ escapedBody '"' body = true := by
  intro r
  induction r using dqScan.induct with
  | case1 => intro n h; rw [dqScan_nil] at h; cases h
  | case2 c cs hc ih =>
    intro n h
    rw [dqScan_ne c cs hc, Option.map_eq_some_iff] at h
    obtain ⟨a, ha, hn⟩ := h
    have hn' : n = a + 1 := hn.symm
    subst hn'
    obtain ⟨body, hb, he⟩ := ih a ha
    refine ⟨c :: body, by simp [hb], ?_⟩
    rw [escapedBody_ne _ _ _ hc]; exact he
  | case3 c hc cs' ih =>
    intro n h
    have hc' : c = '"' := by simpa using hc
    subst hc'
    rw [dqScan_pair, Option.map_eq_some_iff] at h
    obtain ⟨a, ha, hn⟩ := h
    have hn' : n = a + 2 := hn.symm
    subst hn'
    obtain ⟨body, hb, he⟩ := ih a ha
    refine ⟨'"' :: '"' :: body, by simp [hb], ?_⟩
    rw [escapedBody_pair]; exact he
  | case4 c cs hc hnq =>
    intro n h
    have hc' : c = '"' := by simpa using hc
    subst hc'
    rw [dqScan_lone cs hnq] at h
    injection h with h; subst h
    exact ⟨[], by simp, rfl⟩

theorem dqMatch_wf {s n} (h : dqMatch s = some n) : DQLit (s.take n) := by
  unfold dqMatch at h
  split at h
  · rename_i r
    rw [Option.map_eq_some_iff] at h
    obtain ⟨a, ha, hn⟩ := h
    have hn' : n = a + 1 := hn.symm
    subst hn'
    obtain ⟨body, hb, he⟩ := dqScan_wf r a ha
    exact ⟨body, by simp [hb], he⟩
  · cases h

theorem sqScan_nil (n : Nat) (fb : Option Nat) : sqScan [] n fb = fb := rfl
theorem sqScan_ne (c : Char) (cs : List Char) (n : Nat) (fb : Option Nat) (h : c ≠ '\'') :
    sqScan (c :: cs) n fb = sqScan cs (n + 1) fb := by
  conv => lhs; unfold sqScan
  simp [h]
theorem sqScan_pair (cs : List Char) (n : Nat) (fb : Option Nat) :
    sqScan ('\'' :: '\'' :: cs) n fb = sqScan cs (n + 2) (some (n + 1)) := by
  conv => lhs; unfold sqScan
  simp
theorem sqScan_lone (cs : List Char) (n : Nat) (fb : Option Nat) (h : ∀ cs', cs = '\'' :: cs' → False) :
    sqScan ('\'' :: cs) n fb = some (n + 1) := by
  conv => lhs; unfold sqScan
  simp only [ne_eq, not_true_eq_false, if_false]

theorem mem_takeWhile_p {α} (p : α → Bool) (l : List α) : ∀ c ∈ l.takeWhile p, p c = true := by
  have := List.all_takeWhile (p := p) (l := l)
  rw [List.all_eq_true] at this
  exact this

theorem sqScan_wf : ∀ (r : List Char) (n : Nat) (fb : Option Nat) (m : Nat), sqScan r n fb = some m →
    fb = some m ∨ (n < m ∧ ∃ body, r.take (m - n) = body ++ ['\''] ∧ escapedBody '\'' body = true) := by
  intro r n fb
  induction r, n, fb using sqScan.induct with
  | case1 n fb => intro m h; rw [sqScan_nil] at h; exact Or.inl h
  | case2 c cs n fb hc ih =>
    intro m h
    rw [sqScan_ne c cs n fb hc] at h
    rcases ih m h with h1 | ⟨hlt, body, hb, he⟩
    · exact Or.inl h1
    · refine Or.inr ⟨by omega, c :: body, ?_, ?_⟩
      · have : m - n = (m - (n + 1)) + 1 := by omega
        rw [this]; simp [hb]
      · rw [escapedBody_ne _ _ _ hc]; exact he
  | case3 c n fb hc cs' ih =>
    intro m h
    have hc' : c = '\'' := by simpa using hc
    subst hc'
    rw [sqScan_pair] at h
    rcases ih m h with h1 | ⟨hlt, body, hb, he⟩
    · injection h1 with h1; subst h1
      refine Or.inr ⟨by omega, [], ?_, rfl⟩
      have : n + 1 - n = 1 := by omega
      rw [this]; simp
    · refine Or.inr ⟨by omega, '\'' :: '\'' :: body, ?_, ?_⟩
      · have : m - n = (m - (n + 2)) + 2 := by omega
        rw [this]; simp [hb]
      · rw [escapedBody_pair]; exact he
  | case4 c cs n fb hc hnq =>
    intro m h
    have hc' : c = '\'' := by simpa using hc
    subst hc'
    rw [sqScan_lone cs n fb hnq] at h
    injection h with h; subst h
    refine Or.inr ⟨by omega, [], ?_, rfl⟩
    have : n + 1 - n = 1 := by omega
    rw [this]; simp

theorem sqPart_wf {s n} (h : sqPart s = some n) :
    ∃ body, s.take n = '\'' :: body ++ ['\''] ∧ escapedBody '\'' body = true := by
  unfold sqPart at h
  split at h
  · rename_i r
    rw [Option.map_eq_some_iff] at h
    obtain ⟨a, ha, hn⟩ := h
    have hn' : n = a + 1 := hn.symm
    subst hn'
    rcases sqScan_wf r 0 none a ha with h1 | ⟨_, body, hb, he⟩
    · cases h1
    · exact ⟨body, by simpa using hb, he⟩
  · cases h

theorem sqCont_wf (ws : List Nat) : ∀ (f : Nat) (l s : List Char), SQLit ws l →
    SQLit ws (l ++ s.take (sqCont ws f s)) := by
  intro f
  induction f with
  | zero => intro l s hl; simpa [sqCont] using hl
  | succ f ih =>
    intro l s hl
    unfold sqCont
    simp only
    split
    · rename_i s2 hs1
      split
      · rename_i n hp
        -- decompose s
        have hw1 : s = s.takeWhile (isWs ws) ++ ':' :: s2 := by
          rw [← hs1]; exact (List.takeWhile_append_dropWhile).symm
        have hw2 : s2 = s2.takeWhile (isWs ws) ++ s2.dropWhile (isWs ws) :=
          (List.takeWhile_append_dropWhile).symm
        obtain ⟨body, hb, he⟩ := sqPart_wf hp
        generalize hs3 : s2.dropWhile (isWs ws) = s3 at *
        generalize hv1 : s.takeWhile (isWs ws) = w1 at *
        generalize hv2 : s2.takeWhile (isWs ws) = w2 at *
        have hs : s = w1 ++ ':' :: (w2 ++ s3) := by rw [hw1, ← hw2]
        have hlen : s.length - s3.length = w1.length + 1 + w2.length := by
          rw [hs]; simp only [List.length_append, List.length_cons]; omega
        have hused : s.take (s.length - s3.length + n) = w1 ++ ':' :: (w2 ++ s3.take n) := by
          rw [hlen, hs]
          rw [List.take_append, List.take_of_length_le (by omega)]
          congr 1
          have : w1.length + 1 + w2.length + n - w1.length = (w2.length + n) + 1 := by omega
          rw [this, List.take_succ_cons, List.take_append, List.take_of_length_le (by omega)]
          congr 2
          have : w2.length + n - w2.length = n := by omega
          rw [this]
        have hl' : SQLit ws (l ++ s.take (s.length - s3.length + n)) := by
          rw [hused, hb]
          have := SQLit.cont l w1 w2 body hl
            (fun c hc => by rw [← hv1] at hc; exact mem_takeWhile_p _ _ c hc)
            (fun c hc => by rw [← hv2] at hc; exact mem_takeWhile_p _ _ c hc) he
          simpa using this
        have := ih (l ++ s.take (s.length - s3.length + n)) (s.drop (s.length - s3.length + n)) hl'
        rw [List.take_add]
        simpa [List.append_assoc] using this
      · simpa using hl
    · simpa using hl

theorem sqMatch_wf {ws s n} (h : sqMatch ws s = some n) : SQLit ws (s.take n) := by
  unfold sqMatch at h
  split at h
  · rename_i m hm
    injection h with h; subst h
    obtain ⟨body, hb, he⟩ := sqPart_wf hm
    have h0 : SQLit ws (s.take m) := by rw [hb]; exact SQLit.part body he
    have := sqCont_wf ws s.length (s.take m) (s.drop m) h0
    rw [List.take_add]; exact this
  · cases h

/-! #### the invariant: every quote character of a token lies in a complete literal of that token -/

/-- a text whose quote characters all belong to complete quoted names inside it: built from
    non-quote characters and whole `'…'` literals (e.g. `Table 1::'a-b':'c d'`). -/
inductive Segs (ws : List Nat) : List Char → Prop
  | nil : Segs ws []
  | char (u : List Char) (c : Char) : Segs ws u → isQuote c = false → Segs ws (u ++ [c])
  | lit (u l : List Char) : Segs ws u → SQLit ws l → Segs ws (u ++ l)

/-- what every token satisfies: it is one complete double-quoted string, or all its quote
    characters lie in complete quoted names inside it. -/
def WellQuoted (ws : List Nat) (v : Text) : Prop := DQLit v ∨ Segs ws v

def QInv (ws : List Nat) (st : St) : Prop :=
  Segs ws st.token ∧ ∀ t ∈ st.items, WellQuoted ws t.value

def CodesNoQuote (codes : List (List Char)) : Prop := ∀ e ∈ codes, hasQuote e = false

theorem hasQuote_append (a b : Text) : hasQuote (a ++ b) = (hasQuote a || hasQuote b) := by
  simp [hasQuote, List.any_append]

theorem segs_append_noquote {ws : List Nat} {u : List Char} (hu : Segs ws u) :
    ∀ v : List Char, hasQuote v = false → Segs ws (u ++ v) := by
  intro v
  induction v generalizing u with
  | nil => intro _; simpa using hu
  | cons c r ih =>
    intro h
    have hc : isQuote c = false := by
      simp only [hasQuote, List.any_cons, Bool.or_eq_false_iff] at h; exact h.1
    have hr : hasQuote r = false := by
      simp only [hasQuote, List.any_cons, Bool.or_eq_false_iff] at h; exact h.2
    have := ih (Segs.char u c hu hc) hr
    simpa [List.append_assoc] using this

theorem segs_of_noquote {ws : List Nat} (v : List Char) (h : hasQuote v = false) : Segs ws v := by
  have := segs_append_noquote (ws := ws) Segs.nil v h
  simpa using this

theorem items_push {ws : List Nat} {items : List Tok} {t : Tok}
    (hi : ∀ u ∈ items, WellQuoted ws u.value) (ht : WellQuoted ws t.value) :
    ∀ u ∈ items ++ [t], WellQuoted ws u.value := by
  intro u hu
  rcases List.mem_append.mp hu with h | h
  · exact hi u h
  · simp at h; subst h; exact ht

theorem wq_noquote {ws : List Nat} {v : Text} (h : hasQuote v = false) : WellQuoted ws v :=
  Or.inr (segs_of_noquote v h)

theorem saveToken_q {ws st} (h : QInv ws st) : QInv ws (saveToken st) := by
  unfold saveToken; split
  · exact ⟨Segs.nil, items_push h.2 (Or.inr h.1)⟩
  · exact h

/-- if the guard passed with a pending token, the quote is a single quote (a linked name). -/
theorem guard_linked {st : St} (hg : quoteGuard st = .ok ()) (hne : st.token ≠ []) :
    ∃ r, st.rest = '\'' :: r := by
  unfold quoteGuard at hg
  split at hg
  · rename_i hl
    unfold linked at hl
    split at hl
    · rename_i r hr; exact ⟨r, hr⟩
    · cases hl
  · exact absurd (assertEmpty_ok hg) hne

theorem parseString_q {ws st st'} (h : QInv ws st) (e : parseString ws st = .ok st') : QInv ws st' := by
  unfold parseString at e
  rcases guard_cases st with ha | ha
  · simp only [ha, bind, Except.bind] at e
    split at e
    · cases e
    · rename_i n hm
      split at e
      · rename_i hne
        injection e with e; subst e
        obtain ⟨r, hr⟩ := guard_linked ha hne
        have hl : SQLit ws (st.rest.take n) := by
          split at hm
          · rename_i tl heq
            rw [hr] at heq
            injection heq with h1 _
            exact absurd h1 (by decide)
          · exact sqMatch_wf hm
        exact ⟨Segs.lit _ _ h.1 hl, h.2⟩
      · injection e with e; subst e
        refine ⟨h.1, items_push h.2 ?_⟩
        simp only [makeOperand_value]
        split at hm
        · exact Or.inl (dqMatch_wf hm)
        · have := Segs.lit [] _ Segs.nil (sqMatch_wf hm)
          exact Or.inr (by simpa using this)
  · simp [ha, bind, Except.bind] at e

theorem parseError_q {ws codes st st'} (hc : CodesNoQuote codes) (h : QInv ws st)
    (e : parseError codes st = .ok st') : QInv ws st' := by
  unfold parseError at e
  rcases assertEmpty_cases st with ha | ha
  · simp only [ha, bind, Except.bind] at e
    split at e
    · rename_i code hf
      injection e with e; subst e
      exact ⟨h.1, items_push h.2 (wq_noquote (hc code (List.mem_of_find?_eq_some hf)))⟩
    · cases e
  · simp [ha, bind, Except.bind] at e

theorem twoCharOps_noquote : ∀ x ∈ twoCharOps, hasQuote x = false := by decide

theorem parseOperator_q {ws st st'} (h : QInv ws st)
    (hc : ∀ c r, st.rest = c :: r → isQuote c = false)
    (e : parseOperator st = .ok st') : QInv ws st' := by
  unfold parseOperator at e
  simp only at e
  split at e
  · rename_i h2
    injection e with e; subst e
    have hm : st.rest.take 2 ∈ twoCharOps := by
      simpa [List.contains_iff_mem] using h2
    exact ⟨h.1, items_push h.2 (wq_noquote (twoCharOps_noquote _ hm))⟩
  · split at e
    · cases e
    · rename_i c r hr
      injection e with e; subst e
      have hq : hasQuote [c] = false := by simp [hasQuote, hc c r hr]
      refine ⟨h.1, items_push h.2 (wq_noquote ?_)⟩
      have hv : ∀ (t : Tok), t.value = [c] → hasQuote t.value = false := by
        intro t htv; rw [htv]; exact hq
      apply hv
      split
      · rfl
      · split
        · rfl
        · split
          · rfl
          · split <;> rfl

theorem parseOpener_q {ws st st'} (h : QInv ws st) (e : parseOpener st = .ok st') : QInv ws st' := by
  unfold parseOpener at e
  split at e
  · rcases assertEmpty_cases st with ha | ha
    · simp only [ha, bind, Except.bind] at e
      injection e with e; subst e
      exact ⟨h.1, items_push h.2 (wq_noquote (by decide))⟩
    · simp [ha, bind, Except.bind] at e
  · injection e with e; subst e
    refine ⟨Segs.nil, items_push h.2 ?_⟩
    split
    · exact Or.inr (Segs.char _ _ h.1 (by decide))
    · exact wq_noquote (by decide)
  · cases e

theorem getCloser_noquote (t : Tok) : hasQuote (getCloser t).value = false := by
  unfold getCloser; split <;> decide

theorem parseCloser_q {ws exc st st'} (h : QInv ws st) (e : parseCloser exc st = .ok st') : QInv ws st' := by
  unfold parseCloser at e
  split at e
  · split at e
    · cases e
    · split at e
      · cases e
      · simp only at e
        split at e
        · cases e
        · injection e with e; subst e
          exact ⟨h.1, items_push h.2 (wq_noquote (getCloser_noquote _))⟩
  · cases e

theorem parseSeparator_q {ws st st'} (h : QInv ws st) (e : parseSeparator st = .ok st') : QInv ws st' := by
  unfold parseSeparator at e
  split at e
  · injection e with e; subst e
    exact ⟨h.1, items_push h.2 (wq_noquote (by decide))⟩
  · injection e with e; subst e
    refine ⟨h.1, items_push h.2 (wq_noquote ?_)⟩
    have hv : ∀ (t : Tok), t.value = [','] → hasQuote t.value = false := by
      intro t htv; rw [htv]; decide
    apply hv
    split
    · rfl
    · split <;> rfl
  · cases e

theorem step_q {cfg : Cfg} {st st'} (hc : CodesNoQuote cfg.codes) (h : QInv cfg.ws st)
    (e : step cfg st = .ok st') : QInv cfg.ws st' := by
  unfold step at e
  split at e
  · injection e with e; subst e; exact h
  · rename_i c r hr
    split at e
    · rename_i hsci
      injection e with e; subst e
      refine ⟨?_, h.2⟩
      apply Segs.char _ _ h.1
      rcases hsci.1 with hp | hp <;> subst hp <;> decide
    · generalize hst1 : (if cfg.enders.contains c = true then saveToken st else st) = st1 at e
      have h1 : QInv cfg.ws st1 := by
        rw [← hst1]; split
        · exact saveToken_q h
        · exact h
      have hr1 : st1.rest = c :: r := by
        rw [← hst1]; split <;> simp [hr]
      split at e
      · exact parseString_q h1 e
      · rename_i hnq
        have hcq : isQuote c = false := by
          simp only [isQuote, Bool.or_eq_false_iff, decide_eq_false_iff_not]
          exact ⟨fun hh => hnq (Or.inl hh), fun hh => hnq (Or.inr hh)⟩
        split at e
        · exact parseError_q hc h1 e
        · split at e
          · refine parseOperator_q h1 ?_ e
            intro c' r' hr'
            rw [hr1] at hr'; injection hr' with h1' _; subst h1'; exact hcq
          · split at e
            · exact parseOpener_q h1 e
            · split at e
              · exact parseCloser_q h1 e
              · split at e
                · exact parseSeparator_q h1 e
                · injection e with e; subst e
                  exact ⟨Segs.char _ _ h1.1 hcq, h1.2⟩

theorem loop_q {cfg : Cfg} (hc : CodesNoQuote cfg.codes) :
    ∀ fuel st st', QInv cfg.ws st → loop cfg fuel st = .ok st' → QInv cfg.ws st' := by
  intro fuel
  induction fuel with
  | zero =>
    intro st st' h e
    unfold loop at e
    split at e
    · injection e with e; subst e; exact saveToken_q h
    · cases e
  | succ f ih =>
    intro st st' h e
    unfold loop at e
    split at e
    · injection e with e; subst e; exact saveToken_q h
    · cases hs : step cfg st with
      | error x => simp [hs, bind, Except.bind] at e
      | ok st1 =>
        simp only [hs, bind, Except.bind] at e
        exact ih st1 st' (step_q hc h hs) e

theorem tokenize_quotes {cfg : Cfg} (hc : CodesNoQuote cfg.codes) (s : Text) (toks : List Tok)
    (e : tokenize cfg s = .ok toks) : ∀ t ∈ toks, WellQuoted cfg.ws t.value := by
  unfold tokenize at e
  cases hl : loop cfg (s.length + 1) ⟨[], [], [], s⟩ with
  | error x => simp [hl, bind, Except.bind] at e
  | ok st =>
    simp only [hl, bind, Except.bind] at e
    injection e with e; subst e
    have h0 : QInv cfg.ws ⟨[], [], [], s⟩ := ⟨Segs.nil, by simp⟩
    exact (loop_q hc _ _ _ h0 hl).2

end NumbersModel.Tokenizer
