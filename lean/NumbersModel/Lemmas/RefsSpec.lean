/-
Lemmas connecting the model of xrefs.py's name scopes / `expand_ref` (Model/Refs.lean) with the resolver
spec (Model/RefsSpec.lean).  Used by Props/C09.lean.
-/
import NumbersModel.Model.RefsSpec
import NumbersModel.Lemmas.Refs
namespace NumbersModel.RefsSpec
open NumbersModel NumbersModel.A1 NumbersModel.Refs

/-! ### general list facts -/

theorem firstUnique_nil_cons {α : Type} (r : List (List α)) : firstUnique ([] :: r) = firstUnique r := rfl
theorem firstUnique_single_cons {α : Type} (x : α) (r : List (List α)) : firstUnique ([x] :: r) = some x := rfl

theorem flatMap_eq_of_others_nil {α β : Type} (f : α → List β) :
    ∀ (l : List α) (a : α), l.Nodup → a ∈ l → (∀ b ∈ l, b ≠ a → f b = []) → l.flatMap f = f a
  | [], _, _, ha, _ => by simp at ha
  | c :: l, a, hnd, ha, ho => by
    simp only [List.nodup_cons] at hnd
    by_cases hca : c = a
    · subst hca
      have : l.flatMap f = [] := by
        apply List.flatMap_eq_nil_iff.2
        intro b hb
        exact ho b (List.mem_cons_of_mem _ hb) (fun e => hnd.1 (e ▸ hb))
      simp [List.flatMap_cons, this]
    · have hal : a ∈ l := by
        rcases List.mem_cons.1 ha with h | h
        · exact absurd h.symm hca
        · exact h
      have hc : f c = [] := ho c (by simp) hca
      rw [List.flatMap_cons, hc, List.nil_append]
      exact flatMap_eq_of_others_nil f l a hnd.2 hal (fun b hb => ho b (List.mem_cons_of_mem _ hb))

theorem others_nil_of_length_one {α β : Type} (f : α → List β) :
    ∀ (l : List α) (a : α), a ∈ l → f a ≠ [] → (l.flatMap f).length = 1 →
      ∀ b ∈ l, b ≠ a → f b = []
  | [], _, ha, _, _ => by simp at ha
  | c :: l, a, ha, hfa, hlen => by
    intro b hb hba
    rw [List.flatMap_cons, List.length_append] at hlen
    have hpos : ∀ x, f x ≠ [] → 0 < (f x).length := fun x hx => List.length_pos_iff.2 hx
    have hmem_pos : ∀ x ∈ l, f x ≠ [] → 0 < (l.flatMap f).length := by
      intro x hx hfx
      apply List.length_pos_iff.2
      intro hnil
      exact hfx (List.flatMap_eq_nil_iff.1 hnil x hx)
    by_cases hca : c = a
    · subst hca
      have h1 := hpos c hfa
      have hl0 : (l.flatMap f).length = 0 := by omega
      rcases List.mem_cons.1 hb with h | h
      · exact absurd h hba
      · exact List.flatMap_eq_nil_iff.1 (List.length_eq_zero_iff.1 hl0) b h
    · have hal : a ∈ l := by
        rcases List.mem_cons.1 ha with h | h
        · exact absurd h.symm hca
        · exact h
      have h1 := hmem_pos a hal hfa
      have hc0 : (f c).length = 0 := by omega
      rcases List.mem_cons.1 hb with h | h
      · rw [h]; exact List.length_eq_zero_iff.1 hc0
      · exact others_nil_of_length_one f l a hal hfa (by omega) b h hba

theorem nodup_of_map_nodup {α β : Type} (f : α → β) (l : List α) (h : (l.map f).Nodup) : l.Nodup :=
  List.Nodup.of_map f h


/-! ### the document's tables under `NamesOK` -/

theorem allTables_eq (doc : Doc) : allTables doc = (flat doc).map (·.2) := by
  induction doc with
  | nil => rfl
  | cons a doc ih =>
    have h1 : allTables (a :: doc) = a.tables ++ allTables doc := by simp [allTables]
    have h2 : flat (a :: doc) = a.tables.map (fun t => (a.id, t)) ++ flat doc := by simp [flat]
    rw [h1, h2, ih, List.map_append, List.map_map]
    congr 1
    simp

theorem allTables_ids (doc : Doc) : (allTables doc).map (·.id) = (flat doc).map (·.2.id) := by
  rw [allTables_eq, List.map_map]; rfl

theorem allTables_nodup {doc : Doc} (h : NamesOK doc) : (allTables doc).Nodup :=
  List.Nodup.of_map (·.id) (by rw [allTables_ids]; exact h.tableIds)

theorem mem_allTables {doc : Doc} {s : Sheet} {t : Table} (hs : s ∈ doc) (ht : t ∈ s.tables) :
    t ∈ allTables doc := by
  simp only [allTables, List.mem_flatMap]
  exact ⟨s, hs, ht⟩

theorem table_eq_of_id {doc : Doc} (h : NamesOK doc) {a b : Table} (ha : a ∈ allTables doc)
    (hb : b ∈ allTables doc) (hid : a.id = b.id) : a = b :=
  eq_of_key_eq (fun t : Table => t.id) (allTables doc) a b ha hb (by rw [allTables_ids]; exact h.tableIds) hid

theorem sheet_tables_nodup {doc : Doc} (h : NamesOK doc) {s : Sheet} (hs : s ∈ doc) : s.tables.Nodup :=
  List.Nodup.of_map (·.name) (h.tableNames s hs)

/-- a table id occurs in one sheet only -/
theorem sheet_unique_of_table {doc : Doc} (h : NamesOK doc) {s₁ s₂ : Sheet} {t₁ t₂ : Table}
    (h1 : s₁ ∈ doc) (ht1 : t₁ ∈ s₁.tables) (h2 : s₂ ∈ doc) (ht2 : t₂ ∈ s₂.tables)
    (hid : t₁.id = t₂.id) : s₁ = s₂ := by
  have := eq_of_key_eq (fun p : Nat × Table => p.2.id) (flat doc) (s₁.id, t₁) (s₂.id, t₂)
    (mem_flat h1 ht1) (mem_flat h2 ht2) h.tableIds hid
  have hsid : s₁.id = s₂.id := by simpa using congrArg Prod.fst this
  exact sheet_eq_of_id h h1 h2 hsid

theorem hostTables_eq {doc : Doc} (h : NamesOK doc) {s : Sheet} {t : Table} (hs : s ∈ doc)
    (ht : t ∈ s.tables) : hostTables doc t.id = [t] := by
  unfold hostTables
  exact filter_key_of_nodup (fun x : Table => x.id) (allTables doc) t (mem_allTables hs ht)
    (by rw [allTables_ids]; exact h.tableIds)

theorem hostSheetTables_eq {doc : Doc} (h : NamesOK doc) {s : Sheet} {t : Table} (hs : s ∈ doc)
    (ht : t ∈ s.tables) : hostSheetTables doc t.id = s.tables := by
  unfold hostSheetTables
  have h1 : doc.filter (fun s' => s'.tables.any (fun t' => decide (t'.id = t.id))) =
      doc.filter (fun s' => decide (s'.id = s.id)) := by
    apply List.filter_congr
    intro s' hs'
    by_cases hid : s'.id = s.id
    · have : s' = s := sheet_eq_of_id h hs' hs hid
      subst this
      simp only [hid, decide_true, List.any_eq_true, decide_eq_true_eq]
      exact ⟨t, ht, rfl⟩
    · simp only [hid, decide_false, List.any_eq_false, decide_eq_true_eq]
      intro t' ht' hid'
      exact hid (congrArg Sheet.id (sheet_unique_of_table h hs' ht' hs ht hid'))
  rw [h1, filter_key_of_nodup (fun x : Sheet => x.id) doc s hs h.sheetIds]
  simp

theorem named_sheet_eq {doc : Doc} (h : NamesOK doc) {s : Sheet} {t : Table} (hs : s ∈ doc)
    (ht : t ∈ s.tables) : named s.tables t.name = [t] := tables_filter_name h hs ht

theorem named_all_length (doc : Doc) (n : Text) :
    (named (allTables doc) n).length = (tableNames doc).count n := by
  unfold named tableNames
  rw [allTables_eq]
  induction flat doc with
  | nil => rfl
  | cons a l ih =>
    by_cases hn : a.2.name = n
    · simp [List.filter_cons, hn, ih]
    · have : (a.2.name == n) = false := beq_eq_false_iff_ne.2 hn
      simp [List.filter_cons, hn, this, ih]

theorem named_all_unique {doc : Doc} {s : Sheet} {t : Table} (hs : s ∈ doc) (ht : t ∈ s.tables)
    (hu : (tableNames doc).count t.name = 1) : named (allTables doc) t.name = [t] := by
  have hlen := named_all_length doc t.name
  rw [hu] at hlen
  have hmem : t ∈ named (allTables doc) t.name := by
    simp [named, List.mem_filter, mem_allTables hs ht]
  match hl : named (allTables doc) t.name, hlen, hmem with
  | [x], _, hm => simp at hm; rw [hm]

theorem not_mem_other_sheet {doc : Doc} (h : NamesOK doc) {hs ts : Sheet} {target : Table}
    (hhs : hs ∈ doc) (hts : ts ∈ doc) (htt : target ∈ ts.tables) (hne : hs.id ≠ ts.id) :
    ∀ t ∈ hs.tables, t.id ≠ target.id := by
  intro t ht hid
  exact hne (congrArg Sheet.id (sheet_unique_of_table h hhs ht hts htt hid))


/-! ### the generic reader `resolveWith` on well-named documents -/

section generic
variable {β : Type} (f : Table → List β)

theorem resolveWith_none_levels {doc : Doc} (h : NamesOK doc) {hs : Sheet} {host : Table}
    (hhs : hs ∈ doc) (hht : host ∈ hs.tables) :
    resolveWith f doc host.id .none =
      firstUnique [f host, hs.tables.flatMap f, (allTables doc).flatMap f] := by
  simp [resolveWith, hostTables_eq h hhs hht, hostSheetTables_eq h hhs hht]

/-- a reference into the host table itself -/
theorem resolveWith_none_host {doc : Doc} (h : NamesOK doc) {hs : Sheet} {host : Table}
    (hhs : hs ∈ doc) (hht : host ∈ hs.tables) {x : β} (hx : f host = [x]) :
    resolveWith f doc host.id .none = some x := by
  rw [resolveWith_none_levels f h hhs hht, hx]; rfl

/-- unqualified, and no other table of the DOCUMENT offers a candidate -/
theorem resolveWith_none_doc {doc : Doc} (h : NamesOK doc) {hs ts : Sheet} {host target : Table}
    (hhs : hs ∈ doc) (hht : host ∈ hs.tables) (hts : ts ∈ doc) (htt : target ∈ ts.tables) {x : β}
    (hx : f target = [x]) (honly : ∀ t ∈ allTables doc, t ≠ target → f t = []) :
    resolveWith f doc host.id .none = some x := by
  by_cases hte : host = target
  · subst hte; exact resolveWith_none_host f h hhs hht hx
  · rw [resolveWith_none_levels f h hhs hht, honly host (mem_allTables hhs hht) hte, firstUnique_nil_cons]
    have h3 : (allTables doc).flatMap f = [x] := by
      rw [flatMap_eq_of_others_nil f _ target (allTables_nodup h) (mem_allTables hts htt) honly, hx]
    by_cases hin : target ∈ hs.tables
    · rw [flatMap_eq_of_others_nil f _ target (sheet_tables_nodup h hhs) hin
        (fun t ht => honly t (mem_allTables hhs ht)), hx]
      rfl
    · have : hs.tables.flatMap f = [] := by
        apply List.flatMap_eq_nil_iff.2
        intro t ht
        exact honly t (mem_allTables hhs ht) (fun e => hin (e ▸ ht))
      rw [this, firstUnique_nil_cons, h3]; rfl

/-- unqualified, target in the host's sheet, and no other table of that SHEET offers a candidate -/
theorem resolveWith_none_sheet {doc : Doc} (h : NamesOK doc) {hs : Sheet} {host target : Table}
    (hhs : hs ∈ doc) (hht : host ∈ hs.tables) (htt : target ∈ hs.tables) {x : β}
    (hx : f target = [x]) (honly : ∀ t ∈ hs.tables, t ≠ target → f t = []) :
    resolveWith f doc host.id .none = some x := by
  by_cases hte : host = target
  · subst hte; exact resolveWith_none_host f h hhs hht hx
  · rw [resolveWith_none_levels f h hhs hht, honly host hht hte, firstUnique_nil_cons,
      flatMap_eq_of_others_nil f _ target (sheet_tables_nodup h hhs) htt honly, hx]
    rfl

/-- `T::…`, target in the host's sheet -/
theorem resolveWith_table_same {doc : Doc} (h : NamesOK doc) {hs : Sheet} {host target : Table}
    (hhs : hs ∈ doc) (hht : host ∈ hs.tables) (htt : target ∈ hs.tables) {x : β} (hx : f target = [x]) :
    resolveWith f doc host.id (.table target.name) = some x := by
  simp only [resolveWith, hostSheetTables_eq h hhs hht, named_sheet_eq h hhs htt, firstUnique_single_cons, hx]

/-- `T::…`, target on another sheet, table name unique in the document -/
theorem resolveWith_table_unique {doc : Doc} (h : NamesOK doc) {hs ts : Sheet} {host target : Table}
    (hhs : hs ∈ doc) (hht : host ∈ hs.tables) (hts : ts ∈ doc) (htt : target ∈ ts.tables)
    (hne : hs.id ≠ ts.id) (hu : (tableNames doc).count target.name = 1) {x : β} (hx : f target = [x]) :
    resolveWith f doc host.id (.table target.name) = some x := by
  have hall := named_all_unique hts htt hu
  have hnil : named hs.tables target.name = [] := by
    apply List.filter_eq_nil_iff.2
    intro t ht hn
    have hn' : t.name = target.name := by simpa using hn
    have : t ∈ named (allTables doc) target.name := by
      simp [named, List.mem_filter, mem_allTables hhs ht, hn']
    rw [hall] at this
    have hte : t = target := by simpa using this
    exact not_mem_other_sheet h hhs hts htt hne t ht (by rw [hte])
  simp only [resolveWith, hostSheetTables_eq h hhs hht, hnil, firstUnique_nil_cons, hall,
    firstUnique_single_cons, hx]

/-- `S::T::…` -/
theorem resolveWith_sheetTable {doc : Doc} (h : NamesOK doc) {ts : Sheet} {target : Table}
    (hts : ts ∈ doc) (htt : target ∈ ts.tables) (host : Nat) {x : β} (hx : f target = [x]) :
    resolveWith f doc host (.sheetTable ts.name target.name) = some x := by
  have h1 : doc.filter (fun sh => decide (sh.name = ts.name)) = [ts] :=
    filter_key_of_nodup (fun s : Sheet => s.name) doc ts hts h.sheetNames
  simp only [resolveWith, h1, named_sheet_eq h hts htt, hx, firstUnique_single_cons]

end generic


/-! ### the name-scope model (`_calculate_name_scopes`), totalised on well-formed tables -/

/-- the label of row / column `i` (empty beyond the list; never consulted there on well-formed tables) -/
def lab (labels : List Text) (i : Nat) : Text := labels.getD i []

theorem labelAt_ok {labels : List Text} {i : Nat} (h : i < labels.length) :
    labelAt labels i = .ok (lab labels i) := by
  simp [labelAt, lab, List.getD, List.getElem?_eq_getElem h]

theorem getElem?_lab {labels : List Text} {i : Nat} (h : i < labels.length) :
    labels[i]? = some (lab labels i) := by
  simp [lab, List.getD, List.getElem?_eq_getElem h]

theorem mapM_ok {α β : Type} (f : α → PyM β) (g : α → β) :
    ∀ l : List α, (∀ x ∈ l, f x = .ok (g x)) → l.mapM f = .ok (l.map g)
  | [], _ => rfl
  | a :: l, h => by
    rw [List.mapM_cons, h a (by simp), mapM_ok f g l (fun x hx => h x (List.mem_cons_of_mem _ hx))]
    rfl

/-- what the loop of `_calculate_name_scopes` keeps for index `i` -/
def keepF (labels allNames : List Text) (first i : Nat) : Option Text :=
  if i < first then none
  else if (lab labels i).isEmpty then none
  else if allNames.count (lab labels i) > 1 then none
  else some (lab labels i)

theorem axisLoop_ok (labels allNames : List Text) (first : Nat) :
    ∀ idxs : List Nat, (∀ i ∈ idxs, i < labels.length) →
      ∃ nm, axisLoop false labels allNames first idxs = .ok (idxs.map (keepF labels allNames first), nm) ∧
        ∀ x : Text, nm.count (some x) = (idxs.map (keepF labels allNames first)).count (some x)
  | [], _ => ⟨[], rfl, fun _ => rfl⟩
  | i :: rest, hlen => by
    obtain ⟨nm', heq, hcnt⟩ := axisLoop_ok labels allNames first rest
      (fun j hj => hlen j (List.mem_cons_of_mem _ hj))
    have hi := hlen i (by simp)
    simp only [axisLoop, heq, bind, Except.bind, List.map_cons]
    by_cases hlt : i < first
    · refine ⟨none :: nm', by simp [hlt, keepF], fun x => ?_⟩
      simp [keepF, hlt, List.count_cons, hcnt x]
    · simp only [hlt, if_false, labelAt_ok hi, Bool.not_false, Bool.true_and]
      by_cases hemp : (lab labels i).isEmpty = true
      · refine ⟨nm', by simp [hlt, hemp, keepF], fun x => ?_⟩
        simp [keepF, hlt, hemp, List.count_cons, hcnt x]
      · by_cases hc : allNames.count (lab labels i) > 1
        · refine ⟨none :: nm', by simp [hlt, hemp, hc, keepF], fun x => ?_⟩
          simp [keepF, hlt, hemp, hc, List.count_cons, hcnt x]
        · refine ⟨some (lab labels i) :: nm', by simp [hlt, hemp, hc, keepF], fun x => ?_⟩
          simp [keepF, hlt, hemp, hc, List.count_cons, hcnt x]


/-- `[data_lookup(table_id, idx) for idx in range(first, n)]` -/
def ownT (labels : List Text) (first n : Nat) : List Text := ((List.range n).drop first).map (lab labels)

theorem labelsRange_ok {labels : List Text} {first n : Nat} (h : n ≤ labels.length) :
    labelsRange labels first n = .ok (ownT labels first n) := by
  unfold labelsRange ownT
  apply mapM_ok
  intro x hx
  have : x ∈ List.range n := List.mem_of_mem_drop hx
  exact labelAt_ok (by have := List.mem_range.1 this; omega)

def allNamesT (labels : List Text) (first n : Nat) (otherLabels : List Text) (otherFirst otherEnd : Nat) :
    List Text :=
  ownT labels first n ++ (if first > 0 then ownT otherLabels otherFirst otherEnd else [])

/-- the `scopes` dict `_calculate_name_scopes` returns for one axis -/
def scT (labels : List Text) (first n thisHeader : Nat) (otherLabels : List Text) (otherFirst otherEnd : Nat) :
    List (Option Text) :=
  if thisHeader = 0 then List.replicate n none
  else (List.range n).map (keepF labels (allNamesT labels first n otherLabels otherFirst otherEnd) first)

theorem axisScopes_ok {labels : List Text} {first n thisHeader : Nat} {otherLabels : List Text}
    {otherFirst otherEnd : Nat} (h1 : n ≤ labels.length) (h2 : otherEnd ≤ otherLabels.length) :
    ∃ nm, axisScopes false labels first n thisHeader otherLabels otherFirst otherEnd =
        .ok (scT labels first n thisHeader otherLabels otherFirst otherEnd, nm) ∧
      ∀ x : Text, nm.count (some x) =
        (scT labels first n thisHeader otherLabels otherFirst otherEnd).count (some x) := by
  unfold axisScopes scT
  by_cases h0 : thisHeader = 0
  · refine ⟨[], by simp [h0], fun x => ?_⟩
    simp [h0, List.count_replicate]
  · simp only [h0, if_false, labelsRange_ok h1, bind, Except.bind]
    have hidx : ∀ i ∈ List.range n, i < labels.length := fun i hi => by
      have := List.mem_range.1 hi; omega
    by_cases hf : first > 0
    · obtain ⟨nm, heq, hcnt⟩ := axisLoop_ok labels
        (ownT labels first n ++ ownT otherLabels otherFirst otherEnd) first (List.range n) hidx
      refine ⟨nm, ?_, ?_⟩
      · simp only [Bool.not_false, Bool.true_and, hf, decide_true, if_true, labelsRange_ok h2, bind,
          Except.bind, pure, Except.pure, allNamesT]
        exact heq
      · simpa [allNamesT, hf] using hcnt
    · obtain ⟨nm, heq, hcnt⟩ := axisLoop_ok labels (ownT labels first n) first (List.range n) hidx
      refine ⟨nm, ?_, ?_⟩
      · simp only [Bool.not_false, Bool.true_and, hf, decide_false, Bool.false_eq_true, if_false, pure,
          Except.pure, allNamesT, List.append_nil]
        exact heq
      · simpa [allNamesT, hf] using hcnt


/-! ### header cells of well-formed tables; names kept by the model = names of the spec -/

/-- label lists cover the table (what the harness / the real `_table_data` guarantee) -/
structure WFTable (t : Table) : Prop where
  rows : t.nRows ≤ t.rowLabels.length
  cols : t.nCols ≤ t.colLabels.length

theorem drop_range_eq_filter (a : Nat) : ∀ n : Nat, (List.range n).drop a = (List.range n).filter (a ≤ ·)
  | 0 => by simp
  | n + 1 => by
    rw [List.range_succ, List.drop_append, List.filter_append, drop_range_eq_filter a n, List.length_range]
    congr 1
    by_cases h : a ≤ n
    · have : a - n = 0 := by omega
      simp [this, h]
    · have : a - n = (a - n - 1) + 1 := by omega
      rw [this]
      simp [h]

def axCells (ax : Axis) (labels : List Text) (first n : Nat) : List (Axis × Nat × Text) :=
  ((List.range n).filter (first ≤ ·)).map (fun i => (ax, i, lab labels i))

theorem axCells_texts (ax : Axis) (labels : List Text) (first n : Nat) :
    (axCells ax labels first n).map (·.2.2) = ownT labels first n := by
  simp [axCells, ownT, drop_range_eq_filter, List.map_map, Function.comp_def]

theorem filterMap_labels (ax : Axis) {labels : List Text} {first n : Nat} (h : n ≤ labels.length) :
    ((List.range n).filter (first ≤ ·)).filterMap (fun r => labels[r]?.map (fun l => (ax, r, l))) =
      axCells ax labels first n := by
  unfold axCells
  rw [← List.filterMap_eq_map]
  apply List.filterMap_congr
  intro r hr
  have hr' : r < n := List.mem_range.1 (List.mem_of_mem_filter hr)
  rw [getElem?_lab (by omega)]
  rfl

theorem headerCells_wf {t : Table} (hw : WFTable t) :
    headerCells t =
      (if t.nHeaderCols = 0 then [] else axCells .row t.rowLabels t.nHeaderRows t.nRows) ++
      (if t.nHeaderRows = 0 then [] else axCells .col t.colLabels t.nHeaderCols t.nCols) := by
  unfold headerCells
  rw [filterMap_labels .row hw.rows, filterMap_labels .col hw.cols]

/-- the texts shown by the header cells of `t` -/
def texts (t : Table) : List Text := (headerCells t).map (·.2.2)

theorem texts_wf {t : Table} (hw : WFTable t) :
    texts t = (if t.nHeaderCols = 0 then [] else ownT t.rowLabels t.nHeaderRows t.nRows) ++
      (if t.nHeaderRows = 0 then [] else ownT t.colLabels t.nHeaderCols t.nCols) := by
  unfold texts
  rw [headerCells_wf hw, List.map_append]
  congr 1
  · split <;> simp [axCells_texts]
  · split <;> simp [axCells_texts]

theorem count_allNames_row {t : Table} (hw : WFTable t) (hc : t.nHeaderCols ≠ 0) (x : Text) :
    (allNamesT t.rowLabels t.nHeaderRows t.nRows t.colLabels t.nHeaderCols t.nCols).count x = (texts t).count x := by
  rw [texts_wf hw, allNamesT]
  by_cases hr : t.nHeaderRows = 0
  · simp [hc, hr]
  · have : t.nHeaderRows > 0 := by omega
    simp [hc, hr, this]

theorem count_allNames_col {t : Table} (hw : WFTable t) (hr : t.nHeaderRows ≠ 0) (x : Text) :
    (allNamesT t.colLabels t.nHeaderCols t.nCols t.rowLabels t.nHeaderRows t.nRows).count x = (texts t).count x := by
  rw [texts_wf hw, allNamesT]
  by_cases hc : t.nHeaderCols = 0
  · simp [hc, hr]
  · have : t.nHeaderCols > 0 := by omega
    simp [hc, hr, this, List.count_append, Nat.add_comm]

theorem keepF_eq_some_iff (labels allNames : List Text) (first i : Nat) (x : Text) :
    keepF labels allNames first i = some x ↔
      first ≤ i ∧ lab labels i = x ∧ x ≠ [] ∧ allNames.count x ≤ 1 := by
  unfold keepF
  by_cases h1 : i < first
  · simp [h1]
  · by_cases h2 : (lab labels i).isEmpty = true
    · have : lab labels i = [] := List.isEmpty_iff.1 h2
      simp [h1, h2, this]
      intro _ h3 h4; exact absurd h3 h4
    · have hne : lab labels i ≠ [] := fun e => h2 (by rw [e]; rfl)
      by_cases h3 : allNames.count (lab labels i) > 1
      · simp [h1, h2, h3]
        intro _ h4 _; rw [← h4]; omega
      · simp only [h1, h2, h3, if_false, Bool.false_eq_true, Option.some.injEq]
        constructor
        · intro h; subst h; exact ⟨by omega, rfl, hne, by omega⟩
        · intro h; exact h.2.1

theorem filter_length_eq_count {α β : Type} [BEq β] [LawfulBEq β] [DecidableEq β] (g : α → β) (x : β) :
    ∀ l : List α, (l.filter (fun c => g c = x)).length = (l.map g).count x
  | [] => rfl
  | a :: l => by
    by_cases h : g a = x
    · simp [List.filter_cons, h, filter_length_eq_count g x l]
    · have : (g a == x) = false := beq_eq_false_iff_ne.2 h
      simp [List.filter_cons, h, List.count_cons, this, filter_length_eq_count g x l]

theorem eq_singleton_of_mem_of_length_le_one {α : Type} {l : List α} {a : α} (hm : a ∈ l) (hl : l.length ≤ 1) :
    l = [a] := by
  match l, hm, hl with
  | [b], hm, _ => simp at hm; rw [hm]
  | _ :: _ :: _, _, hl => simp at hl


def rowSc (t : Table) : List (Option Text) :=
  scT t.rowLabels t.nHeaderRows t.nRows t.nHeaderCols t.colLabels t.nHeaderCols t.nCols
def colSc (t : Table) : List (Option Text) :=
  scT t.colLabels t.nHeaderCols t.nCols t.nHeaderRows t.rowLabels t.nHeaderRows t.nRows

/-- `scopes[i]` is the name `x` -/
theorem scT_getElem_some {labels : List Text} {first n th : Nat} {ol : List Text} {of oe : Nat} {i : Nat}
    {x : Text} (h : (scT labels first n th ol of oe)[i]? = some (some x)) :
    i < n ∧ th ≠ 0 ∧ keepF labels (allNamesT labels first n ol of oe) first i = some x := by
  unfold scT at h
  by_cases h0 : th = 0
  · simp only [h0, if_true] at h
    rw [List.getElem?_replicate] at h
    split at h <;> simp at h
  · simp only [h0, if_false, List.getElem?_map] at h
    by_cases hi : i < n
    · rw [List.getElem?_range hi] at h
      simp only [Option.map_some, Option.some.injEq] at h
      exact ⟨hi, h0, h⟩
    · have : (List.range n)[i]? = none := by simp; omega
      rw [this] at h; simp at h

theorem scT_getElem_none {labels : List Text} {first n th : Nat} {ol : List Text} {of oe : Nat} {i : Nat}
    (hi : i < n) : ∃ o, (scT labels first n th ol of oe)[i]? = some o := by
  unfold scT
  by_cases h0 : th = 0
  · exact ⟨none, by simp [h0, List.getElem?_replicate, hi]⟩
  · exact ⟨keepF labels (allNamesT labels first n ol of oe) first i,
      by simp only [h0, if_false, List.getElem?_map, List.getElem?_range hi, Option.map_some]⟩

theorem scT_length (labels : List Text) (first n th : Nat) (ol : List Text) (of oe : Nat) :
    (scT labels first n th ol of oe).length = n := by
  unfold scT; split <;> simp

/-- P1 (rows): a name the model keeps for row `i` is, in the spec's reading, the name of exactly that row -/
theorem labelHits_of_kept_row {t : Table} (hw : WFTable t) {i : Nat} {x : Text}
    (h : (rowSc t)[i]? = some (some x)) : labelHits t x = [(t.id, Axis.row, i)] := by
  obtain ⟨hi, hc, hk⟩ := scT_getElem_some h
  obtain ⟨h1, h2, h3, h4⟩ := (keepF_eq_some_iff _ _ _ _ _).1 hk
  rw [count_allNames_row hw hc] at h4
  have hmem : (Axis.row, i, x) ∈ (headerCells t).filter (fun c => c.2.2 = x) := by
    rw [List.mem_filter, headerCells_wf hw]
    refine ⟨List.mem_append_left _ ?_, by simp⟩
    simp only [hc, if_false, axCells, List.mem_map, List.mem_filter, List.mem_range, decide_eq_true_eq]
    exact ⟨i, ⟨hi, h1⟩, by rw [h2]⟩
  have hlen : ((headerCells t).filter (fun c => c.2.2 = x)).length ≤ 1 := by
    rw [filter_length_eq_count (fun c : Axis × Nat × Text => c.2.2) x]; exact h4
  have := eq_singleton_of_mem_of_length_le_one hmem hlen
  simp only [labelHits, h3, if_false, this]

theorem labelHits_of_kept_col {t : Table} (hw : WFTable t) {i : Nat} {x : Text}
    (h : (colSc t)[i]? = some (some x)) : labelHits t x = [(t.id, Axis.col, i)] := by
  obtain ⟨hi, hc, hk⟩ := scT_getElem_some h
  obtain ⟨h1, h2, h3, h4⟩ := (keepF_eq_some_iff _ _ _ _ _).1 hk
  rw [count_allNames_col hw hc] at h4
  have hmem : (Axis.col, i, x) ∈ (headerCells t).filter (fun c => c.2.2 = x) := by
    rw [List.mem_filter, headerCells_wf hw]
    refine ⟨List.mem_append_right _ ?_, by simp⟩
    simp only [hc, if_false, axCells, List.mem_map, List.mem_filter, List.mem_range, decide_eq_true_eq]
    exact ⟨i, ⟨hi, h1⟩, by rw [h2]⟩
  have hlen : ((headerCells t).filter (fun c => c.2.2 = x)).length ≤ 1 := by
    rw [filter_length_eq_count (fun c : Axis × Nat × Text => c.2.2) x]; exact h4
  have := eq_singleton_of_mem_of_length_le_one hmem hlen
  simp only [labelHits, h3, if_false, this]

/-- how often the model keeps `x` on one axis = how many of that axis' header cells show `x`, provided `x`
    is non-empty and shown at most once among the counted texts; otherwise never -/
theorem count_kept_axis (ax : Axis) (labels allNames : List Text) (first : Nat) (x : Text) :
    ∀ l : List Nat, (l.map (keepF labels allNames first)).count (some x) =
      if x ≠ [] ∧ allNames.count x ≤ 1 then
        (((l.filter (first ≤ ·)).map (fun i => (ax, i, lab labels i))).filter (fun c => c.2.2 = x)).length
      else 0
  | [] => by simp
  | i :: l => by
    rw [List.map_cons, List.count_cons, count_kept_axis ax labels allNames first x l]
    by_cases hc : x ≠ [] ∧ allNames.count x ≤ 1
    · simp only [if_pos hc]
      by_cases h1 : first ≤ i
      · by_cases h2 : lab labels i = x
        · have : keepF labels allNames first i = some x :=
            (keepF_eq_some_iff _ _ _ _ _).2 ⟨h1, h2, hc.1, hc.2⟩
          simp [List.filter_cons, h1, h2, this]
        · have : keepF labels allNames first i ≠ some x := fun e =>
            h2 ((keepF_eq_some_iff _ _ _ _ _).1 e).2.1
          have hb : (keepF labels allNames first i == some x) = false := beq_eq_false_iff_ne.2 this
          simp [List.filter_cons, h1, h2, hb]
      · have : keepF labels allNames first i ≠ some x := fun e =>
          h1 ((keepF_eq_some_iff _ _ _ _ _).1 e).1
        have hb : (keepF labels allNames first i == some x) = false := beq_eq_false_iff_ne.2 this
        simp [List.filter_cons, h1, hb]
    · have : keepF labels allNames first i ≠ some x := fun e =>
        hc ⟨((keepF_eq_some_iff _ _ _ _ _).1 e).2.2.1, ((keepF_eq_some_iff _ _ _ _ _).1 e).2.2.2⟩
      have hb : (keepF labels allNames first i == some x) = false := beq_eq_false_iff_ne.2 this
      simp only [if_neg hc, hb, Bool.false_eq_true, if_false]

theorem count_scT (ax : Axis) (labels : List Text) (first n th : Nat) (ol : List Text) (of oe : Nat) (x : Text) :
    (scT labels first n th ol of oe).count (some x) =
      if x ≠ [] ∧ (allNamesT labels first n ol of oe).count x ≤ 1 then
        ((if th = 0 then [] else axCells ax labels first n).filter (fun c => c.2.2 = x)).length
      else 0 := by
  unfold scT
  by_cases h0 : th = 0
  · simp [h0, List.count_replicate]
  · simp only [h0, if_false]
    exact count_kept_axis ax labels _ first x (List.range n)

theorem labelHits_length (t : Table) (x : Text) :
    (labelHits t x).length =
      if x ≠ [] ∧ ((headerCells t).filter (fun c => c.2.2 = x)).length = 1 then 1 else 0 := by
  unfold labelHits
  by_cases hx : x = []
  · simp [hx]
  · simp only [hx, if_false, ne_eq, not_false_eq_true, true_and]
    generalize (headerCells t).filter (fun c => c.2.2 = x) = C
    cases C with
    | nil => simp
    | cons a C' => cases C' <;> simp

/-- P2: the number of times table `t` contributes `x` to the model's counters = the number of header cells
    of `t` that `x` denotes in the spec's reading (0 or 1) -/
theorem count_kept_table {t : Table} (hw : WFTable t) (x : Text) :
    (rowSc t).count (some x) + (colSc t).count (some x) = (labelHits t x).length := by
  unfold rowSc colSc
  rw [count_scT .row, count_scT .col, labelHits_length]
  have hC : ((headerCells t).filter (fun c => c.2.2 = x)).length = (texts t).count x :=
    filter_length_eq_count (fun c : Axis × Nat × Text => c.2.2) x _
  have hsplit : (texts t).count x =
      ((if t.nHeaderCols = 0 then [] else axCells .row t.rowLabels t.nHeaderRows t.nRows).filter
          (fun c => c.2.2 = x)).length +
      ((if t.nHeaderRows = 0 then [] else axCells .col t.colLabels t.nHeaderCols t.nCols).filter
          (fun c => c.2.2 = x)).length := by
    rw [← hC, headerCells_wf hw, List.filter_append, List.length_append]
  rw [hC]
  by_cases hx : x = []
  · simp [hx]
  · have hR : (if x ≠ [] ∧ (allNamesT t.rowLabels t.nHeaderRows t.nRows t.colLabels t.nHeaderCols
          t.nCols).count x ≤ 1 then
          ((if t.nHeaderCols = 0 then [] else axCells .row t.rowLabels t.nHeaderRows t.nRows).filter
            (fun c => c.2.2 = x)).length else 0) =
        if (texts t).count x ≤ 1 then
          ((if t.nHeaderCols = 0 then [] else axCells .row t.rowLabels t.nHeaderRows t.nRows).filter
            (fun c => c.2.2 = x)).length else 0 := by
      by_cases hc0 : t.nHeaderCols = 0
      · simp [hc0]
      · rw [count_allNames_row hw hc0]; simp [hx]
    have hCc : (if x ≠ [] ∧ (allNamesT t.colLabels t.nHeaderCols t.nCols t.rowLabels t.nHeaderRows
          t.nRows).count x ≤ 1 then
          ((if t.nHeaderRows = 0 then [] else axCells .col t.colLabels t.nHeaderCols t.nCols).filter
            (fun c => c.2.2 = x)).length else 0) =
        if (texts t).count x ≤ 1 then
          ((if t.nHeaderRows = 0 then [] else axCells .col t.colLabels t.nHeaderCols t.nCols).filter
            (fun c => c.2.2 = x)).length else 0 := by
      by_cases hr0 : t.nHeaderRows = 0
      · simp [hr0]
      · rw [count_allNames_col hw hr0]; simp [hx]
    rw [hR, hCc]
    generalize ((if t.nHeaderCols = 0 then [] else axCells .row t.rowLabels t.nHeaderRows t.nRows).filter
          (fun c => c.2.2 = x)).length = R at hsplit ⊢
    generalize ((if t.nHeaderRows = 0 then [] else axCells .col t.colLabels t.nHeaderCols t.nCols).filter
          (fun c => c.2.2 = x)).length = Cc at hsplit ⊢
    generalize (texts t).count x = T at hsplit ⊢
    simp only [ne_eq, hx, not_false_eq_true, true_and]
    split <;> split <;> omega


/-! ### `calculate_named_ranges` on well-formed documents -/

/-- total `tableAxisNames` -/
def tnT (sid : Nat) (t : Table) : TableNames :=
  match tableAxisNames false sid t with
  | .ok tn => tn
  | .error _ => default

theorem tableAxisNames_ok {t : Table} (hw : WFTable t) (sid : Nat) :
    tableAxisNames false sid t = .ok (tnT sid t) ∧ (tnT sid t).sheet = sid ∧ (tnT sid t).table = t ∧
    (tnT sid t).rowScopes = rowSc t ∧ (tnT sid t).colScopes = colSc t ∧
    ∀ x : Text, (tnT sid t).counted.count (some x) = (labelHits t x).length := by
  obtain ⟨rn, h1, c1⟩ := axisScopes_ok (labels := t.rowLabels) (first := t.nHeaderRows) (n := t.nRows)
    (thisHeader := t.nHeaderCols) (otherLabels := t.colLabels) (otherFirst := t.nHeaderCols)
    (otherEnd := t.nCols) hw.rows hw.cols
  obtain ⟨cn, h2, c2⟩ := axisScopes_ok (labels := t.colLabels) (first := t.nHeaderCols) (n := t.nCols)
    (thisHeader := t.nHeaderRows) (otherLabels := t.rowLabels) (otherFirst := t.nHeaderRows)
    (otherEnd := t.nRows) hw.cols hw.rows
  have hok : tableAxisNames false sid t =
      .ok { sheet := sid, table := t, rowScopes := rowSc t, colScopes := colSc t, counted := rn ++ cn } := by
    simp only [tableAxisNames, h1, h2, bind, Except.bind, rowSc, colSc]
  have htn : tnT sid t =
      { sheet := sid, table := t, rowScopes := rowSc t, colScopes := colSc t, counted := rn ++ cn } := by
    simp only [tnT, hok]
  refine ⟨by rw [hok, htn], by rw [htn], by rw [htn], by rw [htn], by rw [htn], fun x => ?_⟩
  rw [htn, ← count_kept_table hw x]
  simp only [List.count_append, c1 x, c2 x, rowSc, colSc]

/-- the documents the property quantifies over: `NamesOK` + label lists covering every table -/
structure WellFormedDoc (doc : Doc) : Prop extends NamesOK doc where
  tables : ∀ t ∈ allTables doc, WFTable t

theorem WellFormedDoc.flat_wf {doc : Doc} (h : WellFormedDoc doc) : ∀ p ∈ flat doc, WFTable p.2 := by
  intro p hp
  apply h.tables
  rw [allTables_eq]
  exact List.mem_map_of_mem hp

def tnsT (doc : Doc) : List TableNames := (flat doc).map (fun p => tnT p.1 p.2)
def docNamesT (doc : Doc) : List (Option Text) := (tnsT doc).flatMap (·.counted)
def sheetNamesT (doc : Doc) (sid : Nat) : List (Option Text) :=
  ((tnsT doc).filter (fun x => x.sheet = sid)).flatMap (·.counted)

def tagT (doc : Doc) (sid : Nat) (tname : Text) (o : Option Text) : Option ScopedRef :=
  o.map (fun n => ({ name := n, scope := scopeOf (docNamesT doc) (sheetNamesT doc sid) (tableNames doc) tname n } :
    ScopedRef))

def mkCacheT (doc : Doc) (tn : TableNames) : TableCache :=
  { tid := tn.table.id, rows := tn.rowScopes.map (tagT doc tn.sheet tn.table.name),
    cols := tn.colScopes.map (tagT doc tn.sheet tn.table.name) }

theorem nameCache_ok {doc : Doc} (h : WellFormedDoc doc) :
    nameCache false doc = .ok ((tnsT doc).map (mkCacheT doc)) := by
  have hm : (flat doc).mapM (fun p => tableAxisNames false p.1 p.2) = .ok (tnsT doc) :=
    mapM_ok _ (fun p => tnT p.1 p.2) (flat doc) (fun p hp => (tableAxisNames_ok (h.flat_wf p hp) p.1).1)
  simp only [nameCache, hm, bind, Except.bind]
  rfl

theorem find?_congr' {α : Type} {p q : α → Bool} :
    ∀ {l : List α}, (∀ x ∈ l, p x = q x) → l.find? p = l.find? q
  | [], _ => rfl
  | a :: l, h => by
    simp only [List.find?_cons, h a (by simp)]
    rw [find?_congr' (fun x hx => h x (List.mem_cons_of_mem _ hx))]

theorem cacheOf_ok {doc : Doc} (h : WellFormedDoc doc) {ts : Sheet} {target : Table} (hts : ts ∈ doc)
    (htt : target ∈ ts.tables) :
    cacheOf ((tnsT doc).map (mkCacheT doc)) target.id =
      .ok { tid := target.id, rows := (rowSc target).map (tagT doc ts.id target.name),
            cols := (colSc target).map (tagT doc ts.id target.name) } := by
  have hfind : (flat doc).find? (fun p => decide ((tnT p.1 p.2).table.id = target.id)) =
      some (ts.id, target) := by
    have h1 : (flat doc).find? (fun p => decide ((tnT p.1 p.2).table.id = target.id)) =
        (flat doc).find? (fun p => decide (p.2.id = target.id)) := by
      apply find?_congr'
      intro p hp
      rw [(tableAxisNames_ok (h.flat_wf p hp) p.1).2.2.1]
    rw [h1]
    exact find_of_nodup_key (fun p : Nat × Table => p.2.id) (flat doc) (ts.id, target) (mem_flat hts htt)
      h.tableIds
  have hw : WFTable target := h.tables target (mem_allTables hts htt)
  obtain ⟨_, hs, ht, hr, hc, _⟩ := tableAxisNames_ok hw ts.id
  simp only [cacheOf, tnsT, List.map_map, List.find?_map, Function.comp_def, mkCacheT, hfind, Option.map_some,
    hs, ht, hr, hc]

theorem count_counted_flat {ps : List (Nat × Table)} (hw : ∀ p ∈ ps, WFTable p.2) (x : Text) :
    ((ps.map (fun p => tnT p.1 p.2)).flatMap (·.counted)).count (some x) =
      ((ps.map (·.2)).flatMap (fun t => labelHits t x)).length := by
  induction ps with
  | nil => rfl
  | cons p ps ih =>
    simp only [List.map_cons, List.flatMap_cons, List.count_append, List.length_append]
    rw [ih (fun q hq => hw q (List.mem_cons_of_mem _ hq)),
      (tableAxisNames_ok (hw p (by simp)) p.1).2.2.2.2.2 x]

theorem docNames_count {doc : Doc} (h : WellFormedDoc doc) (x : Text) :
    (docNamesT doc).count (some x) = ((allTables doc).flatMap (fun t => labelHits t x)).length := by
  unfold docNamesT tnsT
  rw [count_counted_flat h.flat_wf x, allTables_eq]

theorem sheetNames_count {doc : Doc} (h : WellFormedDoc doc) {ts : Sheet} (hts : ts ∈ doc) (x : Text) :
    (sheetNamesT doc ts.id).count (some x) = (ts.tables.flatMap (fun t => labelHits t x)).length := by
  unfold sheetNamesT tnsT
  have h1 : ((flat doc).map (fun p => tnT p.1 p.2)).filter (fun y => decide (y.sheet = ts.id)) =
      ((flat doc).filter (fun p => decide (p.1 = ts.id))).map (fun p => tnT p.1 p.2) := by
    rw [List.filter_map]
    congr 1
    apply List.filter_congr
    intro p hp
    simp only [Function.comp_def, (tableAxisNames_ok (h.flat_wf p hp) p.1).2.1]
  have h2 : (flat doc).filter (fun p => decide (p.1 = ts.id)) = ts.tables.map (fun t => (ts.id, t)) := by
    have := flat_filter_sheet doc h.sheetIds ts hts (fun _ => true)
    simpa using this
  rw [h1, h2, count_counted_flat _ x]
  · simp [List.map_map, Function.comp_def]
  · intro p hp
    obtain ⟨t, ht, rfl⟩ := List.mem_map.1 hp
    exact h.tables t (mem_allTables hts ht)


/-! ### what the model knows about a kept name, in the spec's terms -/

def hitsIn (ts : List Table) (x : Text) : List Target := ts.flatMap (fun t => labelHits t x)

/-- `s` is the cache entry of row / column `i` (axis `ax`) of `target` (on sheet `ts`) -/
structure ScopeFacts (doc : Doc) (ts : Sheet) (target : Table) (ax : Axis) (i : Nat) (s : ScopedRef) : Prop where
  hit : labelHits target s.name = [(target.id, ax, i)]
  scope : s.scope =
    if (hitsIn (allTables doc) s.name).length = 1 then .document
    else if (hitsIn ts.tables s.name).length = 1 then .sheet
    else if (tableNames doc).count target.name = 1 then .table
    else .none

theorem rangeAt_nat_some {l : List (Option ScopedRef)} {i : Nat} {x : Option ScopedRef} (h : l[i]? = some x) :
    rangeAt l (i : Int) = .ok x := by
  have : ¬ ((i : Int) < 0) := by omega
  simp [rangeAt, this, h]

theorem rangeAt_nat_none {l : List (Option ScopedRef)} {i : Nat} (h : l[i]? = none) :
    rangeAt l (i : Int) = .error .KeyError := by
  have : ¬ ((i : Int) < 0) := by omega
  simp [rangeAt, this, h]

theorem rangeAt_map_some {sc : List (Option Text)} {tag : Option Text → Option ScopedRef} {i : Nat}
    {s : ScopedRef} (htag : tag none = none) (h : rangeAt (sc.map tag) (i : Int) = .ok (some s)) :
    ∃ x, sc[i]? = some (some x) ∧ tag (some x) = some s := by
  cases hsc : sc[i]? with
  | none =>
    rw [rangeAt_nat_none (by rw [List.getElem?_map, hsc]; rfl)] at h; simp at h
  | some o =>
    rw [rangeAt_nat_some (x := tag o) (by rw [List.getElem?_map, hsc]; rfl)] at h
    simp only [Except.ok.injEq] at h
    cases o with
    | none => rw [htag] at h; simp at h
    | some x => exact ⟨x, rfl, h⟩

theorem scopeFacts_of_tag {doc : Doc} (h : WellFormedDoc doc) {ts : Sheet} {target : Table} (hts : ts ∈ doc)
    {ax : Axis} {i : Nat} {x : Text} {s : ScopedRef}
    (hhit : labelHits target x = [(target.id, ax, i)]) (htag : tagT doc ts.id target.name (some x) = some s) :
    ScopeFacts doc ts target ax i s := by
  simp only [tagT, Option.map_some, Option.some.injEq] at htag
  subst htag
  refine ⟨hhit, ?_⟩
  simp only [scopeOf, docNames_count h, sheetNames_count h hts, hitsIn]
  rfl

theorem scopeFacts_row {doc : Doc} (h : WellFormedDoc doc) {ts : Sheet} {target : Table} (hts : ts ∈ doc)
    (htt : target ∈ ts.tables) {i : Nat} {s : ScopedRef}
    (hent : rangeAt ((rowSc target).map (tagT doc ts.id target.name)) (i : Int) = .ok (some s)) :
    ScopeFacts doc ts target .row i s := by
  obtain ⟨x, hx, htag⟩ := rangeAt_map_some rfl hent
  exact scopeFacts_of_tag h hts (labelHits_of_kept_row (h.tables target (mem_allTables hts htt)) hx) htag

theorem scopeFacts_col {doc : Doc} (h : WellFormedDoc doc) {ts : Sheet} {target : Table} (hts : ts ∈ doc)
    (htt : target ∈ ts.tables) {i : Nat} {s : ScopedRef}
    (hent : rangeAt ((colSc target).map (tagT doc ts.id target.name)) (i : Int) = .ok (some s)) :
    ScopeFacts doc ts target .col i s := by
  obtain ⟨x, hx, htag⟩ := rangeAt_map_some rfl hent
  exact scopeFacts_of_tag h hts (labelHits_of_kept_col (h.tables target (mem_allTables hts htt)) hx) htag

/-- every index inside the table has a cache entry (a name or `None`): `row_range[idx]` never raises there -/
theorem rangeAt_total {sc : List (Option Text)} {tag : Option Text → Option ScopedRef} {i : Nat}
    (hi : i < sc.length) : ∃ o, rangeAt (sc.map tag) (i : Int) = .ok o := by
  exact ⟨_, rangeAt_nat_some (by rw [List.getElem?_map, List.getElem?_eq_getElem hi]; rfl)⟩

namespace ScopeFacts
variable {doc : Doc} {ts : Sheet} {target : Table} {ax : Axis} {i : Nat} {s : ScopedRef}

theorem doc_iff (hf : ScopeFacts doc ts target ax i s) :
    s.scope = .document ↔ (hitsIn (allTables doc) s.name).length = 1 := by
  rw [hf.scope]; split <;> [skip; split <;> [skip; split]] <;> simp_all

theorem sheet_iff (hf : ScopeFacts doc ts target ax i s) :
    s.scope = .sheet ↔ (hitsIn (allTables doc) s.name).length ≠ 1 ∧ (hitsIn ts.tables s.name).length = 1 := by
  rw [hf.scope]; split <;> [skip; split <;> [skip; split]] <;> simp_all

theorem table_imp (hf : ScopeFacts doc ts target ax i s) (h : s.scope = .table) :
    (tableNames doc).count target.name = 1 := by
  rw [hf.scope] at h; split at h <;> [skip; split at h <;> [skip; split at h]] <;> simp_all

end ScopeFacts


/-! ### `expand_ref`'s choice, as a pure function of the naming facts -/

def prefixT (doc : Doc) (hs ts : Sheet) (host target : Table) (scope : Option Scope) (isAbs : Bool) : Prefix :=
  if host.id = target.id then .none
  else if hs.id = ts.id ∧ scope = some .sheet then (if isAbs then .table target.name else .none)
  else if hs.id = ts.id ∨ scope = some .table ∨ (tableNames doc).count target.name = 1 then .table target.name
  else .sheetTable ts.name target.name

theorem choosePrefix_eq {doc : Doc} (h : NamesOK doc) {hs ts : Sheet} {host target : Table}
    (hhs : hs ∈ doc) (hht : host ∈ hs.tables) (hts : ts ∈ doc) (htt : target ∈ ts.tables)
    (scope : Option Scope) (isAbs : Bool) :
    choosePrefix doc host.id target.id scope isAbs = .ok (prefixT doc hs ts host target scope isAbs) := by
  unfold choosePrefix prefixT
  by_cases heq : host.id = target.id
  · simp [heq]
  · simp only [heq, if_false, findTable_of_mem h hts htt, sheetOf_of_mem h hhs hht, sheetOf_of_mem h hts htt,
      bind, Except.bind, sheetNameText_of_mem h hts]
    by_cases hsame : hs.id = ts.id
    · by_cases hsc : scope = some .sheet
      · cases isAbs <;> simp [hsame, hsc]
      · simp [hsame, hsc]
    · by_cases htu : scope = some .table ∨ (tableNames doc).count target.name = 1
      · simp [hsame, htu]
      · simp [hsame, htu]

theorem expandScoped_eq {doc : Doc} (h : NamesOK doc) {hs ts : Sheet} {host target : Table}
    (hhs : hs ∈ doc) (hht : host ∈ hs.tables) (hts : ts ∈ doc) (htt : target ∈ ts.tables)
    (cr : CellRange) (hfrom : cr.fromTable = host.id) (hto : cr.toTable = target.id)
    (s : ScopedRef) (isAbs noPrefix : Bool) :
    expandScoped doc cr s isAbs noPrefix =
      .ok (renderPrefix (if noPrefix = true ∨ s.scope = .document then Prefix.none
                         else prefixT doc hs ts host target (some s.scope) isAbs) ++
           quoteRef ((if isAbs then ['$'] else []) ++ s.name)) := by
  unfold expandScoped expandRef
  by_cases hc : noPrefix = true ∨ s.scope = .document
  · have : (noPrefix = true ∨ some s.scope = some Scope.document) := by simpa using hc
    simp [hc, this, renderPrefix]
  · have : ¬ (noPrefix = true ∨ some s.scope = some Scope.document) := by simpa using hc
    simp only [this, hc, if_false, hfrom, hto, choosePrefix_eq h hhs hht hts htt, bind, Except.bind]


/-! ### soundness of the printed qualification, for any reader `f` that needs the name `s.name` -/

section sound
variable {β : Type} (f : Table → List β)
variable {doc : Doc} {hs ts : Sheet} {host target : Table}

/-- printed bare because some name it contains is unique in the document -/
theorem resolve_bare_document (h : WellFormedDoc doc) (hhs : hs ∈ doc) (hht : host ∈ hs.tables)
    (hts : ts ∈ doc) (htt : target ∈ ts.tables) {ax : Axis} {i : Nat} {r : ScopedRef}
    (hf : ScopeFacts doc ts target ax i r) (hdoc : r.scope = .document)
    (hnil : ∀ t, labelHits t r.name = [] → f t = []) {x : β} (hx : f target = [x]) :
    resolveWith f doc host.id .none = some x := by
  apply resolveWith_none_doc f h.toNamesOK hhs hht hts htt hx
  intro t ht hne
  apply hnil
  exact others_nil_of_length_one (fun t => labelHits t r.name) (allTables doc) target (mem_allTables hts htt)
    (by rw [hf.hit]; simp) (hf.doc_iff.1 hdoc) t ht hne

/-- the qualification `expand_ref` chooses from the scope of `s` -/
theorem resolve_prefixT (h : WellFormedDoc doc) (hhs : hs ∈ doc) (hht : host ∈ hs.tables)
    (hts : ts ∈ doc) (htt : target ∈ ts.tables) {ax : Axis} {i : Nat} {s : ScopedRef}
    (hf : ScopeFacts doc ts target ax i s)
    (hnil : ∀ t, labelHits t s.name = [] → f t = []) {x : β} (hx : f target = [x]) (isAbs : Bool) :
    resolveWith f doc host.id (prefixT doc hs ts host target (some s.scope) isAbs) = some x := by
  have hn := h.toNamesOK
  unfold prefixT
  by_cases heq : host.id = target.id
  · have : host = target := table_eq_of_id hn (mem_allTables hhs hht) (mem_allTables hts htt) heq
    subst this
    simp only [heq, if_true]
    exact resolveWith_none_host f hn hhs hht hx
  · simp only [heq, if_false]
    by_cases hsame : hs.id = ts.id
    · have : hs = ts := sheet_eq_of_id hn hhs hts hsame
      subst this
      by_cases hsc : s.scope = .sheet
      · cases isAbs
        · simp only [hsc, and_self, if_true, Bool.false_eq_true, if_false]
          apply resolveWith_none_sheet f hn hhs hht htt hx
          intro t ht hne
          apply hnil
          exact others_nil_of_length_one (fun t => labelHits t s.name) hs.tables target htt
            (by rw [hf.hit]; simp) (hf.sheet_iff.1 hsc).2 t ht hne
        · simp only [hsc, and_self, if_true]
          exact resolveWith_table_same f hn hhs hht htt hx
      · have : ¬ (True ∧ some s.scope = some Scope.sheet) := by simp [hsc]
        simp only [this, if_false, true_or, if_true]
        exact resolveWith_table_same f hn hhs hht htt hx
    · have h1 : ¬ (hs.id = ts.id ∧ some s.scope = some Scope.sheet) := by simp [hsame]
      simp only [h1, if_false, hsame, false_or]
      by_cases htu : some s.scope = some Scope.table ∨ (tableNames doc).count target.name = 1
      · simp only [htu, if_true]
        have hcnt : (tableNames doc).count target.name = 1 := by
          rcases htu with h2 | h2
          · exact hf.table_imp (by simpa using h2)
          · exact h2
        exact resolveWith_table_unique f hn hhs hht hts htt hsame hcnt hx
      · simp only [htu, if_false]
        exact resolveWith_sheetTable f hn hts htt host.id hx

end sound

theorem spanHits_nil_left {t : Table} {a : Text} (b : Text) (h : labelHits t a = []) : spanHits t a b = [] := by
  simp [spanHits, h]

theorem spanHits_nil_right {t : Table} (a : Text) {b : Text} (h : labelHits t b = []) : spanHits t a b = [] := by
  unfold spanHits; rw [h]
  cases labelHits t a with
  | nil => rfl
  | cons x l => cases l <;> rfl

theorem spanHits_of_hits {t : Table} {a b : Text} {x y : Target} (ha : labelHits t a = [x])
    (hb : labelHits t b = [y]) : spanHits t a b = [(x, y)] := by
  simp [spanHits, ha, hb]


/-- the qualification printed in front of an A1 / numeric reference denotes the stored table -/
theorem resolveQual_prefixT_plain {doc : Doc} (h : NamesOK doc) {hs ts : Sheet} {host target : Table}
    (hhs : hs ∈ doc) (hht : host ∈ hs.tables) (hts : ts ∈ doc) (htt : target ∈ ts.tables) (isAbs : Bool) :
    resolveQual doc host.id (prefixT doc hs ts host target none isAbs) = some target.id := by
  unfold resolveQual prefixT
  by_cases heq : host.id = target.id
  · have : host = target := table_eq_of_id h (mem_allTables hhs hht) (mem_allTables hts htt) heq
    subst this
    simp only [if_true]
    exact resolveWith_none_host _ h hhs hht rfl
  · have h1 : ¬ (hs.id = ts.id ∧ (none : Option Scope) = some Scope.sheet) := by simp
    simp only [heq, h1, if_false]
    by_cases hsame : hs.id = ts.id
    · have : hs = ts := sheet_eq_of_id h hhs hts hsame
      subst this
      simp only [true_or, if_true]
      exact resolveWith_table_same _ h hhs hht htt rfl
    · by_cases hu : (tableNames doc).count target.name = 1
      · simp only [hu, or_true, if_true]
        exact resolveWith_table_unique _ h hhs hht hts htt hsame hu rfl
      · have : ¬ (hs.id = ts.id ∨ (none : Option Scope) = some Scope.table ∨
            (tableNames doc).count target.name = 1) := by simp [hsame, hu]
        simp only [this, if_false]
        exact resolveWith_sheetTable _ h hts htt host.id rfl

/-! ### the printed forms -/

abbrev dollar (abs : Bool) : Text := if abs then ['$'] else []

/-- the names a qualification consists of -/
def prefixParts : Prefix → List Text
  | .none => []
  | .table t => [t]
  | .sheetTable s t => [s, t]

theorem prefixT_parts (doc : Doc) (hs ts : Sheet) (host target : Table) (sc : Option Scope) (isAbs : Bool) :
    ∀ n ∈ prefixParts (prefixT doc hs ts host target sc isAbs), n ∈ [ts.name, target.name] := by
  unfold prefixT
  split
  · simp [prefixParts]
  · split
    · split <;> simp [prefixParts]
    · split <;> simp [prefixParts]

/-- `[S::][T::]($)name` denoting `tgt`; the qualification is built from the names in `allowed`, and `name` is
    the text of a header cell that names `tgt` -/
def LabelForm (doc : Doc) (host : Nat) (tgt : Target) (abs : Bool) (allowed : List Text) (t : Text) : Prop :=
  ∃ q name, t = renderPrefix q ++ quoteRef (dollar abs ++ name) ∧ resolveLabel doc host q name = some tgt ∧
    (∀ n ∈ prefixParts q, n ∈ allowed) ∧ ∃ tb ∈ allTables doc, labelHits tb name = [tgt]

/-- `[S::][T::]($)a:($)b` denoting the span from `x` to `y` -/
def SpanForm (doc : Doc) (host : Nat) (x y : Target) (xa ya : Bool) (allowed : List Text) (t : Text) : Prop :=
  ∃ q a b, t = renderPrefix q ++ (quoteRef (dollar xa ++ a) ++ [':'] ++ quoteRef (dollar ya ++ b)) ∧
    resolveSpan doc host q a b = some (x, y) ∧ (∀ n ∈ prefixParts q, n ∈ allowed) ∧
    ∃ tb ∈ allTables doc, labelHits tb a = [x] ∧ labelHits tb b = [y]

/-- `[S::][T::]body` where the qualification denotes table `tid` -/
def PlainForm (doc : Doc) (host tid : Nat) (body : Text) (allowed : List Text) (t : Text) : Prop :=
  ∃ q, t = renderPrefix q ++ body ∧ resolveQual doc host q = some tid ∧ (∀ n ∈ prefixParts q, n ∈ allowed)

theorem nodeToRef_row_only (tid : Nat) (row col : Int) (n : RefNode) (hn : n.hasTract = false)
    (hr : n.hasRow = true) (hc : n.hasCol = false) :
    nodeToRef tid row col n =
      .ok { rowStart := some (if n.rowAbs then n.row else row + n.row), rowStartAbs := n.rowAbs,
            fromTable := tid, toTable := n.toTable.getD tid } := by
  simp only [nodeToRef, hn, hr, hc, Bool.false_eq_true, if_false, not_false_eq_true, and_self, if_true]
  cases n.toTable <;> rfl

theorem nodeToRef_col_only (tid : Nat) (row col : Int) (n : RefNode) (hn : n.hasTract = false)
    (hr : n.hasRow = false) (hc : n.hasCol = true) :
    nodeToRef tid row col n =
      .ok { colStart := some (if n.colAbs then n.col else col + n.col), colStartAbs := n.colAbs,
            fromTable := tid, toTable := n.toTable.getD tid } := by
  simp only [nodeToRef, hn, hr, hc, Bool.false_eq_true, if_false, not_false_eq_true, and_self, if_true,
    false_and, not_true_eq_false, and_false]
  cases n.toTable <;> rfl

section text
variable {doc : Doc} {hs ts : Sheet} {host target : Table}

theorem rangeStr_rows (h : WellFormedDoc doc) (hts : ts ∈ doc) (htt : target ∈ ts.tables) (cr : CellRange)
    (hto : cr.toTable = target.id) (hcs : cr.colStart = none) (rs : Int) (hrs : cr.rowStart = some rs) :
    rangeStr false doc cr =
      formatRowRange false doc cr rs cr.rowEnd ((rowSc target).map (tagT doc ts.id target.name)) := by
  simp only [rangeStr, nameCache_ok h, hcs, hrs, hto, cacheOf_ok h hts htt, bind, Except.bind]

theorem rangeStr_cols (h : WellFormedDoc doc) (hts : ts ∈ doc) (htt : target ∈ ts.tables) (cr : CellRange)
    (hto : cr.toTable = target.id) (hrs : cr.rowStart = none) (cs : Int) (hcs : cr.colStart = some cs) :
    rangeStr false doc cr =
      formatColRange false doc cr cs cr.colEnd ((colSc target).map (tagT doc ts.id target.name)) := by
  simp only [rangeStr, nameCache_ok h, hcs, hrs, hto, cacheOf_ok h hts htt, bind, Except.bind]

theorem expandPlain_eq (h : NamesOK doc) (hhs : hs ∈ doc) (hht : host ∈ hs.tables) (hts : ts ∈ doc)
    (htt : target ∈ ts.tables) (cr : CellRange) (hfrom : cr.fromTable = host.id) (hto : cr.toTable = target.id)
    (body : Text) (isAbs : Bool) :
    expandPlain doc cr body isAbs false =
      .ok (renderPrefix (prefixT doc hs ts host target none isAbs) ++ quoteRef (dollar isAbs ++ body)) := by
  rw [expandPlain_prefixed, hfrom, hto, choosePrefix_eq h hhs hht hts htt]
  rfl

/-- the label form of one end: text and denotation -/
theorem labelForm_of_facts (h : WellFormedDoc doc) (hhs : hs ∈ doc) (hht : host ∈ hs.tables) (hts : ts ∈ doc)
    (htt : target ∈ ts.tables) (cr : CellRange) (hfrom : cr.fromTable = host.id) (hto : cr.toTable = target.id)
    {ax : Axis} {i : Nat} {s : ScopedRef} (hf : ScopeFacts doc ts target ax i s) (isAbs : Bool) :
    ∃ t, expandScoped doc cr s isAbs false = .ok t ∧
      LabelForm doc host.id (target.id, ax, i) isAbs [ts.name, target.name] t := by
  refine ⟨_, expandScoped_eq h.toNamesOK hhs hht hts htt cr hfrom hto s isAbs false, _, s.name, rfl, ?_, ?_,
    target, mem_allTables hts htt, hf.hit⟩
  · unfold resolveLabel
    by_cases hd : s.scope = .document
    · simp only [hd, or_true, if_true]
      exact resolve_bare_document _ h hhs hht hts htt hf hd (fun _ ht => ht) hf.hit
    · simp only [hd, Bool.false_eq_true, or_self, if_false]
      exact resolve_prefixT _ h hhs hht hts htt hf (fun _ ht => ht) hf.hit isAbs
  · split
    · simp [prefixParts]
    · exact prefixT_parts _ _ _ _ _ _ _

/-- the label form of a span -/
theorem spanForm_of_facts (h : WellFormedDoc doc) (hhs : hs ∈ doc) (hht : host ∈ hs.tables) (hts : ts ∈ doc)
    (htt : target ∈ ts.tables) (cr : CellRange) (hfrom : cr.fromTable = host.id) (hto : cr.toTable = target.id)
    {ax : Axis} {i j : Nat} {s e : ScopedRef} (hs' : ScopeFacts doc ts target ax i s)
    (he : ScopeFacts doc ts target ax j e) (sa ea : Bool) :
    ∃ a b, expandScoped doc cr s sa (s.scope = .document ∨ e.scope = .document) = .ok a ∧
      expandScoped doc cr e ea true = .ok b ∧
      SpanForm doc host.id (target.id, ax, i) (target.id, ax, j) sa ea [ts.name, target.name] (colon a b) := by
  have hn := h.toNamesOK
  have ha := expandScoped_eq hn hhs hht hts htt cr hfrom hto s sa
    (decide (s.scope = .document ∨ e.scope = .document))
  have hb : expandScoped doc cr e ea true = .ok (quoteRef (dollar ea ++ e.name)) := by
    rw [expandScoped_eq hn hhs hht hts htt cr hfrom hto e ea true]
    simp [renderPrefix, dollar]
  refine ⟨_, _, ha, hb,
    (if decide (s.scope = .document ∨ e.scope = .document) = true ∨ s.scope = .document then Prefix.none
      else prefixT doc hs ts host target (some s.scope) sa), s.name, e.name, ?_, ?_, ?_,
    target, mem_allTables hts htt, hs'.hit, he.hit⟩
  · simp [colon, dollar, List.append_assoc]
  rotate_left
  · split
    · simp [prefixParts]
    · exact prefixT_parts _ _ _ _ _ _ _
  · have hx := spanHits_of_hits hs'.hit he.hit
    unfold resolveSpan
    by_cases hd : s.scope = .document
    · simp only [hd, true_or, decide_true, if_true]
      exact resolve_bare_document _ h hhs hht hts htt hs' hd (fun _ ht => spanHits_nil_left _ ht) hx
    · by_cases hd2 : e.scope = .document
      · simp only [hd2, or_true, decide_true, true_or, if_true]
        exact resolve_bare_document _ h hhs hht hts htt he hd2 (fun _ ht => spanHits_nil_right _ ht) hx
      · simp only [hd, hd2, or_self, decide_false, Bool.false_eq_true, if_false]
        exact resolve_prefixT _ h hhs hht hts htt hs' (fun _ ht => spanHits_nil_left _ ht) hx sa

end text


/-! ### whole-row / whole-column references: text and denotation -/

theorem dollar_false : dollar false = [] := rfl

def rowsBody (i j : Nat) (sa ea : Bool) : Text :=
  (dollar sa ++ natStr (i + 1)) ++ [':'] ++ (dollar ea ++ natStr (j + 1))

def colsBody (i j : Nat) (sa ea : Bool) : Text :=
  (dollar sa ++ letters i) ++ [':'] ++ (dollar ea ++ letters j)

section format
variable {doc : Doc} {hs ts : Sheet} {host target : Table}

theorem formatRow_single (h : WellFormedDoc doc) (hhs : hs ∈ doc) (hht : host ∈ hs.tables) (hts : ts ∈ doc)
    (htt : target ∈ ts.tables) (cr : CellRange) (hfrom : cr.fromTable = host.id) (hto : cr.toTable = target.id)
    (i : Nat) (hi : i < target.nRows) :
    ∃ t, formatRowRange false doc cr (i : Int) none ((rowSc target).map (tagT doc ts.id target.name)) = .ok t ∧
      (LabelForm doc host.id (target.id, .row, i) cr.rowStartAbs [ts.name, target.name] t ∨
       PlainForm doc host.id target.id (rowsBody i i cr.rowStartAbs cr.rowStartAbs) [ts.name, target.name] t) := by
  obtain ⟨o, ho⟩ := rangeAt_total (tag := tagT doc ts.id target.name) (sc := rowSc target) (i := i)
    (by rw [rowSc, scT_length]; exact hi)
  cases o with
  | none =>
    refine ⟨_, ?_, Or.inr ⟨prefixT doc hs ts host target none cr.rowStartAbs, rfl,
      resolveQual_prefixT_plain h.toNamesOK hhs hht hts htt _, prefixT_parts _ _ _ _ _ _ _⟩⟩
    simp only [formatRowRange, ho, bind, Except.bind, expandPlain_eq h.toNamesOK hhs hht hts htt cr hfrom hto,
      expandPlain_bare, rowNum_nat, quoteRef_of_refChars _ (rowText_refChars _ _), colon, rowsBody,
      List.append_assoc]
  | some s =>
    obtain ⟨t, ht, hform⟩ := labelForm_of_facts h hhs hht hts htt cr hfrom hto
      (scopeFacts_row h hts htt ho) cr.rowStartAbs
    exact ⟨t, by simp only [formatRowRange, ho, bind, Except.bind, ht], Or.inl hform⟩

theorem formatRow_span (h : WellFormedDoc doc) (hhs : hs ∈ doc) (hht : host ∈ hs.tables) (hts : ts ∈ doc)
    (htt : target ∈ ts.tables) (cr : CellRange) (hfrom : cr.fromTable = host.id) (hto : cr.toTable = target.id)
    (i j : Nat) (hi : i < target.nRows) (hj : j < target.nRows) :
    ∃ t, formatRowRange false doc cr (i : Int) (some (j : Int))
        ((rowSc target).map (tagT doc ts.id target.name)) = .ok t ∧
      (SpanForm doc host.id (target.id, .row, i) (target.id, .row, j) cr.rowStartAbs cr.rowEndAbs [ts.name, target.name] t ∨
       PlainForm doc host.id target.id (rowsBody i j cr.rowStartAbs cr.rowEndAbs) [ts.name, target.name] t) := by
  obtain ⟨o1, ho1⟩ := rangeAt_total (tag := tagT doc ts.id target.name) (sc := rowSc target) (i := i)
    (by rw [rowSc, scT_length]; exact hi)
  obtain ⟨o2, ho2⟩ := rangeAt_total (tag := tagT doc ts.id target.name) (sc := rowSc target) (i := j)
    (by rw [rowSc, scT_length]; exact hj)
  have hnum : ∀ t, t = renderPrefix (prefixT doc hs ts host target none cr.rowStartAbs) ++
      rowsBody i j cr.rowStartAbs cr.rowEndAbs → PlainForm doc host.id target.id
        (rowsBody i j cr.rowStartAbs cr.rowEndAbs) [ts.name, target.name] t :=
    fun t ht => ⟨_, ht, resolveQual_prefixT_plain h.toNamesOK hhs hht hts htt _, prefixT_parts _ _ _ _ _ _ _⟩
  cases o1 with
  | none =>
    refine ⟨_, ?_, Or.inr (hnum _ rfl)⟩
    simp only [formatRowRange, ho1, bind, Except.bind, expandPlain_eq h.toNamesOK hhs hht hts htt cr hfrom hto,
      expandPlain_bare, rowNum_nat, quoteRef_of_refChars _ (rowText_refChars _ _), colon, rowsBody,
      List.append_assoc]
  | some s =>
    cases o2 with
    | none =>
      refine ⟨_, ?_, Or.inr (hnum _ rfl)⟩
      simp only [formatRowRange, ho1, ho2, bind, Except.bind, Bool.false_eq_true, if_false,
        expandPlain_eq h.toNamesOK hhs hht hts htt cr hfrom hto,
        expandPlain_bare, rowNum_nat, quoteRef_of_refChars _ (rowText_refChars _ _), colon, rowsBody,
        List.append_assoc]
    | some e =>
      obtain ⟨a, b, ha, hb, hform⟩ := spanForm_of_facts h hhs hht hts htt cr hfrom hto
        (scopeFacts_row h hts htt ho1) (scopeFacts_row h hts htt ho2) cr.rowStartAbs cr.rowEndAbs
      refine ⟨colon a b, ?_, Or.inl hform⟩
      simp only [formatRowRange, ho1, ho2, bind, Except.bind, Bool.false_eq_true, if_false, ha, hb]

theorem formatCol_single (h : WellFormedDoc doc) (hhs : hs ∈ doc) (hht : host ∈ hs.tables) (hts : ts ∈ doc)
    (htt : target ∈ ts.tables) (cr : CellRange) (hfrom : cr.fromTable = host.id) (hto : cr.toTable = target.id)
    (i : Nat) (hi : i < target.nCols) :
    ∃ t, formatColRange false doc cr (i : Int) none ((colSc target).map (tagT doc ts.id target.name)) = .ok t ∧
      (LabelForm doc host.id (target.id, .col, i) cr.colStartAbs [ts.name, target.name] t ∨
       PlainForm doc host.id target.id (dollar cr.colStartAbs ++ letters i) [ts.name, target.name] t) := by
  obtain ⟨o, ho⟩ := rangeAt_total (tag := tagT doc ts.id target.name) (sc := colSc target) (i := i)
    (by rw [colSc, scT_length]; exact hi)
  cases o with
  | none =>
    refine ⟨_, ?_, Or.inr ⟨prefixT doc hs ts host target none false, rfl,
      resolveQual_prefixT_plain h.toNamesOK hhs hht hts htt _, prefixT_parts _ _ _ _ _ _ _⟩⟩
    simp only [formatColRange, ho, bind, Except.bind, colName_ok,
      expandPlain_eq h.toNamesOK hhs hht hts htt cr hfrom hto,
      dollar_false, List.nil_append, quoteRef_of_refChars _ (colText_refChars _ _)]
  | some s =>
    obtain ⟨t, ht, hform⟩ := labelForm_of_facts h hhs hht hts htt cr hfrom hto
      (scopeFacts_col h hts htt ho) cr.colStartAbs
    exact ⟨t, by simp only [formatColRange, ho, bind, Except.bind, ht], Or.inl hform⟩

theorem formatCol_span (h : WellFormedDoc doc) (hhs : hs ∈ doc) (hht : host ∈ hs.tables) (hts : ts ∈ doc)
    (htt : target ∈ ts.tables) (cr : CellRange) (hfrom : cr.fromTable = host.id) (hto : cr.toTable = target.id)
    (i j : Nat) (hi : i < target.nCols) (hj : j < target.nCols) :
    ∃ t, formatColRange false doc cr (i : Int) (some (j : Int))
        ((colSc target).map (tagT doc ts.id target.name)) = .ok t ∧
      (SpanForm doc host.id (target.id, .col, i) (target.id, .col, j) cr.colStartAbs cr.colEndAbs [ts.name, target.name] t ∨
       PlainForm doc host.id target.id (colsBody i j cr.colStartAbs cr.colEndAbs) [ts.name, target.name] t) := by
  obtain ⟨o1, ho1⟩ := rangeAt_total (tag := tagT doc ts.id target.name) (sc := colSc target) (i := i)
    (by rw [colSc, scT_length]; exact hi)
  obtain ⟨o2, ho2⟩ := rangeAt_total (tag := tagT doc ts.id target.name) (sc := colSc target) (i := j)
    (by rw [colSc, scT_length]; exact hj)
  have hnum : ∀ t, t = renderPrefix (prefixT doc hs ts host target none false) ++
      colsBody i j cr.colStartAbs cr.colEndAbs → PlainForm doc host.id target.id
        (colsBody i j cr.colStartAbs cr.colEndAbs) [ts.name, target.name] t :=
    fun t ht => ⟨_, ht, resolveQual_prefixT_plain h.toNamesOK hhs hht hts htt _, prefixT_parts _ _ _ _ _ _ _⟩
  cases o1 with
  | none =>
    refine ⟨_, ?_, Or.inr (hnum _ rfl)⟩
    simp only [formatColRange, ho1, bind, Except.bind, colName_ok,
      expandPlain_eq h.toNamesOK hhs hht hts htt cr hfrom hto, expandPlain_bare,
      dollar_false, List.nil_append, quoteRef_of_refChars _ (colText_refChars _ _), colon, colsBody,
      List.append_assoc]
  | some s =>
    cases o2 with
    | none =>
      refine ⟨_, ?_, Or.inr (hnum _ rfl)⟩
      simp only [formatColRange, ho1, ho2, bind, Except.bind, colName_ok,
        expandPlain_eq h.toNamesOK hhs hht hts htt cr hfrom hto, expandPlain_bare,
        dollar_false, List.nil_append, quoteRef_of_refChars _ (colText_refChars _ _), colon, colsBody,
        Bool.false_eq_true, if_false, List.append_assoc]
    | some e =>
      obtain ⟨a, b, ha, hb, hform⟩ := spanForm_of_facts h hhs hht hts htt cr hfrom hto
        (scopeFacts_col h hts htt ho1) (scopeFacts_col h hts htt ho2) cr.colStartAbs cr.colEndAbs
      refine ⟨colon a b, ?_, Or.inl hform⟩
      simp only [formatColRange, ho1, ho2, bind, Except.bind, Bool.false_eq_true, if_false, ha, hb]

end format


/-! ### "just enough" qualification: one level less does not denote the target -/

theorem firstUnique_cons_eq_some {α : Type} {l : List α} {r : List (List α)} {x : α}
    (h : firstUnique (l :: r) = some x) : l = [x] ∨ (l = [] ∧ firstUnique r = some x) := by
  match l, h with
  | [], h => exact Or.inr ⟨rfl, h⟩
  | [y], h => simp [firstUnique] at h; exact Or.inl (by rw [h])
  | _ :: _ :: _, h => simp [firstUnique] at h

theorem firstUnique_single_eq_some {α : Type} {l : List α} {x : α}
    (h : firstUnique [l] = some x) : l = [x] := by
  rcases firstUnique_cons_eq_some h with h1 | ⟨_, h2⟩
  · exact h1
  · simp [firstUnique] at h2

theorem labelHits_id {t : Table} {n : Text} {y : Target} (h : y ∈ labelHits t n) : y.1 = t.id := by
  unfold labelHits at h
  split at h
  · simp at h
  · split at h
    · simp at h; rw [h]
    · simp at h

section minimal
variable {β : Type} (f : Table → List β) (key : β → Nat)
variable {doc : Doc} {hs ts : Sheet} {host target : Table}

/-- `S::T::…` was needed: `T::…` alone does not denote the target when the target is on another sheet and
    its table name is not unique in the document -/
theorem resolveWith_table_not_target (hkey : ∀ t y, y ∈ f t → key y = t.id) (h : NamesOK doc)
    (hhs : hs ∈ doc) (hht : host ∈ hs.tables) (hts : ts ∈ doc) (htt : target ∈ ts.tables)
    (hne : hs.id ≠ ts.id) (hcnt : (tableNames doc).count target.name ≠ 1) {x : β} (hx : key x = target.id) :
    resolveWith f doc host.id (.table target.name) ≠ some x := by
  intro hres
  simp only [resolveWith, hostSheetTables_eq h hhs hht] at hres
  cases hfu : firstUnique [named hs.tables target.name, named (allTables doc) target.name] with
  | none => rw [hfu] at hres; simp at hres
  | some t' =>
    rw [hfu] at hres
    have hft := firstUnique_single_eq_some hres
    have hk : t'.id = target.id := by rw [← hkey t' x (by rw [hft]; simp), hx]
    rcases firstUnique_cons_eq_some hfu with h1 | ⟨_, h2⟩
    · have : t' ∈ named hs.tables target.name := by rw [h1]; simp
      have ht' : t' ∈ hs.tables := List.mem_of_mem_filter this
      exact not_mem_other_sheet h hhs hts htt hne t' ht' hk
    · have h3 := firstUnique_single_eq_some h2
      have := named_all_length doc target.name
      rw [h3] at this
      exact hcnt this.symm

end minimal

/-- where the code over-qualifies on purpose ("If absolute Numbers seems to unnecessarily include the table
    name"): absolute reference to a sheet-unique name of another table of the host's sheet -/
def AbsSheetScope (hs ts : Sheet) (host target : Table) (s : ScopedRef) (isAbs : Bool) : Prop :=
  isAbs = true ∧ hs.id = ts.id ∧ s.scope = .sheet ∧ host.id ≠ target.id

section minimal_label
variable {doc : Doc} {hs ts : Sheet} {host target : Table}

theorem label_prefix_minimal (h : WellFormedDoc doc) (hhs : hs ∈ doc) (hht : host ∈ hs.tables)
    (hts : ts ∈ doc) (htt : target ∈ ts.tables) {ax : Axis} {i : Nat} {s : ScopedRef}
    (hf : ScopeFacts doc ts target ax i s) (hnd : s.scope ≠ .document) (isAbs : Bool) (q' : Prefix)
    (hq : dropLevel (prefixT doc hs ts host target (some s.scope) isAbs) = some q')
    (hres : resolveLabel doc host.id q' s.name = some (target.id, ax, i)) :
    AbsSheetScope hs ts host target s isAbs := by
  have hn := h.toNamesOK
  have hxm : (target.id, ax, i) ∈ labelHits target s.name := by rw [hf.hit]; simp
  have hdoclen : (hitsIn (allTables doc) s.name).length ≠ 1 := fun e => hnd (hf.doc_iff.2 e)
  unfold prefixT at hq
  by_cases heq : host.id = target.id
  · simp [heq, dropLevel] at hq
  · simp only [heq, if_false] at hq
    by_cases hsheet : hs.id = ts.id ∧ some s.scope = some Scope.sheet
    · simp only [hsheet, and_self, if_true] at hq
      cases isAbs with
      | true => exact ⟨rfl, hsheet.1, by simpa using hsheet.2, heq⟩
      | false => simp [dropLevel] at hq
    · simp only [hsheet, if_false] at hq
      by_cases hc3 : hs.id = ts.id ∨ some s.scope = some Scope.table ∨ (tableNames doc).count target.name = 1
      · -- `T::name` printed; bare `name` must not denote the target
        exfalso
        rw [if_pos hc3] at hq
        simp only [dropLevel, Option.some.injEq] at hq
        subst hq
        unfold resolveLabel at hres
        rw [resolveWith_none_levels _ hn hhs hht] at hres
        rcases firstUnique_cons_eq_some hres with h1 | ⟨_, hres2⟩
        · have : (target.id, ax, i) ∈ labelHits host s.name := by rw [h1]; simp
          exact heq (labelHits_id this).symm
        · rcases firstUnique_cons_eq_some hres2 with h2 | ⟨h2, hres3⟩
          · by_cases hsame : hs.id = ts.id
            · have : hs = ts := sheet_eq_of_id hn hhs hts hsame
              subst this
              have hss : s.scope ≠ .sheet := fun e => hsheet ⟨rfl, by rw [e]⟩
              have : (hitsIn hs.tables s.name).length = 1 := by
                unfold hitsIn; rw [h2]; rfl
              exact hss (hf.sheet_iff.2 ⟨hdoclen, this⟩)
            · have hm : (target.id, ax, i) ∈ hs.tables.flatMap (fun t => labelHits t s.name) := by
                rw [h2]; simp
              obtain ⟨t, ht, hy⟩ := List.mem_flatMap.1 hm
              exact not_mem_other_sheet hn hhs hts htt hsame t ht (labelHits_id hy).symm
          · have := firstUnique_single_eq_some hres3
            apply hdoclen
            unfold hitsIn; rw [this]; rfl
      · -- `S::T::name` printed; `T::name` must not denote the target
        exfalso
        rw [if_neg hc3] at hq
        simp only [dropLevel, Option.some.injEq] at hq
        subst hq
        have hsame : hs.id ≠ ts.id := fun e => hc3 (Or.inl e)
        have hcnt : (tableNames doc).count target.name ≠ 1 := fun e => hc3 (Or.inr (Or.inr e))
        exact resolveWith_table_not_target (fun t => labelHits t s.name) (fun y => y.1)
          (fun t y hy => labelHits_id hy) hn hhs hht hts htt hsame hcnt rfl hres

/-- … and in that region the shorter text would indeed have been enough -/
theorem abs_sheet_scope_overqualified (h : WellFormedDoc doc) (hhs : hs ∈ doc) (hht : host ∈ hs.tables)
    (hts : ts ∈ doc) (htt : target ∈ ts.tables) {ax : Axis} {i : Nat} {s : ScopedRef}
    (hf : ScopeFacts doc ts target ax i s) {isAbs : Bool} (ha : AbsSheetScope hs ts host target s isAbs) :
    prefixT doc hs ts host target (some s.scope) isAbs = .table target.name ∧
    resolveLabel doc host.id .none s.name = some (target.id, ax, i) := by
  obtain ⟨h1, h2, h3, h4⟩ := ha
  constructor
  · simp [prefixT, h1, h2, h3, h4]
  · have := resolve_prefixT (fun t => labelHits t s.name) h hhs hht hts htt hf (fun _ ht => ht) hf.hit false
    simpa [prefixT, h2, h3, h4, resolveLabel] using this

/-- A1 / numeric references: one level less never denotes the target table -/
theorem plain_prefix_minimal (h : NamesOK doc) (hhs : hs ∈ doc) (hht : host ∈ hs.tables)
    (hts : ts ∈ doc) (htt : target ∈ ts.tables) (isAbs : Bool) (q' : Prefix)
    (hq : dropLevel (prefixT doc hs ts host target none isAbs) = some q') :
    resolveQual doc host.id q' ≠ some target.id := by
  unfold prefixT at hq
  by_cases heq : host.id = target.id
  · simp [heq, dropLevel] at hq
  · have h1 : ¬ (hs.id = ts.id ∧ (none : Option Scope) = some Scope.sheet) := by simp
    simp only [heq, h1, if_false] at hq
    by_cases hc3 : hs.id = ts.id ∨ (none : Option Scope) = some Scope.table ∨
        (tableNames doc).count target.name = 1
    · rw [if_pos hc3] at hq
      simp only [dropLevel, Option.some.injEq] at hq
      subst hq
      unfold resolveQual
      rw [resolveWith_none_host _ h hhs hht rfl]
      intro e
      exact heq (by simpa using e)
    · rw [if_neg hc3] at hq
      simp only [dropLevel, Option.some.injEq] at hq
      subst hq
      have hsame : hs.id ≠ ts.id := fun e => hc3 (Or.inl e)
      have hcnt : (tableNames doc).count target.name ≠ 1 := fun e => hc3 (Or.inr (Or.inr e))
      exact resolveWith_table_not_target (fun t => [t.id]) (fun y => y)
        (fun t y hy => by simpa using hy) h hhs hht hts htt hsame hcnt rfl

end minimal_label


/-! ### the model keeps a name exactly where the spec sees one -/

theorem scT_getElem_of_keep {labels : List Text} {first n th : Nat} {ol : List Text} {of oe : Nat} {i : Nat}
    {x : Text} (hi : i < n) (hth : th ≠ 0)
    (hk : keepF labels (allNamesT labels first n ol of oe) first i = some x) :
    (scT labels first n th ol of oe)[i]? = some (some x) := by
  unfold scT
  simp only [hth, if_false, List.getElem?_map, List.getElem?_range hi, Option.map_some, hk]

theorem mem_axCells {ax ax' : Axis} {labels : List Text} {first n i : Nat} {x : Text}
    (h : (ax', i, x) ∈ axCells ax labels first n) : ax' = ax ∧ first ≤ i ∧ i < n ∧ lab labels i = x := by
  simp only [axCells, List.mem_map, List.mem_filter, List.mem_range, decide_eq_true_eq, Prod.mk.injEq] at h
  obtain ⟨j, ⟨hj1, hj2⟩, h1, h2, h3⟩ := h
  subst h2
  exact ⟨h1.symm, hj2, hj1, h3⟩

theorem kept_of_labelHits {t : Table} (hw : WFTable t) {ax : Axis} {i : Nat} {x : Text}
    (h : labelHits t x = [(t.id, ax, i)]) :
    match ax with
    | .row => (rowSc t)[i]? = some (some x)
    | .col => (colSc t)[i]? = some (some x) := by
  have hlen := labelHits_length t x
  rw [h] at hlen
  simp only [List.length_cons, List.length_nil, Nat.zero_add] at hlen
  have hx : x ≠ [] ∧ ((headerCells t).filter (fun c => c.2.2 = x)).length = 1 := by
    by_contra hc
    rw [if_neg hc] at hlen
    omega
  have hcnt : (texts t).count x = 1 := by
    have := filter_length_eq_count (fun c : Axis × Nat × Text => c.2.2) x (headerCells t)
    unfold texts; rw [← this]; exact hx.2
  -- the single cell showing `x`
  unfold labelHits at h
  simp only [hx.1, if_false] at h
  cases hC : (headerCells t).filter (fun c => c.2.2 = x) with
  | nil => rw [hC] at h; simp at h
  | cons c C =>
    rw [hC] at h
    cases C with
    | cons _ _ => simp at h
    | nil =>
      simp only [List.cons.injEq, Prod.mk.injEq, true_and, and_true] at h
      have hm : c ∈ (headerCells t).filter (fun c => c.2.2 = x) := by rw [hC]; simp
      rw [List.mem_filter] at hm
      have hcx : c.2.2 = x := by simpa using hm.2
      have hc : c = (ax, i, x) := by
        rcases c with ⟨a, j, y⟩
        simp only at h hcx
        rw [h.1, h.2, hcx]
      rw [hc, headerCells_wf hw] at hm
      rcases List.mem_append.1 hm.1 with hrow | hcol
      · by_cases hc0 : t.nHeaderCols = 0
        · simp [hc0] at hrow
        · simp only [hc0, if_false] at hrow
          obtain ⟨hax, h1, h2, h3⟩ := mem_axCells hrow
          subst hax
          apply scT_getElem_of_keep h2 hc0
          exact (keepF_eq_some_iff _ _ _ _ _).2 ⟨h1, h3, hx.1, by rw [count_allNames_row hw hc0]; omega⟩
      · by_cases hr0 : t.nHeaderRows = 0
        · simp [hr0] at hcol
        · simp only [hr0, if_false] at hcol
          obtain ⟨hax, h1, h2, h3⟩ := mem_axCells hcol
          subst hax
          apply scT_getElem_of_keep h2 hr0
          exact (keepF_eq_some_iff _ _ _ _ _).2 ⟨h1, h3, hx.1, by rw [count_allNames_col hw hr0]; omega⟩

theorem rangeAt_map_of_kept {sc : List (Option Text)} {tag : Option Text → Option ScopedRef} {i : Nat}
    {x : Text} (h : sc[i]? = some (some x)) : rangeAt (sc.map tag) (i : Int) = .ok (tag (some x)) :=
  rangeAt_nat_some (by rw [List.getElem?_map, h]; rfl)


/-! ### `str(node_to_ref(...))` for stored whole-row / whole-column references -/

/-- a stored whole-row reference to row `i` (0-based) of the table `tgt` (`none` = the host table itself),
    held by a formula in host row `hostRow`: relative references store the offset -/
def rowNode (hostRow : Int) (i : Nat) (abs : Bool) (tgt : Option Nat) : RefNode :=
  { hasRow := true, row := if abs then (i : Int) else (i : Int) - hostRow, rowAbs := abs, toTable := tgt }

def colNode (hostCol : Int) (i : Nat) (abs : Bool) (tgt : Option Nat) : RefNode :=
  { hasCol := true, col := if abs then (i : Int) else (i : Int) - hostCol, colAbs := abs, toTable := tgt }

theorem refText_single_sound {doc : Doc} (h : WellFormedDoc doc) {hs ts : Sheet} {host target : Table}
    (hhs : hs ∈ doc) (hht : host ∈ hs.tables) (hts : ts ∈ doc) (htt : target ∈ ts.tables)
    (row col : Int) (abs : Bool) (tgt : Option Nat) (hto : tgt.getD host.id = target.id) :
    (∀ i, i < target.nRows →
      ∃ t, refText false doc host.id row col (rowNode row i abs tgt) = .ok t ∧
        (LabelForm doc host.id (target.id, .row, i) abs [ts.name, target.name] t ∨
         PlainForm doc host.id target.id (rowsBody i i abs abs) [ts.name, target.name] t)) ∧
    (∀ i, i < target.nCols →
      ∃ t, refText false doc host.id row col (colNode col i abs tgt) = .ok t ∧
        (LabelForm doc host.id (target.id, .col, i) abs [ts.name, target.name] t ∨
         PlainForm doc host.id target.id (dollar abs ++ letters i) [ts.name, target.name] t)) := by
  constructor
  · intro i hi
    have hnode := nodeToRef_row_only host.id row col (rowNode row i abs tgt) rfl rfl rfl
    have hr : (if (rowNode row i abs tgt).rowAbs then (rowNode row i abs tgt).row
        else row + (rowNode row i abs tgt).row) = (i : Int) := by
      cases abs <;> simp [rowNode]
    rw [hr] at hnode
    obtain ⟨t, ht, hform⟩ := formatRow_single h hhs hht hts htt
      { rowStart := some (i : Int), rowStartAbs := abs, fromTable := host.id, toTable := tgt.getD host.id }
      rfl hto i hi
    refine ⟨t, ?_, hform⟩
    unfold refText
    rw [hnode]
    simp only [bind, Except.bind]
    rw [rangeStr_rows h hts htt _ hto rfl (i : Int) rfl]
    exact ht
  · intro i hi
    have hnode := nodeToRef_col_only host.id row col (colNode col i abs tgt) rfl rfl rfl
    have hr : (if (colNode col i abs tgt).colAbs then (colNode col i abs tgt).col
        else col + (colNode col i abs tgt).col) = (i : Int) := by
      cases abs <;> simp [colNode]
    rw [hr] at hnode
    obtain ⟨t, ht, hform⟩ := formatCol_single h hhs hht hts htt
      { colStart := some (i : Int), colStartAbs := abs, fromTable := host.id, toTable := tgt.getD host.id }
      rfl hto i hi
    refine ⟨t, ?_, hform⟩
    unfold refText
    rw [hnode]
    simp only [bind, Except.bind]
    rw [rangeStr_cols h hts htt _ hto rfl (i : Int) rfl]
    exact ht

theorem refText_span_sound {doc : Doc} (h : WellFormedDoc doc) {hs ts : Sheet} {host target : Table}
    (hhs : hs ∈ doc) (hht : host ∈ hs.tables) (hts : ts ∈ doc) (htt : target ∈ ts.tables)
    (row col : Int) (sa ea short : Bool) (tgt : Option Nat) (hto : tgt.getD host.id = target.id) :
    (∀ i j, i < target.nRows → j < target.nRows → i < 0x7FFFFFFF → j < 0x7FFFFFFF →
      ∃ t, refText false doc host.id row col (encodeRows row ⟨i, j, sa, ea⟩ short tgt) = .ok t ∧
        (SpanForm doc host.id (target.id, .row, i) (target.id, .row, j) sa ea [ts.name, target.name] t ∨
         PlainForm doc host.id target.id (rowsBody i j sa ea) [ts.name, target.name] t)) ∧
    (∀ i j, i < target.nCols → j < target.nCols → i < 0x7FFF → j < 0x7FFF →
      ∃ t, refText false doc host.id row col (encodeCols col ⟨i, j, sa, ea⟩ short tgt) = .ok t ∧
        (SpanForm doc host.id (target.id, .col, i) (target.id, .col, j) sa ea [ts.name, target.name] t ∨
         PlainForm doc host.id target.id (colsBody i j sa ea) [ts.name, target.name] t)) := by
  constructor
  · intro i j hi hj hi' hj'
    obtain ⟨t, ht, hform⟩ := formatRow_span h hhs hht hts htt
      { rowStart := some (i : Int), rowEnd := some (j : Int), rowStartAbs := sa, rowEndAbs := ea,
        fromTable := host.id, toTable := tgt.getD host.id } rfl hto i j hi hj
    refine ⟨t, ?_, hform⟩
    unfold refText
    rw [nodeToRef_encodeRows host.id row col ⟨i, j, sa, ea⟩ short tgt (by simp [ROW_OPEN]; omega)
      (by simp [ROW_OPEN]; omega)]
    simp only [bind, Except.bind]
    rw [rangeStr_rows h hts htt _ hto rfl (i : Int) rfl]
    exact ht
  · intro i j hi hj hi' hj'
    obtain ⟨t, ht, hform⟩ := formatCol_span h hhs hht hts htt
      { colStart := some (i : Int), colEnd := some (j : Int), colStartAbs := sa, colEndAbs := ea,
        fromTable := host.id, toTable := tgt.getD host.id } rfl hto i j hi hj
    refine ⟨t, ?_, hform⟩
    unfold refText
    rw [nodeToRef_encodeCols host.id row col ⟨i, j, sa, ea⟩ short tgt (by simp [COL_OPEN]; omega)
      (by simp [COL_OPEN]; omega)]
    simp only [bind, Except.bind]
    rw [rangeStr_cols h hts htt _ hto rfl (i : Int) rfl]
    exact ht

end NumbersModel.RefsSpec
