/-
Text level of the C09 resolver spec: the reader `parseRefText` (Model/RefsSpec.lean) applied to what
`expand_ref` prints (`renderPrefix q ++ quoteRef (($) ++ name)`, numeric bodies) gives back the qualification
and the ends, for names without `:` / `'` and labels that do not look like a cell / column / row reference.
-/
import NumbersModel.Lemmas.RefsSpec
namespace NumbersModel.RefsSpec
open NumbersModel NumbersModel.A1 NumbersModel.Refs

/-- no colon, no apostrophe -/
def NoCQ (s : Text) : Prop := ∀ c ∈ s, c ≠ ':' ∧ c ≠ '\''

def finish (s : SplitState) : Option (List Text) :=
  match s.st with
  | .out | .inqq => some (s.buf :: s.acc).reverse
  | .colon => some ((s.buf ++ [':']) :: s.acc).reverse
  | .inq => none

theorem splitOutside_eq (two : Bool) (t : Text) : splitOutside two t = finish (t.foldl (splitStep two) {}) := rfl

theorem foldl_out (two : Bool) : ∀ (s : Text), NoCQ s → ∀ (buf : Text) (acc : List Text),
    s.foldl (splitStep two) { st := .out, buf := buf, acc := acc } = { st := .out, buf := buf ++ s, acc := acc }
  | [], _, buf, acc => by simp
  | c :: s, h, buf, acc => by
    have hc := h c (by simp)
    have hs : NoCQ s := fun x hx => h x (List.mem_cons_of_mem _ hx)
    simp only [List.foldl_cons, splitStep, outStep, hc.1, hc.2, if_false]
    rw [foldl_out two s hs]
    simp

theorem foldl_inq (two : Bool) : ∀ (s : Text), (∀ c ∈ s, c ≠ '\'') → ∀ (buf : Text) (acc : List Text),
    s.foldl (splitStep two) { st := .inq, buf := buf, acc := acc } = { st := .inq, buf := buf ++ s, acc := acc }
  | [], _, buf, acc => by simp
  | c :: s, h, buf, acc => by
    have hc := h c (by simp)
    have hs : ∀ x ∈ s, x ≠ '\'' := fun x hx => h x (List.mem_cons_of_mem _ hx)
    simp only [List.foldl_cons, splitStep, hc, if_false]
    rw [foldl_inq two s hs]
    simp

/-- the label part of a printed reference: plain, or wrapped in quotes by `expand_ref` -/
def LabelPart (L : Text) : Prop :=
  NoCQ L ∨ ∃ b, L = '\'' :: b ++ ['\''] ∧ ∀ c ∈ b, c ≠ '\''

theorem finish_label (two : Bool) {L : Text} (hL : LabelPart L) (buf : Text) (acc : List Text) :
    finish (L.foldl (splitStep two) { st := .out, buf := buf, acc := acc }) = some ((buf ++ L) :: acc).reverse := by
  rcases hL with h | ⟨b, rfl, hb⟩
  · rw [foldl_out two L h]; rfl
  · simp only [List.foldl_cons, List.foldl_append, List.foldl_nil, splitStep, outStep, if_true]
    rw [foldl_inq two b hb]
    simp [finish, splitStep]

/-- `::` met outside quotes closes a part -/
theorem foldl_sep (buf : Text) (acc : List Text) :
    "::".toList.foldl (splitStep true) { st := .out, buf := buf, acc := acc } =
      { st := .out, buf := [], acc := buf :: acc } := by
  simp [splitStep, outStep]

def PrefixPlain (q : Prefix) : Prop := ∀ n ∈ prefixParts q, NoCQ n

/-- reading `L` at `::`-splitting level leaves it in one piece -/
def TwoSafe (L : Text) : Prop :=
  ∀ (buf : Text) (acc : List Text),
    finish (L.foldl (splitStep true) { st := .out, buf := buf, acc := acc }) = some ((buf ++ L) :: acc).reverse

theorem LabelPart.twoSafe {L : Text} (h : LabelPart L) : TwoSafe L := fun buf acc => finish_label true h buf acc

theorem split_qualified {q : Prefix} {L : Text} (hL : TwoSafe L) (hq : PrefixPlain q) :
    splitOutside true (renderPrefix q ++ L) = some (prefixParts q ++ [L]) := by
  rw [splitOutside_eq]
  cases q with
  | none =>
    simp only [renderPrefix, List.nil_append]
    rw [hL]; rfl
  | table t =>
    have ht : NoCQ t := hq t (by simp [prefixParts])
    show finish (List.foldl (splitStep true) {} ((t ++ "::".toList) ++ L)) = _
    rw [List.foldl_append, List.foldl_append, foldl_out true t ht, foldl_sep, hL]
    rfl
  | sheetTable s t =>
    have hs : NoCQ s := hq s (by simp [prefixParts])
    have ht : NoCQ t := hq t (by simp [prefixParts])
    show finish (List.foldl (splitStep true) {} ((((s ++ "::".toList) ++ t) ++ "::".toList) ++ L)) = _
    rw [List.foldl_append, List.foldl_append, List.foldl_append, List.foldl_append, foldl_out true s hs,
      foldl_sep, foldl_out true t ht, foldl_sep, hL]
    rfl


/-! ### the label part -/

/-- a header label the text reader takes for a label: no `:` / `'`, and a first character that is neither `$`,
    an upper-case letter (column letters) nor a digit (row numbers) -/
def PlainLabel (name : Text) : Prop :=
  NoCQ name ∧ ∃ c r, name = c :: r ∧ c ≠ '$' ∧ isUpperAZ c = false ∧ isDigit09 c = false

theorem noCQ_dollar {abs : Bool} {name : Text} (h : NoCQ name) : NoCQ (dollar abs ++ name) := by
  intro c hc
  rcases List.mem_append.1 hc with h1 | h1
  · cases abs
    · simp at h1
    · simp at h1; subst h1; exact ⟨by decide, by decide⟩
  · exact h c h1

theorem quoteRef_labelPart {s : Text} (h : NoCQ s) : LabelPart (quoteRef s) := by
  unfold quoteRef
  split
  · exact Or.inr ⟨s, by simp, fun c hc => (h c hc).2⟩
  · have : s.contains '\'' = false := by
      rw [Bool.eq_false_iff]; intro hc
      have hm : '\'' ∈ s := by simpa using hc
      exact (h _ hm).2 rfl
    simp only [this, Bool.false_eq_true, if_false]
    exact Or.inl h

theorem unescape_noquote (s : Text) (h : ∀ c ∈ s, c ≠ '\'') : unescape s = s := by
  fun_induction unescape s with
  | case1 r ih => exact absurd rfl (h '\'' (by simp))
  | case2 c r hne ih => rw [ih (fun x hx => h x (List.mem_cons_of_mem _ hx))]
  | case3 => rfl

theorem stripDollar_dollar {abs : Bool} {name : Text} (h : ∃ c r, name = c :: r ∧ c ≠ '$') :
    stripDollar (dollar abs ++ name) = (abs, name) := by
  obtain ⟨c, r, rfl, hc⟩ := h
  cases abs
  · simp only [dollar, Bool.false_eq_true, if_false, List.nil_append]
    unfold stripDollar
    split
    · rename_i heq; simp only [List.cons.injEq] at heq; exact absurd heq.1.symm (Ne.symm hc |> fun h => h.symm |> fun _ => by intro e; exact hc e.symm)
    · rfl
  · simp [dollar, stripDollar]


theorem parseEnd_quoted (s : Text) (hs : ∀ c ∈ s, c ≠ '\'') :
    parseEnd ('\'' :: (s ++ ['\''])) = .label (stripDollar s).2 (stripDollar s).1 := by
  unfold parseEnd quotedInner
  simp [unescape_noquote s hs]

theorem quotedInner_plain (abs : Bool) {c : Char} (r : Text) (hq : c ≠ '\'') (hd : c ≠ '$') :
    quotedInner (dollar abs ++ c :: r) = none := by
  cases abs
  · simp only [dollar, Bool.false_eq_true, if_false, List.nil_append]
    unfold quotedInner
    split
    · rename_i heq; simp only [List.cons.injEq] at heq; exact absurd heq.1 hq
    · rename_i heq; simp only [List.cons.injEq] at heq; exact absurd heq.1 hd
    · rfl
  · simp only [dollar, if_true, List.cons_append, List.nil_append]
    unfold quotedInner
    split
    · rename_i heq; simp at heq
    · rename_i heq; simp only [List.cons.injEq] at heq; exact absurd heq.2.1 hq
    · rfl

theorem parseEnd_plain_label (abs : Bool) {name : Text} (h : PlainLabel name) :
    parseEnd (dollar abs ++ name) = .label name abs := by
  obtain ⟨hcq, c, r, rfl, hd, hu, hg⟩ := h
  have hq : c ≠ '\'' := (hcq c (by simp)).2
  have hsd : stripDollar (dollar abs ++ c :: r) = (abs, c :: r) := stripDollar_dollar ⟨c, r, rfl, hd⟩
  unfold parseEnd
  simp only [quotedInner_plain abs r hq hd, hsd, List.takeWhile_cons, hu, Bool.false_eq_true, if_false,
    ne_eq, not_true_eq_false, false_and, List.all_cons, hg, Bool.false_and, and_false]


theorem parseEnd_quoteRef_label (abs : Bool) {name : Text} (h : PlainLabel name) :
    parseEnd (quoteRef (dollar abs ++ name)) = .label name abs := by
  have hn : NoCQ (dollar abs ++ name) := noCQ_dollar h.1
  obtain ⟨c, r, hcr, hd, _, _⟩ := h.2
  have hsd : stripDollar (dollar abs ++ name) = (abs, name) := stripDollar_dollar ⟨c, r, hcr, hd⟩
  unfold quoteRef
  split
  · rw [show ('\'' :: (dollar abs ++ name) ++ ['\'']) = '\'' :: ((dollar abs ++ name) ++ ['\'']) from rfl,
      parseEnd_quoted _ (fun c hc => (hn c hc).2), hsd]
  · have : (dollar abs ++ name).contains '\'' = false := by
      rw [Bool.eq_false_iff]; intro hc
      have hm : '\'' ∈ dollar abs ++ name := by simpa using hc
      exact (hn _ hm).2 rfl
    simp only [this, Bool.false_eq_true, if_false]
    exact parseEnd_plain_label abs h

theorem splitOutside_single {L : Text} (hL : LabelPart L) : splitOutside false L = some [L] := by
  rw [splitOutside_eq, finish_label false hL]; rfl

theorem parseRefText_of_parts {q : Prefix} {L : Text} (hq : PrefixPlain q) (hL : TwoSafe L)
    {ends : List Text} (hends : splitOutside false L = some ends) (hlen : ends.length = 1 ∨ ends.length = 2) :
    parseRefText (renderPrefix q ++ L) = some (q, ends.map parseEnd) := by
  unfold parseRefText
  rw [split_qualified hL hq]
  cases q <;> simp [prefixParts, hends, hlen, bind, Option.bind]

theorem parseRefText_label {q : Prefix} (hq : PrefixPlain q) (abs : Bool) {name : Text} (h : PlainLabel name) :
    parseRefText (renderPrefix q ++ quoteRef (dollar abs ++ name)) = some (q, [.label name abs]) := by
  have hL := quoteRef_labelPart (noCQ_dollar (abs := abs) h.1)
  rw [parseRefText_of_parts hq hL.twoSafe (splitOutside_single hL) (Or.inl rfl)]
  simp [parseEnd_quoteRef_label abs h]

/-- the text reader on a printed header label = `resolveLabel` on its qualification and name -/
theorem resolveText_label (doc : Doc) (host : Nat) {q : Prefix} (hq : PrefixPlain q) (abs : Bool) {name : Text}
    (h : PlainLabel name) {x : Target} (hx : resolveLabel doc host q name = some x) :
    resolveText doc host (renderPrefix q ++ quoteRef (dollar abs ++ name)) = some (x.1, [axisDenot x abs]) := by
  unfold resolveText
  simp [parseRefText_label hq abs h, hx, bind, Option.bind]


/-! ### numeric ends -/

theorem foldl_num_natStrSpec (n : Nat) : ∀ a : Nat,
    (natStrSpec n).foldl (fun v ch => v * 10 + (ch.toNat - 48)) a = a * 10 ^ (natStrSpec n).length + n := by
  induction n using Nat.strongRecOn with
  | _ n ih =>
    intro a
    unfold natStrSpec
    by_cases h : n < 10
    · simp [h, digitChar_toNat n h]
    · simp only [h, dite_false, List.foldl_append, List.foldl_cons, List.foldl_nil, List.length_append,
        List.length_cons, List.length_nil]
      rw [ih (n / 10) (by omega) a, digitChar_toNat _ (Nat.mod_lt _ (by decide)), Nat.pow_succ]
      have := Nat.div_add_mod n 10
      generalize 10 ^ (natStrSpec (n / 10)).length = p
      have : (a * p + n / 10) * 10 = a * (p * 10) + (n / 10) * 10 := by
        rw [Nat.add_mul, Nat.mul_assoc]
      omega

theorem numOf_natStr (n : Nat) : numOf (natStr n) = n := by
  rw [natStr_eq]
  have := foldl_num_natStrSpec n 0
  simpa [numOf] using this

theorem foldl_col_lettersSpec (n : Nat) :
    (lettersSpec n).foldl (fun v ch => v * 26 + (ch.toNat - 64)) 0 = n := by
  induction n using Nat.strongRecOn with
  | _ n ih =>
    unfold lettersSpec
    by_cases h : n = 0
    · subst h; simp
    · simp only [h, dite_false, List.foldl_append, List.foldl_cons, List.foldl_nil]
      rw [ih _ (by omega), letter_toNat _ (Nat.mod_lt _ (by decide))]
      omega

theorem colOf_letters (c : Nat) : colOf (letters c) = c := by
  rw [letters_eq]
  have := foldl_col_lettersSpec (c + 1)
  simp only [colOf, this]
  omega

theorem natStr_digits09 (n : Nat) : (natStr n).all isDigit09 = true := by
  rw [List.all_eq_true]
  intro c hc
  rw [natStr_eq] at hc
  exact Formula.natStrSpec_all_digits n c hc

theorem natStr_ne_nil (n : Nat) : natStr n ≠ [] := by
  obtain ⟨c, tl, h, _⟩ := natStr_head_not_upper n
  rw [h]; simp

theorem letters_upperAZ (c : Nat) : ∀ ch ∈ letters c, isUpperAZ ch = true := letters_upper c

theorem takeWhile_all {α : Type} (p : α → Bool) : ∀ (l r : List α), (∀ x ∈ l, p x = true) →
    (∀ x, r.head? = some x → p x = false) → (l ++ r).takeWhile p = l ∧ (l ++ r).dropWhile p = r
  | [], [], _, _ => by simp
  | [], x :: r, _, h2 => by simp [List.takeWhile, List.dropWhile, h2 x rfl]
  | a :: l, r, h1, h2 => by
    have ha := h1 a (by simp)
    have := takeWhile_all p l r (fun x hx => h1 x (List.mem_cons_of_mem _ hx)) h2
    simp [List.takeWhile, List.dropWhile, ha, this.1, this.2]

/-- a digit is neither `$`, `'`, `:` nor an upper-case letter -/
theorem digit09_facts {c : Char} (h : isDigit09 c = true) :
    c ≠ '$' ∧ c ≠ '\'' ∧ c ≠ ':' ∧ isUpperAZ c = false := by
  have h1 : 48 ≤ c.toNat ∧ c.toNat ≤ 57 := by
    unfold isDigit09 at h
    simpa [Char.le_def, UInt32.le_iff_toNat_le] using h
  refine ⟨?_, ?_, ?_, ?_⟩
  · rintro rfl; simp at h1
  · rintro rfl; simp at h1
  · rintro rfl; simp at h1
  · cases hu : isUpperAZ c with
    | false => rfl
    | true =>
      have := (isUpper_iff c).1 hu
      omega

theorem upperAZ_facts {c : Char} (h : isUpperAZ c = true) :
    c ≠ '$' ∧ c ≠ '\'' ∧ c ≠ ':' ∧ isDigit09 c = false := by
  have h1 := (isUpper_iff c).1 h
  refine ⟨?_, ?_, ?_, ?_⟩
  · rintro rfl; simp at h1
  · rintro rfl; simp at h1
  · rintro rfl; simp at h1
  · cases hd : isDigit09 c with
    | false => rfl
    | true => have := digit09_facts hd; rw [h] at this; simp at this


theorem natStr_head (n : Nat) : ∃ c tl, natStr n = c :: tl ∧ isDigit09 c = true := by
  have hne := natStr_ne_nil n
  cases h : natStr n with
  | nil => exact absurd h hne
  | cons c tl =>
    refine ⟨c, tl, rfl, ?_⟩
    have := natStr_digits09 n
    rw [h] at this
    simp only [List.all_cons, Bool.and_eq_true] at this
    exact this.1

theorem letters_head (c : Nat) : ∃ l0 tl, letters c = l0 :: tl ∧ isUpperAZ l0 = true := by
  have hne := letters_ne_nil c
  cases h : letters c with
  | nil => exact absurd h hne
  | cons a b => exact ⟨a, b, rfl, letters_upperAZ c a (by simp [h])⟩

theorem parseEnd_row (a : Bool) (n : Nat) : parseEnd (dollar a ++ natStr (n + 1)) = .row n a := by
  obtain ⟨c, tl, hd, hc⟩ := natStr_head (n + 1)
  obtain ⟨h1, h2, _, h4⟩ := digit09_facts hc
  have hsd : stripDollar (dollar a ++ natStr (n + 1)) = (a, natStr (n + 1)) :=
    stripDollar_dollar ⟨c, tl, hd, h1⟩
  have hall := natStr_digits09 (n + 1)
  have hnum := numOf_natStr (n + 1)
  unfold parseEnd
  rw [hd] at hsd hall hnum ⊢
  simp only [quotedInner_plain a tl h2 h1, hsd, List.takeWhile_cons, h4, Bool.false_eq_true, if_false, ne_eq,
    not_true_eq_false, false_and, hall, and_true, reduceCtorEq, not_false_eq_true, if_true, hnum,
    Nat.add_sub_cancel]

theorem parseEnd_col (a : Bool) (c : Nat) : parseEnd (dollar a ++ letters c) = .col c a := by
  obtain ⟨l0, tl, hd, hc⟩ := letters_head c
  obtain ⟨h1, h2, _, _⟩ := upperAZ_facts hc
  have hsd : stripDollar (dollar a ++ letters c) = (a, letters c) := stripDollar_dollar ⟨l0, tl, hd, h1⟩
  have htw := takeWhile_all isUpperAZ (letters c) [] (letters_upperAZ c) (by simp)
  simp only [List.append_nil] at htw
  have hne := letters_ne_nil c
  have hq : quotedInner (dollar a ++ letters c) = none := by rw [hd]; exact quotedInner_plain a tl h2 h1
  unfold parseEnd
  have hnil : stripDollar [] = (false, []) := rfl
  simp only [hq, hsd, htw.1, htw.2, hnil, ne_eq, hne, not_false_eq_true, not_true_eq_false, and_false,
    if_false, and_self, if_true, colOf_letters, false_and, and_false]

theorem parseEnd_cell (r c : Nat) (ra ca : Bool) :
    parseEnd (dollar ca ++ letters c ++ dollar ra ++ natStr (r + 1)) = .cell r c ra ca := by
  obtain ⟨l0, tl, hd, hc⟩ := letters_head c
  obtain ⟨h1, h2, _, _⟩ := upperAZ_facts hc
  obtain ⟨d0, dtl, hdd, hdc⟩ := natStr_head (r + 1)
  obtain ⟨g1, _, _, g4⟩ := digit09_facts hdc
  have hassoc : dollar ca ++ letters c ++ dollar ra ++ natStr (r + 1) =
      dollar ca ++ (letters c ++ (dollar ra ++ natStr (r + 1))) := by simp [List.append_assoc]
  have hsd : stripDollar (dollar ca ++ (letters c ++ (dollar ra ++ natStr (r + 1)))) =
      (ca, letters c ++ (dollar ra ++ natStr (r + 1))) :=
    stripDollar_dollar ⟨l0, tl ++ (dollar ra ++ natStr (r + 1)), by rw [hd]; rfl, h1⟩
  have hhead : ∀ x, (dollar ra ++ natStr (r + 1)).head? = some x → isUpperAZ x = false := by
    intro x hx
    cases ra
    · simp only [dollar, Bool.false_eq_true, if_false, List.nil_append, hdd, List.head?_cons,
        Option.some.injEq] at hx
      rw [← hx]; exact g4
    · simp only [dollar, if_true, List.cons_append, List.head?_cons, Option.some.injEq] at hx
      rw [← hx]; decide
  have htw := takeWhile_all isUpperAZ (letters c) (dollar ra ++ natStr (r + 1)) (letters_upperAZ c) hhead
  have hsd2 : stripDollar (dollar ra ++ natStr (r + 1)) = (ra, natStr (r + 1)) :=
    stripDollar_dollar ⟨d0, dtl, hdd, g1⟩
  have hq : quotedInner (dollar ca ++ (letters c ++ (dollar ra ++ natStr (r + 1)))) = none := by
    rw [hd]; exact quotedInner_plain ca _ h2 h1
  rw [hassoc]
  unfold parseEnd
  simp only [hq, hsd, htw.1, htw.2, hsd2, ne_eq, letters_ne_nil c, not_false_eq_true, natStr_ne_nil,
    natStr_digits09, and_self, if_true, numOf_natStr, Nat.add_sub_cancel, colOf_letters]


/-! ### numeric bodies -/

theorem noCQ_append {a b : Text} (ha : NoCQ a) (hb : NoCQ b) : NoCQ (a ++ b) := by
  intro c hc
  rcases List.mem_append.1 hc with h | h
  · exact ha c h
  · exact hb c h

theorem noCQ_natStr (n : Nat) : NoCQ (natStr n) := by
  intro c hc
  have := natStr_digits09 n
  rw [List.all_eq_true] at this
  obtain ⟨_, h2, h3, _⟩ := digit09_facts (this c hc)
  exact ⟨h3, h2⟩

theorem noCQ_letters (n : Nat) : NoCQ (letters n) := by
  intro c hc
  obtain ⟨_, h2, h3, _⟩ := upperAZ_facts (letters_upperAZ n c hc)
  exact ⟨h3, h2⟩

theorem noCQ_dollar_nil (a : Bool) : NoCQ (dollar a) := by
  have := noCQ_dollar (abs := a) (name := []) (fun _ h => by simp at h)
  simpa using this

theorem colon_body_twoSafe {A B : Text} (hA : NoCQ A) (hB : NoCQ B) (hne : B ≠ []) :
    TwoSafe (A ++ [':'] ++ B) := by
  intro buf acc
  obtain ⟨b0, B', rfl⟩ := List.exists_cons_of_ne_nil hne
  have hb0 := hB b0 (by simp)
  have hB' : NoCQ B' := fun x hx => hB x (List.mem_cons_of_mem _ hx)
  rw [List.foldl_append, List.foldl_append, foldl_out true A hA]
  simp only [List.foldl_cons, List.foldl_nil, splitStep, outStep, hb0.1, hb0.2, if_false, if_true,
    show (':' : Char) ≠ '\'' from by decide]
  rw [foldl_out true B' hB']
  simp [finish, List.append_assoc]

theorem colon_body_single {A B : Text} (hA : NoCQ A) (hB : NoCQ B) :
    splitOutside false (A ++ [':'] ++ B) = some [A, B] := by
  rw [splitOutside_eq, List.foldl_append, List.foldl_append, foldl_out false A hA]
  simp only [List.foldl_cons, List.foldl_nil, splitStep, outStep, if_true, Bool.false_eq_true, if_false,
    show (':' : Char) ≠ '\'' from by decide, List.nil_append]
  rw [foldl_out false B hB]
  simp [finish]

theorem resolveText_plain (doc : Doc) (host : Nat) {q : Prefix} (hq : PrefixPlain q) {L : Text} (hL : TwoSafe L)
    {ends : List Text} (hends : splitOutside false L = some ends) (hlen : ends.length = 1 ∨ ends.length = 2)
    {ds : List Denot} (hds : (ends.map parseEnd).mapM plainDenot = some ds) {t : Nat}
    (ht : resolveQual doc host q = some t) :
    resolveText doc host (renderPrefix q ++ L) = some (t, ds) := by
  unfold resolveText
  rw [parseRefText_of_parts hq hL hends hlen]
  simp only [bind, Option.bind]
  -- the ends are not labels (their `plainDenot` exists), so the last arm of the `match` applies
  cases hE : ends.map parseEnd with
  | nil => rw [hE] at hds; simp [ht, hds]
  | cons e es =>
    rw [hE] at hds
    cases e with
    | label n a => simp [plainDenot] at hds
    | cell r c ra ca => simp [ht, hds]
    | row r a => simp [ht, hds]
    | col c a => simp [ht, hds]

theorem resolveText_rows (doc : Doc) (host : Nat) {q : Prefix} (hq : PrefixPlain q) (i j : Nat) (sa ea : Bool)
    {t : Nat} (ht : resolveQual doc host q = some t) :
    resolveText doc host (renderPrefix q ++ rowsBody i j sa ea) = some (t, [.row i sa, .row j ea]) := by
  have hA : NoCQ (dollar sa ++ natStr (i + 1)) := noCQ_append (noCQ_dollar_nil sa) (noCQ_natStr _)
  have hB : NoCQ (dollar ea ++ natStr (j + 1)) := noCQ_append (noCQ_dollar_nil ea) (noCQ_natStr _)
  have hne : dollar ea ++ natStr (j + 1) ≠ [] := by
    intro h; exact natStr_ne_nil (j + 1) (List.append_eq_nil_iff.1 h).2
  exact resolveText_plain doc host hq (colon_body_twoSafe hA hB hne) (colon_body_single hA hB) (Or.inr rfl)
    (by simp [parseEnd_row, plainDenot]) ht

theorem resolveText_cols (doc : Doc) (host : Nat) {q : Prefix} (hq : PrefixPlain q) (i j : Nat) (sa ea : Bool)
    {t : Nat} (ht : resolveQual doc host q = some t) :
    resolveText doc host (renderPrefix q ++ colsBody i j sa ea) = some (t, [.col i sa, .col j ea]) := by
  have hA : NoCQ (dollar sa ++ letters i) := noCQ_append (noCQ_dollar_nil sa) (noCQ_letters _)
  have hB : NoCQ (dollar ea ++ letters j) := noCQ_append (noCQ_dollar_nil ea) (noCQ_letters _)
  have hne : dollar ea ++ letters j ≠ [] := by
    intro h; exact letters_ne_nil j (List.append_eq_nil_iff.1 h).2
  exact resolveText_plain doc host hq (colon_body_twoSafe hA hB hne) (colon_body_single hA hB) (Or.inr rfl)
    (by simp [parseEnd_col, plainDenot]) ht

theorem resolveText_col1 (doc : Doc) (host : Nat) {q : Prefix} (hq : PrefixPlain q) (i : Nat) (a : Bool)
    {t : Nat} (ht : resolveQual doc host q = some t) :
    resolveText doc host (renderPrefix q ++ (dollar a ++ letters i)) = some (t, [.col i a]) := by
  have hL : LabelPart (dollar a ++ letters i) := Or.inl (noCQ_append (noCQ_dollar_nil a) (noCQ_letters _))
  exact resolveText_plain doc host hq hL.twoSafe (splitOutside_single hL) (Or.inl rfl)
    (by simp [parseEnd_col, plainDenot]) ht

theorem noCQ_a1 (r c : Nat) (ra ca : Bool) : NoCQ (a1Text r c ra ca) :=
  noCQ_append (noCQ_append (noCQ_append (noCQ_dollar_nil ca) (noCQ_letters c)) (noCQ_dollar_nil ra)) (noCQ_natStr _)

theorem parseEnd_a1 (r c : Nat) (ra ca : Bool) : parseEnd (a1Text r c ra ca) = .cell r c ra ca :=
  parseEnd_cell r c ra ca

theorem resolveText_cell (doc : Doc) (host : Nat) {q : Prefix} (hq : PrefixPlain q) (r c : Nat) (ra ca : Bool)
    {t : Nat} (ht : resolveQual doc host q = some t) :
    resolveText doc host (renderPrefix q ++ a1Text r c ra ca) = some (t, [.cell r c ra ca]) := by
  have hL : LabelPart (a1Text r c ra ca) := Or.inl (noCQ_a1 r c ra ca)
  exact resolveText_plain doc host hq hL.twoSafe (splitOutside_single hL) (Or.inl rfl)
    (by simp [parseEnd_a1, plainDenot]) ht

theorem resolveText_rect (doc : Doc) (host : Nat) {q : Prefix} (hq : PrefixPlain q) (r1 c1 r2 c2 : Nat)
    (ra1 ca1 ra2 ca2 : Bool) {t : Nat} (ht : resolveQual doc host q = some t) :
    resolveText doc host (renderPrefix q ++ (a1Text r1 c1 ra1 ca1 ++ [':'] ++ a1Text r2 c2 ra2 ca2)) =
      some (t, [.cell r1 c1 ra1 ca1, .cell r2 c2 ra2 ca2]) := by
  have hne : a1Text r2 c2 ra2 ca2 ≠ [] := by
    intro h; exact natStr_ne_nil (r2 + 1) (List.append_eq_nil_iff.1 h).2
  exact resolveText_plain doc host hq (colon_body_twoSafe (noCQ_a1 _ _ _ _) (noCQ_a1 _ _ _ _) hne)
    (colon_body_single (noCQ_a1 _ _ _ _) (noCQ_a1 _ _ _ _)) (Or.inr rfl)
    (by simp [parseEnd_a1, plainDenot]) ht


/-! ### label spans `a:b` -/

theorem foldl_labelPart (two : Bool) {L : Text} (hL : LabelPart L) (buf : Text) (acc : List Text) :
    ∃ st, (st = SplitSt.out ∨ st = SplitSt.inqq) ∧
      L.foldl (splitStep two) { st := .out, buf := buf, acc := acc } = { st := st, buf := buf ++ L, acc := acc } := by
  rcases hL with h | ⟨b, rfl, hb⟩
  · exact ⟨.out, Or.inl rfl, foldl_out two L h buf acc⟩
  · refine ⟨.inqq, Or.inr rfl, ?_⟩
    simp only [List.foldl_cons, List.foldl_append, List.foldl_nil, splitStep, outStep, if_true]
    rw [foldl_inq two b hb]
    simp [splitStep]

theorem labelPart_ne_nil_head {L : Text} (hL : LabelPart L) (hne : L ≠ []) :
    ∃ b0 L', L = b0 :: L' ∧ b0 ≠ ':' := by
  obtain ⟨b0, L', rfl⟩ := List.exists_cons_of_ne_nil hne
  refine ⟨b0, L', rfl, ?_⟩
  rcases hL with h | ⟨b, hb, _⟩
  · exact (h b0 (by simp)).1
  · simp only [List.cons_append, List.cons.injEq] at hb
    rw [hb.1]; decide

theorem span_twoSafe {LA LB : Text} (hA : LabelPart LA) (hB : LabelPart LB) (hne : LB ≠ []) :
    TwoSafe (LA ++ [':'] ++ LB) := by
  intro buf acc
  obtain ⟨st, hst, hfa⟩ := foldl_labelPart true hA buf acc
  obtain ⟨b0, LB', rfl, hb0⟩ := labelPart_ne_nil_head hB hne
  rw [List.foldl_append, List.foldl_append, hfa]
  have hcolon : [':'].foldl (splitStep true) { st := st, buf := buf ++ LA, acc := acc } =
      { st := .colon, buf := buf ++ LA, acc := acc } := by
    rcases hst with rfl | rfl <;>
      simp [splitStep, outStep, show (':' : Char) ≠ '\'' from by decide]
  rw [hcolon]
  have hstep : (b0 :: LB').foldl (splitStep true) { st := .colon, buf := buf ++ LA, acc := acc } =
      (b0 :: LB').foldl (splitStep true) { st := .out, buf := buf ++ LA ++ [':'], acc := acc } := by
    simp only [List.foldl_cons, splitStep, hb0, if_false]
  rw [hstep, finish_label true hB]
  simp [List.append_assoc]

theorem span_single {LA LB : Text} (hA : LabelPart LA) (hB : LabelPart LB) :
    splitOutside false (LA ++ [':'] ++ LB) = some [LA, LB] := by
  obtain ⟨st, hst, hfa⟩ := foldl_labelPart false hA [] []
  rw [splitOutside_eq, List.foldl_append, List.foldl_append, hfa]
  have hcolon : [':'].foldl (splitStep false) { st := st, buf := [] ++ LA, acc := [] } =
      { st := .out, buf := [], acc := [LA] } := by
    rcases hst with rfl | rfl <;>
      simp [splitStep, outStep, show (':' : Char) ≠ '\'' from by decide]
  rw [hcolon, finish_label false hB]
  rfl

theorem quoteRef_ne_nil {s : Text} (h : s ≠ []) : quoteRef s ≠ [] := by
  unfold quoteRef
  split
  · simp
  · split
    · obtain ⟨c, r, rfl⟩ := List.exists_cons_of_ne_nil h
      unfold tripleQuotes; split <;> simp
    · exact h

theorem resolveText_span (doc : Doc) (host : Nat) {q : Prefix} (hq : PrefixPlain q) (sa ea : Bool) {a b : Text}
    (ha : PlainLabel a) (hb : PlainLabel b) {x y : Target} (hx : resolveSpan doc host q a b = some (x, y)) :
    resolveText doc host (renderPrefix q ++ (quoteRef (dollar sa ++ a) ++ [':'] ++ quoteRef (dollar ea ++ b))) =
      some (x.1, [axisDenot x sa, axisDenot y ea]) := by
  have hA := quoteRef_labelPart (noCQ_dollar (abs := sa) ha.1)
  have hB := quoteRef_labelPart (noCQ_dollar (abs := ea) hb.1)
  have hne : quoteRef (dollar ea ++ b) ≠ [] := by
    apply quoteRef_ne_nil
    obtain ⟨c, r, hcr, _⟩ := hb.2
    rw [hcr]; simp
  unfold resolveText
  rw [parseRefText_of_parts hq (span_twoSafe hA hB hne) (span_single hA hB) (Or.inr rfl)]
  simp [parseEnd_quoteRef_label, ha, hb, hx, bind, Option.bind]


/-! ### printed forms, read as text -/

/-- what the text reader needs of the document's names (everything else is outside the quantifier of C09):
    no `:` / `'` in sheet and table names; header names are `PlainLabel`s (no `:` / `'`, first character not
    `$`, `A-Z` or a digit — i.e. they cannot be mistaken for `$`-marks, column letters or row numbers) -/
structure PlainNames (doc : Doc) : Prop where
  sheets : ∀ s ∈ doc, NoCQ s.name
  tables : ∀ t ∈ allTables doc, NoCQ t.name
  labels : ∀ t ∈ allTables doc, ∀ x, labelHits t x ≠ [] → PlainLabel x

theorem prefixPlain_of_allowed {q : Prefix} {allowed : List Text} (hq : ∀ n ∈ prefixParts q, n ∈ allowed)
    (ha : ∀ n ∈ allowed, NoCQ n) : PrefixPlain q := fun n hn => ha n (hq n hn)

theorem allowed_plain {doc : Doc} (hp : PlainNames doc) {ts : Sheet} {target : Table} (hts : ts ∈ doc)
    (htt : target ∈ ts.tables) : ∀ n ∈ [ts.name, target.name], NoCQ n := by
  intro n hn
  simp only [List.mem_cons, List.not_mem_nil, or_false] at hn
  rcases hn with rfl | rfl
  · exact hp.sheets ts hts
  · exact hp.tables target (mem_allTables hts htt)

theorem LabelForm.text {doc : Doc} (hp : PlainNames doc) {host : Nat} {tgt : Target} {abs : Bool}
    {allowed : List Text} (ha : ∀ n ∈ allowed, NoCQ n) {t : Text} (hf : LabelForm doc host tgt abs allowed t) :
    resolveText doc host t = some (tgt.1, [axisDenot tgt abs]) := by
  obtain ⟨q, name, rfl, hres, hq, tb, htb, hhit⟩ := hf
  exact resolveText_label doc host (prefixPlain_of_allowed hq ha) abs
    (hp.labels tb htb name (by rw [hhit]; simp)) hres

theorem SpanForm.text {doc : Doc} (hp : PlainNames doc) {host : Nat} {x y : Target} {xa ya : Bool}
    {allowed : List Text} (ha : ∀ n ∈ allowed, NoCQ n) {t : Text} (hf : SpanForm doc host x y xa ya allowed t) :
    resolveText doc host t = some (x.1, [axisDenot x xa, axisDenot y ya]) := by
  obtain ⟨q, a, b, rfl, hres, hq, tb, htb, hha, hhb⟩ := hf
  exact resolveText_span doc host (prefixPlain_of_allowed hq ha) xa ya
    (hp.labels tb htb a (by rw [hha]; simp)) (hp.labels tb htb b (by rw [hhb]; simp)) hres

theorem PlainForm.text_rows {doc : Doc} {host tid : Nat} {i j : Nat} {sa ea : Bool} {allowed : List Text}
    (ha : ∀ n ∈ allowed, NoCQ n) {t : Text} (hf : PlainForm doc host tid (rowsBody i j sa ea) allowed t) :
    resolveText doc host t = some (tid, [.row i sa, .row j ea]) := by
  obtain ⟨q, rfl, hres, hq⟩ := hf
  exact resolveText_rows doc host (prefixPlain_of_allowed hq ha) i j sa ea hres

theorem PlainForm.text_cols {doc : Doc} {host tid : Nat} {i j : Nat} {sa ea : Bool} {allowed : List Text}
    (ha : ∀ n ∈ allowed, NoCQ n) {t : Text} (hf : PlainForm doc host tid (colsBody i j sa ea) allowed t) :
    resolveText doc host t = some (tid, [.col i sa, .col j ea]) := by
  obtain ⟨q, rfl, hres, hq⟩ := hf
  exact resolveText_cols doc host (prefixPlain_of_allowed hq ha) i j sa ea hres

theorem PlainForm.text_col1 {doc : Doc} {host tid : Nat} {i : Nat} {a : Bool} {allowed : List Text}
    (ha : ∀ n ∈ allowed, NoCQ n) {t : Text} (hf : PlainForm doc host tid (dollar a ++ letters i) allowed t) :
    resolveText doc host t = some (tid, [.col i a]) := by
  obtain ⟨q, rfl, hres, hq⟩ := hf
  exact resolveText_col1 doc host (prefixPlain_of_allowed hq ha) i a hres


/-! ### a decidable check for `PlainNames` (used for the non-vacuity examples) -/

def noCQB (s : Text) : Bool := s.all (fun c => c != ':' && c != '\'')

def plainLabelB (s : Text) : Bool :=
  noCQB s && match s with
    | c :: _ => c != '$' && !isUpperAZ c && !isDigit09 c
    | [] => false

theorem noCQ_of_check {s : Text} (h : noCQB s = true) : NoCQ s := by
  intro c hc
  have := List.all_eq_true.1 h c hc
  simpa using this

theorem plainLabel_of_check {s : Text} (h : plainLabelB s = true) : PlainLabel s := by
  unfold plainLabelB at h
  rw [Bool.and_eq_true] at h
  refine ⟨noCQ_of_check h.1, ?_⟩
  cases s with
  | nil => simp at h
  | cons c r =>
    have h2 := h.2
    simp only [Bool.and_eq_true, bne_iff_ne, ne_eq, Bool.not_eq_true'] at h2
    exact ⟨c, r, rfl, h2.1.1, h2.1.2, h2.2⟩

theorem labelHits_ne_nil_mem {t : Table} {x : Text} (h : labelHits t x ≠ []) : x ≠ [] ∧ x ∈ texts t := by
  unfold labelHits at h
  by_cases hx : x = []
  · simp [hx] at h
  · refine ⟨hx, ?_⟩
    simp only [hx, if_false] at h
    cases hC : (headerCells t).filter (fun c => c.2.2 = x) with
    | nil => rw [hC] at h; simp at h
    | cons c C =>
      have hm : c ∈ (headerCells t).filter (fun c => c.2.2 = x) := by rw [hC]; simp
      rw [List.mem_filter] at hm
      have hcx : c.2.2 = x := by simpa using hm.2
      unfold texts
      rw [← hcx]
      exact List.mem_map_of_mem hm.1

theorem plainNames_of_check (doc : Doc) (h1 : doc.all (fun s => noCQB s.name) = true)
    (h2 : (allTables doc).all (fun t => noCQB t.name && (texts t).all (fun x => x.isEmpty || plainLabelB x)) = true) :
    PlainNames doc := by
  refine ⟨fun s hs => noCQ_of_check (List.all_eq_true.1 h1 s hs), fun t ht => ?_, fun t ht x hx => ?_⟩
  · have := List.all_eq_true.1 h2 t ht
    rw [Bool.and_eq_true] at this
    exact noCQ_of_check this.1
  · have := List.all_eq_true.1 h2 t ht
    rw [Bool.and_eq_true] at this
    obtain ⟨hne, hmem⟩ := labelHits_ne_nil_mem hx
    have hx' := List.all_eq_true.1 this.2 x hmem
    rw [Bool.or_eq_true] at hx'
    rcases hx' with h | h
    · exact absurd (List.isEmpty_iff.1 h) hne
    · exact plainLabel_of_check h


/-! ### the printed text of the model, read by `resolveText` -/

theorem refText_text_resolves {doc : Doc} (h : WellFormedDoc doc) (hp : PlainNames doc) {hs ts : Sheet}
    {host target : Table} (hhs : hs ∈ doc) (hht : host ∈ hs.tables) (hts : ts ∈ doc) (htt : target ∈ ts.tables)
    (row col : Int) (sa ea short : Bool) (tgt : Option Nat) (hto : tgt.getD host.id = target.id) :
    (∀ i, i < target.nRows →
      ∃ t, refText false doc host.id row col (rowNode row i sa tgt) = .ok t ∧
        (resolveText doc host.id t = some (target.id, [.row i sa]) ∨
         resolveText doc host.id t = some (target.id, [.row i sa, .row i sa]))) ∧
    (∀ i, i < target.nCols →
      ∃ t, refText false doc host.id row col (colNode col i sa tgt) = .ok t ∧
        resolveText doc host.id t = some (target.id, [.col i sa])) ∧
    (∀ i j, i < target.nRows → j < target.nRows → i < 0x7FFFFFFF → j < 0x7FFFFFFF →
      ∃ t, refText false doc host.id row col (encodeRows row ⟨i, j, sa, ea⟩ short tgt) = .ok t ∧
        resolveText doc host.id t = some (target.id, [.row i sa, .row j ea])) ∧
    (∀ i j, i < target.nCols → j < target.nCols → i < 0x7FFF → j < 0x7FFF →
      ∃ t, refText false doc host.id row col (encodeCols col ⟨i, j, sa, ea⟩ short tgt) = .ok t ∧
        resolveText doc host.id t = some (target.id, [.col i sa, .col j ea])) := by
  have ha := allowed_plain hp hts htt
  obtain ⟨h1, h2⟩ := refText_single_sound h hhs hht hts htt row col sa tgt hto
  obtain ⟨h3, h4⟩ := refText_span_sound h hhs hht hts htt row col sa ea short tgt hto
  refine ⟨?_, ?_, ?_, ?_⟩
  · intro i hi
    obtain ⟨t, ht, hf | hf⟩ := h1 i hi
    · exact ⟨t, ht, Or.inl (hf.text hp ha)⟩
    · exact ⟨t, ht, Or.inr (hf.text_rows ha)⟩
  · intro i hi
    obtain ⟨t, ht, hf | hf⟩ := h2 i hi
    · exact ⟨t, ht, hf.text hp ha⟩
    · exact ⟨t, ht, hf.text_col1 ha⟩
  · intro i j hi hj hi' hj'
    obtain ⟨t, ht, hf | hf⟩ := h3 i j hi hj hi' hj'
    · exact ⟨t, ht, hf.text hp ha⟩
    · exact ⟨t, ht, hf.text_rows ha⟩
  · intro i j hi hj hi' hj'
    obtain ⟨t, ht, hf | hf⟩ := h4 i j hi hj hi' hj'
    · exact ⟨t, ht, hf.text hp ha⟩
    · exact ⟨t, ht, hf.text_cols ha⟩

theorem refText_cell_text_resolves {doc : Doc} (h : WellFormedDoc doc) (hp : PlainNames doc) {hs ts : Sheet}
    {host target : Table} (hhs : hs ∈ doc) (hht : host ∈ hs.tables) (hts : ts ∈ doc) (htt : target ∈ ts.tables)
    (row col : Int) (tgt : Option Nat) (hto : tgt.getD host.id = target.id) :
    (∀ (n : RefNode) (r' c' : Nat), n.hasTract = false → n.hasRow = true → n.hasCol = true → n.toTable = tgt →
      (if n.rowAbs then n.row else row + n.row) = (r' : Int) →
      (if n.colAbs then n.col else col + n.col) = (c' : Int) →
      ∃ t, refText false doc host.id row col n = .ok t ∧
        resolveText doc host.id t = some (target.id, [.cell r' c' n.rowAbs n.colAbs])) ∧
    (∀ (rb re cb ce : Nat) (rbAbs reAbs cbAbs ceAbs short : Bool),
      rb < 0x7FFFFFFF → re < 0x7FFFFFFF → cb < 0x7FFF → ce < 0x7FFF →
      ∃ t, refText false doc host.id row col
          (encodeRect row col ⟨rb, re, rbAbs, reAbs⟩ ⟨cb, ce, cbAbs, ceAbs⟩ short tgt) = .ok t ∧
        resolveText doc host.id t = some (target.id, [.cell rb cb rbAbs cbAbs, .cell re ce reAbs ceAbs])) := by
  have hn := h.toNamesOK
  have ha := allowed_plain hp hts htt
  have hq : PrefixPlain (prefixT doc hs ts host target none false) :=
    prefixPlain_of_allowed (prefixT_parts _ _ _ _ _ _ _) ha
  have hres := resolveQual_prefixT_plain hn hhs hht hts htt false
  have hpre : choosePrefix doc host.id (tgt.getD host.id) none false =
      .ok (prefixT doc hs ts host target none false) := by
    rw [hto]; exact choosePrefix_eq hn hhs hht hts htt none false
  constructor
  · intro n r' c' hnt hr hc hnto hr' hc'
    subst hnto
    refine ⟨_, refText_cell doc _ (nameCache_ok h) host.id row col n hnt hr hc r' c' hr' hc' _ hpre, ?_⟩
    exact resolveText_cell doc host.id hq r' c' n.rowAbs n.colAbs hres
  · intro rb re cb ce rbAbs reAbs cbAbs ceAbs short h1 h2 h3 h4
    refine ⟨_, refText_rect doc _ (nameCache_ok h) host.id row col rb re cb ce rbAbs reAbs cbAbs ceAbs short tgt
      h1 h2 h3 h4 _ hpre, ?_⟩
    rw [List.append_assoc (renderPrefix _), List.append_assoc (renderPrefix _)]
    exact resolveText_rect doc host.id hq rb cb re ce rbAbs cbAbs reAbs ceAbs hres

end NumbersModel.RefsSpec
