/-
Helper lemmas for Model/Grid.lean (C03, reused by C12).
-/
import NumbersModel.Model.Grid
import Mathlib.Tactic.Ring
import Mathlib.Tactic.Linarith
set_option linter.unusedSimpArgs false
set_option linter.unusedVariables false
namespace NumbersModel.Grid
open NumbersModel

/-! ### Python list primitives on in-range natural indices -/

theorem pyIndex_nat {β} (l : List β) (i : Nat) (x : β) (h : l[i]? = some x) :
    pyIndex l (i : Int) = .ok x := by
  have hl : i < l.length := by
    rcases Nat.lt_or_ge i l.length with h' | h'
    · exact h'
    · rw [List.getElem?_eq_none h'] at h; cases h
  have h1 : ¬ ((i : Int) < 0) := by omega
  simp only [pyIndex, if_neg h1]
  have h2 : ¬ ((i : Int) < 0 ∨ (i : Int) ≥ (l.length : Int)) := by omega
  rw [if_neg h2]
  simp [h]

theorem pyIndex_nat_err {β} (l : List β) (i : Nat) (h : l.length ≤ i) :
    pyIndex l (i : Int) = .error .IndexError := by
  have h1 : ¬ ((i : Int) < 0) := by omega
  simp only [pyIndex, if_neg h1]
  have h2 : ((i : Int) < 0 ∨ (i : Int) ≥ (l.length : Int)) := by omega
  rw [if_pos h2]

theorem pySetItem_nat {β} (l : List β) (i : Nat) (x : β) (h : i < l.length) :
    pySetItem l (i : Int) x = .ok (l.set i x) := by
  have h1 : ¬ ((i : Int) < 0) := by omega
  simp only [pySetItem, if_neg h1]
  have h2 : ¬ ((i : Int) < 0 ∨ (i : Int) ≥ (l.length : Int)) := by omega
  rw [if_neg h2]
  simp

theorem pyClamp_nat (n i d : Nat) (h : i ≤ n) : pyClamp n (some (i : Int)) d = i := by
  unfold pyClamp
  have h1 : ¬ ((i : Int) < 0) := by omega
  have h2 : ¬ ((i : Int) > (n : Int)) := by omega
  simp [h1, h2]

theorem pyInsertAt_nat {β} (l : List β) (i : Nat) (xs : List β) (h : i ≤ l.length) :
    pyInsertAt l (i : Int) xs = insertAt l i xs := by
  unfold pyInsertAt insertAt
  simp [pyClamp_nat _ _ _ h]

theorem pyDelSlice_nat {β} (l : List β) (a n : Nat) (h : a + n ≤ l.length) :
    pyDelSlice l (some (a : Int)) (some ((a : Int) + (n : Int))) = removeAt l a n := by
  unfold pyDelSlice removeAt
  have e : ((a : Int) + (n : Int)) = ((a + n : Nat) : Int) := by omega
  rw [e, pyClamp_nat _ _ _ h, pyClamp_nat _ _ _ (by omega : a ≤ l.length)]
  by_cases hn : n = 0
  · subst hn; simp
  · have : ¬ (a + n ≤ a) := by omega
    simp [this]

theorem pyDelSlice_tail {β} (l : List β) (a : Nat) (h : a ≤ l.length) :
    pyDelSlice l (some (a : Int)) none = removeAt l a (l.length - a) := by
  unfold pyDelSlice removeAt
  rw [pyClamp_nat _ _ _ h]
  simp only [pyClamp]
  have e : a + (l.length - a) = l.length := by omega
  rw [e]
  by_cases hn : l.length ≤ a
  · have : a = l.length := by omega
    subst this; simp
  · simp [hn]

/-! ### loops -/

/-- pure counterpart of `forRange`: `for i in range(lo, lo + n): s = G i s`. -/
def iter {σ} (G : Nat → σ → σ) : Nat → Nat → σ → σ
  | 0, _, s => s
  | n + 1, i, s => iter G n (i + 1) (G i s)

/-- A `forRange` loop whose every step inside `[lo, hi)` either raises or computes `G i`
    (and certainly computes it when `Good i`) is, when it finishes, the pure loop `iter G`. -/
theorem forRange_iter {σ} (F : Int → σ → PyM σ) (G : Nat → σ → σ) (Inv : Nat → σ → Prop)
    (Good : Nat → Prop) (hi : Nat)
    (hstep : ∀ i s, i < hi → Inv i s →
      (Good i → F (i : Int) s = .ok (G i s)) ∧ (∀ x, F (i : Int) s = .ok x → x = G i s) ∧ Inv (i + 1) (G i s)) :
    ∀ n lo s, lo + n ≤ hi → Inv lo s →
      ((∀ i, lo ≤ i → i < lo + n → Good i) → forRange F n (lo : Int) s = .ok (iter G n lo s)) ∧
      (∀ x, forRange F n (lo : Int) s = .ok x → x = iter G n lo s) ∧ Inv (lo + n) (iter G n lo s) := by
  intro n
  induction n with
  | zero =>
    intro lo s _ hinv
    refine ⟨fun _ => rfl, ?_, hinv⟩
    intro x hx; simp only [forRange] at hx; cases hx; rfl
  | succ n ih =>
    intro lo s hle hinv
    obtain ⟨h1, h2, h3⟩ := hstep lo s (by omega) hinv
    have e : ((lo : Int) + 1) = ((lo + 1 : Nat) : Int) := by omega
    obtain ⟨i1, i2, i3⟩ := ih (lo + 1) (G lo s) (by omega) h3
    refine ⟨?_, ?_, ?_⟩
    · intro hg
      simp only [forRange, h1 (hg lo (by omega) (by omega)), e, iter]
      exact i1 (fun i a b => hg i (by omega) (by omega))
    · intro x hx
      simp only [forRange] at hx
      cases hF : F (lo : Int) s with
      | error err => rw [hF] at hx; cases hx
      | ok s' =>
        rw [hF] at hx
        have := h2 s' hF
        subst this
        rw [e] at hx
        simpa [iter] using i2 x hx
    · have : lo + (n + 1) = lo + 1 + n := by omega
      rw [this]; simpa [iter] using i3

/-- the common case: every step succeeds. -/
theorem forRange_iter_ok {σ} (F : Int → σ → PyM σ) (G : Nat → σ → σ) (Inv : Nat → σ → Prop) (hi : Nat)
    (hstep : ∀ i s, i < hi → Inv i s → F (i : Int) s = .ok (G i s) ∧ Inv (i + 1) (G i s))
    (n lo : Nat) (s : σ) (hle : lo + n ≤ hi) (hinv : Inv lo s) :
    forRange F n (lo : Int) s = .ok (iter G n lo s) ∧ Inv (lo + n) (iter G n lo s) := by
  have := forRange_iter F G Inv (fun _ => True) hi
    (fun i s hi' hI => ⟨fun _ => (hstep i s hi' hI).1,
      fun x hx => by rw [(hstep i s hi' hI).1] at hx; cases hx; rfl, (hstep i s hi' hI).2⟩) n lo s hle hinv
  exact ⟨this.1 (fun _ _ _ => trivial), this.2.2⟩

theorem iter_congr {σ} (G G' : Nat → σ → σ) (n lo : Nat) (s : σ)
    (h : ∀ i s, lo ≤ i → i < lo + n → G i s = G' i s) : iter G n lo s = iter G' n lo s := by
  induction n generalizing lo s with
  | zero => rfl
  | succ n ih =>
    simp only [iter]
    rw [h lo s (by omega) (by omega)]
    exact ih _ _ (fun i s a b => h i s (by omega) (by omega))

/-- `for i in range(lo, lo+n): l[i] = g i l[i]` is a `mapIdx`. -/
theorem iter_modify {β} (g : Nat → β → β) (n lo : Nat) (l : List β) :
    iter (fun i l => l.modify i (g i)) n lo l
      = l.mapIdx (fun i x => if lo ≤ i ∧ i < lo + n then g i x else x) := by
  induction n generalizing lo l with
  | zero =>
    simp only [iter]
    apply List.ext_getElem?; intro i
    rw [List.getElem?_mapIdx]
    have : ¬ (lo ≤ i ∧ i < lo + 0) := by omega
    simp only [this, if_false]
    cases l[i]? <;> rfl
  | succ n ih =>
    simp only [iter]
    rw [ih]
    apply List.ext_getElem?; intro i
    rw [List.getElem?_mapIdx, List.getElem?_mapIdx, List.getElem?_modify]
    cases l[i]? with
    | none => rfl
    | some x =>
      simp only [Option.map_some, Functor.map]
      by_cases h : lo = i
      · subst h
        have a : ¬ (lo + 1 ≤ lo ∧ lo < lo + 1 + n) := by omega
        have b : (lo ≤ lo ∧ lo < lo + (n + 1)) := by omega
        simp [a, b]
      · by_cases h2 : lo + 1 ≤ i ∧ i < lo + 1 + n
        · have b : (lo ≤ i ∧ i < lo + (n + 1)) := by omega
          simp [h, h2, b]
        · have b : ¬ (lo ≤ i ∧ i < lo + (n + 1)) := by omega
          simp [h, h2, b]

theorem modify_modify {β} (l : List β) (i : Nat) (f g : β → β) :
    (l.modify i f).modify i g = l.modify i (g ∘ f) := by
  apply List.ext_getElem?; intro j
  simp only [List.getElem?_modify]
  cases l[j]? with
  | none => rfl
  | some x => by_cases h : i = j <;> simp [h, Functor.map]

/-- a loop that only ever touches element `r` of a list is one `modify` at `r`. -/
theorem iter_lift_modify {β} (h : Nat → β → β) (r n lo : Nat) (l : List β) :
    iter (fun i l => l.modify r (h i)) n lo l = l.modify r (iter h n lo) := by
  induction n generalizing lo l with
  | zero =>
    simp only [iter]
    apply List.ext_getElem?; intro j
    simp only [List.getElem?_modify]
    cases l[j]? with
    | none => rfl
    | some x => by_cases h : r = j <;> simp [h, Functor.map, iter]
  | succ n ih =>
    simp only [iter]
    rw [ih, modify_modify]
    congr 1

theorem compRange_eq {β} (g : Int → β) (n : Nat) (lo : Int) :
    compRange g n lo = (List.range n).map (fun (k : Nat) => g (lo + (k : Int))) := by
  induction n generalizing lo with
  | zero => rfl
  | succ n ih =>
    rw [compRange, ih, List.range_succ_eq_map, List.map_cons, List.map_map]
    congr 1
    · simp
    · apply List.map_congr_left; intro k _
      simp only [Function.comp]
      congr 1; push_cast; ring

theorem compRange_const {β} (x : β) (n : Nat) (lo : Int) :
    compRange (fun _ => x) n lo = List.replicate n x := by
  induction n generalizing lo with
  | zero => rfl
  | succ n ih => simp only [compRange, ih, List.replicate_succ]

/-! ### canonical grids -/

variable {α : Type}

/-- the row of cells a plain row of values stands for. -/
def canonRow (r : Nat) (vs : List α) : List (CellM α) := vs.mapIdx (fun c v => ⟨r, c, v⟩)
/-- the `_data` a plain grid stands for: every cell knows its own position. -/
def canon (g : List (List α)) : List (List (CellM α)) := g.mapIdx canonRow
def vals (d : List (List (CellM α))) : List (List α) := d.map (fun r => r.map (·.val))
/-- a plain grid is rectangular `nr × nc`. -/
def Rect (g : List (List α)) (nr nc : Nat) : Prop := g.length = nr ∧ ∀ row ∈ g, row.length = nc
/-- the table state a plain grid stands for. -/
def mk (nr nc : Nat) (g : List (List α)) : State α := { numRows := nr, numCols := nc, data := canon g }
/-- `cell.row = r; cell.col = c` for every cell of row `r`. -/
def renumRow (r : Nat) (rowl : List (CellM α)) : List (CellM α) := rowl.mapIdx (fun c cell => ⟨r, c, cell.val⟩)
/-- `cell.col = c` for every cell of a row. -/
def renumCol (rowl : List (CellM α)) : List (CellM α) := rowl.mapIdx (fun c cell => { cell with col := c })

@[simp] theorem canonRow_length (r : Nat) (vs : List α) : (canonRow r vs).length = vs.length := by
  simp [canonRow]
@[simp] theorem canon_length (g : List (List α)) : (canon g).length = g.length := by simp [canon]
@[simp] theorem renumRow_length (r : Nat) (l : List (CellM α)) : (renumRow r l).length = l.length := by
  simp [renumRow]
@[simp] theorem renumCol_length (l : List (CellM α)) : (renumCol l).length = l.length := by
  simp [renumCol]

theorem canon_getElem? (g : List (List α)) (r : Nat) : (canon g)[r]? = (g[r]?).map (canonRow r) := by
  simp [canon, List.getElem?_mapIdx]

theorem canonRow_getElem? (r : Nat) (vs : List α) (c : Nat) :
    (canonRow r vs)[c]? = (vs[c]?).map (fun v => ⟨r, c, v⟩) := by
  simp [canonRow, List.getElem?_mapIdx]

theorem map_val_canonRow (r : Nat) (vs : List α) : (canonRow r vs).map (·.val) = vs := by
  apply List.ext_getElem?; intro c
  simp only [List.getElem?_map, canonRow_getElem?]
  cases vs[c]? <;> rfl

theorem vals_canon (g : List (List α)) : vals (canon g) = g := by
  apply List.ext_getElem?; intro r
  simp only [vals, List.getElem?_map, canon_getElem?]
  cases g[r]? with
  | none => rfl
  | some vs => simp [map_val_canonRow]

theorem renumRow_eq (r : Nat) (l : List (CellM α)) : renumRow r l = canonRow r (l.map (·.val)) := by
  apply List.ext_getElem?; intro c
  simp only [renumRow, canonRow, List.getElem?_mapIdx, List.getElem?_map]
  cases l[c]? <;> rfl

theorem renumRow_canonRow (r : Nat) (vs : List α) : renumRow r (canonRow r vs) = canonRow r vs := by
  rw [renumRow_eq, map_val_canonRow]

theorem canon_vals (d : List (List (CellM α))) : canon (vals d) = d.mapIdx renumRow := by
  apply List.ext_getElem?; intro r
  simp only [canon_getElem?, vals, List.getElem?_map, List.getElem?_mapIdx]
  cases d[r]? with
  | none => rfl
  | some l => simp [renumRow_eq]

/-- renumbering the rows from `lo` on gives the canonical grid as soon as the rows before
    `lo` already are canonical. -/
theorem renum_from_eq_canon (d : List (List (CellM α))) (lo hi : Nat) (hlen : d.length ≤ hi)
    (hfix : ∀ r rowl, r < lo → d[r]? = some rowl → renumRow r rowl = rowl) :
    d.mapIdx (fun r rowl => if lo ≤ r ∧ r < hi then renumRow r rowl else rowl) = canon (vals d) := by
  rw [canon_vals]
  apply List.ext_getElem?; intro r
  simp only [List.getElem?_mapIdx]
  cases h : d[r]? with
  | none => rfl
  | some l =>
    have hr : r < d.length := by
      rcases Nat.lt_or_ge r d.length with h' | h'
      · exact h'
      · rw [List.getElem?_eq_none h'] at h; cases h
    simp only [Option.map_some]
    by_cases hlo : lo ≤ r
    · have : lo ≤ r ∧ r < hi := ⟨hlo, by omega⟩
      simp [this]
    · have : ¬ (lo ≤ r ∧ r < hi) := by omega
      simp only [this, if_false]
      rw [hfix r l (by omega) h]

theorem set_eq_modify' {β} (l : List β) (i : Nat) (x : β) (f : β → β) (h : l[i]? = some x) :
    l.set i (f x) = l.modify i f := by
  apply List.ext_getElem?; intro j
  rw [List.getElem?_set, List.getElem?_modify]
  by_cases hij : i = j
  · subst hij
    have hl : i < l.length := by
      rcases Nat.lt_or_ge i l.length with h' | h'
      · exact h'
      · rw [List.getElem?_eq_none h'] at h; cases h
    rw [h]; simp [hl]
  · simp only [hij, if_false]
    cases l[j]? <;> rfl

theorem getElem?_lt {β} {l : List β} {i : Nat} {x : β} (h : l[i]? = some x) : i < l.length := by
  rcases Nat.lt_or_ge i l.length with h' | h'
  · exact h'
  · rw [List.getElem?_eq_none h'] at h; cases h

theorem modify_getElem?_self {β} (l : List β) (i : Nat) (f : β → β) (x : β) (h : l[i]? = some x) :
    (l.modify i f)[i]? = some (f x) := by
  rw [List.getElem?_modify, h]; simp

theorem modify_getElem?_ne {β} (l : List β) (i j : Nat) (f : β → β) (h : i ≠ j) :
    (l.modify i f)[j]? = l[j]? := by
  rw [List.getElem?_modify]; cases l[j]? <;> simp [h]

theorem mapIdx_if_all {β} (l : List β) (g : Nat → β → β) (n : Nat) (h : l.length ≤ n) :
    l.mapIdx (fun i x => if 0 ≤ i ∧ i < 0 + n then g i x else x) = l.mapIdx g := by
  apply List.ext_getElem?; intro i
  simp only [List.getElem?_mapIdx]
  cases hx : l[i]? with
  | none => rfl
  | some x =>
    have := getElem?_lt hx
    have : 0 ≤ i ∧ i < 0 + n := by omega
    simp only [this, if_true, and_self]

/-! ### the renumbering loops -/

theorem setRowCol_nat (d : List (List (CellM α))) (r c : Nat) (rowl : List (CellM α)) (cell : CellM α)
    (hr : d[r]? = some rowl) (hc : rowl[c]? = some cell) :
    setRowCol d (r : Int) (c : Int)
      = .ok (d.modify r (fun l => l.modify c (fun x => ⟨r, c, x.val⟩))) := by
  simp only [setRowCol, pyIndex_nat d r rowl hr, pyIndex_nat rowl c cell hc, bind, Except.bind,
    pySetItem_nat rowl c _ (getElem?_lt hc), pySetItem_nat d r _ (getElem?_lt hr)]
  rw [← set_eq_modify' d r rowl _ hr, ← set_eq_modify' rowl c cell (fun x => ⟨r, c, x.val⟩) hc]

theorem setCol_nat (d : List (List (CellM α))) (r c : Nat) (rowl : List (CellM α)) (cell : CellM α)
    (hr : d[r]? = some rowl) (hc : rowl[c]? = some cell) :
    setCol d (r : Int) (c : Int)
      = .ok (d.modify r (fun l => l.modify c (fun x => { x with col := c }))) := by
  simp only [setCol, pyIndex_nat d r rowl hr, pyIndex_nat rowl c cell hc, bind, Except.bind,
    pySetItem_nat rowl c _ (getElem?_lt hc), pySetItem_nat d r _ (getElem?_lt hr)]
  rw [← set_eq_modify' d r rowl _ hr, ← set_eq_modify' rowl c cell (fun x => { x with col := c }) hc]

/-- a loop over the first `n` cells of row `r` applying a per-cell update. -/
theorem cellLoop (F : Int → List (List (CellM α)) → PyM (List (List (CellM α))))
    (u : Nat → CellM α → CellM α) (r n : Nat)
    (hF : ∀ (d : List (List (CellM α))) (c : Nat) rowl cell, d[r]? = some rowl → rowl[c]? = some cell →
      F (c : Int) d = .ok (d.modify r (fun l => l.modify c (u c))))
    (d : List (List (CellM α))) (rowl : List (CellM α)) (hr : d[r]? = some rowl) (hn : n ≤ rowl.length) :
    forRange F n 0 d = .ok (d.modify r (fun l => l.mapIdx (fun c x => if 0 ≤ c ∧ c < 0 + n then u c x else x))) := by
  have key := forRange_iter_ok F (fun c d => d.modify r (fun l => l.modify c (u c)))
    (fun _ d => ∃ rowl, d[r]? = some rowl ∧ n ≤ rowl.length) n
    (by
      intro c d hc ⟨rowl, h1, h2⟩
      have hcl : c < rowl.length := by omega
      refine ⟨hF d c rowl rowl[c] h1 (List.getElem?_eq_getElem hcl), ?_⟩
      exact ⟨_, modify_getElem?_self d r _ rowl h1, by simpa using h2⟩)
    n 0 d (by omega) ⟨rowl, hr, hn⟩
  have e : ((0 : Nat) : Int) = 0 := rfl
  rw [e] at key
  rw [key.1, iter_lift_modify (fun c l => l.modify c (u c)) r n 0 d]
  congr 2
  funext l
  exact iter_modify u n 0 l

theorem renumberCols_nat (d : List (List (CellM α))) (r : Nat) (rowl : List (CellM α))
    (hr : d[r]? = some rowl) :
    renumberCols d (r : Int) = .ok (d.modify r renumCol) := by
  simp only [renumberCols, pyIndex_nat d r rowl hr, bind, Except.bind]
  rw [cellLoop (fun col d => setCol d (r : Int) col) (fun c x => { x with col := c }) r rowl.length
    (fun d c rowl cell h1 h2 => setCol_nat d r c rowl cell h1 h2) d rowl hr (Nat.le_refl _)]
  congr 1
  apply List.ext_getElem?; intro j
  by_cases hj : r = j
  · subst hj
    rw [modify_getElem?_self d r _ rowl hr, modify_getElem?_self d r _ rowl hr, mapIdx_if_all _ _ _ (Nat.le_refl _)]
    rfl
  · rw [modify_getElem?_ne _ _ _ _ hj, modify_getElem?_ne _ _ _ _ hj]

/-- the inner loop of the row renumbering, for a row of exactly `nc` cells. -/
theorem renumInner_nat (d : List (List (CellM α))) (r nc : Nat) (rowl : List (CellM α))
    (hr : d[r]? = some rowl) (hl : rowl.length = nc) :
    forRange (fun col d => setRowCol d (r : Int) col) nc 0 d = .ok (d.modify r (renumRow r)) := by
  rw [cellLoop (fun col d => setRowCol d (r : Int) col) (fun c x => ⟨r, c, x.val⟩) r nc
    (fun d c rowl cell h1 h2 => setRowCol_nat d r c rowl cell h1 h2) d rowl hr (by omega)]
  congr 1
  apply List.ext_getElem?; intro j
  by_cases hj : r = j
  · subst hj
    rw [modify_getElem?_self d r _ rowl hr, modify_getElem?_self d r _ rowl hr,
      mapIdx_if_all _ _ _ (by omega)]
    rfl
  · rw [modify_getElem?_ne _ _ _ _ hj, modify_getElem?_ne _ _ _ _ hj]

/-- `renumberRows` on a grid whose rows `lo..hi-1` exist and have `nc` cells. -/
theorem renumberRows_nat (d : List (List (CellM α))) (lo hi nc : Nat) (hle : lo ≤ hi)
    (hrows : ∀ r, lo ≤ r → r < hi → ∃ rowl, d[r]? = some rowl ∧ rowl.length = nc) :
    renumberRows d (lo : Int) (hi : Int) (nc : Int)
      = .ok (d.mapIdx (fun r rowl => if lo ≤ r ∧ r < hi then renumRow r rowl else rowl)) := by
  unfold renumberRows
  have e1 : ((hi : Int) - (lo : Int)).toNat = hi - lo := by omega
  have e2 : ((nc : Int)).toNat = nc := by simp
  rw [e1, e2]
  have key := forRange_iter_ok
    (fun row d => forRange (fun col d => setRowCol d row col) nc 0 d)
    (fun r d => d.modify r (renumRow r))
    (fun i d => lo ≤ i ∧ ∀ r, lo ≤ r → r < hi → ∃ rowl, d[r]? = some rowl ∧ rowl.length = nc) hi
    (by
      intro r d hr ⟨hlo, hinv⟩
      obtain ⟨rowl, h1, h2⟩ := hinv r hlo hr
      refine ⟨renumInner_nat d r nc rowl h1 h2, by omega, ?_⟩
      intro r' a b
      by_cases hrr : r = r'
      · subst hrr
        exact ⟨_, modify_getElem?_self d r _ rowl h1, by simpa using h2⟩
      · rw [modify_getElem?_ne _ _ _ _ hrr]; exact hinv r' a b)
    (hi - lo) lo d (by omega) ⟨Nat.le_refl _, hrows⟩
  rw [key.1, iter_modify]
  have : lo + (hi - lo) = hi := by omega
  rw [this]

/-! ### insertion / removal on canonical grids -/

theorem mem_insertAt {β} {l xs : List β} {i : Nat} {x : β} (h : x ∈ insertAt l i xs) : x ∈ l ∨ x ∈ xs := by
  simp only [insertAt, List.mem_append] at h
  rcases h with (h | h) | h
  · exact Or.inl (List.mem_of_mem_take h)
  · exact Or.inr h
  · exact Or.inl (List.mem_of_mem_drop h)

theorem mem_removeAt {β} {l : List β} {i n : Nat} {x : β} (h : x ∈ removeAt l i n) : x ∈ l := by
  simp only [removeAt, List.mem_append] at h
  rcases h with h | h
  · exact List.mem_of_mem_take h
  · exact List.mem_of_mem_drop h

theorem insertAt_length {β} (l xs : List β) (i : Nat) (h : i ≤ l.length) :
    (insertAt l i xs).length = l.length + xs.length := by
  simp only [insertAt, List.length_append, List.length_take, List.length_drop]; omega

theorem removeAt_length {β} (l : List β) (i n : Nat) (h : i + n ≤ l.length) :
    (removeAt l i n).length = l.length - n := by
  simp only [removeAt, List.length_append, List.length_take, List.length_drop]; omega

theorem insertAt_getElem?_lt {β} (l xs : List β) (i j : Nat) (h : i ≤ l.length) (hj : j < i) :
    (insertAt l i xs)[j]? = l[j]? := by
  simp only [insertAt, List.append_assoc]
  rw [List.getElem?_append]
  have : j < (List.take i l).length := by simp; omega
  simp only [this, if_true, List.getElem?_take, hj]

theorem removeAt_getElem?_lt {β} (l : List β) (i n j : Nat) (h : i ≤ l.length) (hj : j < i) :
    (removeAt l i n)[j]? = l[j]? := by
  simp only [removeAt]
  rw [List.getElem?_append]
  have : j < (List.take i l).length := by simp; omega
  simp only [this, if_true, List.getElem?_take, hj]

theorem vals_insertAt (d xs : List (List (CellM α))) (i : Nat) :
    vals (insertAt d i xs) = insertAt (vals d) i (vals xs) := by
  simp [vals, insertAt, List.map_take, List.map_drop]

theorem vals_removeAt (d : List (List (CellM α))) (i n : Nat) :
    vals (removeAt d i n) = removeAt (vals d) i n := by
  simp [vals, removeAt, List.map_take, List.map_drop]

theorem compRange_length {β} (g : Int → β) (n : Nat) (lo : Int) : (compRange g n lo).length = n := by
  induction n generalizing lo with
  | zero => rfl
  | succ n ih => simp [compRange, ih]

theorem compRange_map {β γ} (f : β → γ) (g : Int → β) (n : Nat) (lo : Int) :
    (compRange g n lo).map f = compRange (fun i => f (g i)) n lo := by
  induction n generalizing lo with
  | zero => rfl
  | succ n ih => simp [compRange, ih]

theorem mem_compRange {β} {g : Int → β} {n : Nat} {lo : Int} {x : β} (h : x ∈ compRange g n lo) :
    ∃ i, x = g i := by
  induction n generalizing lo with
  | zero => cases h
  | succ n ih =>
    simp only [compRange, List.mem_cons] at h
    rcases h with h | h
    · exact ⟨lo, h⟩
    · exact ih h

theorem vals_newRows (empty : α) (nc n : Nat) (st : Int) :
    vals (compRange (fun row => compRange (fun col => (⟨row, col, empty⟩ : CellM α)) nc 0) n st)
      = List.replicate n (List.replicate nc empty) := by
  simp only [vals, compRange_map, compRange_const]

theorem canon_mem_length {g : List (List α)} {nr nc : Nat} (hR : Rect g nr nc) {rowl : List (CellM α)}
    (h : rowl ∈ canon g) : rowl.length = nc := by
  obtain ⟨r, hr, rfl⟩ := List.getElem_of_mem h
  have hr' : r < g.length := by simpa using hr
  have : (canon g)[r]? = some (canonRow r g[r]) := by
    rw [canon_getElem?, List.getElem?_eq_getElem hr']; rfl
  rw [List.getElem?_eq_getElem hr] at this
  injection this with this
  rw [this, canonRow_length]
  exact hR.2 _ (List.getElem_mem hr')

theorem canon_fix {g : List (List α)} {r : Nat} {rowl : List (CellM α)} (h : (canon g)[r]? = some rowl) :
    renumRow r rowl = rowl := by
  rw [canon_getElem?] at h
  cases hg : g[r]? with
  | none => rw [hg] at h; cases h
  | some vs =>
    rw [hg] at h; injection h with h
    rw [← h, renumRow_canonRow]

/-- the row renumbering of a grid that is canonical before `st`, with all rows `nc` wide. -/
theorem renumberRows_canon (d : List (List (CellM α))) (st hi nc : Nat) (hst : st ≤ hi) (hlen : d.length = hi)
    (hw : ∀ rowl ∈ d, rowl.length = nc)
    (hfix : ∀ r rowl, r < st → d[r]? = some rowl → renumRow r rowl = rowl) :
    renumberRows d (st : Int) (hi : Int) (nc : Int) = .ok (canon (vals d)) := by
  rw [renumberRows_nat d st hi nc hst, renum_from_eq_canon d st hi (by omega) hfix]
  intro r _ hr
  have hr' : r < d.length := by omega
  exact ⟨d[r], List.getElem?_eq_getElem hr', hw _ (List.getElem_mem hr')⟩

theorem newRows_width (empty : α) (nc n : Nat) (st : Int) :
    ∀ rowl ∈ compRange (fun row => compRange (fun col => (⟨row, col, empty⟩ : CellM α)) nc 0) n st,
      rowl.length = nc := by
  intro rowl h
  obtain ⟨i, rfl⟩ := mem_compRange h
  exact compRange_length _ _ _

theorem vals_width {d : List (List (CellM α))} {nc : Nat} (h : ∀ rowl ∈ d, rowl.length = nc) :
    ∀ row ∈ vals d, row.length = nc := by
  intro row hrow
  simp only [vals, List.mem_map] at hrow
  obtain ⟨rowl, h1, rfl⟩ := hrow
  simpa using h rowl h1

theorem Rect.insertRows {g : List (List α)} {nr nc : Nat} (hR : Rect g nr nc) (st n : Nat) (hst : st ≤ nr)
    (fill : α) : Rect (insertAt g st (List.replicate n (List.replicate nc fill))) (nr + n) nc := by
  refine ⟨by rw [insertAt_length _ _ _ (by rw [hR.1]; exact hst)]; simp [hR.1], ?_⟩
  intro row h
  rcases mem_insertAt h with h | h
  · exact hR.2 row h
  · rw [List.mem_replicate] at h; rw [h.2]; simp

theorem Rect.removeRows {g : List (List α)} {nr nc : Nat} (hR : Rect g nr nc) (st n : Nat) (hst : st + n ≤ nr) :
    Rect (removeAt g st n) (nr - n) nc := by
  refine ⟨by rw [removeAt_length _ _ _ (by rw [hR.1]; exact hst), hR.1], ?_⟩
  intro row h
  exact hR.2 row (mem_removeAt h)

/-- insert rows then renumber = canonical grid of the plain insertion. -/
theorem renumber_insert (empty : α) (g : List (List α)) (nr nc : Nat) (hR : Rect g nr nc) (st n : Nat)
    (hst : st ≤ nr) :
    renumberRows (insertAt (canon g) st
        (compRange (fun row => compRange (fun col => (⟨row, col, empty⟩ : CellM α)) nc 0) n (st : Int)))
      (st : Int) ((nr + n : Nat) : Int) (nc : Int)
      = .ok (canon (insertAt g st (List.replicate n (List.replicate nc empty)))) := by
  rw [renumberRows_canon _ st (nr + n) nc (by omega)]
  · rw [vals_insertAt, vals_canon, vals_newRows]
  · rw [insertAt_length _ _ _ (by simp [hR.1]; exact hst), canon_length, compRange_length, hR.1]
  · intro rowl h
    rcases mem_insertAt h with h | h
    · exact canon_mem_length hR h
    · exact newRows_width empty nc n _ rowl h
  · intro r rowl hr h
    rw [insertAt_getElem?_lt _ _ _ _ (by simp [hR.1]; exact hst) hr] at h
    exact canon_fix h

theorem renumber_remove (g : List (List α)) (nr nc : Nat) (hR : Rect g nr nc) (st n : Nat) (hst : st + n ≤ nr) :
    renumberRows (removeAt (canon g) st n) (st : Int) ((nr - n : Nat) : Int) (nc : Int)
      = .ok (canon (removeAt g st n)) := by
  rw [renumberRows_canon _ st (nr - n) nc (by omega)]
  · rw [vals_removeAt, vals_canon]
  · rw [removeAt_length _ _ _ (by simp [hR.1]; exact hst), canon_length, hR.1]
  · intro rowl h
    exact canon_mem_length hR (mem_removeAt h)
  · intro r rowl hr h
    rw [removeAt_getElem?_lt _ _ _ _ (by simp [hR.1]; omega) hr] at h
    exact canon_fix h

/-! ### `add_row` / `delete_row` -/

/-- the effective insertion index of `add_row` / `add_column`. -/
def startOr (start : Option Nat) (dflt : Nat) : Nat := match start with | some st => st | none => dflt

theorem addRowCore_none (empty : α) (g : List (List α)) (nr nc : Nat) (hR : Rect g nr nc) (n : Nat) :
    addRowCore empty (mk nr nc g) (n : Int) none
      = .ok (mk (nr + n) nc (insertAt g nr (List.replicate n (List.replicate nc empty)))) := by
  have hn : ¬ ((n : Int) < 0) := by omega
  have hlen : (canon g).length = nr := by simp [hR.1]
  simp only [addRowCore, mk, hn, if_false, bind, Except.bind, pure, Except.pure, Int.toNat_natCast]
  rw [pyInsertAt_nat _ _ _ (by omega)]
  have e : (nr : Int) + (n : Int) = ((nr + n : Nat) : Int) := by omega
  rw [e, renumber_insert empty g nr nc hR nr n (Nat.le_refl _)]

theorem addRowCore_some (empty : α) (g : List (List α)) (nr nc : Nat) (hR : Rect g nr nc) (n st : Nat)
    (h1 : st < nr) :
    addRowCore empty (mk nr nc g) (n : Int) (some (st : Int))
      = .ok (mk (nr + n) nc (insertAt g st (List.replicate n (List.replicate nc empty)))) := by
  have hn : ¬ ((n : Int) < 0) := by omega
  have hlen : (canon g).length = nr := by simp [hR.1]
  have hc : ¬ ((st : Int) < 0 ∨ (st : Int) ≥ (nr : Int)) := by omega
  simp only [addRowCore, mk, hc, hn, if_false, bind, Except.bind, pure, Except.pure, Int.toNat_natCast]
  rw [pyInsertAt_nat _ _ _ (by omega)]
  have e : (nr : Int) + (n : Int) = ((nr + n : Nat) : Int) := by omega
  rw [e, renumber_insert empty g nr nc hR st n (by omega)]

theorem addRowCore_err (empty : α) (s : State α) (num : Int) (start : Option Int)
    (h : num < 0 ∨ ∃ st, start = some st ∧ (st < 0 ∨ st ≥ s.numRows)) :
    addRowCore empty s num start = .error .IndexError := by
  cases start with
  | none =>
    rcases h with h | ⟨st, h, _⟩
    · simp [addRowCore, h, bind, Except.bind, pure, Except.pure, throw, throwThe, MonadExceptOf.throw]
    · cases h
  | some st =>
    by_cases hc : st < 0 ∨ st ≥ s.numRows
    · simp [addRowCore, hc, bind, Except.bind, throw, throwThe, MonadExceptOf.throw]
    · rcases h with h | ⟨st', h, h'⟩
      · simp [addRowCore, hc, h, bind, Except.bind, pure, Except.pure, throw, throwThe, MonadExceptOf.throw]
      · injection h with h; subst h; exact absurd h' hc

theorem delRow_none (g : List (List α)) (nr nc : Nat) (hR : Rect g nr nc) (n : Nat) (hn : n < nr) :
    delRow (mk nr nc g) (n : Int) none = .ok (mk (nr - n) nc (removeAt g (nr - n) n)) := by
  have hlen : (canon g).length = nr := by simp [hR.1]
  have e : (nr : Int) - (n : Int) = ((nr - n : Nat) : Int) := by omega
  have hc : ¬ ((n : Int) < 0 ∨ (n : Int) ≥ (nr : Int)) := by omega
  simp only [delRow, mk, hc, if_false, bind, Except.bind, pure, Except.pure]
  rw [e, pyDelSlice_tail _ _ (by rw [hlen]; omega), hlen]
  have e2 : nr - (nr - n) = n := by omega
  rw [e2]
  congr 2
  -- no renumbering: the surviving prefix is already canonical
  have : removeAt (canon g) (nr - n) n = canon (vals (removeAt (canon g) (nr - n) n)) := by
    rw [canon_vals]
    apply List.ext_getElem?; intro r
    rw [List.getElem?_mapIdx]
    cases hx : (removeAt (canon g) (nr - n) n)[r]? with
    | none => rfl
    | some rowl =>
      have hr : r < nr - n := by
        have := getElem?_lt hx
        rw [removeAt_length _ _ _ (by omega), hlen] at this; exact this
      rw [removeAt_getElem?_lt _ _ _ _ (by omega) hr] at hx
      simp [canon_fix hx]
  rw [this, vals_removeAt, vals_canon]

theorem delRow_some (g : List (List α)) (nr nc : Nat) (hR : Rect g nr nc) (n : Nat) (hn : n < nr)
    (st : Nat) (h1 : st < nr) (h2 : st + n ≤ nr) :
    delRow (mk nr nc g) (n : Int) (some (st : Int)) = .ok (mk (nr - n) nc (removeAt g st n)) := by
  have hlen : (canon g).length = nr := by simp [hR.1]
  have e : (nr : Int) - (n : Int) = ((nr - n : Nat) : Int) := by omega
  have hc : ¬ ((st : Int) < 0 ∨ (st : Int) ≥ (nr : Int)) := by omega
  have hd : ¬ ((n : Int) < 0 ∨ (n : Int) ≥ (nr : Int) ∨ (st : Int) + (n : Int) > (nr : Int)) := by omega
  simp only [delRow, mk, hc, hd, if_false, bind, Except.bind, pure, Except.pure]
  rw [pyDelSlice_nat _ _ _ (by rw [hlen]; omega), e, renumber_remove g nr nc hR st n h2]

theorem delRow_err (s : State α) (num : Int) (start : Option Int)
    (h : num < 0 ∨ num ≥ s.numRows ∨ ∃ st, start = some st ∧ (st < 0 ∨ st ≥ s.numRows ∨ st + num > s.numRows)) :
    delRow s num start = .error .IndexError := by
  cases start with
  | none =>
    have hc : num < 0 ∨ num ≥ s.numRows := by
      rcases h with h | h | ⟨st, h, _⟩
      · exact Or.inl h
      · exact Or.inr h
      · cases h
    simp only [delRow, bind, Except.bind, pure, Except.pure]
    rw [if_pos hc]; rfl
  | some st =>
    by_cases hc : st < 0 ∨ st ≥ s.numRows
    · simp [delRow, hc, bind, Except.bind, throw, throwThe, MonadExceptOf.throw]
    · have hd : num < 0 ∨ num ≥ s.numRows ∨ st + num > s.numRows := by
        rcases h with h | h | ⟨st', h, h'⟩
        · exact Or.inl h
        · exact Or.inr (Or.inl h)
        · injection h with h; subst h
          rcases h' with h' | h' | h'
          · exact absurd (Or.inl h') hc
          · exact absurd (Or.inr h') hc
          · exact Or.inr (Or.inr h')
      simp only [delRow, hc, if_false, bind, Except.bind, pure, Except.pure]
      rw [if_pos hd]; rfl

/-! ### per-row column surgery -/

theorem set_modify {β} (l : List β) (i : Nat) (x : β) (f : β → β) :
    (l.set i x).modify i f = l.set i (f x) := by
  apply List.ext_getElem?; intro j
  rw [List.getElem?_modify, List.getElem?_set, List.getElem?_set]
  by_cases hij : i = j
  · subst hij
    by_cases hl : i < l.length <;> simp [hl]
  · simp only [hij, if_false]
    cases l[j]? <;> rfl

theorem renumCol_eq_renumRow (r : Nat) (l : List (CellM α)) (h : ∀ x ∈ l, x.row = (r : Int)) :
    renumCol l = renumRow r l := by
  apply List.ext_getElem?; intro c
  simp only [renumCol, renumRow, List.getElem?_mapIdx]
  cases hx : l[c]? with
  | none => rfl
  | some x =>
    have := h x (List.mem_of_getElem? hx)
    simp only [Option.map_some]
    congr 1
    cases x; simp_all

theorem canonRow_row (r : Nat) (vs : List α) : ∀ x ∈ canonRow r vs, x.row = (r : Int) := by
  intro x hx
  obtain ⟨c, hc, rfl⟩ := List.getElem_of_mem hx
  simp [canonRow]

/-- the cells `add_column` splices into row `r`. -/
def newCols (empty : α) (r : Int) (st : Int) (n : Nat) : List (CellM α) :=
  compRange (fun col => (⟨r, st + col, empty⟩ : CellM α)) n 0

theorem newCols_vals (empty : α) (r st : Int) (n : Nat) :
    (newCols empty r st n).map (·.val) = List.replicate n empty := by
  simp only [newCols, compRange_map, compRange_const]

theorem newCols_row (empty : α) (r st : Int) (n : Nat) : ∀ x ∈ newCols empty r st n, x.row = r := by
  intro x hx
  obtain ⟨i, rfl⟩ := mem_compRange hx
  rfl

theorem map_insertAt {β γ} (f : β → γ) (l xs : List β) (i : Nat) :
    (insertAt l i xs).map f = insertAt (l.map f) i (xs.map f) := by
  simp [insertAt, List.map_take, List.map_drop]

theorem map_removeAt {β γ} (f : β → γ) (l : List β) (i n : Nat) :
    (removeAt l i n).map f = removeAt (l.map f) i n := by
  simp [removeAt, List.map_take, List.map_drop]

/-- widening one canonical row. -/
theorem renumCol_insert (empty : α) (r st n : Nat) (vs : List α) :
    renumCol (insertAt (canonRow r vs) st (newCols empty (r : Int) (st : Int) n))
      = canonRow r (insertAt vs st (List.replicate n empty)) := by
  rw [renumCol_eq_renumRow r, renumRow_eq, map_insertAt, map_val_canonRow, newCols_vals]
  intro x hx
  rcases mem_insertAt hx with h | h
  · exact canonRow_row r vs x h
  · exact newCols_row empty _ _ n x h

/-- narrowing one canonical row. -/
theorem renumCol_remove (r st n : Nat) (vs : List α) :
    renumCol (removeAt (canonRow r vs) st n) = canonRow r (removeAt vs st n) := by
  rw [renumCol_eq_renumRow r, renumRow_eq, map_removeAt, map_val_canonRow]
  intro x hx
  exact canonRow_row r vs x (mem_removeAt hx)

theorem addColRow_nat (empty : α) (n st : Nat) (s : State α) (r : Nat) (rowl : List (CellM α))
    (hr : s.data[r]? = some rowl) (hst : st ≤ rowl.length) :
    addColRow empty (n : Int) (st : Int) s (r : Int)
      = .ok { s with data := (s.data.modify r
                (fun l => renumCol (insertAt l st (newCols empty (r : Int) (st : Int) n)))) } := by
  have hrl := getElem?_lt hr
  simp only [addColRow, pyIndex_nat _ r rowl hr, bind, Except.bind, pySetItem_nat _ r _ hrl, pure,
    Except.pure, Int.toNat_natCast, pyInsertAt_nat _ _ _ hst]
  rw [renumberCols_nat _ r (insertAt rowl st (compRange (fun col => (⟨(r : Int), (st : Int) + col, empty⟩ : CellM α)) n 0))
    (by rw [List.getElem?_set]; simp [hrl])]
  simp only
  rw [set_modify, ← set_eq_modify' s.data r rowl (fun l => renumCol (insertAt l st (newCols empty r st n))) hr]
  rfl

theorem delColRow_some (n st : Nat) (nc : Int) (s : State α) (r : Nat) (rowl : List (CellM α))
    (hr : s.data[r]? = some rowl) (hst : st + n ≤ rowl.length) :
    delColRow (n : Int) (some (st : Int)) nc s (r : Int)
      = .ok { s with data := s.data.modify r (fun l => renumCol (removeAt l st n)) } := by
  have hrl := getElem?_lt hr
  simp only [delColRow, pyIndex_nat _ r rowl hr, bind, Except.bind, pySetItem_nat _ r _ hrl, pure,
    Except.pure, pyDelSlice_nat _ _ _ hst]
  rw [renumberCols_nat _ r (removeAt rowl st n) (by rw [List.getElem?_set]; simp [hrl])]
  simp only
  rw [set_modify, ← set_eq_modify' s.data r rowl (fun l => renumCol (removeAt l st n)) hr]

theorem delColRow_none (n nc : Nat) (s : State α) (r : Nat) (rowl : List (CellM α))
    (hr : s.data[r]? = some rowl) (hl : rowl.length = nc) (hn : n ≤ nc) :
    delColRow (n : Int) none (nc : Int) s (r : Int)
      = .ok { s with data := s.data.modify r (fun l => renumCol (removeAt l (nc - n) n)) } := by
  have hrl := getElem?_lt hr
  have e : (nc : Int) - (n : Int) = ((nc - n : Nat) : Int) := by omega
  simp only [delColRow, pyIndex_nat _ r rowl hr, bind, Except.bind, pySetItem_nat _ r _ hrl, pure,
    Except.pure, e, pyDelSlice_tail _ _ (by omega : nc - n ≤ rowl.length)]
  have e2 : rowl.length - (nc - n) = n := by omega
  rw [e2]
  rw [renumberCols_nat _ r (removeAt rowl (nc - n) n) (by rw [List.getElem?_set]; simp [hrl])]
  simp only
  rw [set_modify, ← set_eq_modify' s.data r rowl (fun l => renumCol (removeAt l (nc - n) n)) hr]

/-! ### `write` inside the current bounds, and the default fills -/

/-- `row`/`col` within the library's limits (`_validate_cell_coords`). -/
def InLimits (r c : Nat) : Prop := r < Gen.MAX_ROW_COUNT ∧ c < Gen.MAX_COL_COUNT

theorem validate_inrange (empty : α) (s : State α) (r c : Nat) (hnr : (r : Int) < s.numRows)
    (hnc : (c : Int) < s.numCols) :
    validate empty s (r : Int) (c : Int)
      = if (r : Int) ≥ (Gen.MAX_ROW_COUNT : Int) then .error .IndexError
        else if (c : Int) ≥ (Gen.MAX_COL_COUNT : Int) then .error .IndexError else .ok s := by
  have h0 : ¬ ((r : Int) < 0 ∨ (c : Int) < 0) := by omega
  have e1 : ((r : Int) + 1 - s.numRows).toNat = 0 := by omega
  have e2 : ((c : Int) + 1 - s.numCols).toNat = 0 := by omega
  simp only [validate, h0, if_false, bind, Except.bind, pure, Except.pure, e1, forRange, e2]
  by_cases h1 : (r : Int) ≥ (Gen.MAX_ROW_COUNT : Int)
  · simp only [h1, if_true]; rfl
  · by_cases h2 : (c : Int) ≥ (Gen.MAX_COL_COUNT : Int)
    · simp only [h1, h2, if_true, if_false]; rfl
    · simp only [h1, h2, if_false]

/-- the result of an in-bounds write. -/
def putCell (s : State α) (r c : Nat) (v : α) : State α :=
  { s with data := (s.data.modify r (fun l => l.modify c (fun _ => ⟨r, c, v⟩))) }

theorem write_inrange (empty : α) (s : State α) (r c : Nat) (v : α) (rowl : List (CellM α))
    (hr : s.data[r]? = some rowl) (hc : c < rowl.length) (hnr : (r : Int) < s.numRows)
    (hnc : (c : Int) < s.numCols) :
    (InLimits r c → write empty s (r : Int) (c : Int) v = .ok (putCell s r c v)) ∧
    (∀ x, write empty s (r : Int) (c : Int) v = .ok x → x = putCell s r c v) := by
  have hrl := getElem?_lt hr
  have key : r < Gen.MAX_ROW_COUNT → c < Gen.MAX_COL_COUNT →
      write empty s (r : Int) (c : Int) v = .ok (putCell s r c v) := by
    intro h1 h2
    have h1' : ¬ ((r : Int) ≥ (Gen.MAX_ROW_COUNT : Int)) := by omega
    have h2' : ¬ ((c : Int) ≥ (Gen.MAX_COL_COUNT : Int)) := by omega
    simp only [write, validate_inrange empty s r c hnr hnc, h1', h2', if_false, bind, Except.bind,
      pyIndex_nat _ r rowl hr, pySetItem_nat _ c _ hc, pySetItem_nat _ r _ hrl, pure, Except.pure, putCell]
    congr 2
    rw [← set_eq_modify' s.data r rowl (fun l => l.modify c (fun _ => ⟨r, c, v⟩)) hr]
    congr 1
    exact set_eq_modify' rowl c rowl[c] (fun _ => ⟨r, c, v⟩) (List.getElem?_eq_getElem hc)
  refine ⟨fun h => key h.1 h.2, ?_⟩
  intro x hx
  by_cases h1 : r < Gen.MAX_ROW_COUNT
  · by_cases h2 : c < Gen.MAX_COL_COUNT
    · rw [key h1 h2] at hx; injection hx with hx; exact hx.symm
    · have h1' : ¬ ((r : Int) ≥ (Gen.MAX_ROW_COUNT : Int)) := by omega
      have h2' : ((c : Int) ≥ (Gen.MAX_COL_COUNT : Int)) := by omega
      simp only [write, validate_inrange empty s r c hnr hnc, h1', h2', if_false, if_true, bind,
        Except.bind] at hx
      cases hx
  · have h1' : ((r : Int) ≥ (Gen.MAX_ROW_COUNT : Int)) := by omega
    simp only [write, validate_inrange empty s r c hnr hnc, h1', if_true, bind, Except.bind] at hx
    cases hx

theorem iter_lift_data (H : Nat → List (List (CellM α)) → List (List (CellM α))) (n lo : Nat) (s : State α) :
    iter (fun i (s : State α) => { s with data := H i s.data }) n lo s
      = { s with data := iter H n lo s.data } := by
  induction n generalizing lo s with
  | zero => rfl
  | succ n ih => simp only [iter]; rw [ih]

/-- `for col in range(c0, c0+n): self.write(r, col, v)` on cells that exist. -/
theorem fillRow_nat (empty : α) (v : α) (s : State α) (r c0 n : Nat) (rowl : List (CellM α))
    (hr : s.data[r]? = some rowl) (hc : c0 + n ≤ rowl.length) (hnr : (r : Int) < s.numRows)
    (hnc : ((c0 + n : Nat) : Int) ≤ s.numCols) :
    let res : State α := { s with data := (s.data.modify r
      (fun l => l.mapIdx (fun c x => if c0 ≤ c ∧ c < c0 + n then ⟨r, c, v⟩ else x))) }
    ((n = 0 ∨ InLimits r (c0 + n - 1)) → fillRow empty v s (r : Int) (c0 : Int) n = .ok res) ∧
    (∀ x, fillRow empty v s (r : Int) (c0 : Int) n = .ok x → x = res) := by
  intro res
  have key := forRange_iter (fun col s => write empty s (r : Int) col v) (fun c s => putCell s r c v)
    (fun _ s' => s'.numRows = s.numRows ∧ s'.numCols = s.numCols ∧
      ∃ rowl, s'.data[r]? = some rowl ∧ c0 + n ≤ rowl.length)
    (fun c => InLimits r c) (c0 + n)
    (by
      intro c s' hc' ⟨a1, a2, rowl', a3, a4⟩
      have w := write_inrange empty s' r c v rowl' a3 (by omega) (by omega) (by omega)
      refine ⟨w.1, w.2, a1, a2, ?_⟩
      exact ⟨_, modify_getElem?_self _ r _ rowl' a3, by simpa using a4⟩)
    n c0 s (Nat.le_refl _) ⟨rfl, rfl, rowl, hr, hc⟩
  have hres : iter (fun c s => putCell s r c v) n c0 s = res := by
    refine (iter_lift_data (fun c d => List.modify d r (fun l => l.modify c (fun _ => (⟨r, c, v⟩ : CellM α))))
      n c0 s).trans ?_
    rw [iter_lift_modify (fun c (l : List (CellM α)) => List.modify l c (fun _ => (⟨r, c, v⟩ : CellM α)))]
    simp only [res]
    congr 2
    funext l
    exact iter_modify (fun c _ => (⟨r, c, v⟩ : CellM α)) n c0 l
  rw [hres] at key
  refine ⟨?_, key.2.1⟩
  intro hlim
  apply key.1
  intro c h1 h2
  rcases hlim with h | h
  · omega
  · exact ⟨h.1, by have := h.2; omega⟩

theorem insertAt_replicate_getElem? {β} (l : List β) (i n j : Nat) (x : β) (h : i ≤ l.length) :
    (insertAt l i (List.replicate n x))[j]?
      = if j < i then l[j]? else if j < i + n then some x else l[j - n]? := by
  simp only [insertAt, List.append_assoc]
  rw [List.getElem?_append]
  have hl : (List.take i l).length = i := by simp; omega
  rw [hl]
  by_cases h1 : j < i
  · simp only [h1, if_true, List.getElem?_take]
  · simp only [h1, if_false]
    rw [List.getElem?_append, List.length_replicate]
    by_cases h2 : j < i + n
    · have : j - i < n := by omega
      simp only [this, h2, if_true, List.getElem?_replicate]
    · have : ¬ (j - i < n) := by omega
      simp only [this, h2, if_false, List.getElem?_drop]
      congr 1; omega

theorem iter_modify_all {β} (g : Nat → β → β) (l : List β) (n : Nat) (h : l.length ≤ n) :
    iter (fun i l => l.modify i (g i)) n 0 l = l.mapIdx g := by
  rw [iter_modify, mapIdx_if_all _ _ _ h]

/-- what one iteration of the `add_column` row loop does to row `r`. -/
def addColFn (empty : α) (dflt : Option α) (st n r : Nat) (l : List (CellM α)) : List (CellM α) :=
  let l1 := renumCol (insertAt l st (newCols empty (r : Int) (st : Int) n))
  match dflt with
  | none => l1
  | some v => l1.mapIdx (fun c x => if st ≤ c ∧ c < st + n then ⟨r, c, v⟩ else x)

theorem addColFn_canon (empty : α) (dflt : Option α) (st n r : Nat) (vs : List α) (hst : st ≤ vs.length) :
    addColFn empty dflt st n r (canonRow r vs)
      = canonRow r (insertAt vs st (List.replicate n (fillVal empty dflt))) := by
  unfold addColFn
  simp only [renumCol_insert]
  cases dflt with
  | none => rfl
  | some v =>
    simp only [fillVal]
    apply List.ext_getElem?; intro c
    rw [List.getElem?_mapIdx, canonRow_getElem?, canonRow_getElem?,
      insertAt_replicate_getElem? _ _ _ _ _ hst, insertAt_replicate_getElem? _ _ _ _ _ hst]
    by_cases h1 : c < st
    · have : ¬ (st ≤ c ∧ c < st + n) := by omega
      simp only [h1, if_true]
      cases vs[c]? <;> simp [this]
    · by_cases h2 : c < st + n
      · have : (st ≤ c ∧ c < st + n) := by omega
        simp [h1, h2, this]
      · have : ¬ (st ≤ c ∧ c < st + n) := by omega
        simp only [h1, h2, if_false]
        cases vs[c - n]? <;> simp [this]

theorem except_bind_pure {ε β} (x : Except ε β) : (x >>= fun a => pure a) = x := by
  cases x <;> rfl

/-- one iteration of the row loop of `add_column(num, start, default)`. -/
def addColBody (empty : α) (dflt : Option α) (num st : Int) (row : Int) (s : State α) : PyM (State α) := do
  let s2 ← addColRow empty num st s row
  match dflt with
  | none => pure s2
  | some v => fillRow empty v s2 row st num.toNat

theorem addColBody_nat (empty : α) (dflt : Option α) (n st r : Nat) (s : State α) (rowl : List (CellM α))
    (hr : s.data[r]? = some rowl) (hst : st ≤ rowl.length) (hnr : (r : Int) < s.numRows)
    (hnc : ((rowl.length + n : Nat) : Int) ≤ s.numCols) :
    let res : State α := { s with data := s.data.modify r (addColFn empty dflt st n r) }
    ((dflt = none ∨ n = 0 ∨ InLimits r (st + n - 1)) → addColBody empty dflt (n : Int) (st : Int) (r : Int) s = .ok res) ∧
    (∀ x, addColBody empty dflt (n : Int) (st : Int) (r : Int) s = .ok x → x = res) := by
  intro res
  cases dflt with
  | none =>
    have e : addColBody empty none (n : Int) (st : Int) (r : Int) s = .ok res := by
      simp only [addColBody, addColRow_nat empty n st s r rowl hr hst, bind, Except.bind, pure, Except.pure, res]
      rfl
    exact ⟨fun _ => e, fun x hx => by rw [e] at hx; injection hx with hx; exact hx.symm⟩
  | some v =>
    let s2 : State α := { s with data := (s.data.modify r
                (fun l => renumCol (insertAt l st (newCols empty (r : Int) (st : Int) n)))) }
    have hs2 : s2.data[r]? = some (renumCol (insertAt rowl st (newCols empty (r : Int) (st : Int) n))) :=
      modify_getElem?_self _ r _ rowl hr
    have hlen : (renumCol (insertAt rowl st (newCols empty (r : Int) (st : Int) n))).length = rowl.length + n := by
      rw [renumCol_length, insertAt_length _ _ _ hst, newCols, compRange_length]
    have f := fillRow_nat empty v s2 r st n _ hs2 (by rw [hlen]; omega) hnr (by
      have : s2.numCols = s.numCols := rfl
      rw [this]; omega)
    have e : addColBody empty (some v) (n : Int) (st : Int) (r : Int) s
        = fillRow empty v s2 (r : Int) (st : Int) n := by
      simp only [addColBody, addColRow_nat empty n st s r rowl hr hst, bind, Except.bind, Int.toNat_natCast]
      rfl
    have hres : ({ s2 with data := (s2.data.modify r
          (fun l => l.mapIdx (fun c x => if st ≤ c ∧ c < st + n then (⟨r, c, v⟩ : CellM α) else x))) } : State α) = res := by
      simp only [res, s2, modify_modify, addColFn]
      rfl
    rw [e]
    rw [hres] at f
    refine ⟨?_, f.2⟩
    intro h
    apply f.1
    rcases h with h | h | h
    · cases h
    · exact Or.inl h
    · exact Or.inr h

/-- a loop over rows `lo..lo+n-1` whose iteration `r` rewrites exactly row `r`. -/
theorem rowLoop (F : Int → State α → PyM (State α)) (H : Nat → List (CellM α) → List (CellM α))
    (Good : Nat → Prop) (P : List (CellM α) → Prop) (NR NC : Int) (hi : Nat)
    (hF : ∀ (r : Nat) (s : State α) rowl, r < hi → s.numRows = NR → s.numCols = NC → s.data[r]? = some rowl →
      P rowl →
      (Good r → F (r : Int) s = .ok { s with data := s.data.modify r (H r) }) ∧
      (∀ x, F (r : Int) s = .ok x → x = { s with data := s.data.modify r (H r) }))
    (n lo : Nat) (s : State α) (hle : lo + n ≤ hi) (hNR : s.numRows = NR) (hNC : s.numCols = NC)
    (hrows : ∀ r, lo ≤ r → r < hi → ∃ rowl, s.data[r]? = some rowl ∧ P rowl) :
    let res : State α := { s with data := s.data.mapIdx (fun r l => if lo ≤ r ∧ r < lo + n then H r l else l) }
    ((∀ r, lo ≤ r → r < lo + n → Good r) → forRange F n (lo : Int) s = .ok res) ∧
    (∀ x, forRange F n (lo : Int) s = .ok x → x = res) := by
  intro res
  have key := forRange_iter F (fun r (s : State α) => { s with data := s.data.modify r (H r) })
    (fun i s' => s'.numRows = NR ∧ s'.numCols = NC ∧
      ∀ r, i ≤ r → r < hi → ∃ rowl, s'.data[r]? = some rowl ∧ P rowl)
    Good hi
    (by
      intro r s' hr ⟨a1, a2, a3⟩
      obtain ⟨rowl, b1, b2⟩ := a3 r (Nat.le_refl _) hr
      have := hF r s' rowl hr a1 a2 b1 b2
      refine ⟨this.1, this.2, a1, a2, ?_⟩
      intro r' c1 c2
      have hne : r ≠ r' := by omega
      obtain ⟨rowl', d1, d2⟩ := a3 r' (by omega) c2
      exact ⟨rowl', by rw [modify_getElem?_ne _ _ _ _ hne]; exact d1, d2⟩)
    n lo s hle ⟨hNR, hNC, hrows⟩
  have hres : iter (fun r (s : State α) => { s with data := s.data.modify r (H r) }) n lo s = res := by
    refine (iter_lift_data (fun r d => List.modify d r (H r)) n lo s).trans ?_
    simp only [res]
    rw [iter_modify]
  rw [hres] at key
  exact ⟨key.1, key.2.1⟩

theorem canon_rows {g : List (List α)} {nr nc : Nat} (hR : Rect g nr nc) (r : Nat) (hr : r < nr) :
    ∃ rowl, (canon g)[r]? = some rowl ∧ rowl.length = nc := by
  have hr' : r < g.length := by rw [hR.1]; exact hr
  refine ⟨canonRow r g[r], by rw [canon_getElem?, List.getElem?_eq_getElem hr']; rfl, ?_⟩
  rw [canonRow_length]; exact hR.2 _ (List.getElem_mem hr')

/-- applying a per-row function that maps canonical rows to canonical rows. -/
theorem mapIdx_canon (g : List (List α)) (H : Nat → List (CellM α) → List (CellM α))
    (h : Nat → List α → List α) (hH : ∀ r vs, g[r]? = some vs → H r (canonRow r vs) = canonRow r (h r vs)) :
    (canon g).mapIdx H = canon (g.mapIdx h) := by
  apply List.ext_getElem?; intro r
  rw [List.getElem?_mapIdx, canon_getElem?, canon_getElem?, List.getElem?_mapIdx]
  cases hx : g[r]? with
  | none => rfl
  | some vs => simp only [Option.map_some]; rw [hH r vs hx]

theorem mapIdx_const_fn {β γ} (l : List β) (f : β → γ) : l.mapIdx (fun _ x => f x) = l.map f := by
  apply List.ext_getElem?; intro i
  simp [List.getElem?_mapIdx]

/-! ### `add_column` / `delete_column` -/

/-- the default fill of `add_column` stays within the library's limits. -/
def ColFillOK (dflt : Option α) (nr st n : Nat) : Prop :=
  dflt = none ∨ n = 0 ∨ nr = 0 ∨ InLimits (nr - 1) (st + n - 1)

theorem addCol_loop (empty : α) (dflt : Option α) (g : List (List α)) (nr nc : Nat) (hR : Rect g nr nc)
    (n st : Nat) (hst : st ≤ nc) :
    let s1 : State α := { numRows := nr, numCols := (nc : Int) + (n : Int), data := canon g }
    let res : State α := mk nr (nc + n) (g.map (fun vs => insertAt vs st (List.replicate n (fillVal empty dflt))))
    (ColFillOK dflt nr st n →
      forRange (fun row s => addColBody empty dflt (n : Int) (st : Int) row s) nr 0 s1 = .ok res) ∧
    (∀ x, forRange (fun row s => addColBody empty dflt (n : Int) (st : Int) row s) nr 0 s1 = .ok x → x = res) := by
  intro s1 res
  have key := rowLoop (fun row s => addColBody empty dflt (n : Int) (st : Int) row s)
    (addColFn empty dflt st n) (fun r => dflt = none ∨ n = 0 ∨ InLimits r (st + n - 1))
    (fun rowl => rowl.length = nc) (nr : Int) ((nc : Int) + (n : Int)) nr
    (by
      intro r s rowl hr a1 a2 a3 a4
      exact addColBody_nat empty dflt n st r s rowl a3 (by omega) (by omega) (by rw [a2, a4]; omega))
    nr 0 s1 (by omega) rfl rfl
    (by intro r _ hr; exact canon_rows hR r hr)
  have hres : ({ s1 with data := (s1.data.mapIdx
      (fun r l => if 0 ≤ r ∧ r < 0 + nr then addColFn empty dflt st n r l else l)) } : State α) = res := by
    have e : ((nc : Int) + (n : Int)) = ((nc + n : Nat) : Int) := by omega
    simp only [s1, res, mk, e]
    congr 1
    rw [mapIdx_if_all _ _ _ (by simp [hR.1]),
      mapIdx_canon g _ (fun _ vs => insertAt vs st (List.replicate n (fillVal empty dflt))), mapIdx_const_fn]
    intro r vs hvs
    exact addColFn_canon empty dflt st n r vs (by rw [hR.2 vs (List.mem_of_getElem? hvs)]; exact hst)
  have e0 : ((0 : Nat) : Int) = 0 := rfl
  rw [e0, hres] at key
  refine ⟨?_, key.2⟩
  intro hok
  apply key.1
  intro r _ hr
  rcases hok with h | h | h | h
  · exact Or.inl h
  · exact Or.inr (Or.inl h)
  · omega
  · exact Or.inr (Or.inr ⟨by have := h.1; omega, h.2⟩)

theorem addCol_none (empty : α) (dflt : Option α) (g : List (List α)) (nr nc : Nat) (hR : Rect g nr nc) (n : Nat) :
    let res : State α := mk nr (nc + n) (g.map (fun vs => insertAt vs nc (List.replicate n (fillVal empty dflt))))
    (ColFillOK dflt nr nc n → addCol empty (mk nr nc g) (n : Int) none dflt = .ok res) ∧
    (∀ x, addCol empty (mk nr nc g) (n : Int) none dflt = .ok x → x = res) := by
  have hn : ¬ ((n : Int) < 0) := by omega
  have e : addCol empty (mk nr nc g) (n : Int) none dflt
      = forRange (fun row s => addColBody empty dflt (n : Int) (nc : Int) row s) nr 0
          { numRows := nr, numCols := (nc : Int) + (n : Int), data := canon g } := by
    simp only [addCol, addColGen, mk, hn, if_false, bind, Except.bind, pure, Except.pure, Int.toNat_natCast]
    rfl
  rw [e]
  exact addCol_loop empty dflt g nr nc hR n nc (Nat.le_refl _)

theorem addCol_some (empty : α) (dflt : Option α) (g : List (List α)) (nr nc : Nat) (hR : Rect g nr nc)
    (n st : Nat) (hst : st < nc) :
    let res : State α := mk nr (nc + n) (g.map (fun vs => insertAt vs st (List.replicate n (fillVal empty dflt))))
    (ColFillOK dflt nr st n → addCol empty (mk nr nc g) (n : Int) (some (st : Int)) dflt = .ok res) ∧
    (∀ x, addCol empty (mk nr nc g) (n : Int) (some (st : Int)) dflt = .ok x → x = res) := by
  have hn : ¬ ((n : Int) < 0) := by omega
  have hc : ¬ ((st : Int) < 0 ∨ (st : Int) ≥ (nc : Int)) := by omega
  have e : addCol empty (mk nr nc g) (n : Int) (some (st : Int)) dflt
      = forRange (fun row s => addColBody empty dflt (n : Int) (st : Int) row s) nr 0
          { numRows := nr, numCols := (nc : Int) + (n : Int), data := canon g } := by
    simp only [addCol, addColGen, mk, hn, hc, if_false, bind, Except.bind, pure, Except.pure, Int.toNat_natCast]
    rfl
  rw [e]
  exact addCol_loop empty dflt g nr nc hR n st (by omega)

theorem addCol_err (empty : α) (s : State α) (num : Int) (start : Option Int) (dflt : Option α)
    (h : num < 0 ∨ ∃ st, start = some st ∧ (st < 0 ∨ st ≥ s.numCols)) :
    addCol empty s num start dflt = .error .IndexError := by
  cases start with
  | none =>
    rcases h with h | ⟨st, h, _⟩
    · simp [addCol, addColGen, h, bind, Except.bind, pure, Except.pure, throw, throwThe, MonadExceptOf.throw]
    · cases h
  | some st =>
    by_cases hc : st < 0 ∨ st ≥ s.numCols
    · simp [addCol, addColGen, hc, bind, Except.bind, throw, throwThe, MonadExceptOf.throw]
    · rcases h with h | ⟨st', h, h'⟩
      · simp [addCol, addColGen, hc, h, bind, Except.bind, pure, Except.pure, throw, throwThe, MonadExceptOf.throw]
      · injection h with h; subst h; exact absurd h' hc

theorem addColCore_eq (empty : α) (s : State α) (num : Int) (start : Option Int) :
    addColCore empty s num start = addCol empty s num start none := rfl

theorem delCol_loop (g : List (List α)) (nr nc : Nat) (hR : Rect g nr nc) (n a : Nat) (ha : a + n ≤ nc)
    (F : Int → State α → PyM (State α))
    (hF : ∀ (r : Nat) (s : State α) rowl, s.numCols = (nc : Int) → s.data[r]? = some rowl → rowl.length = nc →
      F (r : Int) s = .ok { s with data := s.data.modify r (fun l => renumCol (removeAt l a n)) }) :
    forRange F nr 0 (mk nr nc g) = .ok { (mk nr nc g) with data := canon (g.map (fun vs => removeAt vs a n)) } := by
  have key := rowLoop F (fun _ l => renumCol (removeAt l a n)) (fun _ => True)
    (fun rowl => rowl.length = nc) (nr : Int) (nc : Int) nr
    (by
      intro r s rowl hr a1 a2 a3 a4
      have := hF r s rowl a2 a3 a4
      exact ⟨fun _ => this, fun x hx => by rw [this] at hx; injection hx with hx; exact hx.symm⟩)
    nr 0 (mk nr nc g) (by omega) rfl rfl
    (by intro r _ hr; exact canon_rows hR r hr)
  have e0 : ((0 : Nat) : Int) = 0 := rfl
  rw [e0] at key
  rw [key.1 (fun _ _ _ => trivial)]
  congr 2
  simp only [mk]
  rw [mapIdx_if_all _ _ _ (by simp [hR.1]),
    mapIdx_canon g _ (fun _ vs => removeAt vs a n), mapIdx_const_fn]
  intro r vs _
  exact renumCol_remove r a n vs

theorem delCol_none (g : List (List α)) (nr nc : Nat) (hR : Rect g nr nc) (n : Nat) (hn : n < nc) :
    delCol (mk nr nc g) (n : Int) none = .ok (mk nr (nc - n) (g.map (fun vs => removeAt vs (nc - n) n))) := by
  have hc : ¬ ((n : Int) < 0 ∨ (n : Int) ≥ (nc : Int)) := by omega
  have e : (nc : Int) - (n : Int) = ((nc - n : Nat) : Int) := by omega
  simp only [delCol, bind, Except.bind, pure, Except.pure]
  have hnr : (mk nr nc g).numRows.toNat = nr := by simp [mk]
  rw [hnr, delCol_loop g nr nc hR n (nc - n) (by omega)
    (fun row s => delColRow (n : Int) none s.numCols s row)
    (by
      intro r s rowl h1 h2 h3
      have := delColRow_none n nc s r rowl h2 h3 (by omega)
      rw [← h1] at this
      exact this)]
  have hc' : ¬ ((n : Int) < 0 ∨ (n : Int) ≥ (mk nr nc g).numCols) := hc
  rw [if_neg hc']
  simp only [mk, e]

theorem delCol_some (g : List (List α)) (nr nc : Nat) (hR : Rect g nr nc) (n : Nat) (hn : n < nc)
    (st : Nat) (h1 : st < nc) (h2 : st + n ≤ nc) :
    delCol (mk nr nc g) (n : Int) (some (st : Int)) = .ok (mk nr (nc - n) (g.map (fun vs => removeAt vs st n))) := by
  have hc : ¬ ((st : Int) < 0 ∨ (st : Int) ≥ (nc : Int)) := by omega
  have hd : ¬ ((n : Int) < 0 ∨ (n : Int) ≥ (nc : Int) ∨ (st : Int) + (n : Int) > (nc : Int)) := by omega
  have e : (nc : Int) - (n : Int) = ((nc - n : Nat) : Int) := by omega
  simp only [delCol, mk, hc, hd, if_false, bind, Except.bind, pure, Except.pure]
  have hnr : ((nr : Int)).toNat = nr := by simp
  rw [hnr]
  have := delCol_loop g nr nc hR n st h2
    (fun row s => delColRow (n : Int) (some (st : Int)) s.numCols s row)
    (by
      intro r s rowl h1 h2 h3
      exact delColRow_some n st _ s r rowl h2 (by omega))
  simp only [mk] at this
  rw [this]
  simp only [e]

theorem delCol_err (s : State α) (num : Int) (start : Option Int)
    (h : num < 0 ∨ num ≥ s.numCols ∨ ∃ st, start = some st ∧ (st < 0 ∨ st ≥ s.numCols ∨ st + num > s.numCols)) :
    delCol s num start = .error .IndexError := by
  cases start with
  | none =>
    have hc : num < 0 ∨ num ≥ s.numCols := by
      rcases h with h | h | ⟨st, h, _⟩
      · exact Or.inl h
      · exact Or.inr h
      · cases h
    simp only [delCol, bind, Except.bind, pure, Except.pure]
    rw [if_pos hc]; rfl
  | some st =>
    by_cases hc : st < 0 ∨ st ≥ s.numCols
    · simp [delCol, hc, bind, Except.bind, throw, throwThe, MonadExceptOf.throw]
    · have hd : num < 0 ∨ num ≥ s.numCols ∨ st + num > s.numCols := by
        rcases h with h | h | ⟨st', h, h'⟩
        · exact Or.inl h
        · exact Or.inr (Or.inl h)
        · injection h with h; subst h
          rcases h' with h' | h' | h'
          · exact absurd (Or.inl h') hc
          · exact absurd (Or.inr h') hc
          · exact Or.inr (Or.inr h')
      simp only [delCol, hc, if_false, bind, Except.bind, pure, Except.pure]
      rw [if_pos hd]; rfl

/-! ### `add_row` with a default value -/

/-- the default fill of `add_row` stays within the library's limits. -/
def RowFillOK (dflt : Option α) (nc st n : Nat) : Prop :=
  dflt = none ∨ n = 0 ∨ nc = 0 ∨ InLimits (st + n - 1) (nc - 1)

theorem fillAll_canon (r nc : Nat) (v : α) (vs : List α) (h : vs.length = nc) :
    (canonRow r vs).mapIdx (fun c x => if 0 ≤ c ∧ c < 0 + nc then (⟨r, c, v⟩ : CellM α) else x)
      = canonRow r (List.replicate nc v) := by
  apply List.ext_getElem?; intro c
  rw [List.getElem?_mapIdx, canonRow_getElem?, canonRow_getElem?, List.getElem?_replicate]
  by_cases hc : c < nc
  · have : 0 ≤ c ∧ c < 0 + nc := by omega
    rw [List.getElem?_eq_getElem (by omega : c < vs.length)]
    simp [hc, this]
  · rw [List.getElem?_eq_none (by omega : vs.length ≤ c)]
    simp [hc]

theorem addRow_fill (empty v : α) (g1 : List (List α)) (NR nc : Nat) (hR : Rect g1 NR nc) (st n : Nat)
    (h : st + n ≤ NR) :
    let res : State α := mk NR nc (g1.mapIdx (fun r vs => if st ≤ r ∧ r < st + n then List.replicate nc v else vs))
    ((n = 0 ∨ nc = 0 ∨ InLimits (st + n - 1) (nc - 1)) →
      forRange (fun row s => fillRow empty v s row 0 s.numCols.toNat) n (st : Int) (mk NR nc g1) = .ok res) ∧
    (∀ x, forRange (fun row s => fillRow empty v s row 0 s.numCols.toNat) n (st : Int) (mk NR nc g1) = .ok x →
      x = res) := by
  intro res
  have key := rowLoop (fun row s => fillRow empty v s row 0 s.numCols.toNat)
    (fun r l => l.mapIdx (fun c x => if 0 ≤ c ∧ c < 0 + nc then (⟨r, c, v⟩ : CellM α) else x))
    (fun r => nc = 0 ∨ InLimits r (nc - 1)) (fun rowl => rowl.length = nc) (NR : Int) (nc : Int) NR
    (by
      intro r s rowl hr a1 a2 a3 a4
      have e : s.numCols.toNat = nc := by rw [a2]; simp
      have f := fillRow_nat empty v s r 0 nc rowl a3 (by omega) (by omega) (by omega)
      simp only [e]
      refine ⟨fun hg => f.1 ?_, f.2⟩
      rcases hg with hg | hg
      · exact Or.inl hg
      · exact Or.inr (by simpa using hg))
    n st (mk NR nc g1) h rfl rfl
    (by intro r _ hr; exact canon_rows hR r hr)
  have hres : ({ (mk NR nc g1) with data := ((mk NR nc g1).data.mapIdx (fun r l => if st ≤ r ∧ r < st + n then
      l.mapIdx (fun c x => if 0 ≤ c ∧ c < 0 + nc then (⟨r, c, v⟩ : CellM α) else x) else l)) } : State α) = res := by
    simp only [res, mk]
    congr 1
    apply mapIdx_canon g1 _ (fun r vs => if st ≤ r ∧ r < st + n then List.replicate nc v else vs)
    intro r vs hvs
    by_cases hr : st ≤ r ∧ r < st + n
    · simp only [hr, and_self, if_true]
      exact fillAll_canon r nc v vs (hR.2 vs (List.mem_of_getElem? hvs))
    · simp only [hr, if_false]
  rw [hres] at key
  refine ⟨?_, key.2⟩
  intro hok
  apply key.1
  intro r h1 h2
  rcases hok with hok | hok | hok
  · omega
  · exact Or.inl hok
  · exact Or.inr ⟨by have := hok.1; omega, hok.2⟩

theorem fill_inserted (g : List (List α)) (nc st n : Nat) (x y : α) (hst : st ≤ g.length) :
    (insertAt g st (List.replicate n (List.replicate nc x))).mapIdx
        (fun r vs => if st ≤ r ∧ r < st + n then List.replicate nc y else vs)
      = insertAt g st (List.replicate n (List.replicate nc y)) := by
  apply List.ext_getElem?; intro r
  rw [List.getElem?_mapIdx, insertAt_replicate_getElem? _ _ _ _ _ hst, insertAt_replicate_getElem? _ _ _ _ _ hst]
  by_cases h1 : r < st
  · have : ¬ (st ≤ r ∧ r < st + n) := by omega
    simp only [h1, if_true]
    cases g[r]? <;> simp [this]
  · by_cases h2 : r < st + n
    · have : (st ≤ r ∧ r < st + n) := by omega
      simp [h1, h2, this]
    · have : ¬ (st ≤ r ∧ r < st + n) := by omega
      simp only [h1, h2, if_false]
      cases g[r - n]? <;> simp [this]

theorem addRow_gen (empty : α) (dflt : Option α) (g : List (List α)) (nr nc : Nat) (hR : Rect g nr nc) (n st : Nat)
    (start : Option Int) (hstart : (start = none ∧ st = nr) ∨ (start = some (st : Int) ∧ st < nr)) :
    let res : State α := mk (nr + n) nc (insertAt g st (List.replicate n (List.replicate nc (fillVal empty dflt))))
    (RowFillOK dflt nc st n → addRow empty (mk nr nc g) (n : Int) start dflt = .ok res) ∧
    (∀ x, addRow empty (mk nr nc g) (n : Int) start dflt = .ok x → x = res) := by
  intro res
  have hcore : addRowCore empty (mk nr nc g) (n : Int) start
      = .ok (mk (nr + n) nc (insertAt g st (List.replicate n (List.replicate nc empty)))) := by
    rcases hstart with ⟨h1, h2⟩ | ⟨h1, h2⟩
    · subst h1; subst h2; exact addRowCore_none empty g st nc hR n
    · subst h1; exact addRowCore_some empty g nr nc hR n st h2
  have hst : st ≤ nr := by rcases hstart with ⟨_, h2⟩ | ⟨_, h2⟩ <;> omega
  cases dflt with
  | none =>
    have e : addRow empty (mk nr nc g) (n : Int) start none = .ok res := by
      simp only [addRow, hcore, bind, Except.bind, pure, Except.pure, res, fillVal]
    exact ⟨fun _ => e, fun x hx => by rw [e] at hx; injection hx with hx; exact hx.symm⟩
  | some v =>
    have hR1 := hR.insertRows st n hst empty
    have f := addRow_fill empty v _ (nr + n) nc hR1 st n (by omega)
    have hg : g.length = nr := hR.1
    rw [fill_inserted g nc st n empty v (by omega)] at f
    have e : addRow empty (mk nr nc g) (n : Int) start (some v)
        = forRange (fun row s => fillRow empty v s row 0 s.numCols.toNat) n (st : Int)
            (mk (nr + n) nc (insertAt g st (List.replicate n (List.replicate nc empty)))) := by
      simp only [addRow, hcore, bind, Except.bind, Int.toNat_natCast]
      rcases hstart with ⟨h1, h2⟩ | ⟨h1, h2⟩
      · subst h1; subst h2; rfl
      · subst h1; rfl
    rw [e]
    refine ⟨?_, f.2⟩
    intro hok
    apply f.1
    rcases hok with hok | hok | hok | hok
    · cases hok
    · exact Or.inl hok
    · exact Or.inr (Or.inl hok)
    · exact Or.inr (Or.inr hok)

theorem addRow_err (empty : α) (s : State α) (num : Int) (start : Option Int) (dflt : Option α)
    (h : num < 0 ∨ ∃ st, start = some st ∧ (st < 0 ∨ st ≥ s.numRows)) :
    addRow empty s num start dflt = .error .IndexError := by
  simp only [addRow, addRowCore_err empty s num start h, bind, Except.bind]

/-! ### `write`: auto-extension, then the store -/

theorem insertAt_end {β} (l xs : List β) (i : Nat) (h : l.length = i) : insertAt l i xs = l ++ xs := by
  subst h; simp [insertAt]

theorem growRows (empty : α) (nc : Nat) : ∀ (k : Nat) (i : Int) (nr : Nat) (g : List (List α)), Rect g nr nc →
    forRange (fun _ s => addRowCore empty s 1 none) k i (mk nr nc g)
      = .ok (mk (nr + k) nc (insertAt g nr (List.replicate k (List.replicate nc empty)))) := by
  intro k
  induction k with
  | zero => intro i nr g hR; simp [forRange, insertAt]
  | succ k ih =>
    intro i nr g hR
    have h1 := addRowCore_none empty g nr nc hR 1
    simp only [Nat.cast_one] at h1
    simp only [forRange]
    rw [h1]
    simp only
    rw [ih (i + 1) (nr + 1) _ (hR.insertRows nr 1 (Nat.le_refl _) empty)]
    have hl : (insertAt g nr (List.replicate 1 (List.replicate nc empty))).length = nr + 1 :=
      (hR.insertRows nr 1 (Nat.le_refl _) empty).1
    rw [insertAt_end _ _ _ hl, insertAt_end _ _ _ hR.1, insertAt_end _ _ _ hR.1]
    have : nr + 1 + k = nr + (k + 1) := by omega
    rw [this, List.append_assoc, List.replicate_append_replicate, Nat.add_comm 1 k]

theorem Rect.insertCols {g : List (List α)} {nr nc : Nat} (hR : Rect g nr nc) (st n : Nat) (hst : st ≤ nc)
    (fill : α) : Rect (g.map (fun vs => insertAt vs st (List.replicate n fill))) nr (nc + n) := by
  refine ⟨by simp [hR.1], ?_⟩
  intro row h
  simp only [List.mem_map] at h
  obtain ⟨vs, h1, rfl⟩ := h
  rw [insertAt_length _ _ _ (by rw [hR.2 vs h1]; exact hst), hR.2 vs h1]; simp

theorem Rect.removeCols {g : List (List α)} {nr nc : Nat} (hR : Rect g nr nc) (st n : Nat) (hst : st + n ≤ nc) :
    Rect (g.map (fun vs => removeAt vs st n)) nr (nc - n) := by
  refine ⟨by simp [hR.1], ?_⟩
  intro row h
  simp only [List.mem_map] at h
  obtain ⟨vs, h1, rfl⟩ := h
  rw [removeAt_length _ _ _ (by rw [hR.2 vs h1]; exact hst), hR.2 vs h1]

theorem growCols (empty : α) (nr : Nat) : ∀ (k : Nat) (i : Int) (nc : Nat) (g : List (List α)), Rect g nr nc →
    forRange (fun _ s => addColCore empty s 1 none) k i (mk nr nc g)
      = .ok (mk nr (nc + k) (g.map (fun vs => insertAt vs nc (List.replicate k empty)))) := by
  intro k
  induction k with
  | zero =>
    intro i nc g hR
    simp only [forRange, Nat.add_zero, insertAt, List.replicate_zero, List.append_nil, List.take_append_drop]
    simp
  | succ k ih =>
    intro i nc g hR
    have h1 := (addCol_none empty none g nr nc hR 1).1 (Or.inl rfl)
    simp only [Nat.cast_one] at h1
    simp only [forRange]
    rw [addColCore_eq, h1]
    simp only
    have hR1 := hR.insertCols nc 1 (Nat.le_refl _) (fillVal empty none)
    rw [ih (i + 1) (nc + 1) _ hR1]
    have : nc + 1 + k = nc + (k + 1) := by omega
    rw [this]
    congr 2
    rw [List.map_map]
    apply List.map_congr_left
    intro vs hvs
    have hl := hR.2 vs hvs
    simp only [Function.comp, fillVal]
    rw [insertAt_end vs _ nc hl, insertAt_end _ _ (nc + 1) (by simp [hl]), insertAt_end vs _ nc hl,
      List.append_assoc, List.replicate_append_replicate, Nat.add_comm 1 k]

/-- the grid after the auto-extension of `_validate_cell_coords(r, c)`. -/
def grown (empty : α) (g : List (List α)) (nr nc r c : Nat) : List (List α) :=
  (insertAt g nr (List.replicate (r + 1 - nr) (List.replicate nc empty))).map
    (fun vs => insertAt vs nc (List.replicate (c + 1 - nc) empty))

theorem Rect.grown {g : List (List α)} {nr nc : Nat} (hR : Rect g nr nc) (empty : α) (r c : Nat) :
    Rect (Grid.grown empty g nr nc r c) (nr + (r + 1 - nr)) (nc + (c + 1 - nc)) :=
  (hR.insertRows nr _ (Nat.le_refl _) empty).insertCols nc _ (Nat.le_refl _) empty

theorem validate_mk (empty : α) (g : List (List α)) (nr nc : Nat) (hR : Rect g nr nc) (r c : Nat)
    (hr : r < Gen.MAX_ROW_COUNT) (hc : c < Gen.MAX_COL_COUNT) :
    validate empty (mk nr nc g) (r : Int) (c : Int)
      = .ok (mk (nr + (r + 1 - nr)) (nc + (c + 1 - nc)) (grown empty g nr nc r c)) := by
  have h0 : ¬ ((r : Int) < 0 ∨ (c : Int) < 0) := by omega
  have h1 : ¬ ((r : Int) ≥ (Gen.MAX_ROW_COUNT : Int)) := by omega
  have h2 : ¬ ((c : Int) ≥ (Gen.MAX_COL_COUNT : Int)) := by omega
  have e1 : ((r : Int) + 1 - (nr : Int)).toNat = r + 1 - nr := by omega
  simp only [validate, h0, h1, h2, if_false, bind, Except.bind, pure, Except.pure, mk, e1]
  have := growRows empty nc (r + 1 - nr) (nr : Int) nr g hR
  simp only [mk] at this
  rw [this]
  simp only
  have e2 : ((c : Int) + 1 - (nc : Int)).toNat = c + 1 - nc := by omega
  rw [e2]
  have := growCols empty (nr + (r + 1 - nr)) (c + 1 - nc) (nc : Int) nc _ (hR.insertRows nr (r + 1 - nr) (Nat.le_refl _) empty)
  simp only [mk] at this
  rw [this]
  rfl

theorem canon_put (g : List (List α)) (r c : Nat) (v : α) :
    (canon g).modify r (fun l => l.modify c (fun _ => (⟨r, c, v⟩ : CellM α)))
      = canon (g.modify r (fun vs => vs.set c v)) := by
  apply List.ext_getElem?; intro i
  rw [List.getElem?_modify, canon_getElem?, canon_getElem?, List.getElem?_modify]
  cases hg : g[i]? with
  | none => rfl
  | some vs =>
    simp only [Option.map_some, Functor.map]
    by_cases hi : r = i
    · subst hi
      simp only [if_true]
      congr 1
      apply List.ext_getElem?; intro j
      rw [List.getElem?_modify, canonRow_getElem?, canonRow_getElem?, List.getElem?_set]
      by_cases hj : c = j
      · subst hj
        by_cases hl : c < vs.length
        · rw [List.getElem?_eq_getElem hl]; simp [hl]
        · rw [List.getElem?_eq_none (by omega)]; simp [hl]
      · simp only [hj, if_false]
        cases vs[j]? <;> rfl
    · simp only [hi, if_false]

/-- `write(r, c, v)` for coordinates within the limits. -/
theorem write_mk (empty : α) (g : List (List α)) (nr nc : Nat) (hR : Rect g nr nc) (r c : Nat) (v : α)
    (hr : r < Gen.MAX_ROW_COUNT) (hc : c < Gen.MAX_COL_COUNT) :
    write empty (mk nr nc g) (r : Int) (c : Int) v
      = .ok (mk (nr + (r + 1 - nr)) (nc + (c + 1 - nc))
          ((grown empty g nr nc r c).modify r (fun vs => vs.set c v))) := by
  have hG := hR.grown empty r c
  obtain ⟨rowl, h1, h2⟩ := canon_rows hG r (by omega)
  have hv := validate_mk empty g nr nc hR r c hr hc
  have w := (write_inrange empty (mk (nr + (r + 1 - nr)) (nc + (c + 1 - nc)) (grown empty g nr nc r c)) r c v rowl
    h1 (by omega) (by simp only [mk]; omega) (by simp only [mk]; omega)).1 ⟨hr, hc⟩
  -- `write` only looks at the state through `validate`
  have e : write empty (mk nr nc g) (r : Int) (c : Int) v
      = write empty (mk (nr + (r + 1 - nr)) (nc + (c + 1 - nc)) (grown empty g nr nc r c)) (r : Int) (c : Int) v := by
    have hv2 := validate_inrange empty (mk (nr + (r + 1 - nr)) (nc + (c + 1 - nc)) (grown empty g nr nc r c)) r c
      (by simp only [mk]; omega) (by simp only [mk]; omega)
    have h1' : ¬ ((r : Int) ≥ (Gen.MAX_ROW_COUNT : Int)) := by omega
    have h2' : ¬ ((c : Int) ≥ (Gen.MAX_COL_COUNT : Int)) := by omega
    simp only [h1', h2', if_false] at hv2
    simp only [write, hv, hv2]
  rw [e, w]
  simp only [putCell, mk, canon_put]

theorem write_err (empty : α) (s : State α) (r c : Int) (v : α)
    (h : r < 0 ∨ c < 0 ∨ r ≥ (Gen.MAX_ROW_COUNT : Int) ∨ c ≥ (Gen.MAX_COL_COUNT : Int)) :
    write empty s r c v = .error .IndexError := by
  have : validate empty s r c = .error .IndexError := by
    unfold validate
    by_cases h0 : r < 0 ∨ c < 0
    · simp [h0, bind, Except.bind, throw, throwThe, MonadExceptOf.throw]
    · by_cases h1 : r ≥ (Gen.MAX_ROW_COUNT : Int)
      · simp [h0, h1, bind, Except.bind, pure, Except.pure, throw, throwThe, MonadExceptOf.throw]
      · have h2 : c ≥ (Gen.MAX_COL_COUNT : Int) := by
          rcases h with h | h | h | h
          · exact absurd (Or.inl h) h0
          · exact absurd (Or.inr h) h0
          · exact absurd h h1
          · exact h
        simp [h0, h1, h2, bind, Except.bind, pure, Except.pure, throw, throwThe, MonadExceptOf.throw]
  simp only [write, this, bind, Except.bind]

/-! ### well-formed states are exactly the canonical ones -/

/-- the table invariant of C03: the stored dimensions are the dimensions of `_data`, and every
    cell reports the position it is stored at. -/
def WF (s : State α) : Prop :=
  (s.data.length : Int) = s.numRows ∧ 0 ≤ s.numCols ∧ (∀ row ∈ s.data, (row.length : Int) = s.numCols) ∧
  ∀ (r c : Nat) (rowl : List (CellM α)) (cell : CellM α), s.data[r]? = some rowl → rowl[c]? = some cell →
    cell.row = (r : Int) ∧ cell.col = (c : Int)

theorem wf_mk (g : List (List α)) (nr nc : Nat) (hR : Rect g nr nc) : WF (mk nr nc g) := by
  refine ⟨by simp [mk, hR.1], by simp [mk], ?_, ?_⟩
  · intro row h
    simp only [mk] at h ⊢
    rw [canon_mem_length hR h]
  · intro r c rowl cell h1 h2
    simp only [mk, canon_getElem?] at h1
    cases hg : g[r]? with
    | none => rw [hg] at h1; cases h1
    | some vs =>
      rw [hg] at h1; injection h1 with h1
      rw [← h1, canonRow_getElem?] at h2
      cases hv : vs[c]? with
      | none => rw [hv] at h2; cases h2
      | some v => rw [hv] at h2; injection h2 with h2; rw [← h2]; exact ⟨rfl, rfl⟩

theorem mk_of_wf (s : State α) (h : WF s) :
    ∃ (nr nc : Nat) (g : List (List α)), Rect g nr nc ∧ s = mk nr nc g := by
  obtain ⟨h1, h2, h3, h4⟩ := h
  refine ⟨s.data.length, s.numCols.toNat, vals s.data, ⟨by simp [vals], ?_⟩, ?_⟩
  · apply vals_width
    intro rowl hr
    have := h3 rowl hr
    omega
  · have hd : canon (vals s.data) = s.data := by
      rw [canon_vals]
      apply List.ext_getElem?; intro r
      rw [List.getElem?_mapIdx]
      cases hx : s.data[r]? with
      | none => rfl
      | some rowl =>
        simp only [Option.map_some]
        congr 1
        apply List.ext_getElem?; intro c
        simp only [renumRow, List.getElem?_mapIdx]
        cases hc : rowl[c]? with
        | none => rfl
        | some cell =>
          obtain ⟨a, b⟩ := h4 r c rowl cell hx hc
          simp only [Option.map_some]
          congr 1
          cases cell; simp_all
    cases s with
    | mk a b d =>
      simp only [mk] at *
      rw [hd]
      congr 1
      · omega
      · omega

/-- the table a plain grid stands for. -/
def conc (sp : Spec α) : State α := { numRows := sp.nrows, numCols := sp.ncols, data := canon sp.cells }

/-- a plain grid is rectangular with the dimensions it claims. -/
def RectS (sp : Spec α) : Prop := ∃ nr nc : Nat, sp.nrows = nr ∧ sp.ncols = nc ∧ Rect sp.cells nr nc

theorem abs_mk (g : List (List α)) (nr nc : Nat) : abs (mk nr nc g) = ⟨nr, nc, g⟩ := by
  simp only [abs, mk]
  congr 1
  exact vals_canon g

theorem abs_conc (sp : Spec α) : abs (conc sp) = sp := by
  cases sp with
  | mk a b c =>
    simp only [abs, conc]
    congr 1
    exact vals_canon c

theorem wf_conc (sp : Spec α) (h : RectS sp) : WF (conc sp) := by
  obtain ⟨nr, nc, h1, h2, h3⟩ := h
  have : conc sp = mk nr nc sp.cells := by simp [conc, mk, h1, h2]
  rw [this]; exact wf_mk _ _ _ h3

/-- the default fill (if any) stays inside the library's row / column limits; otherwise the
    fill's own `write` raises from the middle of the operation. -/
def FillOK (s : State α) : Op α → Prop
  | .addRow n _ d => d = none ∨ (s.numRows + n ≤ (Gen.MAX_ROW_COUNT : Int) ∧ s.numCols ≤ (Gen.MAX_COL_COUNT : Int))
  | .addCol n _ d => d = none ∨ (s.numRows ≤ (Gen.MAX_ROW_COUNT : Int) ∧ s.numCols + n ≤ (Gen.MAX_COL_COUNT : Int))
  | _ => True

/-- everything the proofs need to know about one step from a given state. -/
structure StepFacts (empty : α) (s : State α) (op : Op α) : Prop where
  sound : ∀ x, step empty s op = .ok x →
    Valid s op ∧ x = conc (specStep empty (abs s) op) ∧ RectS (specStep empty (abs s) op)
  complete : Valid s op → FillOK s op → ∃ x, step empty s op = .ok x
  invalid : ¬ Valid s op → step empty s op = .error .IndexError

theorem Rect.put {g : List (List α)} {nr nc : Nat} (hR : Rect g nr nc) (r c : Nat) (v : α) :
    Rect (g.modify r (fun vs => vs.set c v)) nr nc := by
  refine ⟨by simp [hR.1], ?_⟩
  intro row h
  obtain ⟨i, hi, rfl⟩ := List.getElem_of_mem h
  have hi' : i < g.length := by simpa using hi
  have : (g.modify r (fun vs => vs.set c v))[i]? = some ((fun a => if r = i then a.set c v else a) g[i]) := by
    rw [List.getElem?_modify, List.getElem?_eq_getElem hi']; rfl
  rw [List.getElem?_eq_getElem hi] at this
  injection this with this
  rw [this]
  by_cases hri : r = i
  · simp only [hri, if_true, List.length_set]; exact hR.2 _ (List.getElem_mem hi')
  · simp only [hri, if_false]; exact hR.2 _ (List.getElem_mem hi')

/-! ### one step from a canonical state -/

theorem facts_of_eq (empty : α) (s : State α) (op : Op α) (x : State α)
    (hv : Valid s op) (hx : x = conc (specStep empty (abs s) op)) (hr : RectS (specStep empty (abs s) op))
    (hok : FillOK s op → step empty s op = .ok x) (hsound : ∀ y, step empty s op = .ok y → y = x) :
    StepFacts empty s op :=
  ⟨(fun y hy => ⟨hv, (hsound y hy).trans hx, hr⟩), (fun _ hf => ⟨x, hok hf⟩), (fun h => absurd hv h)⟩

theorem facts_of_err (empty : α) (s : State α) (op : Op α) (hv : ¬ Valid s op)
    (he : step empty s op = .error .IndexError) : StepFacts empty s op :=
  ⟨(fun y hy => by rw [he] at hy; cases hy), (fun h _ => absurd h hv), (fun _ => he)⟩

theorem facts_write (empty : α) (g : List (List α)) (nr nc : Nat) (hR : Rect g nr nc) (r c : Int) (v : α) :
    StepFacts empty (mk nr nc g) (.write r c v) := by
  by_cases hv : Valid (mk nr nc g) (.write r c v)
  · obtain ⟨h1, h2, h3, h4⟩ := hv
    obtain ⟨r', rfl⟩ := Int.eq_ofNat_of_zero_le h1
    obtain ⟨c', rfl⟩ := Int.eq_ofNat_of_zero_le h2
    have hw := write_mk empty g nr nc hR r' c' v (by exact_mod_cast h3) (by exact_mod_cast h4)
    refine facts_of_eq empty _ _ _ ⟨h1, h2, h3, h4⟩ ?_ ?_ (fun _ => hw)
      (fun y hy => by simp only [step] at hy; rw [hw] at hy; injection hy with hy; exact hy.symm)
    · rw [abs_mk]; simp only [specStep, Spec.put, Spec.insertRows, Spec.insertCols, conc, mk, grown,
        Int.toNat_natCast]
      congr 1
    · rw [abs_mk]; simp only [specStep, Spec.put, Spec.insertRows, Spec.insertCols, Int.toNat_natCast]
      exact ⟨nr + (r' + 1 - nr), nc + (c' + 1 - nc), by simp, by simp, (hR.grown empty r' c').put r' c' v⟩
  · refine facts_of_err empty _ _ hv ?_
    simp only [step]
    apply write_err
    simp only [Valid] at hv
    omega

/-- the `start` argument, once validated, as a natural number. -/
theorem start_cases (start : Option Int) (lim : Nat)
    (h : match start with | some st => 0 ≤ st ∧ st < (lim : Int) | none => True) (dflt : Nat) (hd : dflt ≤ lim) :
    ∃ st : Nat, ((start = none ∧ st = dflt) ∨ (start = some (st : Int) ∧ st < lim)) ∧
      startNat start (dflt : Int) = st ∧ st ≤ lim := by
  cases start with
  | none => exact ⟨dflt, Or.inl ⟨rfl, rfl⟩, by simp [startNat], hd⟩
  | some st =>
    simp only at h
    obtain ⟨st', rfl⟩ := Int.eq_ofNat_of_zero_le h.1
    exact ⟨st', Or.inr ⟨rfl, by omega⟩, by simp [startNat], by omega⟩

theorem start_invalid (start : Option Int) (lim : Int)
    (h : ¬ (match start with | some st => 0 ≤ st ∧ st < lim | none => True)) :
    ∃ st, start = some st ∧ (st < 0 ∨ st ≥ lim) := by
  cases start with
  | none => exact absurd trivial h
  | some st => simp only at h; exact ⟨st, rfl, by omega⟩

theorem facts_addRow (empty : α) (g : List (List α)) (nr nc : Nat) (hR : Rect g nr nc) (n : Int)
    (start : Option Int) (d : Option α) : StepFacts empty (mk nr nc g) (.addRow n start d) := by
  by_cases hv : Valid (mk nr nc g) (.addRow n start d)
  · have hv' := hv
    obtain ⟨h1, h2⟩ := hv
    obtain ⟨n', rfl⟩ := Int.eq_ofNat_of_zero_le h1
    obtain ⟨st, hst1, hst2, hle⟩ := start_cases start nr h2 nr (Nat.le_refl _)
    have ha := addRow_gen empty d g nr nc hR n' st start hst1
    refine facts_of_eq empty _ _ _ hv' ?_ ?_ (fun hf => ha.1 ?_) (fun y hy => ha.2 y hy)
    · rw [abs_mk]; simp only [specStep, Spec.insertRows, conc, mk, Int.toNat_natCast, hst2]
      congr 1
    · rw [abs_mk]; simp only [specStep, Spec.insertRows, Int.toNat_natCast, hst2]
      exact ⟨nr + n', nc, by simp, by simp, hR.insertRows st n' hle _⟩
    · simp only [FillOK, mk] at hf
      rcases hf with hf | hf
      · exact Or.inl hf
      · by_cases hn0 : n' = 0
        · exact Or.inr (Or.inl hn0)
        · by_cases hc0 : nc = 0
          · exact Or.inr (Or.inr (Or.inl hc0))
          · have a : st + n' - 1 < Gen.MAX_ROW_COUNT := by
              have : ((nr + n' : Nat) : Int) ≤ (Gen.MAX_ROW_COUNT : Int) := by push_cast; exact hf.1
              have : nr + n' ≤ Gen.MAX_ROW_COUNT := by exact_mod_cast this
              omega
            have b : nc - 1 < Gen.MAX_COL_COUNT := by
              have : nc ≤ Gen.MAX_COL_COUNT := by exact_mod_cast hf.2
              omega
            exact Or.inr (Or.inr (Or.inr ⟨a, b⟩))
  · refine facts_of_err empty _ _ hv ?_
    simp only [step]
    apply addRow_err
    simp only [Valid] at hv
    by_cases hn : n < 0
    · exact Or.inl hn
    · exact Or.inr (start_invalid start _ (fun h => hv ⟨by omega, h⟩))

theorem facts_addCol (empty : α) (g : List (List α)) (nr nc : Nat) (hR : Rect g nr nc) (n : Int)
    (start : Option Int) (d : Option α) : StepFacts empty (mk nr nc g) (.addCol n start d) := by
  by_cases hv : Valid (mk nr nc g) (.addCol n start d)
  · have hv' := hv
    obtain ⟨h1, h2⟩ := hv
    obtain ⟨n', rfl⟩ := Int.eq_ofNat_of_zero_le h1
    obtain ⟨st, hst1, hst2, hle⟩ := start_cases start nc h2 nc (Nat.le_refl _)
    have ha : (ColFillOK d nr st n' → addCol empty (mk nr nc g) (n' : Int) start d
          = .ok (mk nr (nc + n') (g.map (fun vs => insertAt vs st (List.replicate n' (fillVal empty d)))))) ∧
        (∀ x, addCol empty (mk nr nc g) (n' : Int) start d = .ok x →
          x = mk nr (nc + n') (g.map (fun vs => insertAt vs st (List.replicate n' (fillVal empty d))))) := by
      rcases hst1 with ⟨a, b⟩ | ⟨a, b⟩
      · subst a; subst b; exact addCol_none empty d g nr st hR n'
      · subst a; exact addCol_some empty d g nr nc hR n' st b
    refine facts_of_eq empty _ _ _ hv' ?_ ?_ (fun hf => ha.1 ?_) (fun y hy => ha.2 y hy)
    · rw [abs_mk]; simp only [specStep, Spec.insertCols, conc, mk, Int.toNat_natCast, hst2]
      congr 1
    · rw [abs_mk]; simp only [specStep, Spec.insertCols, Int.toNat_natCast, hst2]
      exact ⟨nr, nc + n', by simp, by simp, hR.insertCols st n' hle _⟩
    · simp only [FillOK, mk] at hf
      rcases hf with hf | hf
      · exact Or.inl hf
      · by_cases hn0 : n' = 0
        · exact Or.inr (Or.inl hn0)
        · by_cases hr0 : nr = 0
          · exact Or.inr (Or.inr (Or.inl hr0))
          · have a : nr - 1 < Gen.MAX_ROW_COUNT := by
              have : nr ≤ Gen.MAX_ROW_COUNT := by exact_mod_cast hf.1
              omega
            have b : st + n' - 1 < Gen.MAX_COL_COUNT := by
              have : ((nc + n' : Nat) : Int) ≤ (Gen.MAX_COL_COUNT : Int) := by push_cast; exact hf.2
              have : nc + n' ≤ Gen.MAX_COL_COUNT := by exact_mod_cast this
              omega
            exact Or.inr (Or.inr (Or.inr ⟨a, b⟩))
  · refine facts_of_err empty _ _ hv ?_
    simp only [step]
    apply addCol_err
    simp only [Valid] at hv
    by_cases hn : n < 0
    · exact Or.inl hn
    · exact Or.inr (start_invalid start _ (fun h => hv ⟨by omega, h⟩))

theorem start_cases_del (start : Option Int) (lim n : Nat) (hn : n < lim)
    (h : match start with | some st => 0 ≤ st ∧ st < (lim : Int) ∧ st + (n : Int) ≤ (lim : Int) | none => True) :
    ∃ st : Nat, ((start = none ∧ st = lim - n) ∨ (start = some (st : Int) ∧ st < lim)) ∧
      startNat start ((lim : Int) - (n : Int)) = st ∧ st + n ≤ lim := by
  cases start with
  | none => exact ⟨lim - n, Or.inl ⟨rfl, rfl⟩, by simp only [startNat]; omega, by omega⟩
  | some st =>
    simp only at h
    obtain ⟨st', rfl⟩ := Int.eq_ofNat_of_zero_le h.1
    exact ⟨st', Or.inr ⟨rfl, by omega⟩, by simp [startNat], by omega⟩

theorem start_invalid_del (start : Option Int) (lim n : Int)
    (h : ¬ (match start with | some st => 0 ≤ st ∧ st < lim ∧ st + n ≤ lim | none => True)) :
    ∃ st, start = some st ∧ (st < 0 ∨ st ≥ lim ∨ st + n > lim) := by
  cases start with
  | none => exact absurd trivial h
  | some st => simp only at h; exact ⟨st, rfl, by omega⟩

theorem facts_delRow (g : List (List α)) (empty : α) (nr nc : Nat) (hR : Rect g nr nc) (n : Int)
    (start : Option Int) : StepFacts empty (mk nr nc g) (.delRow n start) := by
  by_cases hv : Valid (mk nr nc g) (.delRow n start)
  · have hv' := hv
    obtain ⟨h1, h2, h3⟩ := hv
    obtain ⟨n', rfl⟩ := Int.eq_ofNat_of_zero_le h1
    simp only [mk] at h2 h3
    obtain ⟨st, hst1, hst2, hle⟩ := start_cases_del start nr n' (by omega) h3
    have hok : step empty (mk nr nc g) (.delRow (n' : Int) start) = .ok (mk (nr - n') nc (removeAt g st n')) := by
      rcases hst1 with ⟨a, b⟩ | ⟨a, b⟩
      · subst a; subst b; exact delRow_none g nr nc hR n' (by omega)
      · subst a; exact delRow_some g nr nc hR n' (by omega) st b hle
    refine facts_of_eq empty _ _ _ hv' ?_ ?_ (fun _ => hok)
      (fun y hy => by rw [hok] at hy; injection hy with hy; exact hy.symm)
    · rw [abs_mk]; simp only [specStep, Spec.removeRows, conc, mk, Int.toNat_natCast, hst2]
      congr 1; omega
    · rw [abs_mk]; simp only [specStep, Spec.removeRows, Int.toNat_natCast, hst2]
      exact ⟨nr - n', nc, by simp only; omega, rfl, hR.removeRows st n' hle⟩
  · refine facts_of_err empty _ _ hv ?_
    simp only [step]
    apply delRow_err
    simp only [Valid] at hv
    by_cases hn : n < 0
    · exact Or.inl hn
    · by_cases hn2 : n ≥ (mk nr nc g).numRows
      · exact Or.inr (Or.inl hn2)
      · exact Or.inr (Or.inr (start_invalid_del start _ _ (fun h => hv ⟨by omega, by omega, h⟩)))

theorem facts_delCol (g : List (List α)) (empty : α) (nr nc : Nat) (hR : Rect g nr nc) (n : Int)
    (start : Option Int) : StepFacts empty (mk nr nc g) (.delCol n start) := by
  by_cases hv : Valid (mk nr nc g) (.delCol n start)
  · have hv' := hv
    obtain ⟨h1, h2, h3⟩ := hv
    obtain ⟨n', rfl⟩ := Int.eq_ofNat_of_zero_le h1
    simp only [mk] at h2 h3
    obtain ⟨st, hst1, hst2, hle⟩ := start_cases_del start nc n' (by omega) h3
    have hok : step empty (mk nr nc g) (.delCol (n' : Int) start)
        = .ok (mk nr (nc - n') (g.map (fun vs => removeAt vs st n'))) := by
      rcases hst1 with ⟨a, b⟩ | ⟨a, b⟩
      · subst a; subst b; exact delCol_none g nr nc hR n' (by omega)
      · subst a; exact delCol_some g nr nc hR n' (by omega) st b hle
    refine facts_of_eq empty _ _ _ hv' ?_ ?_ (fun _ => hok)
      (fun y hy => by rw [hok] at hy; injection hy with hy; exact hy.symm)
    · rw [abs_mk]; simp only [specStep, Spec.removeCols, conc, mk, Int.toNat_natCast, hst2]
      congr 1; omega
    · rw [abs_mk]; simp only [specStep, Spec.removeCols, Int.toNat_natCast, hst2]
      exact ⟨nr, nc - n', rfl, by simp only; omega, hR.removeCols st n' hle⟩
  · refine facts_of_err empty _ _ hv ?_
    simp only [step]
    apply delCol_err
    simp only [Valid] at hv
    by_cases hn : n < 0
    · exact Or.inl hn
    · by_cases hn2 : n ≥ (mk nr nc g).numCols
      · exact Or.inr (Or.inl hn2)
      · exact Or.inr (Or.inr (start_invalid_del start _ _ (fun h => hv ⟨by omega, by omega, h⟩)))

/-- the key lemma of C03: from a well-formed table every operation either raises IndexError
    (exactly when its arguments are not `Valid`) or produces the canonical table of the plain
    grid operation. -/
theorem stepFacts (empty : α) (s : State α) (h : WF s) (op : Op α) : StepFacts empty s op := by
  obtain ⟨nr, nc, g, hR, rfl⟩ := mk_of_wf s h
  cases op with
  | write r c v => exact facts_write empty g nr nc hR r c v
  | addRow n st d => exact facts_addRow empty g nr nc hR n st d
  | addCol n st d => exact facts_addCol empty g nr nc hR n st d
  | delRow n st => exact facts_delRow g empty nr nc hR n st
  | delCol n st => exact facts_delCol g empty nr nc hR n st

/-! ### the initial table, histories, several tables -/

theorem init_eq_mk (empty : α) (nr nc : Nat) :
    init empty nr nc = mk nr nc (List.replicate nr (List.replicate nc empty)) := by
  simp only [init, mk]
  congr 1
  apply List.ext_getElem?; intro r
  rw [compRange_eq, canon_getElem?, List.getElem?_map, List.getElem?_replicate]
  by_cases hr : r < nr
  · rw [List.getElem?_range hr]
    simp only [hr, if_true, Option.map_some]
    congr 1
    apply List.ext_getElem?; intro c
    rw [compRange_eq, canonRow_getElem?, List.getElem?_map, List.getElem?_replicate]
    by_cases hc : c < nc
    · rw [List.getElem?_range hc]; simp [hc]
    · rw [List.getElem?_eq_none (by simp; omega)]; simp [hc]
  · rw [List.getElem?_eq_none (by simp; omega)]; simp [hr]

theorem rect_replicate (nr nc : Nat) (x : α) : Rect (List.replicate nr (List.replicate nc x)) nr nc := by
  refine ⟨by simp, ?_⟩
  intro row h
  rw [List.mem_replicate] at h
  rw [h.2]; simp

theorem wf_runOps (empty : α) (ops : List (Op α)) : ∀ s : State α, WF s → WF (runOps empty s ops) := by
  induction ops with
  | nil => intro s h; exact h
  | cons op rest ih =>
    intro s h
    simp only [runOps]
    cases hs : step empty s op with
    | error e => exact ih s h
    | ok s' =>
      obtain ⟨_, hx, hr⟩ := (stepFacts empty s h op).sound s' hs
      exact ih s' (by rw [hx]; exact wf_conc _ hr)

theorem docStep_others (empty : α) (d d' : List (State α)) (i : Nat) (op : Op α)
    (h : docStep empty d (.edit i op) = .ok d') : d'.length = d.length ∧ ∀ j, j ≠ i → d'[j]? = d[j]? := by
  simp only [docStep] at h
  cases hd : d[i]? with
  | none => rw [hd] at h; cases h
  | some s =>
    rw [hd] at h
    simp only [bind, Except.bind] at h
    cases hs : step empty s op with
    | error e => rw [hs] at h; cases h
    | ok s' =>
      rw [hs] at h
      injection h with h
      subst h
      refine ⟨by simp, ?_⟩
      intro j hj
      rw [List.getElem?_set]
      simp [Ne.symm hj]

theorem docStep_wf (empty : α) (d d' : List (State α)) (op : DocOp α) (hwf : ∀ s ∈ d, WF s)
    (h : docStep empty d op = .ok d') : ∀ s ∈ d', WF s := by
  cases op with
  | edit i op =>
    simp only [docStep] at h
    cases hd : d[i]? with
    | none => rw [hd] at h; cases h
    | some s =>
      rw [hd] at h
      simp only [bind, Except.bind] at h
      cases hs : step empty s op with
      | error e => rw [hs] at h; cases h
      | ok s' =>
        rw [hs] at h
        injection h with h
        subst h
        intro x hx
        rcases List.mem_or_eq_of_mem_set hx with hx | hx
        · exact hwf x hx
        · subst hx
          obtain ⟨_, hx', hr⟩ := (stepFacts empty s (hwf s (List.mem_of_getElem? hd)) op).sound _ hs
          rw [hx']; exact wf_conc _ hr
  | addTable nr nc =>
    simp only [docStep] at h
    injection h with h
    subst h
    intro x hx
    rcases List.mem_append.mp hx with hx | hx
    · exact hwf x hx
    · simp only [List.mem_singleton] at hx
      subst hx
      rw [init_eq_mk]
      exact wf_mk _ _ _ (rect_replicate nr nc empty)
  | rename i => simp only [docStep] at h; injection h with h; subst h; exact hwf
  | save => simp only [docStep] at h; injection h with h; subst h; exact hwf

end NumbersModel.Grid
