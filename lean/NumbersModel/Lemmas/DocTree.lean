/-
Helper lemmas for the document-tree model (Model/DocTree.lean): the store as a map (independent of iteration order),
the stable sort on the drawable position, reading after a reload in any file order.
-/
import NumbersModel.Model.DocTree
import NumbersModel.Lemmas.Layout
import Mathlib.Data.List.Nodup
import Mathlib.Data.List.Perm.Basic
import Mathlib.Data.List.Flatten
namespace NumbersModel.DocTree
open NumbersModel NumbersModel.Layout NumbersModel.ObjStore

/-! ### the store as a map -/

theorem dictGet?_of_mem {β : Type} (os : List (Nat × β)) (hn : (dictKeys os).Nodup) (k : Nat) (o : β) (h : (k, o) ∈ os) :
    dictGet? os k = some o := by
  induction os with
  | nil => cases h
  | cons a r ih =>
    obtain ⟨k', o'⟩ := a
    simp only [dictKeys, List.map_cons, List.nodup_cons] at hn
    simp only [List.mem_cons, Prod.mk.injEq] at h
    rcases h with ⟨rfl, rfl⟩ | h
    · simp [dictGet?]
    · have : k' ≠ k := by
        rintro rfl
        exact hn.1 (List.mem_map.mpr ⟨(k', o), h, rfl⟩)
      simp only [dictGet?, this, if_false]
      exact ih hn.2 h

theorem mem_of_dictGet? {β : Type} (os : List (Nat × β)) (k : Nat) (o : β) (h : dictGet? os k = some o) : (k, o) ∈ os := by
  induction os with
  | nil => simp [dictGet?] at h
  | cons a r ih =>
    obtain ⟨k', o'⟩ := a
    simp only [dictGet?] at h
    split at h
    · rename_i hk; subst hk; injection h with h; subst h; exact List.mem_cons_self
    · exact List.mem_cons_of_mem _ (ih h)

theorem dictGet?_perm {β : Type} (os os' : List (Nat × β)) (hp : os'.Perm os) (hn : (dictKeys os).Nodup) (k : Nat) :
    dictGet? os' k = dictGet? os k := by
  have hn' : (dictKeys os').Nodup := (List.Perm.map Prod.fst hp).nodup_iff.mpr hn
  cases h : dictGet? os k with
  | some o => exact dictGet?_of_mem os' hn' k o (hp.symm.subset (mem_of_dictGet? os k o h))
  | none =>
    cases h' : dictGet? os' k with
    | none => rfl
    | some o =>
      have := dictGet?_of_mem os hn k o (hp.subset (mem_of_dictGet? os' k o h'))
      rw [h] at this; cases this

/-! ### the stable sort -/

theorem insertByKey_perm {α} (key : α → Nat) (x : α) (l : List α) : (insertByKey key x l).Perm (x :: l) := by
  induction l with
  | nil => exact List.Perm.refl _
  | cons y r ih =>
    simp only [insertByKey]
    split
    · exact List.Perm.refl _
    · exact (List.Perm.cons y ih).trans (List.Perm.swap x y r)

theorem sortByKey_perm {α} (key : α → Nat) (l : List α) : (sortByKey key l).Perm l := by
  induction l with
  | nil => exact List.Perm.refl _
  | cons x r ih =>
    simp only [sortByKey, List.foldr_cons]
    exact (insertByKey_perm key x _).trans (List.Perm.cons x ih)

theorem insertByKey_sorted {α} (key : α → Nat) (x : α) (l : List α) (h : l.Pairwise (fun a b => key a ≤ key b)) :
    (insertByKey key x l).Pairwise (fun a b => key a ≤ key b) := by
  induction l with
  | nil => simp [insertByKey]
  | cons y r ih =>
    simp only [insertByKey]
    split
    · rename_i hxy
      refine List.Pairwise.cons ?_ h
      intro b hb
      rcases List.mem_cons.mp hb with rfl | hb
      · exact hxy
      · exact Nat.le_trans hxy (List.rel_of_pairwise_cons h hb)
    · rename_i hxy
      refine List.Pairwise.cons ?_ (ih h.tail)
      intro b hb
      have := (insertByKey_perm key x r).subset hb
      rcases List.mem_cons.mp this with rfl | hb
      · omega
      · exact List.rel_of_pairwise_cons h hb

theorem sortByKey_sorted {α} (key : α → Nat) (l : List α) : (sortByKey key l).Pairwise (fun a b => key a ≤ key b) := by
  induction l with
  | nil => simp [sortByKey]
  | cons x r ih => exact insertByKey_sorted key x _ ih

/-- sorting two arrangements of the same elements by a key that tells them apart gives the same list -/
theorem sortByKey_perm_eq {α} (key : α → Nat) (l l' : List α) (hp : l'.Perm l)
    (hinj : ∀ a ∈ l, ∀ b ∈ l, key a = key b → a = b) : sortByKey key l' = sortByKey key l := by
  refine List.Perm.eq_of_pairwise (le := fun a b => key a ≤ key b) ?_ (sortByKey_sorted key l') (sortByKey_sorted key l)
    ((sortByKey_perm key l').trans (hp.trans (sortByKey_perm key l).symm))
  intro a b ha hb h1 h2
  exact hinj a (hp.subset ((sortByKey_perm key l').subset ha)) b ((sortByKey_perm key l).subset hb) (Nat.le_antisymm h1 h2)

/-- a list that is already in key order is left as it is -/
theorem sortByKey_of_sorted {α} (key : α → Nat) (l : List α) (h : l.Pairwise (fun a b => key a ≤ key b)) :
    sortByKey key l = l := by
  induction l with
  | nil => rfl
  | cons x r ih =>
    simp only [sortByKey, List.foldr_cons]
    have : List.foldr (insertByKey key) [] r = r := ih h.tail
    rw [this]
    cases r with
    | nil => rfl
    | cons y s =>
      have : key x ≤ key y := List.rel_of_pairwise_cons h List.mem_cons_self
      simp [insertByKey, this]

/-! ### `listed`: an index at which the identifier occurs -/

theorem listedGo_not_mem (dr : List Nat) (i : Nat) (acc : List (Nat × Nat)) (a : Nat) (h : a ∉ dr) :
    dictGet? (listedGo dr i acc) a = dictGet? acc a := by
  induction dr generalizing i acc with
  | nil => rfl
  | cons r rs ih =>
    simp only [List.mem_cons, not_or] at h
    simp only [listedGo]
    rw [ih _ _ h.2, dictGet?_dictSet]
    simp [Ne.symm h.1]

theorem listedGo_some (dr : List Nat) (i : Nat) (acc : List (Nat × Nat)) (a j : Nat)
    (h : dictGet? (listedGo dr i acc) a = some j) :
    (∃ m, dr[m]? = some a ∧ j = i + m) ∨ dictGet? acc a = some j := by
  induction dr generalizing i acc with
  | nil => exact Or.inr h
  | cons r rs ih =>
    simp only [listedGo] at h
    rcases ih _ _ h with ⟨m, hm, hj⟩ | h'
    · exact Or.inl ⟨m + 1, by simpa using hm, by omega⟩
    · rw [dictGet?_dictSet] at h'
      split at h'
      · rename_i hra; subst hra
        injection h' with h'
        exact Or.inl ⟨0, by simp, by omega⟩
      · exact Or.inr h'

theorem listedGo_mem (dr : List Nat) (i : Nat) (acc : List (Nat × Nat)) (a : Nat) (h : a ∈ dr) :
    ∃ m, dr[m]? = some a ∧ dictGet? (listedGo dr i acc) a = some (i + m) := by
  induction dr generalizing i acc with
  | nil => cases h
  | cons r rs ih =>
    simp only [listedGo]
    by_cases hm : a ∈ rs
    · obtain ⟨m, h1, h2⟩ := ih (i + 1) (dictSet acc r i) hm
      exact ⟨m + 1, by simpa using h1, by rw [h2]; congr 1; omega⟩
    · have : a = r := by
        rcases List.mem_cons.mp h with h | h
        · exact h
        · exact absurd h hm
      subst this
      refine ⟨0, by simp, ?_⟩
      rw [listedGo_not_mem _ _ _ _ hm, dictGet?_dictSet]
      simp

theorem drawKey_inj (dr : List Nat) (a b : Nat) (ha : a ∈ dr) (hb : b ∈ dr)
    (h : drawKey (listed dr) a = drawKey (listed dr) b) : a = b := by
  obtain ⟨m, hm, hga⟩ := listedGo_mem dr 0 [] a ha
  obtain ⟨m', hm', hgb⟩ := listedGo_mem dr 0 [] b hb
  simp only [drawKey, listed, hga, hgb, Option.getD_some] at h
  have : m = m' := by omega
  subst this
  rw [hm] at hm'
  injection hm'

theorem listedGo_append (dr e : List Nat) (i : Nat) (acc : List (Nat × Nat)) :
    listedGo (dr ++ e) i acc = listedGo e (i + dr.length) (listedGo dr i acc) := by
  induction dr generalizing i acc with
  | nil => simp [listedGo]
  | cons r rs ih =>
    simp only [List.cons_append, listedGo, ih, List.length_cons]
    congr 1; omega

/-! ### reading does not depend on the store's iteration order -/

/-- every table info is listed in the drawable list of the sheet that is its parent -/
def Listed (os : Objects) : Prop :=
  ∀ k p tm c h x y, (k, Obj.tableInfo p tm c h x y) ∈ os → ∃ nm dr, dictGet? os p = some (.sheet nm dr) ∧ k ∈ dr

/-- no two table infos point at the same table model -/
def UniqueInfo (os : Objects) : Prop :=
  ∀ k k' p p' tm c c' h h' x x' y y', (k, Obj.tableInfo p tm c h x y) ∈ os → (k', Obj.tableInfo p' tm c' h' x' y') ∈ os → k = k'

theorem mem_sheetTableInfos (os : Objects) (sid : Option Nat) (k tm : Nat) :
    (k, tm) ∈ sheetTableInfos os sid ↔
      ∃ p c h x y, (k, Obj.tableInfo p tm c h x y) ∈ os ∧ (sid = none ∨ sid = some p) := by
  simp only [sheetTableInfos, List.mem_filterMap]
  constructor
  · rintro ⟨⟨k', o⟩, hm, he⟩
    cases o <;> simp only [reduceCtorEq] at he
    rename_i p tm' c h x y
    split at he
    · rename_i hs
      simp only [Option.some.injEq, Prod.mk.injEq] at he
      obtain ⟨rfl, rfl⟩ := he
      exact ⟨p, c, h, x, y, hm, hs⟩
    · cases he
  · rintro ⟨p, c, h, x, y, hm, hs⟩
    exact ⟨(k, .tableInfo p tm c h x y), hm, by simp [hs]⟩

theorem getObj_perm (os os' : Objects) (hp : os'.Perm os) (hn : (dictKeys os).Nodup) (k : Nat) :
    getObj os' k = getObj os k := by
  simp only [getObj, dictGet, dictGet?_perm os os' hp hn]

theorem tableIds_perm (os os' : Objects) (hp : os'.Perm os) (hn : (dictKeys os).Nodup) (hl : Listed os) (s : Nat) :
    tableIds os' (some s) = tableIds os (some s) := by
  simp only [tableIds, dictGet?_perm os os' hp hn]
  cases hs : dictGet? os s with
  | none => rfl
  | some o =>
    cases o <;> try rfl
    rename_i nm dr
    simp only
    congr 2
    refine sortByKey_perm_eq _ _ _ (List.Perm.filterMap _ hp) ?_
    rintro ⟨a, ta⟩ ha ⟨b, tb⟩ hb hk
    obtain ⟨pa, ca, ha', xa, ya, hma, hsa⟩ := (mem_sheetTableInfos os (some s) a ta).mp ha
    obtain ⟨pb, cb, hb', xb, yb, hmb, hsb⟩ := (mem_sheetTableInfos os (some s) b tb).mp hb
    simp only [reduceCtorEq, Option.some.injEq, false_or] at hsa hsb
    subst hsa; subst hsb
    obtain ⟨nm1, dr1, h1, hin1⟩ := hl _ _ _ _ _ _ _ hma
    obtain ⟨nm2, dr2, h2, hin2⟩ := hl _ _ _ _ _ _ _ hmb
    rw [hs] at h1 h2
    injection h1 with h1; injection h2 with h2
    injection h1 with _ h1; injection h2 with _ h2
    subst h1; subst h2
    have hab : a = b := drawKey_inj dr a b hin1 hin2 hk
    subst hab
    have e1 := dictGet?_of_mem os hn _ _ hma
    have e2 := dictGet?_of_mem os hn _ _ hmb
    rw [e1] at e2
    injection e2 with e2
    injection e2 with _ e2
    rw [e2]

theorem tableInfoId_perm (os os' : Objects) (hp : os'.Perm os) (_hn : (dictKeys os).Nodup) (hu : UniqueInfo os) (tid : Nat) :
    tableInfoId os' tid = tableInfoId os tid := by
  have hpi : (sheetTableInfos os' none).Perm (sheetTableInfos os none) := List.Perm.filterMap _ hp
  have key : ∀ (l : List (Nat × Nat)) (p : Nat × Nat), l.find? (fun p => decide (p.2 = tid)) = some p → p ∈ l ∧ p.2 = tid := by
    intro l p h
    exact ⟨List.mem_of_find?_eq_some h, by simpa using List.find?_some h⟩
  have uniq : ∀ p q : Nat × Nat, p ∈ sheetTableInfos os none → q ∈ sheetTableInfos os none → p.2 = tid → q.2 = tid → p = q := by
    rintro ⟨a, ta⟩ ⟨b, tb⟩ ha hb rfl hb2
    simp only at hb2; subst hb2
    obtain ⟨pa, ca, ha', xa, ya, hma, _⟩ := (mem_sheetTableInfos os none a _).mp ha
    obtain ⟨pb, cb, hb', xb, yb, hmb, _⟩ := (mem_sheetTableInfos os none b _).mp hb
    have := hu _ _ _ _ _ _ _ _ _ _ _ _ _ hma hmb
    rw [this]
  simp only [tableInfoId]
  cases h : (sheetTableInfos os none).find? (fun p => decide (p.2 = tid)) with
  | none =>
    have : (sheetTableInfos os' none).find? (fun p => decide (p.2 = tid)) = none := by
      rw [List.find?_eq_none] at h ⊢
      intro x hx
      exact h x (hpi.subset hx)
    rw [this]
  | some p =>
    obtain ⟨hm, ht⟩ := key _ _ h
    cases h' : (sheetTableInfos os' none).find? (fun p => decide (p.2 = tid)) with
    | none =>
      rw [List.find?_eq_none] at h'
      exact absurd (by simpa using ht) (h' p (hpi.symm.subset hm))
    | some q =>
      obtain ⟨hm', ht'⟩ := key _ _ h'
      rw [uniq q p (hpi.subset hm') hm ht' ht]

theorem names_perm (os os' : Objects) (hp : os'.Perm os) (hn : (dictKeys os).Nodup) (hl : Listed os) :
    names os' = names os := by
  have h1 : sheetIds os' = sheetIds os := by simp only [sheetIds, getObj_perm os os' hp hn]
  have h2 : sheetName os' = sheetName os := by funext s; simp only [sheetName, dictGet?_perm os os' hp hn]
  have h3 : ∀ s, tableIds os' (some s) = tableIds os (some s) := tableIds_perm os os' hp hn hl
  have h4 : tableName os' = tableName os := by funext s; simp only [tableName, getObj_perm os os' hp hn]
  simp only [names, h1, h2, h3, h4]

theorem labels_perm (os os' : Objects) (hp : os'.Perm os) (hn : (dictKeys os).Nodup) (hu : UniqueInfo os) (tid : Nat) :
    labels os' tid = labels os tid := by
  have h1 : getObj os' = getObj os := by funext k; exact getObj_perm os os' hp hn k
  have h2 : captionOf os' = captionOf os := by funext c h; simp only [captionOf, h1]
  simp only [labels, h1, h2, tableInfoId_perm os os' hp hn hu]

theorem allLabels_perm (os os' : Objects) (hp : os'.Perm os) (hn : (dictKeys os).Nodup) (hl : Listed os) (hu : UniqueInfo os) :
    allLabels os' = allLabels os := by
  have h1 : sheetIds os' = sheetIds os := by simp only [sheetIds, getObj_perm os os' hp hn]
  have h3 : ∀ s, tableIds os' (some s) = tableIds os (some s) := tableIds_perm os os' hp hn hl
  have h4 : labels os' = labels os := by funext t; exact labels_perm os os' hp hn hu t
  simp only [allLabels, h1, h3, h4]

/-! ### save and load -/

def fileIds (fs : Files) : List Nat := (fs.filterMap (·.2)).flatten

theorem foldl_dictSet_fresh (l : List (Nat × Obj)) (acc : Objects)
    (hn : (dictKeys acc ++ l.map Prod.fst).Nodup) :
    l.foldl (fun acc p => dictSet acc p.1 p.2) acc = acc ++ l := by
  induction l generalizing acc with
  | nil => simp
  | cons a r ih =>
    obtain ⟨k, o⟩ := a
    have hk : k ∉ dictKeys acc := by
      intro hk
      have := List.nodup_append.mp hn
      exact this.2.2 k hk k (by simp) rfl
    have hset : dictSet acc k o = acc ++ [(k, o)] := by
      clear hn ih
      induction acc with
      | nil => rfl
      | cons b s ihs =>
        obtain ⟨k', o'⟩ := b
        simp only [dictKeys, List.map_cons, List.mem_cons, not_or] at hk
        simp only [dictSet, Ne.symm hk.1, if_false, List.cons_append]
        rw [ihs hk.2]
    simp only [List.foldl_cons, hset]
    rw [ih]
    · simp
    · simpa [dictKeys, List.map_append, List.append_assoc] using hn

theorem load_objects (ms : List Member) (hn : ((flatArchives ms).map Prod.fst).Nodup) :
    (load ms).objects = flatArchives ms := by
  simp only [load]
  rw [foldl_dictSet_fresh _ [] (by simpa [dictKeys] using hn)]
  simp

theorem flat_serialise (d : Doc) :
    flatArchives (serialise d) = (fileIds d.files).filterMap (fun i => (dictGet? d.objects i).map fun o => (i, o)) := by
  simp only [flatArchives, serialise, fileIds]
  induction d.files with
  | nil => rfl
  | cons f fs ih =>
    obtain ⟨nm, seg⟩ := f
    cases seg with
    | none => simpa using ih
    | some ids =>
      simp only [List.map_cons, List.filterMap_cons, Option.map_some, List.flatten_cons, List.filterMap_append]
      rw [ih]

theorem filterMap_keys_self (os : Objects) (hn : (dictKeys os).Nodup) :
    (dictKeys os).filterMap (fun i => (dictGet? os i).map fun o => (i, o)) = os := by
  simp only [dictKeys, List.filterMap_map]
  have : os.filterMap ((fun i => (dictGet? os i).map fun o => (i, o)) ∘ Prod.fst) = os.filterMap some := by
    apply List.filterMap_congr
    rintro ⟨k, o⟩ hm
    simp [dictGet?_of_mem os hn k o hm]
  rw [this]; simp

/-- the saved archives are the stored objects, in file order -/
theorem serialise_perm (d : Doc) (hn : (dictKeys d.objects).Nodup) (hf : (fileIds d.files).Perm (dictKeys d.objects)) :
    (flatArchives (serialise d)).Perm d.objects := by
  rw [flat_serialise]
  have := List.Perm.filterMap (fun i => (dictGet? d.objects i).map fun o => (i, o)) hf
  rwa [filterMap_keys_self d.objects hn] at this

end NumbersModel.DocTree
