/- Helper lemmas for C16 (sizes across save / reopen). -/
import NumbersModel.Model.Sizes
import Mathlib.Tactic.Ring
namespace NumbersModel.Sizes
open NumbersModel

theorem floorD_add_mul (k a : Int) (D : Nat) (hD : 0 < D) : floorD (k * D + a) D = k + floorD a D := by
  unfold floorD
  have h : (D : Int) ≠ 0 := by omega
  rw [Int.add_comm, Int.add_mul_ediv_right _ _ h, Int.add_comm]

theorem roundHE_mul (k : Int) (D : Nat) (hD : 0 < D) : roundHE (k * D) D = k := by
  unfold roundHE
  have h : (D : Int) ≠ 0 := by omega
  simp only [Int.mul_ediv_cancel _ h, Int.mul_emod_left]
  have : (2 : Int) * 0 < D := by omega
  rw [if_pos this]

/-- the law behind the repaired write-back: storing `h − ⌊a⌋` makes the reload report `h`. -/
theorem reported_storedFor (h a : Int) (D : Nat) (hD : 0 < D) :
    floorD (roundHE ((h - floorD a D) * D) D * D + a) D = h := by
  rw [roundHE_mul _ _ hD, floorD_add_mul _ _ _ hD]
  omega

theorem lookupLast_append (l1 l2 : List (Nat × Int)) (i : Nat) :
    lookupLast (l1 ++ l2) i = match lookupLast l2 i with | some s => some s | none => lookupLast l1 i := by
  induction l1 with
  | nil => simp [lookupLast]; cases lookupLast l2 i <;> rfl
  | cons p l1 ih =>
    obtain ⟨j, s⟩ := p
    simp only [List.cons_append, lookupLast, ih]
    cases lookupLast l2 i <;> simp

theorem lookupLast_range_map (f : Nat → Int) (n i : Nat) :
    lookupLast ((List.range n).map (fun j => (j, f j))) i = if i < n then some (f i) else none := by
  induction n with
  | zero => simp [lookupLast]
  | succ n ih =>
    rw [List.range_succ, List.map_append, lookupLast_append]
    simp only [List.map_cons, List.map_nil, lookupLast]
    by_cases h : n = i
    · subst h; simp
    · simp only [h, if_false, ih]
      by_cases h2 : i < n
      · have : i < n + 1 := by omega
        simp [h2, this]
      · have : ¬ i < n + 1 := by omega
        simp [h2, this]

/-! ### reading does not change what is read -/

theorem read_fields (D : Nat) (ax : Axis) (allow : Nat → Int) (i : Nat) :
    (read D ax allow i).2.n = ax.n ∧ (read D ax allow i).2.headers = ax.headers ∧
    (read D ax allow i).2.dflt = ax.dflt ∧ (read D ax allow i).2.user = ax.user := by
  unfold read
  cases dictGet ax.user i <;> simp only
  · cases dictGet ax.memo i <;> simp
  · simp

theorem compute_congr (D : Nat) (ax ax' : Axis) (allow : Nat → Int) (i : Nat)
    (h1 : ax'.headers = ax.headers) (h2 : ax'.dflt = ax.dflt) : compute D ax' allow i = compute D ax allow i := by
  simp [compute, base, h1, h2]

theorem readVal_read (D : Nat) (ax : Axis) (allow : Nat → Int) (i j : Nat) :
    readVal D (read D ax allow i).2 allow j = readVal D ax allow j := by
  unfold readVal read
  cases hu : dictGet ax.user i with
  | some h => rfl
  | none =>
    cases hm : dictGet ax.memo i with
    | some h => rfl
    | none =>
      simp only
      cases huj : dictGet ax.user j with
      | some h => rfl
      | none =>
        simp only [dictGet]
        by_cases hij : i = j
        · subst hij
          simp only [if_true, hm]
        · simp only [hij, if_false]
          cases hmj : dictGet ax.memo j with
          | some h => rfl
          | none => simp only; exact compute_congr D _ ax allow j rfl rfl

/-- `Same ax' ax`: the reads done so far during a save changed nothing but the memo. -/
def Same (D : Nat) (allow : Nat → Int) (ax' ax : Axis) : Prop :=
  ax'.n = ax.n ∧ ax'.dflt = ax.dflt ∧ ax'.user = ax.user ∧ ∀ j, readVal D ax' allow j = readVal D ax allow j

theorem same_read (D : Nat) (allow : Nat → Int) (ax' ax : Axis) (h : Same D allow ax' ax) (i : Nat) :
    Same D allow (read D ax' allow i).2 ax := by
  obtain ⟨h1, h2, h3, h4⟩ := h
  obtain ⟨r1, _, r3, r4⟩ := read_fields D ax' allow i
  exact ⟨r1.trans h1, r3.trans h2, r4.trans h3, fun j => (readVal_read D ax' allow i j).trans (h4 j)⟩

theorem saveGo_spec (D : Nat) (allow : Nat → Int) (ax : Axis) (is : List Nat) :
    ∀ (ax' : Axis) (acc : List (Nat × Int)), Same D allow ax' ax →
      Same D allow (saveGo D allow is ax' acc).1 ax ∧
      (saveGo D allow is ax' acc).2 =
        acc.reverse ++ is.map (fun i => (i, (readVal D ax allow i - floorD (allow i) D) * D)) := by
  induction is with
  | nil => intro ax' acc h; exact ⟨h, by simp [saveGo]⟩
  | cons i rest ih =>
    intro ax' acc h
    simp only [saveGo]
    obtain ⟨g1, g2⟩ := ih _ ((i, ((read D ax' allow i).1 - floorD (allow i) D) * D) :: acc) (same_read D allow ax' ax h i)
    refine ⟨g1, ?_⟩
    rw [g2]
    have : (read D ax' allow i).1 = readVal D ax allow i := h.2.2.2 i
    simp [this]

theorem save_spec (D : Nat) (ax : Axis) (allow : Nat → Int) :
    (save D ax allow).n = ax.n ∧ (save D ax allow).dflt = ax.dflt ∧
    (save D ax allow).headers = (List.range ax.n).map (fun i => (i, (readVal D ax allow i - floorD (allow i) D) * D)) := by
  obtain ⟨⟨h1, h2, _, _⟩, g⟩ := saveGo_spec D allow ax (List.range ax.n) ax [] ⟨rfl, rfl, rfl, fun _ => rfl⟩
  simp only [save]
  exact ⟨h1, h2, by simpa using g⟩

/-- the size of row `i` can be stored: its own height (without the allowance) is not 0 — a stored
    size of 0 is how the file says "default". -/
def Storable (D : Nat) (ax : Axis) (allow : Nat → Int) : Prop :=
  ∀ i, i < ax.n → readVal D ax allow i - floorD (allow i) D ≠ 0

theorem cycle_fields (D : Nat) (ax : Axis) (allow : Nat → Int) :
    (cycle D ax allow).n = ax.n ∧ (cycle D ax allow).dflt = ax.dflt ∧ (cycle D ax allow).user = [] ∧
    (cycle D ax allow).memo = [] ∧
    (cycle D ax allow).headers = (List.range ax.n).map (fun i => (i, (readVal D ax allow i - floorD (allow i) D) * D)) := by
  obtain ⟨h1, h2, h3⟩ := save_spec D ax allow
  exact ⟨h1, h2, rfl, rfl, h3⟩

theorem readVal_cycle (D : Nat) (hD : 0 < D) (ax : Axis) (allow : Nat → Int) (i : Nat) (hi : i < ax.n)
    (hs : readVal D ax allow i - floorD (allow i) D ≠ 0) :
    readVal D (cycle D ax allow) allow i = readVal D ax allow i := by
  obtain ⟨_, _, hu, hm, hh⟩ := cycle_fields D ax allow
  unfold readVal read
  rw [hu, hm]
  simp only [dictGet, compute, base, hh]
  rw [lookupLast_range_map (fun i => (readVal D ax allow i - floorD (allow i) D) * D)]
  simp only [hi, if_true]
  have hne : (readVal D ax allow i - floorD (allow i) D) * (D : Int) ≠ 0 := by
    have : (D : Int) ≠ 0 := by omega
    exact Int.mul_ne_zero hs this
  simp only [ne_eq, hne, not_false_eq_true, if_true]
  exact reported_storedFor _ _ D hD

theorem storable_cycle (D : Nat) (hD : 0 < D) (ax : Axis) (allow : Nat → Int) (h : Storable D ax allow) :
    Storable D (cycle D ax allow) allow := by
  intro i hi
  rw [(cycle_fields D ax allow).1] at hi
  rw [readVal_cycle D hD ax allow i hi (h i hi)]
  exact h i hi

theorem readVal_cycles (D : Nat) (hD : 0 < D) (allow : Nat → Int) (k : Nat) :
    ∀ (ax : Axis), Storable D ax allow → ∀ i, i < ax.n →
      (cycles D allow k ax).n = ax.n ∧ readVal D (cycles D allow k ax) allow i = readVal D ax allow i := by
  induction k with
  | zero => intro ax _ i _; exact ⟨rfl, rfl⟩
  | succ k ih =>
    intro ax hs i hi
    simp only [cycles]
    have hn := (cycle_fields D ax allow).1
    obtain ⟨g1, g2⟩ := ih (cycle D ax allow) (storable_cycle D hD ax allow hs) i (by omega)
    exact ⟨g1.trans hn, g2.trans (readVal_cycle D hD ax allow i hi (hs i hi))⟩

theorem headers_cycle_cycle (D : Nat) (hD : 0 < D) (ax : Axis) (allow : Nat → Int) (h : Storable D ax allow) :
    (cycle D (cycle D ax allow) allow).headers = (cycle D ax allow).headers := by
  rw [(cycle_fields D (cycle D ax allow) allow).2.2.2.2, (cycle_fields D ax allow).2.2.2.2, (cycle_fields D ax allow).1]
  apply List.map_congr_left
  intro i hi
  have hi' : i < ax.n := List.mem_range.mp hi
  rw [readVal_cycle D hD ax allow i hi' (h i hi')]

theorem total_cycle (D : Nat) (hD : 0 < D) (ax : Axis) (allow : Nat → Int) (h : Storable D ax allow) :
    total D (cycle D ax allow) allow = total D ax allow := by
  unfold total
  rw [(cycle_fields D ax allow).1]
  congr 1
  apply List.map_congr_left
  intro i hi
  have hi' : i < ax.n := List.mem_range.mp hi
  exact readVal_cycle D hD ax allow i hi' (h i hi')

theorem readVal_setSize (D : Nat) (ax : Axis) (allow : Nat → Int) (i : Nat) (h : Int) :
    readVal D (setSize ax i h) allow i = h := by
  simp [readVal, read, setSize, dictGet]

theorem readVal_setSize_border (D : Nat) (ax : Axis) (allow : Nat → Int) (i a b : Nat) (h : Int) :
    readVal D (borderChanged (setSize ax i h) a b) allow i = h := by
  simp [readVal, read, setSize, borderChanged, dictGet]

end NumbersModel.Sizes
