/-
`Tokenizer.parse` as `harness/py2lean.py` regenerates it from `tokenizer.py` (`Gen/TrTok.lean`: the dispatch dict as
`PyT.dispatchFind` over the `(chars, method)` pairs of the source, the `while` loop as `parse.loop1` on fuel
`len(formula) + 1`) against the model's `step` / `loop` / `tokenize` (Model/Tokenizer.lean).  One iteration of the translated
loop is one `step` of the model under the simulation `Pos` / `Rep` / `StackOK` (`loop1_step`); the fuel suffices because every
step shortens `rest` (`parse_fuel_suffices` inside `loop_refines`); `parse_refines_model`: what `Tokenizer(formula)` leaves in
`items` is `tokenize liveCfg formula`, exception for exception.
-/
import NumbersModel.Lemmas.TrTok
import NumbersModel.Model.TokenizerCfg

namespace NumbersModel.Translated
open NumbersModel NumbersModel.Gen.T NumbersModel.Tokenizer

/-! ### the dispatcher -/

/-- the characters the dispatcher has an entry for -/
def dispatchChars : List Char := "\"'#+-*/^&=><%×÷≥≤≠{()};,".toList

/-- the model's `if` chain over the current character, as an index into the `consumers` tuple of the source -/
def dispatchIndex (c : Char) : Option Nat :=
  if c = '"' ∨ c = '\'' then some 0 else if c = '#' then some 1 else if opChars.contains c then some 2
  else if c = '{' ∨ c = '(' then some 3 else if c = ')' ∨ c = '}' then some 4 else if c = ';' ∨ c = ',' then some 5
  else none

/-- the `(chars, method)` pairs of `Tokenizer.parse`, as they stand in the generated definition -/
abbrev consumersChars : List Text :=
  [(['"', '\''] : Text), (['#'] : Text), (['+', '-', '*', '/', '^', '&', '=', '>', '<', '%', (Char.ofNat 215), (Char.ofNat 247), (Char.ofNat 8805), (Char.ofNat 8804), (Char.ofNat 8800)] : Text), (['{', '('] : Text), ([')', '}'] : Text), ([';', ','] : Text)]

theorem dispatchFindFrom_none (c : Char) : ∀ (tbl : List Text) (i : Nat), (∀ t ∈ tbl, t.contains c = false) →
    PyT.dispatchFindFrom c tbl i = none := by
  intro tbl
  induction tbl with
  | nil => intro i _; rfl
  | cons t rest ih =>
    intro i h
    unfold PyT.dispatchFindFrom
    rw [ih (i + 1) (fun t' ht' => h t' (List.mem_cons_of_mem _ ht'))]
    have hnot : c ∉ t := by simpa using h t (List.mem_cons_self ..)
    simp [hnot]

theorem dispatch_on_chars : ∀ c ∈ dispatchChars, PyT.dispatchFind consumersChars [c] = dispatchIndex c := by decide

/-- the dict built from the pairs sends a character to the method the model's `if` chain selects (no character is in two
    of the `chars` strings, so "the last pair wins" never matters) -/
theorem dispatch_spec (c : Char) : PyT.dispatchFind consumersChars [c] = dispatchIndex c := by
  by_cases hm : c ∈ dispatchChars
  · exact dispatch_on_chars c hm
  · have hne : ∀ d ∈ dispatchChars, c ≠ d := fun d hd h => hm (h ▸ hd)
    have hall : ∀ t ∈ consumersChars, t.contains c = false := by
      intro t ht
      cases hc : t.contains c with
      | false => rfl
      | true =>
        exfalso
        have hct : c ∈ t := by simpa using hc
        have : ∀ t ∈ consumersChars, ∀ d ∈ t, d ∈ dispatchChars := by decide
        exact hm (this t ht c hct)
    have h1 : PyT.dispatchFind consumersChars [c] = none := dispatchFindFrom_none c _ 0 hall
    rw [h1]
    have hop : opChars.contains c = false := by
      cases hc : opChars.contains c with
      | false => rfl
      | true =>
        exfalso
        have : ∀ d ∈ opChars, d ∈ dispatchChars := by decide
        exact hm (this c (by simpa using hc))
    unfold dispatchIndex
    have e1 := hne '"' (by decide); have e2 := hne '\'' (by decide); have e3 := hne '#' (by decide)
    have e4 := hne '{' (by decide); have e5 := hne '(' (by decide); have e6 := hne ')' (by decide)
    have e7 := hne '}' (by decide); have e8 := hne ';' (by decide); have e9 := hne ',' (by decide)
    have hop' : c ∉ opChars := by simpa using hop
    simp [e1, e2, e3, e4, e5, e6, e7, e8, e9, hop']

/-! ### one iteration, the loop, the whole tokenizer -/

theorem map_ok_inv {α β} {x : PyM α} {g : α → β} {b : β} (h : x.map g = .ok b) : ∃ a, x = .ok a ∧ g a = b := by
  cases x with
  | error e => cases h
  | ok a => exact ⟨a, rfl, by injection h⟩

theorem map_err_inv {α β} {x : PyM α} {g : α → β} {e : PyExc} (h : x.map g = .error e) : x = .error e := by
  cases x with
  | error e' => injection h with h; rw [h]
  | ok a => cases h

theorem parseOpener_stackOK {st st' : St} (hs : StackOK st) (e : parseOpener st = .ok st') : StackOK st' := by
  unfold parseOpener at e
  split at e
  · rcases assertEmpty_cases st with ha | ha
    · simp only [ha, bind, Except.bind] at e
      injection e with e; subst e
      intro t ht
      rcases List.mem_append.mp ht with h | h
      · exact hs t h
      · simp at h; subst h; exact ⟨Or.inr (Or.inl rfl), rfl⟩
    · simp [ha, bind, Except.bind] at e
  · injection e with e; subst e
    intro t ht
    rcases List.mem_append.mp ht with h | h
    · exact hs t h
    · simp at h; subst h
      split
      · exact ⟨Or.inr (Or.inr rfl), rfl⟩
      · exact ⟨Or.inl rfl, rfl⟩
  · cases e

theorem parseCloser_stackOK {exc : PyExc} {st st' : St} (hs : StackOK st) (e : parseCloser exc st = .ok st') : StackOK st' := by
  unfold parseCloser at e
  split at e
  · split at e
    · cases e
    · split at e
      · cases e
      · rename_i top below hrev
        simp only at e
        split at e
        · cases e
        · injection e with e; subst e
          intro t ht
          apply hs t
          have : t ∈ st.stack.reverse := by rw [hrev]; exact List.mem_cons_of_mem _ (List.mem_reverse.mp ht)
          exact List.mem_reverse.mp this
  · cases e

theorem saveToken_stackOK {st : St} (hs : StackOK st) : StackOK (saveToken st) := by
  unfold saveToken; split <;> exact hs


theorem pos_lt {f : Text} {o : Int} {st : St} {c : Char} {r : Text} (hp : Pos f o st) (hrs : st.rest = c :: r) :
    o < (f.length : Int) := by
  obtain ⟨h0, hrest⟩ := hp
  rcases Nat.lt_or_ge o.toNat f.length with h | h
  · omega
  · rw [hrs, List.drop_of_length_le h] at hrest; cases hrest

theorem pos_ge {f : Text} {o : Int} {st : St} (hp : Pos f o st) (hrs : st.rest = []) : ¬ o < (f.length : Int) := by
  obtain ⟨h0, hrest⟩ := hp
  have : (f.drop o.toNat).length = f.length - o.toNat := List.length_drop
  rw [← hrest, hrs] at this; simp at this; omega

/-- the dispatch part of the model's `step` (after `check_scientific_notation` and `save_token`) -/
def stepTail (c : Char) (r : Text) (st1 : St) : PyM St :=
  if c = '"' ∨ c = '\'' then parseString liveCfg.ws st1
  else if c = '#' then parseError liveCfg.codes st1
  else if opChars.contains c then parseOperator st1
  else if c = '{' ∨ c = '(' then parseOpener st1
  else if c = ')' ∨ c = '}' then parseCloser liveCfg.emptyStackExc st1
  else if c = ';' ∨ c = ',' then parseSeparator st1
  else .ok { st1 with token := st1.token ++ [c], rest := r }

theorem step_eq {st : St} {c : Char} {r : Text} (hrs : st.rest = c :: r) :
    step liveCfg st = (if (c = '+' ∨ c = '-') ∧ st.token.length ≥ 1 ∧ snMatch st.token = true
      then .ok { st with token := st.token ++ [c], rest := r }
      else stepTail c r (if liveCfg.enders.contains c then saveToken st else st)) := by
  unfold step stepTail
  simp only [hrs]

/-- outcome of a stretch of the translated loop body that ends in the recursive call, against the model's -/
def StepRel (n : Nat) (f : Text) (lhs : PyM (Int × List Text × List Tok × List Tok)) (m : PyM St) : Prop :=
  match m with
  | .error e => lhs = .error e
  | .ok st' => ∃ o' pieces', lhs = parse.loop1 n f o' pieces' st'.items st'.stack ∧ Pos f o' st' ∧ Rep pieces' st' ∧ StackOK st'

theorem refines_stack {α} {f : Text} {o : Int} {X : PyM α} {g : α → Int × List Tok × List Tok × List Text} {m : PyM St}
    {s : List Tok} (h : Refines f o (X.map g) m) (hg : ∀ a, (g a).2.2.1 = s) : ∀ st', m = .ok st' → st'.stack = s := by
  intro st' e
  rw [e] at h
  obtain ⟨n, p, hres, _⟩ := h
  obtain ⟨a, _, hga⟩ := map_ok_inv hres
  have := hg a
  rw [hga] at this
  exact this

/-- the method the dispatcher selects refines the branch of the model's `if` chain for the same character -/
theorem dispatch1_refines {f : Text} {o : Int} {st1 : St} {pieces1 : List Text} {c : Char} {r : Text}
    (hp1 : Pos f o st1) (hr1 : Rep pieces1 st1) (hs1 : StackOK st1) (hrs1 : st1.rest = c :: r)
    (hsome : (dispatchIndex c).isSome = true) :
    Refines f o ((parse.dispatch1 f o st1.items pieces1 st1.stack [c]).map (fun v => (v.1, v.2.1, v.2.2.2, v.2.2.1)))
      (stepTail c r st1) ∧ (∀ st', stepTail c r st1 = .ok st' → StackOK st') := by
  have hd := dispatch_spec c
  unfold parse.dispatch1 stepTail
  rw [hd]
  unfold dispatchIndex at hsome ⊢
  have keep : ∀ {m : PyM St}, (∀ st', m = .ok st' → st'.stack = st1.stack) → (∀ st', m = .ok st' → StackOK st') :=
    fun hk st' e t ht => hs1 t (hk st' e ▸ ht)
  by_cases h0 : c = '"' ∨ c = '\''
  · simp only [if_pos h0]
    have R := parse_string_refines_model hp1 hr1 hrs1 h0
    refine ⟨?_, keep (refines_stack R (fun _ => rfl))⟩
    refine cast ?_ R
    congr 1
    cases parse_string f o st1.items pieces1 <;> rfl
  · simp only [if_neg h0] at hsome ⊢
    by_cases h1 : c = '#'
    · simp only [if_pos h1]
      have R := parse_error_refines_model hp1 hr1 (h1 ▸ hrs1)
      refine ⟨?_, keep (refines_stack R (fun _ => rfl))⟩
      refine cast ?_ R
      congr 1
      cases parse_error f o st1.items pieces1 <;> rfl
    · simp only [if_neg h1] at hsome ⊢
      by_cases h2 : opChars.contains c = true
      · simp only [if_pos h2]
        have R := parse_operator_refines_model (pieces := pieces1) hp1 hr1
        refine ⟨?_, keep (refines_stack R (fun _ => rfl))⟩
        refine cast ?_ R
        congr 1
        cases parse_operator f o st1.items <;> rfl
      · simp only [if_neg h2] at hsome ⊢
        by_cases h3 : c = '{' ∨ c = '('
        · simp only [if_pos h3]
          have R := parse_opener_refines_model hp1 hr1 hrs1
          refine ⟨?_, fun st' e => parseOpener_stackOK hs1 e⟩
          refine cast ?_ R
          congr 1
          cases parse_opener f o st1.items st1.stack pieces1 <;> rfl
        · simp only [if_neg h3] at hsome ⊢
          by_cases h4 : c = ')' ∨ c = '}'
          · simp only [if_pos h4]
            have R := parse_closer_refines_model hp1 hr1 hs1 hrs1
            refine ⟨?_, fun st' e => parseCloser_stackOK hs1 e⟩
            refine cast ?_ R
            congr 1
            cases parse_closer f o st1.items st1.stack <;> rfl
          · simp only [if_neg h4] at hsome ⊢
            by_cases h5 : c = ';' ∨ c = ','
            · simp only [if_pos h5]
              have R := parse_separator_refines_model hp1 hr1 hrs1
              refine ⟨?_, keep (refines_stack R (fun _ => rfl))⟩
              refine cast ?_ R
              congr 1
              cases parse_separator f o st1.items st1.stack <;> rfl
            · simp [if_neg h5] at hsome


theorem stepTail_none {c : Char} {r : Text} {st1 : St} (h : dispatchIndex c = none) :
    stepTail c r st1 = .ok { st1 with token := st1.token ++ [c], rest := r } := by
  unfold dispatchIndex at h
  unfold stepTail
  by_cases h0 : c = '"' ∨ c = '\''
  · rw [if_pos h0] at h; cases h
  · rw [if_neg h0] at h ⊢
    by_cases h1 : c = '#'
    · rw [if_pos h1] at h; cases h
    · rw [if_neg h1] at h ⊢
      by_cases h2 : opChars.contains c = true
      · rw [if_pos h2] at h; cases h
      · rw [if_neg h2] at h ⊢
        by_cases h3 : c = '{' ∨ c = '('
        · rw [if_pos h3] at h; cases h
        · rw [if_neg h3] at h ⊢
          by_cases h4 : c = ')' ∨ c = '}'
          · rw [if_pos h4] at h; cases h
          · rw [if_neg h4] at h ⊢
            by_cases h5 : c = ';' ∨ c = ','
            · rw [if_pos h5] at h; cases h
            · rw [if_neg h5]

/-- one iteration of the translated `while` loop is one `step` of the model -/
theorem loop1_step (n : Nat) {f : Text} {o : Int} {st : St} {pieces : List Text} {c : Char} {r : Text}
    (hp : Pos f o st) (hr : Rep pieces st) (hs : StackOK st) (hrs : st.rest = c :: r) :
    StepRel n f (parse.loop1 (n + 1) f o pieces st.items st.stack) (step liveCfg st) := by
  have hlt : decide (o < (f.length : Int)) = true := by simpa using pos_lt hp hrs
  rw [parse.loop1, step_eq hrs]
  simp only [hlt, if_true, check_scientific_notation_refines_model hp hr hrs, bind, Except.bind, pure, Except.pure]
  by_cases hsci : (c = '+' ∨ c = '-') ∧ st.token.length ≥ 1 ∧ snMatch st.token = true
  · simp only [hsci, and_self, if_true]
    exact ⟨o + 1, pieces ++ [[c]], rfl, pos_advance hp 1 (by simp [hrs]), rep_append hr [c] (by simp) rfl, hs⟩
  · simp only [hsci, if_false, Bool.false_eq_true, index_cons hp.1 (hp.2 ▸ hrs), strIn_single]
    -- the pending token is saved first when the character ends a token
    obtain ⟨ps, hsv, hrsv⟩ := save_token_eq_model pieces st hr
    obtain ⟨st1, pieces1, hst1, hitems, hp1, hr1, hs1, hrs1⟩ : ∃ (st1 : St) (pieces1 : List Text),
        (if liveCfg.enders.contains c = true then saveToken st else st) = st1 ∧
        (if Gen.TOKEN_ENDERS.contains c = true then
          (do let v ← save_token st.items pieces; pure (v.2.1, v.2.2) : PyM (List Tok × List Text))
          else pure (st.items, pieces)) = .ok (st1.items, pieces1) ∧
        Pos f o st1 ∧ Rep pieces1 st1 ∧ StackOK st1 ∧ st1.rest = c :: r := by
      by_cases hend : Gen.TOKEN_ENDERS.contains c = true
      · have hend' : liveCfg.enders.contains c = true := hend
        refine ⟨saveToken st, ps, by simp only [hend', if_true], by simp only [hend, if_true, hsv, bind, Except.bind, pure, Except.pure],
          ?_, hrsv, saveToken_stackOK hs, ?_⟩
        · refine ⟨hp.1, ?_⟩
          rw [← hp.2]; unfold saveToken; split <;> rfl
        · rw [← hrs]; unfold saveToken; split <;> rfl
      · have hend' : ¬ liveCfg.enders.contains c = true := hend
        exact ⟨st, pieces, by rw [if_neg hend'], by rw [if_neg hend]; rfl, hp, hr, hs, hrs⟩
    simp only [bind, Except.bind, pure, Except.pure] at hitems
    have hstk : st1.stack = st.stack := by
      rw [← hst1]; split
      · unfold saveToken; split <;> rfl
      · rfl
    rw [hst1, hitems]
    simp only [← hstk]
    have hd := dispatch_spec c
    unfold consumersChars at hd
    rw [hd]
    cases hdi : dispatchIndex c with
    | none =>
      rw [stepTail_none hdi]
      simp only [Option.isSome_none, Bool.false_eq_true, if_false]
      exact ⟨o + 1, pieces1 ++ [[c]], rfl, pos_advance hp1 1 (by simp [hrs1]), rep_append hr1 [c] (by simp) rfl, hs1⟩
    | some i =>
      simp only [Option.isSome_some, if_true]
      obtain ⟨R, hsk⟩ := dispatch1_refines hp1 hr1 hs1 hrs1 (by rw [hdi]; rfl)
      cases hm : stepTail c r st1 with
      | error e =>
        rw [hm] at R
        rw [map_err_inv R]
        rfl
      | ok st' =>
        rw [hm] at R
        obtain ⟨n', pieces', hres, hp', hr'⟩ := R
        obtain ⟨v, hv, hg⟩ := map_ok_inv hres
        rw [hv]
        obtain ⟨a, b, c', d⟩ := v
        simp only [Prod.mk.injEq] at hg
        obtain ⟨h1, h2, h3, h4⟩ := hg
        subst h1 h2 h3 h4
        exact ⟨o + a, c', rfl, hp', hr', hsk st' hm⟩


theorem liveCfg_fixed' : FixedCfg liveCfg := ⟨rfl, by unfold CodesOK; decide⟩

theorem step_shrinks {st st' : St} (hne : st.rest ≠ []) (e : step liveCfg st = .ok st') :
    st'.rest.length < st.rest.length := by
  rcases step_total liveCfg_fixed' st hne with ⟨st'', e', hl⟩ | e'
  · rw [e] at e'; injection e' with e'; subst e'; exact hl
  · rw [e] at e'; cases e'

/-- the translated loop followed by the final `save_token`, against the model's `loop` — for every fuel that exceeds the
    number of characters left (each iteration consumes at least one): `parse_fuel_suffices` is the instance `len + 1` -/
theorem loop_refines : ∀ (n m : Nat) (st : St) (f : Text) (o : Int) (pieces : List Text),
    Pos f o st → Rep pieces st → StackOK st → st.rest.length < n → st.rest.length ≤ m →
    (do let v ← parse.loop1 n f o pieces st.items st.stack
        let w ← save_token v.2.2.1 v.2.1
        pure (v.1, w.2.1, v.2.2.2, w.2.2) : PyM (Int × List Tok × List Tok × List Text)).map (·.2.1)
      = (loop liveCfg m st).map (·.items) := by
  intro n
  induction n with
  | zero => intro m st f o pieces _ _ _ h; omega
  | succ n ih =>
    intro m st f o pieces hp hr hs hn hm
    cases hrs : st.rest with
    | nil =>
      have hge : decide (o < (f.length : Int)) = false := by simpa using pos_ge hp hrs
      obtain ⟨ps, hsv, _⟩ := save_token_eq_model pieces st hr
      rw [parse.loop1]
      simp only [hge, Bool.false_eq_true, if_false, bind, Except.bind, pure, Except.pure, hsv]
      cases m with
      | zero => simp [loop, hrs, Except.map]
      | succ m' => simp [loop, hrs, Except.map]
    | cons c r =>
      have hne : st.rest ≠ [] := by rw [hrs]; simp
      cases m with
      | zero => rw [hrs] at hm; simp at hm
      | succ m' =>
        have hstep := loop1_step n hp hr hs hrs
        rw [loop]
        simp only [hne, if_false]
        cases hst : step liveCfg st with
        | error e =>
          rw [hst] at hstep
          simp only [StepRel] at hstep
          rw [hstep]
          rfl
        | ok st' =>
          rw [hst] at hstep
          obtain ⟨o', pieces', heq, hp', hr', hs'⟩ := hstep
          have hsh := step_shrinks hne hst
          rw [heq]
          simp only [bind, Except.bind]
          exact ih m' st' f o' pieces' hp' hr' hs' (by omega) (by omega)


/-- `Tokenizer(formula).items`: what `__init__` does is set the five attributes (`formula`, offset 0, three empty lists) and
    call `parse()`; `items` is the third of the state variables the translated `parse` returns -/
def srcTokenize (formula : Text) : PyM (List Tok) := (parse formula 0 [] [] []).map (fun r => r.2.2.1)

/-- the whole translated tokenizer is the model: same token list, or the same exception, for every string -/
theorem parse_refines_model (s : Text) : srcTokenize s = tokenize liveCfg s := by
  have h := loop_refines (s.length + 1) (s.length + 1) ⟨[], [], [], s⟩ s 0 [] ⟨by omega, by simp⟩ ⟨rfl, by simp⟩
    (by intro t ht; cases ht) (by simp) (by simp)
  have hl : srcTokenize s = (do
      let v ← parse.loop1 (s.length + 1) s 0 [] [] []
      let w ← save_token v.2.2.1 v.2.1
      pure (v.1, w.2.1, v.2.2.2, w.2.2) : PyM (Int × List Tok × List Tok × List Text)).map (·.2.1) := by
    unfold srcTokenize parse
    cases parse.loop1 (s.length + 1) s 0 [] [] [] with
    | error e => rfl
    | ok v =>
      simp only [bind, Except.bind]
      cases save_token v.2.2.1 v.2.1 <;> rfl
  have hr : tokenize liveCfg s = (loop liveCfg (s.length + 1) ⟨[], [], [], s⟩).map (·.items) := by
    unfold tokenize
    cases loop liveCfg (s.length + 1) ⟨[], [], [], s⟩ <;> rfl
  rw [hl, hr]
  exact h

end NumbersModel.Translated
