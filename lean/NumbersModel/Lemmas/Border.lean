/-
Helper lemmas for C15 (borders).  Slot level: what one unit of stroke / one stroke does to the
slot `(r, c, side)` of a cell, in terms of the unit edge the slot lies on.
-/
import NumbersModel.Model.Border
import Mathlib.Data.List.Induction
namespace NumbersModel.Border
open NumbersModel

/-! ### slots -/

theorem CB.get_set (cb : CB) (sd sd' : Side) (v : Option Bd) :
    (cb.set sd v).get sd' = if sd' = sd then v else cb.get sd' := by
  cases sd <;> cases sd' <;> simp [CB.set, CB.get]

theorem CB.get_put (cb : CB) (sd sd' : Side) (v : Bd) :
    (cb.put sd v).get sd' = if sd' = sd then putSlot (cb.get sd) v else cb.get sd' := by
  simp [CB.put, CB.get_set]

theorem putSlot_idem (x : Option Bd) (v : Bd) : putSlot (putSlot x v) v = putSlot x v := by
  unfold putSlot
  cases x with
  | none => simp
  | some o => by_cases h : v.order > o.order <;> simp [h]

theorem putSlot_newer (x : Option Bd) (v : Bd) (h : ∀ o, x = some o → o.order < v.order) :
    putSlot x v = some v := by
  unfold putSlot
  cases x with
  | none => rfl
  | some o => simp [h o rfl]

/-- the slot `(r, c, sd')` after `putIf … sd row col v`. -/
theorem get_putIf (t : Table) (cs : Cells) (sd : Side) (row col : Nat) (v : Bd) (r c : Nat) (sd' : Side) :
    ((putIf t cs sd row col v) r c).get sd' =
      if cfs t sd row col = true ∧ r = row ∧ c = col ∧ sd' = sd then putSlot ((cs r c).get sd') v
      else (cs r c).get sd' := by
  unfold putIf
  by_cases hc : cfs t sd row col = true
  · simp only [hc, if_true, Cells.upd]
    by_cases hrc : r = row ∧ c = col
    · obtain ⟨rfl, rfl⟩ := hrc
      simp only [and_self, if_true, CB.get_put, true_and]
      by_cases hs : sd' = sd
      · subst hs; simp
      · simp [hs]
    · have : ¬ (r = row ∧ c = col ∧ sd' = sd) := fun h => hrc ⟨h.1, h.2.1⟩
      simp [hrc, this]
  · simp [hc]

theorem edgeOf_inj (sd sd' : Side) (r c r' c' : Nat) :
    edgeOf sd' r' c' = edgeOf sd r c ↔
      (sd' = sd ∧ r' = r ∧ c' = c) ∨
      (sd = .top ∧ sd' = .bottom ∧ r' + 1 = r ∧ c' = c) ∨ (sd = .bottom ∧ sd' = .top ∧ r' = r + 1 ∧ c' = c) ∨
      (sd = .left ∧ sd' = .right ∧ r' = r ∧ c' + 1 = c) ∨ (sd = .right ∧ sd' = .left ∧ r' = r ∧ c' = c + 1) := by
  cases sd <;> cases sd' <;> simp [edgeOf]

/-- one unit of stroke: the slot `(r, c, sd')` is offered the border exactly when it lies on the
    same unit edge (and its cell shows that side). -/
theorem get_setCellBorder (t : Table) (cs : Cells) (row col : Nat) (sd : Side) (v : Bd) (r c : Nat) (sd' : Side) :
    ((setCellBorder t cs row col sd v) r c).get sd' =
      if cfs t sd' r c = true ∧ edgeOf sd' r c = edgeOf sd row col then putSlot ((cs r c).get sd') v
      else (cs r c).get sd' := by
  cases sd <;> cases sd' <;> simp only [setCellBorder, edgeOf] <;> (try split) <;>
    simp only [get_putIf] <;> grind

/-- the unit edge of the `i`-th unit of a stroke. -/
def unitEdge (sd : Side) (row col i : Nat) : Edge :=
  match sd with
  | .top => edgeOf .top row (col + i) | .bottom => edgeOf .bottom row (col + i)
  | .left => edgeOf .left (row + i) col | .right => edgeOf .right (row + i) col

theorem coversB_zero (sd : Side) (row col : Nat) (e : Edge) : coversB sd row col 0 e = false := by
  cases sd <;> cases e <;> simp [coversB]

theorem coversB_succ (sd : Side) (row col len : Nat) (e : Edge) :
    coversB sd row col (len + 1) e = (coversB sd row col len e || decide (e = unitEdge sd row col len)) := by
  cases sd <;> cases e <;> simp [coversB, unitEdge, edgeOf] <;> grind

theorem coversB_iff (sd : Side) (row col len : Nat) (e : Edge) :
    coversB sd row col len e = true ↔ ∃ i, i < len ∧ e = unitEdge sd row col i := by
  induction len with
  | zero => simp [coversB_zero]
  | succ n ih =>
    rw [coversB_succ, Bool.or_eq_true, ih, decide_eq_true_eq]
    constructor
    · rintro (⟨i, hi, he⟩ | he)
      · exact ⟨i, by omega, he⟩
      · exact ⟨n, by omega, he⟩
    · rintro ⟨i, hi, he⟩
      by_cases h : i = n
      · subst h; exact Or.inr he
      · exact Or.inl ⟨i, by omega, he⟩

theorem strokeCells_succ (t : Table) (cs : Cells) (row col : Nat) (sd : Side) (len : Nat) (v : Bd) :
    strokeCells t cs row col sd (len + 1) v =
      (match sd with
       | .top => setCellBorder t (strokeCells t cs row col sd len v) row (col + len) sd v
       | .bottom => setCellBorder t (strokeCells t cs row col sd len v) row (col + len) sd v
       | .left => setCellBorder t (strokeCells t cs row col sd len v) (row + len) col sd v
       | .right => setCellBorder t (strokeCells t cs row col sd len v) (row + len) col sd v) := by
  cases sd <;> simp [strokeCells, List.range_succ, List.foldl_append]

/-- a whole stroke: the slot is offered the border iff its edge is one of the stroke's units. -/
theorem get_strokeCells (t : Table) (cs : Cells) (row col : Nat) (sd : Side) (len : Nat) (v : Bd)
    (r c : Nat) (sd' : Side) :
    ((strokeCells t cs row col sd len v) r c).get sd' =
      if cfs t sd' r c = true ∧ coversB sd row col len (edgeOf sd' r c) = true
      then putSlot ((cs r c).get sd') v else (cs r c).get sd' := by
  induction len with
  | zero => simp [strokeCells, coversB_zero]
  | succ n ih =>
    rw [strokeCells_succ, coversB_succ]
    have key : ∀ (row' col' : Nat), edgeOf sd row' col' = unitEdge sd row col n →
        ((setCellBorder t (strokeCells t cs row col sd n v) row' col' sd v) r c).get sd' =
        if cfs t sd' r c = true ∧ (coversB sd row col n (edgeOf sd' r c) ||
            decide (edgeOf sd' r c = unitEdge sd row col n)) = true
        then putSlot ((cs r c).get sd') v else (cs r c).get sd' := by
      intro row' col' he
      rw [get_setCellBorder, ih, he]
      have := putSlot_idem ((cs r c).get sd') v
      grind
    cases sd
    · exact key row (col + n) rfl
    · exact key (row + n) col rfl
    · exact key row (col + n) rfl
    · exact key (row + n) col rfl

/-! ### candidates and best candidates -/

/-- `x` is a most recent element of the candidate set `S` (`none` iff there is no candidate). -/
def Good (x : Option Bd) (S : Bd → Prop) : Prop :=
  (x = none → ∀ b, ¬ S b) ∧ (∀ b, x = some b → S b ∧ ∀ b', S b' → b'.order ≤ b.order)

theorem good_none : Good none (fun _ => False) := by simp [Good]

theorem Good.congr {x : Option Bd} {S S' : Bd → Prop} (h : Good x S) (e : ∀ b, S b ↔ S' b) : Good x S' := by
  have : S = S' := funext fun b => propext (e b)
  subst this; exact h

theorem Good.put {x : Option Bd} {S : Bd → Prop} (h : Good x S) (v : Bd) :
    Good (putSlot x v) (fun b => S b ∨ b = v) := by
  obtain ⟨h1, h2⟩ := h
  cases x with
  | none =>
    refine ⟨by simp [putSlot], ?_⟩
    intro b hb
    simp only [putSlot, Option.some.injEq] at hb
    subst hb
    refine ⟨Or.inr rfl, ?_⟩
    rintro b' (hb' | rfl)
    · exact absurd hb' (h1 rfl b')
    · exact Nat.le_refl _
  | some o =>
    obtain ⟨ho, hmax⟩ := h2 o rfl
    refine ⟨by (intro hn; simp only [putSlot] at hn; split at hn <;> cases hn), ?_⟩
    intro b hb
    unfold putSlot at hb
    by_cases hv : v.order > o.order
    · simp only [hv, if_true, Option.some.injEq] at hb
      subst hb
      refine ⟨Or.inr rfl, ?_⟩
      rintro b' (hb' | rfl)
      · have := hmax b' hb'; omega
      · exact Nat.le_refl _
    · simp only [hv, if_false, Option.some.injEq] at hb
      subst hb
      refine ⟨Or.inl ho, ?_⟩
      rintro b' (hb' | rfl)
      · exact hmax b' hb'
      · omega

/-- two best candidates of the same coherent set carry the same stroke. -/
theorem Good.unique {x y : Option Bd} {S : Bd → Prop} (hx : Good x S) (hy : Good y S)
    (coh : ∀ b b', S b → S b' → b.order = b'.order → b.stroke = b'.stroke) :
    x.map (·.stroke) = y.map (·.stroke) := by
  cases x with
  | none =>
    cases y with
    | none => rfl
    | some b => exact absurd (hy.2 b rfl).1 (hx.1 rfl b)
  | some a =>
    cases y with
    | none => exact absurd (hx.2 a rfl).1 (hy.1 rfl a)
    | some b =>
      obtain ⟨ha, hamax⟩ := hx.2 a rfl
      obtain ⟨hb, hbmax⟩ := hy.2 b rfl
      have : a.order = b.order := Nat.le_antisymm (hbmax a ha) (hamax b hb)
      simp [coh a b ha hb this]

/-! ### what the stored layers cover -/

def runCov (sd : Side) (idx : Nat) (r : Run) (e : Edge) : Bool :=
  match sd with
  | .top => coversB sd idx r.origin r.len e | .bottom => coversB sd idx r.origin r.len e
  | .left => coversB sd r.origin idx r.len e | .right => coversB sd r.origin idx r.len e

def CovRuns (sd : Side) (idx : Nat) (rs : List Run) (e : Edge) (b : Bd) : Prop :=
  ∃ r ∈ rs, r.bd = b ∧ runCov sd idx r e = true

def CovFam (sd : Side) (ls : List Layer) (e : Edge) (b : Bd) : Prop :=
  ∃ l ∈ ls, CovRuns sd l.index l.runs e b

/-- `b` is the border of a stored run lying on the unit edge `e`. -/
def Cov (sc : Sidecar) (e : Edge) (b : Bd) : Prop :=
  CovFam .top sc.top e b ∨ CovFam .left sc.left e b ∨ CovFam .right sc.right e b ∨ CovFam .bottom sc.bottom e b

theorem extractRuns_cons (t : Table) (cs : Cells) (sd : Side) (idx : Nat) (r0 : Run) (rs : List Run) :
    extractRuns t cs sd idx (r0 :: rs) =
      extractRuns t (match sd with
        | .top => strokeCells t cs idx r0.origin sd r0.len r0.bd
        | .bottom => strokeCells t cs idx r0.origin sd r0.len r0.bd
        | .left => strokeCells t cs r0.origin idx sd r0.len r0.bd
        | .right => strokeCells t cs r0.origin idx sd r0.len r0.bd) sd idx rs := by
  cases sd <;> simp [extractRuns]

theorem get_runStroke (t : Table) (cs : Cells) (sd : Side) (idx : Nat) (r0 : Run) (r c : Nat) (sd' : Side) :
    ((match sd with
        | .top => strokeCells t cs idx r0.origin sd r0.len r0.bd
        | .bottom => strokeCells t cs idx r0.origin sd r0.len r0.bd
        | .left => strokeCells t cs r0.origin idx sd r0.len r0.bd
        | .right => strokeCells t cs r0.origin idx sd r0.len r0.bd) r c).get sd' =
      if cfs t sd' r c = true ∧ runCov sd idx r0 (edgeOf sd' r c) = true
      then putSlot ((cs r c).get sd') r0.bd else (cs r c).get sd' := by
  cases sd <;> exact get_strokeCells _ _ _ _ _ _ _ _ _ _

theorem extractRuns_good (t : Table) (sd : Side) (idx : Nat) (r c : Nat) (sd' : Side) (hc : cfs t sd' r c = true)
    (rs : List Run) : ∀ (cs : Cells) (S : Bd → Prop), Good ((cs r c).get sd') S →
      Good (((extractRuns t cs sd idx rs) r c).get sd') (fun b => S b ∨ CovRuns sd idx rs (edgeOf sd' r c) b) := by
  induction rs with
  | nil => intro cs S h; exact h.congr (by simp [CovRuns])
  | cons r0 rs ih =>
    intro cs S h
    rw [extractRuns_cons]
    refine (ih _ (fun b => S b ∨ (b = r0.bd ∧ runCov sd idx r0 (edgeOf sd' r c) = true)) ?_).congr ?_
    · rw [get_runStroke]
      by_cases hcov : runCov sd idx r0 (edgeOf sd' r c) = true
      · rw [if_pos ⟨hc, hcov⟩]
        exact (h.put r0.bd).congr (fun b => by simp [hcov])
      · rw [if_neg (fun h' => hcov h'.2)]
        exact h.congr (fun b => by simp [hcov])
    · intro b
      simp only [CovRuns, List.mem_cons, exists_eq_or_imp]
      constructor
      · rintro ((h1 | ⟨rfl, h2⟩) | h3)
        · exact Or.inl h1
        · exact Or.inr (Or.inl ⟨rfl, h2⟩)
        · exact Or.inr (Or.inr h3)
      · rintro (h1 | ⟨h2, h3⟩ | h4)
        · exact Or.inl (Or.inl h1)
        · exact Or.inl (Or.inr ⟨h2.symm, h3⟩)
        · exact Or.inr h4

theorem extractRuns_hidden (t : Table) (sd : Side) (idx : Nat) (r c : Nat) (sd' : Side) (hc : cfs t sd' r c = false)
    (rs : List Run) : ∀ (cs : Cells), ((extractRuns t cs sd idx rs) r c).get sd' = (cs r c).get sd' := by
  induction rs with
  | nil => intro cs; rfl
  | cons r0 rs ih => intro cs; rw [extractRuns_cons, ih, get_runStroke]; simp [hc]

theorem extractFamily_good (t : Table) (sd : Side) (r c : Nat) (sd' : Side) (hc : cfs t sd' r c = true)
    (ls : List Layer) : ∀ (cs : Cells) (S : Bd → Prop), Good ((cs r c).get sd') S →
      Good (((extractFamily t cs sd ls) r c).get sd') (fun b => S b ∨ CovFam sd ls (edgeOf sd' r c) b) := by
  induction ls with
  | nil => intro cs S h; exact h.congr (by simp [CovFam])
  | cons l ls ih =>
    intro cs S h
    simp only [extractFamily, List.foldl_cons]
    refine (ih _ _ (extractRuns_good t sd l.index r c sd' hc l.runs cs S h)).congr ?_
    intro b
    simp only [CovFam, List.mem_cons, exists_eq_or_imp]
    exact or_assoc

theorem extractFamily_hidden (t : Table) (sd : Side) (r c : Nat) (sd' : Side) (hc : cfs t sd' r c = false)
    (ls : List Layer) : ∀ (cs : Cells), ((extractFamily t cs sd ls) r c).get sd' = (cs r c).get sd' := by
  induction ls with
  | nil => intro cs; rfl
  | cons l ls ih =>
    intro cs
    simp only [extractFamily, List.foldl_cons]
    exact (ih _).trans (extractRuns_hidden t sd l.index r c sd' hc l.runs cs)

/-- loading: a visible slot gets a most recent stored run on its edge; a hidden slot stays empty. -/
theorem extract_good (t : Table) (sc : Sidecar) (r c : Nat) (sd' : Side) (hc : cfs t sd' r c = true) :
    Good (((extract t sc) r c).get sd') (Cov sc (edgeOf sd' r c)) := by
  have h0 : Good ((Cells.empty r c).get sd') (fun _ => False) := by
    cases sd' <;> exact good_none
  have h1 := extractFamily_good t .top r c sd' hc sc.top _ _ h0
  have h2 := extractFamily_good t .left r c sd' hc sc.left _ _ h1
  have h3 := extractFamily_good t .right r c sd' hc sc.right _ _ h2
  have h4 := extractFamily_good t .bottom r c sd' hc sc.bottom _ _ h3
  refine h4.congr ?_
  intro b
  simp only [Cov, false_or]
  constructor
  · rintro (((h | h) | h) | h)
    · exact Or.inl h
    · exact Or.inr (Or.inl h)
    · exact Or.inr (Or.inr (Or.inl h))
    · exact Or.inr (Or.inr (Or.inr h))
  · rintro (h | h | h | h)
    · exact Or.inl (Or.inl (Or.inl h))
    · exact Or.inl (Or.inl (Or.inr h))
    · exact Or.inl (Or.inr h)
    · exact Or.inr h

theorem extract_hidden (t : Table) (sc : Sidecar) (r c : Nat) (sd' : Side) (hc : cfs t sd' r c = false) :
    ((extract t sc) r c).get sd' = none := by
  simp only [extract]
  rw [extractFamily_hidden _ _ _ _ _ hc, extractFamily_hidden _ _ _ _ _ hc, extractFamily_hidden _ _ _ _ _ hc,
    extractFamily_hidden _ _ _ _ _ hc]
  cases sd' <;> rfl

/-! ### `add_stroke`: what run patching does to the positions a layer covers -/

def RunAt (r : Run) (p : Nat) : Prop := r.origin ≤ p ∧ p < r.origin + r.len

def InOp (origin len p : Nat) : Prop := origin ≤ p ∧ p < origin + len

theorem patchRun_sound (origin len : Nat) (new r : Run) (p : Nat) (x : Run)
    (hx : x = (patchRun origin len new r).1 ∨ x ∈ (patchRun origin len new r).2.1) (hp : RunAt x p) :
    x = new ∨ (RunAt r p ∧ x.bd = r.bd) := by
  unfold patchRun at hx
  simp only at hx
  split at hx
  · rcases hx with rfl | h
    · exact Or.inl rfl
    · simp at h
  · split at hx
    · rcases hx with rfl | h
      · right; refine ⟨?_, rfl⟩; simp only [RunAt] at *; omega
      · simp at h
    · split at hx
      · rcases hx with rfl | h
        · right; refine ⟨?_, rfl⟩; simp only [RunAt] at *; omega
        · simp at h
      · split at hx
        · rcases hx with rfl | h
          · right; refine ⟨?_, rfl⟩; simp only [RunAt] at *; omega
          · simp only [List.mem_singleton] at h
            subst h
            right; refine ⟨?_, rfl⟩; simp only [RunAt] at *; omega
        · rcases hx with rfl | h
          · exact Or.inr ⟨hp, rfl⟩
          · simp at h

theorem patchRun_keep (origin len : Nat) (new r : Run) (p : Nat) (hp : RunAt r p) (hn : ¬ InOp origin len p) :
    ∃ x, (x = (patchRun origin len new r).1 ∨ x ∈ (patchRun origin len new r).2.1) ∧ RunAt x p ∧ x.bd = r.bd := by
  unfold patchRun
  simp only [RunAt, InOp] at *
  split
  · omega
  · split
    · exact ⟨_, Or.inl rfl, by simp only; omega, rfl⟩
    · split
      · exact ⟨_, Or.inl rfl, by simp only; omega, rfl⟩
      · split
        · by_cases h : p < origin
          · exact ⟨_, Or.inl rfl, by simp only; omega, rfl⟩
          · exact ⟨_, Or.inr (List.mem_singleton.mpr rfl), by simp only; omega, rfl⟩
        · exact ⟨_, Or.inl rfl, hp, rfl⟩

theorem patchRun_flag (origin len : Nat) (new r : Run) (h : (patchRun origin len new r).2.2 = true) :
    (patchRun origin len new r).1 = new := by
  unfold patchRun at *
  simp only at *
  split at h
  · simp_all
  · split at h
    · simp at h
    · split at h
      · simp at h
      · split at h <;> simp at h

/-- all runs of the layer after the loop (patched in place, then appended). -/
def patchedAll (origin len : Nat) (new : Run) (rs : List Run) : List Run :=
  (patchRuns origin len new rs).1 ++ (patchRuns origin len new rs).2.1

theorem mem_patchedAll_cons (origin len : Nat) (new r : Run) (rs : List Run) (x : Run) :
    x ∈ patchedAll origin len new (r :: rs) ↔
      (x = (patchRun origin len new r).1 ∨ x ∈ (patchRun origin len new r).2.1) ∨ x ∈ patchedAll origin len new rs := by
  simp only [patchedAll, patchRuns, List.mem_append, List.mem_cons]
  constructor
  · rintro ((h | h) | (h | h))
    · exact Or.inl (Or.inl h)
    · exact Or.inr (Or.inl h)
    · exact Or.inl (Or.inr h)
    · exact Or.inr (Or.inr h)
  · rintro ((h | h) | (h | h))
    · exact Or.inl (Or.inl h)
    · exact Or.inr (Or.inl h)
    · exact Or.inl (Or.inr h)
    · exact Or.inr (Or.inr h)

theorem patchedAll_sound (origin len : Nat) (new : Run) (p : Nat) (rs : List Run) (x : Run)
    (hx : x ∈ patchedAll origin len new rs) (hp : RunAt x p) :
    x = new ∨ ∃ r ∈ rs, RunAt r p ∧ x.bd = r.bd := by
  induction rs with
  | nil => simp [patchedAll, patchRuns] at hx
  | cons r rs ih =>
    rw [mem_patchedAll_cons] at hx
    rcases hx with h | h
    · rcases patchRun_sound origin len new r p x h hp with h' | h'
      · exact Or.inl h'
      · exact Or.inr ⟨r, List.mem_cons_self, h'⟩
    · rcases ih h with h' | ⟨r', hr', h'⟩
      · exact Or.inl h'
      · exact Or.inr ⟨r', List.mem_cons_of_mem _ hr', h'⟩

theorem patchedAll_keep (origin len : Nat) (new : Run) (p : Nat) (hn : ¬ InOp origin len p) (rs : List Run)
    (r : Run) (hr : r ∈ rs) (hp : RunAt r p) :
    ∃ x ∈ patchedAll origin len new rs, RunAt x p ∧ x.bd = r.bd := by
  induction rs with
  | nil => cases hr
  | cons r0 rs ih =>
    rcases List.mem_cons.mp hr with rfl | h
    · obtain ⟨x, hx, h1, h2⟩ := patchRun_keep origin len new r p hp hn
      exact ⟨x, (mem_patchedAll_cons ..).mpr (Or.inl hx), h1, h2⟩
    · obtain ⟨x, hx, h1⟩ := ih h
      exact ⟨x, (mem_patchedAll_cons ..).mpr (Or.inr hx), h1⟩

theorem patchRuns_flag (origin len : Nat) (new : Run) (rs : List Run)
    (h : (patchRuns origin len new rs).2.2 = true) : new ∈ (patchRuns origin len new rs).1 := by
  induction rs with
  | nil => simp [patchRuns] at h
  | cons r rs ih =>
    simp only [patchRuns, Bool.or_eq_true] at h ⊢
    rcases h with h | h
    · rw [patchRun_flag origin len new r h]; exact List.mem_cons_self
    · exact List.mem_cons_of_mem _ (ih h)

theorem mem_insertRun (y : Run) (rs : List Run) (x : Run) : x ∈ insertRun y rs ↔ x = y ∨ x ∈ rs := by
  induction rs with
  | nil => simp [insertRun]
  | cons z zs ih =>
    simp only [insertRun]
    split
    · simp
    · simp only [List.mem_cons, ih]
      constructor
      · rintro (h | h | h)
        · exact Or.inr (Or.inl h)
        · exact Or.inl h
        · exact Or.inr (Or.inr h)
      · rintro (h | h | h)
        · exact Or.inr (Or.inl h)
        · exact Or.inl h
        · exact Or.inr (Or.inr h)

theorem mem_sortRuns (rs : List Run) (x : Run) : x ∈ sortRuns rs ↔ x ∈ rs := by
  induction rs with
  | nil => simp [sortRuns]
  | cons y ys ih => simp [sortRuns, mem_insertRun, ih]

/-- positions covered by a layer, with the border of the covering run. -/
def LayerCov (l : Layer) (p : Nat) (b : Bd) : Prop := ∃ x ∈ l.runs, x.bd = b ∧ RunAt x p

theorem mem_patchLayer (origin len : Nat) (new : Run) (l : Layer) (x : Run) :
    x ∈ (patchLayer origin len new l).runs ↔
      x ∈ patchedAll origin len new l.runs ∨ ((patchRuns origin len new l.runs).2.2 = false ∧ x = new) := by
  simp only [patchLayer, mem_sortRuns, List.mem_append, patchedAll]
  cases (patchRuns origin len new l.runs).2.2 <;> simp

theorem patchLayer_sound (origin len : Nat) (new : Run) (hno : new.origin = origin) (hnl : new.len = len)
    (l : Layer) (p : Nat) (b : Bd) (h : LayerCov (patchLayer origin len new l) p b) :
    (b = new.bd ∧ InOp origin len p) ∨ LayerCov l p b := by
  obtain ⟨x, hx, rfl, hp⟩ := h
  have hnew : x = new → (x.bd = new.bd ∧ InOp origin len p) := by
    rintro rfl; exact ⟨rfl, by simpa [RunAt, InOp, hno, hnl] using hp⟩
  rcases (mem_patchLayer ..).mp hx with h | ⟨_, h⟩
  · rcases patchedAll_sound origin len new p l.runs x h hp with h' | ⟨r, hr, h1, h2⟩
    · exact Or.inl (hnew h')
    · exact Or.inr ⟨r, hr, h2.symm, h1⟩
  · exact Or.inl (hnew h)

theorem patchLayer_keep (origin len : Nat) (new : Run) (l : Layer) (p : Nat) (b : Bd)
    (hn : ¬ InOp origin len p) (h : LayerCov l p b) : LayerCov (patchLayer origin len new l) p b := by
  obtain ⟨r, hr, rfl, hp⟩ := h
  obtain ⟨x, hx, h1, h2⟩ := patchedAll_keep origin len new p hn l.runs r hr hp
  exact ⟨x, (mem_patchLayer ..).mpr (Or.inl hx), h2, h1⟩

theorem patchLayer_new (origin len : Nat) (new : Run) (hno : new.origin = origin) (hnl : new.len = len)
    (l : Layer) (p : Nat) (hp : InOp origin len p) : LayerCov (patchLayer origin len new l) p new.bd := by
  refine ⟨new, ?_, rfl, by simpa [RunAt, InOp, hno, hnl] using hp⟩
  rw [mem_patchLayer]
  cases hf : (patchRuns origin len new l.runs).2.2
  · exact Or.inr ⟨rfl, rfl⟩
  · exact Or.inl (List.mem_append_left _ (patchRuns_flag origin len new l.runs hf))

theorem patchLayer_index (origin len : Nat) (new : Run) (l : Layer) :
    (patchLayer origin len new l).index = l.index := rfl

/-- positions covered in layers with index `idx` of one family. -/
def FamCov (ls : List Layer) (idx p : Nat) (b : Bd) : Prop := ∃ l ∈ ls, l.index = idx ∧ LayerCov l p b

theorem patchFamily_spec (idx origin len : Nat) (new : Run) (hno : new.origin = origin) (hnl : new.len = len)
    (ls : List Layer) :
    ((patchFamily idx origin len new ls).2 = false → (∀ l ∈ ls, l.index ≠ idx) ∧ (patchFamily idx origin len new ls).1 = ls) ∧
    ((patchFamily idx origin len new ls).2 = true →
      (∀ idx' p b, FamCov (patchFamily idx origin len new ls).1 idx' p b →
          (idx' = idx ∧ b = new.bd ∧ InOp origin len p) ∨ FamCov ls idx' p b) ∧
      (∀ idx' p b, ¬ (idx' = idx ∧ InOp origin len p) → FamCov ls idx' p b →
          FamCov (patchFamily idx origin len new ls).1 idx' p b) ∧
      (∀ p, InOp origin len p → FamCov (patchFamily idx origin len new ls).1 idx p new.bd)) := by
  induction ls with
  | nil => simp [patchFamily]
  | cons l ls ih =>
    obtain ⟨ih0, ih1⟩ := ih
    simp only [patchFamily]
    cases hf : (patchFamily idx origin len new ls).2
    · obtain ⟨hne, heq⟩ := ih0 hf
      simp only [Bool.false_eq_true, if_false]
      by_cases hi : l.index = idx
      · simp only [hi, if_true]
        refine ⟨by simp, fun _ => ⟨?_, ?_, ?_⟩⟩
        · rintro idx' p b ⟨l', hl', hidx, hcov⟩
          rcases List.mem_cons.mp hl' with rfl | hl'
          · rw [patchLayer_index] at hidx
            rcases patchLayer_sound origin len new hno hnl l p b hcov with h | h
            · exact Or.inl ⟨by omega, h⟩
            · exact Or.inr ⟨l, List.mem_cons_self, hidx, h⟩
          · exact Or.inr ⟨l', List.mem_cons_of_mem _ hl', hidx, hcov⟩
        · rintro idx' p b hn ⟨l', hl', hidx, hcov⟩
          rcases List.mem_cons.mp hl' with rfl | hl'
          · refine ⟨_, List.mem_cons_self, hidx, patchLayer_keep origin len new l' p b ?_ hcov⟩
            intro hin; exact hn ⟨by omega, hin⟩
          · exact ⟨l', List.mem_cons_of_mem _ hl', hidx, hcov⟩
        · intro p hp
          exact ⟨_, List.mem_cons_self, hi, patchLayer_new origin len new hno hnl l p hp⟩
      · simp only [hi, if_false]
        refine ⟨fun _ => ⟨?_, by simp⟩, by simp⟩
        intro l' hl'
        rcases List.mem_cons.mp hl' with rfl | hl'
        · exact hi
        · exact hne l' hl'
    · obtain ⟨hs, hk, hnw⟩ := ih1 hf
      simp only [if_true]
      refine ⟨by simp, fun _ => ⟨?_, ?_, ?_⟩⟩
      · rintro idx' p b ⟨l', hl', hidx, hcov⟩
        rcases List.mem_cons.mp hl' with rfl | hl'
        · exact Or.inr ⟨l', List.mem_cons_self, hidx, hcov⟩
        · rcases hs idx' p b ⟨l', hl', hidx, hcov⟩ with h | ⟨l2, hl2, h2⟩
          · exact Or.inl h
          · exact Or.inr ⟨l2, List.mem_cons_of_mem _ hl2, h2⟩
      · rintro idx' p b hn ⟨l', hl', hidx, hcov⟩
        rcases List.mem_cons.mp hl' with rfl | hl'
        · exact ⟨l', List.mem_cons_self, hidx, hcov⟩
        · obtain ⟨l2, hl2, h2⟩ := hk idx' p b hn ⟨l', hl', hidx, hcov⟩
          exact ⟨l2, List.mem_cons_of_mem _ hl2, h2⟩
      · intro p hp
        obtain ⟨l2, hl2, h2⟩ := hnw p hp
        exact ⟨l2, List.mem_cons_of_mem _ hl2, h2⟩

theorem addToFamily_spec (idx origin len : Nat) (new : Run) (hno : new.origin = origin) (hnl : new.len = len)
    (ls : List Layer) :
    (∀ idx' p b, FamCov (addToFamily idx origin len new ls) idx' p b →
        (idx' = idx ∧ b = new.bd ∧ InOp origin len p) ∨ FamCov ls idx' p b) ∧
    (∀ idx' p b, ¬ (idx' = idx ∧ InOp origin len p) → FamCov ls idx' p b →
        FamCov (addToFamily idx origin len new ls) idx' p b) ∧
    (∀ p, InOp origin len p → FamCov (addToFamily idx origin len new ls) idx p new.bd) := by
  obtain ⟨h0, h1⟩ := patchFamily_spec idx origin len new hno hnl ls
  unfold addToFamily
  cases hf : (patchFamily idx origin len new ls).2
  · simp only [hf, Bool.false_eq_true, if_false]
    refine ⟨?_, ?_, ?_⟩
    · rintro idx' p b ⟨l', hl', hidx, hcov⟩
      rcases List.mem_append.mp hl' with hl' | hl'
      · exact Or.inr ⟨l', hl', hidx, hcov⟩
      · simp only [List.mem_singleton] at hl'
        subst hl'
        obtain ⟨x, hx, rfl, hp⟩ := hcov
        simp only [List.mem_singleton] at hx
        subst hx
        exact Or.inl ⟨hidx.symm, rfl, by simpa [RunAt, InOp, hno, hnl] using hp⟩
    · rintro idx' p b _ ⟨l', hl', h⟩
      exact ⟨l', List.mem_append_left _ hl', h⟩
    · intro p hp
      exact ⟨⟨idx, [new]⟩, List.mem_append_right _ (List.mem_singleton.mpr rfl), rfl, new, List.mem_singleton.mpr rfl, rfl,
        by simpa [RunAt, InOp, hno, hnl] using hp⟩
  · simp only [hf, if_true]
    exact h1 hf

/-! ### from positions to unit edges -/

theorem coversB_iff_pos (sd : Side) (row col len : Nat) (e : Edge) :
    coversB sd row col len e = true ↔
      ∃ p, InOp (runOrigin sd row col) len p ∧ posEdge sd (layerIdx sd row col) p = e := by
  rw [coversB_iff]
  constructor
  · rintro ⟨i, hi, rfl⟩
    refine ⟨runOrigin sd row col + i, ⟨by omega, by omega⟩, ?_⟩
    cases sd <;> rfl
  · rintro ⟨p, ⟨h1, h2⟩, rfl⟩
    refine ⟨p - runOrigin sd row col, by omega, ?_⟩
    cases sd <;> simp only [posEdge, unitEdge, edgeOf, layerIdx, runOrigin] at * <;> congr 1 <;> omega

theorem runCov_iff (sd : Side) (idx : Nat) (r : Run) (e : Edge) :
    runCov sd idx r e = true ↔ ∃ p, RunAt r p ∧ posEdge sd idx p = e := by
  cases sd <;> simp only [runCov, coversB_iff_pos, layerIdx, runOrigin, InOp, RunAt]

theorem posEdge_inj (sd : Side) (idx p idx' p' : Nat) (h : posEdge sd idx p = posEdge sd idx' p') :
    idx = idx' ∧ p = p' := by
  cases sd <;> simp [posEdge] at h <;> omega

theorem covFam_iff (sd : Side) (ls : List Layer) (e : Edge) (b : Bd) :
    CovFam sd ls e b ↔ ∃ idx p, posEdge sd idx p = e ∧ FamCov ls idx p b := by
  constructor
  · rintro ⟨l, hl, x, hx, hb, hc⟩
    obtain ⟨p, hp, he⟩ := (runCov_iff ..).mp hc
    exact ⟨l.index, p, he, l, hl, rfl, x, hx, hb, hp⟩
  · rintro ⟨idx, p, he, l, hl, rfl, x, hx, hb, hp⟩
    exact ⟨l, hl, x, hx, hb, (runCov_iff ..).mpr ⟨p, hp, he⟩⟩

/-- the three facts about one family after `add_stroke`, at the level of unit edges. -/
theorem covFam_addToFamily (sd : Side) (row col len : Nat) (new : Run)
    (hno : new.origin = runOrigin sd row col) (hnl : new.len = len) (ls : List Layer) :
    (∀ e b, CovFam sd (addToFamily (layerIdx sd row col) (runOrigin sd row col) len new ls) e b →
        (b = new.bd ∧ coversB sd row col len e = true) ∨ CovFam sd ls e b) ∧
    (∀ e b, coversB sd row col len e = false → CovFam sd ls e b →
        CovFam sd (addToFamily (layerIdx sd row col) (runOrigin sd row col) len new ls) e b) ∧
    (∀ e, coversB sd row col len e = true →
        CovFam sd (addToFamily (layerIdx sd row col) (runOrigin sd row col) len new ls) e new.bd) := by
  obtain ⟨hs, hk, hn⟩ := addToFamily_spec (layerIdx sd row col) (runOrigin sd row col) len new hno hnl ls
  refine ⟨?_, ?_, ?_⟩
  · intro e b h
    obtain ⟨idx, p, he, hf⟩ := (covFam_iff ..).mp h
    rcases hs idx p b hf with ⟨rfl, hb, hp⟩ | h'
    · exact Or.inl ⟨hb, (coversB_iff_pos ..).mpr ⟨p, hp, he⟩⟩
    · exact Or.inr ((covFam_iff ..).mpr ⟨idx, p, he, h'⟩)
  · intro e b hc h
    obtain ⟨idx, p, he, hf⟩ := (covFam_iff ..).mp h
    refine (covFam_iff ..).mpr ⟨idx, p, he, hk idx p b ?_ hf⟩
    rintro ⟨rfl, hp⟩
    have := (coversB_iff_pos sd row col len e).mpr ⟨p, hp, he⟩
    simp [hc] at this
  · intro e hc
    obtain ⟨p, hp, he⟩ := (coversB_iff_pos ..).mp hc
    exact (covFam_iff ..).mpr ⟨_, p, he, hn p hp⟩

theorem fam_setFam (sc : Sidecar) (sd sd' : Side) (ls : List Layer) :
    (sc.setFam sd ls).fam sd' = if sd' = sd then ls else sc.fam sd' := by
  cases sd <;> cases sd' <;> simp [Sidecar.setFam, Sidecar.fam]

theorem cov_iff_fam (sc : Sidecar) (e : Edge) (b : Bd) :
    Cov sc e b ↔ ∃ sd, CovFam sd (sc.fam sd) e b := by
  constructor
  · rintro (h | h | h | h)
    · exact ⟨.top, h⟩
    · exact ⟨.left, h⟩
    · exact ⟨.right, h⟩
    · exact ⟨.bottom, h⟩
  · rintro ⟨sd, h⟩
    cases sd
    · exact Or.inl h
    · exact Or.inr (Or.inr (Or.inl h))
    · exact Or.inr (Or.inr (Or.inr h))
    · exact Or.inr (Or.inl h)

theorem addStroke_bd (sc : Sidecar) (sd : Side) (row col len stroke : Nat) :
    (addStroke sc sd row col len stroke).2 = ⟨stroke, sc.maxOrder + 1⟩ := rfl

theorem addStroke_maxOrder (sc : Sidecar) (sd : Side) (row col len stroke : Nat) :
    (addStroke sc sd row col len stroke).1.maxOrder = sc.maxOrder + 1 := by
  cases sd <;> rfl

theorem addStroke_fam (sc : Sidecar) (sd : Side) (row col len stroke : Nat) (sd' : Side) :
    (addStroke sc sd row col len stroke).1.fam sd' =
      if sd' = sd then addToFamily (layerIdx sd row col) (runOrigin sd row col) len
        ⟨runOrigin sd row col, len, ⟨stroke, sc.maxOrder + 1⟩⟩ (sc.fam sd) else sc.fam sd' := by
  simp only [addStroke, fam_setFam]
  cases sd <;> cases sd' <;> simp [Sidecar.fam]

/-- `add_stroke` on the stored layers, at the level of unit edges. -/
theorem cov_addStroke (sc : Sidecar) (sd : Side) (row col len stroke : Nat) :
    (∀ e b, Cov (addStroke sc sd row col len stroke).1 e b →
        (b = ⟨stroke, sc.maxOrder + 1⟩ ∧ coversB sd row col len e = true) ∨ Cov sc e b) ∧
    (∀ e b, coversB sd row col len e = false → Cov sc e b → Cov (addStroke sc sd row col len stroke).1 e b) ∧
    (∀ e, coversB sd row col len e = true → Cov (addStroke sc sd row col len stroke).1 e ⟨stroke, sc.maxOrder + 1⟩) := by
  obtain ⟨hs, hk, hn⟩ := covFam_addToFamily sd row col len
    ⟨runOrigin sd row col, len, ⟨stroke, sc.maxOrder + 1⟩⟩ rfl rfl (sc.fam sd)
  refine ⟨?_, ?_, ?_⟩
  · intro e b h
    obtain ⟨sd', h⟩ := (cov_iff_fam ..).mp h
    rw [addStroke_fam] at h
    by_cases hsd : sd' = sd
    · subst hsd
      rw [if_pos rfl] at h
      rcases hs e b h with h' | h'
      · exact Or.inl h'
      · exact Or.inr ((cov_iff_fam ..).mpr ⟨sd', h'⟩)
    · rw [if_neg hsd] at h
      exact Or.inr ((cov_iff_fam ..).mpr ⟨sd', h⟩)
  · intro e b hc h
    obtain ⟨sd', h⟩ := (cov_iff_fam ..).mp h
    refine (cov_iff_fam ..).mpr ⟨sd', ?_⟩
    rw [addStroke_fam]
    by_cases hsd : sd' = sd
    · subst hsd; rw [if_pos rfl]; exact hk e b hc h
    · rw [if_neg hsd]; exact h
  · intro e hc
    refine (cov_iff_fam ..).mpr ⟨sd, ?_⟩
    rw [addStroke_fam, if_pos rfl]
    exact hn e hc

/-! ### the invariant that ties the open document to the stored layers -/

/-- well-formed stored layers: the order counter dominates every run, and runs of equal order on
    the same unit edge carry the same stroke (true of a new document, preserved by `add_stroke`,
    checked on files by the correspondence run). -/
structure SidecarOK (sc : Sidecar) : Prop where
  bounded : ∀ e b, Cov sc e b → b.order ≤ sc.maxOrder
  coherent : ∀ e b b', Cov sc e b → Cov sc e b' → b.order = b'.order → b.stroke = b'.stroke

/-- every visible slot of the open document holds a most recent stored run on its edge; hidden
    slots are empty. -/
def Agree (t : Table) (st : St) : Prop :=
  ∀ r c sd, (cfs t sd r c = true → Good ((st.cells r c).get sd) (Cov st.sc (edgeOf sd r c))) ∧
            (cfs t sd r c = false → (st.cells r c).get sd = none)

structure Inv (t : Table) (st : St) : Prop where
  ok : SidecarOK st.sc
  agree : Agree t st

theorem cov_empty (m : Nat) (e : Edge) (b : Bd) : ¬ Cov { maxOrder := m } e b := by
  simp [Cov, CovFam]

theorem inv_init (t : Table) (m : Nat) : Inv t (St.init m) := by
  refine ⟨⟨fun e b h => absurd h (cov_empty m e b), fun e b b' h => absurd h (cov_empty m e b)⟩, ?_⟩
  intro r c sd
  refine ⟨fun _ => ?_, fun _ => by cases sd <;> rfl⟩
  have : ((St.init m).cells r c).get sd = none := by cases sd <;> rfl
  rw [this]
  exact ⟨fun _ b => cov_empty m _ b, fun b h => by cases h⟩

theorem inv_load (t : Table) (sc : Sidecar) (h : SidecarOK sc) : Inv t ⟨extract t sc, sc⟩ :=
  ⟨h, fun r c sd => ⟨extract_good t sc r c sd, extract_hidden t sc r c sd⟩⟩

theorem sidecarOK_addStroke (sc : Sidecar) (h : SidecarOK sc) (sd : Side) (row col len stroke : Nat) :
    SidecarOK (addStroke sc sd row col len stroke).1 := by
  obtain ⟨hs, _, _⟩ := cov_addStroke sc sd row col len stroke
  constructor
  · intro e b hb
    rw [addStroke_maxOrder]
    rcases hs e b hb with ⟨rfl, _⟩ | h'
    · exact Nat.le_refl _
    · have := h.bounded e b h'; omega
  · intro e b b' hb hb' ho
    rcases hs e b hb with ⟨rfl, _⟩ | h1 <;> rcases hs e b' hb' with ⟨rfl, _⟩ | h2
    · rfl
    · have := h.bounded e b' h2; simp only at ho; omega
    · have := h.bounded e b h1; simp only at ho; omega
    · exact h.coherent e b b' h1 h2 ho

/-- one accepted stroke, slot by slot. -/
theorem get_applyOp (t : Table) (st : St) (hinv : Inv t st) (op : Op) (r c : Nat) (sd : Side) :
    ((applyOp t st op).cells r c).get sd =
      if refused t op.sd op.row op.col = false ∧ cfs t sd r c = true ∧ op.covers (edgeOf sd r c) = true
      then some ⟨op.stroke, st.sc.maxOrder + 1⟩ else (st.cells r c).get sd := by
  unfold applyOp
  by_cases hr : refused t op.sd op.row op.col = true
  · simp [hr]
  · have hr' : refused t op.sd op.row op.col = false := by simpa using hr
    rw [if_neg hr]
    simp only [get_strokeCells, addStroke_bd]
    have hcv : op.covers (edgeOf sd r c) = coversB op.sd op.row op.col op.len (edgeOf sd r c) := rfl
    by_cases hc : cfs t sd r c = true ∧ coversB op.sd op.row op.col op.len (edgeOf sd r c) = true
    · have h2 : refused t op.sd op.row op.col = false ∧ cfs t sd r c = true ∧ op.covers (edgeOf sd r c) = true :=
        ⟨hr', hc.1, hcv ▸ hc.2⟩
      rw [if_pos hc, if_pos h2]
      apply putSlot_newer
      intro o ho
      have := hinv.ok.bounded _ o (((hinv.agree r c sd).1 hc.1).2 o ho).1
      simp only; omega
    · rw [if_neg hc, if_neg (fun h => hc ⟨h.2.1, hcv ▸ h.2.2⟩)]

theorem sc_applyOp (t : Table) (st : St) (op : Op) :
    (applyOp t st op).sc = if refused t op.sd op.row op.col = true then st.sc
      else (addStroke st.sc op.sd op.row op.col op.len op.stroke).1 := by
  unfold applyOp; split <;> rfl

theorem inv_applyOp (t : Table) (st : St) (hinv : Inv t st) (op : Op) : Inv t (applyOp t st op) := by
  by_cases hr : refused t op.sd op.row op.col = true
  · have : applyOp t st op = st := by simp [applyOp, hr]
    rw [this]; exact hinv
  · have hr' : refused t op.sd op.row op.col = false := by simpa using hr
    obtain ⟨hs, hk, hn⟩ := cov_addStroke st.sc op.sd op.row op.col op.len op.stroke
    have hsc : (applyOp t st op).sc = (addStroke st.sc op.sd op.row op.col op.len op.stroke).1 := by
      rw [sc_applyOp, if_neg hr]
    refine ⟨by rw [hsc]; exact sidecarOK_addStroke _ hinv.ok _ _ _ _ _, ?_⟩
    intro r c sd
    rw [get_applyOp t st hinv, hsc]
    refine ⟨fun hc => ?_, fun hc => ?_⟩
    · by_cases hcov : op.covers (edgeOf sd r c) = true
      · rw [if_pos ⟨hr', hc, hcov⟩]
        refine ⟨fun h => (by cases h), ?_⟩
        intro b hb
        cases hb
        refine ⟨hn _ hcov, ?_⟩
        intro b' hb'
        rcases hs _ b' hb' with ⟨rfl, _⟩ | h'
        · exact Nat.le_refl _
        · have := hinv.ok.bounded _ b' h'; simp only; omega
      · rw [if_neg (fun h => hcov h.2.2)]
        have hcov' : coversB op.sd op.row op.col op.len (edgeOf sd r c) = false := by
          simpa [Op.covers] using hcov
        refine ((hinv.agree r c sd).1 hc).congr ?_
        intro b
        constructor
        · exact hk _ b hcov'
        · intro hb
          rcases hs _ b hb with ⟨_, h2⟩ | h'
          · simp [hcov'] at h2
          · exact h'
    · rw [if_neg (fun h => by simp [hc] at h)]
      exact (hinv.agree r c sd).2 hc

theorem applyOps_snoc (t : Table) (st : St) (ops : List Op) (op : Op) :
    applyOps t st (ops ++ [op]) = applyOp t (applyOps t st ops) op := by
  simp [applyOps, List.foldl_append]

theorem inv_applyOps (t : Table) (st : St) (hinv : Inv t st) (ops : List Op) : Inv t (applyOps t st ops) := by
  induction ops using List.reverseRecOn with
  | nil => exact hinv
  | append_singleton ops op ih => rw [applyOps_snoc]; exact inv_applyOp t _ ih op

theorem lww_snoc (ops : List Op) (op : Op) (e : Edge) :
    lww (ops ++ [op]) e = if op.covers e = true then some op.stroke else lww ops e := by
  simp [lww, List.foldl_append]

theorem accepted_snoc (t : Table) (ops : List Op) (op : Op) :
    accepted t (ops ++ [op]) = if refused t op.sd op.row op.col = true then accepted t ops else accepted t ops ++ [op] := by
  simp only [accepted, List.filter_append, List.filter_cons, List.filter_nil]
  cases refused t op.sd op.row op.col <;> simp

/-- the open document after any history: each visible slot shows the last accepted stroke along
    its edge, or what it showed before if there is none. -/
theorem open_slot_lww (t : Table) (st : St) (hinv : Inv t st) (ops : List Op) (r c : Nat) (sd : Side)
    (hc : cfs t sd r c = true) :
    (((applyOps t st ops).cells r c).get sd).map (·.stroke) =
      match lww (accepted t ops) (edgeOf sd r c) with
      | some s => some s
      | none => ((st.cells r c).get sd).map (·.stroke) := by
  induction ops using List.reverseRecOn with
  | nil => simp [applyOps, accepted, lww]
  | append_singleton ops op ih =>
    rw [applyOps_snoc, get_applyOp t _ (inv_applyOps t st hinv ops), accepted_snoc]
    by_cases hr : refused t op.sd op.row op.col = true
    · simp only [hr, Bool.true_eq_false, false_and, if_false, if_true]; exact ih
    · have hr' : refused t op.sd op.row op.col = false := by simpa using hr
      simp only [hr, hc, true_and, if_false, Bool.false_eq_true, lww_snoc]
      by_cases hcov : op.covers (edgeOf sd r c) = true
      · simp [hcov]
      · simp only [hcov, if_false, Bool.false_eq_true]; exact ih

theorem hidden_slot (t : Table) (st : St) (hinv : Inv t st) (r c : Nat) (sd : Side) (hc : cfs t sd r c = false) :
    (st.cells r c).get sd = none := (hinv.agree r c sd).2 hc

/-- open document and freshly loaded file show the same stroke in every slot. -/
theorem open_eq_extract (t : Table) (st : St) (hinv : Inv t st) (r c : Nat) (sd : Side) :
    ((st.cells r c).get sd).map (·.stroke) = (((extract t st.sc) r c).get sd).map (·.stroke) := by
  cases hc : cfs t sd r c
  · rw [(hinv.agree r c sd).2 hc, extract_hidden t st.sc r c sd hc]
  · exact ((hinv.agree r c sd).1 hc).unique (extract_good t st.sc r c sd hc)
      (fun b b' => hinv.ok.coherent _ b b')

theorem apiStrokes_ok (t : Table) (ops : List Op) (h : ∀ op ∈ ops, op.row < t.nrows ∧ op.col < t.ncols) :
    ∀ st, apiStrokes t st ops = .ok (applyOps t st ops) := by
  induction ops with
  | nil => intro st; rfl
  | cons op ops ih =>
    intro st
    have h1 := h op List.mem_cons_self
    have : ¬ (op.row ≥ t.nrows ∨ op.col ≥ t.ncols) := by omega
    simp only [apiStrokes, apiStroke, this, if_false, bind, Except.bind, applyOps, List.foldl_cons]
    exact ih (fun o ho => h o (List.mem_cons_of_mem _ ho)) _

/-- `cell_for_stroke` never hands out a cell for a side that is interior to its merged rectangle,
    so what `Cell.border.<side>` masks is never a slot that holds anything. -/
theorem cfs_not_merged (t : Table) (sd : Side) (r c : Nat) (h : cfs t sd r c = true) : mergedFlag t sd r c = false := by
  unfold cfs at h
  unfold mergedFlag
  split at h
  · cases h
  · split at h <;> rename_i hk <;> simp only [hk]
    · cases sd <;> simp_all

end NumbersModel.Border
