/-
Helper lemmas for C07 (Model/ObjectStore.lean).
-/
import NumbersModel.Model.ObjectStore
import NumbersModel.Lemmas.Layout
import Mathlib.Data.List.Nodup
import Mathlib.Data.List.Range
namespace NumbersModel.ObjStore
open NumbersModel NumbersModel.Layout

/-! ### identifiers -/

theorem le_roundUpMillion (m : Nat) : m ≤ roundUpMillion m := by
  unfold roundUpMillion; omega

theorem roundUpMillion_dvd (m : Nat) : roundUpMillion m % 1000000 = 0 := by
  unfold roundUpMillion; omega

theorem listMax_ge (l : List Nat) (m : Nat) (h : listMax l = .ok m) : ∀ i ∈ l, i ≤ m := by
  cases l with
  | nil => cases h
  | cons a r =>
    simp only [listMax, Except.ok.injEq] at h
    subst h
    have gen : ∀ (r : List Nat) (k0 : Nat),
        k0 ≤ r.foldl (fun m k => if k > m then k else m) k0 ∧
        ∀ i ∈ r, i ≤ r.foldl (fun m k => if k > m then k else m) k0 := by
      intro r
      induction r with
      | nil => intro k0; simp
      | cons x r ih =>
        intro k0
        simp only [List.foldl_cons, List.mem_cons]
        by_cases hx : x > k0
        · rw [if_pos hx]
          obtain ⟨h1, h2⟩ := ih x
          exact ⟨by omega, fun i hi => hi.elim (fun e => e ▸ h1) (h2 i)⟩
        · rw [if_neg hx]
          obtain ⟨h1, h2⟩ := ih k0
          exact ⟨h1, fun i hi => hi.elim (fun e => by omega) (h2 i)⟩
    obtain ⟨h1, h2⟩ := gen r a
    intro i hi
    rcases List.mem_cons.mp hi with rfl | hi
    · exact h1
    · exact h2 i hi

/-- what holds of a store reached from `st0` by creations -/
structure Reach (st0 st : Store) : Prop where
  new : ∃ new : List Nat, st.ids = st0.ids ++ new ∧ new.Nodup ∧ ∀ i ∈ new, st0.maxId < i ∧ i ≤ st.maxId
  mono : st0.maxId ≤ st.maxId
  hwm : st.maxId ≠ st0.maxId → st.lastObjId = st.maxId

theorem Reach.refl (st0 : Store) : Reach st0 st0 :=
  ⟨⟨[], by simp, by simp, by simp⟩, Nat.le_refl _, fun h => absurd rfl h⟩

/-- consuming an identifier without storing an object -/
theorem Reach.bump {st0 st : Store} (h : Reach st0 st) (st' : Store) (hid : st'.ids = st.ids)
    (hm : st'.maxId = st.maxId + 1) (hl : st'.lastObjId = st.maxId + 1) : Reach st0 st' := by
  obtain ⟨⟨new, h1, h2, h3⟩, hmono, _⟩ := h
  refine ⟨⟨new, by rw [hid, h1], h2, fun i hi => ?_⟩, by omega, fun _ => by omega⟩
  have := h3 i hi
  omega

/-- storing the object under the fresh identifier -/
theorem Reach.add {st0 st : Store} (h : Reach st0 st) (hbase : ∀ i ∈ st0.ids, i ≤ st0.maxId) (st' : Store)
    (hid : st'.ids = setAdd st.ids (st.maxId + 1)) (hm : st'.maxId = st.maxId + 1)
    (hl : st'.lastObjId = st.maxId + 1) : Reach st0 st' := by
  obtain ⟨⟨new, h1, h2, h3⟩, hmono, _⟩ := h
  have hfresh : st.maxId + 1 ∉ st.ids := by
    rw [h1]
    intro hmem
    rcases List.mem_append.mp hmem with hm0 | hm1
    · have := hbase _ hm0; omega
    · have := (h3 _ hm1).2; omega
  refine ⟨⟨new ++ [st.maxId + 1], ?_, ?_, ?_⟩, by omega, fun _ => by omega⟩
  · rw [hid, setAdd, if_neg hfresh, h1, List.append_assoc]
  · rw [List.nodup_append]
    refine ⟨h2, by simp, ?_⟩
    intro a ha b hb
    simp only [List.mem_singleton] at hb
    subst hb
    have := (h3 a ha).2
    omega
  · intro i hi
    rcases List.mem_append.mp hi with hi | hi
    · have := h3 i hi; omega
    · simp only [List.mem_singleton] at hi; subst hi; omega

theorem reach_createObject {st0 st : Store} (h : Reach st0 st) (hbase : ∀ i ∈ st0.ids, i ≤ st0.maxId)
    (f : List Char) (a : Bool) : Reach st0 (createObject st f a).1 := by
  unfold createObject newMessageId
  simp only
  split
  · split
    · exact h.bump _ rfl rfl rfl
    · exact h.add hbase _ rfl rfl rfl
  · exact h.add hbase _ rfl rfl rfl

theorem addComponentMetadata_ids (st : Store) (i : Nat) (p l : List Char) :
    (addComponentMetadata st i p l).1.ids = st.ids ∧ (addComponentMetadata st i p l).1.maxId = st.maxId ∧
    (addComponentMetadata st i p l).1.lastObjId = st.lastObjId ∧ (addComponentMetadata st i p l).1.files = st.files := by
  unfold addComponentMetadata
  simp only
  split <;> simp

theorem reach_meta {st0 st : Store} (h : Reach st0 st) (i : Nat) (p l : List Char) :
    Reach st0 (addComponentMetadata st i p l).1 := by
  obtain ⟨e1, e2, e3, _⟩ := addComponentMetadata_ids st i p l
  obtain ⟨⟨new, h1, h2, h3⟩, hmono, hh⟩ := h
  exact ⟨⟨new, by rw [e1, h1], h2, fun i hi => by rw [e2]; exact h3 i hi⟩, by rw [e2]; exact hmono,
    fun hne => by rw [e2] at hne ⊢; rw [e3]; exact hh hne⟩

theorem reach_listed {st0 st : Store} (h : Reach st0 st) (hbase : ∀ i ∈ st0.ids, i ≤ st0.maxId)
    (l p : List Char) : Reach st0 (createListed st l p).1 := by
  unfold createListed
  have h1 := reach_createObject h hbase ("Index/".toList ++ l) false
  split
  · rename_i st1 e heq; rw [heq] at h1; exact h1
  · rename_i st1 id heq
    rw [heq] at h1
    have h2 := reach_meta h1 id p l
    split
    · rename_i st2 e heq2; rw [heq2] at h2; exact h2
    · rename_i st2 heq2; rw [heq2] at h2; exact h2

theorem reach_run {st0 : Store} (hbase : ∀ i ∈ st0.ids, i ≤ st0.maxId) (ops : List Op) (st : Store)
    (h : Reach st0 st) : Reach st0 (run st ops) := by
  induction ops generalizing st with
  | nil => exact h
  | cons op r ih =>
    simp only [run, List.foldl_cons]
    apply ih
    cases op with
    | create f a => exact reach_createObject h hbase f a
    | addMeta i p l => exact reach_meta h i p l
    | listed l p => exact reach_listed h hbase l p

/-! ### inventory -/

theorem pyFormat1_index (loc arg : List Char) :
    pyFormat1 ("Index/".toList ++ loc) arg = "Index/".toList ++ pyFormat1 loc arg := by
  show pyFormat1 ('I' :: 'n' :: 'd' :: 'e' :: 'x' :: '/' :: loc) arg = 'I' :: 'n' :: 'd' :: 'e' :: 'x' :: '/' :: pyFormat1 loc arg
  simp [pyFormat1]

theorem addExternalRef_keeps (cs cs' : List Component) (p : List Char) (o : Nat)
    (h : addExternalRef cs p o = some cs') (c : Component) (hc : c ∈ cs) :
    ∃ c' ∈ cs', c'.identifier = c.identifier ∧ c'.locator = c.locator ∧ c'.preferred = c.preferred := by
  induction cs generalizing cs' with
  | nil => cases hc
  | cons a r ih =>
    simp only [addExternalRef] at h
    split at h
    · simp only [Option.some.injEq] at h
      subst h
      rcases List.mem_cons.mp hc with rfl | hr
      · exact ⟨_, List.mem_cons_self, rfl, rfl, rfl⟩
      · exact ⟨c, List.mem_cons_of_mem _ hr, rfl, rfl, rfl⟩
    · cases hr' : addExternalRef r p o with
      | none => simp [hr'] at h
      | some r' =>
        simp only [hr', Option.map_some, Option.some.injEq] at h
        subst h
        rcases List.mem_cons.mp hc with rfl | hr
        · exact ⟨c, List.mem_cons_self, rfl, rfl, rfl⟩
        · obtain ⟨c', hc', e⟩ := ih r' hr' hr
          exact ⟨c', List.mem_cons_of_mem _ hc', e⟩

theorem createListed_new_file (st st' : Store) (loc parent : List Char) (id : Nat)
    (hnew : iwaPaths st.files ("Index/".toList ++ loc) = [])
    (h : createListed st loc parent = (st', .ok id)) :
    id = st.maxId + 1 ∧
    ∃ c ∈ st'.components, c.identifier = id ∧
      dictGet? st'.files ("Index/".toList ++ c.locator ++ ".iwa".toList) = some (some [id]) ∧
      dictGet? st'.fileOf id = some ("Index/".toList ++ c.locator ++ ".iwa".toList) := by
  unfold createListed createObject newMessageId at h
  simp only [hnew, Bool.false_eq_true, if_false] at h
  unfold addComponentMetadata at h
  simp only at h
  cases hadd : addExternalRef
      (st.components ++ [newComponent (st.maxId + 1) (pyFormat1 loc (natStr (st.maxId + 1)))]) parent (st.maxId + 1) with
  | none => simp [hadd] at h
  | some comps' =>
    simp only [hadd, Prod.mk.injEq, Except.ok.injEq] at h
    obtain ⟨hst, hid⟩ := h
    subst hst
    refine ⟨hid.symm, ?_⟩
    obtain ⟨c', hc', e1, e2, _⟩ := addExternalRef_keeps _ _ _ _ hadd
      (newComponent (st.maxId + 1) (pyFormat1 loc (natStr (st.maxId + 1)))) (by simp)
    simp only [newComponent] at e1 e2
    refine ⟨c', hc', by rw [e1, hid], ?_, ?_⟩
    · simp only [e2, ← hid]
      rw [pyFormat1_index, dictGet?_dictSet, if_pos rfl]
    · simp only [e2, ← hid]
      rw [pyFormat1_index, dictGet?_dictSet, if_pos rfl]

/-! ### tiles -/

-- `omega` needs a deeper recursion limit for products with the literal 256 on the right
set_option maxRecDepth 8000

theorem tileGeom_spec (n k : Nat) (hk : k * 256 < n) :
    (tileGeom n k).tileid = k ∧ (tileGeom n k).rowStart = k * 256 ∧
    (tileGeom n k).numRows = (if n - k * 256 > 256 then 256 else n - k * 256 : Nat) := by
  unfold tileGeom
  simp only
  split
  · rename_i h
    have h2 : n - k * 256 > 256 := by simp only [Gen.MAX_TILE_SIZE] at h; omega
    rw [if_pos h2]
    exact ⟨rfl, rfl, rfl⟩
  · rename_i h
    have h2 : ¬ (n - k * 256 > 256) := by simp only [Gen.MAX_TILE_SIZE] at h; omega
    rw [if_neg h2]
    refine ⟨rfl, rfl, ?_⟩
    simp only [Gen.MAX_TILE_SIZE]
    omega

theorem tileLoop_rows (n : Nat) (fuel k : Nat) (hf : n - k * 256 ≤ fuel * 256) :
    (tileLoop n (((n : Int) - 1) / 256) fuel k).flatMap tileRows = List.range' (k * 256) (n - k * 256) := by
  induction fuel generalizing k with
  | zero =>
    have : n - k * 256 = 0 := by omega
    simp [tileLoop, this]
  | succ fuel ih =>
    simp only [tileLoop]
    by_cases hk : k * 256 < n
    · rw [if_pos (by omega)]
      obtain ⟨_, h2, h3⟩ := tileGeom_spec n k hk
      simp only [List.flatMap_cons, tileRows, h2, h3]
      rw [ih (k + 1) (by omega)]
      by_cases hbig : n - k * 256 > 256
      · rw [if_pos hbig]
        simp only [Int.toNat_natCast]
        have e1 : (k + 1) * 256 = k * 256 + 256 := by omega
        have e2 : n - k * 256 = 256 + (n - (k + 1) * 256) := by omega
        rw [e1, e2, ← List.range'_append_1]
        congr 2
        omega
      · rw [if_neg hbig]
        simp only [Int.toNat_natCast]
        have e0 : n - (k + 1) * 256 = 0 := by omega
        rw [e0]
        simp
    · rw [if_neg (by omega)]
      have : n - k * 256 = 0 := by omega
      simp [this]

theorem tileLoop_mem (n : Nat) (fuel k : Nat) (t : TileGeom)
    (ht : t ∈ tileLoop n (((n : Int) - 1) / 256) fuel k) : ∃ j, k ≤ j ∧ j * 256 < n ∧ t = tileGeom n j := by
  induction fuel generalizing k with
  | zero => simp [tileLoop] at ht
  | succ fuel ih =>
    simp only [tileLoop] at ht
    by_cases hk : k * 256 < n
    · rw [if_pos (by omega)] at ht
      rcases List.mem_cons.mp ht with rfl | ht
      · exact ⟨k, Nat.le_refl _, hk, rfl⟩
      · obtain ⟨j, h1, h2, h3⟩ := ih (k + 1) ht
        exact ⟨j, by omega, h2, h3⟩
    · rw [if_neg (by omega)] at ht
      cases ht

theorem tileLoop_ids (n : Nat) (fuel k : Nat) (hf : n - k * 256 ≤ fuel * 256) :
    (tileLoop n (((n : Int) - 1) / 256) fuel k).map (·.tileid) = List.range' k ((n + 255) / 256 - k) := by
  induction fuel generalizing k with
  | zero =>
    have : (n + 255) / 256 - k = 0 := by omega
    simp [tileLoop, this]
  | succ fuel ih =>
    simp only [tileLoop]
    by_cases hk : k * 256 < n
    · rw [if_pos (by omega)]
      simp only [List.map_cons, ih (k + 1) (by omega), (tileGeom_spec n k hk).1]
      have : (n + 255) / 256 - k = ((n + 255) / 256 - (k + 1)) + 1 := by omega
      rw [this, List.range'_succ]
    · rw [if_neg (by omega)]
      have : (n + 255) / 256 - k = 0 := by omega
      simp [this]

/-! ### row-info builder -/

theorem pySlice_mid {α} (a b c : List α) (s e : Int) (hs : s = a.length) (he : e = a.length + b.length) :
    pySlice (a ++ b ++ c) (some s) (some e) = b := by
  subst hs he
  unfold pySlice pyClamp
  simp only [List.length_append]
  have h1 : ¬ ((a.length : Int) < 0) := by omega
  have h2 : ¬ ((a.length : Int) + (b.length : Int) < 0) := by omega
  simp only [if_neg h1, if_neg h2]
  have h3 : ¬ ((a.length : Int) > ((a.length + b.length + c.length : Nat) : Int)) := by push_cast; omega
  have h4 : ¬ ((a.length : Int) + (b.length : Int) > ((a.length + b.length + c.length : Nat) : Int)) := by push_cast; omega
  rw [if_neg h3, if_neg h4]
  have h5 : ((a.length : Int) + (b.length : Int)).toNat = a.length + b.length := by omega
  simp only [Int.toNat_natCast, h5]
  rw [List.append_assoc, List.drop_left]
  have : a.length + b.length - a.length = b.length := by omega
  rw [this, List.take_left]

theorem rowInfoGo_nextEnd (r : List (Option Bytes)) (cur L : Nat) (hcur : cur % 4 = 0) :
    nextEnd L ((rowInfoGo r cur).offsets.map (· * 4)) = if r.all Option.isNone then (L : Int) else cur := by
  induction r with
  | nil => rfl
  | cons x r ih =>
    cases x with
    | none =>
      simp only [rowInfoGo, List.map_cons, nextEnd, List.all_cons, Option.isNone_none, Bool.true_and]
      rw [if_neg (by omega), ih]
    | some b =>
      simp only [rowInfoGo, List.map_cons, nextEnd, List.all_cons, Option.isNone_some, Bool.false_and]
      rw [if_pos (by omega)]
      simp only [Bool.false_eq_true, if_false]
      omega

theorem rowInfoGo_all_none (r : List (Option Bytes)) (cur : Nat) (h : r.all Option.isNone = true) :
    (rowInfoGo r cur).storage = [] := by
  induction r with
  | nil => rfl
  | cons x r ih =>
    cases x with
    | none => simp only [List.all_cons, Option.isNone_none, Bool.true_and] at h; simpa [rowInfoGo] using ih h
    | some b => simp at h

theorem rowCells_rowInfoGo (cells : List (Option Bytes)) (pre : Bytes)
    (h4 : ∀ b, some b ∈ cells → b.length % 4 = 0) (hpre : pre.length % 4 = 0) :
    rowCells (pre ++ (rowInfoGo cells pre.length).storage) ((rowInfoGo cells pre.length).offsets.map (· * 4))
      cells.length = cells := by
  induction cells generalizing pre with
  | nil => rfl
  | cons x r ih =>
    have h4r : ∀ b, some b ∈ r → b.length % 4 = 0 := fun b hb => h4 b (List.mem_cons_of_mem _ hb)
    cases x with
    | none =>
      simp only [rowInfoGo, List.map_cons, List.length_cons, rowCells]
      rw [if_pos (by omega), ih pre h4r hpre]
    | some b =>
      have hb : b.length % 4 = 0 := h4 b (by simp)
      simp only [rowInfoGo, List.map_cons, List.length_cons, rowCells]
      have hstart : ¬ ((((pre.length / 4 : Nat) : Int)) * 4 < 0) := by omega
      rw [if_neg hstart]
      have hpl : (pre ++ b).length = pre.length + b.length := List.length_append
      have htail := ih (pre ++ b) h4r (by rw [hpl]; omega)
      rw [hpl, List.append_assoc] at htail
      rw [htail]
      congr 2
      rw [rowInfoGo_nextEnd r (pre.length + b.length) _ (by omega)]
      rw [← List.append_assoc]
      apply pySlice_mid
      · omega
      · by_cases hall : r.all Option.isNone = true
        · rw [if_pos hall, rowInfoGo_all_none r _ hall]
          simp only [List.append_nil, List.length_append]
          push_cast; rfl
        · rw [if_neg hall]; push_cast; rfl

theorem rowInfoGo_shape (cells : List (Option Bytes)) (cur : Nat) :
    (rowInfoGo cells cur).offsets.length = cells.length ∧
    (rowInfoGo cells cur).cellCount = (cells.filterMap id).length ∧
    (rowInfoGo cells cur).storage = (cells.filterMap id).flatten := by
  induction cells generalizing cur with
  | nil => simp [rowInfoGo]
  | cons x r ih =>
    cases x with
    | none =>
      obtain ⟨h1, h2, h3⟩ := ih cur
      simp [rowInfoGo, h1, h2, h3]
    | some b =>
      obtain ⟨h1, h2, h3⟩ := ih (cur + b.length)
      simp [rowInfoGo, h1, h2, h3]

/-- where each record starts: at the total length of the records before it -/
theorem rowInfoGo_offset (cells : List (Option Bytes)) (cur : Nat) (col : Nat) (b : Bytes)
    (h : cells[col]? = some (some b)) :
    (rowInfoGo cells cur).offsets[col]? =
      some (((cur + ((cells.take col).filterMap id).flatten.length) / 4 : Nat) : Int) := by
  induction cells generalizing cur col with
  | nil => simp at h
  | cons x r ih =>
    cases col with
    | zero =>
      simp only [List.getElem?_cons_zero, Option.some.injEq] at h
      subst h
      simp [rowInfoGo]
    | succ col =>
      simp only [List.getElem?_cons_succ] at h
      cases x with
      | none =>
        simp only [rowInfoGo, List.getElem?_cons_succ, ih cur col h, List.take_succ_cons, List.filterMap_cons, id]
      | some c =>
        simp only [rowInfoGo, List.getElem?_cons_succ, ih (cur + c.length) col h, List.take_succ_cons,
          List.filterMap_cons, id, List.flatten_cons, List.length_append]
        congr 3; omega

end NumbersModel.ObjStore
