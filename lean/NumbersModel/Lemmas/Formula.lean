import NumbersModel.Model.Formula
import NumbersModel.Lemmas.A1
namespace NumbersModel.Formula
open NumbersModel NumbersModel.A1

/-! ### the machine -/

theorem exec_append (a b : List Node) (st : List Text) :
    exec (a ++ b) st = (exec a st).bind (exec b) := by
  induction a generalizing st with
  | nil => rfl
  | cons n ns ih =>
    simp only [List.cons_append, exec]
    cases h : step n st with
    | error e => rfl
    | ok st' => simp only [bind, Except.bind]; exact ih st'

theorem exec_single (n : Node) (st : List Text) : exec [n] st = step n st := by
  simp only [exec]
  cases step n st <;> rfl

/-! ### one lemma per node type: the handler as dispatched through the generated tables -/

theorem step_op (op : BinOp) (a b : Text) (st : List Text) :
    step { ty := opType op } (b :: a :: st) = .ok ((a ++ glyph op ++ b) :: st) := by
  cases op <;> rfl

theorem step_neg (a : Text) (st : List Text) : step { ty := 13 } (a :: st) = .ok (('-' :: a) :: st) := rfl
theorem step_pct (a : Text) (st : List Text) : step { ty := 15 } (a :: st) = .ok ((a ++ ['%']) :: st) := rfl
theorem step_str (s : Text) (st : List Text) : step { ty := 19, str := s } st = .ok (quoteLit s :: st) := rfl
theorem step_bool (b : Bool) (st : List Text) : step { ty := 18, boolVal := b } st = .ok (boolText b :: st) := rfl
theorem step_token (b : Bool) (st : List Text) :
    step { ty := 23, hasTokenBool := true, tokenBool := b } st = .ok (boolText b :: st) := rfl
theorem step_ref (t : Text) (st : List Text) : step { ty := 36, refText := t } st = .ok (t :: st) := rfl
theorem step_empty (st : List Text) : step { ty := 22 } st = .ok ([] :: st) := rfl
theorem step_date (m : Int) (st : List Text) :
    step { ty := 20, dateMicros := m } st = (dateText m).bind (fun t => .ok (t :: st)) := rfl
theorem step_number (n : Node) (h : n.ty = 17) (st : List Text) : step n st = numberH n st := by
  cases n; simp only at h; subst h; rfl
theorem step_list (k : Nat) (st : List Text) :
    step { ty := 25, listNumArgs := k } st = listH { ty := 25, listNumArgs := k } st := rfl
theorem step_function (f k : Nat) (st : List Text) :
    step { ty := 16, fnIndex := f, fnNumArgs := k } st = functionH { ty := 16, fnIndex := f, fnNumArgs := k } st := rfl
theorem step_array (c r : Nat) (st : List Text) :
    step { ty := 24, arrCols := c, arrRows := r } st = arrayH { ty := 24, arrCols := c, arrRows := r } st := rfl

theorem popn_append (xs st : List Text) : popn xs.length (xs ++ st) = .ok (xs, st) := by
  simp [popn]

theorem popn_append' (n : Nat) (xs st : List Text) (h : xs.length = n) : popn n (xs ++ st) = .ok (xs, st) := by
  subst h; exact popn_append xs st


/-! ### number_to_str -/

theorem isAsciiDigit_iff (c : Char) : isAsciiDigit c = true ↔ 48 ≤ c.toNat ∧ c.toNat ≤ 57 := by
  unfold isAsciiDigit
  simp only [decide_eq_true_eq, Char.le_def, UInt32.le_iff_toNat_le]
  have h1 : ('0' : Char).val.toNat = 48 := by decide
  have h2 : ('9' : Char).val.toNat = 57 := by decide
  rw [h1, h2]; rfl

theorem char_ne_of_toNat {c d : Char} (h : c.toNat ≠ d.toNat) : c ≠ d := fun e => h (by rw [e])

theorem digit_ne_e {c : Char} (h : isAsciiDigit c = true) : c ≠ 'e' := by
  rw [isAsciiDigit_iff] at h
  apply char_ne_of_toNat
  have : ('e' : Char).toNat = 101 := by decide
  omega

theorem digit_ne_dot {c : Char} (h : isAsciiDigit c = true) : c ≠ '.' := by
  rw [isAsciiDigit_iff] at h
  apply char_ne_of_toNat
  have : ('.' : Char).toNat = 46 := by decide
  omega

theorem digit_not_punct {c : Char} (h : isAsciiDigit c = true) : ¬ (',' ≤ c ∧ c ≤ '.') := by
  rw [isAsciiDigit_iff] at h
  simp only [Char.le_def, UInt32.le_iff_toNat_le]
  have h2 : ('.' : Char).val.toNat = 46 := by decide
  rw [h2]
  have : c.val.toNat = c.toNat := rfl
  omega

theorem digitChar_isAscii (d : Nat) (h : d < 10) : isAsciiDigit (digitChar d) = true := by
  rw [isAsciiDigit_iff, digitChar_toNat d h]; omega

theorem natStrSpec_all_digits (n : Nat) : ∀ c ∈ natStrSpec n, isAsciiDigit c = true := by
  induction n using Nat.strongRecOn with
  | _ n ih =>
    unfold natStrSpec
    by_cases h : n < 10
    · simp only [h, dite_true, List.mem_singleton]; intro c hc; subst hc; exact digitChar_isAscii n h
    · simp only [h, dite_false, List.mem_append, List.mem_singleton]
      intro c hc
      rcases hc with hc | hc
      · exact ih _ (by omega) c hc
      · subst hc; exact digitChar_isAscii _ (Nat.mod_lt _ (by decide))

theorem natStrSpec_foldl (n : Nat) : ∀ a, (natStrSpec n).foldl (fun a d => a * 10 + (d.toNat - 48)) a
    = a * 10 ^ (natStrSpec n).length + n := by
  induction n using Nat.strongRecOn with
  | _ n ih =>
    intro a
    unfold natStrSpec
    by_cases h : n < 10
    · simp only [h, dite_true, List.foldl_cons, List.foldl_nil, List.length_singleton, digitChar_toNat n h]
      omega
    · simp only [h, dite_false, List.foldl_append, List.foldl_cons, List.foldl_nil, List.length_append,
        List.length_singleton]
      rw [ih _ (by omega) a, digitChar_toNat _ (Nat.mod_lt _ (by decide)), Nat.pow_succ]
      generalize 10 ^ (natStrSpec (n / 10)).length = p
      have : (a * p + n / 10) * 10 + (48 + n % 10 - 48) = a * (p * 10) + n := by
        rw [Nat.add_mul, Nat.mul_assoc]; omega
      exact this

theorem zeros_foldl (k : Nat) (a : Nat) :
    (zeros k).foldl (fun a d => a * 10 + (d.toNat - 48)) a = a * 10 ^ k := by
  induction k generalizing a with
  | zero => simp [zeros]
  | succ k ih =>
    simp only [zeros, List.replicate_succ, List.foldl_cons] at ih ⊢
    have h0 : ('0' : Char).toNat - 48 = 0 := by decide
    rw [h0, ih, Nat.pow_succ, Nat.add_zero, Nat.mul_assoc, Nat.mul_comm 10]

theorem zeros_all_digits (k : Nat) : ∀ c ∈ zeros k, isAsciiDigit c = true := by
  intro c hc
  simp only [zeros, List.mem_replicate] at hc
  rw [hc.2]; decide

theorem pad2_all_digits (n : Nat) : ∀ c ∈ pad2 (natStr n), isAsciiDigit c = true := by
  intro c hc
  unfold pad2 at hc
  rw [natStr_eq] at hc
  split at hc
  · rcases List.mem_append.1 hc with h | h
    · exact zeros_all_digits _ c h
    · exact natStrSpec_all_digits n c h
  · exact natStrSpec_all_digits n c hc

theorem digitsVal_pad2 (n : Nat) : digitsVal (pad2 (natStr n)) = n := by
  unfold pad2 digitsVal
  rw [natStr_eq]
  split
  · rw [List.foldl_append, zeros_foldl, natStrSpec_foldl]; simp
  · rw [natStrSpec_foldl]; simp

theorem pad2_ne_nil (n : Nat) : pad2 (natStr n) ≠ [] := by
  unfold pad2
  rw [natStr_eq]
  have : natStrSpec n ≠ [] := by
    unfold natStrSpec; split <;> simp
  split
  · simp [this]
  · exact this

theorem all_of_forall {p : Char → Bool} {l : List Char} (h : ∀ c ∈ l, p c = true) : l.all p = true := by
  simpa [List.all_eq_true] using h

theorem pyInt_signed (neg : Bool) (n : Nat) :
    pyInt ((if neg then '-' else '+') :: pad2 (natStr n)) = .ok (if neg then -(n : Int) else (n : Int)) := by
  have hall := all_of_forall (pad2_all_digits n)
  have hne := pad2_ne_nil n
  cases neg <;> simp [pyInt, hall, hne, digitsVal_pad2]

theorem splitOn_no_sep (sep : Char) (s : Text) (h : ∀ c ∈ s, c ≠ sep) : splitOn sep s = [s] := by
  induction s with
  | nil => rfl
  | cons c r ih =>
    have hc : c ≠ sep := h c (by simp)
    have hr := ih (fun x hx => h x (by simp [hx]))
    simp [splitOn, hc, hr]

theorem splitOn_mid (sep : Char) (a b : Text) (ha : ∀ c ∈ a, c ≠ sep) (hb : ∀ c ∈ b, c ≠ sep) :
    splitOn sep (a ++ sep :: b) = [a, b] := by
  induction a with
  | nil => simp [splitOn, splitOn_no_sep sep b hb]
  | cons c r ih =>
    have hc : c ≠ sep := ha c (by simp)
    have hr := ih (fun x hx => ha x (by simp [hx]))
    simp [splitOn, hc, hr]

theorem stripPunct_digits (s : Text) (h : ∀ c ∈ s, isAsciiDigit c = true) : stripPunct s = s := by
  unfold stripPunct
  apply List.filter_eq_self.2
  intro c hc
  exact decide_eq_true (digit_not_punct (h c hc))

theorem afterDot_digits (s : Text) (h : ∀ c ∈ s, isAsciiDigit c = true) : afterDot s = [] := by
  induction s with
  | nil => rfl
  | cons c r ih =>
    have hc := digit_ne_dot (h c (by simp))
    simp [afterDot, hc, ih (fun x hx => h x (by simp [hx]))]

/-- the mantissa text `i` or `i.f` -/
def mantissa (i : Char) (f : List Char) : Text := i :: (if f = [] then [] else '.' :: f)

theorem sciRepr_eq (i : Char) (f : List Char) (e : Int) :
    sciRepr i f e = mantissa i f ++ 'e' :: (if e < 0 then '-' else '+') :: pad2 (natStr e.natAbs) := by
  simp [sciRepr, mantissa]

theorem mantissa_no_e (i : Char) (f : List Char) (hi : isAsciiDigit i = true)
    (hf : ∀ c ∈ f, isAsciiDigit c = true) : ∀ c ∈ mantissa i f, c ≠ 'e' := by
  intro c hc
  unfold mantissa at hc
  by_cases hfn : f = []
  · simp [hfn] at hc; subst hc; exact digit_ne_e hi
  · simp only [hfn, if_false, List.mem_cons] at hc
    rcases hc with h | h | h
    · subst h; exact digit_ne_e hi
    · subst h; decide
    · exact digit_ne_e (hf c h)

theorem mantissa_strip (i : Char) (f : List Char) (hi : isAsciiDigit i = true)
    (hf : ∀ c ∈ f, isAsciiDigit c = true) : stripPunct (mantissa i f) = i :: f := by
  have hip := digit_not_punct hi
  unfold mantissa
  by_cases hfn : f = []
  · subst hfn; simp only [if_true]
    exact stripPunct_digits [i] (by simpa using hi)
  · simp only [hfn, if_false]
    have h1 : stripPunct f = f := stripPunct_digits f hf
    unfold stripPunct at h1 ⊢
    have hdot : decide (¬ (',' ≤ '.' ∧ '.' ≤ '.')) = false := by decide
    have hi' : decide (¬ (',' ≤ i ∧ i ≤ '.')) = true := decide_eq_true hip
    simp only [List.filter_cons, hdot, hi', if_true, Bool.false_eq_true, if_false, h1]

theorem mantissa_afterDot (i : Char) (f : List Char) (hi : isAsciiDigit i = true) :
    afterDot (mantissa i f) = f := by
  have := digit_ne_dot hi
  unfold mantissa
  by_cases hfn : f = []
  · subst hfn; simp [afterDot, this]
  · simp [hfn, afterDot, this]

theorem sign_pad_no_e (neg : Bool) (n : Nat) :
    ∀ c ∈ (if neg then '-' else '+') :: pad2 (natStr n), c ≠ 'e' := by
  intro c hc
  rcases List.mem_cons.1 hc with h | h
  · subst h; cases neg <;> decide
  · exact digit_ne_e (pad2_all_digits n c h)

theorem contains_mid (a b : Text) (c : Char) : (a ++ c :: b).contains c = true := by
  simp [List.contains_iff_mem]

/-- the PROPOSED `number_to_str` on every exponent-form `repr` is the plain decimal text of the spec. -/
theorem numberToStrFixed_sci (i : Char) (f : List Char) (e : Int) (h : sciShape i f e = true) :
    numberToStrFixed (sciRepr i f e) = .ok (numText (.sci i f e)) := by
  simp only [sciShape, Bool.and_eq_true, List.all_eq_true, bne_iff_ne, ne_eq] at h
  obtain ⟨⟨hi, hf⟩, _⟩ := h
  rw [sciRepr_eq]
  unfold numberToStrFixed
  have hsign : (if e < 0 then '-' else '+') = (if decide (e < 0) then '-' else '+') := by
    by_cases he : e < 0 <;> simp [he]
  rw [hsign]
  rw [contains_mid, if_pos rfl,
    splitOn_mid 'e' _ _ (mantissa_no_e i f hi hf) (sign_pad_no_e (decide (e < 0)) e.natAbs)]
  simp only [bind, Except.bind, pyInt_signed, mantissa_strip i f hi hf, mantissa_afterDot i f hi]
  by_cases he : e < 0
  · have h1 : ¬ (-(e.natAbs : Int) > 0) := by omega
    have h2 : ¬ (e > 0) := by omega
    simp only [he, decide_true, if_true, h1, if_false, numText, h2, Int.natAbs_neg, Int.natAbs_natCast,
      List.cons_append]
  · by_cases hpos : e > 0
    · have h1 : ((e.natAbs : Int) > 0) := by omega
      have h3 : (e.natAbs : Int).toNat = e.toNat := by omega
      simp only [he, decide_false, Bool.false_eq_true, if_false, h1, if_true, numText, hpos, h3, List.cons_append]
    · have h1 : ¬ ((e.natAbs : Int) > 0) := by omega
      simp only [he, decide_false, Bool.false_eq_true, if_false, h1, numText, hpos, Int.natAbs_natCast,
        List.cons_append]

/-- the pinned `number_to_str` on the exponent-form reprs it handles faithfully (`sciOk`). -/
theorem numberToStr_sci (i : Char) (f : List Char) (e : Int) (h : sciOk i f e = true) :
    numberToStr (sciRepr i f e) = .ok (numText (.sci i f e)) := by
  simp only [sciOk, sciShape, Bool.and_eq_true, List.all_eq_true, bne_iff_ne, ne_eq, Bool.or_eq_true,
    decide_eq_true_eq] at h
  obtain ⟨⟨⟨hi, hf⟩, _⟩, hdom⟩ := h
  rw [sciRepr_eq]
  unfold numberToStr
  have hsign : (if e < 0 then '-' else '+') = (if decide (e < 0) then '-' else '+') := by
    by_cases he : e < 0 <;> simp [he]
  rw [hsign]
  rw [contains_mid, if_pos rfl,
    splitOn_mid 'e' _ _ (mantissa_no_e i f hi hf) (sign_pad_no_e (decide (e < 0)) e.natAbs)]
  simp only [bind, Except.bind, pyInt_signed, mantissa_strip i f hi hf]
  by_cases he : e < 0
  · have h1 : ¬ (-(e.natAbs : Int) > 0) := by omega
    have h2 : ¬ (e > 0) := by omega
    simp only [he, decide_true, if_true, h1, if_false, numText, h2, Int.natAbs_neg, Int.natAbs_natCast,
      List.cons_append]
  · have hf1 : f.length = 1 := hdom.resolve_left he
    by_cases hpos : e > 0
    · have h1 : ((e.natAbs : Int) > 0) := by omega
      have h3 : (e.natAbs : Int).natAbs - 1 = e.toNat - f.length := by omega
      simp only [he, decide_false, Bool.false_eq_true, if_false, h1, if_true, numText, hpos, h3, List.cons_append]
    · have h1 : ¬ ((e.natAbs : Int) > 0) := by omega
      simp only [he, decide_false, Bool.false_eq_true, if_false, h1, numText, hpos, Int.natAbs_natCast,
        List.cons_append]

theorem numberToStr_plain (r : Text) (h : r.contains 'e' = false) : numberToStr r = .ok r := by
  simp only [numberToStr, h, Bool.false_eq_true, if_false]

theorem numberH_numNode (lit : NumLit) (st : List Text) (h : WellFormed (.num lit) = true) :
    numberH (numNode lit) st = .ok (numText lit :: st) := by
  cases lit with
  | int n => simp [numberH, numNode, numText]
  | plain r =>
    have hr : r.contains 'e' = false := by simpa [WellFormed] using h
    simp [numberH, numNode, numText, numberToStr_plain r hr, bind, Except.bind]
  | sci i f e =>
    have hs : sciOk i f e = true := by simpa [WellFormed] using h
    simp [numberH, numNode, numText, numberToStr_sci i f e hs, bind, Except.bind]



/-! ### arrays -/

theorem chunks_snoc (r c : Nat) (ys zs : List Text) (hy : ys.length = r * c) (hz : zs.length = c) :
    chunks (r + 1) c (ys ++ zs) = chunks r c ys ++ [zs] := by
  induction r generalizing ys with
  | zero =>
    have : ys = [] := by simpa using hy
    subst this
    simp [chunks, ← hz]
  | succ r ih =>
    have hlen : c ≤ ys.length := by rw [hy, Nat.succ_mul]; omega
    have h1 : (ys ++ zs).take c = ys.take c := by
      rw [List.take_append_of_le_length hlen]
    have h2 : (ys ++ zs).drop c = ys.drop c ++ zs := by
      rw [List.drop_append_of_le_length hlen]
    have h3 : (ys.drop c).length = r * c := by
      rw [List.length_drop, hy, Nat.succ_mul]; omega
    conv => lhs; unfold chunks
    rw [h1, h2, ih _ h3]
    conv => rhs; unfold chunks
    rfl

theorem arrayRows_spec (r c : Nat) (xs : List Text) (st rows : List Text) (h : xs.length = r * c) :
    arrayRows r c (xs.reverse ++ st) rows =
      .ok (rows ++ ((chunks r c xs).map (join [','])).reverse, st) := by
  induction r generalizing xs rows with
  | zero =>
    have : xs = [] := by simpa using h
    subst this
    simp [arrayRows, chunks]
  | succ r ih =>
    have hsplit : xs = xs.take (r * c) ++ xs.drop (r * c) := (List.take_append_drop _ _).symm
    have hy : (xs.take (r * c)).length = r * c := by
      rw [List.length_take, h, Nat.succ_mul]; omega
    have hz : (xs.drop (r * c)).length = c := by
      rw [List.length_drop, h, Nat.succ_mul]; omega
    generalize xs.take (r * c) = ys at hsplit hy
    generalize xs.drop (r * c) = zs at hsplit hz
    subst hsplit
    rw [chunks_snoc r c ys zs hy hz]
    unfold arrayRows
    rw [List.reverse_append, List.append_assoc,
      popn_append' c zs.reverse (ys.reverse ++ st) (by simpa using hz)]
    simp only [bind, Except.bind, List.reverse_reverse]
    rw [ih ys _ hy]
    simp

/-! ### the refinement theorem -/

theorem exec_snoc (ns : List Node) (n : Node) (st st' : List Text) (h : exec ns st = .ok st') :
    exec (ns ++ [n]) st = step n st' := by
  rw [exec_append, h]; simp only [Except.bind]; exact exec_single n st'

theorem renderList_length (es : List Expr) : (renderList es).length = es.length := by
  induction es with
  | nil => rfl
  | cons e es ih => simp [renderList, ih]

theorem dateText_ok (m : Int) (h : WellFormed (.date m) = true) : dateText m = .ok (dateSpec m) := by
  simp only [WellFormed, decide_eq_true_eq] at h
  unfold dateText dateSpec
  have : ¬ (epochOrdinal + m / 86400000000 < 1 ∨ epochOrdinal + m / 86400000000 > maxOrdinal) := by omega
  simp only [this, if_false]

mutual
theorem exec_compile_aux : ∀ (e : Expr) (st : List Text), WellFormed e = true →
    exec (compile e) st = .ok (render e :: st)
  | .num n, st, h => by
    simp only [compile, render, exec_single]
    rw [step_number _ (by cases n <;> rfl)]
    exact numberH_numNode n st h
  | .str s, st, _ => by simp only [compile, render, exec_single, step_str]
  | .bool false b, st, _ => by simp only [compile, render, exec_single, step_bool]
  | .bool true b, st, _ => by simp only [compile, render, exec_single, step_token]
  | .date m, st, h => by
    simp only [compile, render, exec_single, step_date, dateText_ok m h, Except.bind]
  | .ref t, st, _ => by simp only [compile, render, exec_single, step_ref]
  | .empty, st, _ => by simp only [compile, render, exec_single, step_empty]
  | .bin op l r, st, h => by
    simp only [WellFormed, Bool.and_eq_true] at h
    have hl := exec_compile_aux l st h.1
    have hr := exec_compile_aux r (render l :: st) h.2
    simp only [compile, render]
    rw [exec_snoc _ _ st (render r :: render l :: st) (by rw [exec_append, hl]; exact hr), step_op]
  | .neg e, st, h => by
    simp only [WellFormed] at h
    simp only [compile, render]
    rw [exec_snoc _ _ st _ (exec_compile_aux e st h), step_neg]
  | .pct e, st, h => by
    simp only [WellFormed] at h
    simp only [compile, render]
    rw [exec_snoc _ _ st _ (exec_compile_aux e st h), step_pct]
  | .paren es, st, h => by
    simp only [WellFormed] at h
    simp only [compile, render]
    rw [exec_snoc _ _ st _ (exec_compileList_aux es st h), step_list]
    unfold listH
    simp only []
    rw [popn_append' _ _ _ (by simp [renderList_length])]
    simp [bind, Except.bind]
  | .call f args, st, h => by
    simp only [WellFormed] at h
    simp only [compile, render]
    rw [exec_snoc _ _ st _ (exec_compileList_aux args st h), step_function]
    unfold functionH
    have hlen : ((renderList args).reverse ++ st).length < args.length ↔ False := by
      simp [renderList_length]
    simp only [hlen, if_false]
    rw [popn_append' _ _ _ (by simp [renderList_length])]
    simp [bind, Except.bind]
  | .arr c r es, st, h => by
    simp only [WellFormed, Bool.and_eq_true, decide_eq_true_eq] at h
    obtain ⟨⟨hes, hlen⟩, hr⟩ := h
    simp only [compile, render]
    rw [exec_snoc _ _ st _ (exec_compileList_aux es st hes), step_array]
    have hl : (renderList es).length = r * c := by rw [renderList_length, hlen]
    unfold arrayH
    by_cases h1 : r = 1
    · subst h1
      simp only [if_true]
      rw [popn_append' _ _ _ (by simpa using hl)]
      have : chunks 1 c (renderList es) = [renderList es] := by
        simp only [chunks]
        rw [List.take_of_length_le (by omega)]
      simp [bind, Except.bind, this, join]
    · simp only [h1, if_false]
      rw [arrayRows_spec r c (renderList es) st [] hl]
      simp [bind, Except.bind]
theorem exec_compileList_aux : ∀ (es : List Expr) (st : List Text), WellFormedList es = true →
    exec (compileList es) st = .ok ((renderList es).reverse ++ st)
  | [], st, _ => by simp [compileList, renderList, exec]
  | e :: es, st, h => by
    simp only [WellFormedList, Bool.and_eq_true] at h
    simp only [compileList, renderList]
    rw [exec_append, exec_compile_aux e st h.1]
    simp only [Except.bind]
    rw [exec_compileList_aux es (render e :: st) h.2]
    simp
end



/-! ### literals -/

theorem scanBody_double (s rest : Text) (h : rest.head? ≠ some '"') :
    scanBody (doubleQuotes s ++ '"' :: rest) = some (s, rest) := by
  induction s with
  | nil =>
    cases rest with
    | nil => rfl
    | cons c r =>
      have hc : c ≠ '"' := by simpa using h
      simp [doubleQuotes, scanBody, hc]
  | cons c s ih =>
    by_cases hc : c = '"'
    · subst hc
      simp only [doubleQuotes, if_true, List.cons_append]
      rw [scanBody, ih]; rfl
    · simp only [doubleQuotes, hc, if_false, List.cons_append]
      unfold scanBody
      split
      · rename_i heq; simp at heq
      · rename_i heq; injection heq with h1 _; exact absurd h1 hc
      · rename_i heq; injection heq with h1 _; exact absurd h1 hc
      · rename_i heq; injection heq with h1 h2; subst h1; subst h2; rw [ih]; rfl

theorem scanString_quoteLit (s rest : Text) (h : rest.head? ≠ some '"') :
    scanString (quoteLit s ++ rest) = some (s, rest) := by
  simp only [quoteLit, List.cons_append, List.append_assoc, scanString]
  exact scanBody_double s rest h

theorem digitsVal_zeros_append (k : Nat) (x : Text) : digitsVal (zeros k ++ x) = digitsVal x := by
  unfold digitsVal
  rw [List.foldl_append, zeros_foldl]; simp

theorem digitsVal_append_zeros (x : Text) (k : Nat) : digitsVal (x ++ zeros k) = digitsVal x * 10 ^ k := by
  unfold digitsVal
  rw [List.foldl_append, zeros_foldl]

theorem decValue_int (x : Text) (hx : x ≠ []) (hd : ∀ c ∈ x, isAsciiDigit c = true) :
    decValue x = some (digitsVal x, 0) := by
  unfold decValue
  rw [splitOn_no_sep '.' x (fun c hc => digit_ne_dot (hd c hc))]
  simp [hx, all_of_forall hd]

theorem decValue_frac (a b : Text) (ha : a ≠ []) (hda : ∀ c ∈ a, isAsciiDigit c = true)
    (hdb : ∀ c ∈ b, isAsciiDigit c = true) :
    decValue (a ++ '.' :: b) = some (digitsVal (a ++ b), b.length) := by
  unfold decValue
  rw [splitOn_mid '.' a b (fun c hc => digit_ne_dot (hda c hc)) (fun c hc => digit_ne_dot (hdb c hc))]
  have : ∀ c ∈ a ++ b, isAsciiDigit c = true := by
    intro c hc; rcases List.mem_append.1 hc with h | h
    · exact hda c h
    · exact hdb c h
  simp only [ha, ne_eq, not_false_eq_true, all_of_forall this, and_self, if_true]

/-- value preservation of the PROPOSED `number_to_str` on exponent-form reprs: the plain text `t` it returns has
    decimal value `n / 10^k` equal to the stored `D × 10^e / 10^|f|` (D = the digits `i f`). -/
theorem numberToStrFixed_value (i : Char) (f : List Char) (e : Int) (h : sciShape i f e = true)
    (hrepr : e > 0 → (f.length : Int) ≤ e) :
    ∃ t n k, numberToStrFixed (sciRepr i f e) = .ok t ∧ decValue t = some (n, k) ∧
      n * 10 ^ (f.length + (-e).toNat) = digitsVal (i :: f) * 10 ^ (k + e.toNat) := by
  have h' := h
  simp only [sciShape, Bool.and_eq_true, List.all_eq_true, bne_iff_ne, ne_eq] at h'
  obtain ⟨⟨hi, hf⟩, he0⟩ := h'
  have hdig : ∀ c ∈ i :: f, isAsciiDigit c = true := by
    intro c hc; rcases List.mem_cons.1 hc with h1 | h1
    · subst h1; exact hi
    · exact hf c h1
  refine ⟨numText (.sci i f e), ?_⟩
  by_cases hpos : e > 0
  · refine ⟨digitsVal (i :: f) * 10 ^ (e.toNat - f.length), 0, numberToStrFixed_sci i f e h, ?_, ?_⟩
    · simp only [numText, hpos, if_true]
      have hall : ∀ c ∈ i :: f ++ zeros (e.toNat - f.length), isAsciiDigit c = true := by
        intro c hc
        rcases List.mem_append.1 hc with h1 | h1
        · exact hdig c h1
        · exact zeros_all_digits _ c h1
      rw [decValue_int _ (by simp) hall, digitsVal_append_zeros]
    · have h1 := hrepr hpos
      have h2 : (-e).toNat = 0 := by omega
      have h3 : e.toNat - f.length + f.length = e.toNat := by omega
      rw [h2, Nat.add_zero, Nat.zero_add, Nat.mul_assoc, ← Nat.pow_add, h3]
  · have hneg : e < 0 := by omega
    refine ⟨digitsVal (i :: f), f.length + e.natAbs, numberToStrFixed_sci i f e h, ?_, ?_⟩
    · simp only [numText, hpos, if_false]
      have hb : ∀ c ∈ zeros (e.natAbs - 1) ++ i :: f, isAsciiDigit c = true := by
        intro c hc
        rcases List.mem_append.1 hc with h1 | h1
        · exact zeros_all_digits _ c h1
        · exact hdig c h1
      have := decValue_frac ['0'] (zeros (e.natAbs - 1) ++ i :: f) (by simp) (by simp; decide) hb
      simp only [List.singleton_append, List.cons_append, List.nil_append] at this ⊢
      rw [this]
      have hz : ('0' : Char) :: (zeros (e.natAbs - 1) ++ i :: f) = zeros (e.natAbs - 1 + 1) ++ i :: f := by
        simp [zeros, List.replicate_succ]
      rw [hz, digitsVal_zeros_append]
      simp only [List.length_append, List.length_cons, zeros, List.length_replicate]
      congr 2
      omega
    · have h2 : (-e).toNat = e.natAbs := by omega
      have h3 : e.toNat = 0 := by omega
      rw [h2, h3, Nat.add_zero]



/-- value preservation of the pinned `number_to_str` on the reprs it handles faithfully. -/
theorem numberToStr_value (i : Char) (f : List Char) (e : Int) (h : sciOk i f e = true) :
    ∃ t n k, numberToStr (sciRepr i f e) = .ok t ∧ decValue t = some (n, k) ∧
      n * 10 ^ (f.length + (-e).toNat) = digitsVal (i :: f) * 10 ^ (k + e.toNat) := by
  have h' := h
  simp only [sciOk, Bool.and_eq_true, Bool.or_eq_true, decide_eq_true_eq] at h'
  obtain ⟨hshape, hdom⟩ := h'
  have hrepr : e > 0 → (f.length : Int) ≤ e := by
    intro hpos
    have : f.length = 1 := hdom.resolve_left (by omega)
    omega
  obtain ⟨t, n, k, h1, h2, h3⟩ := numberToStrFixed_value i f e hshape hrepr
  refine ⟨t, n, k, ?_, h2, h3⟩
  rw [numberToStr_sci i f e h]
  rw [numberToStrFixed_sci i f e hshape] at h1
  exact h1

theorem functionNames_nodup : (Gen.FUNCTION_MAP.map Prod.snd).Nodup := by decide +kernel
theorem functionIds_nodup : (Gen.FUNCTION_MAP.map Prod.fst).Nodup := by decide +kernel

end NumbersModel.Formula
