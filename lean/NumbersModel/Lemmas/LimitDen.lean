/-
C13 — `Fraction.limit_denominator` (CPython 3.12, modelled in Model/NumFmt.lean as `limitLoop` / `limitDenominator`):
for a fraction in lowest terms the loop always returns (no ZeroDivisionError, the fuel suffices), the result has a
denominator in `1 … max_denominator`, is in lowest terms, and is a best approximation: no fraction with a denominator
`≤ max_denominator` is strictly closer.  Elementary proof over `Int` (continued-fraction identities carried as a loop
invariant; the optimality argument writes a competitor in the basis of the two candidates).
-/
import NumbersModel.Lemmas.NumFmt
import Mathlib.Tactic.Linarith
import Mathlib.Tactic.Ring
import Mathlib.Tactic.LinearCombination
namespace NumbersModel.NumFmt
open NumbersModel

/-- loop invariant after at least one iteration: the continued-fraction identities
    `p1·n + p0·d = num`, `q1·n + q0·d = den`, `p1·q0 − p0·q1 = ±1`, and the size relations. -/
structure LoopInv (M num den p0 q0 p1 q1 n d : Int) : Prop where
  hp : p1 * n + p0 * d = num
  hq : q1 * n + q0 * d = den
  det : p1 * q0 - p0 * q1 = 1 ∨ p1 * q0 - p0 * q1 = -1
  d0 : 0 ≤ d
  dn : d < n
  q0nn : 0 ≤ q0
  q01 : q0 ≤ q1
  q1pos : 1 ≤ q1
  q1M : q1 ≤ M

theorem sub_ediv_mul (n d : Int) : n - n / d * d = n % d := by
  rw [Int.emod_def, Int.mul_comm]

/-- one iteration preserves the invariant. -/
theorem LoopInv.step {M num den p0 q0 p1 q1 n d : Int} (h : LoopInv M num den p0 q0 p1 q1 n d) (hd : d ≠ 0)
    (hq2 : q0 + n / d * q1 ≤ M) :
    LoopInv M num den p1 q1 (p0 + n / d * p1) (q0 + n / d * q1) d (n - n / d * d) := by
  obtain ⟨hp, hq, det, d0, dn, q0nn, q01, q1pos, q1M⟩ := h
  have hdpos : 0 < d := by omega
  have ha : 1 ≤ n / d := Int.le_ediv_of_mul_le hdpos (by omega)
  refine ⟨?_, ?_, ?_, ?_, ?_, by omega, ?_, ?_, hq2⟩
  · rw [← hp]; ring
  · rw [← hq]; ring
  · rcases det with h | h
    · right; have : (p0 + n / d * p1) * q1 - p1 * (q0 + n / d * q1) = -(p1 * q0 - p0 * q1) := by ring
      rw [this, h]
    · left; have : (p0 + n / d * p1) * q1 - p1 * (q0 + n / d * q1) = -(p1 * q0 - p0 * q1) := by ring
      rw [this, h]; rfl
  · rw [sub_ediv_mul]; exact Int.emod_nonneg _ hd
  · rw [sub_ediv_mul]; exact Int.emod_lt_of_pos _ hdpos
  · nlinarith
  · nlinarith

/-- `d = 0` is impossible while `q1 ≤ M < den` for a fraction in lowest terms: no ZeroDivisionError. -/
theorem LoopInv.d_ne_zero {M num den p0 q0 p1 q1 n d : Int} (h : LoopInv M num den p0 q0 p1 q1 n d)
    (hcop : Int.gcd num den = 1) (hM : M < den) : d ≠ 0 := by
  intro hd
  obtain ⟨hp, hq, _, _, dn, _, _, _, q1M⟩ := h
  subst hd
  simp only [Int.mul_zero, Int.add_zero] at hp hq
  have h1 : n ∣ num := ⟨p1, by rw [← hp]; ring⟩
  have h2 : n ∣ den := ⟨q1, by rw [← hq]; ring⟩
  have h3 : n.natAbs ∣ Int.gcd num den := Nat.dvd_gcd (Int.natAbs_dvd_natAbs.mpr h1) (Int.natAbs_dvd_natAbs.mpr h2)
  rw [hcop] at h3
  have h4 : n.natAbs = 1 := Nat.dvd_one.mp h3
  have h5 : n = 1 := by omega
  subst h5
  omega

/-- the state at which the loop breaks. -/
structure ExitState (M num den p0 q0 p1 q1 n d : Int) : Prop where
  inv : LoopInv M num den p0 q0 p1 q1 n d
  dpos : 0 < d
  over : q0 + n / d * q1 > M

/-- **termination**: with the invariant established the loop returns within `d + 1` iterations. -/
theorem limitLoop_returns (M num den : Int) (hcop : Int.gcd num den = 1) (hM : M < den) (fuel : Nat) :
    ∀ p0 q0 p1 q1 n d, LoopInv M num den p0 q0 p1 q1 n d → d.toNat < fuel →
      limitLoop M fuel p0 q0 p1 q1 n d = .ok (p0, q0, p1, q1, n, d) ∧ ExitState M num den p0 q0 p1 q1 n d ∨
      ∃ p0' q0' p1' q1' n' d', limitLoop M fuel p0 q0 p1 q1 n d = .ok (p0', q0', p1', q1', n', d') ∧
        ExitState M num den p0' q0' p1' q1' n' d' := by
  induction fuel with
  | zero => intro _ _ _ _ _ _ _ h; omega
  | succ f ih =>
    intro p0 q0 p1 q1 n d hinv hf
    have hd := hinv.d_ne_zero hcop hM
    have hdpos : 0 < d := by have := hinv.d0; omega
    unfold limitLoop
    simp only [hd, if_false]
    by_cases hq2 : q0 + n / d * q1 > M
    · simp only [hq2, if_true]
      exact Or.inl ⟨trivial, hinv, hdpos, hq2⟩
    · simp only [hq2, if_false]
      have hstep := hinv.step hd (by omega)
      have hlt : (n - n / d * d).toNat < f := by
        have h1 := hstep.dn
        have h2 := hstep.d0
        omega
      rcases ih _ _ _ _ _ _ hstep hlt with ⟨h1, h2⟩ | ⟨a, b, c, e, g, i, h1, h2⟩
      · exact Or.inr ⟨_, _, _, _, _, _, h1, h2⟩
      · exact Or.inr ⟨_, _, _, _, _, _, h1, h2⟩

/-- the loop started by `limit_denominator` (state `0, 1, 1, 0, num, den`) returns an exit state. -/
theorem limitLoop_start (M num den : Int) (hcop : Int.gcd num den = 1) (hM1 : 1 ≤ M) (hM : M < den) :
    ∃ p0 q0 p1 q1 n d, limitLoop M (den.toNat + 2) 0 1 1 0 num den = .ok (p0, q0, p1, q1, n, d) ∧
      ExitState M num den p0 q0 p1 q1 n d := by
  have hfuel : den.toNat + 2 = (den.toNat + 1) + 1 := rfl
  rw [hfuel]
  unfold limitLoop
  have hd0 : den ≠ 0 := by omega
  have hden : 0 < den := by omega
  simp only [hd0, if_false, Int.mul_zero, Int.add_zero, Int.mul_one, Int.zero_add]
  have h1M : ¬ (1 > M) := by omega
  simp only [h1M, if_false]
  have hinv : LoopInv M num den 1 0 (num / den) 1 den (num - num / den * den) := by
    refine ⟨by ring, by ring, Or.inr (by ring), ?_, ?_, by omega, by omega, by omega, hM1⟩
    · rw [sub_ediv_mul]; exact Int.emod_nonneg _ hd0
    · rw [sub_ediv_mul]; exact Int.emod_lt_of_pos _ hden
  have hlt : (num - num / den * den).toNat < den.toNat + 1 := by
    have h1 := hinv.dn
    have h2 := hinv.d0
    omega
  rcases limitLoop_returns M num den hcop hM _ _ _ _ _ _ _ hinv hlt with ⟨h1, h2⟩ | h
  · exact ⟨_, _, _, _, _, _, h1, h2⟩
  · exact h

/-! ### optimality -/

/-- a competitor `w = α·q1 + β·Q` (denominators of the two candidates, `q1 + Q > M ≥ w ≥ 1`) whose error is
    `|β·e1 − α·d|` is at least as far as one of the candidates (errors `d` over `q1`, `e1` over `Q`). -/
theorem best_core (q1 Q e1 d α β w M tAbs T : Int) (hq1 : 1 ≤ q1) (hQ : 1 ≤ Q) (hsum : M < q1 + Q) (he1 : 0 < e1)
    (hd : 0 ≤ d) (hw : w = α * q1 + β * Q) (hw1 : 1 ≤ w) (hwM : w ≤ M) (hT : T = β * e1 - α * d)
    (ht1 : T ≤ tAbs) (ht2 : -T ≤ tAbs) :
    d * w ≤ tAbs * q1 ∨ e1 * w ≤ tAbs * Q := by
  by_cases ha : α ≤ 0
  · by_cases hb : β ≤ 0
    · exfalso
      have h1 : α * q1 ≤ 0 := Int.mul_nonpos_of_nonpos_of_nonneg ha (by omega)
      have h2 : β * Q ≤ 0 := Int.mul_nonpos_of_nonpos_of_nonneg hb (by omega)
      omega
    · right
      have hb1 : 1 ≤ β := by omega
      -- tAbs ≥ T = β e1 − α d ;  (β e1 − α d) Q ≥ e1 (α q1 + β Q)
      have h1 : 0 ≤ -α * d * Q := by
        have : 0 ≤ -α := by omega
        exact Int.mul_nonneg (Int.mul_nonneg this hd) (by omega)
      have h2 : e1 * (α * q1) ≤ 0 := by
        have : α * q1 ≤ 0 := Int.mul_nonpos_of_nonpos_of_nonneg ha (by omega)
        exact Int.mul_nonpos_of_nonneg_of_nonpos (by omega) this
      have h3 : T * Q ≤ tAbs * Q := Int.mul_le_mul_of_nonneg_right ht1 (by omega)
      have h4 : T * Q = e1 * w + (-α * d * Q) - e1 * (α * q1) := by rw [hT, hw]; ring
      omega
  · by_cases hb : β ≤ 0
    · left
      have ha1 : 1 ≤ α := by omega
      have h1 : 0 ≤ -β * e1 * q1 := by
        have : 0 ≤ -β := by omega
        exact Int.mul_nonneg (Int.mul_nonneg this (by omega)) (by omega)
      have h2 : d * (β * Q) ≤ 0 := by
        have : β * Q ≤ 0 := Int.mul_nonpos_of_nonpos_of_nonneg hb (by omega)
        exact Int.mul_nonpos_of_nonneg_of_nonpos hd this
      have h3 : -T * q1 ≤ tAbs * q1 := Int.mul_le_mul_of_nonneg_right ht2 (by omega)
      have h4 : -T * q1 = d * w + (-β * e1 * q1) - d * (β * Q) := by rw [hT, hw]; ring
      omega
    · exfalso
      have ha1 : 1 ≤ α := by omega
      have hb1 : 1 ≤ β := by omega
      have h1 : q1 ≤ α * q1 := by nlinarith
      have h2 : Q ≤ β * Q := by nlinarith
      omega

/-- the result of `limit_denominator` from an exit state, and what is true of it. -/
theorem exit_best (M num den p0 q0 p1 q1 n d : Int)
    (h : ExitState M num den p0 q0 p1 q1 n d) :
    let k := (M - q0) / q1
    let p := if 2 * d * (q0 + k * q1) ≤ den then p1 else p0 + k * p1
    let q := if 2 * d * (q0 + k * q1) ≤ den then q1 else q0 + k * q1
    1 ≤ q ∧ q ≤ M ∧ (∃ x y : Int, p * x + q * y = 1) ∧
    ∀ u w : Int, 1 ≤ w → w ≤ M → ((num * q - den * p).natAbs : Int) * w ≤ ((num * w - den * u).natAbs : Int) * q := by
  intro k p q
  obtain ⟨⟨hp, hq, det, d0, dn, q0nn, q01, q1pos, q1M⟩, dpos, over⟩ := h
  -- the second candidate
  have hk0 : 0 ≤ k := Int.ediv_nonneg (by omega) (by omega)
  have hkm : k * q1 ≤ M - q0 := Int.ediv_mul_le _ (by omega)
  have hkM : M - q0 < (k + 1) * q1 := Int.lt_ediv_add_one_mul_self _ (by omega)
  have hQM : q0 + k * q1 ≤ M := by omega
  have hsum : M < q1 + (q0 + k * q1) := by
    have : (k + 1) * q1 = k * q1 + q1 := by ring
    omega
  have hQ1 : 1 ≤ q0 + k * q1 := by
    by_cases hq0 : q0 = 0
    · subst hq0
      have : 1 ≤ k := by
        by_contra hk
        have : k = 0 := by omega
        rw [this] at hkM; omega
      nlinarith
    · have := Int.mul_nonneg hk0 (show 0 ≤ q1 by omega)
      omega
  -- k < a
  have ha_def : n / d * d ≤ n := Int.ediv_mul_le _ (by omega)
  have hka : k + 1 ≤ n / d := by
    by_contra hlt
    have h1 : n / d ≤ k := by omega
    have h2 : n / d * q1 ≤ k * q1 := Int.mul_le_mul_of_nonneg_right h1 (by omega)
    omega
  have he1 : 0 < n - k * d := by
    have h1 : (k + 1) * d ≤ n / d * d := Int.mul_le_mul_of_nonneg_right hka (by omega)
    have h2 : (k + 1) * d = k * d + d := by ring
    omega
  have hden : den = (n - k * d) * q1 + d * (q0 + k * q1) := by rw [← hq]; ring
  -- both candidates are in lowest terms (Bézout certificates from the determinant)
  have bez1 : ∃ x y : Int, p1 * x + q1 * y = 1 := by
    rcases det with h | h
    · exact ⟨q0, -p0, by linear_combination h⟩
    · exact ⟨-q0, p0, by linear_combination -h⟩
  have bez2 : ∃ x y : Int, (p0 + k * p1) * x + (q0 + k * q1) * y = 1 := by
    rcases det with h | h
    · exact ⟨-q1, p1, by linear_combination h⟩
    · exact ⟨q1, -p1, by linear_combination -h⟩
  -- errors of the two candidates
  have hE2 : num * q1 - den * p1 = -(p1 * q0 - p0 * q1) * d := by rw [← hp, ← hq]; ring
  have hE1 : num * (q0 + k * q1) - den * (p0 + k * p1) = (p1 * q0 - p0 * q1) * (n - k * d) := by rw [← hp, ← hq]; ring
  have habs2 : ((num * q1 - den * p1).natAbs : Int) = d := by
    rcases det with h | h <;> rw [hE2, h] <;> omega
  have habs1 : ((num * (q0 + k * q1) - den * (p0 + k * p1)).natAbs : Int) = n - k * d := by
    rcases det with h | h <;> rw [hE1, h] <;> omega
  -- a competitor
  have hcomp : ∀ u w : Int, 1 ≤ w → w ≤ M →
      d * w ≤ ((num * w - den * u).natAbs : Int) * q1 ∨
      (n - k * d) * w ≤ ((num * w - den * u).natAbs : Int) * (q0 + k * q1) := by
    intro u w hw1 hwM
    rcases det with h | h
    · -- D = 1 : α = u Q − w P, β = w p1 − u q1, X = T
      have hX : num * w - den * u = (w * p1 - u * q1) * (n - k * d) - (u * (q0 + k * q1) - w * (p0 + k * p1)) * d := by
        rw [← hp, ← hq]; ring
      have hwr : w = (u * (q0 + k * q1) - w * (p0 + k * p1)) * q1 + (w * p1 - u * q1) * (q0 + k * q1) := by
        linear_combination (-w) * h
      exact best_core q1 (q0 + k * q1) (n - k * d) d _ _ w M _ _ q1pos hQ1 hsum he1 d0 hwr hw1 hwM rfl
        (by rw [← hX]; omega) (by rw [← hX]; omega)
    · -- D = −1 : α = w P − u Q, β = u q1 − w p1, X = −T
      have hX : num * w - den * u = -((u * q1 - w * p1) * (n - k * d) - (w * (p0 + k * p1) - u * (q0 + k * q1)) * d) := by
        rw [← hp, ← hq]; ring
      have hwr : w = (w * (p0 + k * p1) - u * (q0 + k * q1)) * q1 + (u * q1 - w * p1) * (q0 + k * q1) := by
        linear_combination w * h
      exact best_core q1 (q0 + k * q1) (n - k * d) d _ _ w M _ _ q1pos hQ1 hsum he1 d0 hwr hw1 hwM rfl
        (by rw [hX]; omega) (by rw [hX]; omega)
  by_cases hc : 2 * d * (q0 + k * q1) ≤ den
  · -- the convergent p1/q1 is returned: d·Q ≤ e1·q1
    have hp' : p = p1 := if_pos hc
    have hq' : q = q1 := if_pos hc
    rw [hp', hq']
    refine ⟨q1pos, q1M, bez1, fun u w hw1 hwM => ?_⟩
    rw [habs2]
    rcases hcomp u w hw1 hwM with h1 | h1
    · exact h1
    · -- tAbs·Q ≥ e1·w ≥ … ; cancel Q
      have hle : d * (q0 + k * q1) ≤ (n - k * d) * q1 := by
        have : 2 * d * (q0 + k * q1) = d * (q0 + k * q1) + d * (q0 + k * q1) := by ring
        omega
      have h2 : (d * w) * (q0 + k * q1) ≤ (((num * w - den * u).natAbs : Int) * q1) * (q0 + k * q1) := by
        have h3 : d * (q0 + k * q1) * w ≤ (n - k * d) * q1 * w := Int.mul_le_mul_of_nonneg_right hle (by omega)
        have h4 : (n - k * d) * w * q1 ≤ ((num * w - den * u).natAbs : Int) * (q0 + k * q1) * q1 :=
          Int.mul_le_mul_of_nonneg_right h1 (by omega)
        have e1 : d * w * (q0 + k * q1) = d * (q0 + k * q1) * w := by ring
        have e2 : (n - k * d) * q1 * w = (n - k * d) * w * q1 := by ring
        have e3 : ((num * w - den * u).natAbs : Int) * (q0 + k * q1) * q1 =
            ((num * w - den * u).natAbs : Int) * q1 * (q0 + k * q1) := by ring
        omega
      exact Int.le_of_mul_le_mul_right h2 (by omega)
  · -- the semiconvergent is returned: d·Q > e1·q1
    have hp' : p = p0 + k * p1 := if_neg hc
    have hq' : q = q0 + k * q1 := if_neg hc
    rw [hp', hq']
    refine ⟨hQ1, hQM, bez2, fun u w hw1 hwM => ?_⟩
    rw [habs1]
    rcases hcomp u w hw1 hwM with h1 | h1
    · have hlt : (n - k * d) * q1 ≤ d * (q0 + k * q1) := by
        have : 2 * d * (q0 + k * q1) = d * (q0 + k * q1) + d * (q0 + k * q1) := by ring
        omega
      have h2 : ((n - k * d) * w) * q1 ≤ (((num * w - den * u).natAbs : Int) * (q0 + k * q1)) * q1 := by
        have h3 : (n - k * d) * q1 * w ≤ d * (q0 + k * q1) * w := Int.mul_le_mul_of_nonneg_right hlt (by omega)
        have h4 : d * w * (q0 + k * q1) ≤ ((num * w - den * u).natAbs : Int) * q1 * (q0 + k * q1) :=
          Int.mul_le_mul_of_nonneg_right h1 (by omega)
        have e1 : (n - k * d) * w * q1 = (n - k * d) * q1 * w := by ring
        have e2 : d * (q0 + k * q1) * w = d * w * (q0 + k * q1) := by ring
        have e3 : ((num * w - den * u).natAbs : Int) * q1 * (q0 + k * q1) =
            ((num * w - den * u).natAbs : Int) * (q0 + k * q1) * q1 := by ring
        omega
      exact Int.le_of_mul_le_mul_right h2 (by omega)
    · exact h1

/-- **`Fraction(num, den).limit_denominator(M)`** for a fraction in lowest terms, `den ≥ 1`, `M ≥ 1`: it returns; the
    denominator is in `1 … M`; the result is in lowest terms; no fraction `u/w` with `1 ≤ w ≤ M` is strictly closer to
    `num/den` (`|num/den − p/q| ≤ |num/den − u/w|`, cross-multiplied by the positive `den·q·w`). -/
theorem limitDenominator_spec (M num den : Int) (hM1 : 1 ≤ M) (hden : 0 < den) (hcop : Int.gcd num den = 1) :
    ∃ p q, limitDenominator M num den = .ok (p, q) ∧ 1 ≤ q ∧ q ≤ M ∧ (∃ x y : Int, p * x + q * y = 1) ∧
      ∀ u w : Int, 1 ≤ w → w ≤ M →
        ((num * q - den * p).natAbs : Int) * w ≤ ((num * w - den * u).natAbs : Int) * q := by
  unfold limitDenominator
  by_cases hle : den ≤ M
  · simp only [hle, if_true]
    refine ⟨num, den, rfl, by omega, hle, ?_, fun u w hw1 _ => ?_⟩
    · -- Bézout from gcd = 1
      have := Int.gcd_eq_gcd_ab num den
      rw [hcop] at this
      exact ⟨Int.gcdA num den, Int.gcdB num den, by rw [← this]; rfl⟩
    · have : num * den - den * num = 0 := by ring
      rw [this]
      show ((0 : Int).natAbs : Int) * w ≤ _
      simp only [Int.natAbs_zero, Int.ofNat_zero, Int.zero_mul, Nat.cast_zero]
      exact Int.mul_nonneg (Int.natCast_nonneg _) (by omega)
  · simp only [hle, if_false]
    obtain ⟨p0, q0, p1, q1, n, d, hl, hex⟩ := limitLoop_start M num den hcop hM1 (by omega)
    rw [hl]
    simp only [bind, Except.bind]
    have hb := exit_best M num den p0 q0 p1 q1 n d hex
    simp only at hb
    split
    · rename_i hc
      simp only [hc, if_true] at hb
      exact ⟨_, _, rfl, hb⟩
    · rename_i hc
      simp only [hc, if_false] at hb
      exact ⟨_, _, rfl, hb⟩

/-- `_float_to_n_digit_fraction` never raises for a value given in lowest terms. -/
theorem fractionDigits_returns (maxDigits : Nat) (hd : 1 ≤ maxDigits) (num : Int) (den : Nat) (hden : 0 < den)
    (hcop : Int.gcd num den = 1) : ∃ t, fractionDigits maxDigits num den = .ok t := by
  have h10 : (10 : Int) ≤ 10 ^ maxDigits := by
    calc (10 : Int) = 10 ^ 1 := by norm_num
      _ ≤ 10 ^ maxDigits := pow_le_pow_right₀ (by norm_num) hd
  obtain ⟨p, q, h, _⟩ := limitDenominator_spec ((10 : Int) ^ maxDigits - 1) num den (by omega) (by exact_mod_cast hden) hcop
  unfold fractionDigits
  rw [h]
  exact ⟨_, rfl⟩

end NumbersModel.NumFmt
