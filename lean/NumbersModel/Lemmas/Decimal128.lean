import NumbersModel.Model.Decimal128
import NumbersModel.Lemmas.Struct
namespace NumbersModel.Decimal128
open NumbersModel

/-! ### the byte-OR loop -/

/-- OR the little-endian bytes of `m` into successive bytes of a buffer. -/
def orFrom : Bytes → Nat → Bytes
  | [], _ => []
  | b :: r, m => UInt8.ofNat (b.toNat ||| (m % 256)) :: orFrom r (m / 256)

theorem orFrom_zero (l : Bytes) : orFrom l 0 = l := by
  induction l with
  | nil => rfl
  | cons b r ih => simp [orFrom, ih]

theorem getElem?_append_length {α} (pre : List α) (b : α) (post : List α) :
    (pre ++ b :: post)[pre.length]? = some b := by
  induction pre with
  | nil => rfl
  | cons a r ih => simpa using ih

theorem set_append_length {α} (pre : List α) (b v : α) (post : List α) :
    (pre ++ b :: post).set pre.length v = pre ++ v :: post := by
  induction pre with
  | nil => rfl
  | cons a r ih => simp [ih]

theorem orByte_at (pre : Bytes) (b : UInt8) (post : Bytes) (x : Nat) (hx : x < 256) :
    orByte (pre ++ b :: post) pre.length x = .ok (pre ++ UInt8.ofNat (b.toNat ||| x) :: post) := by
  unfold orByte
  rw [getElem?_append_length]
  have hb := b.toNat_lt
  have h8 : (2:Nat) ^ 8 = 256 := by decide
  have : b.toNat ||| x < 2 ^ 8 := Nat.or_lt_two_pow (by omega) (by omega)
  have h2 : ¬ (b.toNat ||| x > 255) := by omega
  simp only [h2, if_false, set_append_length]

theorem packLoop_zip (fuel : Nat) (pre post : Bytes) (m : Nat) (hf : m < fuel)
    (hm : m < 256 ^ post.length) :
    packLoop fuel (pre ++ post) pre.length m = .ok (pre ++ orFrom post m) := by
  induction fuel generalizing pre post m with
  | zero => omega
  | succ fuel ih =>
    unfold packLoop
    by_cases h1 : m ≥ 1
    · simp only [h1, if_true]
      cases post with
      | nil => simp at hm; omega
      | cons b post' =>
        have hand : m &&& 0xFF = m % 256 := Nat.and_two_pow_sub_one_eq_mod m 8
        have hshr : m >>> 8 = m / 256 := Nat.shiftRight_eq_div_pow m 8
        rw [hand, hshr, orByte_at pre b post' (m % 256) (Nat.mod_lt _ (by decide))]
        simp only [bind, Except.bind]
        have hlen : (pre ++ [UInt8.ofNat (b.toNat ||| m % 256)]).length = pre.length + 1 := by simp
        have e : pre ++ UInt8.ofNat (b.toNat ||| m % 256) :: post'
            = (pre ++ [UInt8.ofNat (b.toNat ||| m % 256)]) ++ post' := by simp
        rw [e, ← hlen, ih (pre ++ [UInt8.ofNat (b.toNat ||| m % 256)]) post' (m / 256)]
        · simp [orFrom]
        · have : m / 256 < m := Nat.div_lt_self (by omega) (by decide)
          omega
        · simp only [List.length_cons, Nat.pow_succ] at hm
          exact Nat.div_lt_of_lt_mul (by rw [Nat.mul_comm]; exact hm)
    · have : m = 0 := by omega
      subst this
      simp [orFrom_zero]

theorem orFrom_zeros (k : Nat) (tail : Bytes) (m : Nat) :
    orFrom (List.replicate k 0 ++ tail) m = leBytes k m ++ orFrom tail (m / 256 ^ k) := by
  induction k generalizing m with
  | zero => simp [leBytes]
  | succ k ih =>
    simp only [List.replicate_succ, List.cons_append, orFrom, leBytes, ih]
    have : m / 256 / 256 ^ k = m / 256 ^ (k + 1) := by
      rw [Nat.div_div_eq_div_mul, Nat.pow_succ, Nat.mul_comm]
    simp [this]

/-! ### the accumulation loop of the unpacker -/

theorem unpackLoop_reverse (l : Bytes) (t : Nat) :
    unpackLoop l.reverse t = t * 256 ^ l.length + leNat l := by
  induction l generalizing t with
  | nil => simp [unpackLoop, leNat]
  | cons b r ih =>
    have app : ∀ (a c : Bytes) (t : Nat), unpackLoop (a ++ c) t = unpackLoop c (unpackLoop a t) := by
      intro a
      induction a with
      | nil => intro c t; rfl
      | cons x a iha => intro c t; simp [unpackLoop, iha]
    rw [List.reverse_cons, app, ih]
    simp only [unpackLoop, leNat, List.length_cons, Nat.pow_succ]
    rw [Nat.add_mul, Nat.mul_assoc]
    omega

/-! ### bit-level facts on bytes (finite, closed by evaluation) -/

theorem hiByte_facts : ∀ h, h < 128 → ∀ s : Bool,
    (h ||| (if s then 0x80 else 0)) < 256 ∧
    ((h ||| (if s then 0x80 else 0)) &&& 0x7F = h) ∧
    (((h ||| (if s then 0x80 else 0)) &&& 0x80 != 0) = s) := by decide +kernel

theorem loByte_facts : ∀ l, l < 128 → ∀ t, t < 2 →
    ((l <<< 1) ||| t) < 256 ∧ (((l <<< 1) ||| t) >>> 1 = l) ∧ (((l <<< 1) ||| t) &&& 1 = t) := by
  decide +kernel

theorem join_exp (h l : Nat) (hl : l < 128) : (h <<< 7 ||| l) = h * 128 + l := by
  have := Nat.shiftLeft_add_eq_or_of_lt (i := 7) (b := l) (by simpa using hl) h
  rw [← this, Nat.shiftLeft_eq]

theorem pyIndex_nat {α} (l : List α) (i : Nat) (h : i < l.length) : pyIndex l (i : Int) = .ok l[i] := by
  unfold pyIndex
  have h1 : ¬ ((i : Int) < 0) := by omega
  have h2 : ¬ ((i : Int) < 0 ∨ (i : Int) ≥ (l.length : Int)) := by omega
  simp [h1, h2, h]

/-! ### the packer in closed form -/

/-- byte 14: low seven exponent bits shifted left, coefficient bit 112 in bit 0. -/
def byte14 (E m : Nat) : UInt8 := UInt8.ofNat (((E &&& 0x7F) <<< 1) ||| (m / 2 ^ 112))
/-- byte 15: high seven exponent bits, sign in bit 7. -/
def byte15 (E : Nat) (s : Bool) : UInt8 := UInt8.ofNat ((E >>> 7) ||| (if s then 0x80 else 0))

theorem pack_closed (d : Dec) (E : Nat) (hE : d.exp + (Gen.DECIMAL128_BIAS : Int) = (E : Int))
    (hE2 : E < 2 ^ 14) (hc : d.coeff < 2 ^ 113) :
    pack d = .ok (leBytes 14 d.coeff ++ [byte14 E d.coeff, byte15 E d.sign]) := by
  have h14 : (2:Nat) ^ 14 = 16384 := by decide
  have h113 : (2:Nat) ^ 113 = 2 * 2 ^ 112 := by rw [← Nat.pow_succ']
  have h256 : (256:Nat) ^ 14 = 2 ^ 112 := by decide
  have hhi : E >>> 7 < 128 := by rw [Nat.shiftRight_eq_div_pow]; omega
  have hlo : E &&& 0x7F < 128 := by
    have := Nat.and_two_pow_sub_one_eq_mod E 7
    have e : (2:Nat) ^ 7 - 1 = 0x7F := by decide
    rw [e] at this; rw [this]; exact Nat.mod_lt _ (by decide)
  have hq : d.coeff / 2 ^ 112 < 2 := by
    apply Nat.div_lt_of_lt_mul; omega
  obtain ⟨lo1, -, -⟩ := loByte_facts (E &&& 0x7F) hlo 0 (by decide)
  unfold pack
  simp only [hE, bind, Except.bind, pure, Except.pure]
  have hsh : ((E : Int) >>> 7) = ((E >>> 7 : Nat) : Int) := by
    rw [Int.shiftRight_eq_div_pow, Nat.shiftRight_eq_div_pow]; norm_cast
  rw [hsh]
  have c1 : ¬ (((E >>> 7 : Nat) : Int) < 0 ∨ ((E >>> 7 : Nat) : Int) > 255) := by omega
  simp only [c1, if_false, Int.toNat_natCast]
  -- buffer[15] |= exp >> 7
  have s1 : orByte (List.replicate 16 (0 : UInt8)) 15 (E >>> 7)
      = .ok (List.replicate 15 (0 : UInt8) ++ [UInt8.ofNat (E >>> 7)]) := by
    have := orByte_at (List.replicate 15 (0 : UInt8)) (0 : UInt8) [] (E >>> 7) (by omega)
    simpa using this
  rw [s1]
  simp only []
  -- buffer[14] |= (exp & 0x7F) << 1
  have s2 : orByte (List.replicate 15 (0 : UInt8) ++ [UInt8.ofNat (E >>> 7)]) 14 ((E &&& 0x7F) <<< 1)
      = .ok (List.replicate 14 (0 : UInt8) ++ [UInt8.ofNat ((E &&& 0x7F) <<< 1), UInt8.ofNat (E >>> 7)]) := by
    have := orByte_at (List.replicate 14 (0 : UInt8)) (0 : UInt8) [UInt8.ofNat (E >>> 7)] ((E &&& 0x7F) <<< 1)
      (by simpa using lo1)
    simpa [List.replicate_succ'] using this
  rw [s2]
  simp only []
  -- the loop
  have s3 := packLoop_zip (d.coeff + 1) []
    (List.replicate 14 (0 : UInt8) ++ [UInt8.ofNat ((E &&& 0x7F) <<< 1), UInt8.ofNat (E >>> 7)]) d.coeff (by omega)
    (by
      have : (256:Nat) ^ 16 = 2 ^ 128 := by decide
      simp only [List.length_append, List.length_replicate, List.length_cons, List.length_nil, this]
      calc d.coeff < 2 ^ 113 := hc
        _ ≤ 2 ^ 128 := Nat.pow_le_pow_right (by decide) (by decide))
  simp only [List.nil_append, List.length_nil] at s3
  rw [s3, orFrom_zeros]
  simp only [orFrom, h256]
  have q1 : d.coeff / 2 ^ 112 % 256 = d.coeff / 2 ^ 112 := Nat.mod_eq_of_lt (by omega)
  have q2 : d.coeff / 2 ^ 112 / 256 % 256 = 0 := by
    have : d.coeff / 2 ^ 112 / 256 = 0 := Nat.div_eq_of_lt (by omega)
    rw [this]
  have t1 : (UInt8.ofNat ((E &&& 0x7F) <<< 1)).toNat = (E &&& 0x7F) <<< 1 := by
    rw [UInt8.toNat_ofNat']; exact Nat.mod_eq_of_lt (by simpa using lo1)
  have t2 : (UInt8.ofNat (E >>> 7)).toNat = E >>> 7 := by
    rw [UInt8.toNat_ofNat']; exact Nat.mod_eq_of_lt (by omega)
  rw [q1, q2, t1, t2, Nat.or_zero]
  cases hs : d.sign
  · simp [byte14, byte15]
  · simp only [if_true]
    have := orByte_at (leBytes 14 d.coeff ++ [UInt8.ofNat ((E &&& 0x7F) <<< 1 ||| d.coeff / 2 ^ 112)])
      (UInt8.ofNat (E >>> 7)) [] 0x80 (by decide)
    simp only [List.length_append, leBytes_length, List.length_cons, List.length_nil, t2,
      List.append_assoc, List.cons_append, List.nil_append] at this
    rw [this]
    simp [byte14, byte15]

theorem unpack_closed (m E : Nat) (s : Bool) (hE2 : E < 2 ^ 14) (hc : m < 2 ^ 113) :
    unpack (leBytes 14 m ++ [byte14 E m, byte15 E s])
      = .ok { sign := s, coeff := m, exp := (E : Int) - (Gen.DECIMAL128_BIAS : Int) } := by
  have h14 : (2:Nat) ^ 14 = 16384 := by decide
  have h113 : (2:Nat) ^ 113 = 2 * 2 ^ 112 := by rw [← Nat.pow_succ']
  have h256 : (256:Nat) ^ 14 = 2 ^ 112 := by decide
  have hhi : E >>> 7 < 128 := by rw [Nat.shiftRight_eq_div_pow]; omega
  have hand : E &&& 0x7F = E % 128 := Nat.and_two_pow_sub_one_eq_mod E 7
  have hlo : E &&& 0x7F < 128 := by rw [hand]; exact Nat.mod_lt _ (by decide)
  have hq : m / 2 ^ 112 < 2 := by apply Nat.div_lt_of_lt_mul; omega
  obtain ⟨l1, l2, l3⟩ := loByte_facts (E &&& 0x7F) hlo (m / 2 ^ 112) hq
  obtain ⟨g1, g2, g3⟩ := hiByte_facts (E >>> 7) hhi s
  have len : (leBytes 14 m ++ [byte14 E m, byte15 E s]).length = 16 := by simp [leBytes_length]
  have i15 : pyIndex (leBytes 14 m ++ [byte14 E m, byte15 E s]) 15 = .ok (byte15 E s) := by
    have : pyIndex (leBytes 14 m ++ [byte14 E m, byte15 E s]) (15 : Int)
        = .ok (leBytes 14 m ++ [byte14 E m, byte15 E s])[15] :=
      pyIndex_nat (leBytes 14 m ++ [byte14 E m, byte15 E s]) 15 (by omega)
    rw [this]
    simp [List.getElem_append_right, leBytes_length]
  have i14 : pyIndex (leBytes 14 m ++ [byte14 E m, byte15 E s]) 14 = .ok (byte14 E m) := by
    have : pyIndex (leBytes 14 m ++ [byte14 E m, byte15 E s]) (14 : Int)
        = .ok (leBytes 14 m ++ [byte14 E m, byte15 E s])[14] :=
      pyIndex_nat (leBytes 14 m ++ [byte14 E m, byte15 E s]) 14 (by omega)
    rw [this]
    simp [List.getElem_append_right, leBytes_length]
  have tk : (leBytes 14 m ++ [byte14 E m, byte15 E s]).take 14 = leBytes 14 m := by
    have := List.take_left (l₁ := leBytes 14 m) (l₂ := [byte14 E m, byte15 E s])
    rwa [leBytes_length] at this
  have v14 : (byte14 E m).toNat = ((E &&& 0x7F) <<< 1) ||| (m / 2 ^ 112) := by
    unfold byte14; rw [UInt8.toNat_ofNat']; exact Nat.mod_eq_of_lt (by simpa using l1)
  have v15 : (byte15 E s).toNat = (E >>> 7) ||| (if s then 0x80 else 0) := by
    unfold byte15; rw [UInt8.toNat_ofNat']; exact Nat.mod_eq_of_lt (by simpa using g1)
  unfold unpack
  simp only [i15, i14, tk, bind, Except.bind, pure, Except.pure, v14, v15, l2, l3, g2, g3,
    unpackLoop_reverse, leBytes_length, leNat_leBytes, h256]
  have hcoef : m / 2 ^ 112 * 2 ^ 112 + m % 2 ^ 112 = m := by
    rw [Nat.mul_comm]; exact Nat.div_add_mod m (2 ^ 112)
  have hexp : (E >>> 7) <<< 7 ||| (E &&& 0x7F) = E := by
    rw [join_exp _ _ hlo, hand, Nat.shiftRight_eq_div_pow]
    have : (2:Nat) ^ 7 = 128 := by decide
    rw [this]; omega
  rw [hcoef, hexp]

end NumbersModel.Decimal128
