/-
Equivalence of the definitions that `harness/py2lean.py` regenerates from the Python source on every
check run (`Gen/TrNumFmt.lean`) with the hand-written model functions the property theorems are stated
about.  When the Python source of one of these functions changes, the generated definition changes and
the corresponding `…_eq_model` theorem here is re-checked by the kernel against what the code says now.
-/
import NumbersModel.Gen.TrNumFmt
import NumbersModel.Model.NumFmt
import Mathlib.Tactic.Ring

namespace NumbersModel.Translated
open NumbersModel NumbersModel.Gen.T

/-! ### `_format_fraction_parts_to` -/

theorem intStr_nat (n : Nat) : intStr (n : Int) = natStr n := by
  have : ¬ ((n : Int) < 0) := by omega
  simp only [intStr, this, if_false, Int.toNat_natCast]

theorem fraction_core (sign : Text) (w n den : Nat) :
    (do
      let (whole, numerator) : (Int × Int) ← (if (decide ((n : Int) = (den : Int))) then (do
          let (whole, numerator) : (Int × Int) := (((w : Int) + (1 : Int)), (0 : Int))
          pure (whole, numerator)
        ) else (do
          pure ((w : Int), (n : Int))
        ) : PyM (Int × Int))
      if (decide (whole > (0 : Int))) then
        if (decide (numerator = (0 : Int))) then
          pure (sign ++ (intStr whole))
        else
          pure (sign ++ (intStr whole) ++ ([' '] : Text) ++ (intStr numerator) ++ (['/'] : Text) ++ (intStr (den : Int)))
      else
        if (decide (numerator = (0 : Int))) then
          pure (['0'] : Text)
        else
          pure (sign ++ (intStr numerator) ++ (['/'] : Text) ++ (intStr (den : Int))) : PyM Text)
    = .ok (
      let (w, n) := if n = den then (w + 1, 0) else (w, n)
      if w > 0 then
        if n = 0 then sign ++ natStr w
        else sign ++ natStr w ++ [' '] ++ natStr n ++ ['/'] ++ natStr den
      else if n = 0 then ['0']
      else sign ++ natStr n ++ ['/'] ++ natStr den) := by
  by_cases hnd : n = den
  · subst hnd
    have e : ((w : Int) + 1) = ((w + 1 : Nat) : Int) := by omega
    have h1 : ((w + 1 : Nat) : Int) > 0 := by omega
    simp only [decide_true, if_true, bind, Except.bind, pure, Except.pure, e, h1, intStr_nat]
    have : w + 1 > 0 := by omega
    simp [this]
  · have h1 : ¬ ((n : Int) = (den : Int)) := by omega
    simp only [h1, hnd, decide_false, Bool.false_eq_true, if_false, bind, Except.bind, pure, Except.pure, intStr_nat]
    by_cases hw : w > 0
    · have hw' : (w : Int) > 0 := by omega
      by_cases hn : n = 0
      · subst hn; simp [hw, hw']
      · have hn' : ¬ ((n : Int) = 0) := by omega
        simp [hw, hw', hn, hn']
    · have hw' : ¬ (w : Int) > 0 := by omega
      by_cases hn : n = 0
      · subst hn; simp [hw, hw']
      · have hn' : ¬ ((n : Int) = 0) := by omega
        simp [hw, hw', hn, hn']

theorem format_fraction_parts_to_eq_model (whole numerator : Int) (den : Nat) :
    format_fraction_parts_to whole numerator (den : Int) = .ok (NumFmt.fractionParts whole numerator den) := by
  unfold format_fraction_parts_to NumFmt.fractionParts
  have hsign : (decide (whole < 0) || decide (numerator < 0)) = decide (whole < 0 ∨ numerator < 0) := by
    by_cases a : whole < 0 <;> by_cases b : numerator < 0 <;> simp [a, b]
  rw [hsign]
  have h := fraction_core (if whole < 0 ∨ numerator < 0 then ['-'] else []) whole.natAbs numerator.natAbs den
  simp only [decide_eq_true_eq] at h ⊢
  exact h

end NumbersModel.Translated
