/-
Equivalence of the definitions that `harness/py2lean.py` regenerates from the Python source on every
check run (`Gen/TrNumFmt.lean`) with the hand-written model functions the property theorems are stated
about.  When the Python source of one of these functions changes, the generated definition changes and
the corresponding `…_eq_model` theorem here is re-checked by the kernel against what the code says now.
-/
import NumbersModel.Gen.TrNumFmt
import NumbersModel.Lemmas.NumFmt
import Mathlib.Tactic.Ring
import Mathlib.Tactic.IntervalCases

namespace NumbersModel.Translated
open NumbersModel NumbersModel.Gen.T

/-! ### `_format_fraction_parts_to` -/

theorem intStr_nat (n : Nat) : intStr (n : Int) = natStr n := by
  have : ¬ ((n : Int) < 0) := by omega
  simp only [intStr, this, if_false, Int.toNat_natCast]

theorem fraction_core (sign : Text) (w n den : Nat) :
    (do
      let (whole, numerator) : (Int × Int) ← (if (decide ((n : Int) = (den : Int))) then (do
          let (whole, numerator) : (Int × Int) := (((w : Int) + (1 : Int)), (0 : Int))
          pure (whole, numerator)
        ) else (do
          pure ((w : Int), (n : Int))
        ) : PyM (Int × Int))
      if (decide (whole > (0 : Int))) then
        if (decide (numerator = (0 : Int))) then
          pure (sign ++ (intStr whole))
        else
          pure (sign ++ (intStr whole) ++ ([' '] : Text) ++ (intStr numerator) ++ (['/'] : Text) ++ (intStr (den : Int)))
      else
        if (decide (numerator = (0 : Int))) then
          pure (['0'] : Text)
        else
          pure (sign ++ (intStr numerator) ++ (['/'] : Text) ++ (intStr (den : Int))) : PyM Text)
    = .ok (
      let (w, n) := if n = den then (w + 1, 0) else (w, n)
      if w > 0 then
        if n = 0 then sign ++ natStr w
        else sign ++ natStr w ++ [' '] ++ natStr n ++ ['/'] ++ natStr den
      else if n = 0 then ['0']
      else sign ++ natStr n ++ ['/'] ++ natStr den) := by
  by_cases hnd : n = den
  · subst hnd
    have e : ((w : Int) + 1) = ((w + 1 : Nat) : Int) := by omega
    have h1 : ((w + 1 : Nat) : Int) > 0 := by omega
    simp only [decide_true, if_true, bind, Except.bind, pure, Except.pure, e, h1, intStr_nat]
    have : w + 1 > 0 := by omega
    simp [this]
  · have h1 : ¬ ((n : Int) = (den : Int)) := by omega
    simp only [h1, hnd, decide_false, Bool.false_eq_true, if_false, bind, Except.bind, pure, Except.pure, intStr_nat]
    by_cases hw : w > 0
    · have hw' : (w : Int) > 0 := by omega
      by_cases hn : n = 0
      · subst hn; simp [hw, hw']
      · have hn' : ¬ ((n : Int) = 0) := by omega
        simp [hw, hw', hn, hn']
    · have hw' : ¬ (w : Int) > 0 := by omega
      by_cases hn : n = 0
      · subst hn; simp [hw, hw']
      · have hn' : ¬ ((n : Int) = 0) := by omega
        simp [hw, hw', hn, hn']

theorem format_fraction_parts_to_eq_model (whole numerator : Int) (den : Nat) :
    format_fraction_parts_to whole numerator (den : Int) = .ok (NumFmt.fractionParts whole numerator den) := by
  unfold format_fraction_parts_to NumFmt.fractionParts
  have hsign : (decide (whole < 0) || decide (numerator < 0)) = decide (whole < 0 ∨ numerator < 0) := by
    by_cases a : whole < 0 <;> by_cases b : numerator < 0 <;> simp [a, b]
  rw [hsign]
  have h := fraction_core (if whole < 0 ∨ numerator < 0 then ['-'] else []) whole.natAbs numerator.natAbs den
  simp only [decide_eq_true_eq] at h ⊢
  exact h

/-! ### `_twos_complement` (character level, as the code does it) = the arithmetic model `2^bits − a` -/

open NumFmt

/-- bit length, as a well-founded specification -/
def sz (n : Nat) : Nat := if h : n = 0 then 0 else sz (n / 2) + 1
termination_by n
decreasing_by omega

theorem sz_zero : sz 0 = 0 := by unfold sz; simp
theorem sz_pos (n : Nat) (h : n ≠ 0) : sz n = sz (n / 2) + 1 := by rw [sz]; simp [h]

theorem sz_le_iff (k : Nat) : ∀ m, sz m ≤ k ↔ m < 2 ^ k := by
  induction k with
  | zero =>
    intro m
    by_cases h : m = 0
    · subst h; simp [sz_zero]
    · rw [sz_pos m h]; simp; omega
  | succ k ih =>
    intro m
    by_cases h : m = 0
    · subst h; simp [sz_zero]
    · rw [sz_pos m h, Nat.add_le_add_iff_right, ih (m / 2), Nat.pow_succ]
      omega

theorem bitLengthAux_eq (fuel : Nat) : ∀ n k, n < fuel → PyT.bitLengthAux fuel n k = k + sz n := by
  induction fuel with
  | zero => intro n k h; omega
  | succ f ih =>
    intro n k h
    unfold PyT.bitLengthAux
    by_cases hn : n = 0
    · subst hn; simp [sz_zero]
    · simp only [hn, if_false]
      rw [ih _ _ (by omega), sz_pos n hn]; omega

theorem clog2Aux_eq (a : Nat) (ha : 1 ≤ a) (fuel : Nat) : ∀ k, k ≤ sz (a - 1) → sz (a - 1) < k + fuel →
    clog2Aux fuel a k = sz (a - 1) := by
  induction fuel with
  | zero => intro k h1 h2; omega
  | succ f ih =>
    intro k h1 h2
    unfold clog2Aux
    by_cases hk : 2 ^ k ≥ a
    · simp only [hk, if_true]
      have : sz (a - 1) ≤ k := (sz_le_iff k (a - 1)).mpr (by omega)
      omega
    · simp only [hk, if_false]
      have : ¬ sz (a - 1) ≤ k := fun h => hk (by have := (sz_le_iff k (a - 1)).mp h; omega)
      exact ih (k + 1) (by omega) (by omega)

theorem sz_le_self (m : Nat) : sz m ≤ m := (sz_le_iff m m).mpr Nat.lt_two_pow_self

theorem clog2_eq_sz (a : Nat) (ha : 1 ≤ a) : clog2 a = sz (a - 1) := by
  unfold clog2
  exact clog2Aux_eq a ha (a + 1) 0 (by omega) (by have := sz_le_self (a - 1); omega)

theorem bitLength_pred (a : Nat) (ha : 1 ≤ a) : PyT.bitLength ((a : Int) - 1) = (clog2 a : Int) := by
  have h1 : ((a : Int) - 1).natAbs = a - 1 := by omega
  unfold PyT.bitLength
  rw [h1, bitLengthAux_eq _ _ _ (by omega), clog2_eq_sz a ha]; simp

/-! digits -/

theorem digitChar_eq_baseChar (d : Nat) (h : d < 10) : PyT.digitChar d = baseChar d := by
  simp [PyT.digitChar, baseChar, h]

theorem digitsAux_eq_toBaseAux (b : Nat) (hb2 : 2 ≤ b) (hb : b ≤ 10) : ∀ fuel n acc,
    PyT.digitsAux b fuel n acc = toBaseAux b fuel n acc := by
  intro fuel
  induction fuel with
  | zero => intro n acc; rfl
  | succ f ih =>
    intro n acc
    unfold PyT.digitsAux toBaseAux
    by_cases hn : n = 0
    · simp [hn]
    · simp only [hn, if_false]
      have : n % b < 10 := by have := Nat.mod_lt n (by omega : b > 0); omega
      rw [digitChar_eq_baseChar _ this, ih]

theorem upper_digitChar (d : Nat) (h : d < 16) :
    (if 'a' ≤ PyT.digitChar d ∧ PyT.digitChar d ≤ 'z' then Char.ofNat ((PyT.digitChar d).toNat - 32) else PyT.digitChar d)
      = baseChar d := by
  interval_cases d <;> decide

theorem upper_digitsAux16 : ∀ fuel n acc,
    PyT.upperAscii (PyT.digitsAux 16 fuel n acc) = toBaseAux 16 fuel n (PyT.upperAscii acc) := by
  intro fuel
  induction fuel with
  | zero => intro n acc; rfl
  | succ f ih =>
    intro n acc
    unfold PyT.digitsAux toBaseAux
    by_cases hn : n = 0
    · simp [hn]
    · simp only [hn, if_false]
      rw [ih]
      congr 1
      simp only [PyT.upperAscii, List.map_cons]
      rw [upper_digitChar _ (Nat.mod_lt n (by omega))]

theorem digitsOfBase_nat (t : Nat) (ht : t ≠ 0) (b : Nat) :
    PyT.digitsOfBase (t : Int) b = .ok (PyT.digitsAux b (t + 1) t []) := by
  have h1 : ¬ ((t : Int) < 0) := by omega
  have h2 : ¬ ((t : Int) = 0) := by omega
  simp [PyT.digitsOfBase, h1, ht]

/-! binary strings -/

def Bin (s : Text) : Prop := ∀ c ∈ s, c = '0' ∨ c = '1'

/-- base-2 reading with an initial accumulator -/
def pb (a : Nat) (s : Text) : Nat := s.foldl (fun a c => a * 2 + charVal c) a

theorem pb_zero_eq (s : Text) : pb 0 s = parseBase 2 s := rfl

theorem pb_append (a : Nat) (s t : Text) : pb a (s ++ t) = pb (pb a s) t := by simp [pb, List.foldl_append]

theorem charVal_01 (c : Char) (h : c = '0' ∨ c = '1') : charVal c = (if c = '1' then 1 else 0) := by
  rcases h with h | h <;> subst h <;> decide

theorem pb_split (s : Text) : ∀ a, pb a s = a * 2 ^ s.length + pb 0 s := by
  induction s with
  | nil => intro a; simp [pb]
  | cons c cs ih =>
    intro a
    have e1 : pb a (c :: cs) = pb (a * 2 + charVal c) cs := rfl
    have e2 : pb 0 (c :: cs) = pb (0 * 2 + charVal c) cs := rfl
    rw [e1, e2, ih (a * 2 + charVal c), ih (0 * 2 + charVal c)]
    simp only [List.length_cons, Nat.pow_succ]
    ring

theorem pb_ones (m : Nat) : ∀ a, pb a (List.replicate m '1') = a * 2 ^ m + (2 ^ m - 1) := by
  induction m with
  | zero => intro a; simp [pb]
  | succ m ih =>
    intro a
    have e1 : pb a (List.replicate (m + 1) '1') = pb (a * 2 + charVal '1') (List.replicate m '1') := rfl
    rw [e1, ih]
    have hc : charVal '1' = 1 := by decide
    have hp : 0 < 2 ^ m := Nat.pow_pos (by omega)
    rw [hc, Nat.pow_succ]
    have : (a * 2 + 1) * 2 ^ m = a * (2 ^ m * 2) + 2 ^ m := by ring
    omega

def flipBit (c : Char) : Char := if c = '1' then '0' else '1'

theorem invert_eq (s : Text) : invert_bit_str s = .ok (s.map flipBit) := by
  unfold invert_bit_str
  simp only [pure, Except.pure, PyT.joinEmpty, PyT.strIter, List.map_map]
  congr 1
  induction s with
  | nil => rfl
  | cons c cs ih =>
    simp only [List.map_cons, List.flatten_cons, ih, Function.comp]
    by_cases h : c = '1' <;> simp [h, flipBit]

theorem pb_flip (s : Text) (hs : Bin s) : pb 0 (s.map flipBit) + pb 0 s = 2 ^ s.length - 1 := by
  induction s with
  | nil => simp [pb]
  | cons c cs ih =>
    have hcs : Bin cs := fun x hx => hs x (List.mem_cons_of_mem _ hx)
    have hc := hs c (List.mem_cons_self ..)
    have e1 : pb 0 ((c :: cs).map flipBit) = pb (0 * 2 + charVal (flipBit c)) (cs.map flipBit) := rfl
    have e2 : pb 0 (c :: cs) = pb (0 * 2 + charVal c) cs := rfl
    have := ih hcs
    have hp : 0 < 2 ^ cs.length := Nat.pow_pos (by omega)
    have f0 : charVal (flipBit '0') = 1 := by decide
    have f1 : charVal (flipBit '1') = 0 := by decide
    have c0 : charVal '0' = 0 := by decide
    have c1 : charVal '1' = 1 := by decide
    rcases hc with h | h <;> subst h
    · rw [e1, e2, f0, c0, pb_split (cs.map flipBit), pb_split cs]
      simp only [List.length_map, List.length_cons, Nat.pow_succ] at *
      omega
    · rw [e1, e2, f1, c1, pb_split (cs.map flipBit), pb_split cs]
      simp only [List.length_map, List.length_cons, Nat.pow_succ] at *
      omega

theorem bin_flip (s : Text) (hs : Bin s) : Bin (s.map flipBit) := by
  intro c hc
  simp only [List.mem_map] at hc
  obtain ⟨d, _, rfl⟩ := hc
  by_cases h : d = '1' <;> simp [flipBit, h]

theorem intOfBase_bin (s : Text) (hs : Bin s) (hne : s ≠ []) : PyT.intOfBase s 2 = .ok ((pb 0 s : Nat) : Int) := by
  have gen : ∀ (t : Text), Bin t → ∀ (a : Nat),
      List.foldlM (fun (acc : Int) c => match PyT.digitValue c with
        | some v => if v < 2 then (Except.ok (acc * (2 : Nat) + v) : PyM Int) else .error .ValueError
        | none => .error .ValueError) (a : Int) t = .ok ((pb a t : Nat) : Int) := by
    intro t
    induction t with
    | nil => intro _ a; rfl
    | cons c cs ih =>
      intro ht a
      have hcs : Bin cs := fun x hx => ht x (List.mem_cons_of_mem _ hx)
      have hc := ht c (List.mem_cons_self ..)
      have e2 : pb a (c :: cs) = pb (a * 2 + charVal c) cs := rfl
      rw [List.foldlM_cons, e2]
      rcases hc with h | h <;> subst h
      · have : PyT.digitValue '0' = some 0 := by decide
        simp only [this, bind, Except.bind]
        have hv : charVal '0' = 0 := by decide
        rw [hv]
        have := ih hcs (a * 2 + 0)
        simpa using this
      · have : PyT.digitValue '1' = some 1 := by decide
        simp only [this, bind, Except.bind]
        have hv : charVal '1' = 1 := by decide
        rw [hv]
        have := ih hcs (a * 2 + 1)
        simpa using this
  unfold PyT.intOfBase
  simp only [hne, if_false]
  exact gen s hs 0

theorem toBaseSpec2_bin : ∀ n, Bin (toBaseSpec 2 n) := by
  intro n
  induction n using Nat.strongRecOn with
  | _ n ih =>
    unfold toBaseSpec
    by_cases h : n = 0 ∨ 2 < 2
    · have : n = 0 := by omega
      subst this
      intro c hc
      simp at hc
    · simp only [h, dite_false]
      intro c hc
      simp only [List.mem_append, List.mem_singleton] at hc
      rcases hc with hc | hc
      · exact ih (n / 2) (by omega) c hc
      · subst hc
        have : n % 2 = 0 ∨ n % 2 = 1 := by omega
        rcases this with e | e <;> rw [e] <;> decide

theorem toBaseSpec2_len : ∀ n, (toBaseSpec 2 n).length = sz n := by
  intro n
  induction n using Nat.strongRecOn with
  | _ n ih =>
    unfold toBaseSpec
    by_cases h : n = 0 ∨ 2 < 2
    · have : n = 0 := by omega
      subst this; simp [sz_zero]
    · simp only [h, dite_false, List.length_append, List.length_singleton]
      rw [ih (n / 2) (by omega), sz_pos n (by omega)]

theorem sz_le_succ_pred (a : Nat) (ha : 1 ≤ a) : sz a ≤ sz (a - 1) + 1 := by
  rw [sz_le_iff]
  have := (sz_le_iff (sz (a - 1)) (a - 1)).mp (Nat.le_refl _)
  rw [Nat.pow_succ]; omega

theorem maxI_toNat (k : Nat) : (PyT.maxI 32 ((k : Int) + 1)).toNat = max 32 (k + 1) := by
  unfold PyT.maxI
  split <;> omega

theorem maxI_cast (k : Nat) : PyT.maxI 32 ((k : Int) + 1) = ((max 32 (k + 1) : Nat) : Int) := by
  unfold PyT.maxI
  split <;> omega

theorem twos_complement_eq_model (a : Nat) (ha : 1 ≤ a) (base : Nat) (hb : base = 2 ∨ base = 8 ∨ base = 16) :
    twos_complement (-(a : Int)) (base : Int) = .ok (twosComplement a base) := by
  unfold twos_complement twosComplement
  have habs : PyT.abs (-(a : Int)) = (a : Int) := by simp [PyT.abs]
  simp only [habs, bitLength_pred a ha, maxI_cast]
  obtain ⟨h32, hfit⟩ := twos_bits a
  generalize hB : max 32 (clog2 a + 1) = B at *
  -- the binary digits of a
  rw [digitsOfBase_nat a (by omega) 2, digitsAux_eq_toBaseAux 2 (by omega) (by omega)]
  have hbits : toBaseAux 2 (a + 1) a [] = toBaseSpec 2 a := toBase_eq 2 (by omega) a
  rw [hbits]
  simp only [bind, Except.bind, invert_eq]
  have hbin := toBaseSpec2_bin a
  have hlen : (toBaseSpec 2 a).length = sz a := toBaseSpec2_len a
  have hL : sz a ≤ B := by
    have := sz_le_succ_pred a ha
    rw [← clog2_eq_sz a ha] at this
    omega
  -- int(inverted.rjust(B, "1"), 2)
  have hrj : PyT.rjust ((toBaseSpec 2 a).map flipBit) (B : Int) '1'
      = List.replicate (B - sz a) '1' ++ (toBaseSpec 2 a).map flipBit := by
    simp [PyT.rjust, hlen]
  rw [hrj]
  have hbin2 : Bin (List.replicate (B - sz a) '1' ++ (toBaseSpec 2 a).map flipBit) := by
    intro c hc
    simp only [List.mem_append, List.mem_replicate] at hc
    rcases hc with ⟨_, hc⟩ | hc
    · exact Or.inr hc
    · exact bin_flip _ hbin c hc
  have hne : List.replicate (B - sz a) '1' ++ (toBaseSpec 2 a).map flipBit ≠ [] := by
    have hnz : (toBaseSpec 2 a).length ≠ 0 := by
      rw [hlen, sz_pos a (by omega)]; omega
    intro h
    have h3 : (toBaseSpec 2 a).map flipBit = [] := (List.append_eq_nil_iff.mp h).2
    have h4 : (toBaseSpec 2 a).length = 0 := by simpa using congrArg List.length h3
    exact hnz h4
  rw [intOfBase_bin _ hbin2 hne]
  -- the value read is 2^B - 1 - a
  have hval : pb 0 (List.replicate (B - sz a) '1' ++ (toBaseSpec 2 a).map flipBit) = 2 ^ B - 1 - a := by
    rw [pb_append, pb_ones, pb_split]
    have hf := pb_flip _ hbin
    have hpa : pb 0 (toBaseSpec 2 a) = a := by
      rw [pb_zero_eq]; exact parseBase_toBaseSpec 2 (by omega) (by omega) a
    rw [hpa, hlen] at hf
    simp only [List.length_map, hlen, Nat.zero_mul, Nat.zero_add]
    have hpow : 2 ^ B = 2 ^ (B - sz a) * 2 ^ sz a := by
      rw [← Nat.pow_add]; congr 1; omega
    have hp1 : 0 < 2 ^ (B - sz a) := Nat.pow_pos (by omega)
    have hp2 : 0 < 2 ^ sz a := Nat.pow_pos (by omega)
    have halt : a < 2 ^ sz a := (sz_le_iff (sz a) a).mp (Nat.le_refl _)
    have e1 : (2 ^ (B - sz a) - 1) * 2 ^ sz a = 2 ^ B - 2 ^ sz a := by
      rw [hpow, Nat.sub_mul]; simp
    rw [e1]
    have : 2 ^ sz a ≤ 2 ^ B := Nat.pow_le_pow_right (by omega) hL
    omega
  rw [hval]
  have hpB : 2 ^ B = 2 * 2 ^ (B - 1) := by
    have : B = (B - 1) + 1 := by omega
    rw [this, Nat.pow_succ]; simp; omega
  have hpos : 0 < 2 ^ (B - 1) := Nat.pow_pos (by omega)
  have hlt : a < 2 ^ B := by omega
  have hcast : (((2 ^ B - 1 - a : Nat) : Int) + 1) = ((2 ^ B - a : Nat) : Int) := by
    generalize 2 ^ B = X at hlt ⊢
    omega
  have htne : 2 ^ B - a ≠ 0 := by omega
  simp only [hcast]
  rcases hb with h | h | h <;> subst h
  · simp only [show ((2 : Nat) : Int) = 2 from rfl, decide_true, if_true]
    rw [digitsOfBase_nat _ htne 2, digitsAux_eq_toBaseAux 2 (by omega) (by omega)]
    simp [PyT.rjust, toBase, pure, Except.pure]
  · have h8 : ¬ (((8 : Nat) : Int) = 2) := by omega
    have h82 : ¬ ((8 : Nat) = 2) := by omega
    simp only [h8, h82, decide_false, Bool.false_eq_true, if_false, decide_true, if_true]
    rw [digitsOfBase_nat _ htne 8, digitsAux_eq_toBaseAux 8 (by omega) (by omega)]
    simp [toBase, pure, Except.pure]
  · have h16 : ¬ (((16 : Nat) : Int) = 2) := by omega
    have h168 : ¬ (((16 : Nat) : Int) = 8) := by omega
    have h162 : ¬ ((16 : Nat) = 2) := by omega
    simp only [h16, h168, h162, decide_false, Bool.false_eq_true, if_false]
    rw [digitsOfBase_nat _ htne 16]
    simp only [pure, Except.pure, upper_digitsAux16, toBase]
    rfl

end NumbersModel.Translated
