/-
Equivalence of the iterator bounds prefixes that `harness/py2lean.py` regenerates from `document.py` on every
check run (`Gen/TrAddr.lean`) with the model `iterRows` / `iterCols` of Model/Addressing.lean.
-/
import NumbersModel.Gen.TrAddr
import NumbersModel.Model.Addressing
import Mathlib.Tactic.SplitIfs

namespace NumbersModel.Translated
open NumbersModel NumbersModel.Gen.T NumbersModel.Addressing

theorem iter_rows_eq_model (d : Dims) (minRow maxRow minCol maxCol : Option Int) :
    iterRows d minRow maxRow minCol maxCol
      = (iter_rows_bounds d.rows d.cols minRow maxRow minCol maxCol).map rowsOf := by
  unfold iterRows iter_rows_bounds rowsOf
  cases minRow <;> cases maxRow <;> cases minCol <;> cases maxCol <;>
    simp only [Option.getD_none, Option.getD_some] <;>
    (split_ifs <;> simp_all [Except.map, pure, Except.pure, throw, throwThe, MonadExceptOf.throw] <;> omega)

theorem iter_cols_eq_model (d : Dims) (minRow maxRow minCol maxCol : Option Int) :
    iterCols d minRow maxRow minCol maxCol
      = (iter_cols_bounds d.rows d.cols minCol maxCol minRow maxRow).map colsOf := by
  unfold iterCols iter_cols_bounds colsOf
  cases minRow <;> cases maxRow <;> cases minCol <;> cases maxCol <;>
    simp only [Option.getD_none, Option.getD_some] <;>
    (split_ifs <;> simp_all [Except.map, pure, Except.pure, throw, throwThe, MonadExceptOf.throw] <;> omega)

end NumbersModel.Translated
