/-
Lemmas about the format-selection glue (Model/FormatDispatch.lean): closed forms of `format_archive` for every key of
the generated tables, of `_set_cell_data_format` followed by the dispatch of `formatted_value` for every format type,
and the invariance of the formatters under `_set_formatting`.
-/
import NumbersModel.Model.FormatDispatch
set_option linter.unusedSimpArgs false
namespace NumbersModel.FormatDispatch
open NumbersModel NumbersModel.Digits NumbersModel.NumFmt

/-- the formatter a format type dispatches to, with the arguments taken *unchanged* from the `Formatting` object
    (`places` = its decimal places after `__post_init__`); an integer that does not fit the archive's uint32 field is
    protobuf's `ValueError`. -/
def formatterOf (nt : FType) (f : Formatting) (places : Int) : PyM Formatter :=
  match nt with
  | .number => do let dp ← u32 places; let ns ← u32 f.negativeStyle; pure (.decimal ⟨dp, f.showThousands, ns⟩)
  | .percentage => do let dp ← u32 places; let ns ← u32 f.negativeStyle; pure (.percent ⟨dp, f.showThousands, ns⟩)
  | .currency => do
    let dp ← u32 places; let ns ← u32 f.negativeStyle
    pure (.currency ⟨dp, f.showThousands, ns⟩ f.useAccounting f.currencyCode)
  | .base => do let b ← u32 f.base; let bp ← u32 f.basePlaces; pure (.base ⟨b, bp, f.baseUseMinus⟩)
  | .fraction => do let acc ← u32 f.fractionAccuracy; pure (.fraction acc)
  | .scientific => do let dp ← u32 places; pure (.scientific dp)
  | .rating => pure .rating
  | .tickbox => pure .checkbox
  | .datetime => pure (.date f.dateTimeFormat)
  | _ => pure .strValue

/-! ### `format_archive`, key by key -/

theorem fa_base (f : Formatting) (p : Int) : formatArchive 1 f p = (do
    let b ← u32 f.base; let bp ← u32 f.basePlaces
    pure { formatType := 269, base := b, basePlaces := bp, baseUseMinus := f.baseUseMinus }) := by
  have h1 : Gen.allowedFormattingParameters.lookup 1 = some ["base", "base_places", "base_use_minus_sign"] := by decide
  have h2 : Gen.formatTypeMap.lookup 1 = some 269 := by decide
  simp only [formatArchive, h1, h2, setParams, setParam]
  simp
  cases u32 f.base <;> cases u32 f.basePlaces <;> rfl

theorem fa_currency (f : Formatting) (p : Int) : formatArchive 2 f p = (do
    let dp ← u32 p; let ns ← u32 f.negativeStyle
    pure { formatType := 257, currencyCode := f.currencyCode, decimalPlaces := dp, negativeStyle := ns,
           showThousands := f.showThousands, useAccounting := f.useAccounting }) := by
  have h1 : Gen.allowedFormattingParameters.lookup 2 = some ["currency_code", "decimal_places", "negative_style",
      "show_thousands_separator", "use_accounting_style"] := by decide
  have h2 : Gen.formatTypeMap.lookup 2 = some 257 := by decide
  simp only [formatArchive, h1, h2, setParams, setParam]
  simp
  cases u32 p <;> cases u32 f.negativeStyle <;> rfl

theorem fa_datetime (f : Formatting) (p : Int) :
    formatArchive 3 f p = .ok { formatType := 261, dateTimeFormat := f.dateTimeFormat } := by
  have h1 : Gen.allowedFormattingParameters.lookup 3 = some ["date_time_format"] := by decide
  have h2 : Gen.formatTypeMap.lookup 3 = some 261 := by decide
  simp only [formatArchive, h1, h2, setParams, setParam]
  simp

theorem fa_fraction (f : Formatting) (p : Int) : formatArchive 4 f p = (do
    let acc ← u32 f.fractionAccuracy
    pure { formatType := 262, fractionAccuracy := acc }) := by
  have h1 : Gen.allowedFormattingParameters.lookup 4 = some ["fraction_accuracy"] := by decide
  have h2 : Gen.formatTypeMap.lookup 4 = some 262 := by decide
  simp only [formatArchive, h1, h2, setParams, setParam]
  simp
  cases u32 f.fractionAccuracy <;> rfl

theorem fa_number (f : Formatting) (p : Int) : formatArchive 5 f p = (do
    let dp ← u32 p; let ns ← u32 f.negativeStyle
    pure { formatType := 256, decimalPlaces := dp, showThousands := f.showThousands, negativeStyle := ns }) := by
  have h1 : Gen.allowedFormattingParameters.lookup 5 = some ["decimal_places", "show_thousands_separator", "negative_style"] := by
    decide
  have h2 : Gen.formatTypeMap.lookup 5 = some 256 := by decide
  simp only [formatArchive, h1, h2, setParams, setParam]
  simp
  cases u32 p <;> cases u32 f.negativeStyle <;> rfl

theorem fa_percentage (f : Formatting) (p : Int) : formatArchive 6 f p = (do
    let dp ← u32 p; let ns ← u32 f.negativeStyle
    pure { formatType := 258, decimalPlaces := dp, showThousands := f.showThousands, negativeStyle := ns }) := by
  have h1 : Gen.allowedFormattingParameters.lookup 6 = some ["decimal_places", "show_thousands_separator", "negative_style"] := by
    decide
  have h2 : Gen.formatTypeMap.lookup 6 = some 258 := by decide
  simp only [formatArchive, h1, h2, setParams, setParam]
  simp
  cases u32 p <;> cases u32 f.negativeStyle <;> rfl

theorem fa_scientific (f : Formatting) (p : Int) : formatArchive 7 f p = (do
    let dp ← u32 p
    pure { formatType := 259, decimalPlaces := dp }) := by
  have h1 : Gen.allowedFormattingParameters.lookup 7 = some ["decimal_places"] := by decide
  have h2 : Gen.formatTypeMap.lookup 7 = some 259 := by decide
  simp only [formatArchive, h1, h2, setParams, setParam]
  simp
  cases u32 p <;> rfl

theorem fa_tickbox (f : Formatting) (p : Int) : formatArchive 8 f p = .ok { formatType := 263 } := by
  have h1 : Gen.allowedFormattingParameters.lookup 8 = some [] := by decide
  have h2 : Gen.formatTypeMap.lookup 8 = some 263 := by decide
  simp only [formatArchive, h1, h2, setParams]

theorem fa_rating (f : Formatting) (p : Int) : formatArchive 9 f p = .ok { formatType := 267 } := by
  have h1 : Gen.allowedFormattingParameters.lookup 9 = some [] := by decide
  have h2 : Gen.formatTypeMap.lookup 9 = some 267 := by decide
  simp only [formatArchive, h1, h2, setParams]

theorem fa_text (f : Formatting) (p : Int) : formatArchive 13 f p = .ok { formatType := 260 } := by
  have h1 : Gen.allowedFormattingParameters.lookup 13 = some [] := by decide
  have h2 : Gen.formatTypeMap.lookup 13 = some 260 := by decide
  simp only [formatArchive, h1, h2, setParams]

/-! ### `_set_formatting` changes nothing a formatter reads -/

theorem setFormatting_fields (c : Cell) (fmt : Fmt) (t : FType) (ctl : Option Ctl) (cur : Bool) :
    let c' := setFormatting c fmt t ctl cur
    c'.kind = c.kind ∧ c'.value = c.value ∧ c'.str = c.str ∧ c'.d128 = c.d128 ∧ c'.stringText = c.stringText ∧
    c'.doubleMs = c.doubleMs ∧ c'.hasSeconds = c.hasSeconds ∧ c'.datetime = c.datetime ∧ c'.durationFmt = c.durationFmt := by
  cases t <;> cases cur <;> simp [setFormatting]

theorem applyFormatter_congr (env : Env) (c c' : Cell) (fm : Formatter)
    (h : c'.value = c.value ∧ c'.str = c.str ∧ c'.d128 = c.d128 ∧ c'.stringText = c.stringText ∧
         c'.doubleMs = c.doubleMs ∧ c'.datetime = c.datetime) :
    applyFormatter env c' fm = applyFormatter env c fm := by
  obtain ⟨h1, h2, h3, h4, h5, h6⟩ := h
  cases fm <;> simp [applyFormatter, Cell.strValue, h1, h2, h3, h4, h5, h6]

theorem applyFormatter_setFormatting (env : Env) (c : Cell) (fmt : Fmt) (t : FType) (ctl : Option Ctl) (cur : Bool)
    (fm : Formatter) : applyFormatter env (setFormatting c fmt t ctl cur) fm = applyFormatter env c fm := by
  obtain ⟨_, h2, h3, h4, h5, h6, _, h8, _⟩ := setFormatting_fields c fmt t ctl cur
  exact applyFormatter_congr env c _ fm ⟨h2, h3, h4, h5, h6, h8⟩

/-! ### set + dispatch, type by type: the arguments of the `Formatting` object reach the formatter unchanged -/

theorem set_number (c : Cell) (hk : c.kind = .number) (hd : c.durationFmt = none) (a : Args) :
    (setCellDataFormat c "number".toList a >>= selectFormatter) =
      (Formatting.make .number a >>= fun r => formatterOf .number r.1 r.2) := by
  have hr : resolveType "number".toList = .ok (.number, ["NumberCell"]) := by decide
  have ha : (Gen.formattingActionCells.any fun n => n.toList == "number".toList) = false := by decide
  simp only [setCellDataFormat, formatChoice, hr, ha, hk, CellKind.className]
  cases hm : Formatting.make .number a with
  | error e => simp [hm, bind, Except.bind]
  | ok r =>
    obtain ⟨f, p⟩ := r
    simp only [hm, bind, Except.bind, pure, Except.pure, FType.code, fa_number, formatterOf]
    cases u32 p <;> cases u32 f.negativeStyle <;>
      simp [selectFormatter, setFormatting, hk, hd, customFormatter, dateFormatter, selectCustom, CustomFmt.FormatType.ofCode, Fmt.decFmt]

theorem set_percentage (c : Cell) (hk : c.kind = .number) (hd : c.durationFmt = none) (a : Args) :
    (setCellDataFormat c "percentage".toList a >>= selectFormatter) =
      (Formatting.make .percentage a >>= fun r => formatterOf .percentage r.1 r.2) := by
  have hr : resolveType "percentage".toList = .ok (.percentage, ["NumberCell"]) := by decide
  have ha : (Gen.formattingActionCells.any fun n => n.toList == "percentage".toList) = false := by decide
  simp only [setCellDataFormat, formatChoice, hr, ha, hk, CellKind.className]
  cases hm : Formatting.make .percentage a with
  | error e => simp [hm, bind, Except.bind]
  | ok r =>
    obtain ⟨f, p⟩ := r
    simp only [hm, bind, Except.bind, pure, Except.pure, FType.code, fa_percentage, formatterOf]
    cases u32 p <;> cases u32 f.negativeStyle <;>
      simp [selectFormatter, setFormatting, hk, hd, customFormatter, dateFormatter, selectCustom, CustomFmt.FormatType.ofCode, Fmt.decFmt]

theorem set_currency (c : Cell) (hk : c.kind = .number) (hd : c.durationFmt = none) (a : Args) :
    (setCellDataFormat c "currency".toList a >>= selectFormatter) =
      (Formatting.make .currency a >>= fun r => formatterOf .currency r.1 r.2) := by
  have hr : resolveType "currency".toList = .ok (.currency, ["NumberCell"]) := by decide
  have ha : (Gen.formattingActionCells.any fun n => n.toList == "currency".toList) = false := by decide
  simp only [setCellDataFormat, formatChoice, hr, ha, hk, CellKind.className]
  cases hm : Formatting.make .currency a with
  | error e => simp [hm, bind, Except.bind]
  | ok r =>
    obtain ⟨f, p⟩ := r
    simp only [hm, bind, Except.bind, pure, Except.pure, FType.code, fa_currency, formatterOf]
    cases u32 p <;> cases u32 f.negativeStyle <;>
      simp [selectFormatter, setFormatting, hk, hd, customFormatter, dateFormatter, selectCustom, CustomFmt.FormatType.ofCode, Fmt.decFmt]

theorem set_base (c : Cell) (hk : c.kind = .number) (hd : c.durationFmt = none) (a : Args) :
    (setCellDataFormat c "base".toList a >>= selectFormatter) =
      (Formatting.make .base a >>= fun r => formatterOf .base r.1 r.2) := by
  have hr : resolveType "base".toList = .ok (.base, ["NumberCell"]) := by decide
  have ha : (Gen.formattingActionCells.any fun n => n.toList == "base".toList) = false := by decide
  simp only [setCellDataFormat, formatChoice, hr, ha, hk, CellKind.className]
  cases hm : Formatting.make .base a with
  | error e => simp [hm, bind, Except.bind]
  | ok r =>
    obtain ⟨f, p⟩ := r
    simp only [hm, bind, Except.bind, pure, Except.pure, FType.code, fa_base, formatterOf]
    cases u32 f.base <;> cases u32 f.basePlaces <;>
      simp [selectFormatter, setFormatting, hk, hd, customFormatter, dateFormatter, selectCustom, CustomFmt.FormatType.ofCode, Fmt.decFmt]

theorem set_fraction (c : Cell) (hk : c.kind = .number) (hd : c.durationFmt = none) (a : Args) :
    (setCellDataFormat c "fraction".toList a >>= selectFormatter) =
      (Formatting.make .fraction a >>= fun r => formatterOf .fraction r.1 r.2) := by
  have hr : resolveType "fraction".toList = .ok (.fraction, ["NumberCell"]) := by decide
  have ha : (Gen.formattingActionCells.any fun n => n.toList == "fraction".toList) = false := by decide
  simp only [setCellDataFormat, formatChoice, hr, ha, hk, CellKind.className]
  cases hm : Formatting.make .fraction a with
  | error e => simp [hm, bind, Except.bind]
  | ok r =>
    obtain ⟨f, p⟩ := r
    simp only [hm, bind, Except.bind, pure, Except.pure, FType.code, fa_fraction, formatterOf]
    cases u32 f.fractionAccuracy <;>
      simp [selectFormatter, setFormatting, hk, hd, customFormatter, dateFormatter, selectCustom, CustomFmt.FormatType.ofCode, Fmt.decFmt]

theorem set_scientific (c : Cell) (hk : c.kind = .number) (hd : c.durationFmt = none) (a : Args) :
    (setCellDataFormat c "scientific".toList a >>= selectFormatter) =
      (Formatting.make .scientific a >>= fun r => formatterOf .scientific r.1 r.2) := by
  have hr : resolveType "scientific".toList = .ok (.scientific, ["NumberCell"]) := by decide
  have ha : (Gen.formattingActionCells.any fun n => n.toList == "scientific".toList) = false := by decide
  simp only [setCellDataFormat, formatChoice, hr, ha, hk, CellKind.className]
  cases hm : Formatting.make .scientific a with
  | error e => simp [hm, bind, Except.bind]
  | ok r =>
    obtain ⟨f, p⟩ := r
    simp only [hm, bind, Except.bind, pure, Except.pure, FType.code, fa_scientific, formatterOf]
    cases u32 p <;>
      simp [selectFormatter, setFormatting, hk, hd, customFormatter, dateFormatter, selectCustom, CustomFmt.FormatType.ofCode, Fmt.decFmt]

theorem set_rating (c : Cell) (hk : c.kind = .number) (hd : c.durationFmt = none) (a : Args) :
    (setCellDataFormat c "rating".toList a >>= selectFormatter) =
      (Formatting.make .rating a >>= fun r => formatterOf .rating r.1 r.2) := by
  have hr : resolveType "rating".toList = .ok (.rating, ["NumberCell"]) := by decide
  have ha : (Gen.formattingActionCells.any fun n => n.toList == "rating".toList) = true := by decide
  simp only [setCellDataFormat, formatChoice, hr, ha, hk, CellKind.className]
  cases hm : Formatting.make .rating a with
  | error e => simp [hm, bind, Except.bind]
  | ok r =>
    obtain ⟨f, p⟩ := r
    simp only [hm, bind, Except.bind, pure, Except.pure, FType.code, fa_rating, formatterOf]
    simp [selectFormatter, setFormatting, hk, hd, customFormatter, dateFormatter, selectCustom, CustomFmt.FormatType.ofCode, Fmt.decFmt]

theorem set_tickbox (c : Cell) (hk : c.kind = .bool) (hd : c.durationFmt = none) (a : Args) :
    (setCellDataFormat c "tickbox".toList a >>= selectFormatter) =
      (Formatting.make .tickbox a >>= fun r => formatterOf .tickbox r.1 r.2) := by
  have hr : resolveType "tickbox".toList = .ok (.tickbox, ["BoolCell"]) := by decide
  have ha : (Gen.formattingActionCells.any fun n => n.toList == "tickbox".toList) = true := by decide
  simp only [setCellDataFormat, formatChoice, hr, ha, hk, CellKind.className]
  cases hm : Formatting.make .tickbox a with
  | error e => simp [hm, bind, Except.bind]
  | ok r =>
    obtain ⟨f, p⟩ := r
    simp only [hm, bind, Except.bind, pure, Except.pure, FType.code, fa_tickbox, formatterOf]
    simp [selectFormatter, setFormatting, hk, hd, customFormatter, dateFormatter, selectCustom, CustomFmt.FormatType.ofCode, Fmt.decFmt]

theorem set_datetime (c : Cell) (hk : c.kind = .date) (hd : c.durationFmt = none) (hs : c.hasSeconds = true) (a : Args) :
    (setCellDataFormat c "datetime".toList a >>= selectFormatter) =
      (Formatting.make .datetime a >>= fun r => formatterOf .datetime r.1 r.2) := by
  have hr : resolveType "datetime".toList = .ok (.datetime, ["DateCell"]) := by decide
  have ha : (Gen.formattingActionCells.any fun n => n.toList == "datetime".toList) = false := by decide
  simp only [setCellDataFormat, formatChoice, hr, ha, hk, CellKind.className]
  cases hm : Formatting.make .datetime a with
  | error e => simp [hm, bind, Except.bind]
  | ok r =>
    obtain ⟨f, p⟩ := r
    simp only [hm, bind, Except.bind, pure, Except.pure, FType.code, fa_datetime, formatterOf]
    simp [selectFormatter, setFormatting, hk, hd, customFormatter, dateFormatter, selectCustom, CustomFmt.FormatType.ofCode, Fmt.decFmt, hs]

theorem set_slider (c : Cell) (hk : c.kind = .number) (hd : c.durationFmt = none) (a : Args) (ct : CType)
    (hc : a.controlFormat = some (.control ct)) :
    (setCellDataFormat c "slider".toList a >>= selectFormatter) =
      (Formatting.make .slider a >>= fun r => formatterOf ct.toFType r.1 r.2) := by
  have hr : resolveType "slider".toList = .ok (.slider, ["NumberCell"]) := by decide
  have ha : (Gen.formattingActionCells.any fun n => n.toList == "slider".toList) = true := by decide
  simp only [setCellDataFormat, formatChoice, hr, ha, hk, hc, CellKind.className]
  cases hm : Formatting.make .slider a with
  | error e => simp [hm, bind, Except.bind]
  | ok r =>
    obtain ⟨f, p⟩ := r
    cases ct with
    | base =>
      simp only [hm, bind, Except.bind, pure, Except.pure, CType.toFType, FType.code, fa_base, formatterOf]
      cases u32 f.base <;> cases u32 f.basePlaces <;>
        simp [selectFormatter, setFormatting, hk, hd, customFormatter, selectCustom, CustomFmt.FormatType.ofCode, Fmt.decFmt]
    | currency =>
      simp only [hm, bind, Except.bind, pure, Except.pure, CType.toFType, FType.code, fa_currency, formatterOf]
      cases u32 p <;> cases u32 f.negativeStyle <;>
        simp [selectFormatter, setFormatting, hk, hd, customFormatter, selectCustom, CustomFmt.FormatType.ofCode, Fmt.decFmt]
    | fraction =>
      simp only [hm, bind, Except.bind, pure, Except.pure, CType.toFType, FType.code, fa_fraction, formatterOf]
      cases u32 f.fractionAccuracy <;>
        simp [selectFormatter, setFormatting, hk, hd, customFormatter, selectCustom, CustomFmt.FormatType.ofCode, Fmt.decFmt]
    | number =>
      simp only [hm, bind, Except.bind, pure, Except.pure, CType.toFType, FType.code, fa_number, formatterOf]
      cases u32 p <;> cases u32 f.negativeStyle <;>
        simp [selectFormatter, setFormatting, hk, hd, customFormatter, selectCustom, CustomFmt.FormatType.ofCode, Fmt.decFmt]
    | percentage =>
      simp only [hm, bind, Except.bind, pure, Except.pure, CType.toFType, FType.code, fa_percentage, formatterOf]
      cases u32 p <;> cases u32 f.negativeStyle <;>
        simp [selectFormatter, setFormatting, hk, hd, customFormatter, selectCustom, CustomFmt.FormatType.ofCode, Fmt.decFmt]
    | scientific =>
      simp only [hm, bind, Except.bind, pure, Except.pure, CType.toFType, FType.code, fa_scientific, formatterOf]
      cases u32 p <;>
        simp [selectFormatter, setFormatting, hk, hd, customFormatter, selectCustom, CustomFmt.FormatType.ofCode, Fmt.decFmt]

theorem set_slider_default (c : Cell) (hk : c.kind = .number) (hd : c.durationFmt = none) (a : Args)
    (hc : a.controlFormat = none) :
    (setCellDataFormat c "slider".toList a >>= selectFormatter) =
      (Formatting.make .slider a >>= fun r => formatterOf .number r.1 r.2) := by
  have hr : resolveType "slider".toList = .ok (.slider, ["NumberCell"]) := by decide
  have ha : (Gen.formattingActionCells.any fun n => n.toList == "slider".toList) = true := by decide
  simp only [setCellDataFormat, formatChoice, hr, ha, hk, hc, CellKind.className]
  cases hm : Formatting.make .slider a with
  | error e => simp [hm, bind, Except.bind]
  | ok r =>
    obtain ⟨f, p⟩ := r
    simp only [hm, bind, Except.bind, pure, Except.pure, FType.code, fa_number, formatterOf]
    cases u32 p <;> cases u32 f.negativeStyle <;>
      simp [selectFormatter, setFormatting, hk, hd, customFormatter, selectCustom, CustomFmt.FormatType.ofCode, Fmt.decFmt]

theorem set_slider_invalid (c : Cell) (a : Args) (hc : a.controlFormat = some .invalid) (c' : Cell) :
    setCellDataFormat c "slider".toList a ≠ .ok c' := by
  have hr : resolveType "slider".toList = .ok (.slider, ["NumberCell"]) := by decide
  simp only [setCellDataFormat, formatChoice, hr, hc]
  cases hm : Formatting.make .slider a <;>
    by_cases h : c.kind.className = "NumberCell" <;>
    simp [h, hm, bind, Except.bind, throw, throwThe, MonadExceptOf.throw, pure, Except.pure]

theorem set_stepper (c : Cell) (hk : c.kind = .number) (hd : c.durationFmt = none) (a : Args) (ct : CType)
    (hc : a.controlFormat = some (.control ct)) :
    (setCellDataFormat c "stepper".toList a >>= selectFormatter) =
      (Formatting.make .stepper a >>= fun r => formatterOf ct.toFType r.1 r.2) := by
  have hr : resolveType "stepper".toList = .ok (.stepper, ["NumberCell"]) := by decide
  have ha : (Gen.formattingActionCells.any fun n => n.toList == "stepper".toList) = true := by decide
  simp only [setCellDataFormat, formatChoice, hr, ha, hk, hc, CellKind.className]
  cases hm : Formatting.make .stepper a with
  | error e => simp [hm, bind, Except.bind]
  | ok r =>
    obtain ⟨f, p⟩ := r
    cases ct with
    | base =>
      simp only [hm, bind, Except.bind, pure, Except.pure, CType.toFType, FType.code, fa_base, formatterOf]
      cases u32 f.base <;> cases u32 f.basePlaces <;>
        simp [selectFormatter, setFormatting, hk, hd, customFormatter, selectCustom, CustomFmt.FormatType.ofCode, Fmt.decFmt]
    | currency =>
      simp only [hm, bind, Except.bind, pure, Except.pure, CType.toFType, FType.code, fa_currency, formatterOf]
      cases u32 p <;> cases u32 f.negativeStyle <;>
        simp [selectFormatter, setFormatting, hk, hd, customFormatter, selectCustom, CustomFmt.FormatType.ofCode, Fmt.decFmt]
    | fraction =>
      simp only [hm, bind, Except.bind, pure, Except.pure, CType.toFType, FType.code, fa_fraction, formatterOf]
      cases u32 f.fractionAccuracy <;>
        simp [selectFormatter, setFormatting, hk, hd, customFormatter, selectCustom, CustomFmt.FormatType.ofCode, Fmt.decFmt]
    | number =>
      simp only [hm, bind, Except.bind, pure, Except.pure, CType.toFType, FType.code, fa_number, formatterOf]
      cases u32 p <;> cases u32 f.negativeStyle <;>
        simp [selectFormatter, setFormatting, hk, hd, customFormatter, selectCustom, CustomFmt.FormatType.ofCode, Fmt.decFmt]
    | percentage =>
      simp only [hm, bind, Except.bind, pure, Except.pure, CType.toFType, FType.code, fa_percentage, formatterOf]
      cases u32 p <;> cases u32 f.negativeStyle <;>
        simp [selectFormatter, setFormatting, hk, hd, customFormatter, selectCustom, CustomFmt.FormatType.ofCode, Fmt.decFmt]
    | scientific =>
      simp only [hm, bind, Except.bind, pure, Except.pure, CType.toFType, FType.code, fa_scientific, formatterOf]
      cases u32 p <;>
        simp [selectFormatter, setFormatting, hk, hd, customFormatter, selectCustom, CustomFmt.FormatType.ofCode, Fmt.decFmt]

theorem set_stepper_default (c : Cell) (hk : c.kind = .number) (hd : c.durationFmt = none) (a : Args)
    (hc : a.controlFormat = none) :
    (setCellDataFormat c "stepper".toList a >>= selectFormatter) =
      (Formatting.make .stepper a >>= fun r => formatterOf .number r.1 r.2) := by
  have hr : resolveType "stepper".toList = .ok (.stepper, ["NumberCell"]) := by decide
  have ha : (Gen.formattingActionCells.any fun n => n.toList == "stepper".toList) = true := by decide
  simp only [setCellDataFormat, formatChoice, hr, ha, hk, hc, CellKind.className]
  cases hm : Formatting.make .stepper a with
  | error e => simp [hm, bind, Except.bind]
  | ok r =>
    obtain ⟨f, p⟩ := r
    simp only [hm, bind, Except.bind, pure, Except.pure, FType.code, fa_number, formatterOf]
    cases u32 p <;> cases u32 f.negativeStyle <;>
      simp [selectFormatter, setFormatting, hk, hd, customFormatter, selectCustom, CustomFmt.FormatType.ofCode, Fmt.decFmt]

theorem set_stepper_invalid (c : Cell) (a : Args) (hc : a.controlFormat = some .invalid) (c' : Cell) :
    setCellDataFormat c "stepper".toList a ≠ .ok c' := by
  have hr : resolveType "stepper".toList = .ok (.stepper, ["NumberCell"]) := by decide
  simp only [setCellDataFormat, formatChoice, hr, hc]
  cases hm : Formatting.make .stepper a <;>
    by_cases h : c.kind.className = "NumberCell" <;>
    simp [h, hm, bind, Except.bind, throw, throwThe, MonadExceptOf.throw, pure, Except.pure]

/-- a popup keeps displaying the value itself: the archive it stores (a TEXT archive on a text cell, a BASE archive — the key
    `True` — on a number cell) is never looked at by `_custom_format`. -/
theorem set_popup (c : Cell) (hk : c.kind = .number ∨ c.kind = .text) (hd : c.durationFmt = none) (a : Args) :
    (setCellDataFormat c "popup".toList a >>= selectFormatter) =
      (Formatting.make .popup a >>= fun r => popupCheck c r.1 >>= fun _ =>
        formatArchive (if c.kind = .text then FType.text.code else 1) r.1 r.2 >>= fun _ => pure .strValue) := by
  have hr : resolveType "popup".toList = .ok (.popup, ["NumberCell", "TextCell"]) := by decide
  have ha : (Gen.formattingActionCells.any fun n => n.toList == "popup".toList) = true := by decide
  rcases hk with hk | hk
  · simp only [setCellDataFormat, formatChoice, hr, ha, hk, CellKind.className]
    cases hm : Formatting.make .popup a with
    | error e => simp [hm, bind, Except.bind]
    | ok r =>
      obtain ⟨f, p⟩ := r
      simp only [hm, bind, Except.bind, pure, Except.pure]
      cases popupCheck c f with
      | error e => simp
      | ok u =>
        simp only [hk, reduceCtorEq, ↓reduceIte, FType.code, fa_base]
        cases u32 f.base <;> cases u32 f.basePlaces <;>
          simp [selectFormatter, setFormatting, hk, hd, customFormatter, selectCustom, bind, Except.bind, pure, Except.pure]
  · simp only [setCellDataFormat, formatChoice, hr, ha, hk, CellKind.className]
    cases hm : Formatting.make .popup a with
    | error e => simp [hm, bind, Except.bind]
    | ok r =>
      obtain ⟨f, p⟩ := r
      simp only [hm, bind, Except.bind, pure, Except.pure]
      cases popupCheck c f with
      | error e => simp
      | ok u =>
        simp [FType.code, fa_text, selectFormatter, setFormatting, hk, hd, customFormatter, selectCustom,
          CustomFmt.FormatType.ofCode, bind, Except.bind, pure, Except.pure]

/-- set + display = (set + dispatch), then the chosen formatter applied to the cell as it was written. -/
theorem setThenDisplay_eq (env : Env) (c : Cell) (name : Text) (a : Args) :
    setThenDisplay env c name a = (setCellDataFormat c name a >>= selectFormatter) >>= applyFormatter env c := by
  unfold setThenDisplay setCellDataFormat formattedValue
  cases formatChoice c name a with
  | error e => rfl
  | ok r =>
    simp only [bind, Except.bind, pure, Except.pure]
    cases selectFormatter (setFormatting c r.1 r.2.1 r.2.2.1 r.2.2.2) with
    | error e => rfl
    | ok fm => exact applyFormatter_setFormatting env c _ _ _ _ fm

/-! ### `Formatting.__post_init__`: defaults, validation, and the control formats -/

/-- everything but the type and the control format. -/
def Formatting.erase (f : Formatting) : Formatting := { f with type := .number, controlFormat := .invalid }

theorem postInit_congr (f g : Formatting) (nt : FType) (hf : f.type ≠ .datetime) (hg : g.type ≠ .datetime)
    (hn : f.numberType = g.numberType) (he : f.erase = g.erase) :
    (f.postInit >>= fun r => formatterOf nt r.1 r.2) = (g.postInit >>= fun r => formatterOf nt r.1 r.2) := by
  have h1 : f.useAccounting = g.useAccounting := by have := congrArg Formatting.useAccounting he; exact this
  have h2 : f.negativeStyle = g.negativeStyle := by have := congrArg Formatting.negativeStyle he; exact this
  have h3 : f.currencyCode = g.currencyCode := by have := congrArg Formatting.currencyCode he; exact this
  have h4 : f.decimalPlaces = g.decimalPlaces := by have := congrArg Formatting.decimalPlaces he; exact this
  have h5 : f.baseUseMinus = g.baseUseMinus := by have := congrArg Formatting.baseUseMinus he; exact this
  have h6 : f.base = g.base := by have := congrArg Formatting.base he; exact this
  have h7 : f.showThousands = g.showThousands := by have := congrArg Formatting.showThousands he; exact this
  have h8 : f.basePlaces = g.basePlaces := by have := congrArg Formatting.basePlaces he; exact this
  have h9 : f.fractionAccuracy = g.fractionAccuracy := by have := congrArg Formatting.fractionAccuracy he; exact this
  have h10 : f.dateTimeFormat = g.dateTimeFormat := by have := congrArg Formatting.dateTimeFormat he; exact this
  unfold Formatting.postInit
  simp only [hn, h1, h2, h3, h4, h5, h6, h7, h8, h9, h10, hf, hg, false_and, if_false]
  split
  · rfl
  · split
    · rfl
    · split
      · rfl
      · cases nt <;> simp [bind, Except.bind, formatterOf, h1, h2, h3, h4, h5, h6, h7, h8, h9, h10]

theorem make_control (a : Args) (t : FType) (ht : t = .slider ∨ t = .stepper) (ct : CType) :
    (Formatting.make t { a with controlFormat := some (.control ct) } >>= fun r => formatterOf ct.toFType r.1 r.2) =
    (Formatting.make ct.toFType a >>= fun r => formatterOf ct.toFType r.1 r.2) := by
  unfold Formatting.make
  cases hu : a.unknownKeyword
  · simp only [hu, Bool.false_eq_true, if_false]
    refine postInit_congr _ _ _ ?_ ?_ ?_ rfl
    · rcases ht with rfl | rfl <;> simp [Formatting.init]
    · cases ct <;> simp [Formatting.init, CType.toFType]
    · rcases ht with rfl | rfl <;> cases ct <;> simp [Formatting.init, Formatting.numberType, CType.toFType]
  · simp only [hu, if_true]

theorem formatting_post_init (t : FType) (a : Args) (f : Formatting) (p : Int) (h : Formatting.make t a = .ok (f, p)) :
    let nt := (Formatting.init t a).numberType
    a.unknownKeyword = false ∧ f.type = t ∧
    f.showThousands = a.showThousands.getD false ∧ f.useAccounting = a.useAccounting.getD false ∧
    f.currencyCode = a.currencyCode.getD "GBP".toList ∧ f.base = a.base.getD 10 ∧ f.basePlaces = a.basePlaces.getD 0 ∧
    f.baseUseMinus = a.baseUseMinus.getD true ∧ f.fractionAccuracy = a.fractionAccuracy.getD 4294967293 ∧
    f.dateTimeFormat = a.dateTimeFormat.getD "dd MMM yyyy HH:mm".toList ∧
    f.negativeStyle = (if a.useAccounting.getD false = true ∧ a.negativeStyle.getD 0 ≠ 0 then 0 else a.negativeStyle.getD 0) ∧
    p = (match a.decimalPlaces with
         | some (some q) => q
         | _ => if nt = .currency then 2 else 253) ∧
    (t = .datetime → DateFmt.validFormat f.dateTimeFormat = true) ∧
    (nt = .currency → (Gen.currencies.any fun c => c.toList == f.currencyCode) = true) ∧
    (nt = .base → 2 ≤ f.base ∧ f.base ≤ 36 ∧ (f.baseUseMinus = true ∨ f.base = 2 ∨ f.base = 8 ∨ f.base = 16)) := by
  intro nt
  unfold Formatting.make at h
  cases hu : a.unknownKeyword
  · simp only [hu, Bool.false_eq_true, if_false] at h
    dsimp only [Formatting.postInit] at h
    by_cases c1 : (Formatting.init t a).type = FType.datetime ∧ (!DateFmt.validFormat (Formatting.init t a).dateTimeFormat) = true
    · rw [if_pos c1] at h; cases h
    rw [if_neg c1] at h
    by_cases c2 : (Formatting.init t a).numberType = FType.currency ∧
        (!Gen.currencies.any fun c => c.toList == (Formatting.init t a).currencyCode) = true
    · rw [if_pos c2] at h; cases h
    rw [if_neg c2] at h
    by_cases c3 : (Formatting.init t a).numberType = FType.base ∧ (!(Formatting.init t a).baseUseMinus) = true ∧
        ¬((Formatting.init t a).base = 2 ∨ (Formatting.init t a).base = 8 ∨ (Formatting.init t a).base = 16)
    · rw [if_pos c3] at h; cases h
    rw [if_neg c3] at h
    by_cases c4 : (Formatting.init t a).numberType = FType.base ∧
        ((Formatting.init t a).base < 2 ∨ (Formatting.init t a).base > (Gen.MAX_BASE : Nat))
    · rw [if_pos c4] at h; cases h
    rw [if_neg c4] at h
    injection h with h
    injection h with hf hp
    subst hf
    refine ⟨rfl, rfl, rfl, rfl, rfl, rfl, rfl, rfl, rfl, rfl, rfl, ?_, ?_, ?_, ?_⟩
    · rw [← hp]
      cases hd : a.decimalPlaces with
      | none => simp [Formatting.init, hd, Gen.fdDecimalPlaces, nt]; rfl
      | some q => cases q <;> simp [Formatting.init, hd, Gen.fdDecimalPlaces, nt] <;> rfl
    · intro ht
      have : (Formatting.init t a).type = .datetime := ht
      simpa [this] using c1
    · intro hn
      simpa [nt, hn] using c2
    · intro hn
      have hn' : (Formatting.init t a).numberType = .base := hn
      simp only [hn', true_and] at c3 c4
      have hb : (Gen.MAX_BASE : Int) = 36 := rfl
      rw [hb] at c4
      show 2 ≤ (Formatting.init t a).base ∧ (Formatting.init t a).base ≤ 36 ∧ ((Formatting.init t a).baseUseMinus = true ∨
        (Formatting.init t a).base = 2 ∨ (Formatting.init t a).base = 8 ∨ (Formatting.init t a).base = 16)
      refine ⟨by omega, by omega, ?_⟩
      by_cases hm : (Formatting.init t a).baseUseMinus = true
      · exact Or.inl hm
      · right
        simp [hm] at c3
        omega
  · simp [hu] at h

/-- **the control formats display the value under their number format**: a slider / stepper whose `control_format` is `ct`
    displays exactly what the number format `ct` displays with the same arguments (same validation, same defaults, same
    formatter with the same arguments), or fails with the same exception. -/
theorem control_display_eq (env : Env) (c : Cell) (hk : c.kind = .number) (hd : c.durationFmt = none) (a : Args)
    (t : FType) (ht : t = .slider ∨ t = .stepper) (ct : CType) :
    setThenDisplay env c t.lower.toList { a with controlFormat := some (.control ct) } =
      setThenDisplay env c ct.toFType.lower.toList a := by
  rw [setThenDisplay_eq, setThenDisplay_eq]
  have hl : (setCellDataFormat c t.lower.toList { a with controlFormat := some (.control ct) } >>= selectFormatter) =
      (Formatting.make ct.toFType a >>= fun r => formatterOf ct.toFType r.1 r.2) := by
    rw [← make_control a t ht ct]
    rcases ht with rfl | rfl
    · exact set_slider c hk hd _ ct rfl
    · exact set_stepper c hk hd _ ct rfl
  have hr : (setCellDataFormat c ct.toFType.lower.toList a >>= selectFormatter) =
      (Formatting.make ct.toFType a >>= fun r => formatterOf ct.toFType r.1 r.2) := by
    cases ct
    · exact set_base c hk hd a
    · exact set_currency c hk hd a
    · exact set_fraction c hk hd a
    · exact set_number c hk hd a
    · exact set_percentage c hk hd a
    · exact set_scientific c hk hd a
  rw [hl, hr]

/-! ### the dispatch never fails on an archive the library built -/

theorem setParam_customUid (f : Formatting) (p : Int) (n : String) (a a' : Fmt) (h : setParam f p n a = .ok a') :
    a'.customUid = a.customUid := by
  unfold setParam at h
  repeat' split at h
  all_goals first
    | (cases h <;> rfl)
    | (simp only [bind, Except.bind, pure, Except.pure] at h
       split at h
       · cases h
       · cases h <;> rfl)

theorem setParams_customUid (f : Formatting) (p : Int) (ns : List String) (a a' : Fmt) (h : setParams f p ns a = .ok a') :
    a'.customUid = a.customUid := by
  induction ns generalizing a with
  | nil => simp [setParams] at h; rw [h]
  | cons n rest ih =>
    simp only [setParams, bind, Except.bind] at h
    split at h
    · cases h
    · rename_i a1 h1
      rw [ih a1 h, setParam_customUid f p n a a1 h1]

theorem formatArchive_customUid (key : Nat) (f : Formatting) (p : Int) (fmt : Fmt) (h : formatArchive key f p = .ok fmt) :
    fmt.customUid = none := by
  unfold formatArchive at h
  split at h
  · exact setParams_customUid f p _ _ _ h
  · cases h

theorem formatChoice_customUid (c : Cell) (name : Text) (a : Args) (r : Fmt × FType × Option Ctl × Bool)
    (h : formatChoice c name a = .ok r) : r.1.customUid = none := by
  simp only [formatChoice, bind, Except.bind, throw, throwThe, MonadExceptOf.throw, pure, Except.pure] at h
  repeat' split at h
  all_goals first
    | (injection h with h; subst h; exact formatArchive_customUid _ _ _ _ (by assumption))
    | cases h

theorem select_total (c : Cell)
    (h1 : ∀ f, c.dateFmt = some f → f.customUid = none) (h2 : ∀ f, c.numFmt = some f → f.customUid = none)
    (h3 : ∀ f, c.currencyFmt = some f → f.customUid = none) (h4 : ∀ f, c.textFmt = some f → f.customUid = none)
    (h5 : ∀ f, c.boolFmt = some f → f.customUid = none) : ∃ fm, selectFormatter c = .ok fm := by
  unfold selectFormatter
  split
  · exact ⟨_, rfl⟩
  split
  · exact ⟨_, rfl⟩
  split
  · rename_i f hf _
    simp only [dateFormatter, h1 f hf]
    exact ⟨_, rfl⟩
  split
  · unfold customFormatter
    split
    · exact ⟨_, rfl⟩
    · rename_i f hs
      have hcu : f.customUid = none := by
        unfold selectCustom at hs
        repeat' split at hs
        all_goals first
          | exact h4 f hs
          | exact h3 f hs
          | exact h5 f hs
          | exact h2 f hs
          | cases hs
      simp only [hcu]
      split <;> exact ⟨_, rfl⟩
  · exact ⟨_, rfl⟩

/-- **dispatch_total** (dispatch part): whatever the cell carried before, after a successful `set_cell_formatting` the
    dispatch of `formatted_value` selects exactly one formatter - it cannot raise (the only exception of the dispatch, the
    `KeyError` of a custom uid missing from the document's custom format list, needs an archive with a `custom_uid`, which
    `format_archive` never builds). -/
theorem set_then_select_total (c : Cell) (name : Text) (a : Args) (c' : Cell) (h : setCellDataFormat c name a = .ok c') :
    ∃ fm, selectFormatter c' = .ok fm := by
  unfold setCellDataFormat at h
  cases hc : formatChoice c name a with
  | error e => simp [hc, bind, Except.bind] at h
  | ok r =>
    simp only [hc, bind, Except.bind, pure, Except.pure] at h
    injection h with h
    subst h
    have hcu := formatChoice_customUid c name a r hc
    obtain ⟨fmt, t, ctl, cur⟩ := r
    apply select_total <;> cases t <;> cases cur <;> simp [setFormatting] <;> exact hcu

theorem u32_error (i : Int) (e : PyExc) (h : u32 i = .error e) : e = .ValueError := by
  unfold u32 at h; split at h <;> cases h; rfl

theorem formatArchive_error (key : Nat) (hk : key ∈ [1, 2, 3, 4, 5, 6, 7, 8, 9, 13]) (f : Formatting) (p : Int) (e : PyExc)
    (h : formatArchive key f p = .error e) : e = .ValueError := by
  simp only [List.mem_cons, List.mem_nil_iff, or_false] at hk
  rcases hk with rfl | rfl | rfl | rfl | rfl | rfl | rfl | rfl | rfl | rfl
  · rw [fa_base] at h
    cases h1 : u32 f.base <;> cases h2 : u32 f.basePlaces <;> simp [h1, h2, bind, Except.bind, pure, Except.pure] at h <;>
      first | exact h ▸ u32_error _ _ h1 | exact h ▸ u32_error _ _ h2
  · rw [fa_currency] at h
    cases h1 : u32 p <;> cases h2 : u32 f.negativeStyle <;> simp [h1, h2, bind, Except.bind, pure, Except.pure] at h <;>
      first | exact h ▸ u32_error _ _ h1 | exact h ▸ u32_error _ _ h2
  · rw [fa_datetime] at h; cases h
  · rw [fa_fraction] at h
    cases h1 : u32 f.fractionAccuracy <;> simp [h1, bind, Except.bind, pure, Except.pure] at h
    exact h ▸ u32_error _ _ h1
  · rw [fa_number] at h
    cases h1 : u32 p <;> cases h2 : u32 f.negativeStyle <;> simp [h1, h2, bind, Except.bind, pure, Except.pure] at h <;>
      first | exact h ▸ u32_error _ _ h1 | exact h ▸ u32_error _ _ h2
  · rw [fa_percentage] at h
    cases h1 : u32 p <;> cases h2 : u32 f.negativeStyle <;> simp [h1, h2, bind, Except.bind, pure, Except.pure] at h <;>
      first | exact h ▸ u32_error _ _ h1 | exact h ▸ u32_error _ _ h2
  · rw [fa_scientific] at h
    cases h1 : u32 p <;> simp [h1, bind, Except.bind, pure, Except.pure] at h
    exact h ▸ u32_error _ _ h1
  · rw [fa_tickbox] at h; cases h
  · rw [fa_rating] at h; cases h
  · rw [fa_text] at h; cases h

theorem resolveType_error (name : Text) (e : PyExc) (h : resolveType name = .error e) : e = .TypeError := by
  unfold resolveType at h; split at h <;> cases h; rfl

theorem make_error (t : FType) (a : Args) (e : PyExc) (h : Formatting.make t a = .error e) : e = .TypeError := by
  unfold Formatting.make at h
  split at h
  · cases h; rfl
  · dsimp only [Formatting.postInit] at h
    repeat' split at h
    all_goals cases h
    all_goals rfl

theorem popupCheck_error (c : Cell) (f : Formatting) (e : PyExc) (h : popupCheck c f = .error e) : e = .IndexError := by
  unfold popupCheck at h
  repeat' split at h
  all_goals cases h
  all_goals rfl

theorem ctype_key (ct : CType) : ct.toFType.code ∈ [1, 2, 3, 4, 5, 6, 7, 8, 9, 13] := by cases ct <;> decide

theorem plain_key (t : FType) (h1 : ¬(t = .slider ∨ t = .stepper)) (h2 : ¬ t = .popup) :
    t.code ∈ [1, 2, 3, 4, 5, 6, 7, 8, 9, 13] := by
  cases t <;> simp_all [FType.code]

theorem formatChoice_error_class (c : Cell) (name : Text) (a : Args) (e : PyExc) (h : formatChoice c name a = .error e) :
    e = .TypeError ∨ e = .IndexError ∨ e = .ValueError := by
  simp only [formatChoice, bind, Except.bind, throw, throwThe, MonadExceptOf.throw, pure, Except.pure] at h
  repeat' split at h
  all_goals first
    | (injection h with h; subst h
       first
        | exact Or.inl (resolveType_error _ _ (by assumption))
        | exact Or.inl (make_error _ _ _ (by assumption))
        | exact Or.inr (Or.inl (popupCheck_error _ _ _ (by assumption)))
        | exact Or.inr (Or.inr (formatArchive_error _ (ctype_key _) _ _ _ (by assumption)))
        | exact Or.inr (Or.inr (formatArchive_error FType.number.code (by decide) _ _ _ (by assumption)))
        | exact Or.inr (Or.inr (formatArchive_error (if c.kind = CellKind.text then FType.text.code else 1)
            (by split <;> decide) _ _ _ (by assumption)))
        | exact Or.inr (Or.inr (formatArchive_error _ (plain_key _ (by assumption) (by assumption)) _ _ _ (by assumption)))
        | exact Or.inl rfl)
    | cases h

/-- **dispatch_total** (exceptions): `set_cell_formatting` raises nothing but `TypeError` (a name that is no format, a cell
    kind the format does not allow, an argument `Formatting` rejects or does not have, an unknown control format),
    `IndexError` (a popup whose items do not hold the cell's value) or `ValueError` (an integer argument that does not fit
    the archive's uint32 field). -/
theorem set_error_class (c : Cell) (name : Text) (a : Args) (e : PyExc) (h : setCellDataFormat c name a = .error e) :
    e = .TypeError ∨ e = .IndexError ∨ e = .ValueError := by
  unfold setCellDataFormat at h
  cases hc : formatChoice c name a with
  | error e' =>
    simp only [hc, bind, Except.bind] at h
    injection h with h
    subst h
    exact formatChoice_error_class c name a _ hc
  | ok r => simp [hc, bind, Except.bind, pure, Except.pure] at h

end NumbersModel.FormatDispatch
