/-
Lemmas for Model/TablePipeline.lean: the invariant of the string list while a table is saved,
what `saveCell` / `saveCells` / `saveRow` / `saveRows` / `saveTiles` produce, which row every
saved row-info declares, and the read path over the objects so produced.
-/
import NumbersModel.Model.TablePipeline
import NumbersModel.Lemmas.CellRecord
import NumbersModel.Lemmas.RowStorage
import NumbersModel.Lemmas.Layout
namespace NumbersModel.TablePipeline
open NumbersModel NumbersModel.CellRecord NumbersModel.Layout

/-! ### pointwise relation of two lists -/

inductive All₂ {α β : Type} (R : α → β → Prop) : List α → List β → Prop
  | nil : All₂ R [] []
  | cons {a b l₁ l₂} : R a b → All₂ R l₁ l₂ → All₂ R (a :: l₁) (b :: l₂)

namespace All₂
variable {α β : Type} {R S : α → β → Prop}

theorem mono (h : ∀ a b, R a b → S a b) : ∀ {l₁ l₂}, All₂ R l₁ l₂ → All₂ S l₁ l₂
  | _, _, .nil => .nil
  | _, _, .cons hr ht => .cons (h _ _ hr) (mono h ht)

theorem length_eq : ∀ {l₁ : List α} {l₂ : List β}, All₂ R l₁ l₂ → l₁.length = l₂.length
  | _, _, .nil => rfl
  | _, _, .cons _ ht => by simp [length_eq ht]

theorem get : ∀ {l₁ : List α} {l₂ : List β}, All₂ R l₁ l₂ → ∀ (i : Nat) x, l₁[i]? = some x →
    ∃ y, l₂[i]? = some y ∧ R x y
  | _, _, .nil, i, x, h => by simp at h
  | _, _, .cons hr ht, i, x, h => by
    cases i with
    | zero => simp at h; subst h; exact ⟨_, by simp, hr⟩
    | succ j => simp at h; simpa using get ht j x h

theorem mem_right : ∀ {l₁ : List α} {l₂ : List β}, All₂ R l₁ l₂ → ∀ y ∈ l₂, ∃ x ∈ l₁, R x y
  | _, _, .nil, y, h => by simp at h
  | _, _, .cons hr ht, y, h => by
    rcases List.mem_cons.mp h with rfl | h
    · exact ⟨_, by simp, hr⟩
    · obtain ⟨x, hx, hxy⟩ := mem_right ht y h
      exact ⟨x, List.mem_cons_of_mem _ hx, hxy⟩

theorem with_mem : ∀ {l₁ : List α} {l₂ : List β}, All₂ R l₁ l₂ → All₂ (fun a b => a ∈ l₁ ∧ R a b) l₁ l₂
  | _, _, .nil => .nil
  | _, _, .cons hr ht =>
    .cons ⟨by simp, hr⟩ ((with_mem ht).mono fun _ _ h => ⟨List.mem_cons_of_mem _ h.1, h.2⟩)

theorem append : ∀ {l₁ : List α} {l₂ : List β} {m₁ : List α} {m₂ : List β},
    All₂ R l₁ l₂ → All₂ R m₁ m₂ → All₂ R (l₁ ++ m₁) (l₂ ++ m₂)
  | _, _, _, _, .nil, hm => hm
  | _, _, _, _, .cons hr ht, hm => .cons hr (append ht hm)

theorem map_eq {γ : Type} (f : α → γ) (g : β → γ) : ∀ {l₁ : List α} {l₂ : List β},
    All₂ (fun a b => g b = f a) l₁ l₂ → l₂.map g = l₁.map f
  | _, _, .nil => rfl
  | _, _, .cons hr ht => by simp [hr, map_eq f g ht]
end All₂

/-! ### the string list while a table is saved -/

/-- the (key, string) pairs of the entries, in list order (refcounts left out). -/
def kv (dl : Strs) : List (Nat × Text) := dl.entries.map fun e => (e.key, e.value)

/-- invariant of `DataLists` between `init` and the end of the save: keys are 1..n in list
    order, `next_key = n + 1`, `by_value` maps exactly the stored strings to their keys and
    `key_index` maps every key to the position of its entry. -/
structure StrInv (dl : Strs) : Prop where
  keys : (kv dl).map Prod.fst = List.range' 1 dl.entries.length
  next : dl.idx.nextKey = dl.entries.length + 1
  sound : ∀ v k, dictGet? dl.idx.byValue v = some k → (k, v) ∈ kv dl
  complete : ∀ k v, (k, v) ∈ kv dl → dictGet? dl.idx.byValue v = some k
  index : ∀ i k v, (kv dl)[i]? = some (k, v) → dictGet? dl.idx.keyIndex k = some i

theorem strInv_reset : StrInv resetStrings := by
  refine ⟨rfl, rfl, ?_, ?_, ?_⟩ <;> simp [resetStrings, kv, dictGet?]

theorem kv_length (dl : Strs) : (kv dl).length = dl.entries.length := by simp [kv]

theorem key_le (dl : Strs) (h : StrInv dl) (k : Nat) (v : Text) (hm : (k, v) ∈ kv dl) :
    1 ≤ k ∧ k ≤ dl.entries.length := by
  have : k ∈ (kv dl).map Prod.fst := List.mem_map.mpr ⟨(k, v), hm, rfl⟩
  rw [h.keys, List.mem_range'] at this
  obtain ⟨i, hi, rfl⟩ := this
  omega

theorem bumpRefcount_ok : ∀ (es : List (Entry Text)) (i : Nat), i < es.length →
    ∃ es', bumpRefcount es i = .ok es' ∧
      (es'.map fun e => (e.key, e.value)) = es.map fun e => (e.key, e.value)
  | [], i, h => by simp at h
  | e :: r, 0, _ => ⟨_, rfl, by simp⟩
  | e :: r, i + 1, h => by
    obtain ⟨es', h1, h2⟩ := bumpRefcount_ok r i (by simpa using h)
    refine ⟨e :: es', by simp [bumpRefcount, h1, Except.map], by simp [h2]⟩

/-- the list after `lookup_key` allocated a new entry for `v`. -/
def pushNew (dl : Strs) (v : Text) : Strs :=
  { entries := dl.entries ++ [⟨dl.idx.nextKey, 1, v⟩],
    nextListID := dl.nextListID + 1,
    idx := { byKey := dictSet dl.idx.byKey dl.idx.nextKey v,
             keyIndex := dictSet dl.idx.keyIndex dl.idx.nextKey ((dl.entries ++ [(⟨dl.idx.nextKey, 1, v⟩ : Entry Text)]).length - 1),
             byValue := dictSet dl.idx.byValue v dl.idx.nextKey,
             nextKey := dl.idx.nextKey + 1 } }

theorem kv_pushNew (dl : Strs) (v : Text) : kv (pushNew dl v) = kv dl ++ [(dl.idx.nextKey, v)] := by
  simp [kv, pushNew]

theorem strInv_pushNew (dl : Strs) (h : StrInv dl) (v : Text) (hg : dictGet? dl.idx.byValue v = none) :
    StrInv (pushNew dl v) := by
  have hkv := kv_pushNew dl v
  refine ⟨?_, ?_, ?_, ?_, ?_⟩
  · rw [hkv]
    simp only [List.map_append, h.keys, List.map_cons, List.map_nil, h.next]
    have : (pushNew dl v).entries.length = dl.entries.length + 1 := by simp [pushNew]
    rw [this, List.range'_concat]
    simp [Nat.add_comm]
  · simp [pushNew, h.next]
  · intro v' k' hk'
    rw [hkv]
    simp only [pushNew, dictGet?_dictSet] at hk'
    by_cases hv : v = v'
    · subst hv; simp at hk'; subst hk'; simp
    · rw [if_neg hv] at hk'
      exact List.mem_append_left _ (h.sound v' k' hk')
  · intro k' v' hm
    rw [hkv] at hm
    simp only [pushNew, dictGet?_dictSet]
    rcases List.mem_append.mp hm with hm | hm
    · have hc := h.complete k' v' hm
      have hv : v ≠ v' := by intro e; subst e; rw [hg] at hc; cases hc
      rw [if_neg hv]; exact hc
    · simp at hm; obtain ⟨rfl, rfl⟩ := hm; simp
  · intro i k' v' hi
    rw [hkv] at hi
    simp only [pushNew, dictGet?_dictSet]
    by_cases hlt : i < (kv dl).length
    · rw [List.getElem?_append_left hlt] at hi
      have hm : (k', v') ∈ kv dl := List.mem_of_getElem? hi
      have hle := key_le dl h k' v' hm
      have hne : dl.idx.nextKey ≠ k' := by rw [h.next]; omega
      rw [if_neg hne]
      exact h.index i k' v' hi
    · rw [List.getElem?_append_right (by omega)] at hi
      have hi0 : i - (kv dl).length = 0 := by
        cases hd : i - (kv dl).length with
        | zero => rfl
        | succ j => rw [hd] at hi; simp at hi
      rw [hi0] at hi
      simp at hi
      obtain ⟨rfl, rfl⟩ := hi
      rw [if_pos rfl]
      rw [kv_length] at hlt hi0
      simp; omega

/-- `lookup_key` on a list in the invariant: never raises, returns a key that is paired with the
    string in the new list, keeps every old pair in place and adds at most one entry. -/
theorem lookupKey_spec (dl : Strs) (h : StrInv dl) (v : Text) :
    ∃ k dl', lookupKey dl v = .ok (k, dl') ∧ StrInv dl' ∧ (k, v) ∈ kv dl' ∧
      (∃ ext, kv dl' = kv dl ++ ext) ∧ dl'.entries.length ≤ dl.entries.length + 1 := by
  cases hg : dictGet? dl.idx.byValue v with
  | none =>
    refine ⟨dl.idx.nextKey, pushNew dl v, ?_, strInv_pushNew dl h v hg, ?_, ⟨_, kv_pushNew dl v⟩, ?_⟩
    · simp [lookupKey, hg, pushNew]
    · rw [kv_pushNew]; simp
    · simp [pushNew]
  | some key =>
    have hm := h.sound v key hg
    obtain ⟨i, hi⟩ := List.getElem?_of_mem hm
    have hidx := h.index i key v hi
    have hlt : i < dl.entries.length := by
      have := (List.getElem?_eq_some_iff.mp hi).1
      rwa [kv_length] at this
    obtain ⟨es', hb, hkv'⟩ := bumpRefcount_ok dl.entries i hlt
    have hlen : es'.length = dl.entries.length := by
      have := congrArg List.length hkv'
      simpa using this
    have hkveq : kv { dl with entries := es' } = kv dl := hkv'
    refine ⟨key, { dl with entries := es' }, ?_, ?_, ?_, ⟨[], ?_⟩, ?_⟩
    · simp [lookupKey, hg, dictGet, hidx, hb, bind, Except.bind, pure, Except.pure]
    · exact ⟨by rw [hkveq, h.keys, hlen], by simp [h.next, hlen], by rw [hkveq]; exact h.sound,
        by rw [hkveq]; exact h.complete, by rw [hkveq]; exact h.index⟩
    · rw [hkveq]; exact hm
    · simp [hkveq]
    · simp [hlen]

/-! ### cells -/

/-- what `_to_buffer` stores of a cell: payload sizes as the packers produce them (the string key
    is assigned by the save itself). -/
def EncodableT (c : TCell) : Prop := Encodable (toCell c 0)

/-- a cell of a table that can be saved without loss: a merged placeholder, or a supported class
    with well-sized payload and int32 ids. -/
def ValidCell (c : TCell) : Prop := c.kind = .merged ∨ (EncodableT c ∧ IdsInRange c.ids)

theorem encodable_key (c : TCell) (he : EncodableT c) (k : Int) (hk : I32 k) : Encodable (toCell c k) := by
  unfold EncodableT Encodable at *
  cases hkind : c.kind <;> simp_all [toCell]

/-- the 2^31 − 1 keys an int32 field can hold. -/
def keyBudget : Nat := 2147483647

/-- relation between a cell, the record stored for it and the (key, string) pairs of the string
    list: a merged placeholder has no record; any other cell has the record of `toCell c k` for a
    key `k` that fits an int32 and — for a text cell — is paired with the cell's string. -/
def CellOK (pairs : List (Nat × Text)) (c : TCell) (enc : Option Bytes) : Prop :=
  (c.kind = .merged ∧ enc = none) ∨
  (c.kind ≠ .merged ∧ ∃ k : Nat, k ≤ keyBudget ∧ Encodable (toCell c k) ∧ IdsInRange c.ids ∧
      enc = some (cellBytes (toCell c k)) ∧ (c.kind = .text → (k, c.text) ∈ pairs))

theorem CellOK.mono {p p' : List (Nat × Text)} (hp : ∀ x ∈ p, x ∈ p') {c : TCell} {e : Option Bytes}
    (h : CellOK p c e) : CellOK p' c e := by
  rcases h with h | ⟨h1, k, h2, h3, h4, h5, h6⟩
  · exact .inl h
  · exact .inr ⟨h1, k, h2, h3, h4, h5, fun ht => hp _ (h6 ht)⟩

theorem i32_of_le_budget (k : Nat) (h : k ≤ keyBudget) : I32 (k : Int) := by
  unfold keyBudget at h; unfold I32; omega

theorem saveCell_spec (dl : Strs) (h : StrInv dl) (c : TCell) (hv : ValidCell c)
    (hb : dl.entries.length + 1 ≤ keyBudget) :
    ∃ enc dl', saveCell dl c = .ok (enc, dl') ∧ StrInv dl' ∧ (∃ ext, kv dl' = kv dl ++ ext) ∧
      dl'.entries.length ≤ dl.entries.length + 1 ∧ CellOK (kv dl') c enc := by
  unfold saveCell
  by_cases ht : c.kind = .text
  · rw [if_pos ht]
    obtain ⟨k, dl', hk, hinv, hmem, hext, hlen⟩ := lookupKey_spec dl h c.text
    have hkb : k ≤ keyBudget := by have := (key_le dl' hinv k c.text hmem).2; omega
    rcases hv with hv | ⟨he, hr⟩
    · rw [hv] at ht; cases ht
    · have hen := encodable_key c he k (i32_of_le_budget k hkb)
      have henc := encode_eq (toCell c k) hen hr
      refine ⟨_, dl', ?_, hinv, hext, hlen, .inr ⟨by rw [ht]; decide, k, hkb, hen, hr, rfl, fun _ => hmem⟩⟩
      simp [hk, henc, bind, Except.bind, pure, Except.pure]
  · rw [if_neg ht]
    rcases hv with hv | ⟨he, hr⟩
    · have henc := encode_none (toCell c 0) (.inl hv)
      refine ⟨none, dl, ?_, h, ⟨[], by simp⟩, by omega, .inl ⟨hv, rfl⟩⟩
      simp [henc, bind, Except.bind, pure, Except.pure]
    · have hnm : c.kind ≠ .merged := by
        intro hm; unfold EncodableT Encodable at he; simp [toCell, hm] at he
      have henc := encode_eq (toCell c 0) he hr
      refine ⟨_, dl, ?_, h, ⟨[], by simp⟩, by omega,
        .inr ⟨hnm, 0, by unfold keyBudget; omega, he, hr, rfl, fun h' => absurd h' ht⟩⟩
      simp [henc, bind, Except.bind, pure, Except.pure]

theorem saveCells_spec : ∀ (cells : List TCell) (dl : Strs), StrInv dl → (∀ c ∈ cells, ValidCell c) →
    dl.entries.length + cells.length ≤ keyBudget →
    ∃ encs dl', saveCells dl cells = .ok (encs, dl') ∧ StrInv dl' ∧ (∃ ext, kv dl' = kv dl ++ ext) ∧
      dl'.entries.length ≤ dl.entries.length + cells.length ∧ All₂ (CellOK (kv dl')) cells encs
  | [], dl, h, _, _ => ⟨[], dl, rfl, h, ⟨[], by simp⟩, by simp, .nil⟩
  | c :: r, dl, h, hv, hb => by
    simp only [List.length_cons] at hb
    obtain ⟨e, dl1, h1, hinv1, ⟨ext1, hext1⟩, hlen1, hok1⟩ :=
      saveCell_spec dl h c (hv c (by simp)) (by omega)
    obtain ⟨es, dl2, h2, hinv2, ⟨ext2, hext2⟩, hlen2, hok2⟩ :=
      saveCells_spec r dl1 hinv1 (fun c' hc' => hv c' (List.mem_cons_of_mem _ hc')) (by omega)
    refine ⟨e :: es, dl2, ?_, hinv2, ⟨ext1 ++ ext2, by rw [hext2, hext1, List.append_assoc]⟩,
      by simp only [List.length_cons]; omega, .cons (hok1.mono ?_) hok2⟩
    · simp [saveCells, h1, h2, bind, Except.bind, pure, Except.pure]
    · intro x hx; rw [hext2]; exact List.mem_append_left _ hx

/-! ### rows -/

/-- a saved row-info reads back (with `numCols` columns) as records that stand for the cells. -/
def RowOK (pairs : List (Nat × Text)) (numCols : Nat) (cells : List TCell) (sr : SavedRow) : Prop :=
  ∃ encs, All₂ (CellOK pairs) cells encs ∧
    RowStorage.rowBuffers sr.storage sr.offsets numCols sr.wide = .ok encs

theorem RowOK.mono {p p' : List (Nat × Text)} (hp : ∀ x ∈ p, x ∈ p') {n : Nat} {cells : List TCell}
    {sr : SavedRow} (h : RowOK p n cells sr) : RowOK p' n cells sr := by
  obtain ⟨encs, h1, h2⟩ := h
  exact ⟨encs, h1.mono (fun _ _ hc => hc.mono hp), h2⟩

theorem cellOK_length {p : List (Nat × Text)} {c : TCell} {b : Bytes} (h : CellOK p c (some b)) :
    b.length ≤ 12 + 16 + 12 * 4 ∧ b.length % 4 = 0 := by
  rcases h with ⟨_, h⟩ | ⟨_, k, _, he, _, hb, _⟩
  · cases h
  · injection hb with hb
    rw [hb]
    exact ⟨(cellBytes_length _ he).2, (cellBytes_length _ he).1⟩

theorem saveRow_spec (width0 : Nat) (hw : width0 ≤ Gen.MAX_COL_COUNT) (dl : Strs) (h : StrInv dl) (idx : Nat)
    (cells : List TCell) (hlen : cells.length = width0) (hv : ∀ c ∈ cells, ValidCell c)
    (hb : dl.entries.length + width0 ≤ keyBudget) :
    ∃ sr dl', saveRow width0 dl idx cells = .ok (sr, dl') ∧ StrInv dl' ∧ (∃ ext, kv dl' = kv dl ++ ext) ∧
      dl'.entries.length ≤ dl.entries.length + width0 ∧ sr.tileRowIndex = idx ∧
      RowOK (kv dl') width0 cells sr := by
  obtain ⟨encs, dl', h1, hinv, hext, hl, hok⟩ := saveCells_spec cells dl h hv (by omega)
  have hel : encs.length = width0 := by rw [← hok.length_eq, hlen]
  have hbytes : ∀ b, some b ∈ encs → b.length ≤ 12 + 16 + 12 * 4 ∧ b.length % 4 = 0 := by
    intro b hb'
    obtain ⟨c, _, hc⟩ := hok.mem_right (some b) hb'
    exact cellOK_length hc
  have hfit := RowStorage.offsets_fit encs 76 (by omega) (fun b hb' => (hbytes b hb').1) (by decide)
  obtain ⟨ob, st, n, hri, _, _, _, hrb⟩ :=
    RowStorage.row_write_read width0 encs (by omega) hfit (fun b hb' => (hbytes b hb').2)
  refine ⟨{ tileRowIndex := idx, cellCount := n, offsets := ob, storage := st, wide := true }, dl',
    ?_, hinv, hext, by omega, rfl, ⟨encs, hok, ?_⟩⟩
  · simp [saveRow, h1, hri, bind, Except.bind, pure, Except.pure]
  · simpa [hel] using hrb

theorem saveRows_spec (width0 : Nat) (hw : width0 ≤ Gen.MAX_COL_COUNT) :
    ∀ (rows : List (List TCell)) (dl : Strs) (i : Nat), StrInv dl →
    (∀ row ∈ rows, row.length = width0 ∧ ∀ c ∈ row, ValidCell c) →
    dl.entries.length + rows.length * width0 ≤ keyBudget →
    ∃ ris dl', saveRows width0 dl i rows = .ok (ris, dl') ∧ StrInv dl' ∧
      (∃ ext, kv dl' = kv dl ++ ext) ∧ dl'.entries.length ≤ dl.entries.length + rows.length * width0 ∧
      ris.map (·.tileRowIndex) = List.range' i rows.length ∧ All₂ (RowOK (kv dl') width0) rows ris
  | [], dl, i, h, _, _ => ⟨[], dl, rfl, h, ⟨[], by simp⟩, by simp, rfl, .nil⟩
  | row :: rest, dl, i, h, hv, hb => by
    simp only [List.length_cons, Nat.succ_mul] at hb ⊢
    obtain ⟨hrl, hrv⟩ := hv row (by simp)
    obtain ⟨sr, dl1, h1, hinv1, ⟨ext1, hext1⟩, hlen1, hidx, hok1⟩ :=
      saveRow_spec width0 hw dl h i row hrl hrv (by omega)
    obtain ⟨ris, dl2, h2, hinv2, ⟨ext2, hext2⟩, hlen2, hidx2, hok2⟩ :=
      saveRows_spec width0 hw rest dl1 (i + 1) hinv1 (fun r hr => hv r (List.mem_cons_of_mem _ hr)) (by omega)
    refine ⟨sr :: ris, dl2, ?_, hinv2, ⟨ext1 ++ ext2, by rw [hext2, hext1, List.append_assoc]⟩,
      by omega, ?_, .cons (hok1.mono ?_) hok2⟩
    · simp [saveRows, h1, h2, bind, Except.bind, pure, Except.pure]
    · simp [hidx, hidx2, List.range'_succ]
    · intro x hx; rw [hext2]; exact List.mem_append_left _ hx

theorem decodeRows_spec {p : List (Nat × Text)} {n : Nat} : ∀ {rows : List (List TCell)} {ris : List SavedRow},
    All₂ (RowOK p n) rows ris →
    ∃ encss, decodeRows n ris = .ok encss ∧ All₂ (All₂ (CellOK p)) rows encss
  | _, _, .nil => ⟨[], rfl, .nil⟩
  | _, _, .cons ⟨encs, h1, h2⟩ ht => by
    obtain ⟨encss, h3, h4⟩ := decodeRows_spec ht
    exact ⟨encs :: encss, by simp [decodeRows, h2, h3, bind, Except.bind, pure, Except.pure], .cons h1 h4⟩

/-! ### tiles -/

/-- a saved tile stands for the (tile index, rows) pair it was written from. -/
def TileOK (pairs : List (Nat × Text)) (numCols : Nat) (t : Nat × List (List TCell)) (st : SavedTile) : Prop :=
  st.tileid = t.1 ∧ st.lastSavedInBNC = true ∧ st.numrows = t.2.length ∧
  st.rowInfos.map (·.tileRowIndex) = List.range' 0 t.2.length ∧ All₂ (RowOK pairs numCols) t.2 st.rowInfos

theorem TileOK.mono {p p' : List (Nat × Text)} (hp : ∀ x ∈ p, x ∈ p') {n : Nat} {t : Nat × List (List TCell)}
    {st : SavedTile} (h : TileOK p n t st) : TileOK p' n t st :=
  ⟨h.1, h.2.1, h.2.2.1, h.2.2.2.1, h.2.2.2.2.mono (fun _ _ hr => hr.mono hp)⟩

theorem saveTiles_spec (width0 : Nat) (hw : width0 ≤ Gen.MAX_COL_COUNT) :
    ∀ (tl : List (Nat × List (List TCell))) (dl : Strs), StrInv dl →
    (∀ t ∈ tl, ∀ row ∈ t.2, row.length = width0 ∧ ∀ c ∈ row, ValidCell c) →
    dl.entries.length + (tl.flatMap (·.2)).length * width0 ≤ keyBudget →
    ∃ ts dl', saveTiles width0 dl tl = .ok (ts, dl') ∧ StrInv dl' ∧ (∃ ext, kv dl' = kv dl ++ ext) ∧
      dl'.entries.length ≤ dl.entries.length + (tl.flatMap (·.2)).length * width0 ∧
      All₂ (TileOK (kv dl') width0) tl ts
  | [], dl, h, _, _ => ⟨[], dl, rfl, h, ⟨[], by simp⟩, by simp, .nil⟩
  | (ti, rows) :: rest, dl, h, hv, hb => by
    simp only [List.flatMap_cons, List.length_append, Nat.add_mul] at hb ⊢
    obtain ⟨ris, dl1, h1, hinv1, ⟨ext1, hext1⟩, hlen1, hidx1, hok1⟩ :=
      saveRows_spec width0 hw rows dl 0 h (fun r hr => hv (ti, rows) (by simp) r hr) (by omega)
    obtain ⟨ts, dl2, h2, hinv2, ⟨ext2, hext2⟩, hlen2, hok2⟩ :=
      saveTiles_spec width0 hw rest dl1 hinv1 (fun t ht => hv t (List.mem_cons_of_mem _ ht)) (by omega)
    have hsub : ∀ x ∈ kv dl1, x ∈ kv dl2 := by
      intro x hx; rw [hext2]; exact List.mem_append_left _ hx
    refine ⟨{ tileid := ti, numrows := rows.length, lastSavedInBNC := true, rowInfos := ris } :: ts, dl2,
      ?_, hinv2, ⟨ext1 ++ ext2, by rw [hext2, hext1, List.append_assoc]⟩, by omega,
      .cons ⟨rfl, rfl, rfl, hidx1, hok1.mono (fun _ _ hr => hr.mono hsub)⟩ hok2⟩
    simp [saveTiles, h1, h2, bind, Except.bind, pure, Except.pure]

theorem decodeTiles_spec {p : List (Nat × Text)} {n : Nat} :
    ∀ {tl : List (Nat × List (List TCell))} {ts : List SavedTile}, All₂ (TileOK p n) tl ts →
    ∃ encss, decodeTiles n ts = .ok encss ∧ All₂ (All₂ (CellOK p)) (tl.flatMap (·.2)) encss
  | _, _, .nil => ⟨[], rfl, .nil⟩
  | _, _, .cons ⟨_, hbnc, _, _, hrows⟩ ht => by
    obtain ⟨e1, h1, h2⟩ := decodeRows_spec hrows
    obtain ⟨e2, h3, h4⟩ := decodeTiles_spec ht
    refine ⟨e1 ++ e2, ?_, by simpa using h2.append h4⟩
    simp [decodeTiles, hbnc, h1, h3, bind, Except.bind, pure, Except.pure]

/-- the rows the saved row-infos declare, in storage order. -/
theorem declared_spec {p : List (Nat × Text)} {n : Nat} (T : Nat) :
    ∀ {tl : List (Nat × List (List TCell))} {ts : List SavedTile}, All₂ (TileOK p n) tl ts →
    declaredRows T (ts.map toLayoutTile) = tl.flatMap (fun t => (List.range' 0 t.2.length).map (t.1 * T + ·))
  | _, _, .nil => rfl
  | _, _, .cons (b := st) ⟨hid, _, _, hidx, _⟩ ht => by
    have ih := declared_spec T ht
    simp only [declaredRows] at ih ⊢
    simp only [List.map_cons, List.flatten_cons, List.flatMap_cons, ih]
    congr 1
    simp only [toLayoutTile, List.map_map, hid]
    rw [← hidx, List.map_map]
    rfl

/-- every tile index with the positions of its rows enumerates the row indices 0 .. len − 1. -/
theorem tileLoop_declared {α} (data : List α) (hn : data.length ≠ 0) (fuel i : Nat)
    (hi : i ≤ (data.length - 1) / 256 + 1) (hf : (data.length - 1) / 256 + 2 ≤ fuel + i) :
    (RowStorage.tileLoop data fuel i).flatMap (fun t => (List.range' 0 t.2.length).map (t.1 * 256 + ·))
      = List.range' (256 * i) (data.length - 256 * i) := by
  obtain ⟨hM1, hM2⟩ := RowStorage.tile_div_facts data.length hn
  induction fuel generalizing i with
  | zero =>
    have hge : data.length - 256 * i = 0 := by omega
    simp [RowStorage.tileLoop, hge]
  | succ fuel ih =>
    unfold RowStorage.tileLoop
    rw [Nat.shiftRight_eq_div_pow]
    have h8 : (2:Nat) ^ 8 = 256 := by decide
    rw [h8]
    generalize hTdef : Gen.MAX_TILE_SIZE = T
    have hT : T = 256 := by rw [← hTdef]; rfl
    subst hT
    by_cases hle : i ≤ (data.length - 1) / 256
    · rw [if_pos ⟨hn, hle⟩, List.flatMap_cons]
      rw [ih (i + 1) (by omega) (by omega)]
      simp only [List.length_take, List.length_drop, List.map_add_range', Nat.add_zero]
      by_cases hbig : data.length - i * 256 > 256
      · rw [if_pos hbig]
        have e1 : min 256 (data.length - i * 256) = 256 := by omega
        have e2 : 256 * (i + 1) = i * 256 + 256 := by omega
        have e3 : data.length - 256 * i = 256 + (data.length - (i * 256 + 256)) := by omega
        have e4 : 256 * i = i * 256 := by omega
        rw [e1, e2, e3, e4, List.range'_append_1]
      · rw [if_neg hbig]
        have e1 : min (data.length - i * 256) (data.length - i * 256) = data.length - i * 256 := by omega
        have e2 : data.length - 256 * (i + 1) = 0 := by omega
        have e3 : 256 * i = i * 256 := by omega
        rw [e1, e2, e3]
        simp
    · rw [if_neg (fun h => hle h.2), List.flatMap_nil]
      have hge : data.length - 256 * i = 0 := by omega
      simp [hge]

theorem tiles_declared {α} (data : List α) (hn : data.length ≠ 0) :
    (RowStorage.tiles data).flatMap (fun t => (List.range' 0 t.2.length).map (t.1 * 256 + ·))
      = List.range data.length := by
  have := tileLoop_declared data hn (data.length + 2) 0 (Nat.zero_le _)
    (by have := Nat.div_le_self (data.length - 1) 256; omega)
  rw [List.range_eq_range']
  simpa [RowStorage.tiles] using this

theorem tiles_flat {α} (data : List α) : (RowStorage.tiles data).flatMap (·.2) = data := by
  by_cases hn : data.length = 0
  · have : data = [] := List.length_eq_zero_iff.mp hn
    subst this; simp [RowStorage.tiles, RowStorage.tileLoop_empty]
  · have := RowStorage.tileLoop_cover data hn (data.length + 2) 0 (Nat.zero_le _)
      (by have := Nat.div_le_self (data.length - 1) 256; omega)
    simpa [RowStorage.tiles] using this

/-! ### read path over the saved objects -/

/-- what reading returns for a cell that was saved under string key `k`. -/
def viewK (k : Nat) (c : TCell) : LCell :=
  if c.kind = .merged then .merged
  else .stored (view (toCell c k)) (if c.kind = .text then some c.text else none)

/-- the string keys are re-assigned by every save: compare cells up to the numeric value of
    `_string_id` (its presence is kept). -/
def forgetKey : LCell → LCell
  | .stored d t => .stored { d with stringId := d.stringId.map fun _ => 0 } t
  | c => c

/-- what `Table.__init__` must rebuild for a saved cell, up to the value of the string key. -/
def viewT (c : TCell) : LCell := viewK 0 c

theorem forgetKey_viewK (k : Nat) (c : TCell) : forgetKey (viewK k c) = viewT c := by
  unfold viewT viewK
  by_cases hm : c.kind = .merged
  · simp [hm, forgetKey]
  · simp only [if_neg hm, forgetKey]
    congr 1
    have he : extrasOf (toCell c k) = extrasOf (toCell c 0) := by
      rw [extrasOf_spec, extrasOf_spec]; rfl
    have hf : flagsWordOf (toCell c k) = flagsWordOf (toCell c 0) := by
      simp only [flagsWordOf, cellAcc, encAcc, closedAcc, kindPayload, toCell]
      cases c.kind <;> rfl
    simp only [view, he, hf]
    cases hk : c.kind <;> simp [toCell, hk]

theorem mapM_range' {α β : Type} (f : Nat → PyM β) (P : α → β → Prop) : ∀ (l : List α) (s : Nat),
    (∀ (i : Nat) x, l[i]? = some x → ∃ y, f (s + i) = .ok y ∧ P x y) →
    ∃ ys, (List.range' s l.length).mapM f = .ok ys ∧ All₂ P l ys
  | [], s, _ => ⟨[], by simp [pure, Except.pure], .nil⟩
  | a :: r, s, h => by
    obtain ⟨y, hy, hp⟩ := h 0 a (by simp)
    obtain ⟨ys, hys, hps⟩ := mapM_range' f P r (s + 1) (fun i x hx => by
      have := h (i + 1) x (by simpa using hx)
      rwa [show s + (i + 1) = s + 1 + i by omega] at this)
    refine ⟨y :: ys, ?_, .cons hp hps⟩
    simp only [List.length_cons, List.range'_succ, List.mapM_cons]
    simp only [Nat.add_zero] at hy
    simp [hy, hys, bind, Except.bind, pure, Except.pure]

/-- a key that the string list pairs with a string reads back that string. -/
theorem stringOf_pair (dl : Strs) (h : StrInv dl) (k : Nat) (v : Text) (hm : (k, v) ∈ kv dl) :
    stringOf (addTable dl.entries) (some (k : Int)) = .ok v := by
  obtain ⟨e, he, hkv⟩ := List.mem_map.mp hm
  have hk : e.key = k := by simpa using congrArg Prod.fst hkv
  have hv : e.value = v := by simpa using congrArg Prod.snd hkv
  have hn : (dl.entries.map (·.key)).Nodup := by
    have : dl.entries.map (·.key) = (kv dl).map Prod.fst := by simp [kv, Function.comp_def]
    rw [this, h.keys]
    exact List.nodup_range'
  have hl : lookupValue (addTable dl.entries) e.key = .ok e.value := by
    unfold lookupValue addTable dictGet
    rw [addTableGo_byKey, foldSet_get_mem _ _ dl.entries _ hn e he]
  have hnn : ¬ ((k : Int) < 0) := by omega
  simp only [stringOf, if_neg hnn, Int.toNat_natCast, tableString]
  rw [← hk, hl, hv]

theorem cellFromStorage_spec (dl : Strs) (h : StrInv dl) (c : TCell) (k : Nat) (hnm : c.kind ≠ .merged)
    (he : Encodable (toCell c k)) (hr : IdsInRange c.ids) (hp : c.kind = .text → (k, c.text) ∈ kv dl) :
    cellFromStorage (addTable dl.entries) (cellBytes (toCell c k)) = .ok (viewK k c) := by
  unfold cellFromStorage viewK
  rw [decode_cellBytes (toCell c k) he hr, if_neg hnm]
  by_cases ht : c.kind = .text
  · have hs := stringOf_pair dl h k c.text (hp ht)
    have hsid : (view (toCell c k)).stringId = some (k : Int) := by simp [view, toCell, ht]
    have hkind : (view (toCell c k)).kind = .text := by simp [view, toCell, ht, dkindOf]
    simp only [bind, Except.bind, hkind, hsid, hs, if_pos ht, pure, Except.pure]
  · have hkind : (view (toCell c k)).kind ≠ .text := by
      simp only [view, toCell]
      cases hk : c.kind <;> simp_all [dkindOf]
    simp only [bind, Except.bind, if_neg ht, pure, Except.pure]

/-- the row map over row-infos that declare 0, 1, …, n − 1 in storage order is the identity. -/
theorem rowMap_identity {ρ : Type} (n T : Nat) (tiles : List (Tile ρ))
    (hd : declaredRows (effTileSize T) tiles = List.range n) (r : Nat) (hr : r < n) :
    dictGet? (rowStorageMap n T tiles) r = some (some r) := by
  unfold rowStorageMap
  rw [mapTiles_eq, hd, mapHeaders_mem (List.range n) 0 _ List.nodup_range r r (List.getElem?_range hr)]
  simp

/-- one cell of the rebuild loop over the saved objects. -/
theorem loadCell_spec (mr : Nat → Nat → Bool) (dl : Strs) (h : StrInv dl) (n T : Nat)
    (tiles : List (Tile SavedRow)) (hd : declaredRows (effTileSize T) tiles = List.range n)
    (encss : List (List (Option Bytes))) (r c : Nat) (hr : r < n) (encs : List (Option Bytes))
    (hrow : encss[r]? = some encs) (e : Option Bytes) (hcol : encs[c]? = some e) (cell : TCell)
    (hok : CellOK (kv dl) cell e) (hmr : mr r c = true ↔ cell.kind = .merged) :
    ∃ k, loadCell mr (rowStorageMap n T tiles) (.ok encss) (addTable dl.entries) r c = .ok (viewK k cell) := by
  unfold loadCell
  rcases hok with ⟨hm, _⟩ | ⟨hnm, k, _, he, hri, henc, hp⟩
  · refine ⟨0, ?_⟩
    rw [if_pos (hmr.mpr hm)]
    simp [viewK, hm]
  · refine ⟨k, ?_⟩
    have hmf : ¬ (mr r c = true) := fun hx => hnm (hmr.mp hx)
    rw [if_neg hmf]
    have hsb : storageBufferWith (rowStorageMap n T tiles) (.ok encss) r c = .ok e := by
      unfold storageBufferWith storageRowWith dictGet
      rw [rowMap_identity n T tiles hd r hr]
      simp [bind, Except.bind, pure, Except.pure, hrow, hcol]
    rw [hsb, henc]
    simp only [bind, Except.bind]
    exact cellFromStorage_spec dl h cell k hnm he hri hp

/-! ### composition -/

/-- every row has `w` cells. -/
def Rect (grid : List (List TCell)) (w : Nat) : Prop := ∀ row ∈ grid, row.length = w

/-- the reader's `is_merge_reference` names exactly the merged placeholders of the grid
    (the merge map itself is property C12). -/
def MergeAgrees (mr : Nat → Nat → Bool) (grid : List (List TCell)) : Prop :=
  ∀ (r : Nat) row, grid[r]? = some row → ∀ (c : Nat) cell, row[c]? = some cell →
    (mr r c = true ↔ cell.kind = .merged)

theorem cells_fit_keys : Gen.MAX_ROW_COUNT * Gen.MAX_COL_COUNT ≤ keyBudget := by decide

/-- the table object `recalculate_table_data` leaves behind. -/
def mkSaved (n w : Nat) (wide : Bool) (dl : Strs) (ts : List SavedTile) : SavedTable :=
  { numRows := n, numCols := w, tileSize := Gen.MAX_TILE_SIZE, setsWideRows := wide,
    strings := dl.entries, nextListID := dl.nextListID, tiles := ts }

/-- the save succeeds and the saved objects stand for the grid. -/
theorem saveTable_spec (grid : List (List TCell)) (w : Nat) (hne : grid ≠ []) (hrect : Rect grid w)
    (hw : w ≤ Gen.MAX_COL_COUNT) (hrows : grid.length ≤ Gen.MAX_ROW_COUNT)
    (hvalid : ∀ row ∈ grid, ∀ c ∈ row, ValidCell c) :
    ∃ ts dl, saveTable grid = .ok (mkSaved grid.length w (decide (w > Gen.MAX_TILE_SIZE)) dl ts) ∧
      StrInv dl ∧ All₂ (TileOK (kv dl) w) (RowStorage.tiles grid) ts := by
  obtain ⟨row0, rest, rfl⟩ : ∃ a r, grid = a :: r := by
    cases grid with
    | nil => exact absurd rfl hne
    | cons a r => exact ⟨a, r, rfl⟩
  have hw0 : row0.length = w := hrect row0 (by simp)
  have hflat := tiles_flat (row0 :: rest)
  have hbud : resetStrings.entries.length + ((RowStorage.tiles (row0 :: rest)).flatMap (·.2)).length * w
      ≤ keyBudget := by
    rw [hflat]
    have h1 : (row0 :: rest).length * w ≤ Gen.MAX_ROW_COUNT * Gen.MAX_COL_COUNT := Nat.mul_le_mul hrows hw
    have h2 := cells_fit_keys
    simp only [resetStrings, List.length_nil, Nat.zero_add]
    omega
  obtain ⟨ts, dl, hs, hinv, _, _, hok⟩ := saveTiles_spec w hw (RowStorage.tiles (row0 :: rest)) resetStrings
    strInv_reset (fun t ht row hr => by
      have hmem : row ∈ (RowStorage.tiles (row0 :: rest)).flatMap (·.2) :=
        List.mem_flatMap.mpr ⟨t, ht, hr⟩
      rw [hflat] at hmem
      exact ⟨hrect row hmem, hvalid row hmem⟩) hbud
  refine ⟨ts, dl, ?_, hinv, hok⟩
  unfold saveTable mkSaved
  rw [pyIndex_zero_cons]
  simp only [bind, Except.bind, hw0, hs, pure, Except.pure]

/-- the rebuild loop over the saved objects returns, cell by cell, the view of the saved cell
    under some string key. -/
theorem loadTable_spec (mr : Nat → Nat → Bool) (grid : List (List TCell)) (w : Nat) (hne : grid ≠ [])
    (hrect : Rect grid w) (hmr : MergeAgrees mr grid) (ts : List SavedTile) (dl : Strs) (hinv : StrInv dl)
    (hok : All₂ (TileOK (kv dl) w) (RowStorage.tiles grid) ts) (wide : Bool) :
    ∃ g, loadTable mr (mkSaved grid.length w wide dl ts) = .ok g ∧
      All₂ (All₂ (fun cell l => ∃ k, l = viewK k cell)) grid g := by
  have hn : grid.length ≠ 0 := by simpa using hne
  obtain ⟨encss, hdec, hcells⟩ := decodeTiles_spec hok
  rw [tiles_flat] at hcells
  have hd : declaredRows (effTileSize Gen.MAX_TILE_SIZE) (ts.map toLayoutTile) = List.range grid.length := by
    have h1 := declared_spec (effTileSize Gen.MAX_TILE_SIZE) hok
    have h2 : effTileSize Gen.MAX_TILE_SIZE = 256 := by decide
    rw [h1, h2]
    exact tiles_declared grid hn
  unfold loadTable mkSaved
  simp only [hdec, List.range_eq_range']
  refine mapM_range' _ _ grid 0 ?_
  intro r row hrow
  simp only [Nat.zero_add]
  have hr : r < grid.length := (List.getElem?_eq_some_iff.mp hrow).1
  obtain ⟨encs, henc, hrowok⟩ := hcells.get r row hrow
  have hwl : row.length = w := hrect row (List.mem_of_getElem? hrow)
  rw [← hwl]
  refine mapM_range' _ _ row 0 ?_
  intro c cell hcell
  simp only [Nat.zero_add]
  obtain ⟨e, he, hcok⟩ := hrowok.get c cell hcell
  obtain ⟨k, hk⟩ := loadCell_spec mr dl hinv grid.length Gen.MAX_TILE_SIZE (ts.map toLayoutTile) hd encss
    r c hr encs henc e he cell hcok (hmr r row hrow c cell hcell)
  exact ⟨viewK k cell, hk, k, rfl⟩

/-- **save then load**, relational form: the save succeeds, the load succeeds, and every cell
    read is the view of the cell saved at that position under some string key. -/
theorem load_save_rel (mr : Nat → Nat → Bool) (grid : List (List TCell)) (w : Nat) (hne : grid ≠ [])
    (hrect : Rect grid w) (hw : w ≤ Gen.MAX_COL_COUNT) (hrows : grid.length ≤ Gen.MAX_ROW_COUNT)
    (hvalid : ∀ row ∈ grid, ∀ c ∈ row, ValidCell c) (hmr : MergeAgrees mr grid) :
    ∃ s g, saveTable grid = .ok s ∧ loadTable mr s = .ok g ∧
      s.numRows = grid.length ∧ s.numCols = w ∧ s.tiles.length = (RowStorage.tiles grid).length ∧
      All₂ (All₂ (fun cell l => ∃ k, l = viewK k cell)) grid g := by
  obtain ⟨ts, dl, hs, hinv, hok⟩ := saveTable_spec grid w hne hrect hw hrows hvalid
  obtain ⟨g, hg, hall⟩ := loadTable_spec mr grid w hne hrect hmr ts dl hinv hok (decide (w > Gen.MAX_TILE_SIZE))
  exact ⟨_, g, hs, hg, rfl, rfl, hok.length_eq.symm, hall⟩

theorem forget_of_rel {grid : List (List TCell)} {g : List (List LCell)}
    (hall : All₂ (All₂ (fun cell l => ∃ k, l = viewK k cell)) grid g) :
    g.map (·.map forgetKey) = grid.map (·.map viewT) := by
  apply All₂.map_eq
  refine hall.mono ?_
  intro row lrow hrow
  apply All₂.map_eq
  refine hrow.mono ?_
  intro cell l ⟨k, hk⟩
  rw [hk, forgetKey_viewK]

/-- **save then load**: the grid read from the saved table is the grid that was saved, cell by
    cell, up to the numeric value of the re-assigned string keys. -/
theorem load_save (mr : Nat → Nat → Bool) (grid : List (List TCell)) (w : Nat) (hne : grid ≠ [])
    (hrect : Rect grid w) (hw : w ≤ Gen.MAX_COL_COUNT) (hrows : grid.length ≤ Gen.MAX_ROW_COUNT)
    (hvalid : ∀ row ∈ grid, ∀ c ∈ row, ValidCell c) (hmr : MergeAgrees mr grid) :
    ∃ s g, saveTable grid = .ok s ∧ loadTable mr s = .ok g ∧
      g.map (·.map forgetKey) = grid.map (·.map viewT) := by
  obtain ⟨s, g, hs, hg, _, _, _, hall⟩ := load_save_rel mr grid w hne hrect hw hrows hvalid hmr
  exact ⟨s, g, hs, hg, forget_of_rel hall⟩

/-! ### saving what was read -/

/-- what the library reads of a stored cell apart from the re-assigned string key and the raw
    flag words: class, payload bytes, the twelve ids and the text. -/
structure Core where
  kind : DKind
  d128 : Option Bytes
  double : Option Bytes
  seconds : Option Bytes
  ids : Ids
  text : Option Text
  deriving DecidableEq, Repr

/-- `none` for a merged placeholder. -/
def coreL : LCell → Option Core
  | .merged => none
  | .stored d t => some ⟨d.kind, d.d128, d.double, d.seconds, d.ids, t⟩

theorem coreL_forgetKey (l : LCell) : coreL (forgetKey l) = coreL l := by
  cases l <;> rfl

/-- a cell that was read is again a cell that can be saved, is merged iff the original was, and
    reads back with the same core. -/
theorem recell_viewK (c : TCell) (hv : ValidCell c) (k : Nat) :
    ValidCell (recell (viewK k c)) ∧ ((recell (viewK k c)).kind = .merged ↔ c.kind = .merged) ∧
    coreL (viewT (recell (viewK k c))) = coreL (viewT c) := by
  rcases hv with hm | ⟨he, hr⟩
  · simp [viewK, viewT, hm, recell, ValidCell]
  · unfold EncodableT Encodable at he
    have hids : (recell (viewK k c)).ids = c.ids := by
      unfold viewK; cases hk : c.kind <;> simp_all [recell, view, toCell]
    refine ⟨.inr ⟨?_, by rw [hids]; exact hr⟩, ?_, ?_⟩
    · unfold EncodableT Encodable viewK
      cases hk : c.kind <;>
        simp_all [recell, view, toCell, kindOfD, dkindOf, Option.orElse, I32]
    · unfold viewK
      cases hk : c.kind <;> simp_all [recell, view, toCell, kindOfD, dkindOf]
    · unfold viewT viewK
      cases hk : c.kind <;>
        simp_all [recell, view, toCell, kindOfD, dkindOf, Option.orElse, coreL]

theorem map_map_congr {α β : Type} (f g : α → β) : ∀ (l : List (List α)),
    (∀ row ∈ l, ∀ x ∈ row, f x = g x) → l.map (·.map f) = l.map (·.map g) := by
  intro l h
  apply List.map_congr_left
  intro row hrow
  apply List.map_congr_left
  exact h row hrow

/-- the grid that was read satisfies every hypothesis of `load_save` again and has the same core. -/
theorem reread_valid (mr : Nat → Nat → Bool) (grid : List (List TCell)) (w : Nat) (hne : grid ≠ [])
    (hrect : Rect grid w) (hvalid : ∀ row ∈ grid, ∀ c ∈ row, ValidCell c) (hmr : MergeAgrees mr grid)
    (g : List (List LCell)) (hall : All₂ (All₂ (fun cell l => ∃ k, l = viewK k cell)) grid g) :
    g.map (·.map recell) ≠ [] ∧ Rect (g.map (·.map recell)) w ∧
    (g.map (·.map recell)).length = grid.length ∧
    (∀ row ∈ g.map (·.map recell), ∀ c ∈ row, ValidCell c) ∧ MergeAgrees mr (g.map (·.map recell)) ∧
    (g.map (·.map recell)).map (·.map (coreL ∘ viewT)) = grid.map (·.map (coreL ∘ viewT)) := by
  have hlen : g.length = grid.length := hall.length_eq.symm
  -- every cell of the re-read grid comes from a cell of the grid at the same position
  have hcell : ∀ (r : Nat) lrow, g[r]? = some lrow → ∃ row, grid[r]? = some row ∧ lrow.length = row.length ∧
      ∀ (c : Nat) l, lrow[c]? = some l → ∃ cell k, row[c]? = some cell ∧ l = viewK k cell := by
    intro r lrow hlrow
    have hr : r < grid.length := by rw [← hlen]; exact (List.getElem?_eq_some_iff.mp hlrow).1
    obtain ⟨row, hrow⟩ : ∃ row, grid[r]? = some row := ⟨grid[r], List.getElem?_eq_getElem hr⟩
    obtain ⟨lrow', hl', hrel⟩ := hall.get r row hrow
    rw [hlrow] at hl'; injection hl' with hl'; subst hl'
    refine ⟨row, hrow, hrel.length_eq.symm, ?_⟩
    intro c l hl
    have hc : c < row.length := by rw [hrel.length_eq]; exact (List.getElem?_eq_some_iff.mp hl).1
    obtain ⟨l', hl'', k, hk⟩ := hrel.get c row[c] (List.getElem?_eq_getElem hc)
    rw [hl] at hl''; injection hl'' with hl''; subst hl''
    exact ⟨row[c], k, List.getElem?_eq_getElem hc, hk⟩
  refine ⟨?_, ?_, by simp [hlen], ?_, ?_, ?_⟩
  · intro h
    have : g = [] := by simpa using h
    rw [this] at hlen
    exact hne (List.length_eq_zero_iff.mp hlen.symm)
  · intro row2 hrow2
    obtain ⟨lrow, hlrow, rfl⟩ := List.mem_map.mp hrow2
    obtain ⟨r, hr⟩ := List.getElem?_of_mem hlrow
    obtain ⟨row, hrow, hl, _⟩ := hcell r lrow hr
    simp only [List.length_map, hl]
    exact hrect row (List.mem_of_getElem? hrow)
  · intro row2 hrow2 c2 hc2
    obtain ⟨lrow, hlrow, rfl⟩ := List.mem_map.mp hrow2
    obtain ⟨l, hl, rfl⟩ := List.mem_map.mp hc2
    obtain ⟨r, hr⟩ := List.getElem?_of_mem hlrow
    obtain ⟨c, hc⟩ := List.getElem?_of_mem hl
    obtain ⟨row, hrow, _, hcells⟩ := hcell r lrow hr
    obtain ⟨cell, k, hcl, rfl⟩ := hcells c l hc
    exact (recell_viewK cell (hvalid row (List.mem_of_getElem? hrow) cell (List.mem_of_getElem? hcl)) k).1
  · intro r row2 hrow2 c c2 hc2
    rw [List.getElem?_map] at hrow2
    cases hg : g[r]? with
    | none => rw [hg] at hrow2; cases hrow2
    | some lrow =>
      rw [hg] at hrow2
      simp only [Option.map_some, Option.some.injEq] at hrow2
      subst hrow2
      rw [List.getElem?_map] at hc2
      cases hl : lrow[c]? with
      | none => rw [hl] at hc2; cases hc2
      | some l =>
        rw [hl] at hc2
        simp only [Option.map_some, Option.some.injEq] at hc2
        subst hc2
        obtain ⟨row, hrow, _, hcells⟩ := hcell r lrow hg
        obtain ⟨cell, k, hcl, rfl⟩ := hcells c l hl
        rw [hmr r row hrow c cell hcl]
        exact (recell_viewK cell (hvalid row (List.mem_of_getElem? hrow) cell (List.mem_of_getElem? hcl)) k).2.1.symm
  · rw [List.map_map]
    apply All₂.map_eq
    refine (All₂.with_mem hall).mono ?_
    intro row lrow ⟨hrowmem, hrel⟩
    simp only [Function.comp_def, List.map_map]
    apply All₂.map_eq
    refine (All₂.with_mem hrel).mono ?_
    intro cell l ⟨hcm, k, hk⟩
    subst hk
    exact (recell_viewK cell (hvalid row hrowmem cell hcm) k).2.2

end NumbersModel.TablePipeline
