import NumbersModel.Model.CellRecord
import NumbersModel.Lemmas.Struct
namespace NumbersModel.CellRecord
open NumbersModel

/-! ### flag tests -/

theorem hasFlag_two_pow (f i : Nat) : hasFlag f (2 ^ i) = f.testBit i := by
  unfold hasFlag
  cases h : f.testBit i with
  | false =>
    have : f &&& 2 ^ i = 0 := by
      apply Nat.eq_of_testBit_eq
      intro j
      rw [Nat.testBit_and, Nat.testBit_two_pow, Nat.zero_testBit]
      by_cases hij : i = j
      · subst hij; simp [h]
      · simp [hij]
    simp [this]
  | true =>
    have : f &&& 2 ^ i ≠ 0 := by
      intro h0
      have := congrArg (fun x => Nat.testBit x i) h0
      simp [Nat.testBit_and, Nat.testBit_two_pow, h] at this
    simp [this]

theorem hasFlag_or (a b m : Nat) : hasFlag (a ||| b) m = (hasFlag a m || hasFlag b m) := by
  unfold hasFlag
  rw [Nat.and_or_distrib_right]
  by_cases h1 : a &&& m = 0
  · rw [h1]; simp
  · have : a &&& m ||| b &&& m ≠ 0 := fun h => h1 (Nat.or_eq_zero_iff.mp h).1
    have e1 : (a &&& m ||| b &&& m != 0) = true := bne_iff_ne.mpr this
    have e2 : (a &&& m != 0) = true := bne_iff_ne.mpr h1
    rw [e1, e2]; rfl

theorem hasFlag_ite (c : Bool) (a m : Nat) :
    hasFlag (if c = true then a else 0) m = (c && hasFlag a m) := by
  cases c
  · simp [hasFlag]
  · simp

/-! ### one step of the offset walk -/

theorem rd_spec (e : PyExc) (w : Nat) (present : Bool) (f : Option Bytes) (buf : Bytes) (off : Nat)
    (rest : Bytes) (hbit : present = f.isSome) (hw : ∀ b, f = some b → b.length = w)
    (hdrop : buf.drop off = optBytes f ++ rest) :
    rd e w present buf off = .ok (f, off + (optBytes f).length) ∧
      buf.drop (off + (optBytes f).length) = rest := by
  cases f with
  | none =>
    simp only [Option.isSome_none] at hbit
    simp only [optBytes, List.nil_append] at hdrop
    simp [rd, hbit, optBytes, hdrop]
  | some b =>
    simp only [Option.isSome_some] at hbit
    have hb := hw b rfl
    subst hb
    simp only [optBytes] at hdrop ⊢
    have h1 : bslice buf off b.length = b := by
      unfold bslice; rw [hdrop]; exact List.take_left
    have h2 : buf.drop (off + b.length) = rest := by
      rw [← List.drop_drop, hdrop]; exact List.drop_left
    simp [rd, hbit, h1, h2]

theorem skp_spec (w : Nat) (present : Bool) (f : Option Bytes) (buf : Bytes) (off : Nat)
    (rest : Bytes) (hbit : present = f.isSome) (hw : ∀ b, f = some b → b.length = w)
    (hdrop : buf.drop off = optBytes f ++ rest) :
    skp w present off = off + (optBytes f).length ∧
      buf.drop (off + (optBytes f).length) = rest := by
  cases f with
  | none =>
    simp only [Option.isSome_none] at hbit
    simp only [optBytes, List.nil_append] at hdrop
    simp [skp, hbit, optBytes, hdrop]
  | some b =>
    simp only [Option.isSome_some] at hbit
    have hb := hw b rfl
    subst hb
    simp only [optBytes] at hdrop ⊢
    have h2 : buf.drop (off + b.length) = rest := by
      rw [← List.drop_drop, hdrop]; exact List.drop_left
    simp [skp, hbit, h2]

/-! ### the whole walk on a layout-conformant body -/

/-- the flags word announces exactly the fields that are present (bit `i` ↔ field `i`). -/
def Announces (flags : Nat) (fs : List (Option Bytes)) : Prop :=
  ∀ i (h : i < fs.length), flags.testBit i = (fs[i]).isSome

/-- every present field has the width the layout gives its flag bit. -/
def WidthsOK (fs : List (Option Bytes)) : Prop :=
  ∀ i (h : i < fs.length) b, fs[i] = some b → b.length = fieldWidth i

/-- what the decoder keeps of the 21 documented fields. -/
def rawOf (f0 f1 f2 f3 f4 f5 f6 _f7 _f8 f9 f10 _f11 f12 f13 f14 f15 f16 f17 f18 _f19 _f20 : Option Bytes) : Raw :=
  { d128 := f0, double := f1, seconds := f2, string := f3, rich := f4, cellStyle := f5,
    textStyle := f6, formula := f9, control := f10, suggest := f12, numFmt := f13, curFmt := f14,
    dateFmt := f15, durFmt := f16, textFmt := f17, boolFmt := f18 }

theorem decodeFields_layout (flags : Nat) (pre : Bytes) (hpre : pre.length = 12)
    (f0 f1 f2 f3 f4 f5 f6 f7 f8 f9 f10 f11 f12 f13 f14 f15 f16 f17 f18 f19 f20 : Option Bytes) (rest : Bytes)
    (hA : Announces flags [f0, f1, f2, f3, f4, f5, f6, f7, f8, f9, f10, f11, f12, f13, f14, f15, f16, f17, f18, f19, f20])
    (hW : WidthsOK [f0, f1, f2, f3, f4, f5, f6, f7, f8, f9, f10, f11, f12, f13, f14, f15, f16, f17, f18, f19, f20]) :
    decodeFields flags (pre ++ fieldsBody [f0, f1, f2, f3, f4, f5, f6, f7, f8, f9, f10, f11, f12, f13, f14, f15, f16, f17, f18, f19, f20] ++ rest)
      = .ok (rawOf f0 f1 f2 f3 f4 f5 f6 f7 f8 f9 f10 f11 f12 f13 f14 f15 f16 f17 f18 f19 f20) := by
  have hbuf : pre ++ fieldsBody [f0, f1, f2, f3, f4, f5, f6, f7, f8, f9, f10, f11, f12, f13, f14, f15, f16, f17, f18, f19, f20] ++ rest
      = pre ++ (optBytes f0 ++ (optBytes f1 ++ (optBytes f2 ++ (optBytes f3 ++ (optBytes f4 ++ (optBytes f5 ++ (optBytes f6 ++ (optBytes f7 ++ (optBytes f8 ++ (optBytes f9 ++ (optBytes f10 ++ (optBytes f11 ++ (optBytes f12 ++ (optBytes f13 ++ (optBytes f14 ++ (optBytes f15 ++ (optBytes f16 ++ (optBytes f17 ++ (optBytes f18 ++ (optBytes f19 ++ (optBytes f20 ++ rest))))))))))))))))))))) := by
    simp only [fieldsBody, List.append_assoc, List.append_nil]
  rw [hbuf]
  obtain ⟨buf, hb⟩ : ∃ buf, buf = pre ++ (optBytes f0 ++ (optBytes f1 ++ (optBytes f2 ++ (optBytes f3 ++ (optBytes f4 ++ (optBytes f5 ++ (optBytes f6 ++ (optBytes f7 ++ (optBytes f8 ++ (optBytes f9 ++ (optBytes f10 ++ (optBytes f11 ++ (optBytes f12 ++ (optBytes f13 ++ (optBytes f14 ++ (optBytes f15 ++ (optBytes f16 ++ (optBytes f17 ++ (optBytes f18 ++ (optBytes f19 ++ (optBytes f20 ++ rest))))))))))))))))))))) := ⟨_, rfl⟩
  rw [← hb]
  have hd : buf.drop 12 = optBytes f0 ++ (optBytes f1 ++ (optBytes f2 ++ (optBytes f3 ++ (optBytes f4 ++ (optBytes f5 ++ (optBytes f6 ++ (optBytes f7 ++ (optBytes f8 ++ (optBytes f9 ++ (optBytes f10 ++ (optBytes f11 ++ (optBytes f12 ++ (optBytes f13 ++ (optBytes f14 ++ (optBytes f15 ++ (optBytes f16 ++ (optBytes f17 ++ (optBytes f18 ++ (optBytes f19 ++ (optBytes f20 ++ rest)))))))))))))))))))) := by
    rw [hb, ← hpre]; exact List.drop_left
  have hb0 : hasFlag flags 0x1 = f0.isSome := (hasFlag_two_pow flags 0).trans (hA 0 (by simp))
  have hw0 : ∀ b, f0 = some b → b.length = 16 := fun b h => hW 0 (by simp) b h
  have hb1 : hasFlag flags 0x2 = f1.isSome := (hasFlag_two_pow flags 1).trans (hA 1 (by simp))
  have hw1 : ∀ b, f1 = some b → b.length = 8 := fun b h => hW 1 (by simp) b h
  have hb2 : hasFlag flags 0x4 = f2.isSome := (hasFlag_two_pow flags 2).trans (hA 2 (by simp))
  have hw2 : ∀ b, f2 = some b → b.length = 8 := fun b h => hW 2 (by simp) b h
  have hb3 : hasFlag flags 0x8 = f3.isSome := (hasFlag_two_pow flags 3).trans (hA 3 (by simp))
  have hw3 : ∀ b, f3 = some b → b.length = 4 := fun b h => hW 3 (by simp) b h
  have hb4 : hasFlag flags 0x10 = f4.isSome := (hasFlag_two_pow flags 4).trans (hA 4 (by simp))
  have hw4 : ∀ b, f4 = some b → b.length = 4 := fun b h => hW 4 (by simp) b h
  have hb5 : hasFlag flags 0x20 = f5.isSome := (hasFlag_two_pow flags 5).trans (hA 5 (by simp))
  have hw5 : ∀ b, f5 = some b → b.length = 4 := fun b h => hW 5 (by simp) b h
  have hb6 : hasFlag flags 0x40 = f6.isSome := (hasFlag_two_pow flags 6).trans (hA 6 (by simp))
  have hw6 : ∀ b, f6 = some b → b.length = 4 := fun b h => hW 6 (by simp) b h
  have hb7 : hasFlag flags 0x80 = f7.isSome := (hasFlag_two_pow flags 7).trans (hA 7 (by simp))
  have hw7 : ∀ b, f7 = some b → b.length = 4 := fun b h => hW 7 (by simp) b h
  have hb8 : hasFlag flags 0x100 = f8.isSome := (hasFlag_two_pow flags 8).trans (hA 8 (by simp))
  have hw8 : ∀ b, f8 = some b → b.length = 4 := fun b h => hW 8 (by simp) b h
  have hb9 : hasFlag flags 0x200 = f9.isSome := (hasFlag_two_pow flags 9).trans (hA 9 (by simp))
  have hw9 : ∀ b, f9 = some b → b.length = 4 := fun b h => hW 9 (by simp) b h
  have hb10 : hasFlag flags 0x400 = f10.isSome := (hasFlag_two_pow flags 10).trans (hA 10 (by simp))
  have hw10 : ∀ b, f10 = some b → b.length = 4 := fun b h => hW 10 (by simp) b h
  have hb11 : hasFlag flags 0x800 = f11.isSome := (hasFlag_two_pow flags 11).trans (hA 11 (by simp))
  have hw11 : ∀ b, f11 = some b → b.length = 4 := fun b h => hW 11 (by simp) b h
  have hb12 : hasFlag flags 0x1000 = f12.isSome := (hasFlag_two_pow flags 12).trans (hA 12 (by simp))
  have hw12 : ∀ b, f12 = some b → b.length = 4 := fun b h => hW 12 (by simp) b h
  have hb13 : hasFlag flags 0x2000 = f13.isSome := (hasFlag_two_pow flags 13).trans (hA 13 (by simp))
  have hw13 : ∀ b, f13 = some b → b.length = 4 := fun b h => hW 13 (by simp) b h
  have hb14 : hasFlag flags 0x4000 = f14.isSome := (hasFlag_two_pow flags 14).trans (hA 14 (by simp))
  have hw14 : ∀ b, f14 = some b → b.length = 4 := fun b h => hW 14 (by simp) b h
  have hb15 : hasFlag flags 0x8000 = f15.isSome := (hasFlag_two_pow flags 15).trans (hA 15 (by simp))
  have hw15 : ∀ b, f15 = some b → b.length = 4 := fun b h => hW 15 (by simp) b h
  have hb16 : hasFlag flags 0x10000 = f16.isSome := (hasFlag_two_pow flags 16).trans (hA 16 (by simp))
  have hw16 : ∀ b, f16 = some b → b.length = 4 := fun b h => hW 16 (by simp) b h
  have hb17 : hasFlag flags 0x20000 = f17.isSome := (hasFlag_two_pow flags 17).trans (hA 17 (by simp))
  have hw17 : ∀ b, f17 = some b → b.length = 4 := fun b h => hW 17 (by simp) b h
  have hb18 : hasFlag flags 0x40000 = f18.isSome := (hasFlag_two_pow flags 18).trans (hA 18 (by simp))
  have hw18 : ∀ b, f18 = some b → b.length = 4 := fun b h => hW 18 (by simp) b h
  have h0 := rd_spec .IndexError 16 _ f0 buf _ _ hb0 hw0 hd
  have h1 := rd_spec .StructError 8 _ f1 buf _ _ hb1 hw1 h0.2
  have h2 := rd_spec .StructError 8 _ f2 buf _ _ hb2 hw2 h1.2
  have h3 := rd_spec .StructError 4 _ f3 buf _ _ hb3 hw3 h2.2
  have h4 := rd_spec .StructError 4 _ f4 buf _ _ hb4 hw4 h3.2
  have h5 := rd_spec .StructError 4 _ f5 buf _ _ hb5 hw5 h4.2
  have h6 := rd_spec .StructError 4 _ f6 buf _ _ hb6 hw6 h5.2
  have h7 := skp_spec 4 _ f7 buf _ _ hb7 hw7 h6.2
  have h8 := skp_spec 4 _ f8 buf _ _ hb8 hw8 h7.2
  have h9 := rd_spec .StructError 4 _ f9 buf _ _ hb9 hw9 h8.2
  have h10 := rd_spec .StructError 4 _ f10 buf _ _ hb10 hw10 h9.2
  have h11 := skp_spec 4 _ f11 buf _ _ hb11 hw11 h10.2
  have h12 := rd_spec .StructError 4 _ f12 buf _ _ hb12 hw12 h11.2
  have h13 := rd_spec .StructError 4 _ f13 buf _ _ hb13 hw13 h12.2
  have h14 := rd_spec .StructError 4 _ f14 buf _ _ hb14 hw14 h13.2
  have h15 := rd_spec .StructError 4 _ f15 buf _ _ hb15 hw15 h14.2
  have h16 := rd_spec .StructError 4 _ f16 buf _ _ hb16 hw16 h15.2
  have h17 := rd_spec .StructError 4 _ f17 buf _ _ hb17 hw17 h16.2
  have h18 := rd_spec .StructError 4 _ f18 buf _ _ hb18 hw18 h17.2
  simp only [decodeFields, bind, Except.bind, pure, Except.pure, h0.1, h1.1, h2.1, h3.1, h4.1, h5.1, h6.1, h7.1, h8.1, h9.1, h10.1, h11.1, h12.1, h13.1, h14.1, h15.1, h16.1, h17.1, h18.1, rawOf]

/-! ### the whole decoder on a layout-conformant record -/

theorem pyIndex_zero_cons {α} (a : α) (l : List α) : pyIndex (a :: l) 0 = .ok a := by
  unfold pyIndex
  have h : ¬ ((0 : Int) < 0 ∨ (0 : Int) ≥ ((a :: l).length : Int)) := by
    simp only [List.length_cons]; omega
  simp [h]

theorem pyIndex_one_cons {α} (a b : α) (l : List α) : pyIndex (a :: b :: l) 1 = .ok b := by
  unfold pyIndex
  have h : ¬ ((1 : Int) < 0 ∨ (1 : Int) ≥ ((a :: b :: l).length : Int)) := by
    simp only [List.length_cons]; omega
  simp [h]
  omega

theorem len4 {α} (l : List α) (h : l.length = 4) : ∃ a b c d, l = [a, b, c, d] := by
  rcases l with _ | ⟨a, _ | ⟨b, _ | ⟨c, _ | ⟨d, _ | ⟨e, t⟩⟩⟩⟩⟩ <;> simp at h
  exact ⟨a, b, c, d, rfl⟩

theorem len2 {α} (l : List α) (h : l.length = 2) : ∃ a b, l = [a, b] := by
  rcases l with _ | ⟨a, _ | ⟨b, _ | ⟨c, t⟩⟩⟩ <;> simp at h
  exact ⟨a, b, rfl⟩

/-- the `Decoded` value `_from_storage` builds from the walked fields. -/
def assemble (kind : DKind) (raw : Raw) (extras : Nat) (flags : Int) : Decoded :=
  { kind := kind, d128 := raw.d128, double := raw.double, seconds := raw.seconds,
    stringId := raw.string.map i32OfBytes, ids := raw.ids, extras := extras, flags := flags }

theorem toSigned32_mod (n : Nat) (h : n < 4294967296) :
    (toSigned32 n % 4294967296).toNat = n := by
  unfold toSigned32
  split <;> omega

theorem decode_layout (ctype : UInt8) (unused extras : Bytes) (hu : unused.length = 4)
    (hx : extras.length = 2) (flags : Nat) (hfl : flags < 4294967296)
    (f0 f1 f2 f3 f4 f5 f6 f7 f8 f9 f10 f11 f12 f13 f14 f15 f16 f17 f18 f19 f20 : Option Bytes) (rest : Bytes)
    (hA : Announces flags [f0, f1, f2, f3, f4, f5, f6, f7, f8, f9, f10, f11, f12, f13, f14, f15, f16, f17, f18, f19, f20])
    (hW : WidthsOK [f0, f1, f2, f3, f4, f5, f6, f7, f8, f9, f10, f11, f12, f13, f14, f15, f16, f17, f18, f19, f20]) :
    decode ([5, ctype] ++ unused ++ extras ++ leBytes 4 flags ++ fieldsBody [f0, f1, f2, f3, f4, f5, f6, f7, f8, f9, f10, f11, f12, f13, f14, f15, f16, f17, f18, f19, f20] ++ rest)
      = (dispatch ctype (rawOf f0 f1 f2 f3 f4 f5 f6 f7 f8 f9 f10 f11 f12 f13 f14 f15 f16 f17 f18 f19 f20)).bind
          (fun k => .ok (assemble k (rawOf f0 f1 f2 f3 f4 f5 f6 f7 f8 f9 f10 f11 f12 f13 f14 f15 f16 f17 f18 f19 f20) (leNat extras) (toSigned32 flags))) := by
  have hraw := decodeFields_layout flags ([5, ctype] ++ unused ++ extras ++ leBytes 4 flags)
    (by simp [hu, hx, leBytes_length]) f0 f1 f2 f3 f4 f5 f6 f7 f8 f9 f10 f11 f12 f13 f14 f15 f16 f17 f18 f19 f20 rest hA hW
  obtain ⟨u0, u1, u2, u3, rfl⟩ := len4 unused hu
  obtain ⟨e0, e1, rfl⟩ := len2 extras hx
  obtain ⟨b0, b1, b2, b3, hbs⟩ := len4 (leBytes 4 flags) (leBytes_length 4 flags)
  have hval : leNat [b0, b1, b2, b3] = flags := by
    rw [← hbs, leNat_leBytes]
    have h256 : (256:Nat) ^ 4 = 4294967296 := by decide
    rw [h256]; omega
  rw [hbs] at hraw ⊢
  obtain ⟨body, hbody⟩ : ∃ body, body = fieldsBody [f0, f1, f2, f3, f4, f5, f6, f7, f8, f9, f10, f11, f12, f13, f14, f15, f16, f17, f18, f19, f20] ++ rest := ⟨_, rfl⟩
  have e : [5, ctype] ++ [u0, u1, u2, u3] ++ [e0, e1] ++ [b0, b1, b2, b3] ++ fieldsBody [f0, f1, f2, f3, f4, f5, f6, f7, f8, f9, f10, f11, f12, f13, f14, f15, f16, f17, f18, f19, f20] ++ rest
      = 5 :: ctype :: u0 :: u1 :: u2 :: u3 :: e0 :: e1 :: b0 :: b1 :: b2 :: b3 :: body := by
    rw [hbody]; simp
  rw [e] at hraw ⊢
  unfold decode decodeWith
  have hs1 : bslice (5 :: ctype :: u0 :: u1 :: u2 :: u3 :: e0 :: e1 :: b0 :: b1 :: b2 :: b3 :: body) 8 4
      = [b0, b1, b2, b3] := by simp [bslice]
  have hs2 : bslice (5 :: ctype :: u0 :: u1 :: u2 :: u3 :: e0 :: e1 :: b0 :: b1 :: b2 :: b3 :: body) 6 2
      = [e0, e1] := by simp [bslice]
  have hfl2 : (toSigned32 flags % 4294967296).toNat = flags := toSigned32_mod flags hfl
  have hi : i32OfBytes [b0, b1, b2, b3] = toSigned32 flags := by unfold i32OfBytes; rw [hval]
  simp only [pyIndex_zero_cons, pyIndex_one_cons, hs1, hs2, unpackI32, unpackU16, bind, Except.bind,
    List.length_cons, List.length_nil, ne_eq, not_true_eq_false, if_false, hfl2, hraw, hi,
    Nat.reduceAdd, pure, Except.pure, assemble]

/-! ### records produced by the independent layout encoder -/

theorem testBit_flagsOf (l : List (Option Bytes)) (i : Nat) (h : i < l.length) :
    (flagsOf l).testBit i = (l[i]).isSome := by
  induction l generalizing i with
  | nil => simp at h
  | cons f r ih =>
    cases i with
    | zero =>
      simp only [flagsOf, Nat.testBit_zero, List.getElem_cons_zero]
      cases f <;> simp <;> omega
    | succ i =>
      rw [Nat.testBit_succ]
      have : ((if f.isSome = true then 1 else 0) + 2 * flagsOf r) / 2 = flagsOf r := by
        split <;> omega
      simp only [flagsOf, this, List.getElem_cons_succ]
      exact ih i (by simpa using h)

theorem flagsOf_lt (l : List (Option Bytes)) : flagsOf l < 2 ^ l.length := by
  induction l with
  | nil => simp [flagsOf]
  | cons f r ih =>
    simp only [flagsOf, List.length_cons, Nat.pow_succ]
    split <;> omega

theorem announces_flagsOf (l : List (Option Bytes)) : Announces (flagsOf l) l :=
  fun i h => testBit_flagsOf l i h

theorem len21 {α} (l : List α) (h : l.length = 21) :
    ∃ f0 f1 f2 f3 f4 f5 f6 f7 f8 f9 f10 f11 f12 f13 f14 f15 f16 f17 f18 f19 f20, l = [f0, f1, f2, f3, f4, f5, f6, f7, f8, f9, f10, f11, f12, f13, f14, f15, f16, f17, f18, f19, f20] := by
  rcases l with _ | ⟨f0, _ | ⟨f1, _ | ⟨f2, _ | ⟨f3, _ | ⟨f4, _ | ⟨f5, _ | ⟨f6, _ | ⟨f7, _ | ⟨f8, _ | ⟨f9, _ | ⟨f10, _ | ⟨f11, _ | ⟨f12, _ | ⟨f13, _ | ⟨f14, _ | ⟨f15, _ | ⟨f16, _ | ⟨f17, _ | ⟨f18, _ | ⟨f19, _ | ⟨f20, _ | ⟨x, t⟩⟩⟩⟩⟩⟩⟩⟩⟩⟩⟩⟩⟩⟩⟩⟩⟩⟩⟩⟩⟩⟩ <;> simp at h
  exact ⟨f0, f1, f2, f3, f4, f5, f6, f7, f8, f9, f10, f11, f12, f13, f14, f15, f16, f17, f18, f19, f20, rfl⟩

/-- well-formed layout record: 4 unused bytes, 2 extras bytes, one (optional) field per
    documented flag bit, each of the documented width. -/
structure SpecRecord.WF (r : SpecRecord) : Prop where
  unused : r.unused.length = 4
  extras : r.extras.length = 2
  count : r.fields.length = 21
  widths : WidthsOK r.fields

/-- field announced by flag bit `i` (absent if the bit is clear). -/
def SpecRecord.field (r : SpecRecord) (i : Nat) : Option Bytes := (r.fields[i]?).join

/-- the fields the library interprets, picked by flag bit. -/
def SpecRecord.project (r : SpecRecord) : Raw :=
  { d128 := r.field 0, double := r.field 1, seconds := r.field 2, string := r.field 3,
    rich := r.field 4, cellStyle := r.field 5, textStyle := r.field 6, formula := r.field 9,
    control := r.field 10, suggest := r.field 12, numFmt := r.field 13, curFmt := r.field 14,
    dateFmt := r.field 15, durFmt := r.field 16, textFmt := r.field 17, boolFmt := r.field 18 }

theorem decode_specEncode_aux (r : SpecRecord) (hwf : r.WF) (rest : Bytes) :
    decode (specEncode r ++ rest)
      = (dispatch r.ctype r.project).bind
          (fun k => .ok (assemble k r.project (leNat r.extras) (flagsOf r.fields))) := by
  obtain ⟨ctype, unused, extras, fields⟩ := r
  obtain ⟨hu, hx, hc, hw⟩ := hwf
  simp only at hu hx hc hw
  obtain ⟨f0, f1, f2, f3, f4, f5, f6, f7, f8, f9, f10, f11, f12, f13, f14, f15, f16, f17, f18, f19, f20, rfl⟩ := len21 fields hc
  have hlt := flagsOf_lt [f0, f1, f2, f3, f4, f5, f6, f7, f8, f9, f10, f11, f12, f13, f14, f15, f16, f17, f18, f19, f20]
  have h21 : (2:Nat) ^ 21 = 2097152 := by decide
  simp only [List.length_cons, List.length_nil, Nat.zero_add, Nat.reduceAdd, h21] at hlt
  have := decode_layout ctype unused extras hu hx (flagsOf [f0, f1, f2, f3, f4, f5, f6, f7, f8, f9, f10, f11, f12, f13, f14, f15, f16, f17, f18, f19, f20]) (by omega)
    f0 f1 f2 f3 f4 f5 f6 f7 f8 f9 f10 f11 f12 f13 f14 f15 f16 f17 f18 f19 f20 rest (announces_flagsOf _) hw
  have hs : toSigned32 (flagsOf [f0, f1, f2, f3, f4, f5, f6, f7, f8, f9, f10, f11, f12, f13, f14, f15, f16, f17, f18, f19, f20]) = (flagsOf [f0, f1, f2, f3, f4, f5, f6, f7, f8, f9, f10, f11, f12, f13, f14, f15, f16, f17, f18, f19, f20] : Nat) := by
    unfold toSigned32; split <;> omega
  rw [hs] at this
  simpa [specEncode, SpecRecord.project, SpecRecord.field, rawOf] using this

/-! ### the encoder in closed form -/

/-- every id that is present fits an int32 (`struct.pack("<i", …)` accepts it). -/
def IdsInRange (i : Ids) : Prop :=
  ∀ o ∈ [i.rich, i.cellStyle, i.textStyle, i.formula, i.control, i.suggest, i.numFmt, i.curFmt,
         i.dateFmt, i.durFmt, i.textFmt, i.boolFmt], ∀ v, o = some v → I32 v

/-- the 4-byte field an optional id becomes. -/
def optI32 (o : Option Int) : Option Bytes := o.map encI32

theorem optI32_width (o : Option Int) : ∀ b, optI32 o = some b → b.length = 4 := by
  intro b h
  cases o with
  | none => simp [optI32] at h
  | some v => simp [optI32] at h; rw [← h]; exact encI32_length v

theorem optI32_isSome (o : Option Int) : (optI32 o).isSome = o.isSome := by cases o <;> rfl

theorem putId_ok (mask x6 : Nat) (id : Option Int) (a : Acc) (h : ∀ v, id = some v → I32 v) :
    putId mask x6 id a = .ok
      { flags := a.flags ||| (if id.isSome then mask else 0),
        length := a.length + (optBytes (optI32 id)).length,
        body := a.body ++ optBytes (optI32 id),
        b6 := a.b6 ||| (if id.isSome then x6 else 0) } := by
  cases id with
  | none => simp [putId, optI32, optBytes]
  | some v =>
    simp [putId, optI32, optBytes, packI32_ok (h v rfl), bind, Except.bind, pure, Except.pure,
      encI32_length]

/-- state of `_to_buffer` after all twelve `if … is not None` blocks and the string-id test. -/
def closedAcc (fl len : Nat) (value : Bytes) (c : Cell) : Acc :=
  { flags := fl ||| (if c.ids.rich.isSome then 0x10 else 0) ||| (if c.ids.cellStyle.isSome then 0x20 else 0) ||| (if c.ids.textStyle.isSome then 0x40 else 0) ||| (if c.ids.formula.isSome then 0x200 else 0) ||| (if c.ids.control.isSome then 0x400 else 0) ||| (if c.ids.suggest.isSome then 0x1000 else 0) ||| (if c.ids.numFmt.isSome then 0x2000 else 0) ||| (if c.ids.curFmt.isSome then 0x4000 else 0) ||| (if c.ids.dateFmt.isSome then 0x8000 else 0) ||| (if c.ids.durFmt.isSome then 0x10000 else 0) ||| (if c.ids.textFmt.isSome then 0x20000 else 0) ||| (if c.ids.boolFmt.isSome then 0x40000 else 0),
    length := 12 + len + (optBytes (optI32 c.ids.rich)).length + (optBytes (optI32 c.ids.cellStyle)).length + (optBytes (optI32 c.ids.textStyle)).length + (optBytes (optI32 c.ids.formula)).length + (optBytes (optI32 c.ids.control)).length + (optBytes (optI32 c.ids.suggest)).length + (optBytes (optI32 c.ids.numFmt)).length + (optBytes (optI32 c.ids.curFmt)).length + (optBytes (optI32 c.ids.dateFmt)).length + (optBytes (optI32 c.ids.durFmt)).length + (optBytes (optI32 c.ids.textFmt)).length + (optBytes (optI32 c.ids.boolFmt)).length,
    body := value ++ optBytes (optI32 c.ids.rich) ++ optBytes (optI32 c.ids.cellStyle) ++ optBytes (optI32 c.ids.textStyle) ++ optBytes (optI32 c.ids.formula) ++ optBytes (optI32 c.ids.control) ++ optBytes (optI32 c.ids.suggest) ++ optBytes (optI32 c.ids.numFmt) ++ optBytes (optI32 c.ids.curFmt) ++ optBytes (optI32 c.ids.dateFmt) ++ optBytes (optI32 c.ids.durFmt) ++ optBytes (optI32 c.ids.textFmt) ++ optBytes (optI32 c.ids.boolFmt),
    b6 := 0 ||| (if c.ids.rich.isSome then 0 else 0) ||| (if c.ids.cellStyle.isSome then 0 else 0) ||| (if c.ids.textStyle.isSome then 0 else 0) ||| (if c.ids.formula.isSome then 0 else 0) ||| (if c.ids.control.isSome then 0 else 0) ||| (if c.ids.suggest.isSome then 0 else 0) ||| (if c.ids.numFmt.isSome then 1 else 0) ||| (if c.ids.curFmt.isSome then 2 else 0) ||| (if c.ids.dateFmt.isSome then 8 else 0) ||| (if c.ids.durFmt.isSome then 4 else 0) ||| (if c.ids.textFmt.isSome then 0 else 0) ||| (if c.ids.boolFmt.isSome then 32 else 0) ||| (if c.stringId.isSome then 0x80 else 0) }

theorem encodeWith_closed (hdr : Cell → PyM (Option (Nat × Nat × UInt8 × Bytes))) (c : Cell)
    (fl len : Nat) (ctype : UInt8) (value : Bytes)
    (hh : hdr c = .ok (some (fl, len, ctype, value))) (hr : IdsInRange c.ids) :
    encodeWith hdr c = (finish ctype (closedAcc fl len value c)).bind (fun r => .ok (some r)) := by
  unfold IdsInRange at hr
  have h_rich : ∀ v, c.ids.rich = some v → I32 v := hr c.ids.rich (by simp)
  have h_cellStyle : ∀ v, c.ids.cellStyle = some v → I32 v := hr c.ids.cellStyle (by simp)
  have h_textStyle : ∀ v, c.ids.textStyle = some v → I32 v := hr c.ids.textStyle (by simp)
  have h_formula : ∀ v, c.ids.formula = some v → I32 v := hr c.ids.formula (by simp)
  have h_control : ∀ v, c.ids.control = some v → I32 v := hr c.ids.control (by simp)
  have h_suggest : ∀ v, c.ids.suggest = some v → I32 v := hr c.ids.suggest (by simp)
  have h_numFmt : ∀ v, c.ids.numFmt = some v → I32 v := hr c.ids.numFmt (by simp)
  have h_curFmt : ∀ v, c.ids.curFmt = some v → I32 v := hr c.ids.curFmt (by simp)
  have h_dateFmt : ∀ v, c.ids.dateFmt = some v → I32 v := hr c.ids.dateFmt (by simp)
  have h_durFmt : ∀ v, c.ids.durFmt = some v → I32 v := hr c.ids.durFmt (by simp)
  have h_textFmt : ∀ v, c.ids.textFmt = some v → I32 v := hr c.ids.textFmt (by simp)
  have h_boolFmt : ∀ v, c.ids.boolFmt = some v → I32 v := hr c.ids.boolFmt (by simp)
  unfold encodeWith
  simp only [hh, bind, Except.bind, pure, Except.pure, putId_ok _ _ _ _ h_rich, putId_ok _ _ _ _ h_cellStyle, putId_ok _ _ _ _ h_textStyle, putId_ok _ _ _ _ h_formula, putId_ok _ _ _ _ h_control, putId_ok _ _ _ _ h_suggest, putId_ok _ _ _ _ h_numFmt, putId_ok _ _ _ _ h_curFmt, putId_ok _ _ _ _ h_dateFmt, putId_ok _ _ _ _ h_durFmt, putId_ok _ _ _ _ h_textFmt, putId_ok _ _ _ _ h_boolFmt]
  by_cases hs : c.stringId.isSome = true <;> simp [hs, closedAcc]

theorem finish_ok (ctype : UInt8) (a : Acc) (hlen : a.length = 12 + a.body.length)
    (hfl : a.flags < 2147483648) :
    finish ctype a = .ok ([5, ctype, 0, 0, 0, 0, UInt8.ofNat a.b6, 0] ++ leBytes 4 a.flags ++ a.body) := by
  have hp : packI32 (a.flags : Int) = .ok (leBytes 4 a.flags) := by
    have : I32 (a.flags : Int) := by unfold I32; omega
    rw [packI32_ok this]
    unfold encI32
    have : ¬ ((a.flags : Int) < 0) := by omega
    simp [this]
  unfold finish
  simp only [hp, bind, Except.bind, pure, Except.pure]
  have hl : ([5, ctype, 0, 0, 0, 0, UInt8.ofNat a.b6, 0] ++ leBytes 4 a.flags ++ a.body).length = a.length := by
    simp [leBytes_length, hlen]; omega
  by_cases h32 : ([5, ctype, 0, 0, 0, 0, UInt8.ofNat a.b6, 0] ++ leBytes 4 a.flags ++ a.body).length < 32
  · have h2 : ¬ (32 < a.length) := by omega
    simp only [h32, h2, if_true, if_false]
    rw [← hl, List.take_left]
  · simp only [h32, if_false]
    rw [← hl, List.take_length]

/-! ### decode ∘ encode -/

theorem testBit_ite_pow (b : Bool) (k j : Nat) :
    (if b = true then 2 ^ k else 0).testBit j = (b && decide (k = j)) := by
  cases b <;> simp [Nat.testBit_two_pow]

theorem closed_flags_testBit (fl len : Nat) (value : Bytes) (c : Cell) (j : Nat) :
    (closedAcc fl len value c).flags.testBit j =
      (fl.testBit j || (c.ids.rich.isSome && decide (4 = j)) || (c.ids.cellStyle.isSome && decide (5 = j)) || (c.ids.textStyle.isSome && decide (6 = j)) || (c.ids.formula.isSome && decide (9 = j)) || (c.ids.control.isSome && decide (10 = j)) || (c.ids.suggest.isSome && decide (12 = j)) || (c.ids.numFmt.isSome && decide (13 = j)) || (c.ids.curFmt.isSome && decide (14 = j)) || (c.ids.dateFmt.isSome && decide (15 = j)) || (c.ids.durFmt.isSome && decide (16 = j)) || (c.ids.textFmt.isSome && decide (17 = j)) || (c.ids.boolFmt.isSome && decide (18 = j))) := by
  have e4 : ∀ (b : Bool), (if b = true then 16 else 0).testBit j = (b && decide (4 = j)) := fun b => testBit_ite_pow b 4 j
  have e5 : ∀ (b : Bool), (if b = true then 32 else 0).testBit j = (b && decide (5 = j)) := fun b => testBit_ite_pow b 5 j
  have e6 : ∀ (b : Bool), (if b = true then 64 else 0).testBit j = (b && decide (6 = j)) := fun b => testBit_ite_pow b 6 j
  have e9 : ∀ (b : Bool), (if b = true then 512 else 0).testBit j = (b && decide (9 = j)) := fun b => testBit_ite_pow b 9 j
  have e10 : ∀ (b : Bool), (if b = true then 1024 else 0).testBit j = (b && decide (10 = j)) := fun b => testBit_ite_pow b 10 j
  have e12 : ∀ (b : Bool), (if b = true then 4096 else 0).testBit j = (b && decide (12 = j)) := fun b => testBit_ite_pow b 12 j
  have e13 : ∀ (b : Bool), (if b = true then 8192 else 0).testBit j = (b && decide (13 = j)) := fun b => testBit_ite_pow b 13 j
  have e14 : ∀ (b : Bool), (if b = true then 16384 else 0).testBit j = (b && decide (14 = j)) := fun b => testBit_ite_pow b 14 j
  have e15 : ∀ (b : Bool), (if b = true then 32768 else 0).testBit j = (b && decide (15 = j)) := fun b => testBit_ite_pow b 15 j
  have e16 : ∀ (b : Bool), (if b = true then 65536 else 0).testBit j = (b && decide (16 = j)) := fun b => testBit_ite_pow b 16 j
  have e17 : ∀ (b : Bool), (if b = true then 131072 else 0).testBit j = (b && decide (17 = j)) := fun b => testBit_ite_pow b 17 j
  have e18 : ∀ (b : Bool), (if b = true then 262144 else 0).testBit j = (b && decide (18 = j)) := fun b => testBit_ite_pow b 18 j
  simp only [closedAcc, Nat.testBit_or, e4, e5, e6, e9, e10, e12, e13, e14, e15, e16, e17, e18]

theorem closed_flags_lt (fl len : Nat) (value : Bytes) (c : Cell) (h : fl < 16) :
    (closedAcc fl len value c).flags < 524288 := by
  have h19 : (524288 : Nat) = 2 ^ 19 := by decide
  rw [h19]
  simp only [closedAcc]
  have hi : ∀ (b : Bool) (m : Nat), m < 2 ^ 19 → (if b = true then m else 0) < 2 ^ 19 := by
    intro b m hm; cases b <;> simp [hm]
  have hfl : fl < 2 ^ 19 := by omega
  repeat (first | exact hfl | apply Nat.or_lt_two_pow | (apply hi; decide))

theorem closed_b6_lt (fl len : Nat) (value : Bytes) (c : Cell) :
    (closedAcc fl len value c).b6 < 256 := by
  have h8 : (256 : Nat) = 2 ^ 8 := by decide
  rw [h8]
  simp only [closedAcc]
  have hi : ∀ (b : Bool) (m : Nat), m < 2 ^ 8 → (if b = true then m else 0) < 2 ^ 8 := by
    intro b m hm; cases b <;> simp [hm]
  repeat (first | (show (0:Nat) < 2 ^ 8; decide) | apply Nat.or_lt_two_pow | (apply hi; decide))

theorem closed_length (fl len : Nat) (value : Bytes) (c : Cell) (h : value.length = len) :
    (closedAcc fl len value c).length = 12 + (closedAcc fl len value c).body.length := by
  simp only [closedAcc, List.length_append]; omega

theorem optI32_roundtrip (o : Option Int) (h : ∀ v, o = some v → I32 v) :
    (optI32 o).map i32OfBytes = o := by
  cases o with
  | none => rfl
  | some v => simp [optI32, i32OfBytes_encI32 (h v rfl)]

theorem optBytes_length_le4 (o : Option Int) : (optBytes (optI32 o)).length = if o.isSome then 4 else 0 := by
  cases o with
  | none => rfl
  | some v => simp [optI32, optBytes, encI32_length]

/-- fields (by flag bit) of the record `_to_buffer` writes, given the kind's payload fields. -/
def encFields (p0 p1 p2 p3 : Option Bytes) (c : Cell) : List (Option Bytes) :=
  [p0, p1, p2, p3, optI32 c.ids.rich, optI32 c.ids.cellStyle, optI32 c.ids.textStyle, none, none, optI32 c.ids.formula, optI32 c.ids.control, none, optI32 c.ids.suggest, optI32 c.ids.numFmt, optI32 c.ids.curFmt, optI32 c.ids.dateFmt, optI32 c.ids.durFmt, optI32 c.ids.textFmt, optI32 c.ids.boolFmt, none, none]

theorem announces21 (flags : Nat) (f0 f1 f2 f3 f4 f5 f6 f7 f8 f9 f10 f11 f12 f13 f14 f15 f16 f17 f18 f19 f20 : Option Bytes)
    (h0 : flags.testBit 0 = f0.isSome)
    (h1 : flags.testBit 1 = f1.isSome)
    (h2 : flags.testBit 2 = f2.isSome)
    (h3 : flags.testBit 3 = f3.isSome)
    (h4 : flags.testBit 4 = f4.isSome)
    (h5 : flags.testBit 5 = f5.isSome)
    (h6 : flags.testBit 6 = f6.isSome)
    (h7 : flags.testBit 7 = f7.isSome)
    (h8 : flags.testBit 8 = f8.isSome)
    (h9 : flags.testBit 9 = f9.isSome)
    (h10 : flags.testBit 10 = f10.isSome)
    (h11 : flags.testBit 11 = f11.isSome)
    (h12 : flags.testBit 12 = f12.isSome)
    (h13 : flags.testBit 13 = f13.isSome)
    (h14 : flags.testBit 14 = f14.isSome)
    (h15 : flags.testBit 15 = f15.isSome)
    (h16 : flags.testBit 16 = f16.isSome)
    (h17 : flags.testBit 17 = f17.isSome)
    (h18 : flags.testBit 18 = f18.isSome)
    (h19 : flags.testBit 19 = f19.isSome)
    (h20 : flags.testBit 20 = f20.isSome)
    : Announces flags [f0, f1, f2, f3, f4, f5, f6, f7, f8, f9, f10, f11, f12, f13, f14, f15, f16, f17, f18, f19, f20] := by
  intro i hi
  match i, hi with
  | 0, _ => exact h0
  | 1, _ => exact h1
  | 2, _ => exact h2
  | 3, _ => exact h3
  | 4, _ => exact h4
  | 5, _ => exact h5
  | 6, _ => exact h6
  | 7, _ => exact h7
  | 8, _ => exact h8
  | 9, _ => exact h9
  | 10, _ => exact h10
  | 11, _ => exact h11
  | 12, _ => exact h12
  | 13, _ => exact h13
  | 14, _ => exact h14
  | 15, _ => exact h15
  | 16, _ => exact h16
  | 17, _ => exact h17
  | 18, _ => exact h18
  | 19, _ => exact h19
  | 20, _ => exact h20
  | n + 21, h => simp only [List.length_cons, List.length_nil] at h; omega

theorem widths21 (f0 f1 f2 f3 f4 f5 f6 f7 f8 f9 f10 f11 f12 f13 f14 f15 f16 f17 f18 f19 f20 : Option Bytes)
    (h0 : ∀ b, f0 = some b → b.length = fieldWidth 0)
    (h1 : ∀ b, f1 = some b → b.length = fieldWidth 1)
    (h2 : ∀ b, f2 = some b → b.length = fieldWidth 2)
    (h3 : ∀ b, f3 = some b → b.length = fieldWidth 3)
    (h4 : ∀ b, f4 = some b → b.length = fieldWidth 4)
    (h5 : ∀ b, f5 = some b → b.length = fieldWidth 5)
    (h6 : ∀ b, f6 = some b → b.length = fieldWidth 6)
    (h7 : ∀ b, f7 = some b → b.length = fieldWidth 7)
    (h8 : ∀ b, f8 = some b → b.length = fieldWidth 8)
    (h9 : ∀ b, f9 = some b → b.length = fieldWidth 9)
    (h10 : ∀ b, f10 = some b → b.length = fieldWidth 10)
    (h11 : ∀ b, f11 = some b → b.length = fieldWidth 11)
    (h12 : ∀ b, f12 = some b → b.length = fieldWidth 12)
    (h13 : ∀ b, f13 = some b → b.length = fieldWidth 13)
    (h14 : ∀ b, f14 = some b → b.length = fieldWidth 14)
    (h15 : ∀ b, f15 = some b → b.length = fieldWidth 15)
    (h16 : ∀ b, f16 = some b → b.length = fieldWidth 16)
    (h17 : ∀ b, f17 = some b → b.length = fieldWidth 17)
    (h18 : ∀ b, f18 = some b → b.length = fieldWidth 18)
    (h19 : ∀ b, f19 = some b → b.length = fieldWidth 19)
    (h20 : ∀ b, f20 = some b → b.length = fieldWidth 20)
    : WidthsOK [f0, f1, f2, f3, f4, f5, f6, f7, f8, f9, f10, f11, f12, f13, f14, f15, f16, f17, f18, f19, f20] := by
  intro i hi
  match i, hi with
  | 0, _ => exact h0
  | 1, _ => exact h1
  | 2, _ => exact h2
  | 3, _ => exact h3
  | 4, _ => exact h4
  | 5, _ => exact h5
  | 6, _ => exact h6
  | 7, _ => exact h7
  | 8, _ => exact h8
  | 9, _ => exact h9
  | 10, _ => exact h10
  | 11, _ => exact h11
  | 12, _ => exact h12
  | 13, _ => exact h13
  | 14, _ => exact h14
  | 15, _ => exact h15
  | 16, _ => exact h16
  | 17, _ => exact h17
  | 18, _ => exact h18
  | 19, _ => exact h19
  | 20, _ => exact h20
  | n + 21, h => simp only [List.length_cons, List.length_nil] at h; omega

/-- payload bytes contributed by the kind (fields of flag bits 0..3). -/
def payloadOf (p0 p1 p2 p3 : Option Bytes) : Bytes :=
  optBytes p0 ++ optBytes p1 ++ optBytes p2 ++ optBytes p3

/-- final encoder state for a cell whose kind contributes the payload fields `p0..p3`. -/
def encAcc (p0 p1 p2 p3 : Option Bytes) (c : Cell) : Acc :=
  closedAcc (flagsOf [p0, p1, p2, p3]) (payloadOf p0 p1 p2 p3).length (payloadOf p0 p1 p2 p3) c

/-- the record assembled from a final encoder state. -/
def encBytes (ctype : UInt8) (a : Acc) : Bytes :=
  [5, ctype, 0, 0, 0, 0, UInt8.ofNat a.b6, 0] ++ leBytes 4 a.flags ++ a.body

theorem flagsOf4_lt (p0 p1 p2 p3 : Option Bytes) : flagsOf [p0, p1, p2, p3] < 16 := by
  have := flagsOf_lt [p0, p1, p2, p3]
  simpa using this

theorem encAcc_flags_lt (p0 p1 p2 p3 : Option Bytes) (c : Cell) :
    (encAcc p0 p1 p2 p3 c).flags < 524288 :=
  closed_flags_lt _ _ _ c (flagsOf4_lt p0 p1 p2 p3)

theorem encAcc_announces (p0 p1 p2 p3 : Option Bytes) (c : Cell) :
    Announces (encAcc p0 p1 p2 p3 c).flags (encFields p0 p1 p2 p3 c) := by
  have tb : ∀ j, (encAcc p0 p1 p2 p3 c).flags.testBit j = _ := closed_flags_testBit _ _ _ c
  have lo : ∀ j (h : j < 4), (flagsOf [p0, p1, p2, p3]).testBit j = ([p0, p1, p2, p3][j]).isSome :=
    fun j h => testBit_flagsOf [p0, p1, p2, p3] j (by simpa using h)
  have hi : ∀ j, 4 ≤ j → (flagsOf [p0, p1, p2, p3]).testBit j = false := by
    intro j hj
    apply Nat.testBit_lt_two_pow
    have : 2 ^ 4 ≤ 2 ^ j := Nat.pow_le_pow_right (by decide) hj
    have := flagsOf4_lt p0 p1 p2 p3
    omega
  apply announces21
  · rw [tb, lo 0 (by decide)]; simp
  · rw [tb, lo 1 (by decide)]; simp
  · rw [tb, lo 2 (by decide)]; simp
  · rw [tb, lo 3 (by decide)]; simp
  · rw [tb, hi 4 (by decide), optI32_isSome]; simp
  · rw [tb, hi 5 (by decide), optI32_isSome]; simp
  · rw [tb, hi 6 (by decide), optI32_isSome]; simp
  · rw [tb, hi 7 (by decide)]; simp
  · rw [tb, hi 8 (by decide)]; simp
  · rw [tb, hi 9 (by decide), optI32_isSome]; simp
  · rw [tb, hi 10 (by decide), optI32_isSome]; simp
  · rw [tb, hi 11 (by decide)]; simp
  · rw [tb, hi 12 (by decide), optI32_isSome]; simp
  · rw [tb, hi 13 (by decide), optI32_isSome]; simp
  · rw [tb, hi 14 (by decide), optI32_isSome]; simp
  · rw [tb, hi 15 (by decide), optI32_isSome]; simp
  · rw [tb, hi 16 (by decide), optI32_isSome]; simp
  · rw [tb, hi 17 (by decide), optI32_isSome]; simp
  · rw [tb, hi 18 (by decide), optI32_isSome]; simp
  · rw [tb, hi 19 (by decide)]; simp
  · rw [tb, hi 20 (by decide)]; simp

theorem encFields_widths (p0 p1 p2 p3 : Option Bytes) (c : Cell)
    (hw0 : ∀ b, p0 = some b → b.length = 16) (hw1 : ∀ b, p1 = some b → b.length = 8)
    (hw2 : ∀ b, p2 = some b → b.length = 8) (hw3 : ∀ b, p3 = some b → b.length = 4) :
    WidthsOK (encFields p0 p1 p2 p3 c) := by
  have hn : ∀ (w : Nat) (b : Bytes), (none : Option Bytes) = some b → b.length = w :=
    fun _ _ h => by cases h
  apply widths21
  · exact hw0
  · exact hw1
  · exact hw2
  · exact hw3
  · exact optI32_width _
  · exact optI32_width _
  · exact optI32_width _
  · exact hn _
  · exact hn _
  · exact optI32_width _
  · exact optI32_width _
  · exact hn _
  · exact optI32_width _
  · exact optI32_width _
  · exact optI32_width _
  · exact optI32_width _
  · exact optI32_width _
  · exact optI32_width _
  · exact optI32_width _
  · exact hn _
  · exact hn _

theorem encAcc_body (p0 p1 p2 p3 : Option Bytes) (c : Cell) :
    (encAcc p0 p1 p2 p3 c).body = fieldsBody (encFields p0 p1 p2 p3 c) := by
  simp [encAcc, closedAcc, encFields, fieldsBody, optBytes, payloadOf]

theorem encAcc_flags_eq (p0 p1 p2 p3 : Option Bytes) (c : Cell) :
    (encAcc p0 p1 p2 p3 c).flags = flagsOf (encFields p0 p1 p2 p3 c) := by
  have hlen : (encFields p0 p1 p2 p3 c).length = 21 := rfl
  apply Nat.eq_of_testBit_eq
  intro j
  by_cases hj : j < 21
  · rw [encAcc_announces p0 p1 p2 p3 c j (by omega), testBit_flagsOf _ j (by omega)]
  · have h1 : (encAcc p0 p1 p2 p3 c).flags.testBit j = false := by
      apply Nat.testBit_lt_two_pow
      have : 2 ^ 21 ≤ 2 ^ j := Nat.pow_le_pow_right (by decide) (by omega)
      have := encAcc_flags_lt p0 p1 p2 p3 c
      omega
    have h2 : (flagsOf (encFields p0 p1 p2 p3 c)).testBit j = false := by
      apply Nat.testBit_lt_two_pow
      have := flagsOf_lt (encFields p0 p1 p2 p3 c)
      have h3 : 2 ^ (encFields p0 p1 p2 p3 c).length ≤ 2 ^ j :=
        Nat.pow_le_pow_right (by decide) (by omega)
      omega
    rw [h1, h2]

/-- the encoder's output IS the layout record with the fields `encFields`. -/
theorem encBytes_eq_spec (p0 p1 p2 p3 : Option Bytes) (c : Cell) (ctype : UInt8) :
    encBytes ctype (encAcc p0 p1 p2 p3 c)
      = specEncode ⟨ctype, [0, 0, 0, 0], [UInt8.ofNat (encAcc p0 p1 p2 p3 c).b6, 0], encFields p0 p1 p2 p3 c⟩ := by
  simp only [encBytes, specEncode, encAcc_body, ← encAcc_flags_eq]
  simp

theorem encodeWith_encBytes (hdr : Cell → PyM (Option (Nat × Nat × UInt8 × Bytes))) (c : Cell)
    (p0 p1 p2 p3 : Option Bytes) (ctype : UInt8)
    (hh : hdr c = .ok (some (flagsOf [p0, p1, p2, p3], (payloadOf p0 p1 p2 p3).length, ctype,
      payloadOf p0 p1 p2 p3)))
    (hr : IdsInRange c.ids) :
    encodeWith hdr c = .ok (some (encBytes ctype (encAcc p0 p1 p2 p3 c))) := by
  have hlt := encAcc_flags_lt p0 p1 p2 p3 c
  have hlen : (encAcc p0 p1 p2 p3 c).length = 12 + (encAcc p0 p1 p2 p3 c).body.length :=
    closed_length _ _ _ c rfl
  rw [encodeWith_closed hdr c _ _ _ _ hh hr]
  show (finish ctype (encAcc p0 p1 p2 p3 c)).bind _ = _
  rw [finish_ok ctype _ hlen (by omega)]
  rfl

theorem decode_encBytes (p0 p1 p2 p3 : Option Bytes) (c : Cell) (ctype : UInt8)
    (hw0 : ∀ b, p0 = some b → b.length = 16) (hw1 : ∀ b, p1 = some b → b.length = 8)
    (hw2 : ∀ b, p2 = some b → b.length = 8) (hw3 : ∀ b, p3 = some b → b.length = 4) :
    decode (encBytes ctype (encAcc p0 p1 p2 p3 c))
      = (dispatch ctype (rawOf p0 p1 p2 p3 (optI32 c.ids.rich) (optI32 c.ids.cellStyle) (optI32 c.ids.textStyle) none none (optI32 c.ids.formula) (optI32 c.ids.control) none (optI32 c.ids.suggest) (optI32 c.ids.numFmt) (optI32 c.ids.curFmt) (optI32 c.ids.dateFmt) (optI32 c.ids.durFmt) (optI32 c.ids.textFmt) (optI32 c.ids.boolFmt) none none)).bind
          (fun k => .ok (assemble k (rawOf p0 p1 p2 p3 (optI32 c.ids.rich) (optI32 c.ids.cellStyle) (optI32 c.ids.textStyle) none none (optI32 c.ids.formula) (optI32 c.ids.control) none (optI32 c.ids.suggest) (optI32 c.ids.numFmt) (optI32 c.ids.curFmt) (optI32 c.ids.dateFmt) (optI32 c.ids.durFmt) (optI32 c.ids.textFmt) (optI32 c.ids.boolFmt) none none)
            ((encAcc p0 p1 p2 p3 c).b6 % 256) ((encAcc p0 p1 p2 p3 c).flags : Int))) := by
  have hA := encAcc_announces p0 p1 p2 p3 c
  have hW := encFields_widths p0 p1 p2 p3 c hw0 hw1 hw2 hw3
  have hlt := encAcc_flags_lt p0 p1 p2 p3 c
  have hbody := encAcc_body p0 p1 p2 p3 c
  obtain ⟨a, ha⟩ : ∃ a, a = encAcc p0 p1 p2 p3 c := ⟨_, rfl⟩
  rw [← ha] at hA hlt hbody ⊢
  have hd := decode_layout ctype [0, 0, 0, 0] [UInt8.ofNat a.b6, 0] rfl rfl a.flags (by omega)
    p0 p1 p2 p3 (optI32 c.ids.rich) (optI32 c.ids.cellStyle) (optI32 c.ids.textStyle) none none (optI32 c.ids.formula) (optI32 c.ids.control) none (optI32 c.ids.suggest) (optI32 c.ids.numFmt) (optI32 c.ids.curFmt) (optI32 c.ids.dateFmt) (optI32 c.ids.durFmt) (optI32 c.ids.textFmt) (optI32 c.ids.boolFmt) none none [] hA hW
  have hx : leNat [UInt8.ofNat a.b6, 0] = a.b6 % 256 := by
    simp [leNat, UInt8.toNat_ofNat']
  have hs : toSigned32 a.flags = (a.flags : Int) := by
    unfold toSigned32; split <;> omega
  rw [hx, hs] at hd
  rw [← hd]
  congr 1
  simp only [encBytes, hbody, encFields]
  simp

/-! ### per-kind instantiation -/

/-- cells `_to_buffer` stores, with payloads of the size the packers produce and a string key
    that fits an int32. -/
def Encodable (c : Cell) : Prop :=
  match c.kind with
  | .number | .currency => c.payload.length = 16
  | .date | .bool | .duration => c.payload.length = 8
  | .text => I32 c.stringKey
  | .empty | .rich => True
  | .merged | .other => False

/-- payload fields (flag bits 0..3) a kind contributes. -/
def kindPayload (c : Cell) : Option Bytes × Option Bytes × Option Bytes × Option Bytes :=
  match c.kind with
  | .number | .currency => (some c.payload, none, none, none)
  | .bool | .duration => (none, some c.payload, none, none)
  | .date => (none, none, some c.payload, none)
  | .text => (none, none, none, some (encI32 c.stringKey))
  | _ => (none, none, none, none)

def kindCType : Kind → UInt8
  | .number => 2 | .currency => 10 | .text => 3 | .date => 5 | .bool => 6 | .duration => 7
  | .rich => 9 | _ => 0

/-- the class the decoder instantiates for a stored kind. -/
def dkindOf : Kind → DKind
  | .number => .number | .currency => .currency | .text => .text | .date => .date | .bool => .bool
  | .duration => .duration | .rich => .rich | _ => .empty

/-- final encoder state / record / flags word / extras of an encodable cell. -/
def cellAcc (c : Cell) : Acc :=
  encAcc (kindPayload c).1 (kindPayload c).2.1 (kindPayload c).2.2.1 (kindPayload c).2.2.2 c
def cellBytes (c : Cell) : Bytes := encBytes (kindCType c.kind) (cellAcc c)
def cellFields (c : Cell) : List (Option Bytes) :=
  encFields (kindPayload c).1 (kindPayload c).2.1 (kindPayload c).2.2.1 (kindPayload c).2.2.2 c
def flagsWordOf (c : Cell) : Nat := (cellAcc c).flags
def extrasOf (c : Cell) : Nat := (cellAcc c).b6 % 256

/-- what `_from_storage` must return for the record of `c`: same kind, same payload bytes in
    the payload slot of that kind, the string key, and every optional id unchanged. -/
def view (c : Cell) : Decoded :=
  { kind := dkindOf c.kind,
    d128 := if c.kind = .number ∨ c.kind = .currency then some c.payload else none,
    double := if c.kind = .bool ∨ c.kind = .duration then some c.payload else none,
    seconds := if c.kind = .date then some c.payload else none,
    stringId := if c.kind = .text then some c.stringKey else none,
    ids := c.ids,
    extras := extrasOf c,
    flags := (flagsWordOf c : Int) }

theorem kindHeader_eq (c : Cell) (he : Encodable c) :
    kindHeader c = .ok (some (flagsOf [(kindPayload c).1, (kindPayload c).2.1, (kindPayload c).2.2.1, (kindPayload c).2.2.2],
      (payloadOf (kindPayload c).1 (kindPayload c).2.1 (kindPayload c).2.2.1 (kindPayload c).2.2.2).length,
      kindCType c.kind,
      payloadOf (kindPayload c).1 (kindPayload c).2.1 (kindPayload c).2.2.1 (kindPayload c).2.2.2)) := by
  unfold Encodable at he
  unfold kindHeader kindPayload
  cases hk : c.kind <;> simp only [hk] at he ⊢ <;>
    first
    | exact absurd he id
    | simp [payloadOf, optBytes, flagsOf, kindCType, he, packI32_ok, bind, Except.bind, pure, Except.pure, encI32_length]

theorem kindPayload_widths (c : Cell) (he : Encodable c) :
    (∀ b, (kindPayload c).1 = some b → b.length = 16) ∧
    (∀ b, (kindPayload c).2.1 = some b → b.length = 8) ∧
    (∀ b, (kindPayload c).2.2.1 = some b → b.length = 8) ∧
    (∀ b, (kindPayload c).2.2.2 = some b → b.length = 4) := by
  unfold Encodable at he
  unfold kindPayload
  cases hk : c.kind <;> simp only [hk] at he ⊢ <;>
    first
    | exact absurd he id
    | (refine ⟨?_, ?_, ?_, ?_⟩ <;> intro b hb <;> simp at hb <;> (try rw [← hb]) <;>
        first | exact he | exact encI32_length _)

theorem encode_eq (c : Cell) (he : Encodable c) (hr : IdsInRange c.ids) :
    encode c = .ok (some (cellBytes c)) :=
  encodeWith_encBytes kindHeader c _ _ _ _ _ (kindHeader_eq c he) hr

theorem raw_ids (c : Cell) (p0 p1 p2 p3 f7 f8 f11 f19 f20 : Option Bytes) (hr : IdsInRange c.ids) :
    (rawOf p0 p1 p2 p3 (optI32 c.ids.rich) (optI32 c.ids.cellStyle) (optI32 c.ids.textStyle) f7 f8
      (optI32 c.ids.formula) (optI32 c.ids.control) f11 (optI32 c.ids.suggest) (optI32 c.ids.numFmt)
      (optI32 c.ids.curFmt) (optI32 c.ids.dateFmt) (optI32 c.ids.durFmt) (optI32 c.ids.textFmt)
      (optI32 c.ids.boolFmt) f19 f20).ids = c.ids := by
  unfold IdsInRange at hr
  simp only [rawOf, Raw.ids]
  rw [optI32_roundtrip c.ids.rich (hr c.ids.rich (by simp))]
  rw [optI32_roundtrip c.ids.cellStyle (hr c.ids.cellStyle (by simp))]
  rw [optI32_roundtrip c.ids.textStyle (hr c.ids.textStyle (by simp))]
  rw [optI32_roundtrip c.ids.formula (hr c.ids.formula (by simp))]
  rw [optI32_roundtrip c.ids.control (hr c.ids.control (by simp))]
  rw [optI32_roundtrip c.ids.suggest (hr c.ids.suggest (by simp))]
  rw [optI32_roundtrip c.ids.numFmt (hr c.ids.numFmt (by simp))]
  rw [optI32_roundtrip c.ids.curFmt (hr c.ids.curFmt (by simp))]
  rw [optI32_roundtrip c.ids.dateFmt (hr c.ids.dateFmt (by simp))]
  rw [optI32_roundtrip c.ids.durFmt (hr c.ids.durFmt (by simp))]
  rw [optI32_roundtrip c.ids.textFmt (hr c.ids.textFmt (by simp))]
  rw [optI32_roundtrip c.ids.boolFmt (hr c.ids.boolFmt (by simp))]

theorem decode_cellBytes (c : Cell) (he : Encodable c) (hr : IdsInRange c.ids) :
    decode (cellBytes c) = .ok (view c) := by
  obtain ⟨hw0, hw1, hw2, hw3⟩ := kindPayload_widths c he
  unfold cellBytes cellAcc
  rw [decode_encBytes _ _ _ _ c _ hw0 hw1 hw2 hw3]
  have hids := raw_ids c (kindPayload c).1 (kindPayload c).2.1 (kindPayload c).2.2.1
    (kindPayload c).2.2.2 none none none none none hr
  unfold view extrasOf flagsWordOf cellAcc
  unfold Encodable at he
  cases hk : c.kind <;> simp only [hk] at he <;>
    first
    | exact absurd he id
    | (simp only [assemble, hids]
       simp [kindPayload, hk, kindCType, dispatch, rawOf, dkindOf, Except.bind, i32OfBytes_encI32, he])

theorem optLen_facts (o : Option Int) :
    (optBytes (optI32 o)).length % 4 = 0 ∧ (optBytes (optI32 o)).length ≤ 4 := by
  rw [optBytes_length_le4]; split <;> simp

theorem cellBytes_length (c : Cell) (he : Encodable c) :
    (cellBytes c).length % 4 = 0 ∧ (cellBytes c).length ≤ 12 + 16 + 12 * 4 := by
  have hp : (payloadOf (kindPayload c).1 (kindPayload c).2.1 (kindPayload c).2.2.1 (kindPayload c).2.2.2).length % 4 = 0
      ∧ (payloadOf (kindPayload c).1 (kindPayload c).2.1 (kindPayload c).2.2.1 (kindPayload c).2.2.2).length ≤ 16 := by
    unfold Encodable at he
    unfold kindPayload
    cases hk : c.kind <;> simp only [hk] at he ⊢ <;>
      first
      | exact absurd he id
      | simp [payloadOf, optBytes, he, encI32_length]
  have h_rich := optLen_facts c.ids.rich
  have h_cellStyle := optLen_facts c.ids.cellStyle
  have h_textStyle := optLen_facts c.ids.textStyle
  have h_formula := optLen_facts c.ids.formula
  have h_control := optLen_facts c.ids.control
  have h_suggest := optLen_facts c.ids.suggest
  have h_numFmt := optLen_facts c.ids.numFmt
  have h_curFmt := optLen_facts c.ids.curFmt
  have h_dateFmt := optLen_facts c.ids.dateFmt
  have h_durFmt := optLen_facts c.ids.durFmt
  have h_textFmt := optLen_facts c.ids.textFmt
  have h_boolFmt := optLen_facts c.ids.boolFmt
  simp only [cellBytes, encBytes, cellAcc, encAcc, closedAcc, List.length_append, List.length_cons,
    List.length_nil, leBytes_length]
  omega

theorem extrasOf_spec (c : Cell) :
    extrasOf c = (if c.ids.numFmt.isSome then 1 else 0) + (if c.ids.curFmt.isSome then 2 else 0)
      + (if c.ids.durFmt.isSome then 4 else 0) + (if c.ids.dateFmt.isSome then 8 else 0)
      + (if c.ids.boolFmt.isSome then 0x20 else 0) + (if c.stringId.isSome then 0x80 else 0) := by
  simp only [extrasOf, cellAcc, encAcc, closedAcc, ite_self]
  cases c.ids.numFmt.isSome <;> cases c.ids.curFmt.isSome <;> cases c.ids.durFmt.isSome <;>
    cases c.ids.dateFmt.isSome <;> cases c.ids.boolFmt.isSome <;> cases c.stringId.isSome <;> rfl

theorem encode_none (c : Cell) (h : c.kind = .merged ∨ c.kind = .other) : encode c = .ok none := by
  unfold encode encodeWith kindHeader
  rcases h with h | h <;> simp [h, bind, Except.bind, pure, Except.pure]

end NumbersModel.CellRecord
