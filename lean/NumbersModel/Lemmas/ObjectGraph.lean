/-
Helper lemmas for the object-graph part of C07 (Model/ObjectStore.lean, section "the object graph").
-/
import NumbersModel.Lemmas.ObjectStore
namespace NumbersModel.ObjStore
open NumbersModel NumbersModel.Layout

/-! ### small facts -/

theorem getL_dictSet (d : List (Nat × List Nat)) (k q : Nat) (v : List Nat) :
    getL (dictSet d k v) q = if k = q then v else getL d q := by
  unfold getL
  rw [dictGet?_dictSet]
  split <;> rfl

theorem mem_setAdd (l : List Nat) (k x : Nat) : x ∈ setAdd l k ↔ x ∈ l ∨ x = k := by
  unfold setAdd
  split
  · rename_i h
    constructor
    · exact Or.inl
    · rintro (h' | rfl)
      · exact h'
      · exact h
  · simp

/-- what `createObject` does to the fields the graph cares about -/
theorem createObject_cases (st : Store) (f : List Char) (a : Bool) :
    (createObject st f a).1.components = st.components ∧
    ((∃ e, (createObject st f a).2 = .error e ∧ (createObject st f a).1.ids = st.ids ∧
        (createObject st f a).1.files = st.files ∧ (createObject st f a).1.fileOf = st.fileOf) ∨
     ((createObject st f a).2 = .ok (st.maxId + 1) ∧ (createObject st f a).1.ids = setAdd st.ids (st.maxId + 1) ∧
        (createObject st f a).1.maxId = st.maxId + 1)) := by
  unfold createObject newMessageId
  simp only
  split
  · split
    · exact ⟨rfl, Or.inl ⟨_, rfl, rfl, rfl, rfl⟩⟩
    · exact ⟨rfl, Or.inr ⟨rfl, rfl, rfl⟩⟩
  · exact ⟨rfl, Or.inr ⟨rfl, rfl, rfl⟩⟩

theorem createG_cases (g : GStore) (f : List Char) (a : Bool) (rs : List Nat) :
    (createG g f a rs).1.shared = g.shared ∧ (createG g f a rs).1.components = g.components ∧
    ((∃ e, (createG g f a rs).2 = .error e ∧ (createG g f a rs).1.ids = g.ids ∧ (createG g f a rs).1.refs = g.refs ∧
        (createG g f a rs).1.archMsg = g.archMsg ∧ (createG g f a rs).1.hdr = g.hdr) ∨
     ((createG g f a rs).2 = .ok (g.maxId + 1) ∧ (createG g f a rs).1.ids = setAdd g.ids (g.maxId + 1) ∧
        (createG g f a rs).1.refs = dictSet g.refs (g.maxId + 1) rs ∧
        (createG g f a rs).1.archMsg = dictSet g.archMsg (g.maxId + 1) rs ∧
        (createG g f a rs).1.hdr = dictSet g.hdr (g.maxId + 1) [])) := by
  obtain ⟨hc, h⟩ := createObject_cases g.toStore f a
  unfold createG
  split
  · rename_i st e heq
    rw [heq] at h hc
    rcases h with ⟨e', _, hi, _, _⟩ | ⟨h1, _⟩
    · exact ⟨rfl, hc, Or.inl ⟨e, rfl, hi, rfl, rfl, rfl⟩⟩
    · cases h1
  · rename_i st id heq
    rw [heq] at h hc
    rcases h with ⟨e', h1, _⟩ | ⟨h1, hi, _⟩
    · cases h1
    · simp only [Except.ok.injEq] at h1
      subst h1
      exact ⟨rfl, hc, Or.inr ⟨rfl, hi, rfl, rfl, rfl⟩⟩

theorem addExtRefWhere_keeps (p : Component → Bool) (e : ExtRef) (cs cs' : List Component)
    (h : addExtRefWhere p e cs = some cs') (c : Component) (hc : c ∈ cs) :
    ∃ c' ∈ cs', c'.identifier = c.identifier ∧ c'.locator = c.locator ∧ c'.preferred = c.preferred := by
  induction cs generalizing cs' with
  | nil => cases hc
  | cons a r ih =>
    simp only [addExtRefWhere] at h
    split at h
    · simp only [Option.some.injEq] at h
      subst h
      rcases List.mem_cons.mp hc with rfl | hr
      · exact ⟨_, List.mem_cons_self, rfl, rfl, rfl⟩
      · exact ⟨c, List.mem_cons_of_mem _ hr, rfl, rfl, rfl⟩
    · cases hr' : addExtRefWhere p e r with
      | none => simp [hr'] at h
      | some r' =>
        simp only [hr', Option.map_some, Option.some.injEq] at h
        subst h
        rcases List.mem_cons.mp hc with rfl | hr
        · exact ⟨c, List.mem_cons_self, rfl, rfl, rfl⟩
        · obtain ⟨c', hc', e'⟩ := ih r' hr' hr
          exact ⟨c', List.mem_cons_of_mem _ hc', e'⟩

theorem addComponentReference_fields (st : Store) (i : Nat) (l : Option (List Char)) (c : Option Nat) (w : Bool) :
    (addComponentReference st i l c w).1.ids = st.ids ∧ (addComponentReference st i l c w).1.maxId = st.maxId ∧
    (addComponentReference st i l c w).1.files = st.files ∧ (addComponentReference st i l c w).1.fileOf = st.fileOf := by
  unfold addComponentReference
  simp only
  split <;> exact ⟨rfl, rfl, rfl, rfl⟩

theorem addComponentMetadata_fileOf (st : Store) (i : Nat) (p l : List Char) :
    (addComponentMetadata st i p l).1.fileOf = st.fileOf := by
  unfold addComponentMetadata
  simp only
  split <;> rfl

/-! ### which member a new object goes to -/

theorem mem_iwaPaths (files : List (List Char × Option (List Nat))) (f path : List Char) (segs : List Nat) :
    (path, segs) ∈ iwaPaths files f ↔ ((path, some segs) ∈ files ∧ isInfix f path = true) := by
  unfold iwaPaths
  rw [List.mem_filterMap]
  constructor
  · rintro ⟨⟨n, o⟩, hm, he⟩
    cases o with
    | none => simp at he
    | some s =>
      simp only at he
      split at he
      · rename_i hin
        simp only [Option.some.injEq, Prod.mk.injEq] at he
        obtain ⟨rfl, rfl⟩ := he
        exact ⟨hm, hin⟩
      · cases he
  · rintro ⟨hm, hin⟩
    exact ⟨(path, some segs), hm, by simp [hin]⟩

theorem createObject_noappend_ok (st : Store) (f : List Char) : (createObject st f false).2 = .ok (st.maxId + 1) := by
  unfold createObject newMessageId
  simp only
  split
  · simp
  · rfl

theorem createObject_append_cases (st : Store) (f : List Char) :
    (createObject st f true).2 = .ok (st.maxId + 1) ∨
    ((createObject st f true).2 = .error .KeyError ∧ iwaPaths st.files f = []) := by
  unfold createObject newMessageId
  simp only
  split
  · rename_i h; exact Or.inr ⟨by simp, h⟩
  · exact Or.inl rfl

theorem createObject_first_member (st : Store) (f : List Char) (a : Bool) (path : List Char) (segs : List Nat)
    (rest : List (List Char × List Nat)) (h : iwaPaths st.files f = (path, segs) :: rest) :
    (createObject st f a).2 = .ok (st.maxId + 1) ∧
    dictGet? (createObject st f a).1.files path = some (some (segs ++ [st.maxId + 1])) ∧
    dictGet? (createObject st f a).1.fileOf (st.maxId + 1) = some path := by
  unfold createObject newMessageId
  simp only [h]
  exact ⟨trivial, by rw [dictGet?_dictSet, if_pos rfl], by rw [dictGet?_dictSet, if_pos rfl]⟩

theorem createObject_filed (st : Store) (f : List Char) (a : Bool) (id : Nat) (h : (createObject st f a).2 = .ok id) :
    ∃ path segs, dictGet? (createObject st f a).1.fileOf id = some path ∧
      dictGet? (createObject st f a).1.files path = some (some segs) ∧ id ∈ segs := by
  unfold createObject newMessageId at h ⊢
  simp only at h ⊢
  split
  · rename_i hp
    simp only [hp] at h
    split at h
    · cases h
    · rename_i ha
      simp only [Except.ok.injEq] at h
      subst h
      simp only [ha, Bool.false_eq_true, if_false]
      exact ⟨_, _, by rw [dictGet?_dictSet, if_pos rfl], by rw [dictGet?_dictSet, if_pos rfl], by simp⟩
  · rename_i path segs rest hp
    simp only [hp, Except.ok.injEq] at h
    subst h
    exact ⟨_, _, by rw [dictGet?_dictSet, if_pos rfl], by rw [dictGet?_dictSet, if_pos rfl], by simp⟩

/-! ### update_object_file_store -/

/-- object `i` is filed: `_object_to_filename_map[i]` names an IWA file whose archives include `i` -/
def Filed (g : GStore) (i : Nat) : Prop :=
  ∃ path segs, dictGet? g.fileOf i = some path ∧ dictGet? g.files path = some (some segs) ∧ i ∈ segs

theorem createG_filed (g : GStore) (f : List Char) (a : Bool) (rs : List Nat) (id : Nat)
    (h : (createG g f a rs).2 = .ok id) : Filed (createG g f a rs).1 id := by
  have key : (createG g f a rs).1.toStore = (createObject g.toStore f a).1 ∧ (createG g f a rs).2 = (createObject g.toStore f a).2 := by
    unfold createG
    split <;> rename_i heq <;> rw [heq] <;> exact ⟨rfl, rfl⟩
  rw [key.2] at h
  obtain ⟨path, segs, h1, h2, h3⟩ := createObject_filed g.toStore f a id h
  refine ⟨path, segs, ?_, ?_, h3⟩
  · show dictGet? (createG g f a rs).1.toStore.fileOf id = _; rw [key.1]; exact h1
  · show dictGet? (createG g f a rs).1.toStore.files path = _; rw [key.1]; exact h2

theorem wellFiled_iff (g : GStore) : wellFiled g = true ↔ ∀ i ∈ g.ids, Filed g i := by
  unfold wellFiled Filed
  rw [List.all_eq_true]
  constructor
  · intro h i hi
    have := h i hi
    split at this
    · rename_i path hp
      split at this
      · rename_i segs hs
        exact ⟨path, segs, hp, hs, of_decide_eq_true this⟩
      · cases this
    · cases this
  · intro h i hi
    obtain ⟨path, segs, hp, hs, hm⟩ := h i hi
    simp only [hp, hs]
    exact decide_eq_true hm

/-- the archive of `i` holds what the live message held in `g0`, and its header lists exactly those references —
    unless the message has none, in which case the header is left as it was in `g0` -/
def Synced (g0 g : GStore) (i : Nat) : Prop :=
  g.writtenOf i = g0.refsOf i ∧ (g0.refsOf i ≠ [] → g.hdrOf i = g0.refsOf i) ∧ (g0.refsOf i = [] → g.hdrOf i = g0.hdrOf i)

theorem copyObject_spec (g : GStore) (id : Nat) (hf : Filed g id) :
    (copyObject g id).2 = .ok () ∧ (copyObject g id).1.toStore = g.toStore ∧ (copyObject g id).1.refs = g.refs ∧
    (copyObject g id).1.shared = g.shared ∧ Synced g (copyObject g id).1 id ∧
    ∀ j, j ≠ id → getL (copyObject g id).1.archMsg j = getL g.archMsg j ∧ getL (copyObject g id).1.hdr j = getL g.hdr j := by
  obtain ⟨path, segs, hp, hs, hm⟩ := hf
  unfold copyObject
  simp only [hp, hs, if_pos hm]
  by_cases hsh : id ∈ g.shared
  · simp only [if_pos hsh]
    split
    · rename_i hlen
      refine ⟨rfl, rfl, rfl, rfl, ⟨?_, ?_, ?_⟩, ?_⟩
      · simp [GStore.writtenOf, GStore.refsOf, hsh]
      · intro _; simp [GStore.hdrOf, GStore.refsOf, getL_dictSet]
      · intro h0; simp only [GStore.refsOf] at h0; rw [h0] at hlen; simp at hlen
      · intro j hj
        exact ⟨rfl, by simp only [getL_dictSet, if_neg (Ne.symm hj)]⟩
    · rename_i hlen
      have h0 : getL g.refs id = [] := by
        cases hr : getL g.refs id with
        | nil => rfl
        | cons a r => rw [hr] at hlen; simp at hlen
      refine ⟨rfl, rfl, rfl, rfl, ⟨?_, ?_, ?_⟩, ?_⟩
      · simp [GStore.writtenOf, GStore.refsOf, hsh]
      · intro hne; exact absurd h0 hne
      · intro _; rfl
      · intro j _; exact ⟨rfl, rfl⟩
  · simp only [if_neg hsh]
    split
    · rename_i hlen
      refine ⟨rfl, rfl, rfl, rfl, ⟨?_, ?_, ?_⟩, ?_⟩
      · simp [GStore.writtenOf, GStore.refsOf, hsh, getL_dictSet]
      · intro _; simp [GStore.hdrOf, GStore.refsOf, getL_dictSet]
      · intro h0; simp only [GStore.refsOf] at h0; rw [h0] at hlen; simp at hlen
      · intro j hj
        exact ⟨by simp only [getL_dictSet, if_neg (Ne.symm hj)], by simp only [getL_dictSet, if_neg (Ne.symm hj)]⟩
    · rename_i hlen
      have h0 : getL g.refs id = [] := by
        cases hr : getL g.refs id with
        | nil => rfl
        | cons a r => rw [hr] at hlen; simp at hlen
      refine ⟨rfl, rfl, rfl, rfl, ⟨?_, ?_, ?_⟩, ?_⟩
      · simp [GStore.writtenOf, GStore.refsOf, hsh, getL_dictSet]
      · intro hne; exact absurd h0 hne
      · intro _; rfl
      · intro j hj
        exact ⟨by simp only [getL_dictSet, if_neg (Ne.symm hj)], rfl⟩

theorem Filed_congr {g g' : GStore} (h : g'.toStore = g.toStore) (i : Nat) : Filed g' i ↔ Filed g i := by
  unfold Filed
  rw [show g'.fileOf = g.fileOf from congrArg Store.fileOf h, show g'.files = g.files from congrArg Store.files h]

theorem copyAll_spec (g : GStore) (l : List Nat) (hf : ∀ i ∈ l, Filed g i) :
    (copyAll g l).2 = .ok () ∧ (copyAll g l).1.toStore = g.toStore ∧ (copyAll g l).1.refs = g.refs ∧
    (copyAll g l).1.shared = g.shared ∧ (∀ i ∈ l, Synced g (copyAll g l).1 i) ∧
    ∀ j, j ∉ l → getL (copyAll g l).1.archMsg j = getL g.archMsg j ∧ getL (copyAll g l).1.hdr j = getL g.hdr j := by
  induction l generalizing g with
  | nil => exact ⟨rfl, rfl, rfl, rfl, fun _ h => absurd h List.not_mem_nil, fun _ _ => ⟨rfl, rfl⟩⟩
  | cons a r ih =>
    obtain ⟨h1, h2, h3, h4, h5, h6⟩ := copyObject_spec g a (hf a List.mem_cons_self)
    have hstep : copyAll g (a :: r) = copyAll (copyObject g a).1 r := by
      show (match copyObject g a with | (g1, .ok ()) => copyAll g1 r | e => e) = _
      have : copyObject g a = ((copyObject g a).1, .ok ()) := Prod.ext rfl h1
      rw [this]
    rw [hstep]
    have hf' : ∀ i ∈ r, Filed (copyObject g a).1 i := fun i hi =>
      (Filed_congr h2 i).mpr (hf i (List.mem_cons_of_mem _ hi))
    obtain ⟨k1, k2, k3, k4, k5, k6⟩ := ih (copyObject g a).1 hf'
    refine ⟨k1, k2.trans h2, k3.trans h3, k4.trans h4, ?_, ?_⟩
    · intro i hi
      have hrefs : (copyObject g a).1.refsOf i = g.refsOf i := by simp only [GStore.refsOf, h3]
      by_cases hir : i ∈ r
      · obtain ⟨s1, s2, s3⟩ := k5 i hir
        rw [hrefs] at s1 s2 s3
        refine ⟨s1, s2, fun h0 => (s3 h0).trans ?_⟩
        by_cases hia : i = a
        · subst hia; exact h5.2.2 h0
        · exact (h6 i hia).2
      · have hia : i = a := by
          rcases List.mem_cons.mp hi with h | h
          · exact h
          · exact absurd h hir
        subst hia
        obtain ⟨u1, u2⟩ := k6 i hir
        obtain ⟨s1, s2, s3⟩ := h5
        refine ⟨?_, fun hne => ?_, fun h0 => ?_⟩
        · simp only [GStore.writtenOf, k4, k3, u1] at s1 ⊢
          exact s1
        · simp only [GStore.hdrOf, u2] at s2 ⊢; exact s2 hne
        · simp only [GStore.hdrOf, u2] at s3 ⊢; exact s3 h0
    · intro j hj
      have hja : j ≠ a := fun e => hj (e ▸ List.mem_cons_self)
      have hjr : j ∉ r := fun h => hj (List.mem_cons_of_mem _ h)
      obtain ⟨u1, u2⟩ := k6 j hjr
      obtain ⟨v1, v2⟩ := h6 j hja
      exact ⟨u1.trans v1, u2.trans v2⟩

/-- whatever happens (also when it raises half-way), an update leaves the store, the live messages and the
    sharing as they are, and every archive message / header list it leaves is either what it was or a copy of the live references -/
theorem copyObject_weak (g : GStore) (id : Nat) :
    (copyObject g id).1.toStore = g.toStore ∧ (copyObject g id).1.refs = g.refs ∧ (copyObject g id).1.shared = g.shared ∧
    ∀ j, (getL (copyObject g id).1.archMsg j = getL g.archMsg j ∨ getL (copyObject g id).1.archMsg j = getL g.refs j) ∧
         (getL (copyObject g id).1.hdr j = getL g.hdr j ∨ getL (copyObject g id).1.hdr j = getL g.refs j) := by
  have triv : g.toStore = g.toStore ∧ g.refs = g.refs ∧ g.shared = g.shared ∧
      ∀ j, (getL g.archMsg j = getL g.archMsg j ∨ getL g.archMsg j = getL g.refs j) ∧
           (getL g.hdr j = getL g.hdr j ∨ getL g.hdr j = getL g.refs j) :=
    ⟨rfl, rfl, rfl, fun _ => ⟨Or.inl rfl, Or.inl rfl⟩⟩
  cases hp : dictGet? g.fileOf id with
  | none => unfold copyObject; rw [hp]; exact triv
  | some path =>
    cases hs : dictGet? g.files path with
    | none => unfold copyObject; rw [hp]; dsimp only; rw [hs]; exact triv
    | some o =>
      cases o with
      | none => unfold copyObject; rw [hp]; dsimp only; rw [hs]; exact triv
      | some segs =>
        unfold copyObject; rw [hp]; dsimp only; rw [hs]; dsimp only
        by_cases hm : id ∈ segs
        · rw [if_pos hm]
          have hd : ∀ (d : List (Nat × List Nat)) (j : Nat),
              getL (dictSet d id (getL g.refs id)) j = getL d j ∨ getL (dictSet d id (getL g.refs id)) j = getL g.refs j := by
            intro d j
            rw [getL_dictSet]
            split
            · rename_i h; subst h; exact Or.inr rfl
            · exact Or.inl rfl
          by_cases hsh : id ∈ g.shared <;> by_cases hlen : (getL g.refs id).length > 0
          · rw [if_pos hsh, if_pos hlen]
            exact ⟨rfl, rfl, rfl, fun j => ⟨Or.inl rfl, hd g.hdr j⟩⟩
          · rw [if_pos hsh, if_neg hlen]
            exact ⟨rfl, rfl, rfl, fun j => ⟨Or.inl rfl, Or.inl rfl⟩⟩
          · rw [if_neg hsh, if_pos hlen]
            exact ⟨rfl, rfl, rfl, fun j => ⟨hd g.archMsg j, hd g.hdr j⟩⟩
          · rw [if_neg hsh, if_neg hlen]
            exact ⟨rfl, rfl, rfl, fun j => ⟨hd g.archMsg j, Or.inl rfl⟩⟩
        · rw [if_neg hm]
          exact triv

theorem copyAll_weak (g : GStore) (l : List Nat) :
    (copyAll g l).1.toStore = g.toStore ∧ (copyAll g l).1.refs = g.refs ∧ (copyAll g l).1.shared = g.shared ∧
    ∀ j, (getL (copyAll g l).1.archMsg j = getL g.archMsg j ∨ getL (copyAll g l).1.archMsg j = getL g.refs j) ∧
         (getL (copyAll g l).1.hdr j = getL g.hdr j ∨ getL (copyAll g l).1.hdr j = getL g.refs j) := by
  induction l generalizing g with
  | nil => exact ⟨rfl, rfl, rfl, fun _ => ⟨Or.inl rfl, Or.inl rfl⟩⟩
  | cons a r ih =>
    obtain ⟨h1, h2, h3, h4⟩ := copyObject_weak g a
    cases hres : (copyObject g a).2 with
    | error e =>
      have : copyAll g (a :: r) = copyObject g a := by
        show (match copyObject g a with | (g1, .ok ()) => copyAll g1 r | e => e) = _
        have hh : copyObject g a = ((copyObject g a).1, .error e) := Prod.ext rfl hres
        rw [hh]
      rw [this]
      exact ⟨h1, h2, h3, h4⟩
    | ok u =>
      have : copyAll g (a :: r) = copyAll (copyObject g a).1 r := by
        show (match copyObject g a with | (g1, .ok ()) => copyAll g1 r | e => e) = _
        have hh : copyObject g a = ((copyObject g a).1, .ok ()) := Prod.ext rfl hres
        rw [hh]
      rw [this]
      obtain ⟨k1, k2, k3, k4⟩ := ih (copyObject g a).1
      refine ⟨k1.trans h1, k2.trans h2, k3.trans h3, fun j => ?_⟩
      obtain ⟨a1, a2⟩ := k4 j
      obtain ⟨b1, b2⟩ := h4 j
      rw [h2] at a1 a2
      constructor
      · rcases a1 with a1 | a1
        · rcases b1 with b1 | b1
          · exact Or.inl (a1.trans b1)
          · exact Or.inr (a1.trans b1)
        · exact Or.inr a1
      · rcases a2 with a2 | a2
        · rcases b2 with b2 | b2
          · exact Or.inl (a2.trans b2)
          · exact Or.inr (a2.trans b2)
        · exact Or.inr a2

/-! ### closure as an invariant over histories -/

/-- reference `r` of object `i` did not resolve in the document as it was opened -/
def UnresolvedAtLoad (g0 : GStore) (i r : Nat) : Prop :=
  r ∉ g0.ids ∧ (r ∈ getL g0.refs i ∨ r ∈ getL g0.archMsg i ∨ r ∈ getL g0.hdr i)

/-- the invariant: every reference held by a live message, by an archive's message copy or listed in an archive header resolves
    among the stored objects, is exempted by `ex`, or was already unresolved at load in the same object -/
structure Closed (ex : Nat → Bool) (g0 g : GStore) : Prop where
  ids : ∀ i ∈ g0.ids, i ∈ g.ids
  refs : ∀ i r, r ∈ getL g.refs i → r ∈ g.ids ∨ ex r = true ∨ UnresolvedAtLoad g0 i r
  arch : ∀ i r, r ∈ getL g.archMsg i → r ∈ g.ids ∨ ex r = true ∨ UnresolvedAtLoad g0 i r
  hdr : ∀ i r, r ∈ getL g.hdr i → r ∈ g.ids ∨ ex r = true ∨ UnresolvedAtLoad g0 i r

theorem Closed.refl (ex : Nat → Bool) (g0 : GStore) : Closed ex g0 g0 := by
  refine ⟨fun _ h => h, ?_, ?_, ?_⟩ <;> intro i r hr <;> by_cases h : r ∈ g0.ids
  · exact Or.inl h
  · exact Or.inr (Or.inr ⟨h, Or.inl hr⟩)
  · exact Or.inl h
  · exact Or.inr (Or.inr ⟨h, Or.inr (Or.inl hr)⟩)
  · exact Or.inl h
  · exact Or.inr (Or.inr ⟨h, Or.inr (Or.inr hr)⟩)

/-- a state with the same objects, at least the same identifiers, whose lists are pointwise taken from closed lists -/
theorem Closed.of_pointwise {ex : Nat → Bool} {g0 g g' : GStore} (h : Closed ex g0 g)
    (hids : ∀ i ∈ g.ids, i ∈ g'.ids)
    (hrefs : ∀ i r, r ∈ getL g'.refs i → r ∈ getL g.refs i ∨ r ∈ g'.ids ∨ ex r = true)
    (harch : ∀ i r, r ∈ getL g'.archMsg i → r ∈ getL g.archMsg i ∨ r ∈ getL g.refs i ∨ r ∈ g'.ids ∨ ex r = true)
    (hhdr : ∀ i r, r ∈ getL g'.hdr i → r ∈ getL g.hdr i ∨ r ∈ getL g.refs i ∨ r ∈ g'.ids ∨ ex r = true) :
    Closed ex g0 g' := by
  have lift : ∀ {i r}, (r ∈ g.ids ∨ ex r = true ∨ UnresolvedAtLoad g0 i r) → (r ∈ g'.ids ∨ ex r = true ∨ UnresolvedAtLoad g0 i r) :=
    fun hh => hh.elim (fun a => Or.inl (hids _ a)) Or.inr
  refine ⟨fun i hi => hids i (h.ids i hi), ?_, ?_, ?_⟩
  · intro i r hr
    rcases hrefs i r hr with a | a | a
    · exact lift (h.refs i r a)
    · exact Or.inl a
    · exact Or.inr (Or.inl a)
  · intro i r hr
    rcases harch i r hr with a | a | a | a
    · exact lift (h.arch i r a)
    · exact lift (h.refs i r a)
    · exact Or.inl a
    · exact Or.inr (Or.inl a)
  · intro i r hr
    rcases hhdr i r hr with a | a | a | a
    · exact lift (h.hdr i r a)
    · exact lift (h.refs i r a)
    · exact Or.inl a
    · exact Or.inr (Or.inl a)

theorem addRef_fields (g : GStore) (o t : Nat) :
    (addRef g o t).1.toStore = g.toStore ∧ (addRef g o t).1.archMsg = g.archMsg ∧ (addRef g o t).1.hdr = g.hdr ∧
    (addRef g o t).1.shared = g.shared ∧
    ∀ i r, r ∈ getL (addRef g o t).1.refs i → r ∈ getL g.refs i ∨ r = t := by
  unfold addRef
  split
  · refine ⟨rfl, rfl, rfl, rfl, fun i r hr => ?_⟩
    simp only [getL_dictSet] at hr
    split at hr
    · rename_i h; subst h
      rcases List.mem_append.mp hr with h | h
      · exact Or.inl h
      · exact Or.inr (List.mem_singleton.mp h)
    · exact Or.inl hr
  · exact ⟨rfl, rfl, rfl, rfl, fun i r hr => Or.inl hr⟩

theorem clearRef_fields (g : GStore) (o t : Nat) :
    (clearRef g o t).1.toStore = g.toStore ∧ (clearRef g o t).1.archMsg = g.archMsg ∧ (clearRef g o t).1.hdr = g.hdr ∧
    (clearRef g o t).1.shared = g.shared ∧
    ∀ i r, r ∈ getL (clearRef g o t).1.refs i → r ∈ getL g.refs i := by
  unfold clearRef
  split
  · refine ⟨rfl, rfl, rfl, rfl, fun i r hr => ?_⟩
    simp only [getL_dictSet] at hr
    split at hr
    · rename_i h; subst h
      exact List.mem_of_mem_erase hr
    · exact hr
  · exact ⟨rfl, rfl, rfl, rfl, fun i r hr => hr⟩

theorem setRef_fields (g : GStore) (o a t : Nat) :
    (setRef g o a t).1.toStore = g.toStore ∧ (setRef g o a t).1.archMsg = g.archMsg ∧ (setRef g o a t).1.hdr = g.hdr ∧
    (setRef g o a t).1.shared = g.shared ∧
    ∀ i r, r ∈ getL (setRef g o a t).1.refs i → r ∈ getL g.refs i ∨ r = t := by
  obtain ⟨c1, c2, c3, c4, c5⟩ := clearRef_fields g o a
  unfold setRef
  split
  · rename_i g1 heq
    have e1 : g1 = (clearRef g o a).1 := by rw [heq]
    obtain ⟨a1, a2, a3, a4, a5⟩ := addRef_fields g1 o t
    subst e1
    refine ⟨a1.trans c1, a2.trans c2, a3.trans c3, a4.trans c4, fun i r hr => ?_⟩
    rcases a5 i r hr with h | h
    · exact Or.inl (c5 i r h)
    · exact Or.inr h
  · exact ⟨c1, c2, c3, c4, fun i r hr => Or.inl (c5 i r hr)⟩

theorem closed_step {ex : Nat → Bool} {g0 g : GStore} (h : Closed ex g0 g) (op : GOp)
    (hop : opTargetsOk ex g op = true) : Closed ex g0 (stepG g op) := by
  cases op with
  | create f a rs =>
    simp only [stepG]
    obtain ⟨_, _, hc⟩ := createG_cases g f a rs
    rcases hc with ⟨e, _, hi, hr, ha, hh⟩ | ⟨_, hi, hr, ha, hh⟩
    · apply h.of_pointwise
      · intro i hi'; rw [hi]; exact hi'
      · intro i r hr'; rw [hr] at hr'; exact Or.inl hr'
      · intro i r hr'; rw [ha] at hr'; exact Or.inl hr'
      · intro i r hr'; rw [hh] at hr'; exact Or.inl hr'
    · have htgt : ∀ r ∈ rs, r ∈ (createG g f a rs).1.ids ∨ ex r = true := by
        intro r hr'
        simp only [opTargetsOk, List.all_eq_true, Bool.or_eq_true, decide_eq_true_eq, beq_iff_eq] at hop
        rw [hi, mem_setAdd]
        rcases hop r hr' with (h1 | h1) | h1
        · exact Or.inl (Or.inl h1)
        · exact Or.inl (Or.inr h1)
        · exact Or.inr h1
      apply h.of_pointwise
      · intro i hi'; rw [hi, mem_setAdd]; exact Or.inl hi'
      · intro i r hr'
        rw [hr, getL_dictSet] at hr'
        split at hr'
        · exact Or.inr (htgt r hr')
        · exact Or.inl hr'
      · intro i r hr'
        rw [ha, getL_dictSet] at hr'
        split at hr'
        · exact Or.inr (Or.inr (htgt r hr'))
        · exact Or.inl hr'
      · intro i r hr'
        rw [hh, getL_dictSet] at hr'
        split at hr'
        · cases hr'
        · exact Or.inl hr'
  | addMeta i p l =>
    simp only [stepG]
    apply h.of_pointwise
    · intro j hj
      show j ∈ (addComponentMetadata g.toStore i p l).1.ids
      rw [(addComponentMetadata_ids g.toStore i p l).1]; exact hj
    · intro _ _ hr; exact Or.inl hr
    · intro _ _ hr; exact Or.inl hr
    · intro _ _ hr; exact Or.inl hr
  | extRef i l c w =>
    simp only [stepG]
    apply h.of_pointwise
    · intro j hj
      show j ∈ (addComponentReference g.toStore i l c w).1.ids
      rw [(addComponentReference_fields g.toStore i l c w).1]; exact hj
    · intro _ _ hr; exact Or.inl hr
    · intro _ _ hr; exact Or.inl hr
    · intro _ _ hr; exact Or.inl hr
  | addRef o t =>
    simp only [stepG]
    obtain ⟨a1, a2, a3, _, a5⟩ := addRef_fields g o t
    have hids : (addRef g o t).1.ids = g.ids := congrArg Store.ids a1
    simp only [opTargetsOk, Bool.or_eq_true, decide_eq_true_eq] at hop
    apply h.of_pointwise
    · intro j hj; rw [hids]; exact hj
    · intro i r hr
      rcases a5 i r hr with h' | h'
      · exact Or.inl h'
      · subst h'; rw [hids]; exact Or.inr hop
    · intro i r hr; rw [a2] at hr; exact Or.inl hr
    · intro i r hr; rw [a3] at hr; exact Or.inl hr
  | clearRef o t =>
    simp only [stepG]
    obtain ⟨a1, a2, a3, _, a5⟩ := clearRef_fields g o t
    have hids : (clearRef g o t).1.ids = g.ids := congrArg Store.ids a1
    apply h.of_pointwise
    · intro j hj; rw [hids]; exact hj
    · intro i r hr; exact Or.inl (a5 i r hr)
    · intro i r hr; rw [a2] at hr; exact Or.inl hr
    · intro i r hr; rw [a3] at hr; exact Or.inl hr
  | setRef o a t =>
    simp only [stepG]
    obtain ⟨a1, a2, a3, _, a5⟩ := setRef_fields g o a t
    have hids : (setRef g o a t).1.ids = g.ids := congrArg Store.ids a1
    simp only [opTargetsOk, Bool.or_eq_true, decide_eq_true_eq] at hop
    apply h.of_pointwise
    · intro j hj; rw [hids]; exact hj
    · intro i r hr
      rcases a5 i r hr with h' | h'
      · exact Or.inl h'
      · subst h'; rw [hids]; exact Or.inr hop
    · intro i r hr; rw [a2] at hr; exact Or.inl hr
    · intro i r hr; rw [a3] at hr; exact Or.inl hr
  | update =>
    simp only [stepG, updateFileStore]
    obtain ⟨a1, a2, _, a4⟩ := copyAll_weak g g.ids
    have hids : (copyAll g g.ids).1.ids = g.ids := congrArg Store.ids a1
    apply h.of_pointwise
    · intro j hj; rw [hids]; exact hj
    · intro i r hr; rw [a2] at hr; exact Or.inl hr
    · intro i r hr
      rcases (a4 i).1 with e | e <;> rw [e] at hr
      · exact Or.inl hr
      · exact Or.inr (Or.inl hr)
    · intro i r hr
      rcases (a4 i).2 with e | e <;> rw [e] at hr
      · exact Or.inl hr
      · exact Or.inr (Or.inl hr)
  | blob n =>
    simp only [stepG, storeBlob]
    split
    · exact h
    · apply h.of_pointwise
      · intro j hj; exact hj
      · intro _ _ hr; exact Or.inl hr
      · intro _ _ hr; exact Or.inl hr
      · intro _ _ hr; exact Or.inl hr

theorem closed_run {ex : Nat → Bool} {g0 : GStore} (ops : List GOp) (g : GStore) (h : Closed ex g0 g)
    (hops : targetsExistEx ex g ops = true) : Closed ex g0 (runG g ops) := by
  induction ops generalizing g with
  | nil => exact h
  | cons op r ih =>
    simp only [targetsExistEx, Bool.and_eq_true] at hops
    simp only [runG, List.foldl_cons]
    exact ih (stepG g op) (closed_step h op hops.1) hops.2

/-! ### stored objects stay filed -/

theorem dictGet?_of_mem_nodup {κ β : Type} [DecidableEq κ] (d : List (κ × β)) (k : κ) (v : β) (hn : (dictKeys d).Nodup)
    (hm : (k, v) ∈ d) : dictGet? d k = some v := by
  induction d with
  | nil => cases hm
  | cons a r ih =>
    obtain ⟨k', v'⟩ := a
    simp only [dictKeys, List.map_cons, List.nodup_cons] at hn
    simp only [dictGet?]
    rcases List.mem_cons.mp hm with h | h
    · injection h with h1 h2; subst h1; subst h2; simp
    · have hne : k' ≠ k := by
        rintro rfl
        exact hn.1 (List.mem_map.mpr ⟨(k', v), h, rfl⟩)
      rw [if_neg hne]
      exact ih hn.2 h

/-- an object already filed stays filed through a creation, when the file store is a dict (distinct member names) and the
    name a NEW member would get is not taken -/
theorem createObject_keeps_filed (st : Store) (f : List Char) (a : Bool) (i : Nat)
    (hk : (dictKeys st.files).Nodup) (hne : i ≠ st.maxId + 1)
    (hnew : iwaPaths st.files f = [] → a = false →
      dictGet? st.files (pyFormat1 f (natStr (st.maxId + 1)) ++ ".iwa".toList) = none)
    (hf : ∃ path segs, dictGet? st.fileOf i = some path ∧ dictGet? st.files path = some (some segs) ∧ i ∈ segs) :
    ∃ path segs, dictGet? (createObject st f a).1.fileOf i = some path ∧
      dictGet? (createObject st f a).1.files path = some (some segs) ∧ i ∈ segs := by
  obtain ⟨path, segs, h1, h2, h3⟩ := hf
  unfold createObject newMessageId
  simp only
  split
  · rename_i hp
    split
    · exact ⟨path, segs, h1, h2, h3⟩
    · rename_i ha
      have hnone := hnew hp (by simpa using ha)
      have hpne : pyFormat1 f (natStr (st.maxId + 1)) ++ ".iwa".toList ≠ path := by
        rintro e; rw [e, h2] at hnone; cases hnone
      refine ⟨path, segs, ?_, ?_, h3⟩
      · rw [dictGet?_dictSet, if_neg (Ne.symm hne)]; exact h1
      · rw [dictGet?_dictSet, if_neg hpne]; exact h2
  · rename_i path0 segs0 rest hp
    have hmem : (path0, some segs0) ∈ st.files :=
      ((mem_iwaPaths st.files f path0 segs0).mp (by rw [hp]; exact List.mem_cons_self)).1
    have hget := dictGet?_of_mem_nodup st.files path0 (some segs0) hk hmem
    by_cases hpp : path0 = path
    · subst hpp
      rw [hget] at h2
      injection h2 with h2; injection h2 with h2; subst h2
      refine ⟨path0, segs0 ++ [st.maxId + 1], ?_, ?_, List.mem_append_left _ h3⟩
      · rw [dictGet?_dictSet, if_neg (Ne.symm hne)]; exact h1
      · rw [dictGet?_dictSet, if_pos rfl]
    · refine ⟨path, segs, ?_, ?_, h3⟩
      · rw [dictGet?_dictSet, if_neg (Ne.symm hne)]; exact h1
      · rw [dictGet?_dictSet, if_neg hpp]; exact h2

theorem createG_toStore' (g : GStore) (f : List Char) (a : Bool) (rs : List Nat) :
    (createG g f a rs).1.toStore = (createObject g.toStore f a).1 ∧ (createG g f a rs).2 = (createObject g.toStore f a).2 := by
  unfold createG
  split <;> rename_i heq <;> rw [heq] <;> exact ⟨rfl, rfl⟩

/-- `wellFiled` is kept by a creation under the two side conditions -/
theorem wellFiled_createG (g : GStore) (f : List Char) (a : Bool) (rs : List Nat)
    (hw : wellFiled g = true) (hk : (dictKeys g.files).Nodup) (hb : ∀ i ∈ g.ids, i ≤ g.maxId)
    (hnew : iwaPaths g.files f = [] → a = false →
      dictGet? g.files (pyFormat1 f (natStr (g.maxId + 1)) ++ ".iwa".toList) = none) :
    wellFiled (createG g f a rs).1 = true := by
  rw [wellFiled_iff] at hw ⊢
  obtain ⟨e1, e2⟩ := createG_toStore' g f a rs
  have old : ∀ i ∈ g.ids, Filed (createG g f a rs).1 i := by
    intro i hi
    have hne : i ≠ g.maxId + 1 := by have := hb i hi; omega
    obtain ⟨p, s, q1, q2, q3⟩ := createObject_keeps_filed g.toStore f a i hk hne hnew (hw i hi)
    refine ⟨p, s, ?_, ?_, q3⟩
    · show dictGet? (createG g f a rs).1.toStore.fileOf i = _; rw [e1]; exact q1
    · show dictGet? (createG g f a rs).1.toStore.files p = _; rw [e1]; exact q2
  intro i hi
  obtain ⟨_, _, hc⟩ := createG_cases g f a rs
  rcases hc with ⟨e, _, hids, _⟩ | ⟨hok, hids, _⟩
  · rw [hids] at hi; exact old i hi
  · rw [hids, mem_setAdd] at hi
    rcases hi with hi | rfl
    · exact old i hi
    · exact createG_filed g f a rs _ hok

/-! ### `wellFiled` over histories -/

theorem dictKeys_dictSet_nodup {κ β : Type} [DecidableEq κ] (d : List (κ × β)) (k : κ) (v : β) (h : (dictKeys d).Nodup) :
    (dictKeys (dictSet d k v)).Nodup := by
  by_cases hk : k ∈ dictKeys d
  · have : dictKeys (dictSet d k v) = dictKeys d := by
      clear h
      induction d with
      | nil => simp [dictKeys] at hk
      | cons a r ih =>
        obtain ⟨k', v'⟩ := a
        simp only [dictSet]
        split
        · simp [dictKeys]
        · rename_i hne
          simp only [dictKeys, List.map_cons, List.mem_cons] at hk ⊢
          rcases hk with rfl | hk
          · exact absurd rfl hne
          · have := ih hk
            simp only [dictKeys] at this
            rw [this]
    rw [this]; exact h
  · rw [dictKeys_dictSet_fresh d k v hk]
    exact List.nodup_append.mpr ⟨h, by simp, by
      intro a ha b hb
      simp only [List.mem_singleton] at hb; subst hb
      rintro rfl; exact hk ha⟩

/-- the file store is a dict, every stored object is filed, no identifier is above the high-water mark -/
def FiledInv (g : GStore) : Prop :=
  wellFiled g = true ∧ (dictKeys g.files).Nodup ∧ ∀ i ∈ g.ids, i ≤ g.maxId

theorem FiledInv.of_same {g g' : GStore} (h : FiledInv g) (hids : g'.ids = g.ids) (hf : g'.files = g.files)
    (hfo : g'.fileOf = g.fileOf) (hm : g'.maxId = g.maxId) : FiledInv g' := by
  obtain ⟨h1, h2, h3⟩ := h
  refine ⟨?_, by rw [hf]; exact h2, by rw [hids, hm]; exact h3⟩
  unfold wellFiled at h1 ⊢
  rw [hids, hf, hfo]; exact h1

theorem createObject_maxId_files (st : Store) (f : List Char) (a : Bool) :
    (createObject st f a).1.maxId = st.maxId + 1 ∧
    ((dictKeys st.files).Nodup → (dictKeys (createObject st f a).1.files).Nodup) := by
  unfold createObject newMessageId
  simp only
  split
  · split
    · exact ⟨rfl, id⟩
    · exact ⟨rfl, dictKeys_dictSet_nodup _ _ _⟩
  · exact ⟨rfl, dictKeys_dictSet_nodup _ _ _⟩

/-- the side condition on one operation: a creation that makes a NEW member does not take the name of an existing one
    (`create_object_from_dict` tests the unformatted pattern, then stores under `pattern.format(id) + ".iwa"`) -/
def opNameFree (g : GStore) : GOp → Bool
  | .create f a _ => !(iwaPaths g.files f).isEmpty || a ||
      (dictGet? g.files (pyFormat1 f (natStr (g.maxId + 1)) ++ ".iwa".toList)).isNone
  | _ => true

def namesFree : GStore → List GOp → Bool
  | _, [] => true
  | g, op :: r => opNameFree g op && namesFree (stepG g op) r

theorem filedInv_step {g : GStore} (h : FiledInv g) (op : GOp) (hop : opNameFree g op = true) : FiledInv (stepG g op) := by
  cases op with
  | create f a rs =>
    simp only [stepG]
    obtain ⟨h1, h2, h3⟩ := h
    obtain ⟨e1, _⟩ := createG_toStore' g f a rs
    obtain ⟨m1, m2⟩ := createObject_maxId_files g.toStore f a
    refine ⟨wellFiled_createG g f a rs h1 h2 h3 ?_, ?_, ?_⟩
    · intro hp ha
      simp only [opNameFree, hp, ha, List.isEmpty_nil, Bool.not_true, Bool.or_false, Bool.false_or, Option.isNone_iff_eq_none] at hop
      exact hop
    · show (dictKeys (createG g f a rs).1.toStore.files).Nodup
      rw [e1]; exact m2 h2
    · intro i hi
      have hm : (createG g f a rs).1.maxId = g.maxId + 1 := by
        show (createG g f a rs).1.toStore.maxId = _; rw [e1]; exact m1
      rw [hm]
      obtain ⟨_, _, hc⟩ := createG_cases g f a rs
      rcases hc with ⟨e, _, hids, _⟩ | ⟨_, hids, _⟩
      · rw [hids] at hi; have := h3 i hi; omega
      · rw [hids, mem_setAdd] at hi
        rcases hi with hi | rfl
        · have := h3 i hi; omega
        · exact Nat.le_refl _
  | addMeta i p l =>
    obtain ⟨a1, a2, _, a4⟩ := addComponentMetadata_ids g.toStore i p l
    exact h.of_same a1 a4 (addComponentMetadata_fileOf g.toStore i p l) a2
  | extRef i l c w =>
    obtain ⟨a1, a2, a3, a4⟩ := addComponentReference_fields g.toStore i l c w
    exact h.of_same a1 a3 a4 a2
  | addRef o t =>
    have e := (addRef_fields g o t).1
    exact h.of_same (congrArg Store.ids e) (congrArg Store.files e) (congrArg Store.fileOf e) (congrArg Store.maxId e)
  | clearRef o t =>
    have e := (clearRef_fields g o t).1
    exact h.of_same (congrArg Store.ids e) (congrArg Store.files e) (congrArg Store.fileOf e) (congrArg Store.maxId e)
  | setRef o a t =>
    have e := (setRef_fields g o a t).1
    exact h.of_same (congrArg Store.ids e) (congrArg Store.files e) (congrArg Store.fileOf e) (congrArg Store.maxId e)
  | update =>
    have e := (copyAll_weak g g.ids).1
    exact h.of_same (congrArg Store.ids e) (congrArg Store.files e) (congrArg Store.fileOf e) (congrArg Store.maxId e)
  | blob n =>
    simp only [stepG, storeBlob]
    split
    · exact h
    · rename_i hn
      obtain ⟨h1, h2, h3⟩ := h
      have hnone : dictGet? g.files n = none := by
        cases hh : dictGet? g.files n with
        | none => rfl
        | some v => rw [hh] at hn; simp at hn
      refine ⟨?_, dictKeys_dictSet_nodup _ _ _ h2, h3⟩
      rw [wellFiled_iff] at h1 ⊢
      intro i hi
      obtain ⟨p, s, q1, q2, q3⟩ := h1 i hi
      refine ⟨p, s, q1, ?_, q3⟩
      show dictGet? (dictSet g.files n none) p = _
      have hne : n ≠ p := by rintro rfl; rw [q2] at hnone; cases hnone
      rw [dictGet?_dictSet, if_neg hne]; exact q2

theorem filedInv_run (ops : List GOp) (g : GStore) (h : FiledInv g) (hops : namesFree g ops = true) : FiledInv (runG g ops) := by
  induction ops generalizing g with
  | nil => exact h
  | cons op r ih =>
    simp only [namesFree, Bool.and_eq_true] at hops
    simp only [runG, List.foldl_cons]
    exact ih (stepG g op) (filedInv_step h op hops.1) hops.2


/-! ### the inventory over histories -/

theorem createG_toStore (g : GStore) (f : List Char) (a : Bool) (rs : List Nat) :
    (createG g f a rs).1.toStore = (createObject g.toStore f a).1 ∧ (createG g f a rs).2 = (createObject g.toStore f a).2 := by
  unfold createG
  split <;> rename_i heq <;> rw [heq] <;> exact ⟨rfl, rfl⟩

/-- no operation removes a component entry or changes its identifier / locator -/
theorem components_persist_step (g : GStore) (op : GOp) (c : Component) (hc : c ∈ g.components) :
    ∃ c' ∈ (stepG g op).components, c'.identifier = c.identifier ∧ c'.locator = c.locator ∧ c'.preferred = c.preferred := by
  have same : ∀ g' : GStore, g'.components = g.components →
      ∃ c' ∈ g'.components, c'.identifier = c.identifier ∧ c'.locator = c.locator ∧ c'.preferred = c.preferred :=
    fun g' h => ⟨c, h ▸ hc, rfl, rfl, rfl⟩
  cases op with
  | create f a rs => exact same _ (createG_cases g f a rs).2.1
  | addMeta i p l =>
    simp only [stepG]
    show ∃ c' ∈ (addComponentMetadata g.toStore i p l).1.components, _
    unfold addComponentMetadata
    simp only
    split
    · exact ⟨c, List.mem_append_left _ hc, rfl, rfl, rfl⟩
    · rename_i comps' heq
      exact addExternalRef_keeps _ _ _ _ heq c (List.mem_append_left _ hc)
  | extRef i l cc w =>
    simp only [stepG]
    show ∃ c' ∈ (addComponentReference g.toStore i l cc w).1.components, _
    unfold addComponentReference
    simp only
    split
    · exact ⟨c, hc, rfl, rfl, rfl⟩
    · rename_i cs heq
      exact addExtRefWhere_keeps _ _ _ _ heq c hc
  | addRef o t => exact same _ (congrArg Store.components (addRef_fields g o t).1)
  | clearRef o t => exact same _ (congrArg Store.components (clearRef_fields g o t).1)
  | setRef o a t => exact same _ (congrArg Store.components (setRef_fields g o a t).1)
  | update => exact same _ (congrArg Store.components (copyAll_weak g g.ids).1)
  | blob n =>
    simp only [stepG, storeBlob]
    split
    · exact same _ rfl
    · exact same _ rfl

theorem components_persist (g : GStore) (ops : List GOp) (c : Component) (hc : c ∈ g.components) :
    ∃ c' ∈ (runG g ops).components, c'.identifier = c.identifier ∧ c'.locator = c.locator ∧ c'.preferred = c.preferred := by
  induction ops generalizing g c with
  | nil => exact ⟨c, hc, rfl, rfl, rfl⟩
  | cons op r ih =>
    obtain ⟨c1, h1, e1, e2, e3⟩ := components_persist_step g op c hc
    obtain ⟨c2, h2, f1, f2, f3⟩ := ih (stepG g op) c1 h1
    exact ⟨c2, by simpa [runG] using h2, f1.trans e1, f2.trans e2, f3.trans e3⟩

end NumbersModel.ObjStore
