/-
The two token-buffer methods of `Tokenizer` (`assert_empty_token`, `save_token`) as `harness/py2lean.py` regenerates them
from `tokenizer.py` on every check run (`Gen/TrTok.lean`; `self.items` / `self.token` are state variables: `X.append(v)` is
`x = x + [v]`, `del X[:]` is `x = []`) and the model's `assertEmpty` / `saveToken` (Model/Tokenizer.lean).  The source keeps the
pending token as a *list of pieces*, the model as their concatenation: the statements are refinements under the
representation invariant `Rep` (the model's token is the join of the pieces, no piece is empty — every piece the tokenizer
appends is a non-empty slice of the formula).
-/
import NumbersModel.Gen.TrTok
import NumbersModel.Lemmas.Tokenizer

namespace NumbersModel.Translated
open NumbersModel NumbersModel.Gen.T NumbersModel.Tokenizer

/-- the source's `self.token` (pieces) against the model's `St.token` (their join) -/
def Rep (pieces : List Text) (st : St) : Prop := st.token = pieces.flatten ∧ ∀ p ∈ pieces, p ≠ []

theorem rep_empty_iff (pieces : List Text) (st : St) (h : Rep pieces st) : pieces.isEmpty = true ↔ st.token = [] := by
  obtain ⟨h1, h2⟩ := h
  cases pieces with
  | nil => simp [h1]
  | cons p r =>
    have hp : p ≠ [] := h2 p (List.mem_cons_self ..)
    simp only [List.isEmpty_cons, Bool.false_eq_true, false_iff, h1, List.flatten_cons]
    intro h
    exact hp (List.append_eq_nil_iff.mp h).1

/-- `assert_empty_token` raises exactly when the model's `assertEmpty` does, for every state the pieces represent. -/
theorem assert_empty_token_eq_model (pieces : List Text) (st : St) (h : Rep pieces st) :
    assert_empty_token pieces = assertEmpty st := by
  unfold assert_empty_token assertEmpty
  by_cases he : pieces.isEmpty = true
  · have := (rep_empty_iff pieces st h).mp he
    simp [he, this]; rfl
  · have hne : st.token ≠ [] := fun ht => he ((rep_empty_iff pieces st h).mpr ht)
    have he' : pieces.isEmpty = false := by simpa using he
    simp [he', hne]; rfl

/-- `save_token` appends the model's operand token and clears the buffer: the new `items` are `(saveToken st).items` and the
    new (empty) list of pieces represents `(saveToken st).token`, for every state the pieces represent. -/
theorem save_token_eq_model (pieces : List Text) (st : St) (h : Rep pieces st) :
    ∃ pieces', save_token st.items pieces = .ok ((), (saveToken st).items, pieces') ∧ Rep pieces' (saveToken st) := by
  unfold save_token saveToken
  by_cases he : pieces.isEmpty = true
  · have ht := (rep_empty_iff pieces st h).mp he
    refine ⟨pieces, ?_, ?_⟩
    · simp [he, ht, bind, Except.bind, pure, Except.pure]
    · simpa [ht] using h
  · have hne : st.token ≠ [] := fun ht => he ((rep_empty_iff pieces st h).mpr ht)
    have he' : pieces.isEmpty = false := by simpa using he
    rw [if_pos hne]
    refine ⟨[], ?_, ?_⟩
    · simp only [he', Bool.not_false, if_true, bind, Except.bind, pure, Except.pure, PyT.joinEmpty, h.1]
    · simp [Rep]

/-! ## The rest of the tokenizer

Every other method of `Tokenizer` (and the `Token` constructors they call) as regenerated from the source, against the
model's step functions.  The source works on `self.formula` / `self.offset`, the model on `rest = formula[offset:]`: the
simulation relation is `Pos` (position) together with `Rep` (pending token) and equality of `items` / `token_stack`.  Each
`<method>_refines_model` says: from related states the translated method raises the exception the model's function raises,
or returns the model's new items and stack, pieces that represent the model's pending token, and a character count that
moves the offset to the model's new `rest` (`Refines`). -/

/-- the source's `self.formula` / `self.offset` against the model's `St.rest` (`formula[offset:]`; the offset can be one past
    the end after the one-character `≥` quirk of `parse_operator`) -/
def Pos (formula : Text) (offset : Int) (st : St) : Prop := 0 ≤ offset ∧ st.rest = formula.drop offset.toNat

theorem index_cons {f : Text} {o : Int} {c : Char} {r : Text} (h0 : 0 ≤ o) (h : f.drop o.toNat = c :: r) :
    pyIndex (PyT.strIter f) o = .ok [c] := by
  have hlt : o.toNat < f.length := by
    rcases Nat.lt_or_ge o.toNat f.length with hlt | hge
    · exact hlt
    · rw [List.drop_of_length_le hge] at h
      cases h
  have hget : f[o.toNat]? = some c := by
    rw [← List.head?_drop, h]; rfl
  unfold pyIndex PyT.strIter
  simp only [List.length_map]
  have h1 : ¬ o < 0 := by omega
  have h2 : ¬ (o ≥ (f.length : Int)) := by omega
  simp only [h1, if_false, false_or, h2, List.getElem?_map, hget, Option.map_some]

theorem index_nil {f : Text} {o : Int} (h0 : 0 ≤ o) (h : f.drop o.toNat = []) :
    pyIndex (PyT.strIter f) o = .error .IndexError := by
  have hge : f.length ≤ o.toNat := by
    have : (f.drop o.toNat).length = f.length - o.toNat := List.length_drop
    rw [h] at this; simp at this; omega
  unfold pyIndex PyT.strIter
  simp only [List.length_map]
  have h1 : ¬ o < 0 := by omega
  have h2 : (o ≥ (f.length : Int)) := by omega
  simp only [h1, if_false, false_or, h2, if_true]

theorem slice_from {f : Text} {o : Int} (h0 : 0 ≤ o) : pySlice f (some o) none = f.drop o.toNat := by
  unfold pySlice pyClamp
  have h1 : ¬ o < 0 := by omega
  simp only [h1, if_false]
  by_cases hgt : o > (f.length : Int)
  · simp only [hgt, if_true]
    rw [List.drop_of_length_le (by omega : f.length ≤ o.toNat), List.drop_of_length_le (Nat.le_refl _)]; simp
  · simp only [hgt, if_false]
    rw [List.take_of_length_le]; simp

theorem slice_two {f : Text} {o : Int} (h0 : 0 ≤ o) :
    pySlice f (some o) (some (o + 2)) = (f.drop o.toNat).take 2 := by
  unfold pySlice pyClamp
  have h1 : ¬ o < 0 := by omega
  have h2 : ¬ o + 2 < 0 := by omega
  simp only [h1, h2, if_false]
  by_cases hgt : o > (f.length : Int)
  · have hgt2 : o + 2 > (f.length : Int) := by omega
    simp only [hgt, hgt2, if_true]
    rw [List.drop_of_length_le (by omega : f.length ≤ o.toNat), List.drop_of_length_le (Nat.le_refl _)]; simp
  · simp only [hgt, if_false]
    by_cases hgt2 : o + 2 > (f.length : Int)
    · simp only [hgt2, if_true]
      rw [List.take_of_length_le (by simp), List.take_of_length_le (by simp; omega)]
    · simp only [hgt2, if_false]
      have : (o + 2).toNat - o.toNat = 2 := by omega
      rw [this]


theorem pos_advance {f : Text} {o : Int} {st st' : St} (hp : Pos f o st) (n : Nat) (h : st'.rest = st.rest.drop n) :
    Pos f (o + (n : Int)) st' := by
  obtain ⟨h0, hr⟩ := hp
  refine ⟨by omega, ?_⟩
  rw [h, hr, List.drop_drop]
  congr 1; omega

theorem strIn_single (c : Char) (s : Text) : PyT.strIn [c] s = s.contains c := by
  induction s with
  | nil => rfl
  | cons d s ih =>
    simp only [PyT.strIn, ih, List.isPrefixOf, List.contains_cons, Bool.and_true]

theorem index_last {α} {l : List α} {x : α} (h : l.getLast? = some x) : pyIndex l (-1) = .ok x := by
  have hne : l ≠ [] := by intro hn; rw [hn] at h; cases h
  have hpos : 0 < l.length := List.length_pos_iff.mpr hne
  unfold pyIndex
  have h1 : ((-1 : Int) < 0) := by omega
  have h2 : ¬ ((-1 : Int) + (l.length : Int) < 0) := by omega
  have h3 : ¬ ((-1 : Int) + (l.length : Int) ≥ (l.length : Int)) := by omega
  have h4 : ((-1 : Int) + (l.length : Int)).toNat = l.length - 1 := by omega
  simp only [h1, if_true, h2, h3, or_self, if_false, h4]
  rw [List.getLast?_eq_getElem?] at h
  rw [h]

/-- the outcome of a translated `parse_*` method (normalised to `(count, items, token_stack, pieces)`) against the model's:
    the same exception, or the same items and stack, pieces that represent the model's pending token, and a count that
    moves the offset to the model's `rest` -/
def Refines (f : Text) (o : Int) (res : PyM (Int × List Tok × List Tok × List Text)) (m : PyM St) : Prop :=
  match m with
  | .error e => res = .error e
  | .ok st' => ∃ n pieces', res = .ok (n, st'.items, st'.stack, pieces') ∧ Pos f (o + n) st' ∧ Rep pieces' st'

theorem twoCharOps_lit : [(['>', '='] : Text), (['<', '='] : Text), (['<', '>'] : Text), ([(Char.ofNat 8805)] : Text),
    ([(Char.ofNat 8804)] : Text), ([(Char.ofNat 8800)] : Text)] = twoCharOps := by decide

theorem infixChars_lit : (['*', '/', '^', '&', '=', '>', '<', (Char.ofNat 215), (Char.ofNat 247), (Char.ofNat 8805),
    (Char.ofNat 8804), (Char.ofNat 8800)] : Text) = "*/^&=><×÷≥≤≠".toList := by decide

theorem refines_ok {f : Text} {o : Int} {res : PyM (Int × List Tok × List Tok × List Text)} {st' : St} (n : Int)
    (pieces' : List Text) (h : res = .ok (n, st'.items, st'.stack, pieces')) (hp : Pos f (o + n) st')
    (hr : Rep pieces' st') : Refines f o res (.ok st') := ⟨n, pieces', h, hp, hr⟩

theorem refines_err {f : Text} {o : Int} {res : PyM (Int × List Tok × List Tok × List Text)} {e : PyExc}
    (h : res = .error e) : Refines f o res (.error e) := h

theorem parse_operator_refines_model {f : Text} {o : Int} {st : St} {pieces : List Text} (hp : Pos f o st)
    (hr : Rep pieces st) :
    Refines f o ((parse_operator f o st.items).map (fun r => (r.1, r.2, st.stack, pieces))) (parseOperator st) := by
  obtain ⟨h0, hrest⟩ := hp
  unfold parse_operator parseOperator
  simp only [slice_two h0, ← hrest, twoCharOps_lit]
  by_cases h2 : twoCharOps.contains (st.rest.take 2) = true
  · simp only [h2, if_true]
    exact refines_ok 2 pieces rfl (pos_advance ⟨h0, hrest⟩ 2 rfl) hr
  · simp only [h2, Bool.false_eq_true, if_false]
    cases hrs : st.rest with
    | nil =>
      simp only [index_nil h0 (hrest ▸ hrs)]
      exact refines_err rfl
    | cons c r =>
      simp only [index_cons h0 (hrest ▸ hrs)]
      refine refines_ok 1 pieces ?_ (pos_advance ⟨h0, hrest⟩ 1 (by simp [hrs])) hr
      simp only [bind, Except.bind, pure, Except.pure, Except.map, strIn_single, infixChars_lit]
      generalize "*/^&=><×÷≥≤≠".toList.contains c = isIn
      by_cases hc : c = '%'
      · simp [hc]
      · cases isIn with
        | true => simp [hc]
        | false =>
          cases hl : st.items.getLast? with
          | none =>
            have : st.items = [] := List.getLast?_eq_none_iff.mp hl
            simp [hc, this]
          | some prev =>
            have hne : st.items ≠ [] := by intro hn; rw [hn] at hl; cases hl
            simp only [index_last hl]
            by_cases hin : prev.subtype = SubT.CLOSE ∨ prev.type = TType.OP_POST ∨ prev.type = TType.OPERAND
            · simp [hin, hc, hne]
            · simp [hin, hc, hne]

theorem rep_pieces_ne {pieces : List Text} {st : St} (h : Rep pieces st) : pieces ≠ [] ↔ st.token ≠ [] := by
  have := rep_empty_iff pieces st h
  constructor
  · intro hp ht; apply hp; exact List.isEmpty_iff.mp (this.mpr ht)
  · intro ht hp; apply ht; exact this.mp (List.isEmpty_iff.mpr hp)

theorem rep_append {pieces : List Text} {st st' : St} (h : Rep pieces st) (p : Text) (hp : p ≠ [])
    (ht : st'.token = st.token ++ p) : Rep (pieces ++ [p]) st' := by
  obtain ⟨h1, h2⟩ := h
  refine ⟨by simp [ht, h1], ?_⟩
  intro q hq
  rcases List.mem_append.mp hq with hq | hq
  · exact h2 q hq
  · simp at hq; subst hq; exact hp

theorem rep_token_eq {pieces : List Text} {st st' : St} (h : Rep pieces st) (ht : st'.token = st.token) : Rep pieces st' := by
  obtain ⟨h1, h2⟩ := h
  exact ⟨by rw [ht, h1], h2⟩

/-- `check_scientific_notation`: at `rest = c :: r` it consumes the sign exactly under the condition the model's `step` tests
    (a pending token of the `1E` / `1.5E` shape), appending it to the pieces as the model appends it to the token. -/
theorem check_scientific_notation_refines_model {f : Text} {o : Int} {st : St} {pieces : List Text} {c : Char} {r : Text}
    (hp : Pos f o st) (hr : Rep pieces st) (hrs : st.rest = c :: r) :
    check_scientific_notation f o pieces =
      .ok (if (c = '+' ∨ c = '-') ∧ st.token.length ≥ 1 ∧ snMatch st.token = true
        then (true, o + 1, pieces ++ [[c]]) else (false, o, pieces)) := by
  obtain ⟨h0, hrest⟩ := hp
  unfold check_scientific_notation
  simp only [index_cons h0 (hrest ▸ hrs), bind, Except.bind, pure, Except.pure, strIn_single, PyT.joinEmpty, ← hr.1]
  have hlen : decide ((pieces.length : Int) ≥ 1) = decide (st.token.length ≥ 1) := by
    have := rep_pieces_ne hr
    by_cases hpn : pieces = []
    · have ht : st.token = [] := by
        by_cases ht : st.token = []
        · exact ht
        · exact absurd hpn (this.mpr ht)
      simp [hpn, ht]
    · have ht := this.mp hpn
      have h1 : 0 < pieces.length := List.length_pos_iff.mpr hpn
      have h2 : 0 < st.token.length := List.length_pos_iff.mpr ht
      simp only [ge_iff_le, decide_eq_decide]
      omega
  rw [hlen]
  by_cases hc : c = '+' ∨ c = '-'
  · have : ['+', '-'].contains c = true := by rcases hc with h | h <;> subst h <;> decide
    by_cases hl : st.token.length ≥ 1 <;> by_cases hs : snMatch st.token = true <;> simp [hc, hl, hs]
  · have : ['+', '-'].contains c = false := by
      simp only [not_or] at hc
      simp [hc.1, hc.2]
    simp [hc]


/-! ### the `Token` constructors on the arguments the tokenizer gives them -/

theorem make_separator_semi : make_separator [';'] = .ok ⟨[';'], .SEP, .ROW⟩ := by decide
theorem make_separator_comma : make_separator [','] = .ok ⟨[','], .SEP, .ARG⟩ := by decide
theorem make_subexp_brace : make_subexp ['{'] false = .ok ⟨['{'], .ARRAY, .OPEN⟩ := by decide
theorem make_subexp_paren : make_subexp ['('] false = .ok ⟨['('], .PAREN, .OPEN⟩ := by decide

theorem index_last_nil {α} : pyIndex ([] : List α) (-1) = .error .IndexError := by
  unfold pyIndex; simp

/-- a function name followed by `(`: a FUNC / OPEN token, whatever the name is -/
theorem make_subexp_func (t : Text) (ht : t ≠ []) : make_subexp (t ++ ['(']) false = .ok ⟨t ++ ['('], .FUNC, .OPEN⟩ := by
  have hlast : (PyT.strIter (t ++ ['('])).getLast? = some ['('] := by
    simp [PyT.strIter]
  unfold make_subexp
  simp only [index_last hlast, bind, Except.bind, pure, Except.pure]
  have hno : ∀ a b : Char, b ≠ '(' → PyT.strIn (t ++ ['(']) [a, b] = false := by
    intro a b hb
    cases t with
    | nil => exact absurd rfl ht
    | cons p t' =>
      cases t' with
      | nil => simp [PyT.strIn, List.isPrefixOf]; intro _ h; exact absurd h.symm hb
      | cons q t'' => simp [PyT.strIn, List.isPrefixOf]
  simp [hno '{' '}' (by decide), hno '(' ')' (by decide), hno ')' '}' (by decide)]

/-- `get_closer` of a token `parse_opener` stacked is the model's `getCloser` -/
theorem get_closer_stacked (t : Tok) (h : (t.type = .FUNC ∨ t.type = .ARRAY ∨ t.type = .PAREN) ∧ t.subtype = .OPEN) :
    get_closer t = .ok (getCloser t) := by
  obtain ⟨v, ty, sub⟩ := t
  obtain ⟨hty, hsub⟩ := h
  simp only at hty hsub
  subst hsub
  rcases hty with h | h | h <;> subst h <;> rfl


/-- what `parse_opener` stacks: the invariant `get_closer` relies on -/
def StackOK (st : St) : Prop :=
  ∀ t ∈ st.stack, (t.type = .FUNC ∨ t.type = .ARRAY ∨ t.type = .PAREN) ∧ t.subtype = .OPEN

theorem parse_separator_refines_model {f : Text} {o : Int} {st : St} {pieces : List Text} {c : Char} {r : Text}
    (hp : Pos f o st) (hr : Rep pieces st) (hrs : st.rest = c :: r) :
    Refines f o ((parse_separator f o st.items st.stack).map (fun r => (r.1, r.2, st.stack, pieces))) (parseSeparator st) := by
  obtain ⟨h0, hrest⟩ := hp
  have hadv : ∀ st' : St, st'.rest = r → Pos f (o + 1) st' :=
    fun st' h => pos_advance ⟨h0, hrest⟩ 1 (by simp [hrs, h])
  unfold parse_separator parseSeparator
  simp only [index_cons h0 (hrest ▸ hrs), bind, Except.bind, pure, Except.pure, hrs]
  by_cases h1 : c = ';'
  · subst h1
    exact refines_ok 1 pieces (by simp [make_separator_semi, Except.map]) (hadv _ rfl) (rep_token_eq hr rfl)
  · by_cases h2 : c = ','
    · subst h2
      cases hl : st.stack.getLast? with
      | none =>
        have hs : st.stack = [] := List.getLast?_eq_none_iff.mp hl
        refine refines_ok 1 pieces ?_ (hadv _ rfl) (rep_token_eq hr rfl)
        simp [hs, index_last_nil, Except.map]
      | some top =>
        refine refines_ok 1 pieces ?_ (hadv _ rfl) (rep_token_eq hr rfl)
        by_cases ht : top.type = TType.PAREN
        · simp [index_last hl, ht, Except.map]
        · simp [index_last hl, ht, Except.map, make_separator_comma]
    · have : (List.contains [([';'] : Text), [',']] [c]) = false := by simp [h1, h2]
      simp only [this, Bool.not_false, if_true]
      split
      · rename_i heq; injection heq with heq; exact absurd heq h1
      · rename_i heq; injection heq with heq; exact absurd heq h2
      · exact refines_err rfl

theorem parse_opener_refines_model {f : Text} {o : Int} {st : St} {pieces : List Text} {c : Char} {r : Text}
    (hp : Pos f o st) (hr : Rep pieces st) (hrs : st.rest = c :: r) :
    Refines f o (parse_opener f o st.items st.stack pieces) (parseOpener st) := by
  obtain ⟨h0, hrest⟩ := hp
  have hadv : ∀ st' : St, st'.rest = r → Pos f (o + 1) st' :=
    fun st' h => pos_advance ⟨h0, hrest⟩ 1 (by simp [hrs, h])
  unfold parse_opener parseOpener
  simp only [index_cons h0 (hrest ▸ hrs), bind, Except.bind, pure, Except.pure, hrs]
  by_cases h1 : c = '{'
  · subst h1
    rw [assert_empty_token_eq_model pieces st hr]
    rcases assertEmpty_cases st with ha | ha
    · simp only [ha]
      exact refines_ok 1 pieces (by simp [make_subexp_brace]) (hadv _ rfl) (rep_token_eq hr rfl)
    · simp only [ha]
      exact refines_err (by simp)
  · by_cases h2 : c = '('
    · subst h2
      by_cases ht : st.token = []
      · have hpn : pieces = [] := by
          by_cases hpn : pieces = []
          · exact hpn
          · exact absurd ht ((rep_pieces_ne hr).mp hpn)
        exact refines_ok 1 [] (by simp [ht, hpn, make_subexp_paren]) (hadv _ rfl) ⟨by simp, by simp⟩
      · have hpn : pieces ≠ [] := (rep_pieces_ne hr).mpr ht
        refine refines_ok 1 [] ?_ (hadv _ rfl) ⟨by simp, by simp⟩
        simp [ht, hpn, PyT.joinEmpty, ← hr.1, make_subexp_func st.token ht]
    · have : (List.contains [(['('] : Text), ['{']] [c]) = false := by simp [h1, h2]
      simp only [this, Bool.not_false, if_true]
      split
      · rename_i heq; injection heq with heq; exact absurd heq h1
      · rename_i heq; injection heq with heq; exact absurd heq h2
      · exact refines_err rfl


theorem parse_closer_refines_model {f : Text} {o : Int} {st : St} {pieces : List Text} {c : Char} {r : Text}
    (hp : Pos f o st) (hr : Rep pieces st) (hs : StackOK st) (hrs : st.rest = c :: r) :
    Refines f o ((parse_closer f o st.items st.stack).map (fun r => (r.1, r.2.1, r.2.2, pieces)))
      (parseCloser .TokenizerError st) := by
  obtain ⟨h0, hrest⟩ := hp
  have hadv : ∀ st' : St, st'.rest = r → Pos f (o + 1) st' :=
    fun st' h => pos_advance ⟨h0, hrest⟩ 1 (by simp [hrs, h])
  unfold parse_closer parseCloser
  simp only [index_cons h0 (hrest ▸ hrs), bind, Except.bind, pure, Except.pure, hrs]
  by_cases hc : c ≠ ')' ∧ c ≠ '}'
  · have : (List.contains [([')'] : Text), ['}']] [c]) = false := by simp [hc.1, hc.2]
    simp only [this, Bool.not_false, if_true]
    rw [if_pos hc]
    exact refines_err rfl
  · have : (List.contains [([')'] : Text), ['}']] [c]) = true := by
      by_cases h1 : c = ')'
      · simp [h1]
      · by_cases h2 : c = '}'
        · simp [h2]
        · exact absurd ⟨h1, h2⟩ hc
    simp only [this, Bool.not_true, Bool.false_eq_true, if_false, hc]
    cases hrev : st.stack.reverse with
    | nil =>
      have hs0 : st.stack = [] := by simpa using hrev
      simp only [hs0, List.isEmpty_nil, Bool.not_true, Bool.not_false, if_true]
      exact refines_err rfl
    | cons top below =>
      have hne : st.stack ≠ [] := by intro h; rw [h] at hrev; cases hrev
      have hmem : top ∈ st.stack := by
        have : top ∈ st.stack.reverse := by rw [hrev]; exact List.mem_cons_self ..
        exact List.mem_reverse.mp this
      have hpop : pyPop st.stack = .ok (top, below.reverse) := by unfold pyPop; rw [hrev]
      have hemp : st.stack.isEmpty = false := by simpa using hne
      simp only [hemp, Bool.not_false, Bool.not_true, Bool.false_eq_true, if_false, hpop, get_closer_stacked top (hs top hmem)]
      by_cases hv : (getCloser top).value ≠ [c]
      · simp only [hv, decide_true, if_true, ne_eq, not_false_eq_true]
        exact refines_err rfl
      · simp only [hv, decide_false, Bool.false_eq_true, if_false]
        exact refines_ok 1 pieces rfl (hadv _ rfl) (rep_token_eq hr rfl)


theorem parse_error_for1 (sub : Text) (codes : List Text) (items : List Tok) :
    parse_error.for1 sub codes items = .ok (match codes.find? (fun e => e.isPrefixOf sub) with
      | some e => (some ((e.length : Int), items ++ [makeOperand e]), items ++ [makeOperand e])
      | none => (none, items)) := by
  induction codes with
  | nil => rfl
  | cons e rest ih =>
    unfold parse_error.for1
    by_cases h : e.isPrefixOf sub = true
    · simp [PyT.startswith, h, pure, Except.pure]
    · simp [PyT.startswith, h, ih]

theorem parse_error_refines_model {f : Text} {o : Int} {st : St} {pieces : List Text} {r : Text}
    (hp : Pos f o st) (hr : Rep pieces st) (hrs : st.rest = '#' :: r) :
    Refines f o ((parse_error f o st.items pieces).map (fun r => (r.1, r.2, st.stack, pieces)))
      (parseError Gen.ERROR_CODES st) := by
  obtain ⟨h0, hrest⟩ := hp
  unfold parse_error parseError
  rw [assert_empty_token_eq_model pieces st hr]
  rcases assertEmpty_cases st with ha | ha
  · simp only [ha, index_cons h0 (hrest ▸ hrs), bind, Except.bind, pure, Except.pure, slice_from h0, ← hrest,
      parse_error_for1]
    cases hf : Gen.ERROR_CODES.find? (fun e => e.isPrefixOf st.rest) with
    | none => exact refines_err rfl
    | some e =>
      refine refines_ok (e.length : Int) pieces (by simp [Except.map]) ?_ (rep_token_eq hr rfl)
      exact pos_advance ⟨h0, hrest⟩ e.length rfl
  · simp only [ha, bind, Except.bind]
    exact refines_err rfl

theorem endswith_colon (p : Text) : PyT.endswith p [':'] = decide (p.getLast? = some ':') := by
  unfold PyT.endswith
  rcases List.eq_nil_or_concat p with h | ⟨q, x, h⟩
  · subst h; rfl
  · subst h
    simp [List.isSuffixOf]
    by_cases hx : x = ':'
    · subst hx; simp [List.isPrefixOf]
    · simp [List.isPrefixOf, hx]
      exact fun h => hx h.symm

theorem rep_last {pieces : List Text} {st : St} {p : Text} (h : Rep pieces st) (hl : pieces.getLast? = some p) :
    PyT.endswith p [':'] = decide (st.token.getLast? = some ':') := by
  obtain ⟨h1, h2⟩ := h
  obtain ⟨init, hi⟩ := List.getLast?_eq_some_iff.mp hl
  have hp : p ≠ [] := h2 p (by rw [hi]; simp)
  rw [endswith_colon, h1, hi]
  simp only [List.flatten_append, List.flatten_cons, List.flatten_nil, List.append_nil]
  rw [List.getLast?_append]
  cases hpl : p.getLast? with
  | none => exact absurd (List.getLast?_eq_none_iff.mp hpl) hp
  | some x => simp

theorem drop_take_length {α} (l : List α) (n : Nat) : l.drop n = l.drop (l.take n).length := by
  rw [List.length_take]
  rcases Nat.le_total n l.length with h | h
  · rw [Nat.min_eq_left h]
  · rw [Nat.min_eq_right h, List.drop_of_length_le h, List.drop_of_length_le (Nat.le_refl _)]


/-- the linked-quote test of `parse_string` (`delim == "'" and self.token and self.token[-1].endswith(":")`) is the model's
    `linked`: the last piece ends in a colon exactly when the joined token does (no piece is empty) -/
theorem linked_src {pieces : List Text} {st : St} {c : Char} {r : Text} (hr : Rep pieces st) (hrs : st.rest = c :: r) :
    (if decide (([c] : Text) = ['\'']) = true then
        (if (!pieces.isEmpty) = true then
          (do let t2 ← pyIndex pieces (-1); pure (PyT.endswith t2 [':']) : PyM Bool)
        else pure false)
      else pure false) = .ok (linked st) := by
  unfold linked
  by_cases hc : c = '\''
  · subst hc
    simp only [hrs, decide_true, if_true]
    cases hl : pieces.getLast? with
    | none =>
      have hpn : pieces = [] := List.getLast?_eq_none_iff.mp hl
      have ht : st.token = [] := by rw [hr.1, hpn]; rfl
      simp [hpn, ht, pure, Except.pure]
    | some p =>
      have hpn : pieces ≠ [] := by intro h; rw [h] at hl; cases hl
      have : pieces.isEmpty = false := by simpa using hpn
      simp only [this, Bool.not_false, if_true, index_last hl, bind, Except.bind, pure, Except.pure, rep_last hr hl]
  · have : decide (([c] : Text) = ['\'']) = false := by simp [hc]
    simp only [this, Bool.false_eq_true, if_false, hrs, pure, Except.pure]
    split
    · rename_i heq; injection heq with heq; exact absurd heq hc
    · rfl

/-- what `parseString` does with the scanner's answer -/
def strTail (st : St) (m : Option Nat) : PyM St :=
  match m with
  | none => .error .TokenizerError
  | some n =>
    if st.token ≠ [] then .ok { st with token := st.token ++ st.rest.take n, rest := st.rest.drop n }
    else .ok { st with items := st.items ++ [makeOperand (st.rest.take n)], rest := st.rest.drop n }

theorem parseString_eq {ws : List Nat} {st : St} {c : Char} {r : Text} (hrs : st.rest = c :: r) (hq : c = '"' ∨ c = '\'') :
    parseString ws st = (do quoteGuard st; strTail st (if c = '"' then dqMatch st.rest else sqMatch ws st.rest)) := by
  unfold parseString strTail
  rcases hq with h | h
  · subst h
    cases hg : quoteGuard st
    · rfl
    · simp only [bind, Except.bind, hrs, if_true]
      cases dqMatch ('"' :: r) <;> rfl
  · subst h
    cases hg : quoteGuard st
    · rfl
    · simp only [bind, Except.bind, hrs]
      have : ¬ ('\'' = '"') := by decide
      simp only [this, if_false]
      cases sqMatch ws ('\'' :: r) <;> rfl

theorem parse_string_refines_model {f : Text} {o : Int} {st : St} {pieces : List Text} {c : Char} {r : Text}
    (hp : Pos f o st) (hr : Rep pieces st) (hrs : st.rest = c :: r) (hq : c = '"' ∨ c = '\'') :
    Refines f o ((parse_string f o st.items pieces).map (fun r => (r.1, r.2.1, st.stack, r.2.2)))
      (parseString Gen.whitespace st) := by
  obtain ⟨h0, hrest⟩ := hp
  rw [parseString_eq hrs hq]
  unfold parse_string
  simp only [index_cons h0 (hrest ▸ hrs), bind, Except.bind, pure, Except.pure] 
  have hl := linked_src hr hrs
  simp only [bind, Except.bind, pure, Except.pure] at hl
  rw [hl]
  simp only [slice_from h0, ← hrest, assert_empty_token_eq_model pieces st hr]
  have hguard : (if (!linked st) = true then
      (do let _ ← assertEmpty st; pure () : PyM Unit) else pure ()) = quoteGuard st := by
    unfold quoteGuard
    cases linked st <;> simp <;> cases assertEmpty st <;> rfl
  simp only [bind, Except.bind, pure, Except.pure] at hguard
  rw [hguard]
  rcases guard_cases st with hg | hg
  · simp only [hg]
    have hpe : pieces.isEmpty = decide (st.token = []) := by
      by_cases ht : st.token = []
      · have : pieces = [] := by
          by_cases hpn : pieces = []
          · exact hpn
          · exact absurd ht ((rep_pieces_ne hr).mp hpn)
        simp [ht, this]
      · have hpn := (rep_pieces_ne hr).mpr ht
        simp [ht, hpn]
    -- the scanner the key selects is the one the model selects by the first character
    have hscan : ∃ scan : Text → Option Nat,
        stringRegexes Gen.whitespace [c] = .ok (reMatch0 scan) ∧
        (if c = '"' then dqMatch st.rest else sqMatch Gen.whitespace st.rest) = scan st.rest ∧
        (∀ n, scan st.rest = some n → 1 ≤ n) := by
      rcases hq with h | h
      · subst h
        exact ⟨dqMatch, by simp [stringRegexes], by simp, fun n h => dqMatch_pos h⟩
      · subst h
        exact ⟨sqMatch Gen.whitespace, by simp [stringRegexes], by simp, fun n h => sqMatch_pos h⟩
    obtain ⟨scan, hsr, hsel, hpos⟩ := hscan
    rw [hsr, hsel]
    simp only [reMatch0]
    cases hm : scan st.rest with
    | none => exact refines_err rfl
    | some n =>
      have hn := hpos n hm
      have htk : st.rest.take n ≠ [] := by
        rw [hrs]; cases n with
        | zero => omega
        | succ k => simp
      simp only [Option.map_some, hpe, strTail]
      by_cases ht : st.token = []
      · simp only [ht, decide_true, Bool.not_true, Bool.false_eq_true, if_false, ne_eq, not_true_eq_false]
        refine refines_ok ((st.rest.take n).length : Int) pieces rfl ?_ (rep_token_eq hr (by simp [ht]))
        exact pos_advance ⟨h0, hrest⟩ _ (drop_take_length st.rest n)
      · simp only [ht, decide_false, Bool.not_false, if_true, ne_eq, not_false_eq_true]
        refine refines_ok ((st.rest.take n).length : Int) (pieces ++ [st.rest.take n]) rfl ?_ (rep_append hr _ htk rfl)
        exact pos_advance ⟨h0, hrest⟩ _ (drop_take_length st.rest n)
  · simp only [hg]
    exact refines_err rfl

end NumbersModel.Translated
