/-
The two token-buffer methods of `Tokenizer` (`assert_empty_token`, `save_token`) as `harness/py2lean.py` regenerates them
from `tokenizer.py` on every check run (`Gen/TrTok.lean`; `self.items` / `self.token` are state variables: `X.append(v)` is
`x = x + [v]`, `del X[:]` is `x = []`) and the model's `assertEmpty` / `saveToken` (Model/Tokenizer.lean).  The source keeps the
pending token as a *list of pieces*, the model as their concatenation: the statements are refinements under the
representation invariant `Rep` (the model's token is the join of the pieces, no piece is empty — every piece the tokenizer
appends is a non-empty slice of the formula).
-/
import NumbersModel.Gen.TrTok
import NumbersModel.Model.Tokenizer

namespace NumbersModel.Translated
open NumbersModel NumbersModel.Gen.T NumbersModel.Tokenizer

/-- the source's `self.token` (pieces) against the model's `St.token` (their join) -/
def Rep (pieces : List Text) (st : St) : Prop := st.token = pieces.flatten ∧ ∀ p ∈ pieces, p ≠ []

theorem rep_empty_iff (pieces : List Text) (st : St) (h : Rep pieces st) : pieces.isEmpty = true ↔ st.token = [] := by
  obtain ⟨h1, h2⟩ := h
  cases pieces with
  | nil => simp [h1]
  | cons p r =>
    have hp : p ≠ [] := h2 p (List.mem_cons_self ..)
    simp only [List.isEmpty_cons, Bool.false_eq_true, false_iff, h1, List.flatten_cons]
    intro h
    exact hp (List.append_eq_nil_iff.mp h).1

/-- `assert_empty_token` raises exactly when the model's `assertEmpty` does, for every state the pieces represent. -/
theorem assert_empty_token_eq_model (pieces : List Text) (st : St) (h : Rep pieces st) :
    assert_empty_token pieces = assertEmpty st := by
  unfold assert_empty_token assertEmpty
  by_cases he : pieces.isEmpty = true
  · have := (rep_empty_iff pieces st h).mp he
    simp [he, this]; rfl
  · have hne : st.token ≠ [] := fun ht => he ((rep_empty_iff pieces st h).mpr ht)
    have he' : pieces.isEmpty = false := by simpa using he
    simp [he', hne]; rfl

/-- `save_token` appends the model's operand token and clears the buffer: the new `items` are `(saveToken st).items` and the
    new (empty) list of pieces represents `(saveToken st).token`, for every state the pieces represent. -/
theorem save_token_eq_model (pieces : List Text) (st : St) (h : Rep pieces st) :
    ∃ pieces', save_token st.items pieces = .ok ((), (saveToken st).items, pieces') ∧ Rep pieces' (saveToken st) := by
  unfold save_token saveToken
  by_cases he : pieces.isEmpty = true
  · have ht := (rep_empty_iff pieces st h).mp he
    refine ⟨pieces, ?_, ?_⟩
    · simp [he, ht, bind, Except.bind, pure, Except.pure]
    · simpa [ht] using h
  · have hne : st.token ≠ [] := fun ht => he ((rep_empty_iff pieces st h).mpr ht)
    have he' : pieces.isEmpty = false := by simpa using he
    rw [if_pos hne]
    refine ⟨[], ?_, ?_⟩
    · simp only [he', Bool.not_false, if_true, bind, Except.bind, pure, Except.pure, PyT.joinEmpty, h.1]
    · simp [Rep]

end NumbersModel.Translated
