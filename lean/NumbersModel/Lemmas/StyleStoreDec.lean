/- C15: the two finite facts of the style storage path that are decided in the kernel (kept in a file of
   their own: they take a minute and change only with the model / the regenerated tables). -/
import NumbersModel.Model.StyleStore
namespace NumbersModel.StyleStore
open NumbersModel

/-- the concrete formats: binary64 division, binary32 store, binary64 product, `round` — every one
    of the 256 channel values, decided in the kernel. -/
theorem chan_roundtrip_ieee_fin : ∀ c : Fin 256, chanOfArc Num.ieee (chanToArc Num.ieee (c.val : Int)) = (c.val : Int) := by
  decide +kernel

/-- every (family, name) pair of `FONT_FAMILY_TO_NAME` maps back through `FONT_NAME_TO_FAMILY`
    (decided on the regenerated table). -/
theorem fontTable_inverse :
    fontFamilyToName.all (fun e => lookupCodes Gen.fontNameToFamily e.2 == some e.1) = true := by
  decide +kernel

end NumbersModel.StyleStore
