import NumbersModel.Model.StringTable
import Mathlib.Data.List.Nodup
namespace NumbersModel.StringTable
open NumbersModel

/-- invariant of a table reached from `init`: keys are 1..n in list order, values distinct. -/
def WF {α} (t : Tbl α) : Prop :=
  t.entries.map Prod.fst = (List.range t.entries.length).map (· + 1) ∧
  t.nextKey = t.entries.length + 1 ∧ (t.entries.map Prod.snd).Nodup

theorem wf_init {α} : WF (init : Tbl α) := by simp [WF, init]

theorem keys_lt {α} {t : Tbl α} (h : WF t) : ∀ e ∈ t.entries, e.1 < t.nextKey := by
  intro e he
  have : e.1 ∈ t.entries.map Prod.fst := List.mem_map_of_mem (f := Prod.fst) he
  rw [h.1] at this
  simp only [List.mem_map, List.mem_range] at this
  obtain ⟨i, hi, hie⟩ := this
  rw [h.2.1]; omega

theorem keys_nodup {α} {t : Tbl α} (h : WF t) : (t.entries.map Prod.fst).Nodup := by
  rw [h.1]
  exact List.Nodup.map (fun a b hab => by simpa using hab) List.nodup_range

theorem lookupKey_wf {α} [DecidableEq α] {t : Tbl α} (h : WF t) (v : α) : WF (lookupKey t v).2 := by
  unfold lookupKey
  split
  · exact h
  · rename_i hnone
    obtain ⟨h1, h2, h3⟩ := h
    refine ⟨?_, ?_, ?_⟩
    · simp only [List.map_append, List.map_cons, List.map_nil, List.length_append, List.length_cons,
        List.length_nil, List.range_succ, h1, h2]
    · simp [h2]
    · simp only [List.map_append, List.map_cons, List.map_nil]
      rw [List.nodup_append]
      refine ⟨h3, by simp, ?_⟩
      intro a ha b hb
      simp at hb; subst hb
      intro heq; subst heq
      rw [List.find?_eq_none] at hnone
      obtain ⟨e, he, rfl⟩ := List.mem_map.mp ha
      have := hnone e he
      simp at this

/-- the key returned for `v` is carried by an entry whose value is `v`. -/
theorem lookupKey_entry {α} [DecidableEq α] (t : Tbl α) (v : α) :
    ((lookupKey t v).1, v) ∈ (lookupKey t v).2.entries := by
  unfold lookupKey
  split
  · rename_i e he
    have h1 := List.mem_of_find?_eq_some he
    have h2 : e.2 = v := by simpa using List.find?_some he
    rw [← h2]; exact h1
  · simp

theorem lookupKey_mono {α} [DecidableEq α] (t : Tbl α) (v : α) :
    ∃ ext, (lookupKey t v).2.entries = t.entries ++ ext := by
  unfold lookupKey
  split
  · exact ⟨[], by simp⟩
  · exact ⟨_, rfl⟩

theorem find_key_of_mem {α} {entries : List (Nat × α)} (hn : (entries.map Prod.fst).Nodup)
    {k : Nat} {v : α} (hm : (k, v) ∈ entries) : lookupValue entries k = .ok v := by
  unfold lookupValue
  induction entries with
  | nil => cases hm
  | cons e r ih =>
    simp only [List.map_cons, List.nodup_cons] at hn
    rcases List.mem_cons.mp hm with h | h
    · subst h; simp
    · have hne : e.1 ≠ k := by
        intro he
        exact hn.1 (he ▸ List.mem_map_of_mem (f := Prod.fst) h)
      simp only [List.find?_cons, hne, decide_false]
      exact ih hn.2 h

theorem internAll_spec {α} [DecidableEq α] : ∀ (vs : List α) (t : Tbl α), WF t →
    WF (internAll t vs).2 ∧ (internAll t vs).1.length = vs.length ∧
    (∃ ext, (internAll t vs).2.entries = t.entries ++ ext) ∧
    ∀ i (h : i < vs.length), ∃ k, (internAll t vs).1[i]? = some k ∧
      lookupValue (internAll t vs).2.entries k = .ok vs[i] := by
  intro vs
  induction vs with
  | nil => intro t h; exact ⟨h, rfl, ⟨[], by simp [internAll]⟩, fun i hi => by simp at hi⟩
  | cons v vs ih =>
    intro t h
    have hwf1 := lookupKey_wf h v
    obtain ⟨hw, hl, ⟨ext, hext⟩, hall⟩ := ih (lookupKey t v).2 hwf1
    obtain ⟨ext0, hext0⟩ := lookupKey_mono t v
    simp only [internAll]
    refine ⟨hw, by simp [hl], ⟨ext0 ++ ext, by rw [hext, hext0, List.append_assoc]⟩, ?_⟩
    intro i hi
    cases i with
    | zero =>
      refine ⟨(lookupKey t v).1, by simp, ?_⟩
      apply find_key_of_mem (keys_nodup hw)
      rw [hext]
      exact List.mem_append_left _ (lookupKey_entry t v)
    | succ j =>
      obtain ⟨k, hk1, hk2⟩ := hall j (by simpa using hi)
      exact ⟨k, by simpa using hk1, by simpa using hk2⟩

end NumbersModel.StringTable
