import NumbersModel.Model.FormulaParse
import NumbersModel.Lemmas.Formula
namespace NumbersModel.Formula.Parse
open NumbersModel NumbersModel.Formula


theorem mono_step : ∀ F : Nat,
    (∀ ts v, pPrimary F ts = some v → pPrimary (F + 1) ts = some v) ∧
    (∀ ts v, pUnary F ts = some v → pUnary (F + 1) ts = some v) ∧
    (∀ m ts v, pExpr F m ts = some v → pExpr (F + 1) m ts = some v) ∧
    (∀ m lhs ts v, pLoop F m lhs ts = some v → pLoop (F + 1) m lhs ts = some v) := by
  intro F
  induction F with
  | zero =>
    refine ⟨?_, ?_, ?_, ?_⟩ <;> intros <;> simp_all [pPrimary, pUnary, pExpr, pLoop]
  | succ F ih =>
    obtain ⟨ihP, ihU, ihE, ihL⟩ := ih
    refine ⟨?_, ?_, ?_, ?_⟩
    · intro ts v h
      cases ts with
      | nil => simp [pPrimary] at h
      | cons t r =>
        cases t with
        | atom n => simpa [pPrimary] using h
        | lp =>
          simp only [pPrimary] at h ⊢
          cases hq : pExpr F 1 r with
          | none => rw [hq] at h; simp at h
          | some q =>
            rw [hq] at h
            rw [ihE 1 r q hq]
            exact h
        | op o => simp [pPrimary] at h
        | rp => simp [pPrimary] at h
        | pct => simp [pPrimary] at h
    · intro ts v h
      cases ts with
      | nil => simp [pUnary] at h
      | cons t r =>
        cases t with
        | op o =>
          simp only [pUnary] at h ⊢
          by_cases ho : o = .sub
          · simp only [ho, if_true] at h ⊢
            cases hq : pUnary F r with
            | none => rw [hq] at h; simp at h
            | some q => rw [hq] at h; rw [ihU r q hq]; exact h
          · simp [ho] at h
        | atom n =>
          simp only [pUnary] at h ⊢
          cases hq : pPrimary F (.atom n :: r) with
          | none => rw [hq] at h; simp at h
          | some q => rw [hq] at h; rw [ihP _ q hq]; exact h
        | lp =>
          simp only [pUnary] at h ⊢
          cases hq : pPrimary F (.lp :: r) with
          | none => rw [hq] at h; simp at h
          | some q => rw [hq] at h; rw [ihP _ q hq]; exact h
        | rp => simp [pUnary] at h
        | pct => simp [pUnary] at h
    · intro m ts v h
      simp only [pExpr] at h ⊢
      cases hq : pUnary F ts with
      | none => rw [hq] at h; simp at h
      | some q =>
        rw [hq] at h
        rw [ihU ts q hq]
        exact ihL m q.1 q.2 v h
    · intro m lhs ts v h
      cases ts with
      | nil => simpa [pLoop] using h
      | cons t r =>
        cases t with
        | op o =>
          simp only [pLoop] at h ⊢
          by_cases hm : m ≤ prec o
          · simp only [hm, if_true] at h ⊢
            cases hq : pExpr F (prec o + 1) r with
            | none => rw [hq] at h; simp at h
            | some q =>
              rw [hq] at h
              rw [ihE _ r q hq]
              exact ihL m _ _ v h
          · simpa [hm] using h
        | atom n => simpa [pLoop] using h
        | lp => simpa [pLoop] using h
        | rp => simpa [pLoop] using h
        | pct => simpa [pLoop] using h

theorem mono {F F' : Nat} (hle : F ≤ F') :
    (∀ ts v, pPrimary F ts = some v → pPrimary F' ts = some v) ∧
    (∀ ts v, pUnary F ts = some v → pUnary F' ts = some v) ∧
    (∀ m ts v, pExpr F m ts = some v → pExpr F' m ts = some v) ∧
    (∀ m lhs ts v, pLoop F m lhs ts = some v → pLoop F' m lhs ts = some v) := by
  induction hle with
  | refl => exact ⟨fun _ _ h => h, fun _ _ h => h, fun _ _ _ h => h, fun _ _ _ _ h => h⟩
  | step _ ih =>
    obtain ⟨a, b, c, d⟩ := ih
    obtain ⟨a', b', c', d'⟩ := mono_step _
    exact ⟨fun ts v h => a' ts v (a ts v h), fun ts v h => b' ts v (b ts v h),
      fun m ts v h => c' m ts v (c m ts v h), fun m l ts v h => d' m l ts v (d m l ts v h)⟩



/-! ### what may follow an expression -/

def stop (m : Nat) : List Tok → Prop
  | [] => True
  | .rp :: _ => True
  | .op o :: _ => prec o < m
  | _ => False

def okFollow (L : Nat) : List Tok → Prop
  | [] => True
  | .rp :: _ => True
  | .op o :: _ => prec o ≤ L
  | _ => False

theorem one_le_prec (o : BinOp) : 1 ≤ prec o := by cases o <;> simp [prec]
theorem prec_le_five (o : BinOp) : prec o ≤ 5 := by cases o <;> simp [prec]
theorem one_le_lvl (e : PE) : 1 ≤ lvl e := by
  cases e <;> simp [lvl]; exact one_le_prec _

theorem okFollow_of_stop {m L : Nat} (h : m ≤ L) : ∀ rest, stop m rest → okFollow L rest
  | [], _ => trivial
  | .rp :: _, _ => trivial
  | .op o :: _, hs => by simp only [stop] at hs; simp only [okFollow]; omega
  | .atom _ :: _, hs => by simp [stop] at hs
  | .lp :: _, hs => by simp [stop] at hs
  | .pct :: _, hs => by simp [stop] at hs

theorem stop_of_okFollow {L : Nat} : ∀ rest, okFollow L rest → stop (L + 1) rest
  | [], _ => trivial
  | .rp :: _, _ => trivial
  | .op o :: _, hs => by simp only [okFollow] at hs; simp only [stop]; omega
  | .atom _ :: _, hs => by simp [okFollow] at hs
  | .lp :: _, hs => by simp [okFollow] at hs
  | .pct :: _, hs => by simp [okFollow] at hs

theorem okFollow_not_pct {L : Nat} : ∀ rest, okFollow L rest → rest.head? ≠ some .pct
  | [], _ => by simp
  | .rp :: _, _ => by simp
  | .op o :: _, _ => by simp
  | .atom _ :: _, hs => by simp [okFollow] at hs
  | .lp :: _, hs => by simp [okFollow] at hs
  | .pct :: _, hs => by simp [okFollow] at hs

theorem pLoop_stop (F m : Nat) (e : PE) : ∀ rest, stop m rest → pLoop (F + 1) m e rest = some (e, rest)
  | [], _ => by simp [pLoop]
  | .rp :: _, _ => by simp [pLoop]
  | .op o :: r, hs => by
    simp only [stop] at hs
    have : ¬ m ≤ prec o := by omega
    simp [pLoop, this]
  | .atom _ :: _, hs => by simp [stop] at hs
  | .lp :: _, hs => by simp [stop] at hs
  | .pct :: _, hs => by simp [stop] at hs

theorem pPostfix_not_pct (e : PE) : ∀ rest, rest.head? ≠ some .pct → pPostfix e rest = (e, rest)
  | [], _ => by simp [pPostfix]
  | .pct :: _, h => by simp at h
  | .rp :: _, _ => by simp [pPostfix]
  | .op _ :: _, _ => by simp [pPostfix]
  | .atom _ :: _, _ => by simp [pPostfix]
  | .lp :: _, _ => by simp [pPostfix]

theorem head_primary : ∀ (e : PE), WP e → 7 ≤ lvl e → ∀ rest,
    (∃ n r, toks e ++ rest = .atom n :: r) ∨ (∃ r, toks e ++ rest = .lp :: r)
  | .atom n, _, _, rest => Or.inl ⟨n, rest, by simp [toks]⟩
  | .paren e, _, _, rest => Or.inr ⟨toks e ++ [.rp] ++ rest, by simp [toks]⟩
  | .pct e, hw, _, rest => by
    simp only [WP] at hw
    have := head_primary e hw.1 hw.2 ([.pct] ++ rest)
    simpa [toks, List.append_assoc] using this
  | .neg _, _, hl, _ => by simp [lvl] at hl
  | .bin o _ _, _, hl, _ => by simp only [lvl] at hl; have := prec_le_five o; omega

theorem pUnary_primary (F : Nat) (ts : List Tok)
    (h : (∃ n r, ts = .atom n :: r) ∨ (∃ r, ts = .lp :: r)) :
    pUnary (F + 1) ts = match pPrimary F ts with
      | some (e, r') => some (pPostfix e r')
      | none => none := by
  rcases h with ⟨n, r, rfl⟩ | ⟨r, rfl⟩ <;> simp only [pUnary] <;> (split <;> simp_all)

/-! ### the climbing invariant -/

def G (e : PE) : Prop := ∀ m, m ≤ lvl e → ∀ rest, okFollow (lvl e) rest → ∀ F v,
  pLoop F m e rest = some v → ∃ F', pExpr F' m (toks e ++ rest) = some v
def U (e : PE) : Prop := ∀ rest, rest.head? ≠ some .pct → ∃ F, pUnary F (toks e ++ rest) = some (e, rest)
def Q (e : PE) : Prop := ∀ rest, ∃ F,
  (pPrimary F (toks e ++ rest)).map (fun p => pPostfix p.1 p.2) = some (pPostfix e rest)

theorem T_of_G {e : PE} (hg : G e) (m : Nat) (hm : m ≤ lvl e) (rest : List Tok) (hs : stop m rest) :
    ∃ F, pExpr F m (toks e ++ rest) = some (e, rest) :=
  hg m hm rest (okFollow_of_stop hm rest hs) 1 (e, rest) (pLoop_stop 0 m e rest hs)

theorem G_of_U {e : PE} (hu : U e) : G e := by
  intro m _ rest hok F v hl
  obtain ⟨F1, h1⟩ := hu rest (okFollow_not_pct rest hok)
  refine ⟨max F1 F + 1, ?_⟩
  simp only [pExpr]
  rw [(mono (Nat.le_max_left F1 F)).2.1 _ _ h1]
  exact (mono (Nat.le_max_right F1 F)).2.2.2 _ _ _ _ hl

theorem U_of_Q {e : PE} (hw : WP e) (hl : 7 ≤ lvl e) (hq : Q e) : U e := by
  intro rest hr
  obtain ⟨F, hF⟩ := hq rest
  refine ⟨F + 1, ?_⟩
  rw [pUnary_primary F _ (head_primary e hw hl rest)]
  rw [pPostfix_not_pct e rest hr] at hF
  cases hp : pPrimary F (toks e ++ rest) with
  | none => rw [hp] at hF; simp at hF
  | some p =>
    rw [hp] at hF
    simpa using hF

theorem main : ∀ e : PE, WP e → G e ∧ (6 ≤ lvl e → U e) ∧ (7 ≤ lvl e → Q e)
  | .atom n, _ => by
    have hq : Q (.atom n) := fun rest => ⟨1, by simp [toks, pPrimary]⟩
    have hu : U (.atom n) := U_of_Q trivial (by simp [lvl]) hq
    exact ⟨G_of_U hu, fun _ => hu, fun _ => hq⟩
  | .paren x, hw => by
    have hx := main x hw
    have hq : Q (.paren x) := by
      intro rest
      obtain ⟨F, hF⟩ := T_of_G hx.1 1 (one_le_lvl x) (.rp :: rest) trivial
      refine ⟨F + 1, ?_⟩
      have : toks (.paren x) ++ rest = .lp :: (toks x ++ .rp :: rest) := by simp [toks]
      rw [this]
      simp [pPrimary, hF]
    have hu : U (.paren x) := U_of_Q hw (by simp [lvl]) hq
    exact ⟨G_of_U hu, fun _ => hu, fun _ => hq⟩
  | .pct x, hw => by
    have hw' := hw
    simp only [WP] at hw'
    have hx := main x hw'.1
    have hq : Q (.pct x) := by
      intro rest
      obtain ⟨F, hF⟩ := hx.2.2 hw'.2 (.pct :: rest)
      refine ⟨F, ?_⟩
      have : toks (.pct x) ++ rest = toks x ++ .pct :: rest := by simp [toks]
      rw [this, hF]
      simp [pPostfix]
    have hu : U (.pct x) := U_of_Q hw (by simp [lvl]) hq
    exact ⟨G_of_U hu, fun _ => hu, fun h => hq⟩
  | .neg x, hw => by
    have hw' := hw
    simp only [WP] at hw'
    have hx := main x hw'.1
    have hu : U (.neg x) := by
      intro rest hr
      obtain ⟨F, hF⟩ := hx.2.1 hw'.2 rest hr
      refine ⟨F + 1, ?_⟩
      have : toks (.neg x) ++ rest = .op .sub :: (toks x ++ rest) := by simp [toks]
      rw [this]
      simp [pUnary, hF]
    exact ⟨G_of_U hu, fun _ => hu, fun h => by simp [lvl] at h⟩
  | .bin o l r, hw => by
    have hw' := hw
    simp only [WP] at hw'
    obtain ⟨hwl, hwr, hll, hlr⟩ := hw'
    have hl := main l hwl
    have hr := main r hwr
    refine ⟨?_, fun h => ?_, fun h => ?_⟩
    · intro m hm rest hok F v hloop
      simp only [lvl] at hm hok
      obtain ⟨F2, h2⟩ := T_of_G hr.1 (prec o + 1) (by omega) rest (stop_of_okFollow rest hok)
      have hstep : pLoop (max F F2 + 1) m l (.op o :: (toks r ++ rest)) = some v := by
        simp only [pLoop, hm, if_true]
        rw [(mono (Nat.le_max_right F F2)).2.2.1 _ _ _ h2]
        exact (mono (Nat.le_max_left F F2)).2.2.2 _ _ _ _ hloop
      have hokl : okFollow (lvl l) (.op o :: (toks r ++ rest)) := by simp only [okFollow]; exact hll
      obtain ⟨F', hF'⟩ := hl.1 m (by omega) _ hokl _ v hstep
      refine ⟨F', ?_⟩
      have : toks (.bin o l r) ++ rest = toks l ++ .op o :: (toks r ++ rest) := by simp [toks]
      rw [this]; exact hF'
    · simp only [lvl] at h; have := prec_le_five o; omega
    · simp only [lvl] at h; have := prec_le_five o; omega

/-- every well-parenthesised tree of the fragment is read back from its token stream. -/
theorem parse_toks (e : PE) (hw : WP e) : ∃ F, ∀ F', F ≤ F' → parse F' (toks e) = some e := by
  obtain ⟨F, hF⟩ := T_of_G (main e hw).1 1 (one_le_lvl e) [] trivial
  refine ⟨F, fun F' hle => ?_⟩
  have := (mono hle).2.2.1 _ _ _ hF
  simp only [List.append_nil] at this
  simp [parse, this]

/-- the token stream is the rendered text, token by token. -/
theorem render_embed (name : Nat → Text) : ∀ e : PE,
    render (embed name e) = ((toks e).map (tokText name)).flatten
  | .atom n => by simp [embed, render, toks, tokText]
  | .bin o l r => by
    simp [embed, render, toks, tokText, render_embed name l, render_embed name r]
  | .neg e => by
    simp [embed, render, toks, tokText, render_embed name e, glyph]
  | .pct e => by simp [embed, render, toks, tokText, render_embed name e]
  | .paren e => by
    simp [embed, render, renderList, join, toks, tokText, render_embed name e]

theorem wellFormed_embed (name : Nat → Text) : ∀ e : PE, WellFormed (embed name e) = true
  | .atom n => by simp [embed, WellFormed]
  | .bin o l r => by simp [embed, WellFormed, wellFormed_embed name l, wellFormed_embed name r]
  | .neg e => by simp [embed, WellFormed, wellFormed_embed name e]
  | .pct e => by simp [embed, WellFormed, wellFormed_embed name e]
  | .paren e => by simp [embed, WellFormed, WellFormedList, wellFormed_embed name e]

end NumbersModel.Formula.Parse
