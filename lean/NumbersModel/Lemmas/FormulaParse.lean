import NumbersModel.Model.FormulaParse
import NumbersModel.Lemmas.Formula
namespace NumbersModel.Formula.Parse
open NumbersModel NumbersModel.Formula

/-! ### more fuel never changes a result -/

structure Mono (F F' : Nat) : Prop where
  prim : ∀ ts v, pPrimary F ts = some v → pPrimary F' ts = some v
  un : ∀ ts v, pUnary F ts = some v → pUnary F' ts = some v
  ex : ∀ m ts v, pExpr F m ts = some v → pExpr F' m ts = some v
  lo : ∀ m lhs ts v, pLoop F m lhs ts = some v → pLoop F' m lhs ts = some v
  arg : ∀ ts v, pArg F ts = some v → pArg F' ts = some v
  args : ∀ ts v, pArgsTail F ts = some v → pArgsTail F' ts = some v
  items : ∀ ts v, pItemsTail F ts = some v → pItemsTail F' ts = some v
  rows : ∀ ts v, pRowsTail F ts = some v → pRowsTail F' ts = some v

/-- one level of `match g with | some (a, b) => k a b | none => none`: case on the recursive call made
    with the smaller fuel, rewrite the call with the larger fuel by the induction hypothesis. -/
syntax "mono_lvl " ident term " with " term " as " ident ident : tactic
macro_rules
  | `(tactic| mono_lvl $h $g with $ih as $q1 $q2) => `(tactic| (
      rcases hq : $g with _ | ⟨$q1, $q2⟩
      · rw [hq] at $h:ident; simp at $h:ident
      rw [hq] at $h:ident
      rw [$ih _ hq]
      try simp only [] at $h:ident ⊢))

theorem pUnary_succ (f : Nat) (ts : List Tok) : pUnary (f + 1) ts =
    match negTail ts with
    | some r =>
      match pUnary f r with
      | some (e, r') => some (.neg e, r')
      | none => none
    | none =>
      match pPrimary f ts with
      | some (e, r') => some (pPostfix e r')
      | none => none := by
  rw [pUnary]; rfl

theorem mono_step : ∀ F : Nat, Mono F (F + 1) := by
  intro F
  induction F with
  | zero =>
    constructor <;> intros <;> simp_all [pPrimary, pUnary, pExpr, pLoop, pArg, pArgsTail, pItemsTail, pRowsTail]
  | succ F ih =>
    obtain ⟨ihP, ihU, ihE, ihL, ihA, ihAs, ihI, ihR⟩ := ih
    constructor
    · intro ts v h
      cases ts with
      | nil => simp [pPrimary] at h
      | cons t r =>
        cases t with
        | num t => simpa [pPrimary] using h
        | str t => simpa [pPrimary] using h
        | bool t => simpa [pPrimary] using h
        | name t => simpa [pPrimary] using h
        | fn n =>
          simp only [pPrimary] at h ⊢
          mono_lvl h (pArg F r) with (ihA _) as q1 q2
          mono_lvl h (pArgsTail F q2) with (ihAs _) as z1 z2
          exact h
        | lp =>
          simp only [pPrimary] at h ⊢
          mono_lvl h (pExpr F 1 r) with (ihE _ _) as q1 q2
          mono_lvl h (pItemsTail F q2) with (ihI _) as z1 z2
          exact h
        | lb =>
          simp only [pPrimary] at h ⊢
          mono_lvl h (pExpr F 1 r) with (ihE _ _) as q1 q2
          mono_lvl h (pItemsTail F q2) with (ihI _) as q3 q4
          mono_lvl h (pRowsTail F q4) with (ihR _) as z1 z2
          exact h
        | op o => simp [pPrimary] at h
        | rp => simp [pPrimary] at h
        | rb => simp [pPrimary] at h
        | comma => simp [pPrimary] at h
        | semi => simp [pPrimary] at h
        | pct => simp [pPrimary] at h
    · intro ts v h
      rw [pUnary_succ] at h
      rw [pUnary_succ]
      cases hn : negTail ts with
      | some r =>
        rw [hn] at h
        simp only [] at h ⊢
        mono_lvl h (pUnary F r) with (ihU _) as z1 z2
        exact h
      | none =>
        rw [hn] at h
        simp only [] at h ⊢
        mono_lvl h (pPrimary F ts) with (ihP _) as z1 z2
        exact h
    · intro m ts v h
      simp only [pExpr] at h ⊢
      mono_lvl h (pUnary F ts) with (ihU _) as z1 z2
      exact ihL _ _ _ _ h
    · intro m lhs ts v h
      cases ts with
      | nil => simpa [pLoop] using h
      | cons t r =>
        cases t with
        | op o =>
          simp only [pLoop] at h ⊢
          by_cases hm : m ≤ prec o
          · simp only [hm, if_true] at h ⊢
            mono_lvl h (pExpr F (prec o + 1) r) with (ihE _ _) as z1 z2
            exact ihL _ _ _ _ h
          · simpa [hm] using h
        | _ => simpa [pLoop] using h
    · intro ts v h
      simp only [pArg] at h ⊢
      by_cases he : argEnds ts = true
      · simpa [he] using h
      · simp only [he] at h ⊢
        exact ihE _ _ _ h
    · intro ts v h
      cases ts with
      | nil => simpa [pArgsTail] using h
      | cons t r =>
        cases t with
        | comma =>
          simp only [pArgsTail] at h ⊢
          mono_lvl h (pArg F r) with (ihA _) as q1 q2
          mono_lvl h (pArgsTail F q2) with (ihAs _) as z1 z2
          exact h
        | _ => simpa [pArgsTail] using h
    · intro ts v h
      cases ts with
      | nil => simpa [pItemsTail] using h
      | cons t r =>
        cases t with
        | comma =>
          simp only [pItemsTail] at h ⊢
          mono_lvl h (pExpr F 1 r) with (ihE _ _) as q1 q2
          mono_lvl h (pItemsTail F q2) with (ihI _) as z1 z2
          exact h
        | _ => simpa [pItemsTail] using h
    · intro ts v h
      cases ts with
      | nil => simpa [pRowsTail] using h
      | cons t r =>
        cases t with
        | semi =>
          simp only [pRowsTail] at h ⊢
          mono_lvl h (pExpr F 1 r) with (ihE _ _) as q1 q2
          mono_lvl h (pItemsTail F q2) with (ihI _) as q3 q4
          mono_lvl h (pRowsTail F q4) with (ihR _) as z1 z2
          exact h
        | _ => simpa [pRowsTail] using h

theorem mono_add (F k : Nat) : Mono F (F + k) := by
  induction k with
  | zero => exact ⟨fun _ _ h => h, fun _ _ h => h, fun _ _ _ h => h, fun _ _ _ _ h => h,
      fun _ _ h => h, fun _ _ h => h, fun _ _ h => h, fun _ _ h => h⟩
  | succ k ih =>
    have s := mono_step (F + k)
    exact ⟨fun a b h => s.prim a b (ih.prim a b h), fun a b h => s.un a b (ih.un a b h),
      fun a b c h => s.ex a b c (ih.ex a b c h), fun a b c d h => s.lo a b c d (ih.lo a b c d h),
      fun a b h => s.arg a b (ih.arg a b h), fun a b h => s.args a b (ih.args a b h),
      fun a b h => s.items a b (ih.items a b h), fun a b h => s.rows a b (ih.rows a b h)⟩

theorem mono {F F' : Nat} (hle : F ≤ F') : Mono F F' := by
  obtain ⟨k, rfl⟩ := Nat.exists_eq_add_of_le hle
  exact mono_add F k


/-! ### what may follow an expression -/

def stop (m : Nat) : List Tok → Prop
  | [] => True
  | .rp :: _ => True
  | .rb :: _ => True
  | .comma :: _ => True
  | .semi :: _ => True
  | .op o :: _ => prec o < m
  | _ => False

def okFollow (L : Nat) : List Tok → Prop
  | [] => True
  | .rp :: _ => True
  | .rb :: _ => True
  | .comma :: _ => True
  | .semi :: _ => True
  | .op o :: _ => prec o ≤ L
  | _ => False

/-- what ends a comma-separated sequence. -/
def closes : List Tok → Prop
  | .rp :: _ => True
  | .rb :: _ => True
  | .semi :: _ => True
  | _ => False

theorem one_le_prec (o : BinOp) : 1 ≤ prec o := by cases o <;> simp [prec]
theorem prec_le_five (o : BinOp) : prec o ≤ 5 := by cases o <;> simp [prec]

theorem okFollow_of_stop {m L : Nat} (h : m ≤ L) : ∀ rest, stop m rest → okFollow L rest
  | [], _ => trivial
  | t :: _, hs => by
    cases t <;> simp only [stop] at hs <;> simp only [okFollow] <;> omega

theorem stop_of_okFollow {L : Nat} : ∀ rest, okFollow L rest → stop (L + 1) rest
  | [], _ => trivial
  | t :: _, hs => by
    cases t <;> simp only [okFollow] at hs <;> simp only [stop] <;> omega

theorem okFollow_not_pct {L : Nat} : ∀ rest, okFollow L rest → rest.head? ≠ some .pct
  | [], _ => by simp
  | t :: _, hs => by cases t <;> simp_all [okFollow]

theorem stop_of_closes (m : Nat) : ∀ rest, closes rest → stop m rest
  | [], h => by simp [closes] at h
  | t :: _, h => by cases t <;> simp_all [closes, stop]

theorem stop_comma (m : Nat) (r : List Tok) : stop m (.comma :: r) := trivial

theorem pLoop_stop (F m : Nat) (e : PT) : ∀ rest, stop m rest → pLoop (F + 1) m e rest = some (e, rest)
  | [], _ => by simp [pLoop]
  | t :: r, hs => by
    cases t with
    | op o =>
      simp only [stop] at hs
      have : ¬ m ≤ prec o := by omega
      simp [pLoop, this]
    | _ => simp [pLoop]

theorem pPostfix_not_pct (e : PT) : ∀ rest, rest.head? ≠ some .pct → pPostfix e rest = (e, rest)
  | [], _ => by simp [pPostfix]
  | t :: _, h => by cases t <;> first | (simp at h; done) | simp [pPostfix]

theorem pItemsTail_closes (F : Nat) : ∀ rest, closes rest → pItemsTail (F + 1) rest = some ([], rest)
  | [], h => by simp [closes] at h
  | t :: _, h => by cases t <;> first | (simp [closes] at h; done) | simp [pItemsTail]

/-! ### how an expression starts -/

def startsPrim : List Tok → Bool
  | .num _ :: _ => true
  | .str _ :: _ => true
  | .bool _ :: _ => true
  | .name _ :: _ => true
  | .fn _ :: _ => true
  | .lp :: _ => true
  | .lb :: _ => true
  | _ => false

def startsExpr : List Tok → Bool
  | .op .sub :: _ => true
  | ts => startsPrim ts

theorem startsExpr_of_prim {ts : List Tok} (h : startsPrim ts = true) : startsExpr ts = true := by
  cases ts with
  | nil => simp [startsPrim] at h
  | cons t r => cases t <;> simp_all [startsPrim, startsExpr]

theorem starts : ∀ e : PT, WP e = true → ∀ rest,
    startsExpr (toks e ++ rest) = true ∧ (7 ≤ lvl e → startsPrim (toks e ++ rest) = true)
  | .num _, _, _ => by simp [toks, startsExpr, startsPrim]
  | .str _, _, _ => by simp [toks, startsExpr, startsPrim]
  | .bool _, _, _ => by simp [toks, startsExpr, startsPrim]
  | .name _, _, _ => by simp [toks, startsExpr, startsPrim]
  | .empty, h, _ => by simp [WP] at h
  | .paren _, _, _ => by simp [toks, startsExpr, startsPrim]
  | .call _ _, _, _ => by simp [toks, startsExpr, startsPrim]
  | .arr _, _, _ => by simp [toks, startsExpr, startsPrim]
  | .neg _, _, _ => by simp [toks, startsExpr, lvl]
  | .pct x, h, rest => by
    simp only [WP, Bool.and_eq_true, decide_eq_true_eq] at h
    have := starts x h.1 ([.pct] ++ rest)
    simp only [toks, List.append_assoc]
    exact ⟨this.1, fun _ => this.2 h.2⟩
  | .bin o l r, h, rest => by
    simp only [WP, Bool.and_eq_true, decide_eq_true_eq] at h
    have := starts l h.1.1.1 (.op o :: (toks r ++ rest))
    simp only [toks, List.append_assoc, List.cons_append]
    refine ⟨this.1, fun hl => ?_⟩
    simp only [lvl] at hl; have := prec_le_five o; omega

theorem negTail_of_prim {ts : List Tok} (h : startsPrim ts = true) : negTail ts = none := by
  cases ts with
  | nil => rfl
  | cons t r => cases t <;> simp_all [startsPrim, negTail]

theorem argEnds_of_expr {ts : List Tok} (h : startsExpr ts = true) : argEnds ts = false := by
  cases ts with
  | nil => rfl
  | cons t r =>
    cases t with
    | op o => cases o <;> simp_all [startsExpr, startsPrim, argEnds]
    | _ => simp_all [startsExpr, startsPrim, argEnds]

theorem not_rp_of_expr {ts : List Tok} (h : startsExpr ts = true) : ∀ r, ts ≠ .rp :: r := by
  intro r e; subst e; simp [startsExpr, startsPrim] at h

/-! ### the climbing invariant, with explicit fuel (4 units per token) -/

def G (e : PT) : Prop := ∀ m, m ≤ lvl e → ∀ rest, okFollow (lvl e) rest → ∀ F v,
  pLoop F m e rest = some v → ∀ F', F + 4 * (toks e).length + 2 ≤ F' → pExpr F' m (toks e ++ rest) = some v
def U (e : PT) : Prop := ∀ rest, rest.head? ≠ some .pct → ∀ F, 4 * (toks e).length + 1 ≤ F →
  pUnary F (toks e ++ rest) = some (e, rest)
def Q (e : PT) : Prop := ∀ rest F, 4 * (toks e).length ≤ F →
  (pPrimary F (toks e ++ rest)).map (fun p => pPostfix p.1 p.2) = some (pPostfix e rest)
def IT (es : List PT) : Prop := ∀ rest, closes rest → ∀ F, 4 * (toksTail es).length + 1 ≤ F →
  pItemsTail F (toksTail es ++ rest) = some (es, rest)
def AT (args : List PT) : Prop := ∀ rest F, 4 * (toksTail args).length + 1 ≤ F →
  pArgsTail F (toksTail args ++ .rp :: rest) = some (args, .rp :: rest)
def RT (rs : List (List PT)) : Prop := ∀ rest F, 4 * (toksRowsTail rs).length + 1 ≤ F →
  pRowsTail F (toksRowsTail rs ++ .rb :: rest) = some (rs, .rb :: rest)

theorem one_le_lvl (e : PT) (h : WP e = true) : 1 ≤ lvl e := by
  cases e <;> simp_all [lvl, WP]; exact one_le_prec _

theorem T_of_G {e : PT} (hg : G e) (m : Nat) (hm : m ≤ lvl e) (rest : List Tok) (hs : stop m rest)
    (F : Nat) (hF : 4 * (toks e).length + 3 ≤ F) : pExpr F m (toks e ++ rest) = some (e, rest) :=
  hg m hm rest (okFollow_of_stop hm rest hs) 1 (e, rest) (pLoop_stop 0 m e rest hs) F (by omega)

theorem G_of_U {e : PT} (hu : U e) : G e := by
  intro m _ rest hok F v hl F' hF'
  obtain ⟨F0, rfl⟩ : ∃ F0, F' = F0 + 1 := ⟨F' - 1, by omega⟩
  simp only [pExpr]
  rw [hu rest (okFollow_not_pct rest hok) F0 (by omega)]
  exact (mono (by omega)).lo _ _ _ _ hl

theorem U_of_Q {e : PT} (hw : WP e = true) (hl : 7 ≤ lvl e) (hq : Q e) : U e := by
  intro rest hr F hF
  obtain ⟨F0, rfl⟩ : ∃ F0, F = F0 + 1 := ⟨F - 1, by omega⟩
  have hF := hq rest F0 (by omega)
  rw [pUnary_succ, negTail_of_prim ((starts e hw rest).2 hl)]
  rw [pPostfix_not_pct e rest hr] at hF
  cases hp : pPrimary F0 (toks e ++ rest) with
  | none => rw [hp] at hF; simp at hF
  | some p =>
    rw [hp] at hF
    simpa using hF

theorem atom_main (e : PT) (hw : WP e = true) (hl : lvl e = 8) (n : (toks e).length = 1)
    (hp : ∀ rest F, pPrimary (F + 1) (toks e ++ rest) = some (e, rest)) :
    G e ∧ (6 ≤ lvl e → U e) ∧ (7 ≤ lvl e → Q e) := by
  have hq : Q e := by
    intro rest F hF
    obtain ⟨F0, rfl⟩ : ∃ F0, F = F0 + 1 := ⟨F - 1, by omega⟩
    rw [hp]; rfl
  have hu : U e := U_of_Q hw (by omega) hq
  exact ⟨G_of_U hu, fun _ => hu, fun _ => hq⟩

theorem prim_main (e : PT) (hw : WP e = true) (hl : lvl e = 8) (hq : Q e) :
    G e ∧ (6 ≤ lvl e → U e) ∧ (7 ≤ lvl e → Q e) := by
  have hu : U e := U_of_Q hw (by omega) hq
  exact ⟨G_of_U hu, fun _ => hu, fun _ => hq⟩


theorem wps_cons {e : PT} {es : List PT} (h : WPs (e :: es) = true) : WP e = true ∧ WPs es = true := by
  simpa [WPs] using h

theorem argEnds_tail_rp (args : List PT) (rest : List Tok) : argEnds (toksTail args ++ .rp :: rest) = true := by
  cases args <;> simp [toksTail, argEnds]

theorem stop_tail_closes (m : Nat) (es : List PT) (rest : List Tok) (h : closes rest) :
    stop m (toksTail es ++ rest) := by
  cases es with
  | nil => exact stop_of_closes m rest h
  | cons e es => simp [toksTail, stop]

theorem closes_rowsTail (rs : List (List PT)) (rest : List Tok) : closes (toksRowsTail rs ++ .rb :: rest) := by
  cases rs <;> simp [toksRowsTail, closes]

mutual
theorem main : ∀ e : PT, WP e = true → G e ∧ (6 ≤ lvl e → U e) ∧ (7 ≤ lvl e → Q e)
  | .num t, hw => atom_main _ hw rfl rfl (fun rest F => by simp [toks, pPrimary])
  | .str t, hw => atom_main _ hw rfl rfl (fun rest F => by simp [toks, pPrimary])
  | .bool t, hw => atom_main _ hw rfl rfl (fun rest F => by simp [toks, pPrimary])
  | .name t, hw => atom_main _ hw rfl rfl (fun rest F => by simp [toks, pPrimary])
  | .empty, hw => by simp [WP] at hw
  | .paren [], hw => by simp [WP] at hw
  | .paren (e :: es), hw => by
    have hw' : WP e = true ∧ WPs es = true := by
      simp only [WP, List.isEmpty_cons, Bool.not_false, Bool.true_and] at hw; exact wps_cons hw
    have he := main e hw'.1
    have hes := mainItems es hw'.2
    refine prim_main _ hw rfl ?_
    intro rest F hF
    have hlen : (toks (.paren (e :: es))).length = (toks e).length + (toksTail es).length + 2 := by
      simp [toks, toksSeq]; omega
    rw [hlen] at hF
    obtain ⟨F0, rfl⟩ : ∃ F0, F = F0 + 1 := ⟨F - 1, by omega⟩
    have e1 : toks (.paren (e :: es)) ++ rest = .lp :: (toks e ++ (toksTail es ++ .rp :: rest)) := by
      simp [toks, toksSeq]
    rw [e1]
    simp only [pPrimary]
    rw [T_of_G he.1 1 (one_le_lvl e hw'.1) _ (stop_tail_closes 1 es (.rp :: rest) trivial) F0 (by omega)]
    simp only []
    rw [hes (.rp :: rest) trivial F0 (by omega)]
    rfl
  | .call f [], hw => by
    refine prim_main _ hw rfl ?_
    intro rest F hF
    have hlen : (toks (.call f [])).length = 2 := by simp [toks, toksSeq]
    rw [hlen] at hF
    obtain ⟨F0, rfl⟩ : ∃ F0, F = F0 + 2 := ⟨F - 2, by omega⟩
    have e1 : toks (.call f []) ++ rest = .fn f :: .rp :: rest := by simp [toks, toksSeq]
    rw [e1]
    simp [pPrimary, pArg, argEnds, pArgsTail, normArgs, isEmpty]
  | .call f (a :: tl), hw => by
    have hw' : ¬ (tl = [] ∧ isEmpty a = true) ∧ (isEmpty a = true ∨ WP a = true) ∧ WPArgs tl = true := by
      simp only [WP, WPLone, WPArgs, Bool.and_eq_true, Bool.not_eq_true', Bool.or_eq_true] at hw
      refine ⟨?_, hw.2.1, hw.2.2⟩
      rintro ⟨h1, h2⟩
      subst h1
      simp [h2] at hw
    have has := mainArgs tl hw'.2.2
    refine prim_main _ hw rfl ?_
    intro rest F hF
    have hlen : (toks (.call f (a :: tl))).length = (toks a).length + (toksTail tl).length + 2 := by
      simp [toks, toksSeq]; omega
    rw [hlen] at hF
    obtain ⟨F0, rfl⟩ : ∃ F0, F = F0 + 2 := ⟨F - 2, by omega⟩
    have e1 : toks (.call f (a :: tl)) ++ rest = .fn f :: (toks a ++ (toksTail tl ++ .rp :: rest)) := by
      simp [toks, toksSeq]
    rw [e1]
    simp only [pPrimary]
    have hnorm : normArgs (a :: tl) = a :: tl := by
      cases tl with
      | nil =>
        have : isEmpty a = false := by
          cases h : isEmpty a with
          | false => rfl
          | true => exact absurd ⟨rfl, h⟩ hw'.1
        simp [normArgs, this]
      | cons b bs => simp [normArgs]
    have harg : pArg (F0 + 1) (toks a ++ (toksTail tl ++ .rp :: rest)) = some (a, toksTail tl ++ .rp :: rest) := by
      rcases hw'.2.1 with hemp | hwa
      · cases a <;> simp [isEmpty] at hemp
        simp [toks, pArg, argEnds_tail_rp]
      · have ha := main a hwa
        simp only [pArg, argEnds_of_expr ((starts a hwa _).1), Bool.false_eq_true, if_false]
        have hst : stop 1 (toksTail tl ++ .rp :: rest) := stop_tail_closes 1 tl (.rp :: rest) trivial
        exact T_of_G ha.1 1 (one_le_lvl a hwa) _ hst F0 (by omega)
    rw [harg]
    simp only []
    rw [has rest (F0 + 1) (by omega)]
    simp only [hnorm]
    rfl
  | .arr [], hw => by simp [WP] at hw
  | .arr ([] :: rs), hw => by simp [WP, WPRows] at hw
  | .arr ((e :: es) :: rs), hw => by
    have hw' : WP e = true ∧ WPs es = true ∧ WPRows rs = true := by
      simp only [WP, WPRows, List.isEmpty_cons, Bool.not_false, Bool.true_and, Bool.and_eq_true] at hw
      exact ⟨(wps_cons hw.1).1, (wps_cons hw.1).2, hw.2⟩
    have he := main e hw'.1
    have hes := mainItems es hw'.2.1
    have hrs := mainRows rs hw'.2.2
    refine prim_main _ hw rfl ?_
    intro rest F hF
    have hlen : (toks (.arr ((e :: es) :: rs))).length
        = (toks e).length + (toksTail es).length + (toksRowsTail rs).length + 2 := by
      simp [toks, toksRows, toksSeq]; omega
    rw [hlen] at hF
    obtain ⟨F0, rfl⟩ : ∃ F0, F = F0 + 1 := ⟨F - 1, by omega⟩
    have e1 : toks (.arr ((e :: es) :: rs)) ++ rest
        = .lb :: (toks e ++ (toksTail es ++ (toksRowsTail rs ++ .rb :: rest))) := by
      simp [toks, toksRows, toksSeq]
    rw [e1]
    simp only [pPrimary]
    have hcl := closes_rowsTail rs rest
    rw [T_of_G he.1 1 (one_le_lvl e hw'.1) _ (stop_tail_closes 1 es _ hcl) F0 (by omega)]
    simp only []
    rw [hes _ hcl F0 (by omega)]
    simp only []
    rw [hrs rest F0 (by omega)]
    rfl
  | .pct x, hw => by
    have hw' : WP x = true ∧ 7 ≤ lvl x := by simpa [WP] using hw
    have hx := main x hw'.1
    have hq : Q (.pct x) := by
      intro rest F hF
      have hlen : (toks (.pct x)).length = (toks x).length + 1 := by simp [toks]
      rw [hlen] at hF
      have := hx.2.2 hw'.2 (.pct :: rest) F (by omega)
      have e1 : toks (.pct x) ++ rest = toks x ++ .pct :: rest := by simp [toks]
      rw [e1, this]
      simp [pPostfix]
    have hu : U (.pct x) := U_of_Q hw (by simp [lvl]) hq
    exact ⟨G_of_U hu, fun _ => hu, fun _ => hq⟩
  | .neg x, hw => by
    have hw' : WP x = true ∧ 6 ≤ lvl x := by simpa [WP] using hw
    have hx := main x hw'.1
    have hu : U (.neg x) := by
      intro rest hr F hF
      have hlen : (toks (.neg x)).length = (toks x).length + 1 := by simp [toks]
      rw [hlen] at hF
      obtain ⟨F0, rfl⟩ : ∃ F0, F = F0 + 1 := ⟨F - 1, by omega⟩
      have e1 : toks (.neg x) ++ rest = .op .sub :: (toks x ++ rest) := by simp [toks]
      rw [e1, pUnary_succ]
      simp only [negTail]
      rw [hx.2.1 hw'.2 rest hr F0 (by omega)]
    exact ⟨G_of_U hu, fun _ => hu, fun h => by simp [lvl] at h⟩
  | .bin o l r, hw => by
    have hw' : ((WP l = true ∧ WP r = true) ∧ prec o ≤ lvl l) ∧ prec o < lvl r := by
      simpa [WP] using hw
    obtain ⟨⟨⟨hwl, hwr⟩, hll⟩, hlr⟩ := hw'
    have hl := main l hwl
    have hr := main r hwr
    refine ⟨?_, fun h => ?_, fun h => ?_⟩
    · intro m hm rest hok F v hloop F' hF'
      simp only [lvl] at hm hok
      have hlen : (toks (.bin o l r)).length = (toks l).length + (toks r).length + 1 := by
        simp [toks]; omega
      rw [hlen] at hF'
      have hF1 : 1 ≤ F := by
        cases F with
        | zero => simp [pLoop] at hloop
        | succ k => omega
      have h2 := T_of_G hr.1 (prec o + 1) (by omega) rest (stop_of_okFollow rest hok)
      have hstep : pLoop (F + 4 * (toks r).length + 3) m l (.op o :: (toks r ++ rest)) = some v := by
        have : F + 4 * (toks r).length + 3 = (F + 4 * (toks r).length + 2) + 1 := by omega
        rw [this]
        simp only [pLoop, hm, if_true]
        rw [h2 _ (by omega)]
        exact (mono (by omega)).lo _ _ _ _ hloop
      have hokl : okFollow (lvl l) (.op o :: (toks r ++ rest)) := by simp only [okFollow]; exact hll
      have := hl.1 m (by omega) _ hokl _ v hstep F' (by omega)
      have e1 : toks (.bin o l r) ++ rest = toks l ++ .op o :: (toks r ++ rest) := by simp [toks]
      rw [e1]; exact this
    · simp only [lvl] at h; have := prec_le_five o; omega
    · simp only [lvl] at h; have := prec_le_five o; omega
theorem mainItems : ∀ es : List PT, WPs es = true → IT es
  | [], _ => by
    intro rest hc F hF
    obtain ⟨F0, rfl⟩ : ∃ F0, F = F0 + 1 := ⟨F - 1, by omega⟩
    simpa [toksTail] using pItemsTail_closes F0 rest hc
  | e :: es, hw => by
    have hw' := wps_cons hw
    have he := main e hw'.1
    have hes := mainItems es hw'.2
    intro rest hc F hF
    have hlen : (toksTail (e :: es)).length = (toks e).length + (toksTail es).length + 1 := by
      simp [toksTail]
    rw [hlen] at hF
    obtain ⟨F0, rfl⟩ : ∃ F0, F = F0 + 1 := ⟨F - 1, by omega⟩
    have e1 : toksTail (e :: es) ++ rest = .comma :: (toks e ++ (toksTail es ++ rest)) := by simp [toksTail]
    rw [e1]
    simp only [pItemsTail]
    rw [T_of_G he.1 1 (one_le_lvl e hw'.1) _ (stop_tail_closes 1 es _ hc) F0 (by omega)]
    simp only []
    rw [hes rest hc F0 (by omega)]
theorem mainArgs : ∀ args : List PT, WPArgs args = true → AT args
  | [], _ => by
    intro rest F hF
    obtain ⟨F0, rfl⟩ : ∃ F0, F = F0 + 1 := ⟨F - 1, by omega⟩
    simp [toksTail, pArgsTail]
  | a :: tl, hw => by
    have hw' : (isEmpty a = true ∨ WP a = true) ∧ WPArgs tl = true := by
      simpa [WPArgs] using hw
    have has := mainArgs tl hw'.2
    intro rest F hF
    have hlen : (toksTail (a :: tl)).length = (toks a).length + (toksTail tl).length + 1 := by
      simp [toksTail]
    rw [hlen] at hF
    obtain ⟨F0, rfl⟩ : ∃ F0, F = F0 + 2 := ⟨F - 2, by omega⟩
    have e1 : toksTail (a :: tl) ++ .rp :: rest = .comma :: (toks a ++ (toksTail tl ++ .rp :: rest)) := by
      simp [toksTail]
    rw [e1]
    simp only [pArgsTail]
    have harg : pArg (F0 + 1) (toks a ++ (toksTail tl ++ .rp :: rest)) = some (a, toksTail tl ++ .rp :: rest) := by
      rcases hw'.1 with hemp | hwa
      · cases a <;> simp [isEmpty] at hemp
        simp [toks, pArg, argEnds_tail_rp]
      · have ha := main a hwa
        simp only [pArg, argEnds_of_expr ((starts a hwa _).1), Bool.false_eq_true, if_false]
        have hst : stop 1 (toksTail tl ++ .rp :: rest) := stop_tail_closes 1 tl (.rp :: rest) trivial
        exact T_of_G ha.1 1 (one_le_lvl a hwa) _ hst F0 (by omega)
    rw [harg]
    simp only []
    rw [has rest (F0 + 1) (by omega)]
theorem mainRows : ∀ rs : List (List PT), WPRows rs = true → RT rs
  | [], _ => by
    intro rest F hF
    obtain ⟨F0, rfl⟩ : ∃ F0, F = F0 + 1 := ⟨F - 1, by omega⟩
    simp [toksRowsTail, pRowsTail]
  | [] :: rs, hw => by simp [WPRows] at hw
  | (e :: es) :: rs, hw => by
    have hw' : WP e = true ∧ WPs es = true ∧ WPRows rs = true := by
      simp only [WPRows, List.isEmpty_cons, Bool.not_false, Bool.true_and, Bool.and_eq_true] at hw
      exact ⟨(wps_cons hw.1).1, (wps_cons hw.1).2, hw.2⟩
    have he := main e hw'.1
    have hes := mainItems es hw'.2.1
    have hrs := mainRows rs hw'.2.2
    intro rest F hF
    have hlen : (toksRowsTail ((e :: es) :: rs)).length
        = (toks e).length + (toksTail es).length + (toksRowsTail rs).length + 1 := by
      simp [toksRowsTail, toksSeq]; omega
    rw [hlen] at hF
    obtain ⟨F0, rfl⟩ : ∃ F0, F = F0 + 1 := ⟨F - 1, by omega⟩
    have e1 : toksRowsTail ((e :: es) :: rs) ++ .rb :: rest
        = .semi :: (toks e ++ (toksTail es ++ (toksRowsTail rs ++ .rb :: rest))) := by
      simp [toksRowsTail, toksSeq]
    rw [e1]
    simp only [pRowsTail]
    have hcl := closes_rowsTail rs rest
    rw [T_of_G he.1 1 (one_le_lvl e hw'.1) _ (stop_tail_closes 1 es _ hcl) F0 (by omega)]
    simp only []
    rw [hes _ hcl F0 (by omega)]
    simp only []
    rw [hrs rest F0 (by omega)]
end

/-- every well-parenthesised tree is read back from its token stream, by `parseToks` (whose fuel,
    four units per token, always suffices). -/
theorem parseToks_toks (e : PT) (hw : WP e = true) : parseToks (toks e) = some e := by
  have := T_of_G (main e hw).1 1 (one_le_lvl e hw) [] trivial (4 * (toks e).length + 3) (Nat.le_refl _)
  simp only [List.append_nil] at this
  simp [parseToks, parse, this]

/-- … and by `parse` with any larger fuel. -/
theorem parse_toks (e : PT) (hw : WP e = true) (F : Nat) (hF : 4 * (toks e).length + 3 ≤ F) :
    parse F (toks e) = some e := by
  have := T_of_G (main e hw).1 1 (one_le_lvl e hw) [] trivial F hF
  simp only [List.append_nil] at this
  simp [parse, this]

end NumbersModel.Formula.Parse
