/-
The flags-driven field walk of `Cell._from_storage` as `harness/py2lean.py` regenerates it from `cell.py` on every check run
(`Gen/TrCellRec.lean`: version check, `flags`, the nineteen `if flags & mask:` blocks in source order, Python ints and slices)
against the hand-written model (`CellRecord.decodeFields` behind `CellRecord.fieldsView`), for ALL buffers.  One block at a
time: each `if flags & mask:` block is the model's `rd` / `skp` step at the same offset.
-/
import NumbersModel.Gen.TrCellRec
import NumbersModel.Lemmas.Struct
import NumbersModel.Lemmas.PySlice

set_option linter.unusedSimpArgs false
namespace NumbersModel.TrCellRec
open NumbersModel NumbersModel.CellRecord NumbersModel.PySliceLemmas

/-! ### `flags & mask` on a signed 32-bit value is the bit of its unsigned view -/

theorem two_pow_and (k n : Nat) : 2 ^ k &&& n = if n.testBit k then 2 ^ k else 0 := by
  apply Nat.eq_of_testBit_eq
  intro i
  rw [Nat.testBit_and, Nat.testBit_two_pow]
  by_cases hki : k = i
  · subst hki
    cases h : n.testBit k <;> simp [Nat.testBit_two_pow_self]
  · cases h : n.testBit k <;> simp [hki, Nat.testBit_two_pow]

theorem and_two_pow_ne_zero (k n : Nat) : (n &&& 2 ^ k != 0) = n.testBit k := by
  rw [Nat.and_comm, two_pow_and]
  have hp : 2 ^ k ≠ 0 := Nat.pos_iff_ne_zero.mp (Nat.two_pow_pos k)
  cases h : n.testBit k <;> simp [hp]

theorem unsigned_view (u : Nat) (hu : u < 4294967296) : ((toSigned32 u) % 4294967296).toNat = u := by
  unfold toSigned32
  split <;> omega

/-- the test `flags & 2^k` of the source on the signed `flags`, the model's `hasFlag` on the unsigned view -/
theorem flag_eq (u : Nat) (hu : u < 4294967296) (m k : Nat) (hm : m = 2 ^ k) (hk : k < 32) :
    decide (PyT.bitAnd (toSigned32 u) (m : Int) ≠ 0) = hasFlag (((toSigned32 u) % 4294967296).toNat) m := by
  rw [unsigned_view u hu]
  subst hm
  unfold hasFlag
  rw [and_two_pow_ne_zero]
  unfold toSigned32
  by_cases hge : u ≥ 2147483648
  · simp only [hge, if_true]
    have hneg : (u : Int) - 4294967296 = Int.negSucc (2 ^ 32 - (u + 1)) := by
      rw [Int.negSucc_eq]
      have : (2 : Nat) ^ 32 = 4294967296 := by decide
      omega
    rw [hneg]
    show decide (((2 ^ k - (2 ^ k &&& (2 ^ 32 - (u + 1))) : Nat) : Int) ≠ 0) = u.testBit k
    rw [two_pow_and, Nat.testBit_two_pow_sub_succ (by simpa using hu)]
    have hp : 2 ^ k ≠ 0 := Nat.pos_iff_ne_zero.mp (Nat.two_pow_pos k)
    cases h : u.testBit k with
    | false => simp [hk]
    | true =>
      have hpi : ¬ ((2 : Int) ^ k = 0) := by
        have := Int.pow_pos (n := 2) (m := k) (by omega)
        omega
      simp [hk]
      first | exact hp | exact hpi
  · simp only [hge, if_false]
    show decide (((u &&& 2 ^ k : Nat) : Int) ≠ 0) = u.testBit k
    rw [← and_two_pow_ne_zero]
    cases h : (u &&& 2 ^ k) with
    | zero => simp
    | succ n => simp; omega

/-! ### one `if flags & mask:` block = one step of the model's offset walk -/

theorem slice_field (buf : Bytes) (off w : Nat) :
    pySlice buf (some (off : Int)) (some ((off : Int) + (w : Int))) = bslice buf off w := by
  rw [slice_mid _ _ _ (by omega) (by omega)]
  unfold bslice
  have h1 : ((off : Int) + (w : Int)).toNat - ((off : Int)).toNat = w := by omega
  have h2 : ((off : Int)).toNat = off := by omega
  rw [h1, h2]

/-- an id field: `if flags & mask: storage_flags._x_id = unpack("<i", buffer[offset:offset + 4])[0]; offset += 4` -/
theorem id_step {β} (p : Bool) (buf : Bytes) (off : Nat) (kT : Option Int × Int → PyM β) (kM : Option Bytes × Nat → PyM β)
    (h : ∀ (b : Option Bytes) (o : Nat), kT (b.map i32OfBytes, (o : Int)) = kM (b, o)) :
    ((if p then (do
        let t ← unpackI32 (pySlice buf (some (off : Int)) (some ((off : Int) + (4 : Int))))
        pure (some t, (off : Int) + (4 : Int))) else (do pure (none, (off : Int))) : PyM (Option Int × Int)) >>= kT)
    = (rd .StructError 4 p buf off >>= kM) := by
  have hs : pySlice buf (some (off : Int)) (some ((off : Int) + (4 : Int))) = bslice buf off 4 := slice_field buf off 4
  rw [hs]
  unfold rd unpackI32
  cases p with
  | false => simpa [bind, Except.bind, pure, Except.pure] using h none off
  | true =>
    simp only [if_true]
    by_cases hl : (bslice buf off 4).length = 4
    · have h' := h (some (bslice buf off 4)) (off + 4)
      have hc : ((off + 4 : Nat) : Int) = (off : Int) + 4 := by omega
      rw [hc] at h'
      simpa [hl, bind, Except.bind, pure, Except.pure] using h'
    · simp [hl, bind, Except.bind]

/-- the decimal128 payload: `if flags & 0x1: d128 = _unpack_decimal128(buffer[offset:offset + 16]); offset += 16` -/
theorem d128_step {β} (p : Bool) (buf : Bytes) (off : Nat) (kT : Option Bytes × Int → PyM β) (kM : Option Bytes × Nat → PyM β)
    (h : ∀ (b : Option Bytes) (o : Nat), kT (b, (o : Int)) = kM (b, o)) :
    ((if p then (do
        let t ← readD128 (pySlice buf (some (off : Int)) (some ((off : Int) + (16 : Int))))
        pure (some t, (off : Int) + (16 : Int))) else (do pure (none, (off : Int))) : PyM (Option Bytes × Int)) >>= kT)
    = (rd .IndexError 16 p buf off >>= kM) := by
  have hs : pySlice buf (some (off : Int)) (some ((off : Int) + (16 : Int))) = bslice buf off 16 := slice_field buf off 16
  rw [hs]
  unfold rd readD128
  cases p with
  | false => simpa [bind, Except.bind, pure, Except.pure] using h none off
  | true =>
    simp only [if_true]
    by_cases hl : (bslice buf off 16).length = 16
    · have h' := h (some (bslice buf off 16)) (off + 16)
      have hc : ((off + 16 : Nat) : Int) = (off : Int) + 16 := by omega
      rw [hc] at h'
      simpa [hl, bind, Except.bind, pure, Except.pure] using h'
    · simp [hl, bind, Except.bind]

/-- a double payload: `if flags & mask: x = unpack("<d", buffer[offset:offset + 8])[0]; offset += 8` -/
theorem double_step {β} (p : Bool) (buf : Bytes) (off : Nat) (kT : Option Bytes × Int → PyM β) (kM : Option Bytes × Nat → PyM β)
    (h : ∀ (b : Option Bytes) (o : Nat), kT (b, (o : Int)) = kM (b, o)) :
    ((if p then (do
        let t ← readDouble (pySlice buf (some (off : Int)) (some ((off : Int) + (8 : Int))))
        pure (some t, (off : Int) + (8 : Int))) else (do pure (none, (off : Int))) : PyM (Option Bytes × Int)) >>= kT)
    = (rd .StructError 8 p buf off >>= kM) := by
  have hs : pySlice buf (some (off : Int)) (some ((off : Int) + (8 : Int))) = bslice buf off 8 := slice_field buf off 8
  rw [hs]
  unfold rd readDouble
  cases p with
  | false => simpa [bind, Except.bind, pure, Except.pure] using h none off
  | true =>
    simp only [if_true]
    by_cases hl : (bslice buf off 8).length = 8
    · have h' := h (some (bslice buf off 8)) (off + 8)
      have hc : ((off + 8 : Nat) : Int) = (off : Int) + 8 := by omega
      rw [hc] at h'
      simpa [hl, bind, Except.bind, pure, Except.pure] using h'
    · simp [hl, bind, Except.bind]

/-- a field that is not interpreted: `if flags & mask: offset += 4` -/
theorem skip_step {β} (p : Bool) (off : Nat) (kT : Int → PyM β) (kM : Nat → PyM β) (h : ∀ (o : Nat), kT (o : Int) = kM o) :
    ((if p then (do pure ((off : Int) + (4 : Int))) else (do pure (off : Int)) : PyM Int) >>= kT) = kM (skp 4 p off) := by
  unfold skp
  cases p with
  | false => simpa [bind, Except.bind, pure, Except.pure] using h off
  | true =>
    have h' := h (off + 4)
    have hc : ((off + 4 : Nat) : Int) = (off : Int) + 4 := by omega
    rw [hc] at h'
    simpa [bind, Except.bind, pure, Except.pure] using h'

theorem unpackI32_range (b : Bytes) (v : Int) (h : unpackI32 b = .ok v) : ∃ u, u < 4294967296 ∧ v = toSigned32 u := by
  unfold unpackI32 at h
  by_cases hl : b.length ≠ 4
  · simp [hl] at h
  · have hl' : b.length = 4 := by omega
    simp only [hl, if_false] at h
    refine ⟨leNat b, ?_, ?_⟩
    · have := leNat_lt b
      rw [hl'] at this
      have h256 : (256 : Nat) ^ 4 = 4294967296 := by decide
      omega
    · cases h; rfl

theorem skip_eq (p : Bool) (off : Nat) :
    ((if p then pure ((off : Int) + (4 : Int)) else pure (off : Int)) : PyM Int) = pure ((skp 4 p off : Nat) : Int) := by
  unfold skp
  cases p with
  | false => rfl
  | true =>
    have hc : ((off + 4 : Nat) : Int) = (off : Int) + 4 := by omega
    simp only [if_true, hc]

theorem ok_bind {α β} (a : α) (f : α → PyM β) : ((Except.ok a : PyM α) >>= f) = f a := rfl

/-- the whole field walk, for every buffer -/
theorem from_storage_fields_eq_model (buf : Bytes) :
    Gen.T.from_storage_fields readD128 readDouble buf = fieldsView buf := by
  unfold Gen.T.from_storage_fields fieldsView decodeFields PyT.byteAt
  dsimp only []
  cases hv : pyIndex buf 0 with
  | error e => rfl
  | ok v =>
    simp only [Except.map, ok_bind]
    by_cases h5 : v = 5
    · subst h5
      have hs : pySlice buf (some (8 : Int)) (some (12 : Int)) = bslice buf 8 4 := slice_field buf 8 4
      have hd : ¬ (((5 : UInt8).toNat : Int) ≠ 5) := by decide
      simp only [hd, decide_false, Bool.false_eq_true, if_false, hs, ne_eq, not_true_eq_false, pure_bind]
      cases hf : unpackI32 (bslice buf 8 4) with
      | error e => rfl
      | ok flags =>
        obtain ⟨u, hu, rfl⟩ := unpackI32_range _ _ hf
        simp only [ok_bind]
        have hm1 : decide (PyT.bitAnd (toSigned32 u) (1 : Int) ≠ 0) = hasFlag (((toSigned32 u) % 4294967296).toNat) 1 :=
          flag_eq u hu 1 0 (by decide) (by omega)
        have hm2 : decide (PyT.bitAnd (toSigned32 u) (2 : Int) ≠ 0) = hasFlag (((toSigned32 u) % 4294967296).toNat) 2 :=
          flag_eq u hu 2 1 (by decide) (by omega)
        have hm4 : decide (PyT.bitAnd (toSigned32 u) (4 : Int) ≠ 0) = hasFlag (((toSigned32 u) % 4294967296).toNat) 4 :=
          flag_eq u hu 4 2 (by decide) (by omega)
        have hm8 : decide (PyT.bitAnd (toSigned32 u) (8 : Int) ≠ 0) = hasFlag (((toSigned32 u) % 4294967296).toNat) 8 :=
          flag_eq u hu 8 3 (by decide) (by omega)
        have hm16 : decide (PyT.bitAnd (toSigned32 u) (16 : Int) ≠ 0) = hasFlag (((toSigned32 u) % 4294967296).toNat) 16 :=
          flag_eq u hu 16 4 (by decide) (by omega)
        have hm32 : decide (PyT.bitAnd (toSigned32 u) (32 : Int) ≠ 0) = hasFlag (((toSigned32 u) % 4294967296).toNat) 32 :=
          flag_eq u hu 32 5 (by decide) (by omega)
        have hm64 : decide (PyT.bitAnd (toSigned32 u) (64 : Int) ≠ 0) = hasFlag (((toSigned32 u) % 4294967296).toNat) 64 :=
          flag_eq u hu 64 6 (by decide) (by omega)
        have hm128 : decide (PyT.bitAnd (toSigned32 u) (128 : Int) ≠ 0) = hasFlag (((toSigned32 u) % 4294967296).toNat) 128 :=
          flag_eq u hu 128 7 (by decide) (by omega)
        have hm256 : decide (PyT.bitAnd (toSigned32 u) (256 : Int) ≠ 0) = hasFlag (((toSigned32 u) % 4294967296).toNat) 256 :=
          flag_eq u hu 256 8 (by decide) (by omega)
        have hm512 : decide (PyT.bitAnd (toSigned32 u) (512 : Int) ≠ 0) = hasFlag (((toSigned32 u) % 4294967296).toNat) 512 :=
          flag_eq u hu 512 9 (by decide) (by omega)
        have hm1024 : decide (PyT.bitAnd (toSigned32 u) (1024 : Int) ≠ 0) = hasFlag (((toSigned32 u) % 4294967296).toNat) 1024 :=
          flag_eq u hu 1024 10 (by decide) (by omega)
        have hm2048 : decide (PyT.bitAnd (toSigned32 u) (2048 : Int) ≠ 0) = hasFlag (((toSigned32 u) % 4294967296).toNat) 2048 :=
          flag_eq u hu 2048 11 (by decide) (by omega)
        have hm4096 : decide (PyT.bitAnd (toSigned32 u) (4096 : Int) ≠ 0) = hasFlag (((toSigned32 u) % 4294967296).toNat) 4096 :=
          flag_eq u hu 4096 12 (by decide) (by omega)
        have hm8192 : decide (PyT.bitAnd (toSigned32 u) (8192 : Int) ≠ 0) = hasFlag (((toSigned32 u) % 4294967296).toNat) 8192 :=
          flag_eq u hu 8192 13 (by decide) (by omega)
        have hm16384 : decide (PyT.bitAnd (toSigned32 u) (16384 : Int) ≠ 0) = hasFlag (((toSigned32 u) % 4294967296).toNat) 16384 :=
          flag_eq u hu 16384 14 (by decide) (by omega)
        have hm32768 : decide (PyT.bitAnd (toSigned32 u) (32768 : Int) ≠ 0) = hasFlag (((toSigned32 u) % 4294967296).toNat) 32768 :=
          flag_eq u hu 32768 15 (by decide) (by omega)
        have hm65536 : decide (PyT.bitAnd (toSigned32 u) (65536 : Int) ≠ 0) = hasFlag (((toSigned32 u) % 4294967296).toNat) 65536 :=
          flag_eq u hu 65536 16 (by decide) (by omega)
        have hm131072 : decide (PyT.bitAnd (toSigned32 u) (131072 : Int) ≠ 0) = hasFlag (((toSigned32 u) % 4294967296).toNat) 131072 :=
          flag_eq u hu 131072 17 (by decide) (by omega)
        have hm262144 : decide (PyT.bitAnd (toSigned32 u) (262144 : Int) ≠ 0) = hasFlag (((toSigned32 u) % 4294967296).toNat) 262144 :=
          flag_eq u hu 262144 18 (by decide) (by omega)
        simp only [hm1, hm2, hm4, hm8, hm16, hm32, hm64, hm128, hm256, hm512, hm1024, hm2048, hm4096, hm8192, hm16384, hm32768, hm65536, hm131072, hm262144]
        simp only [bind_assoc, pure_bind]
        apply d128_step (off := 12); intro b o; dsimp only []
        apply double_step; intro b o; dsimp only []
        apply double_step; intro b o; dsimp only []
        apply id_step; intro b o; dsimp only []
        apply id_step; intro b o; dsimp only []
        apply id_step; intro b o; dsimp only []
        apply id_step; intro b o; dsimp only []
        rw [skip_eq]; simp only [pure_bind]
        rw [skip_eq]; simp only [pure_bind]
        apply id_step; intro b o; dsimp only []
        apply id_step; intro b o; dsimp only []
        rw [skip_eq]; simp only [pure_bind]
        apply id_step; intro b o; dsimp only []
        apply id_step; intro b o; dsimp only []
        apply id_step; intro b o; dsimp only []
        apply id_step; intro b o; dsimp only []
        apply id_step; intro b o; dsimp only []
        apply id_step; intro b o; dsimp only []
        apply id_step; intro b o; dsimp only []
        rfl
    · have hd : ((v.toNat : Int) ≠ 5) := by
        intro h
        apply h5
        have : v.toNat = (5 : UInt8).toNat := by simpa using (by omega : v.toNat = 5)
        exact UInt8.toNat_inj.mp this
      simp only [hd, h5, decide_true, if_true, ne_eq, not_false_eq_true]
      rfl

theorem dispatch_payloads (ctype : UInt8) (r r' : Raw) (hs : r.seconds = r'.seconds) (hd : r.double = r'.double) :
    dispatch ctype r = dispatch ctype r' := by
  unfold dispatch
  rw [hs, hd]

/-- the model's decoder IS the field walk followed by the dispatch: `decode buf = fieldsView buf >>= finishDecode buf` -/
theorem decode_eq_walk_then_finish (buf : Bytes) : decode buf = fieldsView buf >>= finishDecode buf := by
  unfold decode decodeWith fieldsView
  simp only [bind_assoc]
  cases pyIndex buf 0 with
  | error e => rfl
  | ok v =>
    simp only [ok_bind]
    by_cases h5 : v = 5
    · subst h5
      simp only [ne_eq, not_true_eq_false, if_false, pure_bind]
      cases unpackI32 (bslice buf 8 4) with
      | error e => rfl
      | ok flags =>
        simp only [ok_bind]
        cases hr : decodeFields (flags % 4294967296).toNat buf with
        | error e => rfl
        | ok raw =>
          simp only [ok_bind, pure_bind, finishDecode]
          cases pyIndex buf 1 with
          | error e => rfl
          | ok ctype =>
            simp only [ok_bind]
            rw [dispatch_payloads ctype _ raw rfl rfl]
            rfl
    · simp only [h5, ne_eq, not_false_eq_true, if_true]
      rfl

/-- `Cell._from_storage` up to `_extras`, with the field walk AS TRANSLATED FROM THE SOURCE: the model's `decode` -/
theorem from_storage_eq_model (buf : Bytes) :
    Gen.T.from_storage_fields readD128 readDouble buf >>= finishDecode buf = decode buf := by
  rw [from_storage_fields_eq_model, decode_eq_walk_then_finish]

end NumbersModel.TrCellRec
