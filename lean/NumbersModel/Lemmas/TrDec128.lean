/-
Equivalence of the integer part of `_unpack_decimal128` as `harness/py2lean.py` regenerates it from `cell.py` on every
check run (`Gen/TrDec128.lean`: byte reads, `& << >> |`, the `for i in range(13, -1, -1)` loop, the sign test — everything
before the final `float(f"{mantissa}E{exp}")`) with the model `Decimal128.unpack` the C01 theorems are stated about.
-/
import NumbersModel.Gen.TrDec128
import NumbersModel.Model.Decimal128
import NumbersModel.Lemmas.Decimal128

namespace NumbersModel.Translated
open NumbersModel NumbersModel.Gen.T NumbersModel.Decimal128

theorem bitAnd_nat (a b : Nat) (bi : Int) (hb : bi = (b : Int)) :
    PyT.bitAnd (a : Int) bi = ((a &&& b : Nat) : Int) := by
  subst hb; rfl

theorem bitOr_nat (a b : Nat) : PyT.bitOr (a : Int) (b : Int) = ((a ||| b : Nat) : Int) := rfl

theorem shl_nat (a k : Nat) (ki : Int) (hk : ki = (k : Int)) : PyT.shl (a : Int) ki = .ok ((a <<< k : Nat) : Int) := by
  subst hk
  have : ¬ ((k : Int) < 0) := by omega
  simp only [PyT.shl, this, if_false, Int.toNat_natCast, Nat.shiftLeft_eq]
  congr 1

theorem shr_nat (a k : Nat) (ki : Int) (hk : ki = (k : Int)) : PyT.shr (a : Int) ki = .ok ((a >>> k : Nat) : Int) := by
  subst hk
  have : ¬ ((k : Int) < 0) := by omega
  simp only [PyT.shr, this, if_false, Int.toNat_natCast]
  rfl

theorem byteAt_nat (l : Bytes) (i : Nat) (ii : Int) (hi : ii = (i : Int)) (h : i < l.length) :
    PyT.byteAt l ii = .ok (l[i].toNat : Int) := by
  subst hi
  simp only [PyT.byteAt, pyIndex_nat l i h, Except.map]

theorem unpack_short (buf : Bytes) (h : buf.length < 16) : Decimal128.unpack buf = .error .IndexError := by
  have h15 : pyIndex buf 15 = .error .IndexError := by
    unfold pyIndex
    have h1 : ¬ ((15 : Int) < 0) := by decide
    simp only [h1, if_false]
    have h2 : (False ∨ (15 : Int) ≥ (buf.length : Int)) := Or.inr (by omega)
    simp only [h2, if_true]
  simp only [Decimal128.unpack, h15, bind, Except.bind]

/-- what the model's record looks like to the final `float(f"{mantissa}E{exp}")`: sign flag, signed mantissa, exponent -/
def decView (d : Dec) : Int × Int × Int :=
  ((if d.sign then 1 else 0), (if d.sign then -(d.coeff : Int) else (d.coeff : Int)), d.exp)

theorem unpack_decimal128_eq_model (buf : Bytes) :
    unpack_decimal128 buf = (Decimal128.unpack buf).map decView := by
  rcases buf with _ | ⟨b0, _ | ⟨b1, _ | ⟨b2, _ | ⟨b3, _ | ⟨b4, _ | ⟨b5, _ | ⟨b6, _ | ⟨b7, _ | ⟨b8, _ | ⟨b9, _ | ⟨b10, _ |
    ⟨b11, _ | ⟨b12, _ | ⟨b13, _ | ⟨b14, _ | ⟨b15, rest⟩⟩⟩⟩⟩⟩⟩⟩⟩⟩⟩⟩⟩⟩⟩⟩
  case cons.cons.cons.cons.cons.cons.cons.cons.cons.cons.cons.cons.cons.cons.cons.cons =>
    have i0 : PyT.byteAt (b0 :: b1 :: b2 :: b3 :: b4 :: b5 :: b6 :: b7 :: b8 :: b9 :: b10 :: b11 :: b12 :: b13 :: b14 :: b15 :: rest) 0 = .ok (b0.toNat : Int) := byteAt_nat _ 0 0 rfl (by simp)
    have i1 : PyT.byteAt (b0 :: b1 :: b2 :: b3 :: b4 :: b5 :: b6 :: b7 :: b8 :: b9 :: b10 :: b11 :: b12 :: b13 :: b14 :: b15 :: rest) 1 = .ok (b1.toNat : Int) := byteAt_nat _ 1 1 rfl (by simp)
    have i2 : PyT.byteAt (b0 :: b1 :: b2 :: b3 :: b4 :: b5 :: b6 :: b7 :: b8 :: b9 :: b10 :: b11 :: b12 :: b13 :: b14 :: b15 :: rest) 2 = .ok (b2.toNat : Int) := byteAt_nat _ 2 2 rfl (by simp)
    have i3 : PyT.byteAt (b0 :: b1 :: b2 :: b3 :: b4 :: b5 :: b6 :: b7 :: b8 :: b9 :: b10 :: b11 :: b12 :: b13 :: b14 :: b15 :: rest) 3 = .ok (b3.toNat : Int) := byteAt_nat _ 3 3 rfl (by simp)
    have i4 : PyT.byteAt (b0 :: b1 :: b2 :: b3 :: b4 :: b5 :: b6 :: b7 :: b8 :: b9 :: b10 :: b11 :: b12 :: b13 :: b14 :: b15 :: rest) 4 = .ok (b4.toNat : Int) := byteAt_nat _ 4 4 rfl (by simp)
    have i5 : PyT.byteAt (b0 :: b1 :: b2 :: b3 :: b4 :: b5 :: b6 :: b7 :: b8 :: b9 :: b10 :: b11 :: b12 :: b13 :: b14 :: b15 :: rest) 5 = .ok (b5.toNat : Int) := byteAt_nat _ 5 5 rfl (by simp)
    have i6 : PyT.byteAt (b0 :: b1 :: b2 :: b3 :: b4 :: b5 :: b6 :: b7 :: b8 :: b9 :: b10 :: b11 :: b12 :: b13 :: b14 :: b15 :: rest) 6 = .ok (b6.toNat : Int) := byteAt_nat _ 6 6 rfl (by simp)
    have i7 : PyT.byteAt (b0 :: b1 :: b2 :: b3 :: b4 :: b5 :: b6 :: b7 :: b8 :: b9 :: b10 :: b11 :: b12 :: b13 :: b14 :: b15 :: rest) 7 = .ok (b7.toNat : Int) := byteAt_nat _ 7 7 rfl (by simp)
    have i8 : PyT.byteAt (b0 :: b1 :: b2 :: b3 :: b4 :: b5 :: b6 :: b7 :: b8 :: b9 :: b10 :: b11 :: b12 :: b13 :: b14 :: b15 :: rest) 8 = .ok (b8.toNat : Int) := byteAt_nat _ 8 8 rfl (by simp)
    have i9 : PyT.byteAt (b0 :: b1 :: b2 :: b3 :: b4 :: b5 :: b6 :: b7 :: b8 :: b9 :: b10 :: b11 :: b12 :: b13 :: b14 :: b15 :: rest) 9 = .ok (b9.toNat : Int) := byteAt_nat _ 9 9 rfl (by simp)
    have i10 : PyT.byteAt (b0 :: b1 :: b2 :: b3 :: b4 :: b5 :: b6 :: b7 :: b8 :: b9 :: b10 :: b11 :: b12 :: b13 :: b14 :: b15 :: rest) 10 = .ok (b10.toNat : Int) := byteAt_nat _ 10 10 rfl (by simp)
    have i11 : PyT.byteAt (b0 :: b1 :: b2 :: b3 :: b4 :: b5 :: b6 :: b7 :: b8 :: b9 :: b10 :: b11 :: b12 :: b13 :: b14 :: b15 :: rest) 11 = .ok (b11.toNat : Int) := byteAt_nat _ 11 11 rfl (by simp)
    have i12 : PyT.byteAt (b0 :: b1 :: b2 :: b3 :: b4 :: b5 :: b6 :: b7 :: b8 :: b9 :: b10 :: b11 :: b12 :: b13 :: b14 :: b15 :: rest) 12 = .ok (b12.toNat : Int) := byteAt_nat _ 12 12 rfl (by simp)
    have i13 : PyT.byteAt (b0 :: b1 :: b2 :: b3 :: b4 :: b5 :: b6 :: b7 :: b8 :: b9 :: b10 :: b11 :: b12 :: b13 :: b14 :: b15 :: rest) 13 = .ok (b13.toNat : Int) := byteAt_nat _ 13 13 rfl (by simp)
    have i14 : PyT.byteAt (b0 :: b1 :: b2 :: b3 :: b4 :: b5 :: b6 :: b7 :: b8 :: b9 :: b10 :: b11 :: b12 :: b13 :: b14 :: b15 :: rest) 14 = .ok (b14.toNat : Int) := byteAt_nat _ 14 14 rfl (by simp)
    have i15 : PyT.byteAt (b0 :: b1 :: b2 :: b3 :: b4 :: b5 :: b6 :: b7 :: b8 :: b9 :: b10 :: b11 :: b12 :: b13 :: b14 :: b15 :: rest) 15 = .ok (b15.toNat : Int) := byteAt_nat _ 15 15 rfl (by simp)
    have hr : PyT.range3 13 (-(1 : Int)) (-(1 : Int)) = .ok [13, 12, 11, 10, 9, 8, 7, 6, 5, 4, 3, 2, 1, 0] := by decide
    have p15 : pyIndex (b0 :: b1 :: b2 :: b3 :: b4 :: b5 :: b6 :: b7 :: b8 :: b9 :: b10 :: b11 :: b12 :: b13 :: b14 :: b15 :: rest) 15 = .ok b15 := pyIndex_nat _ 15 (by simp)
    have p14 : pyIndex (b0 :: b1 :: b2 :: b3 :: b4 :: b5 :: b6 :: b7 :: b8 :: b9 :: b10 :: b11 :: b12 :: b13 :: b14 :: b15 :: rest) 14 = .ok b14 := pyIndex_nat _ 14 (by simp)
    unfold unpack_decimal128 Decimal128.unpack
    simp only [i0, i1, i2, i3, i4, i5, i6, i7, i8, i9, i10, i11, i12, i13, i14, i15, hr, p14, p15, unpack_decimal128.for1,
      bind, Except.bind, pure, Except.pure, bitAnd_nat _ 127 127 rfl, bitAnd_nat _ 1 1 rfl, bitAnd_nat _ 128 128 rfl,
      shl_nat _ 7 7 rfl, shr_nat _ 1 1 rfl, bitOr_nat, Except.map]
    by_cases hs : b15.toNat &&& 128 = 0
    · simp [hs, decView, unpackLoop, Gen.DECIMAL128_BIAS]
    · simp [hs, decView, unpackLoop, Gen.DECIMAL128_BIAS]
  all_goals rfl

end NumbersModel.Translated
