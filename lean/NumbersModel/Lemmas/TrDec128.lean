/-
Equivalence of the integer part of `_unpack_decimal128` as `harness/py2lean.py` regenerates it from `cell.py` on every
check run (`Gen/TrDec128.lean`: byte reads, `& << >> |`, the `for i in range(13, -1, -1)` loop, the sign test — everything
before the final `float(f"{mantissa}E{exp}")`) with the model `Decimal128.unpack` the C01 theorems are stated about.
-/
import NumbersModel.Gen.TrDec128
import NumbersModel.Model.Decimal128
import NumbersModel.Lemmas.Decimal128

namespace NumbersModel.Translated
open NumbersModel NumbersModel.Gen.T NumbersModel.Decimal128

theorem bitAnd_nat (a b : Nat) (bi : Int) (hb : bi = (b : Int)) :
    PyT.bitAnd (a : Int) bi = ((a &&& b : Nat) : Int) := by
  subst hb; rfl

theorem bitOr_nat (a b : Nat) : PyT.bitOr (a : Int) (b : Int) = ((a ||| b : Nat) : Int) := rfl

theorem shl_nat (a k : Nat) (ki : Int) (hk : ki = (k : Int)) : PyT.shl (a : Int) ki = .ok ((a <<< k : Nat) : Int) := by
  subst hk
  have : ¬ ((k : Int) < 0) := by omega
  simp only [PyT.shl, this, if_false, Int.toNat_natCast, Nat.shiftLeft_eq]
  congr 1

theorem shr_nat (a k : Nat) (ki : Int) (hk : ki = (k : Int)) : PyT.shr (a : Int) ki = .ok ((a >>> k : Nat) : Int) := by
  subst hk
  have : ¬ ((k : Int) < 0) := by omega
  simp only [PyT.shr, this, if_false, Int.toNat_natCast]
  rfl

theorem byteAt_nat (l : Bytes) (i : Nat) (ii : Int) (hi : ii = (i : Int)) (h : i < l.length) :
    PyT.byteAt l ii = .ok (l[i].toNat : Int) := by
  subst hi
  simp only [PyT.byteAt, pyIndex_nat l i h, Except.map]

theorem unpack_short (buf : Bytes) (h : buf.length < 16) : Decimal128.unpack buf = .error .IndexError := by
  have h15 : pyIndex buf 15 = .error .IndexError := by
    unfold pyIndex
    have h1 : ¬ ((15 : Int) < 0) := by decide
    simp only [h1, if_false]
    have h2 : (False ∨ (15 : Int) ≥ (buf.length : Int)) := Or.inr (by omega)
    simp only [h2, if_true]
  simp only [Decimal128.unpack, h15, bind, Except.bind]

/-- the `for i in range(13, -1, -1)` loop, one iteration at a time (a changed loop body fails here at once): over any list of
    in-range indices it is the model's `unpackLoop` over the bytes at those indices. -/
theorem unpack_for1 (buf : Bytes) : ∀ (idx : List Nat) (m : Nat), (∀ i ∈ idx, i < buf.length) →
    unpack_decimal128.for1 buf (idx.map (fun (k : Nat) => (k : Int))) (m : Int)
      = .ok ((unpackLoop (idx.map (fun k => buf.getD k 0)) m : Nat) : Int) := by
  intro idx
  induction idx with
  | nil => intro m _; rfl
  | cons i t ih =>
    intro m h
    have hi : i < buf.length := h i (List.mem_cons_self ..)
    simp only [List.map_cons, unpack_decimal128.for1]
    rw [byteAt_nat buf i (i : Int) rfl hi]
    simp only [bind, Except.bind]
    have e : (m : Int) * 256 + (buf[i].toNat : Int) = ((m * 256 + buf[i].toNat : Nat) : Int) := by
      rw [Int.natCast_add, Int.natCast_mul]; rfl
    rw [e, ih _ (fun j hj => h j (List.mem_cons_of_mem _ hj))]
    have hg : buf.getD i 0 = buf[i] := by simp [List.getD, List.getElem?_eq_getElem hi]
    simp only [unpackLoop, hg]

/-- what the model's record looks like to the final `float(f"{mantissa}E{exp}")`: sign flag, signed mantissa, exponent -/
def decView (d : Dec) : Int × Int × Int :=
  ((if d.sign then 1 else 0), (if d.sign then -(d.coeff : Int) else (d.coeff : Int)), d.exp)

theorem unpack_decimal128_eq_model (buf : Bytes) :
    unpack_decimal128 buf = (Decimal128.unpack buf).map decView := by
  rcases buf with _ | ⟨b0, _ | ⟨b1, _ | ⟨b2, _ | ⟨b3, _ | ⟨b4, _ | ⟨b5, _ | ⟨b6, _ | ⟨b7, _ | ⟨b8, _ | ⟨b9, _ | ⟨b10, _ |
    ⟨b11, _ | ⟨b12, _ | ⟨b13, _ | ⟨b14, _ | ⟨b15, rest⟩⟩⟩⟩⟩⟩⟩⟩⟩⟩⟩⟩⟩⟩⟩⟩
  case cons.cons.cons.cons.cons.cons.cons.cons.cons.cons.cons.cons.cons.cons.cons.cons =>
    have i14 : PyT.byteAt (b0 :: b1 :: b2 :: b3 :: b4 :: b5 :: b6 :: b7 :: b8 :: b9 :: b10 :: b11 :: b12 :: b13 :: b14 :: b15 :: rest) 14 = .ok (b14.toNat : Int) := byteAt_nat _ 14 14 rfl (by simp)
    have i15 : PyT.byteAt (b0 :: b1 :: b2 :: b3 :: b4 :: b5 :: b6 :: b7 :: b8 :: b9 :: b10 :: b11 :: b12 :: b13 :: b14 :: b15 :: rest) 15 = .ok (b15.toNat : Int) := byteAt_nat _ 15 15 rfl (by simp)
    have hr : PyT.range3 13 (-(1 : Int)) (-(1 : Int))
        = .ok (([13, 12, 11, 10, 9, 8, 7, 6, 5, 4, 3, 2, 1, 0] : List Nat).map (fun (k : Nat) => (k : Int))) := by decide
    have p15 : pyIndex (b0 :: b1 :: b2 :: b3 :: b4 :: b5 :: b6 :: b7 :: b8 :: b9 :: b10 :: b11 :: b12 :: b13 :: b14 :: b15 :: rest) 15 = .ok b15 := pyIndex_nat _ 15 (by simp)
    have p14 : pyIndex (b0 :: b1 :: b2 :: b3 :: b4 :: b5 :: b6 :: b7 :: b8 :: b9 :: b10 :: b11 :: b12 :: b13 :: b14 :: b15 :: rest) 14 = .ok b14 := pyIndex_nat _ 14 (by simp)
    have hloop := unpack_for1 (b0 :: b1 :: b2 :: b3 :: b4 :: b5 :: b6 :: b7 :: b8 :: b9 :: b10 :: b11 :: b12 :: b13 :: b14 :: b15 :: rest) [13, 12, 11, 10, 9, 8, 7, 6, 5, 4, 3, 2, 1, 0] (b14.toNat &&& 1)
      (by intro i hi; simp only [List.length_cons]; simp only [List.mem_cons, List.not_mem_nil, or_false] at hi; omega)
    have hm : unpackLoop (([13, 12, 11, 10, 9, 8, 7, 6, 5, 4, 3, 2, 1, 0] : List Nat).map (fun k => (b0 :: b1 :: b2 :: b3 :: b4 :: b5 :: b6 :: b7 :: b8 :: b9 :: b10 :: b11 :: b12 :: b13 :: b14 :: b15 :: rest).getD k 0))
        (b14.toNat &&& 1) = unpackLoop (List.take 14 (b0 :: b1 :: b2 :: b3 :: b4 :: b5 :: b6 :: b7 :: b8 :: b9 :: b10 :: b11 :: b12 :: b13 :: b14 :: b15 :: rest)).reverse (b14.toNat &&& 1) := rfl
    rw [hm] at hloop
    unfold unpack_decimal128 Decimal128.unpack
    simp only [i14, i15, hr, p14, p15, bind, Except.bind, pure, Except.pure, bitAnd_nat _ 127 127 rfl, bitAnd_nat _ 1 1 rfl,
      bitAnd_nat _ 128 128 rfl, shl_nat _ 7 7 rfl, shr_nat _ 1 1 rfl, bitOr_nat, Except.map, hloop]
    simp only [decView, Gen.DECIMAL128_BIAS]
    by_cases hs : b15.toNat &&& 128 = 0
    · have d1 : (decide ((((0 : Nat)) : Int) ≠ 0)) = false := by decide
      have d2 : (decide ((0 : Int) = 1)) = false := by decide
      have d3 : ((0 : Nat) != 0) = false := by decide
      simp only [hs, d1, d2, d3, Bool.false_eq_true, if_false]
      rfl
    · have hne : ((b15.toNat &&& 128 : Nat) : Int) ≠ 0 := by omega
      have d1 : (decide (((b15.toNat &&& 128 : Nat) : Int) ≠ 0)) = true := decide_eq_true hne
      have d2 : (decide ((1 : Int) = 1)) = true := by decide
      have d3 : ((b15.toNat &&& 128) != 0) = true := by simpa [bne_iff_ne] using hs
      simp only [d1, d2, d3, if_true]
      rfl
  all_goals rfl

/-! ### `_pack_decimal128` from the decimal triple on -/

/-- `buf[i] |= x` as the source performs it (read the byte, `|`, store) is the model's `orByte`. -/
theorem or_assign (buf : Bytes) (i x : Nat) (ii : Int) (hi : ii = (i : Int)) :
    (do let t ← PyT.byteAt buf ii; PyT.setByte buf ii (PyT.bitOr t (x : Int))) = orByte buf i x := by
  subst hi
  unfold orByte
  by_cases h : i < buf.length
  · have hg : buf[i]? = some buf[i] := List.getElem?_eq_getElem h
    rw [byteAt_nat buf i i rfl h, hg]
    simp only [bind, Except.bind, bitOr_nat, PyT.setByte]
    have h1 : ¬ ((i : Int) < 0) := by omega
    have h2 : ¬ (False ∨ (i : Int) ≥ (buf.length : Int)) := by
      intro hh; rcases hh with hh | hh
      · exact hh
      · omega
    simp only [h1, if_false, h2, Int.toNat_natCast]
    by_cases hv : (buf[i].toNat ||| x) > 255
    · have : (((buf[i].toNat ||| x : Nat) : Int) < 0 ∨ ((buf[i].toNat ||| x : Nat) : Int) > 255) := Or.inr (by omega)
      simp only [this, if_true, hv]
    · have : ¬ (((buf[i].toNat ||| x : Nat) : Int) < 0 ∨ ((buf[i].toNat ||| x : Nat) : Int) > 255) := by omega
      simp only [this, if_false, hv]
  · have hg : buf[i]? = none := List.getElem?_eq_none (by omega)
    rw [hg]
    have hb : PyT.byteAt buf (i : Int) = .error .IndexError := by
      unfold PyT.byteAt pyIndex
      have h1 : ¬ ((i : Int) < 0) := by omega
      simp only [h1, if_false]
      have h2 : (False ∨ (i : Int) ≥ (buf.length : Int)) := Or.inr (by omega)
      simp only [h2, if_true, Except.map]
    rw [hb]; rfl

theorem pack_loop (fuel : Nat) : ∀ (buf : Bytes) (i m : Nat),
    (pack_decimal128.loop1 fuel buf (i : Int) (m : Int)).map (fun r => r.1) = packLoop fuel buf i m := by
  induction fuel with
  | zero => intro buf i m; rfl
  | succ fuel ih =>
    intro buf i m
    unfold pack_decimal128.loop1 packLoop
    by_cases hm : m ≥ 1
    · have hm' : (m : Int) ≥ 1 := by omega
      simp only [hm, hm', decide_true, if_true]
      have hor := or_assign buf i (m &&& 0xFF) (i : Int) rfl
      simp only [bind, Except.bind] at hor ⊢
      rw [bitAnd_nat m 255 255 rfl]
      cases hb : PyT.byteAt buf (i : Int) with
      | error e => rw [hb] at hor; simp only [] at hor ⊢; rw [← hor]; rfl
      | ok t =>
        rw [hb] at hor
        simp only [] at hor ⊢
        rw [hor]
        cases orByte buf i (m &&& 0xFF) with
        | error e => rfl
        | ok buf' =>
          simp only [shr_nat m 8 8 rfl]
          have e1 : (i : Int) + 1 = ((i + 1 : Nat) : Int) := by omega
          rw [e1]
          exact ih buf' (i + 1) (m >>> 8)
    · have hm' : ¬ (m : Int) ≥ 1 := by omega
      simp only [hm, hm', decide_false, Bool.false_eq_true, if_false]
      rfl

theorem bitOr_zero_left (a : Int) : PyT.bitOr 0 a = a := by
  cases a with
  | ofNat n => show ((0 ||| n : Nat) : Int) = (n : Int); rw [Nat.zero_or]
  | negSucc n => show Int.negSucc (n - (n &&& 0)) = Int.negSucc n; rw [Nat.and_zero]; rfl

theorem ok_bind {α β} (a : α) (f : α → PyM β) : ((Except.ok a : PyM α) >>= f) = f a := rfl
theorem error_bind {α β} (e : PyExc) (f : α → PyM β) : ((Except.error e : PyM α) >>= f) = Except.error e := rfl

/-- `or_assign` in front of any continuation -/
theorem or_assign_k {β} (buf : Bytes) (i x : Nat) (ii xi : Int) (hi : ii = (i : Int)) (hx : xi = (x : Int))
    (k : Bytes → PyM β) :
    (PyT.byteAt buf ii >>= fun t => PyT.setByte buf ii (PyT.bitOr t xi) >>= k) = (orByte buf i x >>= k) := by
  subst hx
  rw [← or_assign buf i x ii hi]
  cases PyT.byteAt buf ii with
  | error e => rfl
  | ok t => rfl

/-- `_pack_decimal128` after `as_tuple()`, for every sign flag, coefficient and exponent (also those outside the format:
    the same ValueError / IndexError). -/
theorem pack_decimal128_eq_model (sign : Bool) (coeff : Nat) (exp : Int) :
    pack_decimal128 (if sign then 1 else 0) (coeff : Int) exp = pack { sign := sign, coeff := coeff, exp := exp } := by
  unfold pack_decimal128 pack
  have hB : (Gen.DECIMAL128_BIAS : Int) = 6176 := rfl
  rw [hB]
  generalize exp + 6176 = E
  have hshr : PyT.shr E 7 = .ok (E >>> 7) := by
    simp only [PyT.shr, show ¬ ((7 : Int) < 0) by decide, if_false]; rfl
  have hz : PyT.bytearrayZeros 16 = .ok (List.replicate 16 (0 : UInt8)) := rfl
  have hb15 : PyT.byteAt (List.replicate 16 (0 : UInt8)) 15 = .ok 0 := by decide
  simp only [hz, ok_bind, hb15, hshr, bitOr_zero_left]
  by_cases hhi : E >>> 7 < 0 ∨ E >>> 7 > 255
  · have hs : PyT.setByte (List.replicate 16 (0 : UInt8)) 15 (E >>> 7) = .error .ValueError := by
      simp [PyT.setByte, hhi]
    simp only [hhi, if_true, hs, error_bind]
    rfl
  · simp only [hhi, if_false]
    have hE0 : 0 ≤ E := by
      have : ¬ (E >>> 7 < 0) := fun h => hhi (Or.inl h)
      rw [Int.shiftRight_eq_div_pow] at this
      omega
    obtain ⟨e, rfl⟩ := Int.eq_ofNat_of_zero_le hE0
    have hh : ((e : Int) >>> 7) = ((e >>> 7 : Nat) : Int) := rfl
    have hs : PyT.setByte (List.replicate 16 (0 : UInt8)) 15 ((e >>> 7 : Nat) : Int)
        = orByte (List.replicate 16 (0 : UInt8)) 15 (e >>> 7) := by
      have := or_assign (List.replicate 16 (0 : UInt8)) 15 (e >>> 7) 15 rfl
      rw [hb15] at this
      simpa only [ok_bind, bitOr_zero_left] using this
    rw [hh, hs]
    simp only [Int.toNat_natCast, pure_bind]
    cases orByte (List.replicate 16 (0 : UInt8)) 15 (e >>> 7) with
    | error err => rfl
    | ok b1 =>
      simp only [ok_bind, bitAnd_nat e 127 127 rfl, shl_nat (e &&& 127) 1 1 rfl]
      rw [or_assign_k b1 14 ((e &&& 127) <<< 1) 14 _ rfl rfl]
      cases orByte b1 14 ((e &&& 127) <<< 1) with
      | error err => rfl
      | ok b2 =>
        simp only [ok_bind]
        have hl := pack_loop (coeff + 1) b2 0 coeff
        have e0 : ((0 : Nat) : Int) = 0 := rfl
        rw [e0] at hl
        rw [← hl]
        cases pack_decimal128.loop1 (coeff + 1) b2 0 (coeff : Int) with
        | error err => rfl
        | ok r =>
          simp only [Except.map, ok_bind]
          cases sign with
          | false => rfl
          | true =>
            have : (decide ((1 : Int) ≠ 0)) = true := by decide
            simp only [if_true, this]
            have := or_assign_k r.1 15 128 15 128 rfl rfl (fun b => (pure b : PyM Bytes))
            simpa using this

end NumbersModel.Translated
