/-
The chunk framing of `iwafile.py` as `harness/py2lean.py` regenerates it from the source on every check run
(`Gen/TrIwa.lean`: `is_iwa_file`, `IWACompressedChunk._decompress_all`, `IWACompressedChunk.to_buffer`,
`get_archive_info_and_remainder`) against the hand-written model (Model/Iwa.lean), for ALL byte strings and all behaviours
of snappy / protobuf (parameters).  The source computes with Python ints and slices, the model with `Nat`, `take` and `drop`.
-/
import NumbersModel.Gen.TrIwa
import NumbersModel.Lemmas.Iwa
import NumbersModel.Lemmas.PySlice

set_option linter.unusedSimpArgs false
namespace NumbersModel.TrIwa
open NumbersModel NumbersModel.Iwa NumbersModel.PySliceLemmas

theorem byteAt_head (first : UInt8) (rest : Bytes) : PyT.byteAt (first :: rest) 0 = .ok (first.toNat : Int) := by
  unfold PyT.byteAt pyIndex
  have h1 : ¬ ((0 : Int) < 0) := by omega
  have h2 : ¬ ((0 : Int) < 0 ∨ (0 : Int) ≥ ((first :: rest).length : Int)) := by
    simp only [List.length_cons]; omega
  have h3 : ¬ (((rest.length : Int) + 1) ≤ 0) := by omega
  simp [h1, h2, h3, Except.map]

/-- `unpack("<I", bytes(header[1:]) + b"\x00")[0]` is the model's `unle24 header`, for a header of any length -/
theorem unpack_header (h : Bytes) :
    PyT.unpackU32LE (h.drop 1 ++ [0]) = (match unle24 h with | .ok n => .ok (n : Int) | .error e => .error e) := by
  rcases h with _ | ⟨x, _ | ⟨a, _ | ⟨b, _ | ⟨c, _ | ⟨d, t⟩⟩⟩⟩⟩
  · rfl
  · rfl
  · rfl
  · rfl
  · simp [PyT.unpackU32LE, unle24]
  · cases t <;> rfl

/-- the sniffing loop does not depend on the fuel once there is enough of it -/
theorem isIwaLoop_fuel : ∀ (f1 f2 : Nat) (d : Bytes) (a : Nat), d.length ≤ f1 → d.length ≤ f2 →
    isIwaLoop f1 d a = isIwaLoop f2 d a := by
  intro f1
  induction f1 with
  | zero =>
    intro f2 d a h1 h2
    have hd : d = [] := List.length_eq_zero_iff.mp (by omega)
    subst hd
    cases f2 <;> rfl
  | succ f1 ih =>
    intro f2 d a h1 h2
    cases d with
    | nil => cases f2 <;> rfl
    | cons first rest =>
      cases f2 with
      | zero => simp at h2
      | succ f2 =>
        unfold isIwaLoop
        by_cases hf : first ≠ 0
        · simp [hf]
        · simp only [hf, if_false]
          cases unle24 ((first :: rest).take 4) with
          | error e => rfl
          | ok seg =>
            simp only [bind, Except.bind]
            apply ih
            · simp only [List.length_drop, List.length_cons] at *; omega
            · simp only [List.length_drop, List.length_cons] at *; omega

/-- what `is_iwa_file` makes of the outcome of its loop -/
def sniffResult (dl : Int) (r : Option Bool × (Int × Bytes)) : Bool :=
  match r.1 with
  | some b => b
  | none => decide (r.2.1 = dl)

/-- the `while data:` loop of `is_iwa_file`, one iteration at a time -/
theorem is_iwa_loop_eq (dl : Int) : ∀ (fuel : Nat) (data : Bytes) (acc : Nat), data.length < fuel →
    (match Gen.T.is_iwa_file.loop1 fuel (acc : Int) data with
      | .error e => .error e
      | .ok r => .ok (sniffResult dl r))
    = (match isIwaLoop data.length data acc with
      | .error e => (.error e : PyM Bool)
      | .ok none => .ok false
      | .ok (some n) => .ok (decide ((n : Int) = dl))) := by
  intro fuel
  induction fuel with
  | zero => intro data acc h; omega
  | succ fuel ih =>
    intro data acc h
    cases data with
    | nil => rfl
    | cons first rest =>
      have hR : isIwaLoop (first :: rest).length (first :: rest) acc =
          (if first ≠ 0 then .ok none else
            match unle24 ((first :: rest).take 4) with
            | .error e => .error e
            | .ok seg => isIwaLoop rest.length ((first :: rest).drop (4 + seg)) (acc + (seg + 4))) := by
        simp only [List.length_cons, isIwaLoop, bind, Except.bind]
        split
        · rfl
        · cases unle24 (List.take 4 (first :: rest)) <;> rfl
      rw [hR]
      unfold Gen.T.is_iwa_file.loop1
      simp only [List.isEmpty_cons, Bool.not_false, if_true, bind, Except.bind]
      rw [slice_to _ 4 (by omega)]
      have ht : (first :: rest).take (4 : Int).toNat = first :: rest.take 3 := rfl
      rw [ht, byteAt_head]
      simp only []
      by_cases hf : first = 0
      · subst hf
        have h0 : ¬ (((0 : UInt8).toNat : Int) ≠ 0) := by simp
        simp only [h0, decide_false, Bool.false_eq_true, if_false, ne_eq, not_true_eq_false]
        rw [slice_from _ 1 (by omega)]
        have hd : ((0 : UInt8) :: rest.take 3).drop (1 : Int).toNat = ((0 : UInt8) :: rest.take 3).drop 1 := rfl
        rw [hd, unpack_header]
        have ht4 : ((0 : UInt8) :: rest).take 4 = (0 : UInt8) :: rest.take 3 := rfl
        rw [ht4]
        cases unle24 ((0 : UInt8) :: rest.take 3) with
        | error e => rfl
        | ok seg =>
          simp only []
          rw [slice_from _ _ (by omega)]
          have hn : ((4 : Int) + (seg : Int)).toNat = 4 + seg := by omega
          have hacc : ((acc : Int) + ((seg : Int) + 4)) = ((acc + (seg + 4) : Nat) : Int) := by omega
          rw [hn, hacc, ih _ _ (by simp only [List.length_drop, List.length_cons] at *; omega)]
          rw [isIwaLoop_fuel rest.length _ _ _ (by simp only [List.length_drop, List.length_cons]; omega) (Nat.le_refl _)]
      · have h0 : ((first.toNat : Int) ≠ 0) := by
          intro h
          apply hf
          have : first.toNat = 0 := by omega
          exact UInt8.toNat_inj.mp (by simpa using this)
        have h0' : ¬ (first.toNat = 0) := by omega
        simp [h0, h0', hf, pure, Except.pure, sniffResult]

/-- `is_iwa_file` -/
theorem is_iwa_file_eq_model (data : Bytes) : Gen.T.is_iwa_file data = isIwaFile data := by
  unfold Gen.T.is_iwa_file isIwaFile
  have h := is_iwa_loop_eq (data.length : Int) (data.length + 1) data 0 (by omega)
  simp only [bind, Except.bind, pure, Except.pure] at h ⊢
  have hz : ((0 : Nat) : Int) = (0 : Int) := rfl
  rw [hz] at h
  cases hl : Gen.T.is_iwa_file.loop1 (data.length + 1) 0 data with
  | error e =>
    rw [hl] at h
    cases hm : isIwaLoop data.length data 0 with
    | error e' => rw [hm] at h; simpa using h
    | ok o => rw [hm] at h; cases o <;> simp at h
  | ok r =>
    rw [hl] at h
    rcases r with ⟨ret, len, d⟩
    cases hm : isIwaLoop data.length data 0 with
    | error e' => rw [hm] at h; simp at h
    | ok o =>
      rw [hm] at h
      cases o with
      | none =>
        simp only [sniffResult] at h
        cases ret with
        | some b => simp at h; simp [h]
        | none => simp at h; simp [h]
      | some n =>
        simp only [sniffResult] at h
        have hb : (n == data.length) = decide ((n : Int) = (data.length : Int)) := by
          by_cases hn : n = data.length
          · simp [hn]
          · have : ¬ ((n : Int) = (data.length : Int)) := by omega
            simp [hn, this]
        cases ret with
        | some b => simp at h; simp [h, hb]
        | none => simp at h; simp [h, hb]

/-! ### `get_archive_info_and_remainder` -/

/-- the head of the model's `segFromBuffer`: varint length, the ArchiveInfo bytes, the remainder -/
def archiveInfoAndRemainder {H : Type} (parseInfo : Bytes → PyM H) (buf : Bytes) : PyM (H × Bytes) := do
  let (msgLen, pos) ← varintDec32 buf 0
  let h ← parseInfo ((buf.drop pos).take msgLen)
  pure (h, buf.drop (pos + msgLen))

theorem get_archive_info_and_remainder_eq_model {H : Type} (parseInfo : Bytes → PyM H) (buf : Bytes) :
    Gen.T.get_archive_info_and_remainder parseInfo buf = archiveInfoAndRemainder parseInfo buf := by
  unfold Gen.T.get_archive_info_and_remainder archiveInfoAndRemainder varintDec32Int
  have h0 : (0 : Int).toNat = 0 := rfl
  simp only [bind, Except.bind, h0]
  cases varintDec32 buf 0 with
  | error e => rfl
  | ok r =>
    rcases r with ⟨v, p⟩
    simp only []
    rw [slice_mid _ _ _ (by omega) (by omega), slice_from _ _ (by omega)]
    have h1 : ((p : Int) + (v : Int)).toNat - (p : Int).toNat = v := by omega
    have h2 : ((p : Int) + (v : Int)).toNat = p + v := by omega
    have h3 : (p : Int).toNat = p := by omega
    rw [h1, h2, h3]

/-- the model's segment reader starts with exactly this function -/
theorem segFromBuffer_head {H M : Type} (e : Ext H M) (buf : Bytes) :
    segFromBuffer e buf = (do
      let (h, payload) ← Gen.T.get_archive_info_and_remainder e.parseInfo buf
      if e.reprEmpty h then .error .ValueError
      else do
        let (objs, n) ← msgLoop e h payload (e.infos h) 0 []
        .ok (⟨h, objs⟩, payload.drop n)) := by
  rw [get_archive_info_and_remainder_eq_model]
  unfold segFromBuffer archiveInfoAndRemainder
  simp only [bind, Except.bind]
  cases varintDec32 buf 0 with
  | error e => rfl
  | ok r =>
    rcases r with ⟨v, p⟩
    first
      | rfl
      | (simp only []
         cases e.parseInfo (List.take v (List.drop p buf)) <;> rfl)

/-! ### `IWACompressedChunk._decompress_all` -/

theorem decompressAll_fuel (unc : Bytes → PyM Bytes) : ∀ (f1 f2 : Nat) (d : Bytes), d.length ≤ f1 → d.length ≤ f2 →
    decompressAll unc f1 d = decompressAll unc f2 d := by
  intro f1
  induction f1 with
  | zero =>
    intro f2 d h1 h2
    have hd : d = [] := List.length_eq_zero_iff.mp (by omega)
    subst hd
    cases f2 <;> rfl
  | succ f1 ih =>
    intro f2 d h1 h2
    cases d with
    | nil => cases f2 <;> rfl
    | cons first rest =>
      cases f2 with
      | zero => simp at h2
      | succ f2 =>
        unfold decompressAll
        by_cases hf : first ≠ 0
        · simp [hf]
        · simp only [hf, if_false]
          cases unle24 ((first :: rest).take 4) with
          | error e => rfl
          | ok seg =>
            simp only [bind, Except.bind]
            rw [ih f2 _ (by simp only [List.length_drop, List.length_cons] at *; omega)
              (by simp only [List.length_drop, List.length_cons] at *; omega)]

/-- the `while data:` loop of `_decompress_all`, one iteration at a time: what has been yielded so far, then the model's
    concatenation of the rest -/
theorem decompress_loop_eq (unc : Bytes → PyM Bytes) : ∀ (fuel : Nat) (data : Bytes) (acc : List Bytes), data.length < fuel →
    (match Gen.T.decompress_all.loop1 fuel unc data acc with
      | .error e => .error e
      | .ok r => .ok r.2.flatten)
    = (match decompressAll unc data.length data with
      | .error e => (.error e : PyM Bytes)
      | .ok more => .ok (acc.flatten ++ more)) := by
  intro fuel
  induction fuel with
  | zero => intro data acc h; omega
  | succ fuel ih =>
    intro data acc h
    cases data with
    | nil => simp [Gen.T.decompress_all.loop1, decompressAll, pure, Except.pure]
    | cons first rest =>
      have hR : decompressAll unc (first :: rest).length (first :: rest) =
          (if first ≠ 0 then .error .ValueError else
            match unle24 ((first :: rest).take 4) with
            | .error e => .error e
            | .ok length =>
              match decompressAll unc rest.length ((first :: rest).drop (4 + length)) with
              | .error e => .error e
              | .ok more => .ok ((match unc (((first :: rest).drop 4).take length) with
                  | .ok x => x
                  | .error _ => ((first :: rest).drop 4).take length) ++ more)) := by
        simp only [List.length_cons, decompressAll, bind, Except.bind]
        split
        · rfl
        · cases unle24 (List.take 4 (first :: rest)) with
          | error e => rfl
          | ok length =>
            simp only []
            cases decompressAll unc rest.length (List.drop (4 + length) (first :: rest)) <;> rfl
      rw [hR]
      unfold Gen.T.decompress_all.loop1
      simp only [List.isEmpty_cons, Bool.not_false, if_true, bind, Except.bind]
      rw [slice_to _ 4 (by omega)]
      have ht : (first :: rest).take (4 : Int).toNat = first :: rest.take 3 := rfl
      rw [ht, byteAt_head]
      simp only []
      by_cases hf : first = 0
      · subst hf
        have h0 : ¬ (((0 : UInt8).toNat : Int) ≠ 0) := by simp
        simp only [h0, decide_false, Bool.false_eq_true, if_false, ne_eq, not_true_eq_false]
        rw [slice_from _ 1 (by omega)]
        have hd : ((0 : UInt8) :: rest.take 3).drop (1 : Int).toNat = ((0 : UInt8) :: rest.take 3).drop 1 := rfl
        rw [hd, unpack_header]
        have ht4 : ((0 : UInt8) :: rest).take 4 = (0 : UInt8) :: rest.take 3 := rfl
        rw [ht4]
        cases unle24 ((0 : UInt8) :: rest.take 3) with
        | error e => rfl
        | ok seg =>
          simp only []
          rw [slice_from _ _ (by omega), slice_mid _ _ _ (by omega) (by omega)]
          have hn : ((4 : Int) + (seg : Int)).toNat = 4 + seg := by omega
          have hn4 : ((4 : Int) + (seg : Int)).toNat - (4 : Int).toNat = seg := by omega
          have h4 : (4 : Int).toNat = 4 := rfl
          rw [hn4, h4, hn]
          rw [decompressAll_fuel unc rest.length (List.drop (4 + seg) ((0 : UInt8) :: rest)).length _
            (by simp only [List.length_drop, List.length_cons]; omega) (Nat.le_refl _)]
          cases unc (List.take seg (List.drop 4 ((0 : UInt8) :: rest))) with
          | ok piece =>
            simp only [pure, Except.pure]
            rw [ih _ _ (by simp only [List.length_drop, List.length_cons] at *; omega)]
            cases decompressAll unc _ (List.drop (4 + seg) ((0 : UInt8) :: rest)) with
            | error e => rfl
            | ok more => simp [List.flatten_append]
          | error e =>
            simp only [pure, Except.pure, if_true]
            rw [ih _ _ (by simp only [List.length_drop, List.length_cons] at *; omega)]
            cases decompressAll unc _ (List.drop (4 + seg) ((0 : UInt8) :: rest)) with
            | error e => rfl
            | ok more => simp [List.flatten_append]
      · have h0 : ((first.toNat : Int) ≠ 0) := by
          intro h
          apply hf
          have : first.toNat = 0 := by omega
          exact UInt8.toNat_inj.mp (by simpa using this)
        have h0' : ¬ (first.toNat = 0) := by omega
        simp [h0, h0', hf, throw, throwThe, MonadExceptOf.throw]

/-- `b"".join(…)` of what a generator yields (an exception of the generator ends the join) -/
def joinPieces (r : PyM (List Bytes)) : PyM Bytes :=
  match r with
  | .error e => .error e
  | .ok pieces => .ok pieces.flatten

/-- `b"".join(cls._decompress_all(data))`, for every byte string and every behaviour of `snappy.uncompress` -/
theorem decompress_all_eq_model (unc : Bytes → PyM Bytes) (data : Bytes) :
    joinPieces (Gen.T.decompress_all unc data) = decompress unc data := by
  unfold joinPieces Gen.T.decompress_all decompress
  have h := decompress_loop_eq unc (data.length + 1) data [] (by omega)
  simp only [bind, Except.bind, pure, Except.pure] at h ⊢
  cases hl : Gen.T.decompress_all.loop1 (data.length + 1) unc data [] with
  | error e =>
    rw [hl] at h
    cases hm : decompressAll unc data.length data with
    | error e' => rw [hm] at h; simpa using h
    | ok o => rw [hm] at h; simp at h
  | ok r =>
    rw [hl] at h
    cases hm : decompressAll unc data.length data with
    | error e' => rw [hm] at h; simp at h
    | ok o => rw [hm] at h; simpa using h

/-! ### `IWACompressedChunk.to_buffer` -/

theorem slices_fuel (k : Nat) : ∀ (f1 f2 : Nat) (s : Bytes), s.length ≤ f1 → s.length ≤ f2 →
    slices (k + 1) f1 s = slices (k + 1) f2 s := by
  intro f1
  induction f1 with
  | zero =>
    intro f2 s h1 h2
    have hd : s = [] := List.length_eq_zero_iff.mp (by omega)
    subst hd
    cases f2 <;> rfl
  | succ f1 ih =>
    intro f2 s h1 h2
    cases s with
    | nil => cases f2 <;> rfl
    | cons a t =>
      cases f2 with
      | zero => simp at h2
      | succ f2 =>
        unfold slices
        simp only [List.isEmpty_cons, Bool.false_eq_true, if_false, bind, Except.bind]
        rw [ih f2 _ (by simp only [List.length_drop, List.length_cons] at *; omega)
          (by simp only [List.length_drop, List.length_cons] at *; omega)]

theorem slices_chunk_fuel (f1 f2 : Nat) (s : Bytes) (h1 : s.length ≤ f1) (h2 : s.length ≤ f2) :
    slices chunkSize f1 s = slices chunkSize f2 s := slices_fuel 65535 f1 f2 s h1 h2

/-- the `while uncompressed:` loop of `to_buffer`, one iteration at a time -/
theorem to_buffer_loop_eq (compress : Bytes → Bytes) : ∀ (fuel : Nat) (s : Bytes) (acc : List Bytes), s.length < fuel →
    ∃ sl, slices chunkSize s.length s = .ok sl ∧
      Gen.T.chunk_to_buffer.loop1 fuel compress acc s = .ok (acc ++ sl.map compress, []) := by
  intro fuel
  induction fuel with
  | zero => intro s acc h; omega
  | succ fuel ih =>
    intro s acc h
    cases s with
    | nil => exact ⟨[], rfl, by simp [Gen.T.chunk_to_buffer.loop1, pure, Except.pure]⟩
    | cons a t =>
      obtain ⟨sl, h1, h2⟩ := ih ((a :: t).drop chunkSize) (acc ++ [compress ((a :: t).take chunkSize)])
        (by simp only [List.length_drop, List.length_cons, chunkSize] at *; omega)
      refine ⟨(a :: t).take chunkSize :: sl, ?_, ?_⟩
      · have : slices chunkSize (a :: t).length (a :: t) =
            (match slices chunkSize t.length ((a :: t).drop chunkSize) with
              | .error e => .error e
              | .ok r => .ok ((a :: t).take chunkSize :: r)) := by
          simp only [List.length_cons, slices, List.isEmpty_cons, Bool.false_eq_true, if_false, bind, Except.bind]
          cases slices chunkSize t.length (List.drop chunkSize (a :: t)) <;> rfl
        rw [this, slices_chunk_fuel t.length ((a :: t).drop chunkSize).length _
          (by simp only [List.length_drop, List.length_cons, chunkSize]; omega) (Nat.le_refl _), h1]
      · unfold Gen.T.chunk_to_buffer.loop1
        simp only [List.isEmpty_cons, Bool.not_false, if_true]
        rw [slice_to _ 65536 (by omega), slice_from _ 65536 (by omega)]
        have hk : (65536 : Int).toNat = chunkSize := rfl
        rw [hk, h2]
        simp [List.append_assoc]

/-- the frame of one payload as the source builds it -/
def frameT (payload : Bytes) : PyM Bytes := do
  let t1 ← PyT.packU32LE ((payload).length : Int)
  pure ((([0] : Bytes) ++ (pySlice t1 none (some (3 : Int)))) ++ payload)

theorem frame_eq (p : Bytes) : frameT p = frameChunk p := by
  unfold frameT PyT.packU32LE frameChunk le24
  by_cases h : p.length < 4294967296
  · have h' : ¬ (((p.length : Int) < 0) ∨ ((p.length : Int) ≥ 4294967296)) := by omega
    simp only [h, h', if_true, if_false, bind, Except.bind, pure, Except.pure]
    rw [slice_to _ 3 (by omega)]
    have : ((p.length : Int)).toNat = p.length := by omega
    rw [this]
    rfl
  · have h' : (((p.length : Int) < 0) ∨ ((p.length : Int) ≥ 4294967296)) := by omega
    simp only [h, h', if_true, if_false, bind, Except.bind]

theorem frames_eq : ∀ (ps : List Bytes),
    ((do let fs ← ps.mapM frameT; pure fs.flatten) : PyM Bytes) = frameAll ps := by
  intro ps
  induction ps with
  | nil => rfl
  | cons p rest ih =>
    rw [List.mapM_cons, frame_eq]
    unfold frameAll
    rw [← ih]
    simp only [bind, Except.bind, pure, Except.pure]
    cases frameChunk p with
    | error e => rfl
    | ok f =>
      simp only []
      cases List.mapM frameT rest with
      | error e => rfl
      | ok fs => simp

/-- `IWACompressedChunk.to_buffer` from the joined archive bytes on: 64 KiB slices, each compressed and framed -/
theorem chunk_to_buffer_eq_model (compress : Bytes → Bytes) (s : Bytes) :
    Gen.T.chunk_to_buffer compress s = frameStream compress s := by
  unfold Gen.T.chunk_to_buffer frameStream
  obtain ⟨sl, h1, h2⟩ := to_buffer_loop_eq compress (s.length + 1) s [] (by omega)
  have key := frames_eq (sl.map compress)
  unfold frameT at key
  simp only [bind, Except.bind, pure, Except.pure] at key
  simp only [bind, Except.bind, h1, h2, List.nil_append, pure, Except.pure]
  exact key

end NumbersModel.TrIwa
