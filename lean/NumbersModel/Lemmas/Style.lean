/- Helper lemmas for C15 (style de-duplication). -/
import NumbersModel.Model.Style
namespace NumbersModel.Style
open NumbersModel

theorem key_injective (a b : CellAttrs) (h : key a = key b) : a = b := by
  cases a; cases b
  simp only [key, List.cons.injEq, and_true] at h
  obtain ⟨h1, h2, h3, h4, h5, h6, h7, h8⟩ := h
  subst h1 h2 h3 h4 h5 h6 h7 h8
  rfl

theorem indexOf?_spec {κ} [DecidableEq κ] (l : List κ) (k : κ) (i0 j : Nat) (h : indexOf? l k i0 = some j) :
    i0 ≤ j ∧ l[j - i0]? = some k := by
  induction l generalizing i0 with
  | nil => simp [indexOf?] at h
  | cons x xs ih =>
    simp only [indexOf?] at h
    split at h
    · rename_i hx
      cases h
      simp [hx]
    · obtain ⟨h1, h2⟩ := ih (i0 + 1) h
      refine ⟨by omega, ?_⟩
      have : j - i0 = (j - (i0 + 1)) + 1 := by omega
      rw [this, List.getElem?_cons_succ]; exact h2

theorem indexOf?_none {κ} [DecidableEq κ] (l : List κ) (k : κ) (i0 : Nat) (h : indexOf? l k i0 = none) : k ∉ l := by
  induction l generalizing i0 with
  | nil => simp
  | cons x xs ih =>
    simp only [indexOf?] at h
    split at h
    · cases h
    · rename_i hx
      simp only [List.mem_cons, not_or]
      exact ⟨fun e => hx e.symm, ih _ h⟩

/-- generalised statement: after the cells processed so far have produced the key list `seen`
    (pairwise distinct), every cell that is given group `g` has the `g`-th key of the final list. -/
theorem dedupGo_spec {κ} [DecidableEq κ] (key : CellAttrs → κ) (cells : List (Bool × CellAttrs)) :
    ∀ (seen : List κ), ∃ final : List κ, (∃ ext, final = seen ++ ext) ∧
      ∀ (i g : Nat) (c : Bool × CellAttrs), cells[i]? = some c → (dedupGo key cells seen)[i]? = some (some g) →
        c.1 = true ∧ final[g]? = some (key c.2) := by
  induction cells with
  | nil => intro seen; exact ⟨seen, ⟨[], by simp⟩, by simp⟩
  | cons c cells ih =>
    intro seen
    obtain ⟨d, a⟩ := c
    cases d with
    | false =>
      obtain ⟨final, hext, hf⟩ := ih seen
      refine ⟨final, hext, ?_⟩
      intro i g c hc hg
      cases i with
      | zero => simp [dedupGo] at hg
      | succ i =>
        simp only [dedupGo, List.getElem?_cons_succ] at hg hc
        exact hf i g c hc hg
    | true =>
      simp only [dedupGo]
      cases hidx : indexOf? seen (key a) 0 with
      | some j =>
        obtain ⟨final, ⟨ext, hext⟩, hf⟩ := ih seen
        refine ⟨final, ⟨ext, hext⟩, ?_⟩
        intro i g c hc hg
        cases i with
        | zero =>
          simp only [List.getElem?_cons_zero, Option.some.injEq] at hg hc
          subst hc; subst hg
          refine ⟨rfl, ?_⟩
          have := (indexOf?_spec seen (key a) 0 j hidx).2
          simp only [Nat.sub_zero] at this
          rw [hext, List.getElem?_append_left]
          · exact this
          · exact (List.getElem?_eq_some_iff.mp this).1
        | succ i =>
          simp only [List.getElem?_cons_succ] at hg hc
          exact hf i g c hc hg
      | none =>
        obtain ⟨final, ⟨ext, hext⟩, hf⟩ := ih (seen ++ [key a])
        refine ⟨final, ⟨[key a] ++ ext, by simp [hext]⟩, ?_⟩
        intro i g c hc hg
        cases i with
        | zero =>
          simp only [List.getElem?_cons_zero, Option.some.injEq] at hg hc
          subst hc; subst hg
          refine ⟨rfl, ?_⟩
          rw [hext]
          simp
        | succ i =>
          simp only [List.getElem?_cons_succ] at hg hc
          exact hf i g c hc hg

theorem dedupGo_clean {κ} [DecidableEq κ] (key : CellAttrs → κ) (cells : List (Bool × CellAttrs))
    (h : ∀ c ∈ cells, c.1 = false) : ∀ seen, dedupGo key cells seen = cells.map (fun _ => none) := by
  induction cells with
  | nil => intro seen; rfl
  | cons c cells ih =>
    intro seen
    obtain ⟨d, a⟩ := c
    have hd : d = false := h (d, a) List.mem_cons_self
    subst hd
    simp only [dedupGo, List.map_cons]
    rw [ih (fun c hc => h c (List.mem_cons_of_mem _ hc))]

end NumbersModel.Style
