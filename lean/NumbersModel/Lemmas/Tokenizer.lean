import NumbersModel.Model.Tokenizer
namespace NumbersModel.Tokenizer
open NumbersModel

/-- concatenation of the token texts, in order. -/
def flat (items : List Tok) : Text := (items.map (·.value)).flatten

@[simp] theorem flat_nil : flat [] = [] := rfl
@[simp] theorem flat_append (a b : List Tok) : flat (a ++ b) = flat a ++ flat b := by
  simp [flat]
@[simp] theorem flat_single (t : Tok) : flat [t] = t.value := by simp [flat]
@[simp] theorem makeOperand_value (v : Text) : (makeOperand v).value = v := rfl

/-- the loop invariant behind losslessness. -/
def Inv (s : Text) (st : St) : Prop := flat st.items ++ st.token ++ st.rest = s

/-- what the dispatcher relies on: every dispatched operator/closer/separator character is a token ender. -/
def EndersOK (enders : List Char) : Prop :=
  ∀ c, (opChars.contains c = true ∨ c = ')' ∨ c = '}' ∨ c = ';' ∨ c = ',') → enders.contains c = true

theorem saveToken_inv {s st} (h : Inv s st) : Inv s (saveToken st) := by
  unfold saveToken; split
  · simp only [Inv, flat_append, flat_single, makeOperand_value, List.append_nil] at *; exact h
  · exact h

theorem saveToken_token (st : St) : (saveToken st).token = [] := by
  unfold saveToken; split
  · rfl
  · rename_i h; simpa using h

@[simp] theorem saveToken_rest (st : St) : (saveToken st).rest = st.rest := by
  unfold saveToken; split <;> rfl

@[simp] theorem saveToken_stack (st : St) : (saveToken st).stack = st.stack := by
  unfold saveToken; split <;> rfl

theorem assertEmpty_ok {st : St} (h : assertEmpty st = .ok ()) : st.token = [] := by
  unfold assertEmpty at h; split at h
  · cases h
  · rename_i h'; simpa using h'

theorem assertEmpty_cases (st : St) : assertEmpty st = .ok () ∨ assertEmpty st = .error .TokenizerError := by
  unfold assertEmpty; split <;> simp

/-- the guard of `parse_string`: either it passes or it raises TokenizerError. -/
theorem guard_cases (st : St) :
    quoteGuard st = .ok () ∨ quoteGuard st = .error .TokenizerError := by
  unfold quoteGuard
  split
  · exact Or.inl rfl
  · exact assertEmpty_cases st

theorem parseString_inv {ws s st st'} (h : Inv s st) (e : parseString ws st = .ok st') : Inv s st' := by
  unfold parseString at e
  rcases guard_cases st with ha | ha
  · simp only [ha, bind, Except.bind] at e
    split at e
    · cases e
    · split at e
      · injection e with e; subst e
        simp only [Inv] at *
        rw [← h]
        simp only [List.append_assoc, List.take_append_drop]
      · rename_i hne
        have ht : st.token = [] := by simpa using hne
        injection e with e; subst e
        simp only [Inv, flat_append, flat_single, makeOperand_value] at *
        rw [ht] at h
        simp only [List.append_nil] at h
        rw [ht, List.append_nil, List.append_assoc, List.take_append_drop]; exact h
  · simp [ha, bind, Except.bind] at e

theorem prefix_take_drop {e r : List Char} (h : e.isPrefixOf r = true) : e ++ r.drop e.length = r := by
  rw [List.isPrefixOf_iff_prefix] at h
  obtain ⟨t, rfl⟩ := h
  simp

theorem parseError_inv {codes s st st'} (h : Inv s st) (e : parseError codes st = .ok st') : Inv s st' := by
  unfold parseError at e
  rcases assertEmpty_cases st with ha | ha
  · have ht := assertEmpty_ok ha
    simp only [ha, bind, Except.bind] at e
    split at e
    · rename_i code hf
      injection e with e; subst e
      have hp := List.find?_some hf
      simp only [Inv, flat_append, flat_single, makeOperand_value] at *
      rw [ht] at h; simp only [List.append_nil] at h
      rw [ht, List.append_nil, List.append_assoc, prefix_take_drop hp]; exact h
    · cases e
  · simp [ha, bind, Except.bind] at e

theorem parseOperator_inv {s st st'} (h : Inv s st) (ht : st.token = [])
    (e : parseOperator st = .ok st') : Inv s st' := by
  unfold parseOperator at e
  simp only [Inv] at *
  rw [ht] at h; simp only [List.append_nil] at h
  split at e
  · injection e with e; subst e
    simp only [flat_append, flat_single, ht, List.append_nil, List.append_assoc, List.take_append_drop]
    exact h
  · split at e
    · cases e
    · rename_i c r hr
      injection e with e; subst e
      simp only [flat_append, flat_single, ht, List.append_nil, List.append_assoc]
      rw [hr] at h
      have hv : ∀ (t : Tok), t.value = [c] → flat st.items ++ (t.value ++ r) = s := by
        intro t htv; rw [htv]; simpa using h
      apply hv
      split
      · rfl
      · split
        · rfl
        · split
          · rfl
          · split <;> rfl

theorem parseOpener_inv {s st st'} (h : Inv s st) (e : parseOpener st = .ok st') : Inv s st' := by
  unfold parseOpener at e
  simp only [Inv] at *
  split at e
  · rename_i r hr
    rcases assertEmpty_cases st with ha | ha
    · have ht := assertEmpty_ok ha
      simp only [ha, bind, Except.bind] at e
      injection e with e; subst e
      rw [ht, hr] at h
      simp only [flat_append, flat_single, ht, List.append_nil, List.append_assoc] at *
      simpa using h
    · simp [ha, bind, Except.bind] at e
  · rename_i r hr
    injection e with e; subst e
    rw [hr] at h
    simp only [flat_append, flat_single, List.append_nil, List.append_assoc] at *
    split
    · simpa using h
    · rename_i hne
      have : st.token = [] := by simpa using hne
      rw [this] at h; simpa using h
  · cases e

theorem getCloser_value (t : Tok) : (getCloser t).value = [')'] ∨ (getCloser t).value = ['}'] := by
  unfold getCloser; split <;> simp

theorem parseCloser_inv {exc s st st'} (h : Inv s st) (ht : st.token = [])
    (e : parseCloser exc st = .ok st') : Inv s st' := by
  unfold parseCloser at e
  simp only [Inv] at *
  split at e
  · rename_i c r hr
    split at e
    · cases e
    · split at e
      · cases e
      · split at e
        · cases e
        · rename_i top below _ hv
          injection e with e; subst e
          have hv' : (getCloser top).value = [c] := by simpa using hv
          rw [ht, hr] at h
          simp only [flat_append, flat_single, ht, List.append_nil, List.append_assoc, hv'] at *
          simpa using h
  · cases e

theorem parseSeparator_inv {s st st'} (h : Inv s st) (ht : st.token = [])
    (e : parseSeparator st = .ok st') : Inv s st' := by
  unfold parseSeparator at e
  simp only [Inv] at *
  split at e
  · rename_i r hr
    injection e with e; subst e
    rw [ht, hr] at h
    simp only [flat_append, flat_single, ht, List.append_nil, List.append_assoc] at *
    simpa using h
  · rename_i r hr
    injection e with e; subst e
    rw [ht, hr] at h
    have hv : ∀ (t : Tok), t.value = [','] → flat st.items ++ (t.value ++ r) = s := by
      intro t htv; rw [htv]; simpa using h
    simp only [flat_append, flat_single, ht, List.append_nil, List.append_assoc]
    apply hv
    split
    · rfl
    · split <;> rfl
  · cases e

end NumbersModel.Tokenizer

namespace NumbersModel.Tokenizer
open NumbersModel

theorem step_inv {cfg : Cfg} {s st st'} (hE : EndersOK cfg.enders) (h : Inv s st)
    (e : step cfg st = .ok st') : Inv s st' := by
  unfold step at e
  split at e
  · injection e with e; subst e; exact h
  · rename_i c r hr
    split at e
    · injection e with e; subst e
      simp only [Inv] at *
      rw [hr] at h; simpa using h
    · generalize hst1 : (if cfg.enders.contains c = true then saveToken st else st) = st1 at e
      have h1 : Inv s st1 := by
        rw [← hst1]; split
        · exact saveToken_inv h
        · exact h
      have hr1 : st1.rest = c :: r := by
        rw [← hst1]; split <;> simp [hr]
      have htok : cfg.enders.contains c = true → st1.token = [] := by
        intro hc; rw [← hst1]; simp only [hc, if_true]; exact saveToken_token st
      split at e
      · exact parseString_inv h1 e
      · split at e
        · exact parseError_inv h1 e
        · split at e
          · rename_i hop
            exact parseOperator_inv h1 (htok (hE c (Or.inl hop))) e
          · split at e
            · exact parseOpener_inv h1 e
            · split at e
              · rename_i hcl
                have : cfg.enders.contains c = true := by
                  rcases hcl with hcl | hcl
                  · exact hE c (Or.inr (Or.inl hcl))
                  · exact hE c (Or.inr (Or.inr (Or.inl hcl)))
                exact parseCloser_inv h1 (htok this) e
              · split at e
                · rename_i hsp
                  have : cfg.enders.contains c = true := by
                    rcases hsp with hsp | hsp
                    · exact hE c (Or.inr (Or.inr (Or.inr (Or.inl hsp))))
                    · exact hE c (Or.inr (Or.inr (Or.inr (Or.inr hsp))))
                  exact parseSeparator_inv h1 (htok this) e
                · injection e with e; subst e
                  simp only [Inv] at *
                  rw [hr1] at h1; simpa using h1

theorem loop_inv {cfg : Cfg} {s} (hE : EndersOK cfg.enders) :
    ∀ fuel st st', Inv s st → loop cfg fuel st = .ok st' → Inv s st' ∧ st'.token = [] ∧ st'.rest = [] := by
  intro fuel
  induction fuel with
  | zero =>
    intro st st' h e
    unfold loop at e
    split at e
    · rename_i hr
      injection e with e; subst e
      exact ⟨saveToken_inv h, saveToken_token st, by simpa using hr⟩
    · cases e
  | succ f ih =>
    intro st st' h e
    unfold loop at e
    split at e
    · rename_i hr
      injection e with e; subst e
      exact ⟨saveToken_inv h, saveToken_token st, by simpa using hr⟩
    · cases hs : step cfg st with
      | error x => simp [hs, bind, Except.bind] at e
      | ok st1 =>
        simp only [hs, bind, Except.bind] at e
        exact ih st1 st' (step_inv hE h hs) e

theorem tokenize_flat {cfg : Cfg} (hE : EndersOK cfg.enders) (s : Text) (toks : List Tok)
    (e : tokenize cfg s = .ok toks) : flat toks = s := by
  unfold tokenize at e
  cases hl : loop cfg (s.length + 1) ⟨[], [], [], s⟩ with
  | error x => simp [hl, bind, Except.bind] at e
  | ok st =>
    simp only [hl, bind, Except.bind] at e
    injection e with e; subst e
    have h0 : Inv s ⟨[], [], [], s⟩ := by simp [Inv]
    obtain ⟨hi, ht, hr⟩ := loop_inv hE _ _ _ h0 hl
    simp only [Inv, ht, hr, List.append_nil] at hi
    exact hi

end NumbersModel.Tokenizer

namespace NumbersModel.Tokenizer
open NumbersModel

/-! ### totality: the only error is TokenizerError; the loop terminates within its fuel -/

theorem dqMatch_pos {s n} (h : dqMatch s = some n) : 1 ≤ n := by
  unfold dqMatch at h
  split at h
  · simp only [Option.map_eq_some_iff] at h
    obtain ⟨a, _, rfl⟩ := h; omega
  · cases h

theorem sqPart_pos {s n} (h : sqPart s = some n) : 1 ≤ n := by
  unfold sqPart at h
  split at h
  · simp only [Option.map_eq_some_iff] at h
    obtain ⟨a, _, rfl⟩ := h; omega
  · cases h

theorem sqMatch_pos {ws s n} (h : sqMatch ws s = some n) : 1 ≤ n := by
  unfold sqMatch at h
  split at h
  · rename_i m hm
    injection h with h
    have := sqPart_pos hm; omega
  · cases h

def CodesOK (codes : List (List Char)) : Prop := ∀ e ∈ codes, e ≠ []

theorem parseString_err {ws st x} (e : parseString ws st = .error x) : x = .TokenizerError := by
  unfold parseString at e
  rcases guard_cases st with ha | ha
  · simp only [ha, bind, Except.bind] at e
    split at e
    · injection e with e; exact e.symm
    · split at e <;> cases e
  · simp only [ha, bind, Except.bind] at e
    injection e with e; exact e.symm

theorem parseString_rest {ws st st'} (e : parseString ws st = .ok st') (hne : st.rest ≠ []) :
    st'.rest.length < st.rest.length := by
  unfold parseString at e
  rcases guard_cases st with ha | ha
  · simp only [ha, bind, Except.bind] at e
    split at e
    · cases e
    · rename_i n hm
      have hn : 1 ≤ n := by
        split at hm
        · exact dqMatch_pos hm
        · exact sqMatch_pos hm
      have : 0 < st.rest.length := List.length_pos_iff.mpr hne
      split at e <;> (injection e with e; subst e; simp only [List.length_drop]; omega)
  · simp [ha, bind, Except.bind] at e

theorem parseError_err {codes st x} (e : parseError codes st = .error x) : x = .TokenizerError := by
  unfold parseError at e
  rcases assertEmpty_cases st with ha | ha
  · simp only [ha, bind, Except.bind] at e
    split at e
    · cases e
    · injection e with e; exact e.symm
  · simp only [ha, bind, Except.bind] at e
    injection e with e; exact e.symm

theorem parseError_rest {codes st st'} (hc : CodesOK codes) (e : parseError codes st = .ok st')
    (hne : st.rest ≠ []) : st'.rest.length < st.rest.length := by
  unfold parseError at e
  rcases assertEmpty_cases st with ha | ha
  · simp only [ha, bind, Except.bind] at e
    split at e
    · rename_i code hf
      injection e with e; subst e
      have hm := List.mem_of_find?_eq_some hf
      have : code ≠ [] := hc code hm
      have h1 : 0 < code.length := List.length_pos_iff.mpr this
      have h2 : 0 < st.rest.length := List.length_pos_iff.mpr hne
      simp only [List.length_drop]; omega
    · cases e
  · simp [ha, bind, Except.bind] at e

theorem parseOperator_total {st : St} (hne : st.rest ≠ []) :
    ∃ st', parseOperator st = .ok st' ∧ st'.rest.length < st.rest.length := by
  cases hr : st.rest with
  | nil => exact absurd hr hne
  | cons c r =>
    unfold parseOperator
    rw [hr]
    by_cases h2 : twoCharOps.contains ((c :: r).take 2) = true
    · simp only [h2, if_true]
      exact ⟨_, rfl, by simp only [List.length_drop, List.length_cons]; omega⟩
    · simp only [h2]
      exact ⟨_, rfl, by simp⟩

theorem parseOpener_err {st x} (e : parseOpener st = .error x) : x = .TokenizerError := by
  unfold parseOpener at e
  split at e
  · rcases assertEmpty_cases st with ha | ha
    · simp [ha, bind, Except.bind] at e
    · simp only [ha, bind, Except.bind] at e
      injection e with e; exact e.symm
  · cases e
  · injection e with e; exact e.symm

theorem parseOpener_rest {st st'} (e : parseOpener st = .ok st') : st'.rest.length < st.rest.length := by
  unfold parseOpener at e
  split at e
  · rename_i r hr
    rcases assertEmpty_cases st with ha | ha
    · simp only [ha, bind, Except.bind] at e
      injection e with e; subst e; simp [hr]
    · simp [ha, bind, Except.bind] at e
  · rename_i r hr
    injection e with e; subst e; simp [hr]
  · cases e

theorem parseCloser_err {st x} (hne : st.rest ≠ []) (e : parseCloser .TokenizerError st = .error x) :
    x = .TokenizerError := by
  unfold parseCloser at e
  split at e
  · split at e
    · injection e with e; exact e.symm
    · split at e
      · injection e with e; exact e.symm
      · simp only at e
        split at e
        · injection e with e; exact e.symm
        · cases e
  · rename_i hr; exact absurd hr hne

theorem parseCloser_rest {exc st st'} (e : parseCloser exc st = .ok st') :
    st'.rest.length < st.rest.length := by
  unfold parseCloser at e
  split at e
  · rename_i c r hr
    split at e
    · cases e
    · split at e
      · cases e
      · simp only at e
        split at e
        · cases e
        · injection e with e; subst e; simp [hr]
  · cases e

theorem parseSeparator_err {st x} (e : parseSeparator st = .error x) : x = .TokenizerError := by
  unfold parseSeparator at e
  split at e
  · cases e
  · cases e
  · injection e with e; exact e.symm

theorem parseSeparator_rest {st st'} (e : parseSeparator st = .ok st') :
    st'.rest.length < st.rest.length := by
  unfold parseSeparator at e
  split at e
  · rename_i r hr; injection e with e; subst e; simp [hr]
  · rename_i r hr; injection e with e; subst e; simp [hr]
  · cases e

/-- the configuration of the repaired code: an unmatched closer raises TokenizerError. -/
def FixedCfg (cfg : Cfg) : Prop := cfg.emptyStackExc = .TokenizerError ∧ CodesOK cfg.codes

theorem step_total {cfg : Cfg} (hc : FixedCfg cfg) (st : St) (hne : st.rest ≠ []) :
    (∃ st', step cfg st = .ok st' ∧ st'.rest.length < st.rest.length) ∨
    step cfg st = .error .TokenizerError := by
  obtain ⟨hx, hcodes⟩ := hc
  unfold step
  split
  · rename_i hr; exact absurd hr hne
  · rename_i c r hr
    split
    · exact Or.inl ⟨_, rfl, by simp [hr]⟩
    · generalize hst1 : (if cfg.enders.contains c = true then saveToken st else st) = st1
      have hr1 : st1.rest = st.rest := by
        rw [← hst1]; split <;> simp
      have hne1 : st1.rest ≠ [] := by rw [hr1]; exact hne
      rw [← hr1]
      have wrap : ∀ (m : PyM St),
          (∀ st', m = .ok st' → st'.rest.length < st1.rest.length) →
          (∀ x, m = .error x → x = .TokenizerError) →
          (∃ st', m = .ok st' ∧ st'.rest.length < st1.rest.length) ∨ m = .error .TokenizerError := by
        intro m h1 h2
        cases hm : m with
        | ok v => exact Or.inl ⟨v, rfl, h1 v hm⟩
        | error x => rw [h2 x hm]; exact Or.inr rfl
      split
      · exact wrap _ (fun _ e => parseString_rest e hne1) (fun _ e => parseString_err e)
      · split
        · exact wrap _ (fun _ e => parseError_rest hcodes e hne1) (fun _ e => parseError_err e)
        · split
          · obtain ⟨st', e, hl⟩ := parseOperator_total hne1
            exact Or.inl ⟨st', e, hl⟩
          · split
            · exact wrap _ (fun _ e => parseOpener_rest e) (fun _ e => parseOpener_err e)
            · split
              · rw [hx]
                exact wrap _ (fun _ e => parseCloser_rest e) (fun _ e => parseCloser_err hne1 e)
              · split
                · exact wrap _ (fun _ e => parseSeparator_rest e) (fun _ e => parseSeparator_err e)
                · exact Or.inl ⟨_, rfl, by rw [hr1, hr]; simp⟩

theorem loop_total {cfg : Cfg} (hc : FixedCfg cfg) :
    ∀ fuel st, st.rest.length ≤ fuel →
      (∃ st', loop cfg fuel st = .ok st') ∨ loop cfg fuel st = .error .TokenizerError := by
  intro fuel
  induction fuel with
  | zero =>
    intro st h
    have : st.rest = [] := List.length_eq_zero_iff.mp (by omega)
    unfold loop; simp [this]
  | succ f ih =>
    intro st h
    unfold loop
    by_cases hr : st.rest = []
    · simp [hr]
    · simp only [hr, if_false]
      rcases step_total hc st hr with ⟨st1, e, hl⟩ | e
      · simp only [e, bind, Except.bind]
        exact ih st1 (by omega)
      · simp [e, bind, Except.bind]

theorem tokenize_total' {cfg : Cfg} (hc : FixedCfg cfg) (s : Text) :
    (∃ toks, tokenize cfg s = .ok toks) ∨ tokenize cfg s = .error .TokenizerError := by
  unfold tokenize
  rcases loop_total hc (s.length + 1) ⟨[], [], [], s⟩ (by simp) with ⟨st, e⟩ | e
  · exact Or.inl ⟨st.items, by simp [e, bind, Except.bind]⟩
  · exact Or.inr (by simp [e, bind, Except.bind])

end NumbersModel.Tokenizer
