/-
The side conditions of the reload theorems (`Valid`) hold after every history of the document-tree model:
creation appends a fresh identifier, setters replace an object by one with the same links, `add_table` lists the new
table info in its sheet before it returns.
-/
import NumbersModel.Lemmas.DocTree
namespace NumbersModel.DocTree
open NumbersModel NumbersModel.Layout NumbersModel.ObjStore

/-! ### dict facts -/

theorem dictSet_fresh {β : Type} (os : List (Nat × β)) (k : Nat) (v : β) (hk : k ∉ dictKeys os) :
    dictSet os k v = os ++ [(k, v)] := by
  induction os with
  | nil => rfl
  | cons b s ih =>
    obtain ⟨k', o'⟩ := b
    simp only [dictKeys, List.map_cons, List.mem_cons, not_or] at hk
    simp only [dictSet, Ne.symm hk.1, if_false, List.cons_append]
    rw [ih hk.2]

theorem dictKeys_dictSet_of_mem {β : Type} (os : List (Nat × β)) (k : Nat) (v : β) (hk : k ∈ dictKeys os) :
    dictKeys (dictSet os k v) = dictKeys os := by
  induction os with
  | nil => cases hk
  | cons b s ih =>
    obtain ⟨k', o'⟩ := b
    simp only [dictSet]
    split
    · rfl
    · rename_i hne
      simp only [dictKeys, List.map_cons, List.mem_cons] at hk ⊢
      rcases hk with rfl | hk
      · exact absurd rfl hne
      · congr 1; exact ih hk

theorem mem_keys_of_get {β : Type} (os : List (Nat × β)) (k : Nat) (o : β) (h : dictGet? os k = some o) : k ∈ dictKeys os :=
  List.mem_map.mpr ⟨(k, o), mem_of_dictGet? os k o h, rfl⟩

theorem mem_dictSet {β : Type} (os : List (Nat × β)) (k : Nat) (v : β) (j : Nat) (o : β) (h : (j, o) ∈ dictSet os k v) :
    (j = k ∧ o = v) ∨ (j ≠ k ∧ (j, o) ∈ os) ∨ (j = k ∧ (j, o) ∈ os ∧ ¬ (dictKeys os).Nodup) := by
  induction os with
  | nil =>
    simp only [dictSet, List.mem_singleton, Prod.mk.injEq] at h
    exact Or.inl h
  | cons b s ih =>
    obtain ⟨k', o'⟩ := b
    simp only [dictSet] at h
    split at h
    · rename_i hk; subst hk
      rcases List.mem_cons.mp h with h1 | h1
      · simp only [Prod.mk.injEq] at h1; exact Or.inl h1
      · by_cases hj : j = k'
        · subst hj
          refine Or.inr (Or.inr ⟨rfl, List.mem_cons_of_mem _ h1, ?_⟩)
          simp only [dictKeys, List.map_cons, List.nodup_cons, not_and_or, not_not]
          exact Or.inl (List.mem_map.mpr ⟨(j, o), h1, rfl⟩)
        · exact Or.inr (Or.inl ⟨hj, List.mem_cons_of_mem _ h1⟩)
    · rename_i hk
      rcases List.mem_cons.mp h with h | h
      · simp only [Prod.mk.injEq] at h
        obtain ⟨rfl, rfl⟩ := h
        exact Or.inr (Or.inl ⟨hk, List.mem_cons_self⟩)
      · rcases ih h with h | ⟨h1, h2⟩ | ⟨h1, h2, h3⟩
        · exact Or.inl h
        · exact Or.inr (Or.inl ⟨h1, List.mem_cons_of_mem _ h2⟩)
        · refine Or.inr (Or.inr ⟨h1, List.mem_cons_of_mem _ h2, ?_⟩)
          simp only [dictKeys, List.map_cons, List.nodup_cons, not_and_or]
          exact Or.inr h3

theorem mem_dictSet' {β : Type} (os : List (Nat × β)) (hn : (dictKeys os).Nodup) (k : Nat) (v : β) (j : Nat) (o : β)
    (h : (j, o) ∈ dictSet os k v) : (j = k ∧ o = v) ∨ (j ≠ k ∧ (j, o) ∈ os) := by
  rcases mem_dictSet os k v j o h with h | h | ⟨_, _, h⟩
  · exact Or.inl h
  · exact Or.inr h
  · exact absurd hn h

/-! ### the invariant, with table infos that are created but not yet listed (`P`) -/

def IsInfo : Obj → Prop
  | .tableInfo .. => True
  | _ => False

structure ValidP (P : List Nat) (d : Doc) : Prop where
  nodup : (dictKeys d.objects).Nodup
  bound : ∀ k ∈ dictKeys d.objects, k ≤ d.maxId
  listed : ∀ k p tm c h x y, (k, Obj.tableInfo p tm c h x y) ∈ d.objects →
    k ∈ P ∨ ∃ nm dr, dictGet? d.objects p = some (.sheet nm dr) ∧ k ∈ dr
  refs : ∀ k p tm c h x y, (k, Obj.tableInfo p tm c h x y) ∈ d.objects → tm ≤ d.maxId
  uniq : UniqueInfo d.objects

/-- identifiers are distinct and below `_max_id`, every table info is listed by its sheet, table models are not shared -/
abbrev Valid (d : Doc) : Prop := ValidP [] d

theorem Valid.listed' {d : Doc} (h : Valid d) : Listed d.objects := by
  intro k p tm c hh x y hm
  rcases h.listed k p tm c hh x y hm with h | h
  · cases h
  · exact h

/-- same links: a table info stays a table info of the same sheet and model, a sheet keeps (at least) its drawables,
    nothing else becomes a table info -/
def Compat (o o' : Obj) : Prop :=
  (∀ p tm c h x y, o = .tableInfo p tm c h x y → ∃ c' h' x' y', o' = .tableInfo p tm c' h' x' y') ∧
  (∀ p tm c h x y, o' = .tableInfo p tm c h x y → ∃ c' h' x' y', o = .tableInfo p tm c' h' x' y') ∧
  (∀ nm dr, o = .sheet nm dr → ∃ nm' dr', o' = .sheet nm' dr' ∧ ∀ a ∈ dr, a ∈ dr')

def InfoAt (os : Objects) (t sid tm : Nat) : Prop := ∃ c h x y, dictGet? os t = some (.tableInfo sid tm c h x y)

/-- what every step keeps -/
structure Ext (d d' : Doc) : Prop where
  maxId : d.maxId ≤ d'.maxId
  info : ∀ t sid tm, InfoAt d.objects t sid tm → InfoAt d'.objects t sid tm

/-- no table info appeared -/
def NoNew (d d' : Doc) : Prop :=
  ∀ k p tm c h x y, (k, Obj.tableInfo p tm c h x y) ∈ d'.objects → ∃ c' h' x' y', (k, Obj.tableInfo p tm c' h' x' y') ∈ d.objects

theorem Ext.refl (d : Doc) : Ext d d := ⟨Nat.le_refl _, fun _ _ _ h => h⟩

theorem Ext.trans {a b c : Doc} (h1 : Ext a b) (h2 : Ext b c) : Ext a c :=
  ⟨Nat.le_trans h1.maxId h2.maxId, fun t s tm h => h2.info t s tm (h1.info t s tm h)⟩

theorem NoNew.refl (d : Doc) : NoNew d d := fun _ _ _ c h x y hm => ⟨c, h, x, y, hm⟩

theorem NoNew.trans {a b c : Doc} (h1 : NoNew a b) (h2 : NoNew b c) : NoNew a c := by
  intro k p tm cc h x y hm
  obtain ⟨c', h', x', y', hm'⟩ := h2 k p tm cc h x y hm
  exact h1 k p tm c' h' x' y' hm'

theorem dictGet?_append_of_some {β : Type} (os l : List (Nat × β)) (k : Nat) (o : β) (h : dictGet? os k = some o) :
    dictGet? (os ++ l) k = some o := by
  induction os with
  | nil => simp [dictGet?] at h
  | cons b s ih =>
    obtain ⟨k', o'⟩ := b
    simp only [dictGet?, List.cons_append] at h ⊢
    split
    · rename_i hk; simpa [hk] using h
    · rename_i hk; simp only [hk, if_false] at h; exact ih h

/-! ### creation -/

theorem createObject_ok (d : Doc) (pat : Text) (o : Obj) (d' : Doc) (id : Nat) (h : createObject d pat o = .ok (d', id)) :
    id = d.maxId + 1 ∧ d'.maxId = d.maxId + 1 ∧ d'.objects = dictSet d.objects (d.maxId + 1) o := by
  unfold createObject at h
  split at h
  · injection h with h; injection h with h1 h2; subst h1; subst h2; exact ⟨rfl, rfl, rfl⟩
  · injection h with h; injection h with h1 h2; subst h1; subst h2; exact ⟨rfl, rfl, rfl⟩

/-- creation raises nothing, whatever the file store holds (after fixes/C19-new-objects-go-to-iwa-members.patch) -/
theorem createObject_total (d : Doc) (pat : Text) (o : Obj) :
    ∃ d', createObject d pat o = .ok (d', d.maxId + 1) ∧ d'.maxId = d.maxId + 1 ∧
      d'.objects = dictSet d.objects (d.maxId + 1) o := by
  unfold createObject
  split
  · exact ⟨_, rfl, rfl, rfl⟩
  · exact ⟨_, rfl, rfl, rfl⟩

theorem createOthers_total (ps : List Text) (d : Doc) : ∃ d', createOthers ps d = .ok d' := by
  induction ps generalizing d with
  | nil => exact ⟨d, rfl⟩
  | cons p ps ih =>
    obtain ⟨d1, h1, _⟩ := createObject_total d p .other
    obtain ⟨d2, h2⟩ := ih d1
    exact ⟨d2, by simp only [createOthers, h1, bind, Except.bind]; exact h2⟩

theorem fresh_of_bound {P : List Nat} {d : Doc} (hv : ValidP P d) : d.maxId + 1 ∉ dictKeys d.objects := by
  intro h
  have := hv.bound _ h
  omega

/-- appending an object that is not a table info under a fresh identifier -/
theorem validP_append_other {P : List Nat} {d d' : Doc} (hv : ValidP P d) (o : Obj) (ho : ¬ IsInfo o)
    (hm : d'.maxId = d.maxId + 1) (hob : d'.objects = dictSet d.objects (d.maxId + 1) o) :
    ValidP P d' ∧ Ext d d' ∧ NoNew d d' ∧ dictGet? d'.objects (d.maxId + 1) = some o := by
  have hfresh := fresh_of_bound hv
  have hobj : d'.objects = d.objects ++ [(d.maxId + 1, o)] := by rw [hob, dictSet_fresh _ _ _ hfresh]
  have hmem : ∀ k p tm c h x y, (k, Obj.tableInfo p tm c h x y) ∈ d'.objects → (k, Obj.tableInfo p tm c h x y) ∈ d.objects := by
    intro k p tm c h x y hm'
    rw [hobj] at hm'
    rcases List.mem_append.mp hm' with h | h
    · exact h
    · simp only [List.mem_singleton, Prod.mk.injEq] at h
      obtain ⟨_, rfl⟩ := h
      exact absurd trivial ho
  refine ⟨⟨?_, ?_, ?_, ?_, ?_⟩, ⟨by omega, ?_⟩, ?_, ?_⟩
  · rw [hobj]
    simp only [dictKeys, List.map_append, List.map_cons, List.map_nil]
    exact List.nodup_append.mpr ⟨hv.nodup, by simp, by
      intro a ha b hb
      simp only [List.mem_singleton] at hb; subst hb
      rintro rfl; exact hfresh ha⟩
  · intro k hk
    rw [hobj] at hk
    simp only [dictKeys, List.map_append, List.map_cons, List.map_nil, List.mem_append, List.mem_singleton] at hk
    rcases hk with hk | rfl
    · have := hv.bound k hk; omega
    · omega
  · intro k p tm c h x y hm'
    rcases hv.listed k p tm c h x y (hmem _ _ _ _ _ _ _ hm') with h1 | ⟨nm, dr, h1, h2⟩
    · exact Or.inl h1
    · exact Or.inr ⟨nm, dr, by rw [hobj]; exact dictGet?_append_of_some _ _ _ _ h1, h2⟩
  · intro k p tm c h x y hm'
    have := hv.refs k p tm c h x y (hmem _ _ _ _ _ _ _ hm'); omega
  · intro k k' p p' tm c c' h h' x x' y y' h1 h2
    exact hv.uniq _ _ _ _ _ _ _ _ _ _ _ _ _ (hmem _ _ _ _ _ _ _ h1) (hmem _ _ _ _ _ _ _ h2)
  · rintro t sid tm ⟨c, h, x, y, hg⟩
    exact ⟨c, h, x, y, by rw [hobj]; exact dictGet?_append_of_some _ _ _ _ hg⟩
  · intro k p tm c h x y hm'
    exact ⟨c, h, x, y, hmem _ _ _ _ _ _ _ hm'⟩
  · rw [hob, dictGet?_dictSet]; simp

theorem createObject_valid {P : List Nat} {d d' : Doc} (hv : ValidP P d) (pat : Text) (o : Obj) (ho : ¬ IsInfo o) (id : Nat)
    (h : createObject d pat o = .ok (d', id)) :
    ValidP P d' ∧ Ext d d' ∧ NoNew d d' ∧ id = d.maxId + 1 ∧ d'.maxId = d.maxId + 1 ∧ dictGet? d'.objects id = some o := by
  obtain ⟨h1, h2, h3⟩ := createObject_ok d pat o d' id h
  obtain ⟨a, b, n, c⟩ := validP_append_other hv o ho h2 h3
  exact ⟨a, b, n, h1, h2, by rw [h1]; exact c⟩

theorem createOthers_valid {P : List Nat} (ps : List Text) {d d' : Doc} (hv : ValidP P d) (h : createOthers ps d = .ok d') :
    ValidP P d' ∧ Ext d d' ∧ NoNew d d' := by
  induction ps generalizing d with
  | nil => simp only [createOthers] at h; injection h with h; subst h; exact ⟨hv, Ext.refl d, NoNew.refl d⟩
  | cons p ps ih =>
    simp only [createOthers, bind, Except.bind] at h
    split at h
    · cases h
    · rename_i r hr
      obtain ⟨d1, id⟩ := r
      obtain ⟨v1, e1, n1, _⟩ := createObject_valid hv p .other (by simp [IsInfo]) id hr
      obtain ⟨v2, e2, n2⟩ := ih v1 h
      exact ⟨v2, e1.trans e2, n1.trans n2⟩

/-- creating the table info of `add_table`: its model is not yet the model of another info -/
theorem createInfo_valid {P : List Nat} {d d' : Doc} (hv : ValidP P d) (pat : Text) (sid tm c : Nat) (hd : Bool) (x y id : Nat)
    (htm : tm ≤ d.maxId) (hnew : ∀ k p c h x y, (k, Obj.tableInfo p tm c h x y) ∉ d.objects)
    (h : createObject d pat (.tableInfo sid tm c hd x y) = .ok (d', id)) :
    ValidP (id :: P) d' ∧ Ext d d' ∧ id = d.maxId + 1 ∧ InfoAt d'.objects id sid tm := by
  obtain ⟨h1, h2, h3⟩ := createObject_ok d pat _ d' id h
  have hfresh := fresh_of_bound hv
  have hobj : d'.objects = d.objects ++ [(d.maxId + 1, .tableInfo sid tm c hd x y)] := by rw [h3, dictSet_fresh _ _ _ hfresh]
  have hmem : ∀ k p tm' c' h' x' y', (k, Obj.tableInfo p tm' c' h' x' y') ∈ d'.objects →
      (k, Obj.tableInfo p tm' c' h' x' y') ∈ d.objects ∨ (k = d.maxId + 1 ∧ tm' = tm) := by
    intro k p tm' c' h' x' y' hm'
    rw [hobj] at hm'
    rcases List.mem_append.mp hm' with h | h
    · exact Or.inl h
    · simp only [List.mem_singleton, Prod.mk.injEq, Obj.tableInfo.injEq] at h
      exact Or.inr ⟨h.1, h.2.2.1⟩
  refine ⟨⟨?_, ?_, ?_, ?_, ?_⟩, ⟨by omega, ?_⟩, h1, ?_⟩
  · rw [hobj]
    simp only [dictKeys, List.map_append, List.map_cons, List.map_nil]
    exact List.nodup_append.mpr ⟨hv.nodup, by simp, by
      intro a ha b hb
      simp only [List.mem_singleton] at hb; subst hb
      rintro rfl; exact hfresh ha⟩
  · intro k hk
    rw [hobj] at hk
    simp only [dictKeys, List.map_append, List.map_cons, List.map_nil, List.mem_append, List.mem_singleton] at hk
    rcases hk with hk | rfl
    · have := hv.bound k hk; omega
    · omega
  · intro k p tm' c' h' x' y' hm'
    rcases hmem _ _ _ _ _ _ _ hm' with hm'' | ⟨rfl, _⟩
    · rcases hv.listed k p tm' c' h' x' y' hm'' with h1' | ⟨nm, dr, h1', h2'⟩
      · exact Or.inl (List.mem_cons_of_mem _ h1')
      · exact Or.inr ⟨nm, dr, by rw [hobj]; exact dictGet?_append_of_some _ _ _ _ h1', h2'⟩
    · exact Or.inl (by rw [h1]; exact List.mem_cons_self)
  · intro k p tm' c' h' x' y' hm'
    rcases hmem _ _ _ _ _ _ _ hm' with hm'' | ⟨_, rfl⟩
    · have := hv.refs k p tm' c' h' x' y' hm''; omega
    · omega
  · intro k k' p p' tm' c1 c2 hh1 hh2 x1 x2 y1 y2 m1 m2
    rcases hmem _ _ _ _ _ _ _ m1 with a | ⟨a1, a2⟩ <;> rcases hmem _ _ _ _ _ _ _ m2 with b | ⟨b1, b2⟩
    · exact hv.uniq _ _ _ _ _ _ _ _ _ _ _ _ _ a b
    · subst b2; exact absurd a (hnew _ _ _ _ _ _)
    · subst a2; exact absurd b (hnew _ _ _ _ _ _)
    · rw [a1, b1]
  · rintro t s tm' ⟨c', h', x', y', hg⟩
    exact ⟨c', h', x', y', by rw [hobj]; exact dictGet?_append_of_some _ _ _ _ hg⟩
  · exact ⟨c, hd, x, y, by rw [h1, h3, dictGet?_dictSet]; simp⟩

/-! ### setters -/

theorem modify_ok (d : Doc) (k : Nat) (f : Obj → PyM Obj) (d' : Doc) (h : modify d k f = .ok d') :
    ∃ o o', dictGet? d.objects k = some o ∧ f o = .ok o' ∧ d' = { d with objects := dictSet d.objects k o' } := by
  simp only [modify, getObj, dictGet, bind, Except.bind] at h
  cases hg : dictGet? d.objects k with
  | none => simp [hg] at h
  | some o =>
    simp only [hg] at h
    cases hf : f o with
    | error e => simp [hf] at h
    | ok o' =>
      simp only [hf] at h
      injection h with h
      exact ⟨o, o', rfl, hf, h.symm⟩

theorem modify_valid {P : List Nat} {d d' : Doc} (hv : ValidP P d) (k : Nat) (f : Obj → PyM Obj)
    (hc : ∀ o o', f o = .ok o' → Compat o o') (h : modify d k f = .ok d') :
    ValidP P d' ∧ Ext d d' ∧ NoNew d d' ∧ d'.maxId = d.maxId ∧
      (∃ o o', dictGet? d.objects k = some o ∧ f o = .ok o' ∧ dictGet? d'.objects k = some o') ∧
      (∀ j, j ≠ k → dictGet? d'.objects j = dictGet? d.objects j) := by
  obtain ⟨o, o', hg, hf, rfl⟩ := modify_ok d k f d' h
  obtain ⟨c1, c2, c3⟩ := hc o o' hf
  have hk : k ∈ dictKeys d.objects := mem_keys_of_get _ _ _ hg
  have hkeys := dictKeys_dictSet_of_mem d.objects k o' hk
  have hko : (k, o) ∈ d.objects := mem_of_dictGet? _ _ _ hg
  -- a table info of the new store is a table info of the old one with the same key, sheet and model
  have back : ∀ j p tm c h x y, (j, Obj.tableInfo p tm c h x y) ∈ dictSet d.objects k o' →
      ∃ c' h' x' y', (j, Obj.tableInfo p tm c' h' x' y') ∈ d.objects := by
    intro j p tm c hh x y hm
    rcases mem_dictSet' d.objects hv.nodup k o' j _ hm with ⟨hjk, ho⟩ | ⟨_, hm'⟩
    · obtain ⟨c', h', x', y', e⟩ := c2 p tm c hh x y ho.symm
      exact ⟨c', h', x', y', by rw [hjk, ← e]; exact hko⟩
    · exact ⟨c, hh, x, y, hm'⟩
  have sheetKeep : ∀ p nm dr, dictGet? d.objects p = some (.sheet nm dr) →
      ∃ nm' dr', dictGet? (dictSet d.objects k o') p = some (.sheet nm' dr') ∧ ∀ a ∈ dr, a ∈ dr' := by
    intro p nm dr hp
    rw [dictGet?_dictSet]
    by_cases hkp : k = p
    · subst hkp
      rw [hg] at hp; injection hp with hp
      obtain ⟨nm', dr', e, hs⟩ := c3 nm dr hp
      exact ⟨nm', dr', by simp [e], hs⟩
    · exact ⟨nm, dr, by simp [hkp, hp], fun a ha => ha⟩
  refine ⟨⟨?_, ?_, ?_, ?_, ?_⟩, ⟨Nat.le_refl _, ?_⟩, back, rfl, ⟨o, o', hg, hf, by simp [dictGet?_dictSet]⟩, ?_⟩
  · simpa [hkeys] using hv.nodup
  · intro j hj; simp only [hkeys] at hj; exact hv.bound j hj
  · intro j p tm c h x y hm
    obtain ⟨c', h', x', y', hm'⟩ := back j p tm c h x y hm
    rcases hv.listed j p tm c' h' x' y' hm' with h1 | ⟨nm, dr, h1, h2⟩
    · exact Or.inl h1
    · obtain ⟨nm', dr', e, hs⟩ := sheetKeep p nm dr h1
      exact Or.inr ⟨nm', dr', e, hs j h2⟩
  · intro j p tm c h x y hm
    obtain ⟨c', h', x', y', hm'⟩ := back j p tm c h x y hm
    exact hv.refs j p tm c' h' x' y' hm'
  · intro j j' p p' tm c c' h h' x x' y y' m1 m2
    obtain ⟨_, _, _, _, a⟩ := back _ _ _ _ _ _ _ m1
    obtain ⟨_, _, _, _, b⟩ := back _ _ _ _ _ _ _ m2
    exact hv.uniq _ _ _ _ _ _ _ _ _ _ _ _ _ a b
  · rintro t s tm ⟨c, h, x, y, hgt⟩
    simp only [InfoAt, dictGet?_dictSet]
    by_cases hkt : k = t
    · subst hkt
      rw [hg] at hgt; injection hgt with hgt
      obtain ⟨c', h', x', y', e⟩ := c1 s tm c h x y hgt
      exact ⟨c', h', x', y', by simp [e]⟩
    · exact ⟨c, h, x, y, by simp [hkt, hgt]⟩
  · intro j hj
    simp only [dictGet?_dictSet, Ne.symm hj, if_false]

/-- a pending table info that its sheet lists is not pending any more -/
theorem validP_discharge {P : List Nat} {d : Doc} (t sid tm : Nat) (hv : ValidP (t :: P) d) (hi : InfoAt d.objects t sid tm)
    (nm : Text) (dr : List Nat) (hs : dictGet? d.objects sid = some (.sheet nm dr)) (ht : t ∈ dr) : ValidP P d := by
  refine ⟨hv.nodup, hv.bound, ?_, hv.refs, hv.uniq⟩
  intro k p tm' c h x y hm
  rcases hv.listed k p tm' c h x y hm with h1 | h1
  · rcases List.mem_cons.mp h1 with rfl | h1
    · obtain ⟨c', h', x', y', hg⟩ := hi
      have := dictGet?_of_mem d.objects hv.nodup _ _ hm
      rw [hg] at this
      injection this with this
      injection this with e1
      subst e1
      exact Or.inr ⟨nm, dr, hs, ht⟩
    · exact Or.inl h1
  · exact Or.inr h1

/-! ### the operations -/

theorem bind_ok {α β : Type} (x : PyM α) (f : α → PyM β) (b : β) (h : (x >>= f) = .ok b) : ∃ a, x = .ok a ∧ f a = .ok b := by
  cases x with
  | error e => cases h
  | ok a => exact ⟨a, rfl, h⟩

/-- a setter of plain fields of a table model (or of anything that is neither a table info nor a sheet) -/
theorem compat_model (f : Obj → PyM Obj)
    (hf : ∀ o o', f o = .ok o' → ∃ a b c e a' b' c' e', o = .tableModel a b c e ∧ o' = .tableModel a' b' c' e') :
    ∀ o o', f o = .ok o' → Compat o o' := by
  intro o o' h
  obtain ⟨a, b, c, e, a', b', c', e', rfl, rfl⟩ := hf o o' h
  refine ⟨?_, ?_, ?_⟩ <;> intros <;> simp_all

theorem setSheetName_valid {P : List Nat} {d d' : Doc} (hv : ValidP P d) (sid : Nat) (s : Text)
    (h : setSheetName d sid s = .ok d') : ValidP P d' ∧ Ext d d' ∧ NoNew d d' := by
  obtain ⟨a, b, c, _⟩ := modify_valid hv sid _ (by
    intro o o' h
    cases o <;> simp only [reduceCtorEq] at h
    injection h with h; subst h
    refine ⟨?_, ?_, ?_⟩ <;> intros <;> simp_all) h
  exact ⟨a, b, c⟩

theorem modelSetter_valid {P : List Nat} {d d' : Doc} (hv : ValidP P d) (tid : Nat) (f : Obj → PyM Obj)
    (hf : ∀ o o', f o = .ok o' → ∃ a b c e a' b' c' e', o = .tableModel a b c e ∧ o' = .tableModel a' b' c' e')
    (h : modify d tid f = .ok d') : ValidP P d' ∧ Ext d d' ∧ NoNew d d' := by
  obtain ⟨a, b, c, _⟩ := modify_valid hv tid f (compat_model f hf) h
  exact ⟨a, b, c⟩

macro "model_setter" : tactic =>
  `(tactic| (intro o o' h; cases o <;> simp only [reduceCtorEq] at h; injection h with h; subst h; exact ⟨_, _, _, _, _, _, _, _, rfl, rfl⟩))

theorem infoSetter_compat (f : Obj → PyM Obj)
    (hf : ∀ o o', f o = .ok o' → ∃ p tm c h x y c' h', o = .tableInfo p tm c h x y ∧ o' = .tableInfo p tm c' h' x y) :
    ∀ o o', f o = .ok o' → Compat o o' := by
  intro o o' h
  obtain ⟨p, tm, c, hh, x, y, c', h', rfl, rfl⟩ := hf o o' h
  refine ⟨?_, ?_, ?_⟩
  · intro p1 tm1 c1 h1 x1 y1 e; injection e with e1 e2; subst e1; subst e2; exact ⟨_, _, _, _, rfl⟩
  · intro p1 tm1 c1 h1 x1 y1 e; injection e with e1 e2; subst e1; subst e2; exact ⟨_, _, _, _, rfl⟩
  · intro nm dr e; cases e

theorem setCaptionEnabled_valid {P : List Nat} {d d' : Doc} (hv : ValidP P d) (tid : Nat) (b : Bool)
    (h : setCaptionEnabled d tid b = .ok d') : ValidP P d' ∧ Ext d d' ∧ NoNew d d' := by
  unfold setCaptionEnabled at h
  obtain ⟨ti, _, h⟩ := bind_ok _ _ _ h
  obtain ⟨a, b', c, _⟩ := modify_valid hv ti _ (infoSetter_compat _ (by
    intro o o' h
    cases o <;> simp only [reduceCtorEq] at h
    injection h with h; subst h
    exact ⟨_, _, _, _, _, _, _, _, rfl, rfl⟩)) h
  exact ⟨a, b', c⟩

theorem createCaptionArchive_valid {P : List Nat} {d d' : Doc} (hv : ValidP P d) (tid : Nat)
    (h : createCaptionArchive d tid = .ok d') : ValidP P d' ∧ Ext d d' ∧ NoNew d d' := by
  unfold createCaptionArchive at h
  obtain ⟨ti, _, h⟩ := bind_ok _ _ _ h
  obtain ⟨_, _, h⟩ := bind_ok _ _ _ h
  obtain ⟨⟨d1, i1⟩, h1, h⟩ := bind_ok _ _ _ h
  obtain ⟨⟨d2, ci⟩, h2, h⟩ := bind_ok _ _ _ h
  obtain ⟨⟨d3, st⟩, h3, h⟩ := bind_ok _ _ _ h
  obtain ⟨d4, h4, h⟩ := bind_ok _ _ _ h
  obtain ⟨v1, e1, n1, _⟩ := createObject_valid hv _ _ (by simp [IsInfo]) _ h1
  obtain ⟨v2, e2, n2, _⟩ := createObject_valid v1 _ _ (by simp [IsInfo]) _ h2
  obtain ⟨v3, e3, n3, _⟩ := createObject_valid v2 _ _ (by simp [IsInfo]) _ h3
  obtain ⟨v4, e4, n4, _⟩ := modify_valid v3 ci _ (by
    intro o o' h
    cases o <;> simp only [reduceCtorEq] at h
    injection h with h; subst h
    refine ⟨?_, ?_, ?_⟩ <;> intros <;> simp_all) h4
  obtain ⟨v5, e5, n5, _⟩ := modify_valid v4 ti _ (infoSetter_compat _ (by
    intro o o' h
    cases o <;> simp only [reduceCtorEq] at h
    injection h with h; subst h
    exact ⟨_, _, _, _, _, _, _, _, rfl, rfl⟩)) h
  exact ⟨v5, (((e1.trans e2).trans e3).trans e4).trans e5, (((n1.trans n2).trans n3).trans n4).trans n5⟩

theorem setCaption_valid {P : List Nat} {d d' : Doc} (hv : ValidP P d) (tid : Nat) (s : Text)
    (h : setCaption d tid s = .ok d') : ValidP P d' ∧ Ext d d' ∧ NoNew d d' := by
  unfold setCaption at h
  obtain ⟨ti, _, h⟩ := bind_ok _ _ _ h
  obtain ⟨oi, _, h⟩ := bind_ok _ _ _ h
  cases oi <;> simp only [reduceCtorEq] at h
  obtain ⟨⟨d1, capObj⟩, h1, h⟩ := bind_ok _ _ _ h
  have hd1 : ValidP P d1 ∧ Ext d d1 ∧ NoNew d d1 := by
    obtain ⟨oc, _, h1⟩ := bind_ok _ _ _ h1
    cases oc
    case standinCaption =>
      simp only at h1
      obtain ⟨dd, hc, h1⟩ := bind_ok _ _ _ h1
      obtain ⟨oi', _, h1⟩ := bind_ok _ _ _ h1
      cases oi' <;> simp only [reduceCtorEq] at h1
      obtain ⟨o2, _, h1⟩ := bind_ok _ _ _ h1
      injection h1 with h1; injection h1 with e1 _; subst e1
      exact createCaptionArchive_valid hv tid hc
    all_goals
      simp only at h1
      injection h1 with h1; injection h1 with e1 _; subst e1
      exact ⟨hv, Ext.refl _, NoNew.refl _⟩
  obtain ⟨v1, e1, n1⟩ := hd1
  cases capObj <;> simp only [reduceCtorEq] at h
  obtain ⟨v2, e2, n2, _⟩ := modify_valid v1 _ _ (by
    intro o o' h
    cases o <;> simp only [reduceCtorEq] at h
    injection h with h; subst h
    refine ⟨?_, ?_, ?_⟩ <;> intros <;> simp_all) h
  exact ⟨v2, e1.trans e2, n1.trans n2⟩

theorem addSheet_valid {P : List Nat} {d d' : Doc} (hv : ValidP P d) (name : Text) (sid : Nat)
    (h : addSheet d name = .ok (d', sid)) : ValidP P d' ∧ Ext d d' ∧ NoNew d d' := by
  unfold addSheet at h
  obtain ⟨⟨d1, s1⟩, h1, h⟩ := bind_ok _ _ _ h
  obtain ⟨d2, h2, h⟩ := bind_ok _ _ _ h
  injection h with h; injection h with e1 _; subst e1
  obtain ⟨v1, e1, n1, _⟩ := createObject_valid hv _ _ (by simp [IsInfo]) _ h1
  obtain ⟨v2, e2, n2, _⟩ := modify_valid v1 _ _ (by
    intro o o' h
    cases o <;> simp only [reduceCtorEq] at h
    injection h with h; subst h
    refine ⟨?_, ?_, ?_⟩ <;> intros <;> simp_all) h2
  exact ⟨v2, e1.trans e2, n1.trans n2⟩

theorem addTable_valid {P : List Nat} {d d' : Doc} (hv : ValidP P d) (sid : Nat) (name : Text) (ft x y nr hr hc tm : Nat)
    (h : addTable d sid name ft x y nr hr hc = .ok (d', tm)) : ValidP P d' ∧ Ext d d' := by
  unfold addTable at h
  obtain ⟨_, _, h⟩ := bind_ok _ _ _ h
  obtain ⟨d1, h1, h⟩ := bind_ok _ _ _ h
  obtain ⟨⟨d2, tm'⟩, h2, h⟩ := bind_ok _ _ _ h
  obtain ⟨d3, h3, h⟩ := bind_ok _ _ _ h
  obtain ⟨⟨d4, ti⟩, h4, h⟩ := bind_ok _ _ _ h
  obtain ⟨d5, h5, h⟩ := bind_ok _ _ _ h
  obtain ⟨d6, h6, h⟩ := bind_ok _ _ _ h
  obtain ⟨d7, h7, h⟩ := bind_ok _ _ _ h
  obtain ⟨d8, h8, h⟩ := bind_ok _ _ _ h
  injection h with h; injection h with e1 _; subst e1
  obtain ⟨v1, e1, n1⟩ := createOthers_valid _ hv h1
  obtain ⟨v2, e2, n2, htm, hm2, _⟩ := createObject_valid v1 _ _ (by simp [IsInfo]) _ h2
  obtain ⟨v3, e3, n3⟩ := createOthers_valid _ v2 h3
  have hnew : ∀ k p c h x y, (k, Obj.tableInfo p tm' c h x y) ∉ d3.objects := by
    intro k p c hh x' y' hm
    obtain ⟨c1, hh1, x1, y1, hm1⟩ := (n2.trans n3) _ _ _ _ _ _ _ hm
    have := v1.refs _ _ _ _ _ _ _ hm1
    omega
  obtain ⟨v4, e4, _, hi4⟩ := createInfo_valid v3 _ sid tm' 0 false x y ti (by have := e3.maxId; omega) hnew h4
  obtain ⟨v5, e5, _⟩ := createOthers_valid _ v4 h5
  obtain ⟨v6, e6, _⟩ := createCaptionArchive_valid v5 _ h6
  obtain ⟨v7, e7, _⟩ := setCaptionEnabled_valid v6 _ _ h7
  obtain ⟨v8, e8, _, _, ⟨o, o', hg, hf, hg'⟩, _⟩ := modify_valid v7 sid _ (by
    intro o o' h
    cases o <;> simp only [reduceCtorEq] at h
    injection h with h; subst h
    refine ⟨?_, ?_, ?_⟩ <;> intros <;> simp_all) h8
  have hi8 : InfoAt d8.objects ti sid tm' := e8.info _ _ _ (e7.info _ _ _ (e6.info _ _ _ (e5.info _ _ _ hi4)))
  cases o <;> simp only [reduceCtorEq] at hf
  rename_i nm dr
  injection hf with hf; subst hf
  exact ⟨validP_discharge ti sid tm' v8 hi8 nm (dr ++ [ti]) hg' (by simp),
    ((((((e1.trans e2).trans e3).trans e4).trans e5).trans e6).trans e7).trans e8⟩

theorem step_valid {P : List Nat} {d d' : Doc} (hv : ValidP P d) (op : Op) (h : step d op = .ok d') : ValidP P d' ∧ Ext d d' := by
  cases op with
  | addSheet nm =>
    simp only [step] at h
    obtain ⟨⟨d1, s⟩, h1, h⟩ := bind_ok _ _ _ h
    injection h with h; subst h
    obtain ⟨a, b, _⟩ := addSheet_valid hv nm s h1; exact ⟨a, b⟩
  | addTable sid nm ft x y nr hr hc =>
    simp only [step] at h
    obtain ⟨⟨d1, s⟩, h1, h⟩ := bind_ok _ _ _ h
    injection h with h; subst h
    exact addTable_valid hv sid nm ft x y nr hr hc s h1
  | setSheetName sid s => obtain ⟨a, b, _⟩ := setSheetName_valid hv sid s h; exact ⟨a, b⟩
  | setTableName tid s => obtain ⟨a, b, _⟩ := modelSetter_valid hv tid _ (by model_setter) h; exact ⟨a, b⟩
  | setNameEnabled tid b => obtain ⟨a, b, _⟩ := modelSetter_valid hv tid _ (by model_setter) h; exact ⟨a, b⟩
  | setCaptionEnabled tid b => obtain ⟨a, b, _⟩ := setCaptionEnabled_valid hv tid b h; exact ⟨a, b⟩
  | setCaption tid s => obtain ⟨a, b, _⟩ := setCaption_valid hv tid s h; exact ⟨a, b⟩
  | setHdrRows tid n => obtain ⟨a, b, _⟩ := modelSetter_valid hv tid _ (by model_setter) h; exact ⟨a, b⟩
  | setHdrCols tid n => obtain ⟨a, b, _⟩ := modelSetter_valid hv tid _ (by model_setter) h; exact ⟨a, b⟩
  | createOthers ps => obtain ⟨a, b, _⟩ := createOthers_valid ps hv h; exact ⟨a, b⟩

theorem run_valid {P : List Nat} (ops : List Op) {d d' : Doc} (hv : ValidP P d) (h : run d ops = .ok d') : ValidP P d' := by
  induction ops generalizing d with
  | nil => simp only [run] at h; injection h with h; subst h; exact hv
  | cons op ops ih =>
    simp only [run] at h
    obtain ⟨d1, h1, h⟩ := bind_ok _ _ _ h
    exact ih (step_valid hv op h1).1 h

end NumbersModel.DocTree
